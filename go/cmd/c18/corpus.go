package main

// corpus.go — hand-made edge inputs and the witnesses of the defects found (run first, every run).

import (
	"bytes"
	"crypto/sha256"
	"encoding/binary"
	"encoding/hex"
	"fmt"
	"math/big"

	"github.com/piotrnar/gocoin/client/common"
	"github.com/piotrnar/gocoin/lib/btc"
	"github.com/piotrnar/gocoin/lib/others/siphash"
)

func H(b []byte) string { return hex.EncodeToString(b) }

func vint(v uint64) []byte {
	var t [9]byte
	n := btc.PutULe(t[:], v)
	return append([]byte{}, t[:n]...)
}

// vintForm encodes v in the CompactSize form with the given total size (1,3,5,9), minimal or not.
func vintForm(v uint64, size int) []byte {
	switch size {
	case 1:
		return []byte{byte(v)}
	case 3:
		return []byte{0xfd, byte(v), byte(v >> 8)}
	case 5:
		b := make([]byte, 5)
		b[0] = 0xfe
		binary.LittleEndian.PutUint32(b[1:], uint32(v))
		return b
	}
	b := make([]byte, 9)
	b[0] = 0xff
	binary.LittleEndian.PutUint64(b[1:], v)
	return b
}

func cat(bs ...[]byte) []byte { return bytes.Join(bs, nil) }

// versionMsg builds a version payload: 80 fixed bytes, then (optionally) agent, height, relay flag.
func versionMsg(ver uint32, services uint64, nonce uint64, agentLen []byte, agent []byte, tail []byte) []byte {
	b := make([]byte, 80)
	binary.LittleEndian.PutUint32(b[0:4], ver)
	binary.LittleEndian.PutUint64(b[4:12], services)
	binary.LittleEndian.PutUint64(b[12:20], 1700000000)
	copy(b[40:44], []byte{8, 8, 8, 8})
	binary.LittleEndian.PutUint64(b[72:80], nonce)
	return cat(b, agentLen, agent, tail)
}

// wrapCount solves k*cnt ≡ rem (mod 2^64) for odd part handling: returns the smallest cnt>0 with
// (k*cnt) mod 2^64 == rem, or 0 if none (rem must be divisible by the power of two in k).
func wrapCount(k, rem uint64) uint64 {
	// k = 2^s * m (m odd): need rem divisible by 2^s; cnt ≡ (rem/2^s) * m^-1 mod 2^(64-s)
	s := uint(0)
	m := k
	for m%2 == 0 {
		m /= 2
		s++
	}
	if rem&((1<<s)-1) != 0 {
		return 0
	}
	mod := new(big.Int).Lsh(big.NewInt(1), 64-s)
	inv := new(big.Int).ModInverse(new(big.Int).SetUint64(m), mod)
	x := new(big.Int).Mul(inv, new(big.Int).SetUint64(rem>>s))
	x.Mod(x, mod)
	c := x.Uint64()
	if c == 0 {
		c = mod.Uint64() // 2^(64-s): k*c = 2^64*m ≡ 0
	}
	return c
}

// wire frames a message the way the network does (checksum always filled in).
func wire(cmd string, pl []byte, lenField uint32) []byte {
	var h [24]byte
	copy(h[0:4], common.Magic[:])
	copy(h[4:16], cmd)
	binary.LittleEndian.PutUint32(h[16:20], lenField)
	s := btc.Sha2Sum(pl)
	copy(h[20:24], s[:4])
	return cat(h[:], pl)
}

// cmpctMsg builds a cmpctblock payload for the given header.
type prefilled struct {
	diff []byte // CompactSize of the differential index
	tx   []byte
}

func cmpctMsg(hdr []byte, nonce uint64, shortCnt []byte, shortids [][]byte, preCnt []byte, pre []prefilled) []byte {
	var n [8]byte
	binary.LittleEndian.PutUint64(n[:], nonce)
	b := cat(hdr[:80], n[:], shortCnt)
	for _, s := range shortids {
		b = append(b, s...)
	}
	b = append(b, preCnt...)
	for _, p := range pre {
		b = cat(b, p.diff, p.tx)
	}
	return b
}

func shortID(hdr []byte, nonce uint64, txhash []byte) []byte {
	var n [8]byte
	binary.LittleEndian.PutUint64(n[:], nonce)
	s := sha256.Sum256(cat(hdr[:80], n[:]))
	k0 := binary.LittleEndian.Uint64(s[0:8])
	k1 := binary.LittleEndian.Uint64(s[8:16])
	v := siphash.Hash(k0, k1, txhash) & 0xffffffffffff
	var o [8]byte
	binary.LittleEndian.PutUint64(o[:], v)
	return o[:6]
}

// blockTxs splits a raw block into its raw transactions.
func blockTxs(raw []byte) [][]byte {
	bl, err := btc.NewBlock(raw)
	if err != nil || bl.BuildTxList() != nil {
		return nil
	}
	var out [][]byte
	for _, t := range bl.Txs {
		out = append(out, t.Raw)
	}
	return out
}

// Corpus returns the fixed cases. Witness cases carry the key of the defect they demonstrate in Note
// ("W:<key>"), so that a failure on them is reported under that key.
func Corpus(e *Env) []Case {
	var cs []Case
	add := func(note, cmd, pre string, pl []byte, seq ...Msg) {
		cs = append(cs, Case{Cmd: cmd, Pl: H(pl), Pre: pre, Note: note, Seq: seq})
	}
	// ---- version
	v82 := make([]byte, 82)
	v82[80] = 2
	add("W:version-agent-len", "version", "nover", v82)
	add("W:version-agent-len-neg", "version", "nover", versionMsg(70016, 0x409, 5, vintForm(1<<63, 9), nil, nil))
	add("W:version-agent-len-wrap", "version", "nover", versionMsg(70016, 0x409, 5, vintForm((1<<63)-40, 9), nil, nil))
	add("version-ok", "version", "nover", versionMsg(70016, 0x409, 77, vint(16), []byte("/Satoshi:27.0.0/"), []byte{100, 0, 0, 0, 1}))
	add("version-ok-norelay", "version", "nover", versionMsg(70016, 0x409, 78, vint(3), []byte("/x/"), []byte{1, 2, 0, 0, 0}))
	add("version-80", "version", "nover", versionMsg(70016, 0x409, 79, nil, nil, nil))
	add("version-81", "version", "nover", versionMsg(70016, 0x409, 80, []byte{0}, nil, nil))
	add("version-79", "version", "nover", make([]byte, 79))
	add("version-0", "version", "nover", nil)
	add("version-agent-exact", "version", "nover", versionMsg(70016, 0x409, 81, vint(2), []byte("ab"), nil))
	add("version-agent-fd", "version", "nover", versionMsg(70016, 0x409, 82, vintForm(2, 3), []byte("ab"), nil))
	add("version-agent-fd-short", "version", "nover", versionMsg(70016, 0x409, 83, []byte{0xfd, 1}, nil, nil))
	add("version-low", "version", "nover", versionMsg(100, 0x409, 84, vint(0), nil, nil))
	add("version-nosegwit", "version", "nover", versionMsg(70016, 1, 85, vint(0), nil, nil))
	add("version-nullnonce", "version", "nover", versionMsg(70016, 0x409, 0, vint(0), nil, nil))
	add("version-again", "version", "", versionMsg(70016, 0x409, 86, vint(0), nil, nil))
	add("inv-before-version", "inv", "nover", cat(vint(1), make([]byte, 36)))

	// ---- inv
	add("W:inv-count-wrap", "inv", "", cat(vintForm((1<<62)+1, 9), make([]byte, 36)))
	add("W:inv-count-wrap-locked", "inv", "", cat(vintForm(wrapCount(36, 40), 9), make([]byte, 40)))
	add("W:inv-count-neg", "inv", "", cat(vintForm(wrapCount(36, 36)|1<<63, 9), make([]byte, 36)))
	add("inv-1", "inv", "", cat(vint(1), []byte{1, 0, 0, 0}, bytes.Repeat([]byte{7}, 32)))
	add("inv-2-block", "inv", "ahr", cat(vint(2), []byte{2, 0, 0, 0}, bytes.Repeat([]byte{7}, 32), []byte{2, 0, 0, 0}, e.Hashes[3].Hash[:]))
	add("inv-short", "inv", "", make([]byte, 36))
	add("inv-count-more", "inv", "", cat(vint(2), make([]byte, 36)))
	add("inv-count-less", "inv", "", cat(vint(1), make([]byte, 72)))
	add("inv-nonminimal", "inv", "", cat(vintForm(1, 3), make([]byte, 36)))
	add("inv-50000", "inv", "", cat(vint(50000), make([]byte, 36*50000)))

	// ---- getdata
	add("getdata-wrap", "getdata", "", cat(vintForm((1<<62)+1, 9), make([]byte, 36)))
	add("getdata-wrap40", "getdata", "", cat(vintForm(wrapCount(36, 40), 9), make([]byte, 40)))
	add("getdata-1", "getdata", "", cat(vint(1), []byte{2, 0, 0, 0x40}, e.Hashes[2].Hash[:]))
	add("getdata-cmpct", "getdata", "", cat(vint(1), []byte{4, 0, 0, 0}, e.Hashes[104].Hash[:]))
	// SendRawMsg(…, encrypt=true) with no AES context left the function with c.Mutex held (found by the
	// lock-trace scan; the state is not reachable through the handshake, hence set directly)
	add("W:sendrawmsg-encrypt-no-key", "getdata", "ackgot", cat(vint(1), []byte{4, 0, 0, 0}, e.Hashes[104].Hash[:]))
	add("getdata-empty", "getdata", "", nil)
	add("getdata-mismatch", "getdata", "", cat(vint(3), make([]byte, 36)))

	// ---- addr
	add("addr-0", "addr", "", nil)
	add("addr-huge-count", "addr", "", cat(vintForm(1<<63, 9), make([]byte, 30)))
	add("addr-count-more", "addr", "", cat(vint(5), make([]byte, 60)))
	add("addr-2", "addr", "", cat(vint(2), make([]byte, 60)))

	// ---- getblocks / getheaders
	loc := cat([]byte{1, 0, 0, 0}, vint(1), e.Hashes[50].Hash[:], make([]byte, 32))
	add("getheaders-1", "getheaders", "", loc)
	add("getblocks-1", "getblocks", "", loc)
	add("getheaders-nostop", "getheaders", "", loc[:len(loc)-32])
	add("getheaders-short", "getheaders", "", loc[:20])
	add("getheaders-3", "getheaders", "", []byte{1, 0, 0})
	add("getheaders-cnt-wrap", "getheaders", "", cat([]byte{1, 0, 0, 0}, vintForm(1<<59, 9), make([]byte, 32)))
	add("getheaders-0", "getheaders", "", cat([]byte{1, 0, 0, 0}, vint(0), e.Hashes[10].Hash[:]))
	add("getblocks-0", "getblocks", "", cat([]byte{1, 0, 0, 0}, vint(0), e.Hashes[10].Hash[:]))
	add("getheaders-101", "getheaders", "", cat([]byte{1, 0, 0, 0}, vint(101), make([]byte, 32*101), make([]byte, 32)))
	add("getheaders-102", "getheaders", "", cat([]byte{1, 0, 0, 0}, vint(102), make([]byte, 32*101), make([]byte, 32)))

	// ---- headers
	add("headers-0", "headers", "", vint(0))
	add("headers-empty", "headers", "", nil)
	add("headers-2001", "headers", "", vint(2001))
	add("headers-known", "headers", "", cat(vint(2), e.Blocks[5][:80], []byte{0}, e.Blocks[6][:80], []byte{0}))
	add("headers-short", "headers", "", cat(vint(2), e.Blocks[5][:80], []byte{0}, e.Blocks[6][:70]))
	add("headers-notxcnt", "headers", "", cat(vint(1), e.Blocks[5][:80]))
	add("headers-garbage", "headers", "", cat(vint(1), bytes.Repeat([]byte{0x5a}, 81)))

	// ---- tx
	txs := blockTxs(e.Blocks[104])
	add("tx-valid-mined", "tx", "", txs[1])
	add("tx-trailing", "tx", "", cat(txs[1], []byte{0}))
	add("tx-truncated", "tx", "", txs[1][:len(txs[1])-1])
	add("tx-empty", "tx", "", nil)
	add("tx-noinputs", "tx", "", cat([]byte{1, 0, 0, 0, 0, 1}, []byte{1, 2, 3, 4, 5, 6, 7, 8, 1, 0x51}, []byte{0, 0, 0, 0}))
	add("tx-nonminimal-count", "tx", "", cat([]byte{1, 0, 0, 0}, []byte{0xfd, 1, 0}, make([]byte, 41)))

	// ---- block
	add("block-short", "block", "", make([]byte, 99))
	add("block-known", "block", "", e.Blocks[7])
	add("block-garbage", "block", "", bytes.Repeat([]byte{0x33}, 200))

	// ---- getblocktxn
	h105 := e.Hashes[104].Hash[:]
	add("W:getblocktxn-index-sign", "getblocktxn", "", cat(h105, vint(1), vintForm(1<<63, 9)))
	add("W:getblocktxn-index-sum-wrap", "getblocktxn", "", cat(h105, vint(2), vint(1), vintForm(1<<63, 9)))
	add("getblocktxn-ok", "getblocktxn", "cv2", cat(h105, vint(2), vint(1), vint(1)))
	add("getblocktxn-idx5", "getblocktxn", "", cat(h105, vint(1), vint(5)))
	add("getblocktxn-short", "getblocktxn", "", h105)
	add("getblocktxn-empty", "getblocktxn", "", cat(h105, vint(0), vint(0)))
	add("getblocktxn-unknown", "getblocktxn", "", cat(make([]byte, 32), vint(1), vint(0)))
	add("getblocktxn-truncated", "getblocktxn", "", cat(h105, vint(3), vint(0)))

	// ---- cmpctblock / blocktxn (each uses a header the node has not seen)
	if sp := e.NextSpare(); sp != nil {
		cb := blockTxs(sp)[0]
		add("W:cmpctblock-prefilled-index", "cmpctblock", "cv2", cmpctMsg(sp, 1, vint(0), nil, vint(2), []prefilled{{vint(1), cb}, {vint(1), cb}}))
	}
	if sp := e.NextSpare(); sp != nil {
		cb := blockTxs(sp)[0]
		full := cmpctMsg(sp, 2, vint(0), nil, vint(1), []prefilled{{vint(0), cb}})
		add("cmpctblock-complete", "cmpctblock", "cv2", full)
	}
	if sp := e.NextSpare(); sp != nil {
		cb := blockTxs(sp)[0]
		hash := btc.NewSha2Hash(sp[:80])
		cm := cmpctMsg(sp, 3, vint(1), [][]byte{{1, 2, 3, 4, 5, 6}}, vint(1), []prefilled{{vint(0), cb}})
		add("W:blocktxn-missing", "blocktxn", "cv2", cat(hash.Hash[:], vint(0)), Msg{"cmpctblock", H(cm)})
	}
	// a collector waiting for several transactions, answered with the right NUMBER of transactions of which
	// one is repeated (a slot stays empty: the handler must notice before it assembles the block)
	for _, k := range []int{2, 3} {
		if sp := e.NextSpare(); sp != nil {
			cb := blockTxs(sp)[0]
			hash := btc.NewSha2Hash(sp[:80])
			miss := blockTxs(e.Blocks[104])[1 : 1+k]
			var sids [][]byte
			for _, t := range miss {
				var th btc.Uint256
				th.Calc(t)
				sids = append(sids, shortID(sp, uint64(10+k), th.Hash[:]))
			}
			cm := cmpctMsg(sp, uint64(10+k), vint(uint64(k)), sids, vint(1), []prefilled{{vint(0), cb}})
			body := cat(miss[:k-1]...)
			body = cat(body, miss[0]) // the last one replaced by a copy of the first
			add(fmt.Sprintf("blocktxn-repeated-tx-%d", k), "blocktxn", "cv2", cat(hash.Hash[:], vint(uint64(k)), body), Msg{"cmpctblock", H(cm)})
		}
	}
	// a collector answered with a transaction it did not ask for: the handler leaves silently (no penalty) -
	// the block's in-progress count must be given back (Run stream: checked after the connection has ended)
	if sp := e.NextSpare(); sp != nil {
		cb := blockTxs(sp)[0]
		hash := btc.NewSha2Hash(sp[:80])
		other := blockTxs(e.Blocks[104])[1]
		cm := cmpctMsg(sp, 21, vint(1), [][]byte{{1, 2, 3, 4, 5, 6}}, vint(1), []prefilled{{vint(0), cb}})
		bt := cat(hash.Hash[:], vint(1), other)
		add("W:blocktxn-inprogress-leak", "blocktxn", "cv2", bt, Msg{"cmpctblock", H(cm)})
		add("W:blocktxn-inprogress-leak-x3", "ping", "cv2", make([]byte, 8), Msg{"cmpctblock", H(cm)}, Msg{"blocktxn", H(bt)},
			Msg{"cmpctblock", H(cm)}, Msg{"blocktxn", H(bt)}, Msg{"cmpctblock", H(cm)}, Msg{"blocktxn", H(bt)})
	}
	if sp := e.NextSpare(); sp != nil {
		cb := blockTxs(sp)[0]
		sid := shortID(sp, 4, dupTx().WTxID().Hash[:])
		cm := cmpctMsg(sp, 4, vint(1), [][]byte{sid}, vint(1), []prefilled{{vint(0), cb}})
		add("W:cmpctblock-sameshortid-txmutex", "cmpctblock", "cv2,dupsid", cm)
	}
	if sp := e.NextSpare(); sp != nil {
		add("cmpctblock-89", "cmpctblock", "cv2", sp[:89])
		add("cmpctblock-90-zero", "cmpctblock", "cv2", cat(sp[:80], make([]byte, 10)))
	}
	if sp := e.NextSpare(); sp != nil {
		add("cmpctblock-shortids-truncated", "cmpctblock", "cv2", cat(sp[:80], make([]byte, 8), vint(3), make([]byte, 12)))
	}
	if sp := e.NextSpare(); sp != nil {
		add("cmpctblock-dup-shortid", "cmpctblock", "cv2", cat(sp[:80], make([]byte, 8), vint(2), make([]byte, 12), vint(0)))
	}
	if sp := e.NextSpare(); sp != nil {
		add("cmpctblock-count-5byte", "cmpctblock", "cv2", cat(sp[:80], make([]byte, 8), vintForm(1, 5), make([]byte, 6), vint(0)))
	}
	add("cmpctblock-garbage-header", "cmpctblock", "cv2", bytes.Repeat([]byte{0x77}, 120))
	add("blocktxn-short", "blocktxn", "", make([]byte, 32))
	add("blocktxn-nobip", "blocktxn", "", cat(make([]byte, 32), vint(0)))
	add("blocktxn-badcount", "blocktxn", "", cat(make([]byte, 32), vintForm(1, 5)))

	// ---- small ones
	add("ping-8", "ping", "", make([]byte, 8))
	add("ping-0", "ping", "", nil)
	add("pong-0", "pong", "", nil)
	add("pong-8", "pong", "", make([]byte, 8))
	add("feefilter-7", "feefilter", "", make([]byte, 7))
	add("feefilter-8", "feefilter", "", []byte{1, 2, 3, 4, 5, 6, 7, 0x80})
	add("sendcmpct-8", "sendcmpct", "", make([]byte, 8))
	add("sendcmpct-9", "sendcmpct", "", []byte{1, 2, 0, 0, 0, 0, 0, 0, 0})
	add("sendcmpct-5", "sendcmpct", "", make([]byte, 5))
	add("xauth-32", "xauth", "", make([]byte, 32))
	add("xauth-33", "xauth", "", cat([]byte{2}, bytes.Repeat([]byte{1}, 32)))
	add("xauth-sig", "xauth", "", cat(common.PublicKeyBin, []byte{0x30, 6, 2, 1, 1, 2, 1, 1}))
	add("xauth-twice", "xauth", "", make([]byte, 40), Msg{"xauth", H(make([]byte, 40))})
	add("getmp-unauth", "getmp", "", vint(5))
	add("getmp-auth-0", "getmp", "auth", vint(0))
	add("getmp-auth-short", "getmp", "auth", cat(vint(3), make([]byte, 17)))
	add("getmp-auth-empty", "getmp", "auth", nil)
	// ---- authack: unsigned (the witness of the Run `return` leak: the connection must end through Run's
	//      tear-down), signed (through the real xauth key exchange in the Run stream)
	add("W:authack-unsigned", "authack", "", nil)
	add("W:authack-unsigned-1", "authack", "", []byte{1})
	add("W:authack-unsigned-enc", "authack", "enc", []byte{1})
	add("W:authack-unsigned-1024", "authack", "", make([]byte, 1024))
	add("authack-signed-0", "authack", "trusted", nil)
	add("authack-signed-synced", "authack", "trusted", []byte{1})
	add("authack-signed-notsynced", "authack", "trusted", []byte{0, 9})
	add("authack-before-version", "authack", "nover", []byte{1})
	add("authack-then-ping", "ping", "", make([]byte, 8), Msg{"authack", "01"})
	add("getmp-trusted", "getmp", "trusted", cat(vint(1), make([]byte, 8)))
	add("tx-trusted", "tx", "trusted", txs[1])
	add("ping-enc", "ping", "enc", make([]byte, 8))
	add("getmpdone", "getmpdone", "", []byte{1})
	// the only state in which GetMPDone looks at the payload: a signed authack(synchronised) queued a getmp request,
	// the next Tick took the global ticket for it and sent getmp; now the peer answers
	mine := []Msg{{"authack", "01"}, {"@tick", "0"}}
	add("getmpdone-ours-empty", "getmpdone", "trusted", nil, mine...)
	add("getmpdone-ours-0", "getmpdone", "trusted", []byte{0}, mine...)
	add("getmpdone-ours-more", "getmpdone", "trusted", []byte{1}, mine...)
	add("getmpdone-ours-long", "getmpdone", "trusted", []byte{2, 0, 0, 0}, mine...)
	add("getaddr", "getaddr", "", nil)
	add("getaddr-twice", "getaddr", "", nil, Msg{"getaddr", ""})
	add("sendheaders", "sendheaders", "", nil)
	add("notfound", "notfound", "", cat(vint(1), make([]byte, 36)))
	add("filterload", "filterload", "", make([]byte, 10))
	add("unknown", "foobar", "", make([]byte, 100))

	// ---- FetchMessage
	add("W:fetch-encrypted-no-key", "@wire", "nover", wire("version", make([]byte, 10), 10|0x80000000))
	add("fetch-encrypted-empty-no-key", "@wire", "nover", wire("version", nil, 0x80000000))
	add("fetch-too-big", "@wire", "nover", wire("version", nil, 1025))
	add("fetch-too-big-inv", "@wire", "", wire("inv", nil, 9+50000*36+1))
	add("fetch-bad-magic", "@wire", "nover", make([]byte, 24))
	add("fetch-bad-checksum", "@wire", "nover", func() []byte { w := wire("version", make([]byte, 90), 90); w[20] ^= 1; return w }())
	add("fetch-two", "@wire", "", cat(wire("ping", make([]byte, 8), 8), wire("pong", make([]byte, 8), 8)))
	add("fetch-partial-header", "@wire", "", wire("ping", nil, 0)[:13])
	return cs
}
