package main

// child.go — block parsing observed from OUTSIDE the process. btc.BuildTxListExt hands the parsed
// transactions of a block to worker goroutines (one per 4 KB pack) that hash them; a panic in such a worker
// (a nil *Tx left in the slice it was given) cannot be caught by any recover() of the caller - not NewTx's,
// not the message handler's, not Run's: the Go runtime ends the whole process. Any peer can reach that code:
// a `block` message that starts with the header of a block the node is waiting for goes
// netBlockReceived -> PostCheckBlock -> BuildTxList before anything about the body is checked.
//
// So this stream runs in a CHILD process (this binary re-executed with C18_CHILD=blocks): synthetic
// multi-transaction block bodies whose transaction sizes put the 4 KB pack boundaries everywhere (all in one
// pack; a boundary exactly at / one byte before / after a transaction end; transactions larger than a pack),
// and for each of them EVERY way the body can end early or lie: cut at every transaction boundary, cut inside
// every transaction, a count larger / smaller than the transactions that follow, a transaction replaced by
// bytes NewTx refuses, trailing bytes. Each variant goes (a) to the library entry points NewBlock +
// BuildTxList / BuildTxListExt(false) and (b) as a `block` message, behind a header the node has accepted,
// through the real dispatch with the usual observations (panic, locks, watchdog). The child writes the
// case it is about to run into a file; when the child dies, the parent reports a property failure with those
// bytes, and the replay (seed, index) re-runs exactly that case in a fresh child.

import (
	"context"
	"encoding/binary"
	"encoding/json"
	"fmt"
	"os"
	"os/exec"
	"path/filepath"
	"strings"
	"time"

	"github.com/piotrnar/gocoin/lib/btc"
	"verif/vlib"
)

type ChildSpec struct {
	Seed   uint64 `json:"seed"`
	Blocks int    `json:"blocks"` // number of synthetic block bodies (each yields all its variants)
	Only   int    `json:"only"`   // -1: run every case; otherwise the index of the single case to run
	Input  *childCase `json:"input,omitempty"` // replay: exactly these bytes (a net:block input needs a header of the child's own chain; if the chain differs, case `only` is regenerated instead)
}

// childCase is one input of the child stream.
type childCase struct {
	Idx   int    `json:"idx"`
	Kind  string `json:"kind"`  // lib:BuildTxList | lib:BuildTxListExt(false) | net:block
	Shape string `json:"shape"` // intact | cut@tx<j> | cut-in-tx<j> | count+<d> | count-1 | bad-tx<j> | trailing
	Ntx   int    `json:"ntx"`
	Block string `json:"block"` // hex: 80-byte header, count, transactions
}

// ---------------------------------------------------------------- generation (deterministic in spec.Seed)

// synthTx serialises a well-formed transaction of (about) the wanted size.
func synthTx(g *vlib.Rng, coinbase bool, want int) []byte {
	sub := g.Fork()
	build := func(pad int) []byte {
		gg := *sub // same choices for every padding tried
		g2 := &gg
		segwit := g2.Chance(1, 2)
		var b []byte
		var v [4]byte
		binary.LittleEndian.PutUint32(v[:], uint32(g2.Pick(1, 2, 2, 3)))
		b = append(b, v[:]...)
		if segwit {
			b = append(b, 0, 1)
		}
		nin := g2.Pick(1, 1, 2, 3)
		if coinbase {
			nin = 1
		}
		b = append(b, vint(uint64(nin))...)
		for i := 0; i < nin; i++ {
			if coinbase {
				b = append(b, make([]byte, 32)...)
				b = append(b, 0xff, 0xff, 0xff, 0xff)
			} else {
				b = append(b, g2.Bytes(32)...)
				b = append(b, byte(g2.Intn(4)), 0, 0, 0)
			}
			ss := g2.Bytes(g2.Pick(0, 1, 4, 23, 72, 107))
			if coinbase && len(ss) < 2 {
				ss = []byte{1, 107, 0}
			}
			b = append(b, vint(uint64(len(ss)))...)
			b = append(b, ss...)
			b = append(b, 0xff, 0xff, 0xff, byte(g2.Pick(0xff, 0xfe, 0)))
		}
		nout := g2.Pick(1, 1, 2, 3)
		b = append(b, vint(uint64(nout))...)
		for i := 0; i < nout; i++ {
			var val [8]byte
			binary.LittleEndian.PutUint64(val[:], uint64(g2.Intn(1<<40)))
			b = append(b, val[:]...)
			sl := g2.Pick(0, 1, 22, 25, 34)
			if i == 0 {
				sl += pad
			}
			b = append(b, vint(uint64(sl))...)
			sc := make([]byte, sl)
			for k := range sc {
				sc[k] = 0x6a
			}
			b = append(b, sc...)
		}
		if segwit {
			for i := 0; i < nin; i++ {
				items := g2.Pick(0, 1, 2, 2)
				if i == 0 {
					items = 1 + g2.Intn(2) // at least one witness item in the transaction
				}
				b = append(b, vint(uint64(items))...)
				for k := 0; k < items; k++ {
					it := g2.Bytes(g2.Pick(0, 1, 33, 64, 72))
					b = append(b, vint(uint64(len(it)))...)
					b = append(b, it...)
				}
			}
		}
		b = append(b, g2.Bytes(4)...)
		return b
	}
	pad := 0
	b := build(0)
	for try := 0; try < 4 && len(b) != want && want > len(b)-pad; try++ {
		pad += want - len(b)
		if pad < 0 {
			pad = 0
		}
		b = build(pad)
	}
	return b
}

// synthBody returns the transactions of one synthetic block; the profile decides where the 4 KB pack
// boundaries of BuildTxListExt fall.
func synthBody(g *vlib.Rng, n int) (txs [][]byte, profile string) {
	const pack = 4096
	m := g.Pick(2, 3, 4, 6, 9, 14, 24)
	profile = []string{"small", "mixed", "exact", "big", "edge"}[n%5]
	offs := 0 // bytes since the start of the current pack
	for i := 0; i < m; i++ {
		want := 0
		switch profile {
		case "small": // everything inside the first pack
			want = 60 + g.Intn(200)
		case "mixed":
			want = g.Pick(80, 150, 400, 900, 1500, 2500, 3000)
		case "big": // single transactions larger than a pack among small ones
			want = g.Pick(100, 200, 4096, 4200, 5000, 9000, 300)
		case "exact", "edge": // a transaction ends exactly at / just before / just after the pack limit
			want = g.Pick(120, 500, 1300, 2000)
			if left := pack - offs; left < want+600 && left > 110 {
				want = left
				if profile == "edge" {
					want += g.Pick(-1, 1, -1, 1, 0)
				}
			}
		}
		t := synthTx(g, i == 0, want)
		txs = append(txs, t)
		offs += len(t)
		if offs >= pack {
			offs = 0
		}
	}
	return
}

// childCases enumerates the stream: for every body, every variant, through every entry.
func childCases(spec ChildSpec, headers [][]byte) (out []childCase) {
	g := vlib.NewRng(spec.Seed ^ 0xb10c5)
	add := func(shape string, ntx int, hdr, body []byte, kinds ...string) {
		for _, k := range kinds {
			out = append(out, childCase{Idx: len(out), Kind: k, Shape: shape, Ntx: ntx, Block: H(cat(hdr, body))})
		}
	}
	for n := 0; n < spec.Blocks; n++ {
		txs, profile := synthBody(g, n)
		m := len(txs)
		hdr := headers[n%len(headers)][:80]
		all := cat(txs...)
		cnt := vint(uint64(m))
		both := []string{"lib:BuildTxList", "net:block"}
		three := []string{"lib:BuildTxList", "lib:BuildTxListExt(false)", "net:block"}
		add("intact:"+profile, m, hdr, cat(cnt, all), three...)
		end := 0
		for j := 0; j < m; j++ {
			// cut exactly before transaction j (j good transactions precede), count unchanged
			if j > 0 {
				add(fmt.Sprintf("cut@tx:%s", profile), m, hdr, cat(cnt, all[:end]), both...)
			}
			// cut inside transaction j
			k := 1 + g.Intn(len(txs[j])-1)
			add(fmt.Sprintf("cut-in-tx:%s", profile), m, hdr, cat(cnt, all[:end+k]), both...)
			end += len(txs[j])
		}
		// the count lies
		for _, d := range []int{1, g.Pick(2, 3, 50)} {
			if m+d <= len(all) {
				add(fmt.Sprintf("count+%d:%s", d, profile), m, hdr, cat(vint(uint64(m+d)), all), both...)
			}
		}
		add("count-1:"+profile, m, hdr, cat(vint(uint64(m-1)), all), both...)
		add("count-nonminimal:"+profile, m, hdr, cat(vintForm(uint64(m), 3), all), both...)
		// one transaction replaced by something NewTx refuses (the others intact)
		for _, j := range []int{g.Intn(m), m - 1} {
			bad := [][]byte{
				{1, 0, 0, 0, 0, 1, 0x6a, 0, 0, 0, 0}, // no inputs, "outputs"
				g.Bytes(3),
				cat(txs[j][:4], []byte{0xfd, 0x01, 0x00}, txs[j][5:]), // non-minimal input count
				cat(txs[j][:len(txs[j])/2], []byte{0xff, 0xff, 0xff, 0xff, 0xff, 0xff, 0xff, 0xff, 0x7f}),
			}[g.Intn(4)]
			var parts [][]byte
			parts = append(parts, txs[:j]...)
			parts = append(parts, bad)
			parts = append(parts, txs[j+1:]...)
			add(fmt.Sprintf("bad-tx:%s", profile), m, hdr, cat(cnt, cat(parts...)), both...)
		}
		add("trailing:"+profile, m, hdr, cat(cnt, all, g.Bytes(1+g.Intn(40))), both...)
	}
	return
}

// ---------------------------------------------------------------- child

// childBlocksMain: C18_CHILD=blocks. Results go to $C18_OUT/result.txt (one line per case), the case
// about to run to $C18_OUT/cur.json; stderr is left alone (the runtime's crash report goes there).
func childBlocksMain() {
	var spec ChildSpec
	outDir := os.Getenv("C18_OUT")
	specb, _ := os.ReadFile(filepath.Join(outDir, "spec.json"))
	if outDir == "" || json.Unmarshal(specb, &spec) != nil || spec.Blocks <= 0 {
		fmt.Println("CHILD-BADSPEC")
		os.Exit(3)
	}
	res, err := os.OpenFile(filepath.Join(outDir, "result.txt"), os.O_CREATE|os.O_WRONLY|os.O_APPEND, 0600)
	if err != nil {
		os.Exit(3)
	}
	say := func(f string, a ...interface{}) { fmt.Fprintf(res, f+"\n", a...) }
	e := NewEnv(vlib.NewRng(spec.Seed).Fork())
	rn := NewRunner(e)
	cases := childCases(spec, e.Spare)
	if in := spec.Input; in != nil && len(in.Block) >= 160 {
		usable := strings.HasPrefix(in.Kind, "lib:")
		for _, sp := range e.Spare {
			if H(sp[:80]) == in.Block[:160] {
				usable = true
			}
		}
		if usable {
			cases = []childCase{*in}
			spec.Only = in.Idx
		}
	}
	say("CHILD-START %d", len(cases))
	for _, cc := range cases {
		if spec.Only >= 0 && cc.Idx != spec.Only {
			continue
		}
		js, _ := json.Marshal(cc)
		if os.WriteFile(filepath.Join(outDir, "cur.json"), js, 0600) != nil {
			os.Exit(3)
		}
		raw := vlib.UnHex(cc.Block)
		verdict := ""
		switch {
		case strings.HasPrefix(cc.Kind, "lib:"):
			pan, where, hang, dur, _ := call(20*time.Second, func() { verdict = libBlock(cc.Kind, raw) })
			switch {
			case pan != "":
				verdict = "FAIL panic " + pan + " in " + where
			case hang || dur > 4*time.Second:
				verdict = fmt.Sprintf("FAIL ran %v", dur)
			}
		case cc.Kind == "net:block":
			// a fresh copy: the handler keeps the payload as the block's Raw
			o := rn.Do(Case{Cmd: "block", Pl: cc.Block, Note: "child"})
			if !o.Hang {
				housekeeping()
			}
			switch {
			case o.Panic != "":
				verdict = "FAIL handler panics (" + o.Panic + " in " + o.Where + ")"
			case len(o.Locks) > 0:
				verdict = "FAIL locks still held after return: " + strings.Join(o.Locks, ",")
			case o.Hang:
				verdict = "FAIL handler does not return"
			default:
				verdict = "ok ban=" + o.Ban
			}
			if o.Hang {
				say("R %d %s %s %s", cc.Idx, cc.Kind, cc.Shape, verdict)
				say("CHILD-STOPPED")
				os.Exit(0)
			}
		}
		say("R %d %s %s %s", cc.Idx, cc.Kind, cc.Shape, verdict)
	}
	say("CHILD-OK")
	res.Close()
	e.Close()
	os.Exit(0)
}

// libBlock runs the library entry points on one raw block and evaluates what the caller relies on
// afterwards: no nil entry in bl.Txs (PostCheckBlock, MerkleRootMatch and GetMerkle walk it), and on
// success exactly TxCount transactions whose raw bytes are the body, in order.
func libBlock(kind string, raw []byte) string {
	bl, err := btc.NewBlock(raw)
	if err != nil || bl == nil {
		return "ok newblock-refused"
	}
	if kind == "lib:BuildTxListExt(false)" {
		err = bl.BuildTxListExt(false)
	} else {
		err = bl.BuildTxList()
	}
	for i, t := range bl.Txs {
		if t == nil {
			return fmt.Sprintf("FAIL bl.Txs[%d] is nil after BuildTxList returned (error: %v)", i, err)
		}
	}
	if err != nil {
		return "ok refused"
	}
	if len(bl.Txs) != bl.TxCount {
		return fmt.Sprintf("FAIL accepted with %d transactions, TxCount %d", len(bl.Txs), bl.TxCount)
	}
	offs := bl.TxOffset
	for i, t := range bl.Txs {
		if offs+len(t.Raw) > len(raw) || string(raw[offs:offs+len(t.Raw)]) != string(t.Raw) {
			return fmt.Sprintf("FAIL transaction %d is not the bytes at its place in the block", i)
		}
		offs += len(t.Raw)
	}
	return "ok accepted"
}

// ---------------------------------------------------------------- parent

// lastBytes keeps the last 256 kB of a stream (the runtime's crash report is at the end).
type lastBytes struct{ b []byte }

func (t *lastBytes) Write(p []byte) (int, error) {
	t.b = append(t.b, p...)
	if len(t.b) > 512<<10 {
		t.b = append([]byte{}, t.b[len(t.b)-(256<<10):]...)
	}
	return len(p), nil
}

func (h *Harness) childOne(cs Case) {
	r := h.r
	spec := *cs.Child
	tmp, err := os.MkdirTemp("", "vc18blk")
	if err != nil {
		r.TieFail("child:infra", "cannot create a temp dir for the child", nil)
		return
	}
	defer os.RemoveAll(tmp)
	exe, err := os.Executable()
	if err != nil {
		exe = os.Args[0]
	}
	js, _ := json.Marshal(spec)
	if os.WriteFile(filepath.Join(tmp, "spec.json"), js, 0600) != nil {
		r.TieFail("child:infra", "cannot write the child's spec", nil)
		return
	}
	ctx, cancel := context.WithTimeout(context.Background(), 150*time.Second)
	defer cancel()
	cmd := exec.CommandContext(ctx, exe)
	// C18_LOUD: the child must not point fd 2 at /dev/null around handler calls - the runtime's crash report goes there
	cmd.Env = append(os.Environ(), "C18_CHILD=blocks", "C18_OUT="+tmp, "TMPDIR="+tmp, "C18_LOUD=1")
	cmd.Dir = tmp
	errb := &lastBytes{}
	cmd.Stdout, cmd.Stderr = errb, errb
	t0 := time.Now()
	runErr := cmd.Run()
	ms := time.Since(t0).Milliseconds()
	se := string(errb.b)
	resb, _ := os.ReadFile(filepath.Join(tmp, "result.txt"))
	total, done, ok := 0, 0, false
	for _, l := range strings.Split(string(resb), "\n") {
		f := strings.SplitN(l, " ", 5)
		switch {
		case len(f) >= 2 && f[0] == "CHILD-START":
			fmt.Sscan(f[1], &total)
		case l == "CHILD-OK":
			ok = true
		case len(f) == 5 && f[0] == "R":
			done++
			r.Eval("child:"+f[2], "child"+f[1]+fmt.Sprint(spec.Seed))
			r.Hit("child:" + f[2] + ":" + strings.SplitN(f[3], ":", 2)[0])
			if strings.HasPrefix(f[4], "FAIL ") {
				idx := -1
				fmt.Sscan(f[1], &idx)
				one := spec
				one.Only = idx
				r.PropFail("child:"+f[2]+":"+strings.SplitN(f[3], ":", 2)[0], fmt.Sprintf("%s on a block body of shape %s: %s", f[2], f[3], f[4][5:]),
					map[string]interface{}{"case": Case{Cmd: "@child", Note: "child", Child: &one}})
				r.Hit("child:FAIL")
			} else {
				r.TieOK()
				r.Hit("child:" + strings.SplitN(f[4], " ", 3)[0] + ":" + lastField(f[4]))
			}
		}
	}
	r.Extra["child_blocks"] = fmt.Sprintf("cases=%d of %d wall_ms=%d", done, total, ms)
	if ok {
		return
	}
	// the child did not finish: the case it was running is in cur.json
	var cur childCase
	curb, _ := os.ReadFile(filepath.Join(tmp, "cur.json"))
	if json.Unmarshal(curb, &cur) != nil || cur.Block == "" {
		r.TieFail("child:infra", fmt.Sprintf("the child process for block parsing did not start properly (%v): %s", runErr, clip(se)), map[string]interface{}{"case": cs})
		return
	}
	one := spec
	one.Only = cur.Idx
	why := ""
	for _, marker := range []string{"panic: ", "fatal error: ", "SIGSEGV", "signal "} {
		if i := strings.Index(se, marker); i >= 0 {
			why = se[i:]
			if j := strings.IndexByte(why, '\n'); j >= 0 {
				why = why[:j]
			}
			break
		}
	}
	if ctx.Err() != nil && why == "" {
		why = "no result within the time limit"
	}
	crash := se
	if i := strings.LastIndex(se, "\npanic: "); i >= 0 {
		crash = se[i:]
	} else if i := strings.LastIndex(se, "\nfatal error: "); i >= 0 {
		crash = se[i:]
	}
	raw := vlib.UnHex(cur.Block)
	what := fmt.Sprintf("%s on a %d-byte block (%d transactions announced, body shape %s): the whole PROCESS ended (%v; %s) at %s - no recover() can catch a panic in a worker goroutine",
		cur.Kind, len(raw), cur.Ntx, cur.Shape, runErr, why, allFrames(crash))
	r.Eval("child:"+cur.Kind, "childcrash"+fmt.Sprint(cur.Idx, spec.Seed))
	one.Input = &cur
	r.PropFail("child:crash:"+cur.Kind, what, map[string]interface{}{
		"case": Case{Cmd: "@child", Note: "child", Child: &one}, "stderr": clip4k(crash)})
	r.Hit("child:CRASH")
	if r.Replay == "" {
		// everything else in this run calls the same code in-process: stop here, with the finding
		h.finish(ruleText+" (run stopped at the first input that ended the child process)", explText, false)
	}
}

func lastField(s string) string {
	f := strings.Fields(s)
	if len(f) == 0 {
		return ""
	}
	x := f[len(f)-1]
	if len(x) > 24 {
		x = x[:24]
	}
	return x
}

// allFrames lists the first gocoin functions named anywhere in a crash report.
func allFrames(st string) string {
	var fs []string
	for _, l := range strings.Split(st, "\n") {
		l = strings.TrimPrefix(l, "created by ")
		if strings.HasPrefix(l, "github.com/piotrnar/gocoin/") && !strings.Contains(l, "Verif") {
			l = strings.TrimPrefix(l, "github.com/piotrnar/gocoin/")
			if i := strings.Index(l, " in goroutine"); i > 0 {
				l = l[:i]
			} else if i := strings.LastIndex(l, "("); i > 0 && strings.HasSuffix(l, ")") {
				l = l[:i]
			}
			if len(fs) == 0 || fs[len(fs)-1] != l {
				fs = append(fs, l)
			}
			if len(fs) == 4 {
				break
			}
		}
	}
	if len(fs) == 0 {
		return "?"
	}
	return strings.Join(fs, " <- ")
}
