package main

// cfg.go — configuration histories: the operator reconfigures the RUNNING node while peers are connected.
//
// The message handlers read a good part of the configuration at run time (common.Get(&common.CFG…),
// common.NoCounters, common.AcceptTx, LastTrustedBlockMatch, …) and per-connection state is maintained
// under those switches by the connection's periodic Tick. A handler must stay total for every state that a
// history of (configuration change, Tick, message) can leave behind - not only for the state a node has
// that was started with one configuration and never touched.
//
// Two pseudo commands in Case.Seq carry such histories through BOTH streams:
//
//   @cfg   Pl = a JSON fragment. Applied by the code path of the text console's `set_config` and of the web
//          interface's configuration page: take the config lock, unmarshal the fragment over common.CFG,
//          call the real common.Reset() (which derives the run-time switches - NoCounters, fee floors, pool
//          limits, timers, LastTrustedBlock … - from it), release the lock. Nothing of Reset is copied.
//   @tick  the connection's periodic Tick. Run stream: the harness waits until the real Run has ticked
//          (its first round, then every PeerTickPeriod). Direct stream: c.Tick(now + Pl seconds) is called
//          the way Run calls it, so that the once-a-second and the timeout branches of Tick are reached too.
//
// The configuration the case started with is restored (same code path) when the case is over.

import (
	"encoding/json"
	"fmt"
	"strconv"
	"strings"

	"github.com/piotrnar/gocoin/client/common"
	"github.com/piotrnar/gocoin/lib/btc"
)

// reconfigures: the case's history contains configuration changes or ticks.
func (c Case) reconfigures() bool {
	for _, m := range c.Seq {
		if m.Cmd == "@cfg" || m.Cmd == "@tick" || m.Cmd == "@age" {
			return true
		}
	}
	return false
}

// slowTicks counts the ticks of the history for which the Run stream has to wait a whole PeerTickPeriod
// (every tick but one that comes before anything else was done on the running connection: Run ticks in
// the first round of its loop).
func (c Case) slowTicks() (n int) {
	started := c.has("trusted") || c.has("enc") // (the key exchange comes first)
	lead := true
	for _, m := range c.Seq {
		switch {
		case m.Cmd == "@cfg" && lead:
		case m.Cmd == "@tick":
			if started {
				n++
			}
			started, lead = true, false
		case m.Cmd == "@age":
			n++ // (always one more Tick of the running connection, see penalty.go)
			started, lead = true, false
		default:
			started, lead = true, false
		}
	}
	return
}

func tickAhead(m Msg) int {
	n, _ := strconv.Atoi(m.Pl)
	if n < 0 || n > 1<<20 {
		n = 0
	}
	return n
}

// applyCfg is what textui.set_config does with its argument.
func applyCfg(frag string) error {
	common.LockCfg()
	defer common.UnlockCfg()
	nw := common.CFG
	if err := json.Unmarshal([]byte(frag), &nw); err != nil {
		return err
	}
	common.CFG = nw
	common.Reset()
	return nil
}

// saveCfg remembers the configuration; the function it returns puts it back (same code path as applyCfg).
func saveCfg() (restore func()) {
	common.LockCfg()
	saved := common.CFG // (a copy of the struct)
	common.UnlockCfg()
	return func() {
		common.LockCfg()
		common.CFG = saved
		common.Reset()
		common.UnlockCfg()
	}
}

// knob is one configuration value an operator may change at run time.
type knob struct {
	sect, field string
	vals        []string // JSON values
	neutral     bool     // does not change what the parsing layer (the model) answers
}

var bools = []string{"true", "false"}

var knobs = []knob{
	{"Stat", "NoCounters", bools, true},
	{"TXPool", "Enabled", bools, false},
	{"TXPool", "AllowMemInputs", bools, false},
	{"TXPool", "FeePerByte", []string{"0", "0.001", "1", "50"}, false},
	{"TXPool", "MaxTxWeight", []string{"400000", "4000"}, false},
	{"TXPool", "MaxSizeMB", []string{"500", "10"}, false},
	{"TXPool", "RejectRecCnt", []string{"100", "60000"}, false},
	{"TXRoute", "Enabled", bools, false},
	{"TXRoute", "MemInputs", bools, false},
	{"TXRoute", "MaxTxWeight", []string{"400000", "4000"}, false},
	{"Net", "MaxBlockAtOnce", []string{"1", "2", "3", "10"}, false},
	{"Net", "ListenTCP", bools, false},
	{"Net", "MaxInCons", []string{"20", "1"}, false},
	{"Net", "MaxOutCons", []string{"20", "1"}, false},
	{"Memory", "CacheOnDisk", bools, true},
	{"DropPeers", "PingPeriodSec", []string{"15", "1", "0"}, true},
	{"DropPeers", "ImmunityMinutes", []string{"15", "0"}, true},
	{"DropPeers", "BlckExpireHours", []string{"24", "1"}, true},
	{"", "LastTrustedBlock", nil, true}, // values: block hashes, chosen per case
}

func (k knob) frag(v string) string {
	if k.sect == "" {
		return fmt.Sprintf(`{"%s":%s}`, k.field, v)
	}
	return fmt.Sprintf(`{"%s":{"%s":%s}}`, k.sect, k.field, v)
}

func (k knob) name() string {
	if k.sect == "" {
		return k.field
	}
	return k.sect + "." + k.field
}

// cfgNeutral: every configuration change of the history leaves the parsing layer's answers alone and no
// tick ran with the clock put forward, i.e. the model's verdict for the last message still applies.
func (c Case) cfgNeutral() bool {
	for _, m := range c.Seq {
		switch m.Cmd {
		case "@age":
			return false // (points and records are compared with the model of expire_misbehave instead, penalty.go)
		case "@tick":
			if tickAhead(m) != 0 {
				return false
			}
		case "@cfg":
			var top map[string]json.RawMessage
			if json.Unmarshal([]byte(m.Pl), &top) != nil {
				return false
			}
			for sect, raw := range top {
				var inner map[string]json.RawMessage
				if json.Unmarshal(raw, &inner) != nil {
					inner = map[string]json.RawMessage{"": nil}
				}
				for field := range inner {
					ok := false
					for _, k := range knobs {
						if k.neutral && ((k.sect == sect && k.field == field) || (k.sect == "" && k.field == sect)) {
							ok = true
						}
					}
					if !ok {
						return false
					}
				}
			}
		}
	}
	return true
}

func hashString(raw []byte) string { return `"` + btc.NewSha2Hash(raw[:80]).String() + `"` }

// trustValues: block hashes an operator may put into LastTrustedBlock: a block of the chain, the tip, a
// block whose header is pending, a block the node has not heard of yet, none.
func (x *Gen) trustValues() []string {
	e := x.e
	vs := []string{`""`, `"` + e.Hashes[x.g.Intn(len(e.Hashes))].String() + `"`, `"` + e.Hashes[len(e.Hashes)-1].String() + `"`}
	if h := pendingHeader(x.g); h != nil {
		vs = append(vs, hashString(h))
	}
	if sp := e.peekTrustSpare(); sp != nil {
		vs = append(vs, hashString(sp))
	}
	return vs
}

// simpleMsg: an ordinary well-formed message (one that every handler answers without a penalty).
func (x *Gen) simpleMsg() Msg {
	g, e := x.g, x.e
	switch g.Intn(6) {
	case 0:
		return Msg{"getheaders", H(cat(g.Bytes(4), vint(1), e.Hashes[g.Intn(len(e.Hashes))].Hash[:], make([]byte, 32)))}
	case 1:
		return Msg{"sendheaders", ""}
	case 2:
		return Msg{"getaddr", ""}
	case 3:
		return Msg{"feefilter", H(g.Bytes(8))}
	}
	return Msg{"ping", H(g.Bytes(8))}
}

// History builds one configuration history for knob k, ending in the given case's message:
// the knob is set, (ticks), changed, (ticks), sometimes changed back, with ordinary messages in between.
func (x *Gen) History(k knob, last Case) Case {
	g := x.g
	vals := k.vals
	if k.field == "LastTrustedBlock" {
		vals = x.trustValues()
	}
	// a walk over the knob's values in which neighbours differ
	n := g.Pick(1, 2, 2, 2, 3)
	cur := g.Intn(len(vals))
	var seq []Msg
	ticks := func(last bool) {
		if last && !g.Chance(1, 3) {
			return // the last change is mostly followed by the message at once (a Tick under the final configuration is the steady state)
		}
		switch g.Intn(6) {
		case 0: // the change is followed by the next one / by a message at once
		case 1:
			seq = append(seq, Msg{"@tick", "0"}, Msg{"@tick", fmt.Sprint(g.Pick(1, 2, 61, 601))})
		default:
			seq = append(seq, Msg{"@tick", "0"})
		}
	}
	for i := 0; i < n; i++ {
		seq = append(seq, Msg{"@cfg", k.frag(vals[cur])})
		if g.Chance(1, 6) {
			// a second knob changed by the same reload
			k2 := knobs[g.Intn(len(knobs)-1)]
			seq = append(seq, Msg{"@cfg", k2.frag(k2.vals[g.Intn(len(k2.vals))])})
		}
		ticks(i == n-1 && n > 1)
		if g.Chance(1, 4) && !last.has("nover") { // (before the version message every command is answered with a penalty)
			seq = append(seq, x.simpleMsg())
			if g.Chance(1, 3) {
				seq = append(seq, Msg{"@tick", "0"})
			}
		}
		cur = (cur + 1 + g.Intn(len(vals)-1)) % len(vals)
	}
	x.hit("cfg:knob=" + k.name())
	x.hit(fmt.Sprintf("cfg:changes=%d", n))
	last.Seq = append(seq, last.Seq...)
	last.Note = "cfg:" + k.name()
	return last
}

// cfgHistories: per knob, n histories; the last message is drawn from the structured generator of a
// random command (any command, any protocol state).
func (h *Harness) cfgHistories(gen *Gen, perKnob int) {
	for _, k := range knobs {
		for i := 0; i < perKnob; i++ {
			cmd := Commands[gen.g.Intn(len(Commands))]
			if gen.g.Chance(1, 3) {
				cmd = "ping"
			}
			last := gen.Structured(cmd)
			if strings.Contains(last.Pre, "fulldb") || last.slow() {
				continue
			}
			h.One(gen.History(k, last))
		}
	}
}
