package main

// conc.go — the part of the property no in-process observation can reach: an unsynchronised access to a
// map shared between a connection's own thread and the threads that walk the connection list makes the
// Go runtime abort the whole process ("fatal error: concurrent map read and map write" - no recover()
// catches it): any peer that can make a handler do that crashes the node. The scenario therefore runs in
// a CHILD process (this binary re-executed with C18_CHILD=conc): one connection's thread works through a
// stream of well-formed getdata / inv messages and SendInvs (what Run does between messages), while a
// second goroutine routes invs to all open connections (NetRouteInv / NetRouteInvExt, the main thread's
// job) and a third one reads the connection statistics (the UI's job). The parent turns a crash, a
// panic, a lock left behind or a child that stops making progress into a property failure with the
// scenario (seed, rounds) as replay.

import (
	"bytes"
	"context"
	"encoding/binary"
	"encoding/hex"
	"encoding/json"
	"fmt"
	"os"
	"os/exec"
	"runtime/debug"
	"strings"
	"sync"
	"sync/atomic"
	"time"

	"github.com/piotrnar/gocoin/client/network"
	"github.com/piotrnar/gocoin/lib/btc"
	"verif/vlib"
	"verif/vtrans"
)

type ConcSpec struct {
	Seed   uint64 `json:"seed"`
	Rounds int    `json:"rounds"` // messages processed by the connection's thread
	Mode   string `json:"mode,omitempty"` // "" = getdata / inv / SendInvs against inv routing + GetStats (below); "stats" = every handler against a GetStats loop (stats.go)
}

// ---------------------------------------------------------------- parent

func (h *Harness) concOne(cs Case) {
	r := h.r
	spec := *cs.Conc
	r.Eval("cmd:@conc", fmt.Sprint("conc", spec.Seed, spec.Rounds))
	r.Hit("src:conc")
	tmp, err := os.MkdirTemp("", "vc18child")
	if err != nil {
		r.TieFail("conc:infra", "cannot create a temp dir for the child", nil)
		return
	}
	defer os.RemoveAll(tmp)
	exe, err := os.Executable()
	if err != nil {
		exe = os.Args[0]
	}
	js, _ := json.Marshal(spec)
	ctx, cancel := context.WithTimeout(context.Background(), 120*time.Second)
	defer cancel()
	cmd := exec.CommandContext(ctx, exe)
	cmd.Env = append(os.Environ(), "C18_CHILD=conc", "C18_CONC="+string(js), "TMPDIR="+tmp)
	cmd.Dir = tmp
	var out, errb tail
	cmd.Stdout, cmd.Stderr = &out, &errb
	var both lastBytes
	if spec.Mode == "stats" {
		// the handlers print payload dumps on both streams: keep the END of the merged output (the runtime's crash
		// report and the child's own verdict are the last thing written)
		cmd.Stdout, cmd.Stderr = &both, &both
	}
	t0 := time.Now()
	runErr := cmd.Run()
	ms := time.Since(t0).Milliseconds()
	so, se := out.String(), errb.String()
	if spec.Mode == "stats" {
		so = string(both.b)
		se = so
	}
	replay := map[string]interface{}{"case": cs}
	first := func(s, marker string) string {
		if i := strings.Index(s, marker); i >= 0 {
			l := s[i:]
			if j := strings.IndexByte(l, '\n'); j >= 0 {
				l = l[:j]
			}
			return l
		}
		return ""
	}
	what := ""
	key := ""
	switch {
	case first(se, "fatal error:") != "":
		l := first(se, "fatal error:")
		what = "the Go runtime aborted the process (" + l + ") at " + gocoinFrames(se)
		key = "conc:fatal:" + strings.ReplaceAll(strings.TrimPrefix(l, "fatal error: "), " ", "-")
	case first(se, "WARNING: DATA RACE") != "":
		what = "data race reported: " + gocoinFrames(se)
		key = "conc:race"
	case first(so, "CHILD-PANIC") != "":
		what = first(so, "CHILD-PANIC")
		key = "conc:panic"
	case first(so, "CHILD-LOCKS") != "":
		what = "locks still held when all threads had finished: " + first(so, "CHILD-LOCKS")
		key = "conc:locks"
	case first(so, "CHILD-STUCK") != "" || ctx.Err() != nil:
		what = "the threads stopped making progress (deadlock): " + first(so, "CHILD-STUCK")
		key = "conc:stuck"
	case runErr != nil || first(so, "CHILD-OK") == "":
		what = fmt.Sprintf("child ended abnormally (%v): %s", runErr, clip(se))
		key = "conc:abnormal"
	}
	if what != "" && spec.Mode == "stats" {
		if i := strings.Index(se, "fatal error:"); i >= 0 {
			se = se[i:]
		}
		replay["stderr"] = clip4k(se)
		r.PropFail("stats:"+strings.TrimPrefix(key, "conc:"), fmt.Sprintf("a connection thread working through %d cases of every message handler (corpus, generators, wire bytes, Tick, directed histories) while the UI thread reads the connection statistics (GetStats): %s", spec.Rounds, what), replay)
		r.Hit("conc:stats:FAIL")
		return
	}
	if what != "" {
		replay["stderr"] = clip4k(se)
		r.PropFail(key, fmt.Sprintf("a connection thread processing %d well-formed getdata/inv messages concurrently with NetRouteInv/NetRouteInvExt and GetStats: %s", spec.Rounds, what), replay)
		r.Hit("conc:FAIL")
		return
	}
	if spec.Mode == "stats" {
		h.statsVerdict(cs, first(so, "CHILD-OK"), ms)
		return
	}
	r.Hit("conc:ok")
	r.Extra["conc_child"] = first(so, "CHILD-OK") + fmt.Sprintf(" wall_ms=%d", ms)
	r.TieOK()
}

// statsVerdict: the stats child ended normally. Which counters did the statistics thread see? Every name of
// statsMust that the source still contains as a literal must be among them (the directed histories of stats.go
// exist to reach them; a generator that silently stops reaching a counting site would make the scenario vacuous).
func (h *Harness) statsVerdict(cs Case, line string, ms int64) {
	r := h.r
	names := ""
	if i := strings.Index(line, "names="); i >= 0 {
		names = line[i+6:]
	}
	seen := strings.Split(names, ",")
	src := ""
	dir := vtrans.RepoRoot() + "/client/network"
	if ents, err := os.ReadDir(dir); err == nil {
		for _, en := range ents {
			if strings.HasSuffix(en.Name(), ".go") && !strings.HasSuffix(en.Name(), "_test.go") && !strings.HasPrefix(en.Name(), "verif_") {
				b, _ := os.ReadFile(dir + "/" + en.Name())
				src += string(b)
			}
		}
	}
	var missing []string
	for _, m := range statsMust {
		hit := false
		for _, s := range seen {
			hit = hit || strings.HasPrefix(s, m)
		}
		lit := strings.TrimPrefix(m, "Bad")
		switch {
		case hit:
			r.Hit("stats:counter:" + m)
		case strings.Contains(src, `"`+lit):
			missing = append(missing, m)
		default:
			r.Hit("stats:counter-gone-from-source:" + m)
		}
	}
	if i := strings.Index(line, " names="); i >= 0 {
		line = line[:i]
	}
	r.Extra["stats_child"] = line + fmt.Sprintf(" wall_ms=%d", ms)
	r.Extra["stats_child_counters"] = names
	// Which counters the statistics thread happens to see depends on the schedule of this run (one quick run in ~40 on a loaded
	// machine missed one of them on the unchanged tree): a gap in the run's own coverage is recorded in the evidence, it is not a
	// finding about the code. Only when NONE of the four formerly unlocked sites was seen is the scenario itself broken.
	for _, m := range missing {
		r.Hit("stats:counter-not-seen-this-run:" + m)
	}
	if len(missing) > 0 {
		r.Extra["stats_child_counters_not_seen"] = missing
	}
	lost := 0
	for _, m := range missing {
		for _, f := range statsMust[:4] {
			if m == f {
				lost++
			}
		}
	}
	if lost == 4 {
		r.TieFail("stats:coverage", "the statistics thread saw none of the four formerly unlocked counter sites ("+strings.Join(statsMust[:4], ", ")+") although the source still counts them: the directed histories of the concurrent scenario no longer reach those sites", map[string]interface{}{"case": cs})
		return
	}
	r.Hit("conc:stats:ok")
	r.TieOK()
}

func clip4k(s string) string {
	if len(s) > 4096 {
		return s[:4096] + "…"
	}
	return s
}

// gocoinFrames lists the first gocoin functions named in a crash dump.
func gocoinFrames(st string) string {
	var fs []string
	// only the goroutine the runtime blames (the first one of the dump)
	if i := strings.Index(st, "\ngoroutine "); i >= 0 {
		if j := strings.Index(st[i+1:], "\n\n"); j >= 0 {
			st = st[i : i+1+j]
		}
	}
	for _, l := range strings.Split(st, "\n") {
		if strings.HasPrefix(l, "github.com/piotrnar/gocoin/") && !strings.Contains(l, "Verif") {
			l = strings.TrimPrefix(l, "github.com/piotrnar/gocoin/")
			if i := strings.LastIndex(l, "("); i > 0 {
				l = l[:i]
			}
			if len(fs) == 0 || fs[len(fs)-1] != l {
				fs = append(fs, l)
			}
			if len(fs) == 4 {
				break
			}
		}
	}
	return strings.Join(fs, " <- ")
}

// tail keeps the first 4 MB of a stream.
type tail struct{ b bytes.Buffer }

func (t *tail) Write(p []byte) (int, error) {
	if t.b.Len() < 4<<20 {
		t.b.Write(p)
	}
	return len(p), nil
}
func (t *tail) String() string { return t.b.String() }

// ---------------------------------------------------------------- child

func childMain() {
	var spec ConcSpec
	if json.Unmarshal([]byte(os.Getenv("C18_CONC")), &spec) != nil || spec.Rounds <= 0 {
		fmt.Println("CHILD-BADSPEC")
		os.Exit(3)
	}
	if spec.Mode == "stats" {
		statsChildMain(spec)
		return
	}
	rng := vlib.NewRng(spec.Seed)
	e := NewEnv(rng.Fork())
	mk := func(n byte) *network.OneConnection {
		c := network.VerifNewConn([4]byte{45, 77, 0, n}, 8333, true, nil)
		c.VerifRegister(true)
		c.X.VersionReceived = true
		c.Node.Version = 70016
		c.Node.Services = 0x409
		c.Node.Agent = "/Satoshi:27.0.0/"
		c.Node.Height = 100
		return c
	}
	conns := []*network.OneConnection{mk(1), mk(2)}

	var progress, routed, stats int64
	var stop int32
	var wg sync.WaitGroup
	fail := func(tag, msg string) {
		fmt.Printf("%s %s\n", tag, strings.ReplaceAll(msg, "\n", " | "))
		os.Exit(5)
	}
	guard := func(name string) {
		if x := recover(); x != nil {
			fail("CHILD-PANIC", fmt.Sprintf("%s panics: %v in %s", name, x, frame(string(debug.Stack()))))
		}
	}

	// the connections' own threads: messages from the peer, SendInvs in between (Run's loop)
	for i, c := range conns {
		wg.Add(1)
		go func(c *network.OneConnection, g *vlib.Rng) {
			defer wg.Done()
			defer guard("connection thread")
			x := &Gen{e: e, g: g}
			for n := 0; n < spec.Rounds; n++ {
				k := g.Pick(1, 1, 2, 3, 8)
				var pl []byte
				switch g.Intn(8) {
				case 0, 1, 2, 3:
					pl = cat(vint(uint64(k)), concEntries(x, k, true))
					c.VerifDispatch("getdata", pl, false)
				case 4, 5:
					pl = cat(vint(uint64(k)), concEntries(x, k, false))
					c.VerifDispatch("inv", pl, false)
				case 6:
					c.SendInvs()
				case 7:
					c.VerifDispatch("ping", g.Bytes(8), false)
				}
				c.VerifDrainSent()
				if c.VerifState().Banit {
					c.VerifReset()
				}
				atomic.AddInt64(&progress, 1)
			}
		}(c, rng.Fork())
		_ = i
	}
	// the main thread's job: route new invs to every open connection
	wg2 := sync.WaitGroup{}
	wg2.Add(2)
	go func(g *vlib.Rng) {
		defer wg2.Done()
		defer guard("NetRouteInv")
		for atomic.LoadInt32(&stop) == 0 {
			h := btc.NewUint256(g.Bytes(32))
			switch g.Intn(4) {
			case 0:
				network.NetRouteInv(network.MSG_BLOCK, h, nil)
			case 1:
				network.NetRouteInvExt(network.MSG_TX, h, conns[g.Intn(2)], uint64(g.Intn(5000)))
			default:
				network.NetRouteInvExt(network.MSG_TX, h, nil, uint64(g.Intn(5000)))
			}
			atomic.AddInt64(&routed, 1)
			atomic.AddInt64(&progress, 1)
		}
	}(rng.Fork())
	// the UI's job: connection statistics
	go func() {
		defer wg2.Done()
		defer guard("GetStats")
		for atomic.LoadInt32(&stop) == 0 {
			for _, c := range conns {
				var ci network.ConnInfo
				c.GetStats(&ci)
			}
			atomic.AddInt64(&stats, 1)
			time.Sleep(50 * time.Microsecond)
		}
	}()
	// watchdog: no progress for 10 s = deadlock
	go func() {
		last, t := int64(-1), time.Now()
		for {
			time.Sleep(200 * time.Millisecond)
			p := atomic.LoadInt64(&progress)
			if p != last {
				last, t = p, time.Now()
			} else if time.Since(t) > 10*time.Second {
				fmt.Printf("CHILD-STUCK no progress for 10 s after %d steps\n", p)
				os.Exit(4)
			}
		}
	}()
	wg.Wait()
	atomic.StoreInt32(&stop, 1)
	wg2.Wait()
	var held []string
	for _, c := range conns {
		if c.Mutex.TryLock() {
			c.Mutex.Unlock()
		} else {
			held = append(held, "c.Mutex")
		}
	}
	for _, p := range globalProbes() {
		if !p.try() {
			held = append(held, p.name)
		}
	}
	if len(held) > 0 {
		fmt.Println("CHILD-LOCKS", strings.Join(held, ","))
		os.Exit(6)
	}
	e.Close()
	fmt.Printf("CHILD-OK rounds=%d connections=%d routed=%d stats=%d\n", spec.Rounds, len(conns), routed, stats)
	os.Exit(0)
}

// concEntries: k inventory entries; getdata uses the types processGetData knows (witness block of a
// stored / unknown block, witness tx, an invalid type), inv uses tx / block / unknown.
func concEntries(x *Gen, k int, getdata bool) []byte {
	var out []byte
	for i := 0; i < k; i++ {
		var ent [36]byte
		if getdata {
			binary.LittleEndian.PutUint32(ent[:4], uint32([]uint32{network.MSG_WITNESS_TX, network.MSG_WITNESS_TX, network.MSG_WITNESS_BLOCK, network.MSG_TX, 7}[x.g.Intn(5)]))
		} else {
			binary.LittleEndian.PutUint32(ent[:4], uint32([]uint32{network.MSG_TX, network.MSG_TX, network.MSG_BLOCK, 9}[x.g.Intn(4)]))
		}
		if x.g.Chance(1, 4) {
			copy(ent[4:], x.hash())
		} else {
			copy(ent[4:], x.g.Bytes(32))
		}
		out = append(out, ent[:]...)
	}
	return out
}

var _ = hex.EncodeToString
