package main

// trusted.go — block-carrying messages against blocks the node TRUSTS.
//
// A block waiting in BlocksToGet can carry the Trusted mark, and chain.PostCheckBlock skips a part of its
// checks for such a block (coinbase present / first, BIP34 height, witness commitment - "we do not check
// signatures and some other things"). The mark has three sources, all driven here through the real code:
//
//   ltb    the operator's configuration names the block (CFG.LastTrustedBlock; applied by the real
//          configuration path of cfg.go, before or after the header arrives): ProcessNewHeader gives the
//          mark to the block whose hash matches - the state every node is in once per initial sync;
//   peer   the message comes through the encrypted channel of a peer whose key is authorised
//          (BCmsg.trusted; Run stream: a real xauth key exchange): netBlockReceived / ProcessCmpctBlock /
//          ProcessBlockTxn then mark the pending block, and the mark STAYS on it when the data is refused;
//   sticky none of the two in this case: the header is one that is pending from an earlier case - with or
//          without the mark - and the sender is any peer that knows the (public) 80-byte header.
//
// What is sent for the header: `block`, `cmpctblock`, or `cmpctblock` followed by `blocktxn`, with the
// transaction count / short-id count / prefilled count in every CompactSize form and in disagreement with
// what follows (zero with and without transactions behind it, one more, one less, huge, cut short), the
// body exact, cut, or another block's. Everything must be refused (or taken, when it is the real block)
// without a panic and with every lock released - the verdict is the ordinary one of Harness.One.

import (
	"fmt"
	"strings"

	"github.com/piotrnar/gocoin/lib/btc"
	"verif/vlib"
)

// fullOf finds the complete valid block for a header built by the environment (nil: not one of ours).
func (e *Env) fullOf(hdr []byte) []byte {
	for _, set := range [][][]byte{e.SpareT, e.Spare, e.Spare2} {
		for _, b := range set {
			if string(b[:80]) == string(hdr[:80]) {
				return b
			}
		}
	}
	return nil
}

// zeroCount / anyForm: a count in one of its CompactSize encodings.
func (x *Gen) anyForm(v uint64) []byte {
	return vintForm(v, x.g.Pick(1, 1, 3, 5, 9))
}

// blockBody: header + transaction count + transactions, the count disagreeing with the rest.
func (x *Gen) blockBody(sp []byte) (pl []byte, shape string) {
	g := x.g
	txs := blockTxs(sp)
	n := uint64(len(txs))
	body := cat(txs...)
	hdr := sp[:80]
	pad := func(b []byte) []byte { // the `block` handler refuses anything under 100 bytes before it looks inside
		for len(b) < 100+g.Intn(40) {
			b = append(b, byte(g.Pick(0, 0, 0, 1, 0xff)))
		}
		return b
	}
	switch g.Intn(11) {
	case 0:
		return pad(cat(hdr, x.anyForm(0))), "count0-padding"
	case 1:
		return pad(cat(hdr, x.anyForm(0), body)), "count0-then-txs"
	case 2:
		return append([]byte{}, sp...), "exact"
	case 3:
		return pad(cat(hdr, x.anyForm(n+uint64(g.Pick(1, 1, 2, 200))), body)), "count-more"
	case 4:
		return pad(cat(hdr, x.anyForm(n-1), body)), "count-less"
	case 5:
		return pad(cat(hdr, vint(n), body[:g.Intn(len(body))])), "body-cut"
	case 6:
		return pad(cat(hdr, vintForm(g.U64()|1<<uint(20+g.Intn(43)), g.Pick(5, 9, 9)), body)), "count-huge"
	case 7:
		return pad(cat(hdr, vintForm(n, g.Pick(3, 5, 9)), body)), "count-nonminimal"
	case 8:
		other := blockTxs(x.e.Blocks[g.Pick(50, 104)])
		return pad(cat(hdr, vint(uint64(len(other))), cat(other...))), "other-blocks-txs"
	case 9:
		return pad(cat(hdr, []byte{byte(g.Pick(0xfd, 0xfe, 0xff))})), "count-cut"
	}
	return pad(cat(hdr, body)), "count-missing"
}

// cmpctFor: a compact block for sp; follow = the blocktxn message that answers the node's getblocktxn
// (nil when the compact block leaves nothing open).
func (x *Gen) cmpctFor(sp []byte) (pl []byte, follow []byte, shape string) {
	g := x.g
	txs := blockTxs(sp)
	hash := btc.NewSha2Hash(sp[:80])
	nonce := g.U64()
	all := func(cb []byte) []prefilled {
		pf := []prefilled{{vint(0), cb}}
		for _, t := range txs[1:] {
			pf = append(pf, prefilled{vint(0), t})
		}
		return pf
	}
	switch g.Intn(8) {
	case 0:
		return cmpctMsg(sp, nonce, x.anyForm(0), nil, x.anyForm(0), nil), nil, "nothing-at-all"
	case 1:
		return cmpctMsg(sp, nonce, vint(0), nil, x.countSmall(len(txs)), all(txs[0])), nil, "all-prefilled"
	case 2:
		return cmpctMsg(sp, nonce, vint(0), nil, vint(uint64(len(txs))), all(blockTxs(x.e.Blocks[50])[0])), nil, "wrong-coinbase-prefilled"
	case 3:
		return cmpctMsg(sp, nonce, vint(0), nil, x.anyForm(uint64(len(txs)+1)), all(txs[0])), nil, "prefilled-count-more"
	case 4:
		return cmpctMsg(sp, nonce, x.anyForm(0), nil, vint(1), []prefilled{{vint(uint64(g.Pick(1, 2, 0xffff))), txs[0]}}), nil, "prefilled-index-off"
	}
	// one transaction left open: an unknown short id (or, for a two-transaction block, the real one)
	sid := g.Bytes(6)
	want := blockTxs(x.e.Blocks[104])[1]
	if len(txs) > 1 {
		if t, _ := btc.NewTx(txs[1]); t != nil {
			t.SetHash(txs[1])
			sid = shortID(sp, nonce, t.WTxID().Hash[:])
			want = txs[1]
		}
	}
	pl = cmpctMsg(sp, nonce, vint(1), [][]byte{sid}, vint(1), []prefilled{{vint(0), txs[0]}})
	switch g.Intn(5) {
	case 0:
		return pl, cat(hash.Hash[:], x.anyForm(0)), "open-1:answered-with-none"
	case 1:
		return pl, cat(hash.Hash[:], vint(1), blockTxs(x.e.Blocks[104])[2]), "open-1:answered-with-another"
	case 2:
		return pl, cat(hash.Hash[:], x.anyForm(2), want, want), "open-1:answered-twice"
	case 3:
		return pl, cat(hash.Hash[:], vint(1), want[:g.Intn(len(want))]), "open-1:answer-cut"
	}
	return pl, cat(hash.Hash[:], vint(1), want), "open-1:answered"
}

// TrustedBlock produces one case of the family.
func (x *Gen) TrustedBlock() Case {
	g, e := x.g, x.e
	var sp []byte
	target := "unseen"
	if h := pendingHeader(g); h != nil && g.Chance(1, 2) {
		if sp = e.fullOf(h); sp != nil {
			target = "pending"
		}
	}
	if sp == nil {
		if sp = e.NextTrustSpare(); sp == nil {
			if h := pendingHeader(g); h != nil {
				sp = e.fullOf(h)
				target = "pending"
			}
		}
	}
	if sp == nil {
		return Case{Cmd: "ping", Pl: H(g.Bytes(8)), Note: "trusted:none-left"}
	}
	var seq []Msg
	pre := ""
	source := []string{"ltb", "ltb", "peer", "sticky"}[g.Intn(4)]
	switch source {
	case "ltb":
		seq = append(seq, Msg{"@cfg", knob{"", "LastTrustedBlock", nil, true}.frag(hashString(sp))})
		if g.Chance(1, 3) {
			// the header is announced first, the data comes afterwards
			seq = append(seq, Msg{"headers", H(cat(vint(1), sp[:80], []byte{0}))})
		}
		if g.Chance(1, 3) {
			// the operator's next reload names another block again; the pending block keeps its mark
			seq = append(seq, Msg{"@cfg", knob{"", "LastTrustedBlock", nil, true}.frag(`""`)})
		}
	case "peer":
		pre = "trusted"
	}
	c := Case{Pre: pre, Note: "trusted:" + source}
	shape := ""
	switch g.Intn(5) {
	case 0, 1, 2:
		var pl []byte
		pl, shape = x.blockBody(sp)
		c.Cmd, c.Pl = "block", H(pl)
	default:
		pl, follow, sh := x.cmpctFor(sp)
		shape = sh
		if pre == "" {
			c.Pre = "cv2"
		} else {
			c.Pre += ",cv2"
		}
		if follow != nil {
			seq = append(seq, Msg{"cmpctblock", H(pl)})
			c.Cmd, c.Pl = "blocktxn", H(follow)
		} else {
			c.Cmd, c.Pl = "cmpctblock", H(pl)
		}
	}
	c.Seq = seq
	x.hit("trusted:mark-from=" + source)
	x.hit("trusted:header=" + target)
	x.hit(fmt.Sprintf("trusted:%s=%s", c.Cmd, shape))
	return c
}

// headTie compares the model of btc.Block.BuildTxListExt (Model/NetParseState.lean buildTxList: decoding of
// txn_count with its refusal of a zero count, then the transaction loop) with the real function on the bytes
// of a `block` message, the way netBlockReceived reaches it: a Block object made from the 80-byte header,
// Raw assigned afterwards. (dohash = false: the sequential variant - same head, no worker goroutines.)
func (h *Harness) headTie(pl []byte) {
	if len(pl) < 81 || len(pl) > 20000 {
		return
	}
	m := h.o.MustAsk("b 1 " + vlib.Hex(pl))
	real := ""
	h.e.quiet() // (the library prints its complaints)
	defer h.e.loud()
	func() {
		defer func() {
			if x := recover(); x != nil {
				real = "panic " + fmt.Sprint(x)
			}
		}()
		bl, er := btc.NewBlock(pl[:80])
		if er != nil {
			real = "nohdr"
			return
		}
		bl.Raw = pl
		if e := bl.BuildTxListExt(false); e != nil {
			switch {
			case strings.Contains(e.Error(), "bad-blk-length"):
				real = "reject bad-blk-length"
			default:
				real = "reject NewTx-failed"
			}
			return
		}
		real = fmt.Sprintf("ok %d", len(bl.Txs))
	}()
	h.r.Hit("blockhead:" + strings.SplitN(m, " ", 3)[0] + ":" + lastField(m))
	if real == "nohdr" {
		return
	}
	if real != m {
		rep := map[string]interface{}{"lib": LibCase{Fn: "blockhead", In: H(pl)}, "model": m, "real": real}
		what := fmt.Sprintf("btc.Block.BuildTxListExt on a block object made from the header with %d bytes assigned to Raw: real %q, model %q", len(pl), real, m)
		if strings.HasPrefix(m, "reject bad-blk-length") && strings.HasPrefix(real, "ok 0") {
			// the property's own consequence, shown on the real code: an empty transaction list handed to the merkle computation
			pan := ""
			func() {
				defer func() {
					if x := recover(); x != nil {
						pan = fmt.Sprint(x)
					}
				}()
				bl, _ := btc.NewBlock(pl[:80])
				bl.Raw = pl
				bl.BuildTxListExt(false)
				bl.Trusted.Set()
				bl.GetMerkle() // what chain.PostCheckBlock does next for a trusted block
			}()
			if pan != "" {
				h.r.PropFail("lib:blockhead:empty-txlist", what+" - a transaction count of zero is accepted with an EMPTY list, and the merkle computation PostCheckBlock runs next on a trusted block panics: "+pan, rep)
				return
			}
		}
		h.r.TieFail("tie:blockhead", what, rep)
		return
	}
	h.r.TieOK()
}

// merkleTie: CalcMerkle's last index, model against the real function, for 0..4 hashes.
func (h *Harness) merkleTie() {
	for n := 0; n <= 4; n++ {
		m := h.o.MustAsk(fmt.Sprint("m ", n))
		real := "ok"
		func() {
			defer func() {
				if recover() != nil {
					real = "panic"
				}
			}()
			btc.CalcMerkle(make([][32]byte, n, 3*n+1))
		}()
		if m != real {
			h.r.TieFail("tie:calcmerkle", fmt.Sprintf("btc.CalcMerkle on %d hashes: real %s, model %s", n, real, m), map[string]interface{}{"n": n})
		} else {
			h.r.TieOK()
		}
	}
}

// trustedBlocks runs n cases of the family.
func (h *Harness) trustedBlocks(gen *Gen, n int) {
	h.merkleTie()
	for i := 0; i < n; i++ {
		cs := gen.TrustedBlock()
		if cs.Cmd == "block" {
			h.headTie(cs.payload())
		}
		h.One(cs)
	}
}
