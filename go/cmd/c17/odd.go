// odd.go — GetAllUnspent for address values OTHER than the five standard forms (third pass of the C17 check).
//
// wallet.GetAllUnspent accepts any *btc.BtcAddr: any witness version 0..16 with any program of 2..40 bytes (as
// btc.NewAddrFromPkScript builds them from non-standard outputs seen in the chain, or btc.NewAddrFromString from a
// bech32 / bech32m string), and base58 addresses of any version byte. The property's predicate for such a query:
//   - whatever is reported must be an unspent output (value >= the minimum in force) whose script is the address's own
//     OutScript()  ("no address is shown outputs paying to another script");
//   - when that script is one of the five indexed forms, the report must be exactly the projection.
//
// The queries share their program / hash with addresses of the pool (which own outputs), so that a lookup in the wrong
// sub-index finds something. The Lean model answers the same query (`getallq`, Model.BalancesAddr) and must agree, and
// its OutScript (`qkey`) must equal BtcAddr.OutScript().
package main

import (
	"bytes"
	"encoding/hex"
	"fmt"
	"sort"
	"strings"

	"github.com/piotrnar/gocoin/client/common"
	"github.com/piotrnar/gocoin/client/wallet"
	"github.com/piotrnar/gocoin/lib/btc"
	"verif/vlib"
)

type oddq struct {
	sw   bool   // witness address (else base58)
	ver  int    // witness version / base58 version byte
	data []byte // program / hash160
	via  int    // 0: NewAddrFromPkScript(script) (base58: NewAddrFromHash160), 1: NewAddrFromString(String()), 2: struct literal
}

func (q oddq) String() string {
	k := "b58"
	if q.sw {
		k = "sw"
	}
	return fmt.Sprintf("%s/v%d/%s/via%d", k, q.ver, hex.EncodeToString(q.data), q.via)
}

func witScript(ver int, prog []byte) []byte {
	op := byte(0)
	if ver > 0 {
		op = byte(0x50 + ver)
	}
	return append([]byte{op, byte(len(prog))}, prog...)
}

// build makes the address value the way a caller of GetAllUnspent would get hold of it; nil when gocoin's own
// constructors refuse it (then there is no such address value to ask about, except as a struct literal).
func (q oddq) build() (ba *btc.BtcAddr) {
	defer func() {
		if x := recover(); x != nil {
			ba = nil
		}
	}()
	if q.sw {
		switch q.via {
		case 0:
			return btc.NewAddrFromPkScript(witScript(q.ver, q.data), common.Testnet)
		case 1:
			a := btc.NewAddrFromPkScript(witScript(q.ver, q.data), common.Testnet)
			if a == nil {
				return nil
			}
			b, err := btc.NewAddrFromString(a.String())
			if err != nil {
				return nil
			}
			return b
		default:
			return &btc.BtcAddr{SegwitProg: &btc.SegwitProg{HRP: btc.GetSegwitHRP(common.Testnet), Version: q.ver, Program: append([]byte{}, q.data...)}}
		}
	}
	if len(q.data) != 20 {
		return nil
	}
	a := btc.NewAddrFromHash160(q.data, byte(q.ver))
	if q.via == 1 {
		b, err := btc.NewAddrFromString(a.String())
		if err != nil {
			return nil
		}
		return b
	}
	return a
}

func safeOutScript(ba *btc.BtcAddr) (s []byte) {
	defer func() {
		if x := recover(); x != nil {
			s = nil
		}
	}()
	return ba.OutScript()
}

func realGetAllBA(ba *btc.BtcAddr) (l []string, panicked string) {
	defer func() {
		if x := recover(); x != nil {
			panicked = fmt.Sprint(x)
		}
	}()
	cp := *ba // GetAllUnspent writes into the address (Hash160 of a 20-byte program)
	if ba.SegwitProg != nil {
		sp := *ba.SegwitProg
		cp.SegwitProg = &sp
	}
	for _, u := range wallet.GetAllUnspent(&cp) {
		l = append(l, fmt.Sprintf("%s:%d:%d:%d:%s", hex.EncodeToString(u.TxPrevOut.Hash[:]), u.TxPrevOut.Vout, u.Value, u.MinedAt, b01(u.Coinbase)))
	}
	sort.Strings(l)
	return
}

// projectScript: the property's predicate by script (outputs of the unspent set with exactly this script, value >= min)
func projectScript(s snap, script []byte, min uint64) (l []string) {
	if script == nil {
		return nil
	}
	for _, rr := range s {
		for j, ou := range rr.Outs {
			if ou != nil && ou.Value >= min && bytes.Equal(ou.Script, script) {
				l = append(l, fmt.Sprintf("%s:%d:%d:%d:%s", hex.EncodeToString(rr.TxID[:]), j, ou.Value, rr.Height, b01(rr.CB)))
			}
		}
	}
	sort.Strings(l)
	return
}

// stdForm: is the script one of the five indexed forms (own recogniser, by construction of the standard script)
func stdForm(s []byte) bool {
	switch {
	case len(s) == 25:
		return bytes.Equal(s, mkScript(0, s[3:23]))
	case len(s) == 23:
		return bytes.Equal(s, mkScript(1, s[2:22]))
	case len(s) == 22:
		return bytes.Equal(s, mkScript(2, s[2:]))
	case len(s) == 34:
		return bytes.Equal(s, mkScript(3, s[2:])) || bytes.Equal(s, mkScript(4, s[2:]))
	}
	return false
}

// checkOdd evaluates the predicate for the given queries; returns the first property failure.
func (w *world) checkOdd(qs []oddq) (key, bad string, detail interface{}) {
	min := common.AllBalMinVal()
	tn := b01(common.Testnet)
	for _, q := range qs {
		ba := q.build()
		if ba == nil {
			r.Hit("odd:constructor-refuses")
			continue
		}
		// what the address value really holds
		kind, ver, data := "b58", int(ba.Version), ba.Hash160[:]
		if ba.SegwitProg != nil {
			kind, ver, data = "sw", ba.SegwitProg.Version, ba.SegwitProg.Program
		}
		got, pan := realGetAllBA(ba)
		if pan != "" {
			return "getall-panic", "wallet.GetAllUnspent panicked for address " + q.String() + ": " + pan, nil
		}
		script := safeOutScript(ba)
		exp := projectScript(w.cur, script, min)
		inExp := map[string]bool{}
		for _, e := range exp {
			inExp[e] = true
		}
		for _, g := range got {
			if !inExp[g] {
				return "getall-foreign-outputs", fmt.Sprintf("GetAllUnspent(%s %s) reports an output that does not pay to the address's own script %s", q.String(), ba.String(), vlib.Hex(script)),
					map[string]interface{}{"query": q.String(), "address": ba.String(), "out_script": vlib.Hex(script), "got": got, "projection": exp}
			}
		}
		std := stdForm(script)
		// the full predicate (list = projection) is asked of addresses of THIS network only: a base58 address carrying the
		// other network's (or Litecoin's) version byte has a standard script too, but is not an address of this chain
		complete := std && (kind == "sw" || ver == int(btc.AddrVerPubkey(common.Testnet)) || ver == int(btc.AddrVerScript(common.Testnet)))
		if complete && strings.Join(got, " ") != strings.Join(exp, " ") {
			return "getall-mismatch", fmt.Sprintf("GetAllUnspent(%s %s) differs from the projection of the unspent set (min in force=%d)", q.String(), ba.String(), min),
				map[string]interface{}{"query": q.String(), "got": got, "projection": exp}
		}
		r.Eval("prop:odd-addr", "")
		switch {
		case complete:
			r.Hit("odd:standard-form")
		case kind == "sw":
			r.Hit(fmt.Sprintf("odd:sw:v%d:len=%s", ver, lenClass(len(data))))
		default:
			switch ver {
			case 0, 5, 48, 111, 196:
				r.Hit(fmt.Sprintf("odd:b58:ver=%d", ver))
			default:
				r.Hit("odd:b58:ver=other")
			}
		}
		if len(exp) > 0 && !complete {
			r.Hit("odd:unindexed-script-owns-outputs")
		}
		// model
		mk := strings.Fields(w.ask(fmt.Sprintf("qkey %s %s %d %s", tn, kind, ver, vlib.Hex(data))))
		want := "panic"
		if script != nil {
			want = vlib.Hex(script)
		}
		if len(mk) < 2 || mk[0] != want {
			w.tieFail("model-outscript", "model OutScript differs from BtcAddr.OutScript() for "+q.String(), map[string]interface{}{"real": want, "model": mk})
			return
		}
		if (mk[1] != "none") != complete && script != nil {
			// the model resolves the address to a sub-index iff its script is one of the five forms
			w.tieFail("model-addrkey", "model GetAllUnspent branch and the form of the address's script disagree for "+q.String(), map[string]interface{}{"model": mk, "script": want})
			return
		}
		_, ml, ok := parseList(w.ask(fmt.Sprintf("getallq %s %s %d %s", tn, kind, ver, vlib.Hex(data))))
		if !ok || strings.Join(ml, " ") != strings.Join(got, " ") {
			w.tieFail("model-getallq", "model GetAllUnspent differs from the real one for address "+q.String(), map[string]interface{}{"real": got, "model": ml})
			return
		}
		r.TieOK()
	}
	return
}

func lenClass(n int) string {
	switch n {
	case 20, 32:
		return fmt.Sprint(n)
	}
	return "other"
}

// reshape gives a program of length n sharing as much as possible with p
func reshape(p []byte, n int) []byte {
	o := make([]byte, n)
	copy(o, p)
	return o
}

// funded: pool addresses that currently own outputs at or above the minimum in force, then the others
func (w *world) fundedFirst() []*addr {
	min := common.AllBalMinVal()
	var f, e []*addr
	for _, a := range w.pool {
		if l, _ := project(w.cur, a, min); len(l) > 0 {
			f = append(f, a)
		} else {
			e = append(e, a)
		}
	}
	return append(f, e...)
}

var b58Versions = []int{0, 5, 48, 111, 196}

// oddSample: a handful of queries per evaluated state (own PRNG: the history does not depend on it)
func (w *world) oddSample(full bool) (qs []oddq) {
	if len(w.pool) == 0 {
		return nil
	}
	cand := w.fundedFirst()
	n := 4
	for i := 0; i < n; i++ {
		a := cand[w.qrng.Intn(len(cand))]
		if w.qrng.Chance(2, 3) {
			a = cand[w.qrng.Intn(1+len(cand)/3)] // mostly the funded ones
		}
		if w.qrng.Chance(1, 5) {
			v := b58Versions[w.qrng.Intn(len(b58Versions))]
			if w.qrng.Chance(1, 4) {
				v = w.qrng.Intn(256)
			}
			qs = append(qs, oddq{false, v, reshape(a.Payload, 20), w.qrng.Intn(2)})
			continue
		}
		ln := len(a.Payload)
		switch w.qrng.Intn(7) {
		case 0:
			ln = 52 - ln // 20 <-> 32
		case 1:
			ln = 2 + w.qrng.Intn(39)
		}
		qs = append(qs, oddq{true, w.qrng.Intn(17), reshape(a.Payload, ln), w.qrng.Intn(3)})
	}
	return
}

// oddFull: the whole matrix for a few addresses: versions 0..16 x {20, 32} through all three constructors, lengths
// 2..40 for versions 0, 1, 2, 16, base58 versions.
func (w *world) oddFull() {
	if w.failed || !w.on {
		return
	}
	cand := w.fundedFirst()
	if len(cand) > 3 {
		cand = cand[:3]
	}
	var qs []oddq
	for _, a := range cand {
		for v := 0; v <= 16; v++ {
			for _, ln := range []int{20, 32} {
				for via := 0; via < 3; via++ {
					qs = append(qs, oddq{true, v, reshape(a.Payload, ln), via})
				}
			}
		}
		for _, v := range []int{0, 1, 2, 16} {
			for ln := 2; ln <= 40; ln++ {
				if ln != 20 && ln != 32 {
					qs = append(qs, oddq{true, v, reshape(a.Payload, ln), (v + ln) % 3})
				}
			}
		}
		for _, v := range b58Versions {
			qs = append(qs, oddq{false, v, reshape(a.Payload, 20), 0}, oddq{false, v, reshape(a.Payload, 20), 1})
		}
	}
	key, bad, detail := w.checkOdd(qs)
	if bad != "" {
		w.step++
		w.propFail(key, bad, detail)
		return
	}
	if !w.failed {
		r.Hit("odd:full-matrix")
	}
}
