// sync.go — THE NODE'S SYNC STATE as an input of every block connection (round-4 pass).
//
// A block handed to Chain.CommitBlock carries bl.LastKnownHeight: the height of the best header the node knows while it
// connects the block (the client sets it to network.LastCommitedHeader.Height; 0 = the caller does not use the feature).
// lib/chain + lib/utxo use it to decide whether undo data is kept (Height + UnwindBufLen >= LastKnownHeight); the
// property says the index equals the projection after EVERY block connection, whatever that state. Until this pass the
// harness always left the field 0. Now:
//   - every submitted block gets a LastKnownHeight from a seeded stream of its own (w.srng: the histories of the other
//     streams are unchanged): 0, the block's own height (at the tip), a few / 143..145 / anything up to UnwindBufLen ahead
//     (catching up, undo data still kept; boundary exactly UnwindBufLen ahead), below the block's height (header chain
//     shorter than the block chain);
//   - opSync / scenario family `sync:`: the node FALLS BEHIND — a stretch of blocks is connected while the best known
//     header is more than UnwindBufLen ahead (one target for the whole stretch, so the stretch may run through the
//     boundary into the region where undo data is kept again), with the index ON (built earlier, or restored from the
//     balances cache while behind — the client's start-up after a long pause), spending indexed outputs and paying
//     pool addresses, the index switched / restarted in the middle of the stretch.
//
// Blocks connected far behind keep no undo data and can never be disconnected: the harness tracks, per height, whether the
// block connected there kept undo data (w.undoOK, from the MODEL's keepsUndo — Model.BalancesBlock — which is compared
// with what the real code left in <dir>/undo/<height>), and its undo / reorg / revisit operations stay above such blocks.
package main

import (
	"bytes"
	"fmt"
	"os"

	"github.com/piotrnar/gocoin/client/common"
	"github.com/piotrnar/gocoin/lib/btc"
	"github.com/piotrnar/gocoin/lib/chain"
	"verif/chainkit"
	"verif/vlib"
)

type syncState struct {
	srng       *vlib.Rng
	undoOK     map[uint32]bool // height -> the block connected there last kept undo data
	curLK      uint32          // bl.LastKnownHeight of the block being submitted
	curEnd     uint32          // its height (ParseTillBlock uses end.Height)
	hook       string          // vhook point that fired
	behindLeft int             // blocks still to be connected with the target below as best known header
	target     uint32
	tieSaid    bool
	forceLK    *uint32 // scenario syncwrap: the LastKnownHeight of the next block
}

func (w *world) unwindLen() uint32 { return w.k.Ch.Unspent.UnwindBufLen }

// lastKnownFor: bl.LastKnownHeight for the block about to be submitted at height h.
func (w *world) lastKnownFor(h uint32, onTip bool) uint32 {
	g := w.sy.srng
	U := w.unwindLen()
	if w.sy.forceLK != nil {
		return *w.sy.forceLK
	}
	if onTip && w.sy.behindLeft > 0 {
		w.sy.behindLeft--
		r.Hit("sync:lastknown=target")
		return w.sy.target
	}
	switch g.Intn(12) {
	case 0, 1, 2, 3:
		r.Hit("sync:lastknown=0")
		return 0
	case 4, 5:
		r.Hit("sync:lastknown=own-height")
		return h
	case 6:
		r.Hit("sync:lastknown=few-ahead")
		return h + 1 + uint32(g.Intn(10))
	case 7:
		r.Hit("sync:lastknown=143..145-ahead")
		return h + 143 + uint32(g.Intn(3))
	case 8:
		r.Hit("sync:lastknown=unwindbuflen-ahead(boundary)")
		return h + U - uint32(g.Intn(2))
	case 9:
		if h > 4 {
			r.Hit("sync:lastknown=below-own-height")
			return h - 1 - uint32(g.Intn(3))
		}
		return h
	default:
		r.Hit("sync:lastknown=within-unwindbuflen")
		return h + uint32(g.Intn(int(U)+1))
	}
}

// noteConnect runs at the vhook point after UnspentDB.CommitBlockTxs: which sync state was the block connected in, does the
// model say undo data is kept, and did the real code leave undo/<height> for this block.
func (w *world) noteConnect() {
	db := w.k.Ch.Unspent
	h := db.LastBlockHeight
	lk := w.sy.curLK
	if w.sy.hook == "chain.parse:after-utxo" {
		lk = w.sy.curEnd // ParseTillBlock: LastKnownHeight = end.Height
	}
	U := w.unwindLen()
	keeps := w.ask(fmt.Sprintf("keepundo %d %d %d", h, lk, U)) == "1"
	w.sy.undoOK[h] = keeps
	if h > U {
		delete(w.sy.undoOK, h-U) // CommitBlockTxs removes undo/<h-UnwindBufLen>
	}
	w.logf("block %d connected with best known header %d (undo data kept: %v)", h, lk, keeps)
	if keeps {
		r.Hit("sync:connect:undo-kept:" + onoff(w.on))
	} else {
		r.Hit("sync:connect:far-behind(no-undo):" + onoff(w.on))
	}
	// real: undo/<h> exists and starts with this block's hash
	dat, err := os.ReadFile(fmt.Sprint(w.k.Dir, "undo", string(os.PathSeparator), h))
	real := err == nil && len(dat) >= 32 && bytes.Equal(dat[:32], db.LastBlockHash)
	if real != keeps && !w.sy.tieSaid {
		// reported once, the history goes on (the subject is the index; a history in which IT differs is still wanted)
		w.sy.tieSaid = true
		r.TieFail("undo-data-kept", fmt.Sprintf("block %d connected with LastKnownHeight %d (UnwindBufLen %d): the model says undo data kept=%v, undo/%d for this block present=%v", h, lk, U, keeps, h, real), w.replayDoc(nil))
	} else if real == keeps {
		r.TieOK()
	}
}

// canUnwind: the d blocks below (and including) height top all kept undo data.
func (w *world) canUnwind(top uint32, d int) bool {
	for i := 0; i < d; i++ {
		if !w.sy.undoOK[top-uint32(i)] {
			return false
		}
	}
	return true
}

// fallBehind: the next n tip extensions are connected with ONE best known header, chosen so that the first `ahead` of them
// are far behind it (Height + UnwindBufLen < LastKnownHeight: no undo data) and the later ones within the buffer.
func (w *world) fallBehind(n int, ahead int) {
	tip := w.k.Ch.LastBlock().Height
	w.sy.behindLeft = n
	w.sy.target = tip + w.unwindLen() + uint32(ahead) + 1
	w.logf("falls behind: best known header %d for the next %d blocks (tip %d)", w.sy.target, n, tip)
}

// farGap: HOW FAR beyond the UnwindBufLen boundary the best known header of a stretch lies. The distance is only a number
// on the block; a threshold anywhere in lib/chain / lib/utxo / client/wallet that compares it (a day, a retarget period,
// "initial block download", half / all of the uint32 range) must be crossed by some stretch. Drawn from the stream of the
// sync state (w.sy.srng), so the histories of the other streams stay what they were.
func (w *world) farGap(n int) (gap uint32, kind string) {
	g := w.sy.srng
	tip := w.k.Ch.LastBlock().Height
	room := ^uint32(0) - tip - w.unwindLen() - 1 // target = tip + U + gap + 1 must not wrap
	switch g.Intn(10) {
	case 0, 1, 2:
		return uint32(1 + g.Intn(n+1)), "1..n+1(stretch-runs-through-the-boundary)"
	case 3:
		return uint32(6 + g.Intn(139)), "6..144"
	case 4:
		return 144 + uint32(g.Intn(3)), "144..146"
	case 5:
		return 1000 + uint32(g.Intn(1100)), "1000..2099(retarget-period)"
	case 6:
		return w.unwindLen() - 1 + uint32(g.Intn(3)), "another-UnwindBufLen"
	case 7:
		return 100000 + uint32(g.Intn(900000)), "1e5..1e6"
	case 8:
		return 1<<31 - tip - w.unwindLen() - 3 + uint32(g.Intn(5)), "target-around-2^31"
	default:
		return room - uint32(g.Intn(3)), "target-at-max-uint32"
	}
}

// one block of the stretch: spends of indexed outputs and / or payments to pool addresses (or random transactions)
func (w *world) syncBlock(scripted bool) {
	tip := w.k.Ch.LastBlock()
	var txs []*btc.Tx
	switch w.rng.Intn(4) {
	case 0:
		txs = w.poolSpends(tip, 1+w.rng.Intn(3))
	case 1:
		txs = w.randTxs(tip, 1+w.rng.Intn(3))
	case 2:
		txs = append(w.poolSpends(tip, 1), w.payTx(tip, 1+w.rng.Intn(4))...)
	default:
		txs = w.payTx(tip, 1+w.rng.Intn(4))
	}
	cb := w.cbSplit
	if scripted {
		cb = nil
	}
	w.extend(tip, txs, cb)
}

// payTx: one transaction paying n outputs (values around the minimum) to pool addresses from anything spendable that is
// not a pool output (so that it does not collide with poolSpends in the same block), on top of parent's view.
func (w *world) payTx(parent *chain.BlockTreeNode, n int) []*btc.Tx {
	height := parent.Height + 1
	v := w.views[parent.BlockHash.Hash]
	var src *vcoin
	for _, c := range spendable(v, height) {
		if w.byScript(c.Script) == nil && c.Value > 200000 && (src == nil || c.Value > src.Value) {
			src = c
		}
	}
	if src == nil {
		return nil
	}
	var outs []chainkit.OutSpec
	left := src.Value - 1000
	for j := 0; j < n && left > 0; j++ {
		val := w.pickValue(left)
		if w.rng.Chance(1, 2) {
			val = w.min + uint64(w.rng.Intn(2000))
		}
		if val > left {
			val = left
		}
		outs = append(outs, chainkit.OutSpec{Value: val, Script: w.pool[w.rng.Intn(len(w.pool))].Script})
		left -= val
	}
	if left > 0 {
		outs = append(outs, chainkit.OutSpec{Value: left, Script: []byte{0x51}})
	}
	return []*btc.Tx{mkTx(txSpec{Ins: []*vcoin{src}, Outs: outs})}
}

// opSync: the node falls behind for 1..4 blocks (the stretch may reach into the region where undo data is kept again),
// with the index on or off, maybe switched / restarted through the cache in the middle.
func (w *world) opSync(scripted bool) {
	if w.failed {
		return
	}
	n := 1 + w.rng.Intn(4)
	w.rng.Intn(n + 1) // (draw kept: the histories of earlier versions of this stream are unchanged)
	gap, kind := w.farGap(n)
	w.fallBehind(n, int(gap))
	r.Hit("sync:stretch:" + onoff(w.on))
	r.Hit("sync:stretch:gap-beyond-boundary=" + kind)
	for i := 0; i < n && !w.failed; i++ {
		w.syncBlock(scripted)
		if w.rng.Chance(1, 6) && !w.failed {
			if w.on && w.rng.Bool() {
				w.cacheRestart(w.useMap, false) // restored from the cache while far behind
			} else if scripted {
				if w.on {
					w.setOn(false, 0, 0)
				}
				w.enable(w.min, w.useMap, false)
			} else {
				w.opToggle()
			}
		}
	}
	w.sy.behindLeft = 0
	w.checkView()
}

// opNoise: node state that must NOT matter to the index changes while the index is on (or off): the WebUI / TextUI post a
// config change (CFG.AllBalances.MinValue / UseMapCnt overwritten + common.Reset(), from a goroutine of its own) — the
// minimum in force and the wallet's list->map threshold stay what they were until the next build / restart —, or the client's
// "block chain synchronized" flag flips (common.BlockChainSynchronized: set when the node has caught up, cleared when it
// falls behind). The model does nothing; the blocks that follow are judged by the property's predicate as always.
func (w *world) opNoise() {
	if w.failed {
		return
	}
	if w.rng.Chance(1, 3) {
		v := !common.BlockChainSynchronized.Load()
		common.BlockChainSynchronized.Store(v)
		r.Hit(fmt.Sprintf("noise:BlockChainSynchronized=%v:%s", v, onoff(w.on)))
		w.logf("common.BlockChainSynchronized = %v", v)
		return
	}
	before := common.AllBalMinVal()
	mn, um := minChoices[w.rng.Intn(len(minChoices))], mapChoices[w.rng.Intn(len(mapChoices))]
	if w.rng.Bool() {
		mn = w.min + uint64(w.rng.Intn(3000)) // just above the minimum in force: outputs in between exist
	}
	if pan := cfgChange(mn, um); pan != "" {
		w.tieFail("reset-panic", "common.Reset() panicked inside the harness: "+pan, nil)
		return
	}
	r.Hit("noise:config-change+Reset:" + onoff(w.on))
	w.logf("config change while the index is %s: CFG.AllBalances.MinValue=%d UseMapCnt=%d + common.Reset(); min in force %d -> %d", onoff(w.on), mn, um, before, common.AllBalMinVal())
	if after := common.AllBalMinVal(); after != before && w.on && !softReported["min-in-force"] {
		softReported["min-in-force"] = true
		r.TieFail("min-in-force", fmt.Sprintf("a config change + common.Reset() while the index is on changed the minimum in force from %d to %d (the index was built with %d)", before, after, before), w.replayDoc(nil))
	}
}

// runSyncWrap: THE uint32 WRAP of chain.commitTxs' test `Height + UnwindBufLen >= LastKnownHeight` on the real code. Heights
// near 2^32 cannot be built, but UnwindBufLen is an exported field of UnspentDB: with UnwindBufLen = 2^32-1-x the sum wraps to
// Height-1-x for every block, and the best known header decides around THAT value whether undo data is kept. Blocks are
// connected with the index on and best known headers 0 / just below / at / just above the wrapped sum / own height / max uint32;
// the model's keepsUndo (asked with the wrapping operands) is compared with the undo file the real code leaves, the index
// with the projection after every block. No disconnections (most blocks keep no undo data).
func runSyncWrap(name string, seed uint64, mn uint64, um uint32, compr bool, stopAt int) *world {
	w := newWorldOpt(name, seed, mn, um, compr)
	w.stopAt = stopAt
	defer w.close()
	w.scriptedSetup()
	w.enable(mn, um, false)
	w.fundPool(mn, 3)
	x := uint32(w.rng.Intn(40))
	w.k.Ch.Unspent.UnwindBufLen = ^uint32(0) - x
	w.logf("UnwindBufLen = %d (Height + UnwindBufLen wraps to Height-%d)", w.k.Ch.Unspent.UnwindBufLen, x+1)
	for i := 0; i < 10 && !w.failed; i++ {
		h := w.k.Ch.LastBlock().Height + 1
		wrapped := h - 1 - x
		var lk uint32
		switch i % 7 {
		case 0:
			lk = 0
		case 1:
			lk = wrapped - 1 - uint32(w.rng.Intn(3))
		case 2:
			lk = wrapped
		case 3:
			lk = wrapped + 1
		case 4:
			lk = h
		case 5:
			lk = h + uint32(w.rng.Intn(3000))
		default:
			lk = ^uint32(0) - uint32(w.rng.Intn(2))
		}
		w.sy.forceLK = &lk
		r.Hit("sync:wrap:block")
		w.syncBlock(true)
	}
	w.sy.forceLK = nil
	w.checkView()
	return w
}

// runSync: funded pool; the index is built, or built and then restored from the balances cache (the client's start-up);
// stretches of blocks connected far behind the best known header alternate with blocks at the tip, undos and revisits
// above the last block that kept no undo data, payments and spends.
func runSync(name string, seed uint64, mn uint64, um uint32, compr bool, stopAt int) *world {
	w := newWorldOpt(name, seed, mn, um, compr)
	w.stopAt = stopAt
	defer w.close()
	w.scriptedSetup()
	if w.rng.Bool() {
		w.enable(mn, um, false)
	}
	w.fundPool(mn, 4+w.rng.Intn(3))
	if !w.on {
		w.enable(mn, um, false)
	}
	if w.rng.Bool() {
		w.cacheRestart(um, false)
	}
	for round := 0; round < 5 && !w.failed; round++ {
		w.opSync(true)
		for k := 0; k < 2 && !w.failed; k++ {
			switch w.rng.Intn(6) {
			case 0:
				w.spendPool(1 + w.rng.Intn(3))
			case 1:
				w.opUndo()
			case 2:
				w.opRevisit(1+w.rng.Intn(2), true)
			case 3:
				w.fundPool(mn, 1)
			case 4:
				if w.on {
					w.setOn(false, 0, 0)
				}
				w.enable(mn, um, w.rng.Bool())
			default:
				w.opNoise()
				w.syncBlock(true) // a block in a random (kept-undo) sync state
			}
		}
	}
	if !w.on && !w.failed {
		w.enable(mn, um, false)
	}
	if !w.failed {
		w.oddFull()
	}
	return w
}
