// load.go — the byte-level path of wallet.LoadBalancesFromUtxo, its abort path, the static record decoder and
// the index's disk cache (second pass of the C17 check).
//
//   - every LoadBalancesFromUtxo of the harness runs with wallet.FetchingBalanceTick installed as an observer:
//     after each record the callback reads utxo's static record (NewUtxoRecStatic returns its address, so the
//     harness holds the pointer) and notes the txid and the outputs the wallet was shown. That gives the REAL scan
//     order of Unspent.HashMap; the raw bytes of the records are then handed to the Lean model in that order
//     (`loadb`), which runs Model.BalancesLoad.loadFromUtxo: static decoder with explicit buffer state, both formats.
//     The model's static buffers therefore stay in step with the package-level ones of lib/utxo for the whole process.
//   - the outputs shown for each record are compared with a stateless decode of the same bytes (no residue).
//   - abort: the tick answers true after the k-th record; afterwards the index must be empty, WalletON false,
//     the callbacks not installed, WalletProgress 0 — and the model must say `aborted`.
//   - disk cache: SaveBalances, Disable, LoadBalances must give back the same index (and the projection).
//   - runStaticUnit: generated record sequences (many/high-index outputs followed by the same or fewer/lower-index
//     ones) through utxo.NewUtxoRecStatic in both formats vs the generator's record, utxo.NewUtxoRec and the model.
//   - runStatic: chain-level scenario with partially spent multi-output transactions, then off/on cycles.
package main

import (
	"encoding/hex"
	"fmt"
	"os"
	"runtime/debug"
	"sort"
	"strings"
	"time"

	"github.com/piotrnar/gocoin/client/common"
	"github.com/piotrnar/gocoin/client/wallet"
	"github.com/piotrnar/gocoin/lib/btc"
	"github.com/piotrnar/gocoin/lib/utxo"
	"verif/chainkit"
	"verif/vlib"
)

var staRec *utxo.UtxoRec // &utxo.sta_rec

func fmtOf(compr bool) string {
	if compr {
		return "c"
	}
	return "u"
}

// viewOf renders a decoded record exactly like the oracle's urecStr.
func viewOf(rec *utxo.UtxoRec) string {
	var sb strings.Builder
	fmt.Fprintf(&sb, "ok %s %d %s %d", hex.EncodeToString(rec.TxID[:]), rec.InBlock, b01(rec.Coinbase), len(rec.Outs))
	for j, ou := range rec.Outs {
		if ou != nil {
			fmt.Fprintf(&sb, " %d %d %s", j, ou.Value, vlib.Hex(ou.PKScr))
		}
	}
	return sb.String()
}

func safeStatic(raw []byte) (s string) {
	defer func() {
		if x := recover(); x != nil {
			s = "panic"
		}
	}()
	rec := utxo.NewUtxoRecStatic(raw)
	if staRec == nil {
		staRec = rec
	}
	return viewOf(rec)
}

func safePlain(raw []byte) (s string) {
	defer func() {
		if x := recover(); x != nil {
			s = "panic"
		}
	}()
	return viewOf(utxo.NewUtxoRec(raw))
}

func rawOfTx(db *utxo.UnspentDB, txid [32]byte) []byte {
	var ind utxo.UtxoKeyType
	copy(ind[:], txid[:])
	db.MapMutex[ind[0]].RLock()
	v := db.HashMap[ind[0]][ind]
	db.MapMutex[ind[0]].RUnlock()
	if v == nil {
		return nil
	}
	return append([]byte{}, (*v)...)
}

type seen struct {
	txid [32]byte
	view string
}

// loadReal = wallet.LoadBalancesFromUtxo with the observing tick; abortAt = k > 0: the tick answers true at its k-th call.
func (w *world) loadReal(abortAt int) (obs []seen, panicked string) {
	return w.loadRealChg(abortAt, 0, nil)
}

// loadRealChg: like loadReal; chgAt = k > 0: at the k-th call of the tick (between record k and record k+1 of the scan)
// `chg` runs — a config change made the way the WebUI does it, see cfgChange.
func (w *world) loadRealChg(abortAt, chgAt int, chg func()) (obs []seen, panicked string) {
	db := w.k.Ch.Unspent
	if staRec == nil {
		// get hold of the static record: decode any stored record once (mirrored in the model to keep the buffers in step)
		for id := range w.cur {
			if raw := rawOfTx(db, id); raw != nil {
				real := safeStatic(raw)
				if m := w.ask("sdec " + fmtOf(w.compr) + " " + vlib.Hex(raw)); m != real {
					w.tieFail("static-decode", "model static decoder differs from utxo.NewUtxoRecStatic", map[string]string{"raw": vlib.Hex(raw), "real": real, "model": m})
				}
				break
			}
		}
	}
	wallet.FetchingBalanceTick = func() bool {
		if staRec != nil {
			obs = append(obs, seen{staRec.TxID, viewOf(staRec)})
		}
		if chgAt > 0 && len(obs) == chgAt && chg != nil {
			chg()
		}
		return abortAt > 0 && len(obs) == abortAt
	}
	defer func() {
		wallet.FetchingBalanceTick = nil
		if x := recover(); x != nil {
			panicked = fmt.Sprint(x)
		}
	}()
	wallet.LoadBalancesFromUtxo()
	return
}

// modelLoad hands the observed records' bytes to the model and checks the per-record views against a stateless decode.
func (w *world) modelLoad(obs []seen, min uint64, useMap uint32, abortAt int, want string) {
	w.modelLoadChg(obs, min, useMap, abortAt, 0, 0, want)
}

// modelLoadChg: chgAt > 0 — the model's load with a config change (MinValue = chgMin, then Reset) after record chgAt
// (oracle op `loadr`, Model.BalancesCfg.loadFromUtxoR); the reply then carries the minimum in force afterwards.
func (w *world) modelLoadChg(obs []seen, min uint64, useMap uint32, abortAt, chgAt int, chgMin uint64, want string) {
	db := w.k.Ch.Unspent
	var sb strings.Builder
	if chgAt > 0 {
		fmt.Fprintf(&sb, "loadr %s %d %d %d %d %d", fmtOf(w.compr), min, useMap, abortAt, chgAt, chgMin)
	} else {
		fmt.Fprintf(&sb, "loadb %s %d %d %d", fmtOf(w.compr), min, useMap, abortAt)
	}
	residue := ""
	var resDetail interface{}
	for i, s := range obs {
		raw := rawOfTx(db, s.txid)
		if raw == nil {
			w.tieFail("load-order", "a record shown to the wallet during the load is not in Unspent.HashMap", hex.EncodeToString(s.txid[:]))
			return
		}
		sb.WriteString(" ")
		sb.WriteString(vlib.Hex(raw))
		if pl := safePlain(raw); pl != s.view && residue == "" {
			residue = fmt.Sprintf("record #%d of the scan: NewUtxoRecStatic showed the wallet outputs that a stateless decode of the same bytes does not have", i+1)
			prev := ""
			if i > 0 {
				prev = vlib.Hex(rawOfTx(db, obs[i-1].txid))
			}
			resDetail = map[string]string{"raw": vlib.Hex(raw), "static": s.view, "stateless": pl, "previous_raw": prev}
		}
		r.Hit("load:record:" + fmtOf(w.compr))
	}
	if rep := w.ask(sb.String()); rep != want {
		if chgAt > 0 {
			// reported after the property predicate has been evaluated on the real index (checkAll)
			w.pendingModelLoad = fmt.Sprintf("model LoadBalancesFromUtxo with a config change after record %d answered %q, the real code gives %q", chgAt, rep, want)
		} else {
			w.tieFail("model-load", fmt.Sprintf("model LoadBalancesFromUtxo over the stored bytes answered %q, expected %q", rep, want), map[string]interface{}{"records": len(obs), "abortAt": abortAt})
			return
		}
	}
	w.pendingResidue, w.pendingResDetail = residue, resDetail
}

// flushResidue reports a decoder-level residue that did not (yet) show as a wrong balance.
func (w *world) flushResidue() {
	if w.pendingResidue != "" && !w.failed && !residueReported {
		residueReported = true
		r.TieFail("static-decoder-residue", w.pendingResidue, w.replayDoc(w.pendingResDetail))
	}
	w.pendingResidue, w.pendingResDetail = "", nil
}

// enable switches the index on through the byte-level path; abortFirst: one aborted attempt before the real one.
func (w *world) enable(min uint64, useMap uint32, abortFirst bool) {
	if w.failed {
		return
	}
	w.min, w.useMap = min, useMap
	common.CFG.AllBalances.MinValue = min
	common.CFG.AllBalances.UseMapCnt = useMap
	was := common.Get(&common.WalletON)
	nrec := len(w.cur)
	if abortFirst && nrec > 0 && !was {
		k := 1 + w.rng.Intn(nrec)
		obs, pan := w.loadReal(k)
		if pan != "" {
			w.propFail("load-panic", "LoadBalancesFromUtxo panicked: "+pan, nil)
			return
		}
		if len(obs) != k {
			w.tieFail("abort-count", fmt.Sprintf("aborted load: tick fired %d times, expected %d", len(obs), k), nil)
			return
		}
		w.on = false
		w.modelLoad(obs, min, useMap, k, "aborted")
		w.logf("aborted enable after %d of %d records", k, nrec)
		r.Hit("enable:aborted")
		if common.Get(&common.WalletProgress) != 0 {
			w.tieFail("abort-progress", "WalletProgress is not 0 after an aborted load", nil)
		}
		w.step++
		w.checkAll("abort") // index empty, WalletON false, callbacks not installed; model agrees
		w.flushResidue()
		if w.failed {
			return
		}
	}
	// a config change landing between two records of the running build (WebUI / TextUI: CFG overwritten, common.Reset())
	race := !was && nrec > 0 && (w.forceRace || w.rng.Chance(1, 4))
	chgAt, chgMin, chgUM, chgPanic := 0, uint64(0), uint32(0), ""
	var chg func()
	if race {
		chgAt = 1 + w.rng.Intn(nrec)
		chgMin, chgUM = w.pickRaceMin(min), mapChoices[w.rng.Intn(len(mapChoices))]
		chg = func() { chgPanic = cfgChange(chgMin, chgUM) }
	}
	obs, pan := w.loadRealChg(0, chgAt, chg)
	if pan != "" {
		w.propFail("load-panic", "LoadBalancesFromUtxo panicked: "+pan, nil)
		return
	}
	if chgPanic != "" {
		w.tieFail("reset-panic", "common.Reset() panicked inside the harness: "+chgPanic, nil)
		return
	}
	if !was {
		r.Hit(fmt.Sprintf("enable:populated=%v:%s", nrec > 0, fmtOf(w.compr)))
		if len(obs) != nrec && staRec != nil {
			w.tieFail("load-count", fmt.Sprintf("the load showed %d records to the wallet, the unspent set has %d", len(obs), nrec), nil)
			return
		}
	}
	w.on = true
	inForce := common.AllBalMinVal()
	if was {
		w.ask(fmt.Sprintf("enable %d %d", min, useMap)) // ignored by both
	} else if race {
		w.modelLoadChg(obs, min, useMap, 0, chgAt, chgMin, fmt.Sprintf("ok %d", inForce))
		w.logf("enable min=%d usemap=%d records=%d; after record %d: CFG.AllBalances.MinValue=%d UseMapCnt=%d + common.Reset(); min in force afterwards %d", min, useMap, len(obs), chgAt, chgMin, chgUM, inForce)
		r.Hit("enable:config-change-during-load")
		switch {
		case chgMin > min:
			r.Hit("enable:config-change:min-raised")
		case chgMin < min:
			r.Hit("enable:config-change:min-lowered")
		}
		if n := w.countBetween(min, chgMin); n > 0 {
			r.Hit("enable:config-change:outputs-between-old-and-new")
		}
		w.min = inForce // the predicate is evaluated with the minimum IN FORCE after the load
	} else {
		w.modelLoad(obs, min, useMap, 0, "ok")
	}
	if !race {
		w.logf("enable min=%d usemap=%d records=%d", min, useMap, len(obs))
	}
	w.step++
	w.checkAll("toggle")
	if w.pendingModelLoad != "" {
		w.tieFail("model-load", w.pendingModelLoad, nil)
		w.pendingModelLoad = ""
	}
	if race && !w.failed && inForce != min && !softReported["min-in-force"] {
		// not a property failure by itself (no output may lie between the two values): reported once, the search goes on
		softReported["min-in-force"] = true
		r.TieFail("min-in-force", fmt.Sprintf("the minimum in force after the build (%d) is not the one configured when it started (%d): a config change landing during the build was applied at once", inForce, min), w.replayDoc(nil))
	}
	w.flushResidue()
}

// cfgChange does what webui's p_cfg does after a config POST, from a goroutine of its own: lock, overwrite CFG, Reset().
func cfgChange(newMin uint64, newUM uint32) (panicked string) {
	done := make(chan struct{})
	go func() {
		defer close(done)
		common.LockCfg()
		defer common.UnlockCfg()
		defer func() {
			if x := recover(); x != nil {
				panicked = fmt.Sprint(x)
			}
		}()
		common.CFG.AllBalances.MinValue = newMin
		common.CFG.AllBalances.UseMapCnt = newUM
		common.Reset()
	}()
	<-done
	return
}

// prepareCfg gives common.CFG the values common.Reset() reads sane contents (the harness never runs InitConfig), chosen
// so that Reset leaves the process as it is: GC percent, lib/utxo's save parameters.
func prepareCfg() {
	gc := debug.SetGCPercent(100)
	debug.SetGCPercent(gc)
	common.CFG.Memory.GCPercTrshold = gc
	common.CFG.Memory.MemoryLimitMB = 0
	common.CFG.Memory.PurgeUnspendableUTXO = utxo.UTXO_PURGE_UNSPENDABLE
	common.CFG.UTXOSave.SecondsToTake = uint(utxo.UTXO_WRITING_TIME_TARGET / time.Second)
	common.CFG.UTXOSave.BlocksToHold = utxo.UTXO_SKIP_SAVE_BLOCKS
	common.CFG.TXPool.MaxSizeMB = 100
	common.CFG.TXPool.ExpireInDays = 7
	common.CFG.TXPool.RejectRecCnt = 1000
	common.CFG.TXPool.MaxRejectMB = 10
	common.CFG.WebUI.AllowedIP = "127.0.0.1"
	common.CFG.LastTrustedBlock = ""
}

// pickRaceMin: the new MinValue of a config change — mostly chosen so that outputs paying to pool addresses lie
// between the old and the new threshold.
func (w *world) pickRaceMin(old uint64) uint64 {
	var vals []uint64
	for _, rr := range w.cur {
		for _, ou := range rr.Outs {
			if ou != nil && w.byScript(ou.Script) != nil {
				vals = append(vals, ou.Value)
			}
		}
	}
	sort.Slice(vals, func(i, j int) bool { return vals[i] < vals[j] })
	for try := 0; try < 8; try++ {
		var n uint64
		if len(vals) == 0 || w.rng.Chance(1, 5) {
			n = minChoices[w.rng.Intn(len(minChoices))]
		} else if v := vals[w.rng.Intn(len(vals))]; v >= old {
			n = v + 1 // raised above an output that qualifies under the old value
		} else {
			n = v // lowered to an output that does not qualify under the old value
		}
		if n != old {
			return n
		}
	}
	return old + 1
}

// countBetween: outputs paying to pool addresses whose value qualifies under exactly one of the two thresholds
func (w *world) countBetween(a, b uint64) (n int) {
	if a > b {
		a, b = b, a
	}
	for _, rr := range w.cur {
		for _, ou := range rr.Outs {
			if ou != nil && ou.Value >= a && ou.Value < b && w.byScript(ou.Script) != nil {
				n++
			}
		}
	}
	return
}

// diskRoundTrip: SaveBalances -> Disable -> LoadBalances must restore the same index (which must still be the projection);
// the history then goes on ON THE RESTORED INDEX. See restart.go (cacheRestart) for what is varied.
func (w *world) diskRoundTrip() {
	um := w.useMap
	if w.rng.Chance(1, 3) {
		um = mapChoices[w.rng.Intn(len(mapChoices))] // the client restarted with another CFG.AllBalances.UseMapCnt
	}
	w.cacheRestart(um, true)
}

// diskCorrupt: the cache SaveBalances wrote is damaged (one file cut short or missing - a crash while it was written, a full
// disk) and LoadBalances runs on it, both the way the client does at start-up (every map still nil: wallet.VerifResetMaps
// is not available, so this variant is reached through a nil-record cut) and after a Disable (maps empty, not nil).
// C17's predicate at observe_at: if the index is enabled afterwards it must be the projection (= `good`, the index before);
// the acceptable outcomes are therefore "error returned, index off and empty" or "enabled with exactly the right index".
// The model side: Model/BalancesDisk.loadPairs on the same bytes must agree on accept/refuse (oracle op dload).
func (w *world) diskCorrupt(good map[string]*balDump) {
	root := common.GocoinHomeDir + wallet.BALANCES_SUBDIR
	ents, _ := os.ReadDir(root)
	if len(ents) != 1 {
		return
	}
	dir := root + string(os.PathSeparator) + ents[0].Name() + string(os.PathSeparator)
	// the largest file: the one with records
	best, bestLen := -1, 1
	for idx := 0; idx < wallet.IDX_CNT; idx++ {
		if st, e := os.Stat(dir + wallet.IDX2SYMB[idx]); e == nil && int(st.Size()) > bestLen {
			best, bestLen = idx, int(st.Size())
		}
	}
	if best < 0 {
		r.Hit("disk:corrupt:no-records-to-cut")
		return
	}
	fn := dir + wallet.IDX2SYMB[best]
	orig, _ := os.ReadFile(fn)
	defer func() {
		// back to a live, correct index for the rest of the world
		if common.Get(&common.WalletON) {
			wallet.Disable()
		}
		os.WriteFile(fn, orig, 0660)
		wallet.LAST_SAVED_FNAME = ""
		if er := wallet.LoadBalances(); er != nil {
			w.propFail("disk-reload", "LoadBalances failed on the restored cache: "+er.Error(), nil)
		}
	}()
	cuts := []int{len(orig) - 1, len(orig) - 5, len(orig) / 2, 9, 1, 0, -1} // -1 = file missing
	if w.corruptDone {
		cuts = []int{len(orig) - 1 - w.rng.Intn(12), w.rng.Intn(len(orig)), -1}
	}
	w.corruptDone = true
	for _, n := range cuts {
		if n < -1 || n >= len(orig) {
			continue
		}
		wallet.Disable()
		var cut []byte
		if n < 0 {
			os.Remove(fn)
		} else {
			cut = orig[:n]
			os.WriteFile(fn, cut, 0660)
		}
		wallet.LAST_SAVED_FNAME = ""
		var er error
		pan := ""
		func() {
			defer func() {
				if x := recover(); x != nil {
					pan = fmt.Sprint(x)
				}
			}()
			er = wallet.LoadBalances()
		}()
		on := common.Get(&common.WalletON)
		what := fmt.Sprintf("balance cache file %s (%d bytes) cut to %d bytes (-1 = removed), LoadBalances: error %v, WalletON %v", wallet.IDX2SYMB[best], len(orig), n, er, on)
		r.Eval("disk-corrupt", fmt.Sprint(w.name, w.step, best, n))
		rep := map[string]interface{}{"file": wallet.IDX2SYMB[best], "bytes": vlib.Hex(orig), "cut": n}
		// model: load_map on the same bytes refuses exactly when the real code does
		if n >= 0 {
			mrep := w.ask(fmt.Sprintf("dload %d %d %s", w.useMap, best, vlib.Hex(cut)))
			mRefuses := strings.HasPrefix(mrep, "refuse")
			if mRefuses != (er != nil) && pan == "" {
				w.tieFail("disk-corrupt-model", what+"; the model's load_map answers "+cutStr(mrep, 60), rep)
			} else {
				r.TieOK()
			}
		}
		switch {
		case pan != "":
			w.propFail("cache-corrupt-load-panics", what+": panic "+pan, rep)
		case er == nil || on:
			after, bpan := realIndex()
			if bpan != "" {
				w.propFail("cache-corrupt-enables-wrong-index", what+": the index is enabled and wallet.Browse panics on it: "+bpan, rep)
			} else if d := sameDump(good, after); d != "" {
				w.propFail("cache-corrupt-enables-wrong-index", what+": the index is enabled but is not the projection of the UTXO set: "+d, rep)
			} else {
				r.Hit("disk:corrupt:loaded-and-correct")
			}
		default:
			after, _ := realIndex()
			if len(after) != 0 {
				w.propFail("cache-corrupt-leaves-records", what+": the load was refused but the (disabled) index still holds records", rep)
			} else {
				r.Hit("disk:corrupt:refused")
			}
		}
		if w.failed {
			return
		}
	}
}

// parseDiskFile splits a file written by save_map into its records (own reader of the layout: CompactSize count, then
// per record 8 key bytes, two base-128 VARINTs, count*12 entry bytes) and puts each record into the canonical form
// the oracle's `dsave` uses (entries sorted).
func parseDiskFile(f []byte) (recs []string, ok bool) {
	pos := 0
	rdVarInt := func() (n uint64, ok bool) {
		for pos < len(f) {
			c := f[pos]
			pos++
			n = (n << 7) | uint64(c&0x7f)
			if c&0x80 == 0 {
				return n, true
			}
			n++
		}
		return 0, false
	}
	if len(f) < 1 {
		return nil, false
	}
	var cnt uint64
	switch {
	case f[0] < 0xfd:
		cnt, pos = uint64(f[0]), 1
	case f[0] == 0xfd && len(f) >= 3:
		cnt, pos = uint64(f[1])|uint64(f[2])<<8, 3
	case f[0] == 0xfe && len(f) >= 5:
		cnt, pos = uint64(f[1])|uint64(f[2])<<8|uint64(f[3])<<16|uint64(f[4])<<24, 5
	default:
		return nil, false
	}
	for i := uint64(0); i < cnt; i++ {
		start := pos
		pos += 8
		if pos > len(f) {
			return nil, false
		}
		if _, ok := rdVarInt(); !ok {
			return nil, false
		}
		n, ok := rdVarInt()
		if !ok || pos+int(n)*12 > len(f) {
			return nil, false
		}
		head := hex.EncodeToString(f[start:pos])
		var ents []string
		for j := 0; j < int(n); j++ {
			ents = append(ents, hex.EncodeToString(f[pos:pos+12]))
			pos += 12
		}
		sort.Strings(ents)
		recs = append(recs, head+strings.Join(ents, ""))
	}
	return recs, pos == len(f)
}

// diskBytesTie: the files SaveBalances just wrote vs the model's encoding of its own index (records as multisets,
// entries within a record sorted), and the model's load_map on the real bytes vs the model's index.
func (w *world) diskBytesTie() {
	ents, _ := os.ReadDir(common.GocoinHomeDir + wallet.BALANCES_SUBDIR)
	if len(ents) != 1 {
		w.tieFail("disk-files", "SaveBalances did not leave exactly one dump folder", len(ents))
		return
	}
	dir := common.GocoinHomeDir + wallet.BALANCES_SUBDIR + string(os.PathSeparator) + ents[0].Name() + string(os.PathSeparator)
	_, model, err := parseDump(w.ask("dump"))
	if err != nil {
		return
	}
	for idx := 0; idx < wallet.IDX_CNT; idx++ {
		f, er := os.ReadFile(dir + wallet.IDX2SYMB[idx])
		if er != nil {
			w.tieFail("disk-files", "SaveBalances did not write "+wallet.IDX2SYMB[idx], nil)
			return
		}
		real, ok := parseDiskFile(f)
		if !ok {
			w.tieFail("disk-layout", "a file written by save_map does not have the documented layout", map[string]string{"file": wallet.IDX2SYMB[idx], "bytes": vlib.Hex(f)})
			return
		}
		sort.Strings(real)
		t := strings.Fields(w.ask(fmt.Sprintf("dsave %d", idx)))
		mrecs := append([]string{}, t[1:]...)
		sort.Strings(mrecs)
		if t[0] != fmt.Sprint(len(real)) || strings.Join(mrecs, " ") != strings.Join(real, " ") {
			w.tieFail("disk-encode", "the bytes save_map wrote differ from the model's encoding of the index (records compared as a multiset, entries sorted)", map[string]interface{}{"file": wallet.IDX2SYMB[idx], "real": real, "model": mrecs})
			return
		}
		// model load_map on the real bytes = the model's own records of this address type
		on, dec, err := parseDump(w.ask(fmt.Sprintf("dload %d %d %s", w.useMap, idx, vlib.Hex(f))))
		if err != nil || !on {
			w.tieFail("disk-decode", "model load_map refused a file written by save_map", map[string]string{"file": wallet.IDX2SYMB[idx], "bytes": vlib.Hex(f)})
			return
		}
		want := map[string]*balDump{}
		for k, v := range model {
			if strings.HasPrefix(k, fmt.Sprintf("%d/", idx)) {
				want[k] = v
			}
		}
		if d := sameDump(want, dec); d != "" {
			w.tieFail("disk-decode", "model load_map of the real file differs from the model index: "+d, map[string]string{"file": wallet.IDX2SYMB[idx]})
			return
		}
		r.Hit("disk:file:" + wallet.IDX2SYMB[idx])
		r.TieOK()
	}
}

// ------------------------------------------------------------------------------------ unit stream: static decoder

type genRec struct {
	rec *utxo.UtxoRec
}

func (g genRec) String() string { return viewOf(g.rec) }

func unitScript(g *vlib.Rng) []byte {
	switch g.Intn(8) {
	case 0, 1:
		return mkScript(0, g.Bytes(20))
	case 2:
		return mkScript(1, g.Bytes(20))
	case 3:
		return mkScript(2, g.Bytes(20))
	case 4:
		return mkScript(3, g.Bytes(32))
	case 5:
		return mkScript(4, g.Bytes(32))
	case 6:
		return g.Bytes(g.Intn(40))
	}
	return []byte{0x51}
}

func unitValue(g *vlib.Rng) uint64 {
	switch g.Intn(6) {
	case 0:
		return 0
	case 1:
		return uint64(g.Intn(1000))
	case 2:
		return uint64(g.Intn(100)) * 100000000
	}
	return g.U64() % 2100000000000000
}

// liveSet picks which of cnt slots are unspent, by pattern; never empty.
func liveSet(g *vlib.Rng, cnt int, prev []bool) []bool {
	l := make([]bool, cnt)
	switch g.Intn(8) {
	case 0: // all
		for i := range l {
			l[i] = true
		}
	case 1: // only the highest
		l[cnt-1] = true
	case 2: // only the lowest
		l[0] = true
	case 3: // a suffix
		for i := g.Intn(cnt); i < cnt; i++ {
			l[i] = true
		}
	case 4: // a prefix
		for i := 0; i <= g.Intn(cnt); i++ {
			l[i] = true
		}
	case 5, 6: // the complement of the previous record's live slots (slots it used are now spent)
		any := false
		for i := range l {
			l[i] = i >= len(prev) || !prev[i]
			any = any || l[i]
		}
		if !any {
			l[g.Intn(cnt)] = true
		}
		if g.Bool() { // thin it out from the top so that fewer pool objects are handed out than before
			n := 0
			for i := range l {
				if l[i] {
					n++
					if n > 1 && g.Bool() {
						l[i] = false
					}
				}
			}
		}
	default:
		for i := range l {
			l[i] = g.Chance(1, 3)
		}
		l[g.Intn(cnt)] = true
	}
	return l
}

func runStaticUnit() {
	g := vlib.NewRng(r.Seed ^ 0x57a71c)
	saveOwn, saveSer := utxo.NewUtxoRecOwn, utxo.Serialize
	defer func() { utxo.NewUtxoRecOwn, utxo.Serialize = saveOwn, saveSer }()
	buf := make([]byte, 1<<20)
	n := r.N(400, 4000)
	var prevLive []bool
	prevCnt := 1 + g.Intn(9)
	compr := false
	for i := 0; i < n; i++ {
		if i%50 == 0 {
			compr = !compr
			if compr {
				utxo.NewUtxoRecOwn, utxo.Serialize = utxo.NewUtxoRecOwnC, utxo.SerializeC
			} else {
				utxo.NewUtxoRecOwn, utxo.Serialize = utxo.NewUtxoRecOwnU, utxo.SerializeU
			}
		}
		// slot count: same as before, fewer, or a new size (sometimes large)
		cnt := prevCnt
		switch g.Intn(6) {
		case 0:
			cnt = 1 + g.Intn(prevCnt)
		case 1:
			cnt = 1 + g.Intn(12)
		case 2:
			if g.Chance(1, 6) {
				cnt = 30 + g.Intn(300)
			}
		}
		live := liveSet(g, cnt, prevLive)
		rec := &utxo.UtxoRec{InBlock: uint32(g.Intn(900000)), Coinbase: g.Chance(1, 5), Outs: make([]*utxo.UtxoTxOut, cnt)}
		copy(rec.TxID[:], g.Bytes(32))
		nl := 0
		for j := range live {
			if live[j] {
				rec.Outs[j] = &utxo.UtxoTxOut{Value: unitValue(g), PKScr: unitScript(g)}
				nl++
			}
		}
		p := utxo.Serialize(rec, buf)
		if p == nil {
			continue
		}
		raw := append([]byte{}, (*p)...)
		want := viewOf(rec)
		st := safeStatic(raw)
		pl := safePlain(raw)
		f := fmtOf(compr)
		ms := o.MustAsk("sdec " + f + " " + vlib.Hex(raw))
		mp := o.MustAsk("pdec " + f + " " + vlib.Hex(raw))
		kind := "same-or-fewer"
		if cnt > prevCnt {
			kind = "more"
		}
		r.Hit("static-unit:" + f + ":slots-" + kind)
		r.Eval("static-unit", "")
		detail := map[string]interface{}{"format": f, "raw": vlib.Hex(raw), "record": want, "static": st, "stateless": pl, "model_static": ms, "model_stateless": mp, "seq": i}
		switch {
		case pl != want:
			r.TieFail("record-roundtrip", "utxo.NewUtxoRec(Serialize(rec)) differs from rec", detail)
			return
		case st != want:
			residueReported = true
			r.TieFail("static-decoder-residue", "utxo.NewUtxoRecStatic shows outputs that are not in the record it decoded (left over from an earlier record)", detail)
			return
		case ms != st || mp != pl:
			r.TieFail("static-decode", "model decoder differs from lib/utxo on a generated record", detail)
			return
		}
		r.TieOK()
		prevLive, prevCnt = live, cnt
	}
}

// ------------------------------------------------------------------------------------ chain-level scenario

// runStatic: multi-output transactions, partially spent in patterns that leave high slots alive over low ones and
// the other way round, then the index is built from the populated set (with aborted attempts and disk reloads).
func runStatic(name string, seed uint64, mn uint64, um uint32, compr bool, stopAt int) *world {
	w := newWorldOpt(name, seed, mn, um, compr)
	w.stopAt = stopAt
	defer w.close()
	for idx := 0; idx < 5; idx++ {
		w.addAddr(idx, w.rng.Bytes(map[bool]int{true: 32, false: 20}[idx >= 3]))
	}
	w.addAddr(0, w.rng.Bytes(20))
	w.quiet = true
	for i := 0; i < 104 && !w.failed; i++ {
		w.extend(w.k.Ch.LastBlock(), nil, nil)
	}
	w.quiet = false
	if w.rng.Bool() {
		w.enable(mn, um, false)
	}
	for round := 0; round < 3 && !w.failed; round++ {
		var txs []*btc.Tx
		var cnts []int
		ntx := 4 + w.rng.Intn(4)
		for t := 0; t < ntx && !w.failed; t++ {
			n := 2 + w.rng.Intn(6)
			var outs []chainkit.OutSpec
			for j := 0; j < n; j++ {
				v := mn + uint64(1000+w.rng.Intn(5000))
				if w.rng.Chance(1, 8) && mn > 0 {
					v = mn - 1
				}
				outs = append(outs, chainkit.OutSpec{Value: v, Script: w.pool[w.rng.Intn(len(w.pool))].Script})
			}
			if tx := w.pay(outs...); tx != nil {
				txs = append(txs, tx)
				cnts = append(cnts, n)
			}
		}
		// spend by pattern, all in one block
		var coins []btc.TxPrevOut
		for t, tx := range txs {
			n := cnts[t]
			keep := make([]bool, n)
			switch w.rng.Intn(6) {
			case 0:
				keep[n-1] = true
			case 1:
				keep[0] = true
			case 2:
				for j := w.rng.Intn(n); j < n; j++ {
					keep[j] = true
				}
			case 3:
				for j := range keep {
					keep[j] = true
				}
			default:
				for j := range keep {
					keep[j] = w.rng.Bool()
				}
			}
			for j := 0; j < n; j++ {
				if !keep[j] {
					coins = append(coins, po(tx, j))
				}
			}
		}
		if len(coins) > 0 && !w.failed {
			w.spend(coins)
		}
		if w.failed {
			break
		}
		if w.on {
			if w.rng.Bool() {
				w.diskRoundTrip()
			}
			w.setOn(false, 0, 0)
		}
		w.enable(mn, um, w.rng.Chance(2, 3))
		if w.rng.Chance(1, 2) {
			w.diskRoundTrip()
		}
	}
	return w
}

func cutStr(s string, n int) string {
	if len(s) > n {
		return s[:n]
	}
	return s
}
