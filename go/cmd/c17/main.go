// c17 — correspondence harness + property search for C17 (per-address balances = projection of the UTXO set).
//
// Real code: client/wallet (LoadBalancesFromUtxo / Disable / TxNotifyAdd / TxNotifyDel / GetAllUnspent / Browse)
// wired to a chainkit chain exactly as the client does it (common.BlockChain = the chain; the wallet installs
// its own callbacks into BlockChain.Unspent.CB when it is switched on).
// After EVERY block connection / disconnection (vhook points chain.commit|parse|undo:after-utxo) and after
// every on/off switch the harness
//
//	(a) evaluates the property's own predicate on the real code: for every address in play
//	    wallet.GetAllUnspent(addr) and the record's total vs a direct Go projection of the unspent set
//	    (all outputs whose script is the address's script and whose value is >= the applied minimum);
//	(b) feeds the UTXO change (derived from the difference of two snapshots of UnspentDB.HashMap, as a
//	    stream of add / del / undodel / undoadd steps) to the Lean model (oracle_c17) and compares the
//	    model's whole index, its GetAllUnspent, its UTXO set and the Lean Spec projection with the real ones.
package main

import (
	"bytes"
	"encoding/binary"
	"encoding/hex"
	"encoding/json"
	"fmt"
	"os"
	"runtime/pprof"
	"sort"
	"strconv"
	"strings"
	"time"

	"github.com/piotrnar/gocoin/client/common"
	"github.com/piotrnar/gocoin/client/wallet"
	"github.com/piotrnar/gocoin/lib/btc"
	"github.com/piotrnar/gocoin/lib/chain"
	"github.com/piotrnar/gocoin/lib/others/siphash"
	"github.com/piotrnar/gocoin/lib/others/vhook"
	"github.com/piotrnar/gocoin/lib/utxo"
	"verif/chainkit"
	"verif/vlib"
)

var r *vlib.Run
var o *vlib.Oracle

// ------------------------------------------------------------------------------------ snapshots

type rout struct {
	Value  uint64
	Script []byte
}
type rrec struct {
	TxID   [32]byte
	Height uint32
	CB     bool
	Outs   []*rout
}
type snap map[[32]byte]*rrec

// known holds every transaction id the harness ever put into a block (UnspentDB's maps are pre-sized for the
// main net, so walking them after every block is too slow; the records are looked up by key instead).
var known = map[[32]byte]bool{}

func takeSnap(db *utxo.UnspentDB) snap {
	s := snap{}
	for id := range known {
		var ind utxo.UtxoKeyType
		copy(ind[:], id[:])
		db.MapMutex[ind[0]].RLock()
		v := db.HashMap[ind[0]][ind]
		db.MapMutex[ind[0]].RUnlock()
		if v == nil {
			continue
		}
		full := utxo.NewUtxoRec(*v)
		rr := &rrec{TxID: full.TxID, Height: full.InBlock, CB: full.Coinbase, Outs: make([]*rout, len(full.Outs))}
		for j, ou := range full.Outs {
			if ou != nil {
				rr.Outs[j] = &rout{ou.Value, append([]byte{}, ou.PKScr...)}
			}
		}
		s[full.TxID] = rr
	}
	return s
}

// fullCount walks the whole UnspentDB (slow; done a few times per history) and counts the records.
func fullCount(db *utxo.UnspentDB) (n int) {
	for i := range db.HashMap {
		db.MapMutex[i].RLock()
		n += len(db.HashMap[i])
		db.MapMutex[i].RUnlock()
	}
	return
}

func (s snap) lines() []string {
	var l []string
	for _, rr := range s {
		for j, ou := range rr.Outs {
			if ou != nil {
				l = append(l, fmt.Sprintf("%s:%d:%d:%d:%s:%s", hex.EncodeToString(rr.TxID[:]), j, ou.Value, rr.Height, b01(rr.CB), vlib.Hex(ou.Script)))
			}
		}
	}
	sort.Strings(l)
	return l
}

func b01(b bool) string {
	if b {
		return "1"
	}
	return "0"
}

func recLine(op string, rr *rrec, only func(j int) bool) string {
	var sb strings.Builder
	fmt.Fprintf(&sb, "%s %s %d %s %d", op, hex.EncodeToString(rr.TxID[:]), rr.Height, b01(rr.CB), len(rr.Outs))
	for j, ou := range rr.Outs {
		if ou != nil && (only == nil || only(j)) {
			fmt.Fprintf(&sb, " %d %d %s", j, ou.Value, vlib.Hex(ou.Script))
		}
	}
	return sb.String()
}

// diffEvents turns the difference old -> new into the model's step vocabulary.
// connect:    del <key> <mask> for every record that lost outputs, add <rec> for every new record
// disconnect: undodel <key> <n> for every record that lost outputs (all of them), undoadd <rec> for restored ones
func diffEvents(old, nw snap, kind string, rng *vlib.Rng) (evs []string) {
	var ids [][32]byte
	seen := map[[32]byte]bool{}
	for id := range old {
		ids = append(ids, id)
		seen[id] = true
	}
	for id := range nw {
		if !seen[id] {
			ids = append(ids, id)
		}
	}
	sort.Slice(ids, func(i, j int) bool { return bytes.Compare(ids[i][:], ids[j][:]) < 0 })
	var dels, adds []string
	for _, id := range ids {
		a, b := old[id], nw[id]
		if a != nil {
			mask := make([]byte, len(a.Outs))
			lost, all := false, true
			for j := range a.Outs {
				mask[j] = '0'
				if a.Outs[j] != nil {
					if b == nil || j >= len(b.Outs) || b.Outs[j] == nil {
						mask[j] = '1'
						lost = true
					} else {
						all = false
					}
				}
			}
			if lost {
				if kind == "disconnect" && all {
					dels = append(dels, fmt.Sprintf("undodel %s %d", hex.EncodeToString(id[:]), len(a.Outs)))
					r.Hit("ev:undodel")
				} else {
					if kind == "disconnect" {
						// UndoBlockTxs deletes whole records only: a record that lost SOME outputs on a disconnect is not something the
						// derived event vocabulary can express faithfully - the tie would be comparing the model with a guess
						r.Hit("ev:anomaly-partial-undodel")
						r.TieFail("derived-event-anomaly", "a block disconnection left a record with only part of its outputs removed: the event stream derived from the UnspentDB snapshots cannot represent what UndoBlockTxs did", map[string]string{"txid": hex.EncodeToString(id[:]), "kind": kind})
					}
					m := string(mask)
					if m == "" {
						m = "-"
					}
					dels = append(dels, fmt.Sprintf("del %s %s", hex.EncodeToString(id[:]), m))
					r.Hit("ev:del")
				}
			}
		}
		if b != nil {
			gained := false
			for j := range b.Outs {
				if b.Outs[j] != nil && (a == nil || j >= len(a.Outs) || a.Outs[j] == nil) {
					gained = true
				}
			}
			if gained {
				if kind == "connect" && a == nil {
					adds = append(adds, recLine("add", b, nil))
					r.Hit("ev:add")
				} else {
					if kind == "connect" {
						// commit.do_add stores a NEW record; outputs appearing in an existing record on a connect would be a merge
						r.Hit("ev:anomaly-merge-on-connect")
						r.TieFail("derived-event-anomaly", "a block connection added outputs to a record that already existed: the event stream derived from the UnspentDB snapshots cannot represent what commit did", map[string]string{"txid": hex.EncodeToString(id[:]), "kind": kind})
					}
					adds = append(adds, recLine("undoadd", b, func(j int) bool { return a == nil || j >= len(a.Outs) || a.Outs[j] == nil }))
					r.Hit("ev:undoadd")
				}
			}
		}
	}
	evs = append(dels, adds...)
	if kind == "connect" {
		// commit() runs its del and add workers concurrently: any interleaving is a legal order
		for i := len(evs) - 1; i > 0; i-- {
			j := rng.Intn(i + 1)
			evs[i], evs[j] = evs[j], evs[i]
		}
	}
	return
}

// ------------------------------------------------------------------------------------ addresses

type addr struct {
	Idx     int
	Payload []byte
	Script  []byte
	BA      *btc.BtcAddr
	UIdx    uint64
}

func mkScript(idx int, p []byte) []byte {
	switch idx {
	case 0:
		return append(append([]byte{0x76, 0xa9, 0x14}, p...), 0x88, 0xac)
	case 1:
		return append(append([]byte{0xa9, 0x14}, p...), 0x87)
	case 2:
		return append([]byte{0x00, 0x14}, p...)
	case 3:
		return append([]byte{0x00, 0x20}, p...)
	}
	return append([]byte{0x51, 0x20}, p...)
}

func mkAddr(idx int, p []byte) *addr {
	a := &addr{Idx: idx, Payload: p, Script: mkScript(idx, p)}
	a.BA = btc.NewAddrFromPkScript(a.Script, common.Testnet)
	a.UIdx = siphash.Hash(0, 0, p)
	return a
}

func (a *addr) String() string { return fmt.Sprintf("%d/%s", a.Idx, hex.EncodeToString(a.Payload)) }

// scripts that look almost like one of the five forms but are not (no address in the index)
func lookalikes(rng *vlib.Rng) [][]byte {
	p20, p32 := rng.Bytes(20), rng.Bytes(32)
	return [][]byte{
		{0x51},                   // OP_TRUE
		{0x6a, 0x04, 1, 2, 3, 4}, // OP_RETURN data
		{},                       // empty script
		append(append([]byte{0x76, 0xa9, 0x14}, p20...), 0x88, 0xad),     // P2PKH with wrong last opcode
		append(append([]byte{0xa9, 0x14}, p20...), 0x88),                 // P2SH with wrong last opcode
		append([]byte{0x00, 0x14}, p20[:19]...),                          // 21 bytes
		append([]byte{0x52, 0x20}, p32...),                               // witness v2, 32 bytes
		append([]byte{0x51, 0x14}, p20...),                               // witness v1, 20 bytes
		append([]byte{0x00, 0x20}, append(p32, 0)...),                    // 35 bytes
		append(append([]byte{0x21}, append([]byte{2}, p32...)...), 0xac), // P2PK
	}
}

// ------------------------------------------------------------------------------------ world

type vcoin struct {
	Out    btc.TxPrevOut
	Value  uint64
	Script []byte
	Height uint32
	CB     bool
}
type view map[btc.TxPrevOut]*vcoin

func (v view) clone() view {
	n := make(view, len(v))
	for k, c := range v {
		n[k] = c
	}
	return n
}

type world struct {
	corruptDone bool // load.go diskCorrupt: the fixed set of cuts has been run in this world
	name        string
	seed        uint64
	stopAt      int // replay: stop (and report) at this step
	k           *chainkit.Kit
	rng         *vlib.Rng
	min         uint64
	useMap      uint32
	on          bool
	pool        []*addr
	byKey       map[string]*addr // "idx/uidx" -> addr
	cold        map[*addr]bool   // addresses never paid by a coinbase
	odd         [][]byte
	cur         snap
	views       map[[32]byte]view
	blkTxs      map[[32]byte][]*btc.Tx
	step        int
	failed      bool
	quiet       bool // maturity phase: only the whole-index comparison
	log         []string
	home        string
	deep        int
	compr       bool // UnspentDB keeps compressed records (chain.NewChanOpts.CompressUTXO)

	pendingResidue   string
	pendingResDetail interface{}
	pendingModelLoad string

	qrng      *vlib.Rng // queries for unusual addresses (odd.go): the history does not depend on it
	sy        syncState // the node's sync state per block connection (sync.go)
	forceRace bool      // every build of the index gets a config change between two records (scenario cfgrace:)
}

func (w *world) logf(f string, a ...interface{}) {
	w.log = append(w.log, fmt.Sprintf("#%d ", w.step)+fmt.Sprintf(f, a...))
	if len(w.log) > 400 {
		w.log = w.log[len(w.log)-400:]
	}
}

func (w *world) replayDoc(detail interface{}) interface{} {
	tail := w.log
	if len(tail) > 60 {
		tail = tail[len(tail)-60:]
	}
	return map[string]interface{}{"scenario": w.name, "seed": w.seed, "step": w.step, "min": w.min, "usemapcnt": w.useMap, "compressed_records": w.compr,
		"detail": detail, "last_ops": tail}
}

// the search for a failing history stops at the first property failure or model/impl disagreement of a world; a
// decoder-level residue alone (reported once) does not stop it: a history in which it shows as a wrong balance is wanted
// nStop: when the searches stop. A property failure stops them at once; a model-vs-code mismatch (hard tie failure) ends
// its world, and up to three more worlds with a mismatch are run — a change of the code that breaks the property usually shows
// first as a mismatch with the model, and the report wanted is the property failing on the real code (vlib drops the tie
// failures when there is one).
var nStop int

const stopAfter = 4

var residueReported bool

func (w *world) propFail(key, what string, detail interface{}) {
	if !w.failed {
		r.PropFail(key, what, w.replayDoc(detail))
		nStop += stopAfter
	}
	w.failed = true
}

// softTie: a model/harness disagreement that is NOT about the index (UnspentDB itself differs from the harness's replay
// of the active chain — C06's subject). The world ends, the finding is reported (once), but the search for a history in
// which the INDEX differs from the projection of the real unspent set goes on.
var softReported = map[string]bool{}

func (w *world) softTie(key, what string, detail interface{}) {
	if !w.failed && !softReported[key] {
		softReported[key] = true
		r.TieFail(key, what, w.replayDoc(detail))
	}
	w.failed = true
}

func (w *world) tieFail(key, what string, detail interface{}) {
	if !w.failed {
		r.TieFail(key, what, w.replayDoc(detail))
		nStop++
	}
	w.failed = true
}

func newWorld(name string, seed uint64, min uint64, useMap uint32) *world {
	return newWorldOpt(name, seed, min, useMap, false)
}

func newWorldOpt(name string, seed uint64, min uint64, useMap uint32, compr bool) *world {
	w := &world{name: name, seed: seed, rng: vlib.NewRng(seed), min: min, useMap: useMap, stopAt: -1, compr: compr, qrng: vlib.NewRng(seed ^ 0x0dd)}
	k, err := chainkit.New(chainkit.Opts{Testnet: true, ChainOpts: &chain.NewChanOpts{CompressUTXO: compr}}, w.rng.Fork())
	if err != nil {
		fmt.Fprintln(os.Stderr, "chainkit:", err)
		os.Exit(3)
	}
	w.k = k
	w.home, _ = os.MkdirTemp("", "vc17")
	common.GocoinHomeDir = w.home + string(os.PathSeparator)
	common.Testnet = true
	common.CFG.Testnet = true
	common.BlockChainSynchronized.Store(false)
	common.BlockChain = k.Ch
	common.Set(&common.WalletON, false)
	wallet.FetchingBalanceTick = nil
	wallet.InitMaps(true)
	wallet.UpdateMapSizes() // creates mapsize.gob so that LoadMapSizes finds a file
	w.byKey = map[string]*addr{}
	w.cold = map[*addr]bool{}
	known = map[[32]byte]bool{}
	w.views = map[[32]byte]view{}
	w.blkTxs = map[[32]byte][]*btc.Tx{}
	w.views[k.Ch.LastBlock().BlockHash.Hash] = view{}
	w.cur = takeSnap(k.Ch.Unspent)
	w.odd = lookalikes(w.rng)
	w.sy = syncState{srng: vlib.NewRng(seed ^ 0x51c17), undoOK: map[uint32]bool{}}
	if rep := o.MustAsk("reset"); rep != "ok" {
		fmt.Fprintln(os.Stderr, "oracle reset:", rep)
		os.Exit(3)
	}
	vhook.Set(func(name string) {
		switch name {
		case "chain.commit:after-utxo", "chain.parse:after-utxo":
			w.sy.hook = name
			if !w.failed {
				w.noteConnect()
			}
			w.onChange("connect")
		case "chain.undo:after-utxo":
			w.onChange("disconnect")
		}
	})
	return w
}

func (w *world) close() {
	vhook.Set(nil)
	if common.Get(&common.WalletON) {
		wallet.Disable()
	}
	common.BlockChain = nil
	t := time.Now()
	w.k.Close()
	tClose += time.Since(t)
	os.RemoveAll(w.home)
}

func (w *world) addAddr(idx int, p []byte) *addr {
	a := mkAddr(idx, p)
	w.pool = append(w.pool, a)
	w.byKey[fmt.Sprintf("%d/%d", a.Idx, a.UIdx)] = a
	return a
}

var tOracle, tClose, tSnap time.Duration

func (w *world) ask(line string) string {
	t := time.Now()
	defer func() { tOracle += time.Since(t) }()
	return o.MustAsk(line)
}

func (w *world) onChange(kind string) {
	if w.failed {
		return
	}
	ns := takeSnap(w.k.Ch.Unspent)
	evs := diffEvents(w.cur, ns, kind, w.rng)
	for _, e := range evs {
		if rep := w.ask(e); rep != "ok" {
			w.tieFail("oracle-rejects", "oracle refused a step: "+rep, e)
			return
		}
	}
	w.cur = ns
	w.step++
	w.logf("%s (%d steps)", kind, len(evs))
	r.Hit("block:" + kind + ":" + onoff(w.on))
	w.checkAll(kind)
}

func onoff(b bool) string {
	if b {
		return "on"
	}
	return "off"
}

func (w *world) setOn(on bool, min uint64, useMap uint32) {
	if w.failed {
		return
	}
	if on {
		w.enable(min, useMap, w.rng.Chance(1, 3)) // byte-level path (load.go), sometimes after an aborted attempt
		return
	} else {
		wallet.Disable()
		w.on = false
		w.ask("disable")
		w.logf("disable")
		r.Hit("disable")
	}
	w.step++
	w.checkAll("toggle")
}

// ------------------------------------------------------------------------------------ observation + checks

type balDump struct {
	Value uint64
	Ents  []string
	IsMap bool // model dumps only: the record is in map layout
}

func realIndex() (m map[string]*balDump, panicked string) {
	m = map[string]*balDump{}
	defer func() {
		if x := recover(); x != nil {
			panicked = fmt.Sprint(x)
		}
	}()
	wallet.Browse(func(idx int, key wallet.OneAddrIndex, rec *wallet.OneAllAddrBal) {
		d := &balDump{Value: rec.Value}
		rec.Browse(func(inp *wallet.OneAllAddrInp) {
			d.Ents = append(d.Ents, fmt.Sprintf("%s:%d", hex.EncodeToString(inp[:utxo.UtxoIdxLen]), binary.LittleEndian.Uint32(inp[utxo.UtxoIdxLen:])))
		})
		sort.Strings(d.Ents)
		m[fmt.Sprintf("%d/%d", idx, uint64(key))] = d
	})
	return
}

func parseDump(s string) (on bool, m map[string]*balDump, err error) {
	m = map[string]*balDump{}
	t := strings.Fields(s)
	if len(t) < 2 || t[0] != "on" {
		return false, nil, fmt.Errorf("bad dump %q", s)
	}
	on = t[1] == "1"
	i := 2
	for i < len(t) {
		if t[i] != "K" || i+5 >= len(t) {
			return on, nil, fmt.Errorf("bad dump record at %d", i)
		}
		v, _ := strconv.ParseUint(t[i+3], 10, 64)
		n, _ := strconv.Atoi(t[i+5])
		d := &balDump{Value: v, IsMap: t[i+4] == "1"}
		if i+6+n > len(t) {
			return on, nil, fmt.Errorf("bad dump entries at %d", i)
		}
		d.Ents = append(d.Ents, t[i+6:i+6+n]...)
		sort.Strings(d.Ents)
		m[t[i+1]+"/"+t[i+2]] = d
		if t[i+4] == "1" {
			r.Hit("model:record-in-map-mode")
		} else {
			r.Hit("model:record-in-list-mode")
		}
		i += 6 + n
	}
	return
}

func sameDump(a, b map[string]*balDump) string {
	for k, x := range a {
		y := b[k]
		if y == nil {
			return "record " + k + " only in real index"
		}
		if x.Value != y.Value {
			return fmt.Sprintf("record %s Value real=%d model=%d", k, x.Value, y.Value)
		}
		if strings.Join(x.Ents, " ") != strings.Join(y.Ents, " ") {
			return fmt.Sprintf("record %s entries real=%v model=%v", k, x.Ents, y.Ents)
		}
	}
	for k := range b {
		if a[k] == nil {
			return "record " + k + " only in model index"
		}
	}
	return ""
}

func realGetAll(a *addr) (l []string, panicked string) {
	defer func() {
		if x := recover(); x != nil {
			panicked = fmt.Sprint(x)
		}
	}()
	ba := *a.BA // GetAllUnspent writes into the address (Hash160 of a P2WPKH program)
	for _, u := range wallet.GetAllUnspent(&ba) {
		l = append(l, fmt.Sprintf("%s:%d:%d:%d:%s", hex.EncodeToString(u.TxPrevOut.Hash[:]), u.TxPrevOut.Vout, u.Value, u.MinedAt, b01(u.Coinbase)))
	}
	sort.Strings(l)
	return
}

// project is the property's own predicate: outputs of the unspent set paying to the address, value >= min.
func project(s snap, a *addr, min uint64) (l []string, total uint64) {
	for _, rr := range s {
		for j, ou := range rr.Outs {
			if ou != nil && ou.Value >= min && bytes.Equal(ou.Script, a.Script) {
				l = append(l, fmt.Sprintf("%s:%d:%d:%d:%s", hex.EncodeToString(rr.TxID[:]), j, ou.Value, rr.Height, b01(rr.CB)))
				total += ou.Value
			}
		}
	}
	sort.Strings(l)
	return
}

func parseList(rep string) (total uint64, l []string, ok bool) {
	t := strings.Fields(rep)
	if len(t) < 2 || t[0] != "total" {
		return
	}
	total, _ = strconv.ParseUint(t[1], 10, 64)
	l = append(l, t[2:]...)
	sort.Strings(l)
	return total, l, true
}

func (w *world) checkAll(ctx string) {
	if w.failed {
		return
	}
	stop := w.stopAt >= 0 && w.step >= w.stopAt
	real, pan := realIndex()
	if pan != "" {
		w.propFail("browse-panic", "wallet.Browse panicked: "+pan, nil)
		return
	}
	// model index
	mon, model, err := parseDump(w.ask("dump"))
	if err != nil {
		w.tieFail("oracle-dump", err.Error(), nil)
		return
	}
	cbSet := w.k.Ch.Unspent.CB.NotifyTxAdd != nil && w.k.Ch.Unspent.CB.NotifyTxDel != nil
	onoffBad := ""
	if mon != w.on || common.Get(&common.WalletON) != w.on || cbSet != w.on {
		// (reported below, after the property's predicate has been evaluated on this state: callbacks that disappeared
		// while the wallet says it is on usually mean a stale index, and that is the report wanted)
		onoffBad = fmt.Sprintf("on/off state: harness=%v model=%v WalletON=%v callbacks=%v", w.on, mon, common.Get(&common.WalletON), cbSet)
		if !(w.on && mon && common.Get(&common.WalletON)) {
			w.tieFail("onoff-state", onoffBad, nil)
			return
		}
	}
	// model UTXO = real UTXO (sanity of the step derivation)
	mu := strings.Fields(w.ask("utxo"))
	if len(mu) == 1 && mu[0] == "-" {
		mu = nil
	}
	sort.Strings(mu)
	if strings.Join(mu, " ") != strings.Join(w.cur.lines(), " ") {
		w.tieFail("utxo-mirror", "the model's UTXO set differs from UnspentDB after replaying the derived steps", map[string]interface{}{"ctx": ctx})
		return
	}
	r.Eval("state:"+ctx, fmt.Sprint(w.name, w.seed, w.step))
	var propBad string
	var propDetail interface{}
	propKey := ""
	// (the predicate is evaluated on a sample of the states of the quiet phases — and ALWAYS when the real index differs
	// from the model's: the report wanted is then the property failing on the real code, if it does)
	dumpDiff := sameDump(real, model)
	if w.on && !w.quiet || w.on && w.step%10 == 0 || stop || w.on && (dumpDiff != "" || onoffBad != "") {
		if w.on {
			// (a) the property on the real code
			for _, a := range w.pool {
				got, pan := realGetAll(a)
				if pan != "" {
					propKey, propBad, propDetail = "getall-panic", "wallet.GetAllUnspent panicked for "+a.String()+": "+pan, nil
					break
				}
				exp, tot := project(w.cur, a, common.AllBalMinVal())
				rec := real[fmt.Sprintf("%d/%d", a.Idx, a.UIdx)]
				var rtot uint64
				if rec != nil {
					rtot = rec.Value
				}
				switch {
				case len(exp) == 0:
					r.Hit("addr:outputs=0")
				case len(exp) == 1:
					r.Hit("addr:outputs=1")
				case uint32(len(exp))+1 < w.useMap:
					r.Hit("addr:outputs=few(list)")
				default:
					r.Hit("addr:outputs>=usemapcnt-1")
				}
				if strings.Join(got, " ") != strings.Join(exp, " ") {
					propKey, propBad = "getall-mismatch", fmt.Sprintf("GetAllUnspent(%s) differs from the projection of the unspent set (min in force=%d) after %s", a.String(), common.AllBalMinVal(), ctx)
					propDetail = map[string]interface{}{"addr": a.String(), "got": got, "projection": exp}
					break
				}
				if rtot != tot {
					propKey, propBad = "total-mismatch", fmt.Sprintf("balance record of %s has Value %d, the projection sums to %d (min in force=%d) after %s", a.String(), rtot, tot, common.AllBalMinVal(), ctx)
					propDetail = map[string]interface{}{"addr": a.String(), "got": got, "value": rtot, "sum": tot}
					break
				}
				r.Eval("prop:addr", "")
				// (b) model GetAllUnspent and Spec projection
				mt, ml, ok := parseList(w.ask(fmt.Sprintf("getall %d %s", a.Idx, vlib.Hex(a.Payload))))
				if !ok || mt != rtot || strings.Join(ml, " ") != strings.Join(got, " ") {
					w.tieFail("model-getall", "model GetAllUnspent differs from the real one for "+a.String(), map[string]interface{}{"real": got, "model": ml, "real_total": rtot, "model_total": mt})
					return
				}
				st, sl, ok := parseList(w.ask(fmt.Sprintf("proj %d %s", a.Idx, vlib.Hex(a.Payload))))
				if !ok || st != tot || strings.Join(sl, " ") != strings.Join(exp, " ") {
					w.tieFail("spec-proj", "Lean Spec projection differs from the Go projection for "+a.String(), map[string]interface{}{"go": exp, "lean": sl})
					return
				}
				r.TieOK()
			}
			if propBad == "" {
				propKey, propBad, propDetail = w.checkOdd(w.oddSample(stop))
				if w.failed {
					return
				}
			}
			if propBad == "" {
				for k := range real {
					if w.byKey[k] == nil {
						propKey, propBad, propDetail = "stray-record", "the index holds a record "+k+" that belongs to no address that ever received an output", real[k]
						break
					}
				}
			}
		}
	}
	if !w.on && len(real) != 0 {
		propKey, propBad, propDetail = "not-empty-when-off", "the index is switched off but still holds records", len(real)
	}
	if propBad != "" {
		w.propFail(propKey, propBad, propDetail)
		return
	}
	if onoffBad != "" {
		w.tieFail("onoff-state", onoffBad, nil)
		return
	}
	if d := dumpDiff; d != "" {
		w.tieFail("index-dump", "real index differs from the model index after "+ctx+": "+d, nil)
		return
	}
	r.TieOK()
	if stop {
		w.failed = true // replay: stop here
	}
}

// ------------------------------------------------------------------------------------ building blocks

type txSpec struct {
	Ins  []*vcoin
	Outs []chainkit.OutSpec
}

func (w *world) tipHash() [32]byte { return w.k.Ch.LastBlock().BlockHash.Hash }

func spendable(v view, height uint32) []*vcoin {
	var l []*vcoin
	for _, c := range v {
		if c.CB && height-c.Height < chain.COINBASE_MATURITY {
			continue
		}
		if len(c.Script) > 0 && c.Script[0] == 0x6a {
			continue
		}
		l = append(l, c)
	}
	sort.Slice(l, func(i, j int) bool {
		if c := bytes.Compare(l[i].Out.Hash[:], l[j].Out.Hash[:]); c != 0 {
			return c < 0
		}
		return l[i].Out.Vout < l[j].Out.Vout
	})
	return l
}

func mkTx(s txSpec) *btc.Tx {
	var coins []*chainkit.Coin
	for _, c := range s.Ins {
		coins = append(coins, &chainkit.Coin{Out: c.Out, Value: c.Value, Script: c.Script, Kind: "raw", Height: c.Height, Coinbase: c.CB})
	}
	return chainkit.BuildTx(2, coins, nil, s.Outs, 0)
}

// applyTx updates a view; returns false when an input is missing.
func applyTx(v view, tx *btc.Tx, height uint32, cb bool) bool {
	if !cb {
		for _, in := range tx.TxIn {
			if _, ok := v[in.Input]; !ok {
				return false
			}
		}
		for _, in := range tx.TxIn {
			delete(v, in.Input)
		}
	}
	for j, ou := range tx.TxOut {
		po := btc.TxPrevOut{Hash: tx.Hash.Hash, Vout: uint32(j)}
		v[po] = &vcoin{Out: po, Value: ou.Value, Script: ou.Pk_script, Height: height, CB: cb}
	}
	return true
}

// submit = btc.NewBlock + CheckBlock + (scripts trusted, as with the client's -trust flag) + AcceptBlock
func (w *world) submit(raw []byte) string {
	res := ""
	func() {
		defer func() {
			if x := recover(); x != nil {
				res = "panic: " + fmt.Sprint(x)
			}
		}()
		bl, err := btc.NewBlock(raw)
		if err != nil {
			res = "parse: " + err.Error()
			return
		}
		w.k.Ch.BlockIndexAccess.Lock()
		_, _, e := w.k.Ch.CheckBlock(bl)
		w.k.Ch.BlockIndexAccess.Unlock()
		if e != nil {
			res = "check: " + e.Error()
			return
		}
		bl.Trusted.Set()
		// the node's sync state while it connects this block (sync.go); the client sets bl.LastKnownHeight to the height of
		// the best header it knows before it hands the block to CommitBlock
		if par := w.k.Ch.BlockIndex[btc.NewUint256(bl.ParentHash()).BIdx()]; par != nil {
			w.sy.curEnd = par.Height + 1
			w.sy.curLK = w.lastKnownFor(par.Height+1, par == w.k.Ch.LastBlock())
			bl.LastKnownHeight = w.sy.curLK
		}
		if e := w.k.Ch.AcceptBlock(bl); e != nil {
			res = "accept: " + e.Error()
		}
	}()
	return res
}

// buildOn builds a block with the given transactions (already valid against the parent's view) on parent.
func (w *world) buildOn(parent *chain.BlockTreeNode, txs []*btc.Tx, cbOuts func(total uint64) []chainkit.OutSpec) ([]byte, bool) {
	height := parent.Height + 1
	v := w.views[parent.BlockHash.Hash].clone()
	var fees uint64
	var ok []*btc.Tx
	for _, tx := range txs {
		var in, out uint64
		good := true
		for _, i := range tx.TxIn {
			c := v[i.Input]
			if c == nil || (c.CB && height-c.Height < chain.COINBASE_MATURITY) {
				good = false
				break
			}
			in += c.Value
		}
		for _, ou := range tx.TxOut {
			out += ou.Value
		}
		if !good || out > in {
			continue
		}
		applyTx(v, tx, height, false)
		fees += in - out
		ok = append(ok, tx)
	}
	total := btc.GetBlockReward(height) + fees
	spec := chainkit.BlockSpec{Parent: parent, Txs: ok, Fees: fees}
	if cbOuts != nil {
		spec.CoinbaseOuts = cbOuts(total)
	}
	raw := w.k.Build(spec)
	bl, err := btc.NewBlock(raw)
	if err != nil {
		return nil, false
	}
	bl.BuildTxList()
	applyTx(v, bl.Txs[0], height, true)
	known[bl.Txs[0].Hash.Hash] = true
	for _, t := range ok {
		known[t.Hash.Hash] = true
	}
	w.views[bl.Hash.Hash] = v
	w.blkTxs[bl.Hash.Hash] = ok
	return raw, true
}

// extend builds and submits a block on parent; reports a harness problem when a valid block is refused.
func (w *world) extend(parent *chain.BlockTreeNode, txs []*btc.Tx, cbOuts func(total uint64) []chainkit.OutSpec) bool {
	if w.failed {
		return false
	}
	raw, ok := w.buildOn(parent, txs, cbOuts)
	if !ok {
		w.tieFail("harness-build", "harness could not build a block", nil)
		return false
	}
	if res := w.submit(raw); res != "" {
		w.tieFail("block-refused", "a block the harness believes valid was refused: "+res, nil)
		return false
	}
	return true
}

func (w *world) checkView() {
	if w.failed {
		return
	}
	v := w.views[w.tipHash()]
	n := 0
	for _, rr := range w.cur {
		for j, ou := range rr.Outs {
			if ou != nil {
				n++
				c := v[btc.TxPrevOut{Hash: rr.TxID, Vout: uint32(j)}]
				if c == nil || c.Value != ou.Value || !bytes.Equal(c.Script, ou.Script) {
					w.softTie("utxo-view", "UnspentDB differs from the harness's own replay of the active chain", nil)
					return
				}
			}
		}
	}
	if n != len(v) {
		w.softTie("utxo-view", fmt.Sprintf("UnspentDB has %d outputs, the harness's replay of the active chain %d", n, len(v)), nil)
	} else if c := fullCount(w.k.Ch.Unspent); c != len(w.cur) {
		w.softTie("utxo-view", fmt.Sprintf("UnspentDB holds %d records, %d of them known to the harness", c, len(w.cur)), nil)
	}
}

// ------------------------------------------------------------------------------------ generators

func (w *world) pickScript() []byte {
	x := w.rng.Intn(100)
	switch {
	case x < 8:
		return w.odd[w.rng.Intn(len(w.odd))]
	case x < 45 && len(w.pool) > 0: // hot addresses: the first three of the pool
		return w.pool[w.rng.Intn(int(min64(3, uint64(len(w.pool)))))].Script
	default:
		return w.pool[w.rng.Intn(len(w.pool))].Script
	}
}

func (w *world) pickValue(avail uint64) uint64 {
	var c []uint64
	if w.min > 0 {
		c = append(c, w.min-1, w.min, w.min, w.min+1)
	}
	if w.min == 0 {
		c = append(c, 0, 0, 0)
	}
	c = append(c, 0, 1, avail/7+1, avail/3+1, uint64(w.rng.Intn(5000)), w.min+uint64(w.rng.Intn(100000)))
	v := c[w.rng.Intn(len(c))]
	if v > avail {
		v = avail
	}
	return v
}

func (w *world) randOuts(avail uint64, maxn int) []chainkit.OutSpec {
	n := 1 + w.rng.Intn(maxn)
	var outs []chainkit.OutSpec
	var same []byte
	if w.rng.Chance(1, 3) {
		same = w.pickScript() // several outputs of one tx to the same address
	}
	for i := 0; i < n; i++ {
		v := w.pickValue(avail)
		avail -= v
		s := w.pickScript()
		if same != nil && w.rng.Chance(2, 3) {
			s = same
		}
		outs = append(outs, chainkit.OutSpec{Value: v, Script: s})
	}
	if avail > 0 && w.rng.Chance(4, 5) { // change
		outs = append(outs, chainkit.OutSpec{Value: avail - uint64(w.rng.Intn(int(min64(avail, 1000))+1)), Script: w.pickScript()})
	}
	return outs
}

func min64(a, b uint64) uint64 {
	if a < b {
		return a
	}
	return b
}

// randTxs builds up to n transactions valid on top of the parent's view (later ones may spend earlier ones).
func (w *world) randTxs(parent *chain.BlockTreeNode, n int) []*btc.Tx {
	height := parent.Height + 1
	v := w.views[parent.BlockHash.Hash].clone()
	var txs []*btc.Tx
	for i := 0; i < n; i++ {
		sp := spendable(v, height)
		if len(sp) == 0 {
			break
		}
		nin := 1 + w.rng.Intn(3)
		var ins []*vcoin
		var sum uint64
		// prefer coins that pay to pool addresses (so that index entries get removed), sometimes anything
		for j := 0; j < nin && len(sp) > 0; j++ {
			x := w.rng.Intn(len(sp))
			ins = append(ins, sp[x])
			sum += sp[x].Value
			sp = append(sp[:x], sp[x+1:]...)
		}
		tx := mkTx(txSpec{Ins: ins, Outs: w.randOuts(sum, 6)})
		if applyTx(v, tx, height, false) {
			txs = append(txs, tx)
			r.Hit(fmt.Sprintf("tx:ins=%d", len(ins)))
		}
	}
	return txs
}

// pickScriptCB: a script for a coinbase output — never one of the "cold" addresses (those are paid by ordinary
// transactions only, so all their outputs are spendable at once and their total can be driven to 0)
func (w *world) pickScriptCB() []byte {
	for {
		s := w.pickScript()
		if a := w.byScript(s); a == nil || !w.cold[a] {
			return s
		}
	}
}

func (w *world) cbSplit(total uint64) []chainkit.OutSpec {
	n := 1 + w.rng.Intn(5)
	var outs []chainkit.OutSpec
	for i := 0; i < n-1; i++ {
		v := total / uint64(n+1)
		if w.rng.Chance(1, 4) {
			v = w.pickValue(total)
		}
		total -= v
		outs = append(outs, chainkit.OutSpec{Value: v, Script: w.pickScriptCB()})
	}
	outs = append(outs, chainkit.OutSpec{Value: total, Script: w.pickScriptCB()})
	return outs
}

func (w *world) ancestor(n *chain.BlockTreeNode, d int) *chain.BlockTreeNode {
	for i := 0; i < d && n.Parent != nil; i++ {
		n = n.Parent
	}
	return n
}

func (w *world) opExtend() {
	tip := w.k.Ch.LastBlock()
	txs := w.randTxs(tip, w.rng.Intn(5))
	w.logf("extend h=%d txs=%d", tip.Height+1, len(txs))
	w.extend(tip, txs, w.cbSplit)
	w.checkView()
}

func (w *world) opReorg() {
	tip := w.k.Ch.LastBlock()
	d := 1 + w.rng.Intn(3)
	if uint32(d) >= tip.Height {
		return
	}
	for d > 0 && !w.canUnwind(tip.Height, d) {
		d-- // a block connected far behind the best known header kept no undo data: it stays
	}
	if d == 0 {
		w.opExtend()
		return
	}
	base := w.ancestor(tip, d)
	// transactions of the branch being replaced may be mined again on the new branch
	var old []*btc.Tx
	for n := tip; n != base; n = n.Parent {
		old = append(w.blkTxs[n.BlockHash.Hash], old...)
	}
	w.logf("reorg depth=%d from h=%d", d, tip.Height)
	r.Hit(fmt.Sprintf("reorg:depth=%d", d))
	cur := base
	for i := 0; i <= d && !w.failed; i++ {
		var txs []*btc.Tx
		if i == 0 && w.rng.Chance(1, 2) {
			for _, t := range old {
				if w.rng.Chance(2, 3) {
					txs = append(txs, t)
				}
			}
			r.Hit("reorg:re-mines-old-txs")
		}
		raw, ok := w.buildOn(cur, txs, w.cbSplit)
		if ok && len(w.blkTxs[hashOf(raw)]) == 0 {
			// nothing re-mined: fresh transactions instead
			raw, ok = w.buildOn(cur, w.randTxs(cur, w.rng.Intn(4)), w.cbSplit)
		}
		if !ok {
			w.tieFail("harness-build", "harness could not build a branch block", nil)
			return
		}
		if res := w.submit(raw); res != "" {
			w.tieFail("block-refused", "a branch block the harness believes valid was refused: "+res, nil)
			return
		}
		cur = w.k.Ch.BlockIndex[btc.NewUint256(hashOf32(raw)).BIdx()]
		if cur == nil {
			w.tieFail("harness-build", "branch block not in the index", nil)
			return
		}
	}
	if !w.failed && w.k.Ch.LastBlock() != cur {
		w.tieFail("reorg-not-taken", "the longer branch did not become the active chain", nil)
	}
	w.checkView()
}

func hashOf32(raw []byte) []byte {
	bl, err := btc.NewBlock(raw)
	if err != nil {
		return make([]byte, 32)
	}
	return bl.Hash.Hash[:]
}
func hashOf(raw []byte) (h [32]byte) {
	copy(h[:], hashOf32(raw))
	return
}

func (w *world) opUndo() {
	tip := w.k.Ch.LastBlock()
	if tip.Height < 2 || !w.canUnwind(tip.Height, 1) {
		return
	}
	w.logf("undo-last h=%d", tip.Height)
	r.Hit("undo-last-block")
	func() {
		defer func() {
			if x := recover(); x != nil {
				w.tieFail("undo-panic", "Chain.UndoLastBlock panicked: "+fmt.Sprint(x), nil)
			}
		}()
		w.k.Ch.UndoLastBlock()
	}()
	w.checkView()
}

// opDrain spends, in one block, every output of one address whose value is above a threshold (0: all non-zero
// outputs, so that zero-value ones stay behind; or everything), optionally sending a zero-value output back.
func (w *world) opDrain() {
	tip := w.k.Ch.LastBlock()
	v := w.views[tip.BlockHash.Hash]
	sp := spendable(v, tip.Height+1)
	var cand []*addr
	for _, a := range w.pool {
		for _, c := range sp {
			if bytes.Equal(c.Script, a.Script) {
				cand = append(cand, a)
				break
			}
		}
	}
	if len(cand) == 0 {
		w.opExtend()
		return
	}
	mode := w.rng.Intn(3) // 0: the non-zero outputs, 1: all of them, 2: all but one
	if mode == 0 && w.min == 0 {
		// prefer an address that holds a zero-value output next to others
		var withZero []*addr
		inSp := map[*vcoin]bool{}
		for _, c := range sp {
			inSp[c] = true
		}
		for _, a := range cand {
			z, nz, locked := false, false, false
			for _, c := range v {
				if bytes.Equal(c.Script, a.Script) {
					z = z || c.Value == 0
					nz = nz || c.Value != 0
					locked = locked || (c.Value != 0 && !inSp[c]) // an immature coinbase output
				}
			}
			if z && nz && !locked {
				withZero = append(withZero, a)
			}
		}
		if len(withZero) > 0 {
			cand = withZero
		}
	}
	a := cand[w.rng.Intn(len(cand))]
	var ins []*vcoin
	var sum uint64
	zeroLeft := false
	for _, c := range sp {
		if !bytes.Equal(c.Script, a.Script) {
			continue
		}
		if mode == 0 && c.Value == 0 {
			zeroLeft = true
			continue
		}
		if mode == 2 && len(ins) == 0 && !zeroLeft {
			zeroLeft = true // (keeps the first one)
			continue
		}
		if len(ins) < 2000 {
			ins = append(ins, c)
			sum += c.Value
		}
	}
	if len(ins) == 0 {
		w.opExtend()
		return
	}
	var outs []chainkit.OutSpec
	if w.rng.Chance(1, 3) {
		outs = append(outs, chainkit.OutSpec{Value: 0, Script: a.Script})
	}
	outs = append(outs, chainkit.OutSpec{Value: sum, Script: w.pickScript()})
	r.Hit(fmt.Sprintf("drain:mode=%d", mode))
	if mode == 0 && zeroLeft && w.on && w.min == 0 {
		left := false
		for _, c := range v {
			if bytes.Equal(c.Script, a.Script) && c.Value != 0 && (c.CB && tip.Height+1-c.Height < chain.COINBASE_MATURITY) {
				left = true
			}
		}
		if !left && len(ins) < 2000 {
			r.Hit("drain:total-0-with-zero-value-output-left(min=0)")
		}
	}
	w.logf("drain %s mode=%d ins=%d", a.String(), mode, len(ins))
	w.extend(tip, []*btc.Tx{mkTx(txSpec{Ins: ins, Outs: outs})}, w.cbSplit)
	w.checkView()
}

var minChoices = []uint64{0, 0, 1, 546, 1000, 100000}
var mapChoices = []uint32{0, 1, 2, 3, 4, 6, 9, 5000}

func (w *world) opToggle() {
	if w.on {
		w.setOn(false, 0, 0)
		if w.rng.Chance(1, 2) {
			return // stays off for a while
		}
	}
	mn, um := w.min, w.useMap
	if w.rng.Chance(1, 2) {
		mn = minChoices[w.rng.Intn(len(minChoices))]
	}
	if w.rng.Chance(1, 2) {
		um = mapChoices[w.rng.Intn(len(mapChoices))]
	}
	w.setOn(true, mn, um)
	if w.rng.Chance(1, 3) {
		w.diskRoundTrip()
	}
}

// a random history: maturity phase (coinbases paying to the pool), then a mix of operations
func runRandom(name string, seed uint64, nops int, stopAt int) *world {
	g := vlib.NewRng(seed ^ 0xc17)
	w := newWorldOpt(name, seed, minChoices[g.Intn(len(minChoices))], mapChoices[g.Intn(len(mapChoices))], seed&(1<<20) != 0)
	w.stopAt = stopAt
	defer w.close()
	for idx := 0; idx < 5; idx++ {
		n := 1 + g.Intn(3)
		for i := 0; i < n; i++ {
			sz := 20
			if idx >= 3 {
				sz = 32
			}
			w.addAddr(idx, w.rng.Bytes(sz))
		}
	}
	// the same payload under two different address types (P2KH / P2SH / P2WKH share the 20-byte space)
	w.addAddr(1, w.pool[0].Payload)
	w.addAddr(2, w.pool[0].Payload)
	w.rng = vlib.NewRng(seed ^ 0x5eed)
	for i := len(w.pool) - 1; i > 0; i-- {
		j := w.rng.Intn(i + 1)
		w.pool[i], w.pool[j] = w.pool[j], w.pool[i]
	}
	// two cold addresses, one of them among the three hot ones
	w.cold[w.pool[g.Intn(3)]] = true
	w.cold[w.pool[3+g.Intn(len(w.pool)-3)]] = true
	startOn := g.Intn(3)
	if startOn == 0 {
		w.setOn(true, w.min, w.useMap) // enabled on the empty set
	}
	w.quiet = true
	for i := 0; i < 101 && !w.failed; i++ {
		w.extend(w.k.Ch.LastBlock(), nil, w.cbSplit)
		if startOn == 1 && i == 50 {
			w.setOn(true, w.min, w.useMap)
		}
	}
	w.quiet = false
	w.checkView()
	if !w.on {
		w.setOn(true, w.min, w.useMap) // built from an already populated set
	}
	for i := 0; i < nops && !w.failed; i++ {
		x := w.rng.Intn(100)
		switch {
		case x < 40:
			w.opExtend()
		case x < 43:
			w.opNoise()
			w.opExtend()
		case x < 50:
			w.opSync(false)
		case x < 58:
			w.opDrain()
		case x < 72:
			w.opReorg()
		case x < 78:
			w.opRevisit(1+w.rng.Intn(3), false)
		case x < 85:
			w.opUndo()
		case x < 92:
			w.opRestart()
		default:
			w.opToggle()
		}
	}
	if !w.on && !w.failed {
		w.setOn(true, w.min, w.useMap)
	}
	if !w.failed {
		w.oddFull()
	}
	return w
}

// ------------------------------------------------------------------------------------ scripted corpus

// helper for scripted scenarios: pay the given outputs from any spendable coins, in one block
func (w *world) pay(outs ...chainkit.OutSpec) *btc.Tx {
	if w.failed {
		return nil
	}
	tip := w.k.Ch.LastBlock()
	var need uint64
	for _, ou := range outs {
		need += ou.Value
	}
	var ins []*vcoin
	var sum uint64
	for _, c := range spendable(w.views[tip.BlockHash.Hash], tip.Height+1) {
		if w.byScript(c.Script) != nil {
			continue // do not touch outputs of pool addresses
		}
		ins = append(ins, c)
		sum += c.Value
		if sum >= need+1000 {
			break
		}
	}
	if sum < need {
		w.tieFail("harness-funds", "scripted scenario ran out of funds", nil)
		return nil
	}
	all := append(append([]chainkit.OutSpec{}, outs...), chainkit.OutSpec{Value: sum - need, Script: []byte{0x51}})
	tx := mkTx(txSpec{Ins: ins, Outs: all})
	w.logf("pay %d outputs", len(outs))
	w.extend(tip, []*btc.Tx{tx}, nil)
	return tx
}

func (w *world) byScript(s []byte) *addr {
	for _, a := range w.pool {
		if bytes.Equal(a.Script, s) {
			return a
		}
	}
	return nil
}

// spend the given outputs (and pay `outs` from them) in one block
func (w *world) spend(coins []btc.TxPrevOut, outs ...chainkit.OutSpec) *btc.Tx {
	if w.failed {
		return nil
	}
	tip := w.k.Ch.LastBlock()
	v := w.views[tip.BlockHash.Hash]
	var ins []*vcoin
	var sum, need uint64
	for _, po := range coins {
		c := v[po]
		if c == nil {
			w.tieFail("harness-coin", "scripted scenario: coin not in view", po.String())
			return nil
		}
		ins = append(ins, c)
		sum += c.Value
	}
	for _, ou := range outs {
		need += ou.Value
	}
	all := append([]chainkit.OutSpec{}, outs...)
	if sum > need || len(all) == 0 {
		all = append(all, chainkit.OutSpec{Value: sum - need, Script: []byte{0x51}}) // (a zero-value coin spent alone: 0-value change)
	}
	tx := mkTx(txSpec{Ins: ins, Outs: all})
	w.logf("spend %d coins", len(coins))
	w.extend(tip, []*btc.Tx{tx}, nil)
	return tx
}

func po(tx *btc.Tx, vout int) btc.TxPrevOut {
	return btc.TxPrevOut{Hash: tx.Hash.Hash, Vout: uint32(vout)}
}

// corpus: the boundaries named in the property's quantifier, for one (min, useMapCnt, address type)
func runCorpus(name string, seed uint64, mn uint64, um uint32, idx int, stopAt int) *world {
	w := newWorld(name, seed, mn, um)
	w.stopAt = stopAt
	defer w.close()
	sz := 20
	if idx >= 3 {
		sz = 32
	}
	A := w.addAddr(idx, w.rng.Bytes(sz))
	B := w.addAddr((idx+1)%5, w.rng.Bytes(map[bool]int{true: 32, false: 20}[(idx+1)%5 >= 3]))
	C := w.addAddr(idx, w.rng.Bytes(sz)) // never receives anything: 0 outputs
	_ = C
	w.quiet = true
	for i := 0; i < 103 && !w.failed; i++ {
		w.extend(w.k.Ch.LastBlock(), nil, nil) // coinbases to OP_TRUE: funds of the scenario
	}
	w.quiet = false
	w.setOn(true, mn, um)
	v := mn + 5000
	// 1 output; then the last output is spent and a new one arrives in the SAME block
	t1 := w.pay(chainkit.OutSpec{Value: v, Script: A.Script})
	if t1 == nil {
		return w
	}
	t2 := w.spend([]btc.TxPrevOut{po(t1, 0)}, chainkit.OutSpec{Value: v - 100, Script: A.Script})
	if t2 == nil {
		return w
	}
	// below / at / above the minimum, three outputs of one transaction to one address
	lo := mn
	if lo > 0 {
		lo--
	}
	t3 := w.pay(chainkit.OutSpec{Value: lo, Script: A.Script}, chainkit.OutSpec{Value: mn, Script: A.Script}, chainkit.OutSpec{Value: mn + 1, Script: A.Script},
		chainkit.OutSpec{Value: mn, Script: B.Script}, chainkit.OutSpec{Value: 7, Script: w.odd[3]})
	if t3 == nil {
		return w
	}
	// all of them spent at once (record must disappear), including the one below the minimum
	t4 := w.spend([]btc.TxPrevOut{po(t2, 0), po(t3, 0), po(t3, 1), po(t3, 2)})
	if t4 == nil {
		return w
	}
	// and a new one arrives afterwards (a fresh record with a fresh total)
	t5 := w.pay(chainkit.OutSpec{Value: v, Script: A.Script})
	if t5 == nil {
		return w
	}
	// walk across the list->map switch-over: useMapCnt+2 outputs, first one per block, then several per tx
	n := int(um) + 2
	if n > 12 {
		n = 12
	}
	var got []btc.TxPrevOut
	got = append(got, po(t5, 0))
	for i := 0; i < n/2 && !w.failed; i++ {
		t := w.pay(chainkit.OutSpec{Value: v + uint64(i), Script: A.Script})
		if t == nil {
			return w
		}
		got = append(got, po(t, 0))
	}
	var many []chainkit.OutSpec
	for i := 0; i < n-n/2; i++ {
		many = append(many, chainkit.OutSpec{Value: v + 100 + uint64(i), Script: A.Script})
	}
	tm := w.pay(many...)
	if tm == nil {
		return w
	}
	for i := range many {
		got = append(got, po(tm, i))
	}
	// off / on with a different minimum while populated
	w.setOn(false, 0, 0)
	w.setOn(true, mn+3, um)
	w.setOn(false, 0, 0)
	w.setOn(true, mn, um)
	// undo the last block and connect it again through a competing branch
	w.opUndo()
	w.extend(w.k.Ch.LastBlock(), []*btc.Tx{tm}, nil)
	// drain one by one down to zero, the last two in one transaction
	for len(got) > 2 && !w.failed {
		if w.spend(got[:1]) == nil {
			return w
		}
		got = got[1:]
	}
	tl := w.spend(got, chainkit.OutSpec{Value: v, Script: A.Script})
	if tl == nil {
		return w
	}
	// reorganise the last block away: the two outputs come back, the new one goes
	tip := w.k.Ch.LastBlock()
	base := tip.Parent
	raw, ok := w.buildOn(base, nil, nil)
	if ok {
		w.submit(raw)
		n1 := w.k.Ch.BlockIndex[btc.NewUint256(hashOf32(raw)).BIdx()]
		if n1 != nil {
			w.extend(n1, []*btc.Tx{mkTx(txSpec{Ins: []*vcoin{w.views[n1.BlockHash.Hash][got[0]]}, Outs: []chainkit.OutSpec{{Value: mn, Script: A.Script}, {Value: mn, Script: A.Script}}})}, nil)
		}
	}
	w.checkView()
	return w
}

// corpus, MinValue = 0: zero-value outputs to a standard address script next to other outputs. The record of an
// address must live exactly as long as its OUTPUT LIST is non-empty — its total may reach 0 long before that.
func runZero(name string, seed uint64, um uint32, idx int, stopAt int) *world {
	w := newWorld(name, seed, 0, um)
	w.stopAt = stopAt
	defer w.close()
	sz := map[bool]int{true: 32, false: 20}
	A := w.addAddr(idx, w.rng.Bytes(sz[idx >= 3]))
	B := w.addAddr((idx+2)%5, w.rng.Bytes(sz[(idx+2)%5 >= 3]))
	w.quiet = true
	for i := 0; i < 103 && !w.failed; i++ {
		w.extend(w.k.Ch.LastBlock(), nil, nil)
	}
	w.quiet = false
	w.setOn(true, 0, um)
	const v = 7000
	Z := func(a *addr) chainkit.OutSpec { return chainkit.OutSpec{Value: 0, Script: a.Script} }
	V := func(a *addr, x uint64) chainkit.OutSpec { return chainkit.OutSpec{Value: x, Script: a.Script} }
	// a zero-value output next to two non-zero ones (one transaction), a lone zero-value output on B
	t1 := w.pay(Z(A), V(A, v), V(A, v+1), Z(B))
	if t1 == nil {
		return w
	}
	r.Hit("zero:holds-zero-next-to-nonzero")
	// the block spends ALL non-zero outputs of A: total 0, one (zero-value) output still unspent
	if w.spend([]btc.TxPrevOut{po(t1, 1), po(t1, 2)}) == nil {
		return w
	}
	r.Hit("zero:total-0-with-output-left")
	// a second zero-value output arrives; one of the two is spent (alone); the block is undone and connected again
	t2 := w.pay(Z(A))
	if t2 == nil {
		return w
	}
	t3 := w.spend([]btc.TxPrevOut{po(t1, 0)})
	if t3 == nil {
		return w
	}
	w.opUndo()
	w.extend(w.k.Ch.LastBlock(), []*btc.Tx{t3}, nil)
	// non-zero output arrives and leaves together with nothing else: the zero-value one stays
	t4 := w.pay(V(A, v), V(B, 1))
	if t4 == nil {
		return w
	}
	if w.spend([]btc.TxPrevOut{po(t4, 0)}) == nil {
		return w
	}
	// B: the 1-value output goes, the zero-value one stays
	if w.spend([]btc.TxPrevOut{po(t4, 1)}) == nil {
		return w
	}
	// rebuilt from the populated set with min 0 (zero-value entries are back), with min 1 (they are not), with 0 again
	w.setOn(false, 0, 0)
	w.setOn(true, 0, um)
	w.setOn(false, 0, 0)
	w.setOn(true, 1, um)
	w.setOn(false, 0, 0)
	w.setOn(true, 0, um)
	// many zero-value outputs in one transaction (list -> map switch-over with total 0), drained one by one
	n := int(um) + 2
	if n > 8 {
		n = 8
	}
	var zs []chainkit.OutSpec
	for i := 0; i < n; i++ {
		zs = append(zs, Z(A))
	}
	tz := w.pay(zs...)
	if tz == nil {
		return w
	}
	for i := 0; i < n && !w.failed; i++ {
		if w.spend([]btc.TxPrevOut{po(tz, i)}) == nil {
			return w
		}
	}
	// the last zero-value output of A goes (record must disappear) and a new zero-value one arrives in the same block
	if w.spend([]btc.TxPrevOut{po(t2, 0)}, Z(A)) == nil {
		return w
	}
	// that block is reorganised away
	tip := w.k.Ch.LastBlock()
	if raw, ok := w.buildOn(tip.Parent, nil, nil); ok {
		w.submit(raw)
		if n1 := w.k.Ch.BlockIndex[btc.NewUint256(hashOf32(raw)).BIdx()]; n1 != nil {
			w.extend(n1, nil, nil)
		}
	}
	w.checkView()
	return w
}

// ------------------------------------------------------------------------------------ main

type replayDoc struct {
	Replay struct {
		Scenario string `json:"scenario"`
		Seed     uint64 `json:"seed"`
		Step     int    `json:"step"`
	} `json:"replay"`
}

func runNamed(name string, seed uint64, stopAt int) {
	switch {
	case strings.HasPrefix(name, "corpus:"):
		var mn uint64
		var um uint32
		var idx int
		fmt.Sscanf(name, "corpus:min=%d,usemap=%d,type=%d", &mn, &um, &idx)
		runCorpus(name, seed, mn, um, idx, stopAt)
	case strings.HasPrefix(name, "zero:"):
		var um uint32
		var idx int
		fmt.Sscanf(name, "zero:usemap=%d,type=%d", &um, &idx)
		runZero(name, seed, um, idx, stopAt)
	case strings.HasPrefix(name, "static:"):
		var mn uint64
		var um uint32
		var c int
		fmt.Sscanf(name, "static:min=%d,usemap=%d,compr=%d", &mn, &um, &c)
		runStatic(name, seed, mn, um, c == 1, stopAt)
	case strings.HasPrefix(name, "revisit:"):
		var mn uint64
		var um uint32
		var c int
		fmt.Sscanf(name, "revisit:min=%d,usemap=%d,compr=%d", &mn, &um, &c)
		runRevisit(name, seed, mn, um, c == 1, stopAt)
	case strings.HasPrefix(name, "cfgrace:"):
		var mn uint64
		var um uint32
		var c int
		fmt.Sscanf(name, "cfgrace:min=%d,usemap=%d,compr=%d", &mn, &um, &c)
		runCfgRace(name, seed, mn, um, c == 1, stopAt)
	case strings.HasPrefix(name, "restart:"):
		var mn uint64
		var um uint32
		var c int
		fmt.Sscanf(name, "restart:min=%d,usemap=%d,compr=%d", &mn, &um, &c)
		runRestart(name, seed, mn, um, c == 1, stopAt)
	case strings.HasPrefix(name, "syncwrap:"):
		var mn uint64
		var um uint32
		var c int
		fmt.Sscanf(name, "syncwrap:min=%d,usemap=%d,compr=%d", &mn, &um, &c)
		runSyncWrap(name, seed, mn, um, c == 1, stopAt)
	case strings.HasPrefix(name, "sync:"):
		var mn uint64
		var um uint32
		var c int
		fmt.Sscanf(name, "sync:min=%d,usemap=%d,compr=%d", &mn, &um, &c)
		runSync(name, seed, mn, um, c == 1, stopAt)
	case strings.HasPrefix(name, "random:"):
		var nops int
		fmt.Sscanf(name, "random:ops=%d", &nops)
		runRandom(name, seed, nops, stopAt)
	}
}

func checkSip() {
	g := vlib.NewRng(r.Seed ^ 0x51b)
	for i := 0; i < 60; i++ {
		b := g.Bytes(i % 41)
		want := fmt.Sprint(siphash.Hash(0, 0, b))
		if got := o.MustAsk("sip " + vlib.Hex(b)); got != want {
			r.TieFail("siphash", "Lean SipHash differs from lib/others/siphash", map[string]string{"input": vlib.Hex(b), "go": want, "lean": got})
			return
		}
		r.TieOK()
	}
	r.Eval("siphash", "")
	// Script2Idx on the five forms and the look-alikes
	var scripts [][]byte
	for idx := 0; idx < 5; idx++ {
		scripts = append(scripts, mkScript(idx, g.Bytes(map[bool]int{true: 32, false: 20}[idx >= 3])))
	}
	scripts = append(scripts, lookalikes(g)...)
	for i := 0; i < 40; i++ {
		s := append([]byte{}, scripts[g.Intn(len(scripts))]...)
		if len(s) > 0 {
			s[g.Intn(len(s))] ^= byte(1 << uint(g.Intn(8)))
		}
		scripts = append(scripts, s)
	}
	for _, s := range scripts {
		idx, uidx := wallet.Script2Idx(s)
		want := "none"
		if idx >= 0 {
			want = fmt.Sprintf("%d %d", idx, uint64(uidx))
		}
		got := o.MustAsk("s2i " + vlib.Hex(s))
		if f := strings.Fields(got); len(f) == 3 {
			got = f[0] + " " + f[1]
		}
		if got != want {
			r.TieFail("script2idx", "model Script2Idx differs from wallet.Script2Idx", map[string]string{"script": vlib.Hex(s), "go": want, "lean": got})
			return
		}
		r.Hit("script2idx:" + strings.Fields(want)[0])
		r.TieOK()
	}
	r.Eval("script2idx", "")
}

func main() {
	r = vlib.NewRun("C17")
	if pf := os.Getenv("C17_PPROF"); pf != "" {
		f, _ := os.Create(pf)
		pprof.StartCPUProfile(f)
		defer pprof.StopCPUProfile()
	}
	var err error
	o, err = vlib.StartOracle("c17")
	if err != nil {
		fmt.Fprintln(os.Stderr, "oracle:", err)
		os.Exit(3)
	}
	defer o.Close()
	prepareCfg()
	r.Assume = []string{
		"a balance cache written by SaveBalances at block B is only loaded at block B (the folder name carries height, hash suffix, key length, minimum and file version); the restart through the cache IS an event of the history theorems (Ev.reload: any UseMapCnt at the restart, any map iteration order while saving) and of the generated histories (restart: / opRestart / disk:save-reload); the harness picks the order of a map record's entries in the file itself (seeded) instead of leaving it to Go's map iteration, so that a history is reproducible",
		"scripts of the generated blocks are not executed (blocks are marked trusted after the full CheckBlock, like the client's -trust flag): the property is about the index, not about script validity",
		"addresses = the five forms the index supports (P2PKH, P2SH, P2WPKH, P2WSH, P2TR) for the full predicate (list = projection); every other address value GetAllUnspent accepts (witness versions 0..16 x program lengths 2..40, base58 versions of other networks) is queried too and must only ever be shown outputs paying to its own script (other witness versions have an address but no index by design)",
		"config changes during a running index build are made synchronously from the load's tick callback, in a goroutine of their own (LockCfg; CFG.AllBalances = ...; Reset(); UnlockCfg as the WebUI does); free-running races between goroutines are not explored",
		"no two addresses in play collide under SipHash-2-4(0,0) and no two live transactions share their first 8 txid bytes (hypotheses hinj / Admissible of theorem balances_eq_projection; 64-bit collisions are not generated)",
		"the index's disk cache (wallet/disk.go): encoding modelled (Model.BalancesDisk) and compared with the files SaveBalances writes; folder naming and LAST_SAVED_FNAME logic are exercised on the real code only",
		"the scan order of Unspent.HashMap during LoadBalancesFromUtxo is observed through FetchingBalanceTick and the address of utxo's static record; P2PK scripts (compressed key forms 2..5) are not generated here (C10 covers them)",
		"the node's sync state is an input of every block connection: each submitted block carries a bl.LastKnownHeight chosen by the harness (0, own height, a few / 143..145 / up to UnwindBufLen ahead, below its own height; stretches of blocks more than UnwindBufLen behind one best known header - opSync, scenario sync:); the client's own computation of that field (network.LastCommitedHeader) is not run; Chain.ParseTillBlock more than UnwindBufLen below its target with the index on (a branch > 2560 blocks longer than the fork depth) is not reached; blocks connected without undo data are never disconnected (the real node cannot either)",
		"UTXO change steps fed to the model are derived from snapshots of UnspentDB.HashMap taken at the vhook points after every block connection / disconnection",
	}
	if r.Replay != "" {
		b, e := os.ReadFile(r.Replay)
		var d replayDoc
		if e != nil || json.Unmarshal(b, &d) != nil || d.Replay.Scenario == "" {
			fmt.Fprintln(os.Stderr, "cannot read replay file", r.Replay)
			os.Exit(3)
		}
		runNamed(d.Replay.Scenario, d.Replay.Seed, d.Replay.Step)
		r.Finish("replay of one recorded history", "replay")
		return
	}
	checkSip()
	if os.Getenv("C17_ONLY") != "random" {
		runStaticUnit()
		runCollidingDelete()
	}
	// corpus first
	type cs struct {
		mn  uint64
		um  uint32
		idx int
	}
	corpus := []cs{{1000, 5000, 0}, {1000, 1, 1}, {0, 3, 2}, {100000, 4, 3}, {546, 6, 4}, {1, 0, 0}, {1000, 2, 2}}
	if r.Thorough() {
		for _, mn := range []uint64{0, 1000} {
			for _, um := range []uint32{0, 1, 2, 3, 5, 8, 5000} {
				for idx := 0; idx < 5; idx++ {
					corpus = append(corpus, cs{mn, um, idx})
				}
			}
		}
	}
	if os.Getenv("C17_ONLY") == "random" { // self-test aid: the random stream alone
		corpus = nil
	}
	for i, c := range corpus {
		if nStop >= stopAfter {
			break
		}
		runNamed(fmt.Sprintf("corpus:min=%d,usemap=%d,type=%d", c.mn, c.um, c.idx), uint64(1000+i), -1)
	}
	// MinValue = 0 with zero-value outputs to standard address scripts (list mode, map mode from the first entry, switch-over)
	zero := []cs{{0, 5000, 0}, {0, 1, 4}, {0, 3, 1}}
	if r.Thorough() {
		zero = nil
		for _, um := range []uint32{0, 1, 2, 3, 5, 5000} {
			for idx := 0; idx < 5; idx++ {
				zero = append(zero, cs{0, um, idx})
			}
		}
	}
	if os.Getenv("C17_ONLY") == "random" {
		zero = nil
	}
	for i, c := range zero {
		if nStop >= stopAfter {
			break
		}
		runNamed(fmt.Sprintf("zero:usemap=%d,type=%d", c.um, c.idx), uint64(2000+i), -1)
	}
	// the index built from a populated set of partially spent multi-output transactions, plain and compressed records,
	// with aborted attempts and disk reloads
	type ss struct {
		mn uint64
		um uint32
		c  int
	}
	stat := []ss{{1000, 3, 0}, {0, 5000, 1}, {546, 1, 1}, {1000, 4, 0}}
	if r.Thorough() {
		for _, mn := range []uint64{0, 1000} {
			for _, um := range []uint32{0, 2, 3, 6, 5000} {
				stat = append(stat, ss{mn, um, 0}, ss{mn, um, 1})
			}
		}
	}
	if os.Getenv("C17_ONLY") == "random" {
		stat = nil
	}
	for i, c := range stat {
		if nStop >= stopAfter {
			break
		}
		runNamed(fmt.Sprintf("static:min=%d,usemap=%d,compr=%d", c.mn, c.um, c.c), r.Seed*1000+uint64(3000+i), -1)
	}
	// reorganisations that come back to the same heights (spending and coinbase-only blocks mixed), config changes
	// landing between two records of a running index build
	// restarts through the balances cache in the middle of the history (same / raised / lowered UseMapCnt)
	extra := []string{"revisit:min=1000,usemap=3,compr=0", "revisit:min=0,usemap=5000,compr=1", "cfgrace:min=1000,usemap=4,compr=0", "cfgrace:min=100000,usemap=2,compr=1",
		"restart:min=1000,usemap=3,compr=0", "restart:min=0,usemap=2,compr=1", "restart:min=546,usemap=4,compr=0",
		"sync:min=1000,usemap=3,compr=0", "sync:min=0,usemap=5000,compr=1", "sync:min=546,usemap=2,compr=0",
		"syncwrap:min=1000,usemap=3,compr=0", "syncwrap:min=546,usemap=2,compr=1"}
	if r.Thorough() {
		for _, mn := range []uint64{0, 546, 100000} {
			for _, um := range []uint32{0, 2, 5000} {
				extra = append(extra, fmt.Sprintf("revisit:min=%d,usemap=%d,compr=%d", mn, um, um&1), fmt.Sprintf("cfgrace:min=%d,usemap=%d,compr=%d", mn, um, 1-um&1))
			}
			for _, um := range []uint32{0, 2, 3, 5, 8, 5000} {
				extra = append(extra, fmt.Sprintf("restart:min=%d,usemap=%d,compr=%d", mn, um, um&1))
			}
			for _, um := range []uint32{0, 3, 5000} {
				extra = append(extra, fmt.Sprintf("sync:min=%d,usemap=%d,compr=%d", mn, um, 1-um&1))
			}
		}
	}
	if os.Getenv("C17_ONLY") == "random" {
		extra = nil
	}
	for i, name := range extra {
		if nStop >= stopAfter {
			break
		}
		runNamed(name, r.Seed*1000+uint64(4000+i), -1)
	}
	n := r.N(10, 120)
	for i := 0; i < n && nStop < stopAfter; i++ {
		seed := r.Rng.U64()
		nops := 40 + int(seed%40)
		runNamed(fmt.Sprintf("random:ops=%d", nops), seed, -1)
	}
	pprof.StopCPUProfile()
	r.Extra["oracle_requests"] = o.N
	r.Extra["time_in_oracle_s"] = tOracle.Seconds()
	r.Extra["time_in_chain_close_s"] = tClose.Seconds()
	r.Finish("one evaluation = the real index after one block connection / disconnection / on-off switch of a generated history (corpus: boundaries of the quantifier per address type, minimum and useMapCnt; random: maturity phase + extend/reorg/undo/toggle/restart/fall-behind mix; every block connected in a drawn sync state); distinct = (scenario, seed, step)",
		"For every address in play the real wallet.GetAllUnspent and record total are compared with a direct Go projection of UnspentDB (property predicate), and the Lean model (fed the UTXO change steps) is compared with the real index, with the real GetAllUnspent, and its Spec projection with the Go projection. Theorems in Props/C17.lean state the same equality for all histories of the model.")
}
