// restart.go — the client restarted THROUGH THE BALANCES CACHE in the middle of a history (model event Ev.reload).
//
// wallet.SaveBalances writes a MAP record's entries in Go's map iteration order and wallet.LoadBalances (newAddrBal)
// re-chooses every record's layout from its count alone (`int(le) >= useMapCnt`, UseMapCnt re-read from the config):
// a record that once switched to a map and later shrank, or any map record after UseMapCnt was raised, comes back as a
// LIST in an arbitrary order; a list at or above a lowered UseMapCnt comes back as a map. The index restored that way
// must keep answering with the projection of the unspent set while blocks are connected and disconnected on it.
//
//   - cacheRestart: SaveBalances; the files are compared with the model's encoding (diskBytesTie); then the harness
//     REWRITES every record the model holds in map layout with its entries in an order of its own choosing (seeded:
//     ascending, descending or shuffled — each of them is a file SaveBalances may have written, because Go's map
//     iteration order is unspecified; doing it here makes the history deterministic for the seed, so that a replay file
//     reproduces it); Disable; CFG.AllBalances.UseMapCnt = the restart's value; LoadBalances; the model runs
//     `reload <um> <orders>`; then the usual whole-state comparison, and the damaged-cache stream (first restart of a
//     world and every third one after it).
//   - opRestart (random histories) and scenario family `restart:` (funded pool with several outputs per address around
//     the switch-over, rounds of: spends that shrink the records, restart with the same / a raised / a lowered
//     UseMapCnt, then spends, undos, revisits and new payments on the restored index).
package main

import (
	"encoding/binary"
	"encoding/hex"
	"fmt"
	"os"
	"sort"
	"strings"

	"github.com/piotrnar/gocoin/client/common"
	"github.com/piotrnar/gocoin/client/wallet"
)

// one record of a cache file, split by an own reader of the layout (see parseDiskFile)
type diskRec struct {
	head []byte   // 8 key bytes + VARINT(value) + VARINT(count)
	key  uint64   // the 8 key bytes, little endian (= OneAddrIndex)
	ents [][]byte // 12 bytes each
}

func splitDiskFile(f []byte) (pre []byte, recs []diskRec, ok bool) {
	pos := 0
	rdVarInt := func() (n uint64, ok bool) {
		for pos < len(f) {
			c := f[pos]
			pos++
			n = (n << 7) | uint64(c&0x7f)
			if c&0x80 == 0 {
				return n, true
			}
			n++
		}
		return 0, false
	}
	if len(f) < 1 {
		return
	}
	var cnt uint64
	switch {
	case f[0] < 0xfd:
		cnt, pos = uint64(f[0]), 1
	case f[0] == 0xfd && len(f) >= 3:
		cnt, pos = uint64(f[1])|uint64(f[2])<<8, 3
	case f[0] == 0xfe && len(f) >= 5:
		cnt, pos = uint64(f[1])|uint64(f[2])<<8|uint64(f[3])<<16|uint64(f[4])<<24, 5
	default:
		return
	}
	pre = f[:pos]
	for i := uint64(0); i < cnt; i++ {
		start := pos
		pos += 8
		if pos > len(f) {
			return
		}
		if _, good := rdVarInt(); !good {
			return
		}
		n, good := rdVarInt()
		if !good || pos+int(n)*12 > len(f) {
			return
		}
		rec := diskRec{head: f[start:pos], key: binary.LittleEndian.Uint64(f[start : start+8])}
		for j := 0; j < int(n); j++ {
			rec.ents = append(rec.ents, f[pos:pos+12])
			pos += 12
		}
		recs = append(recs, rec)
	}
	return pre, recs, pos == len(f)
}

func entStr(e []byte) string {
	return fmt.Sprintf("%s:%d", hex.EncodeToString(e[:8]), binary.LittleEndian.Uint32(e[8:]))
}

// reorderCache rewrites the cache files: every record the model holds in MAP layout gets its entries in a seeded order
// (a list record keeps the order Save wrote). Returns the `K idx uidx n e1 .. en` groups for the model's reload event.
func (w *world) reorderCache(dir string, model map[string]*balDump) (ords []string, ok bool) {
	for idx := 0; idx < wallet.IDX_CNT; idx++ {
		fn := dir + wallet.IDX2SYMB[idx]
		f, er := os.ReadFile(fn)
		if er != nil {
			return nil, false
		}
		pre, recs, good := splitDiskFile(f)
		if !good {
			return nil, false // diskBytesTie has reported the layout already
		}
		// the record order of the file is Go's map order too; it cannot matter (one map key per record) - made canonical
		sort.Slice(recs, func(i, j int) bool { return recs[i].key < recs[j].key })
		out := append([]byte{}, pre...)
		for _, rec := range recs {
			k := fmt.Sprintf("%d/%d", idx, rec.key)
			ents := rec.ents
			if m := model[k]; m != nil && m.IsMap && len(ents) > 1 {
				ents = append([][]byte{}, ents...)
				sort.Slice(ents, func(i, j int) bool { return string(ents[i]) < string(ents[j]) })
				switch w.rng.Intn(4) {
				case 0:
					r.Hit("restart:map-record-saved:ascending")
				case 1:
					for i, j := 0, len(ents)-1; i < j; i, j = i+1, j-1 {
						ents[i], ents[j] = ents[j], ents[i]
					}
					r.Hit("restart:map-record-saved:descending")
				default:
					for i := len(ents) - 1; i > 0; i-- {
						j := w.rng.Intn(i + 1)
						ents[i], ents[j] = ents[j], ents[i]
					}
					r.Hit("restart:map-record-saved:shuffled")
				}
				g := []string{"K", fmt.Sprint(idx), fmt.Sprint(rec.key), fmt.Sprint(len(ents))}
				for _, e := range ents {
					g = append(g, entStr(e))
				}
				ords = append(ords, strings.Join(g, " "))
			}
			out = append(out, rec.head...)
			for _, e := range ents {
				out = append(out, e...)
			}
		}
		if er := os.WriteFile(fn, out, 0660); er != nil {
			return nil, false
		}
	}
	return ords, true
}

// cacheRestart: the client exits (SaveBalances) and starts again at the same block with CFG.AllBalances.UseMapCnt = newUM
// (LoadBalances); the history goes on on the restored index.
func (w *world) cacheRestart(newUM uint32, corrupt bool) {
	if w.failed || !w.on {
		return
	}
	before, pan := realIndex()
	if pan != "" {
		return
	}
	_, model, err := parseDump(w.ask("dump"))
	if err != nil {
		return
	}
	common.Last.Mutex.Lock()
	common.Last.Block = w.k.Ch.LastBlock()
	common.Last.Mutex.Unlock()
	common.CFG.AllBalances.SaveBalances = true
	wallet.LAST_SAVED_FNAME = ""
	root := common.GocoinHomeDir + wallet.BALANCES_SUBDIR
	var er error
	var ords []string
	func() {
		defer func() {
			if x := recover(); x != nil {
				er = fmt.Errorf("panic: %v", x)
			}
		}()
		if er = wallet.SaveBalances(); er != nil {
			return
		}
		w.diskBytesTie()
		if w.failed {
			return
		}
		ents, _ := os.ReadDir(root)
		if len(ents) == 1 {
			var ok bool
			if ords, ok = w.reorderCache(root+string(os.PathSeparator)+ents[0].Name()+string(os.PathSeparator), model); !ok {
				er = fmt.Errorf("the cache files could not be rewritten")
				return
			}
		}
		wallet.Disable()
		common.CFG.AllBalances.UseMapCnt = newUM
		er = wallet.LoadBalances()
	}()
	if w.failed {
		return
	}
	if er != nil {
		w.propFail("disk-reload", "SaveBalances/LoadBalances failed on a live index: "+er.Error(), nil)
		return
	}
	oldUM := w.useMap
	w.useMap = newUM
	if rep := w.ask(strings.TrimSpace(fmt.Sprintf("reload %d %s", newUM, strings.Join(ords, " ")))); rep != "ok" {
		w.tieFail("oracle-rejects", "oracle refused the reload event: "+rep, nil)
		return
	}
	after, pan := realIndex()
	if pan != "" {
		w.propFail("browse-panic", "wallet.Browse panicked after LoadBalances: "+pan, nil)
		return
	}
	w.logf("restart through the balances cache (%d records, %d map records re-ordered), UseMapCnt %d -> %d", len(before), len(ords), oldUM, newUM)
	r.Hit("disk:save-reload")
	switch {
	case newUM > oldUM:
		r.Hit("restart:usemapcnt-raised")
	case newUM < oldUM:
		r.Hit("restart:usemapcnt-lowered")
	default:
		r.Hit("restart:usemapcnt-same")
	}
	// the classes of the layout change (model's view of the layout before, count against the new threshold)
	for _, m := range model {
		n := uint32(len(m.Ents))
		switch {
		case m.IsMap && n < newUM && n > 1:
			r.Hit("restart:map-record-comes-back-as-list(>1 entries)")
		case m.IsMap && n < newUM:
			r.Hit("restart:map-record-comes-back-as-list(1 entry)")
		case !m.IsMap && n >= newUM:
			r.Hit("restart:list-record-comes-back-as-map")
		}
	}
	if d := sameDump(before, after); d != "" {
		w.propFail("disk-roundtrip", "the index restored by LoadBalances differs from the one SaveBalances wrote: "+d, nil)
		return
	}
	w.step++
	w.checkAll("disk-reload") // restored index = projection = model after `reload`; callbacks installed, WalletON
	if !w.failed && corrupt {
		w.diskCorrupt(before)
	}
	os.RemoveAll(root)
}

// opRestart: a restart through the cache at an arbitrary point of a random history
func (w *world) opRestart() {
	if !w.on {
		return
	}
	um := w.useMap
	switch w.rng.Intn(4) {
	case 0:
		um = mapChoices[w.rng.Intn(len(mapChoices))]
	case 1:
		um = w.useMap + 1 + uint32(w.rng.Intn(6)) // raised: map records below the new value come back as lists
	}
	w.cacheRestart(um, !w.corruptDone || w.rng.Chance(1, 3))
}

// spendPool: one block of up to n transactions spending outputs of pool addresses (removals on the restored records)
func (w *world) spendPool(n int) {
	if txs := w.poolSpends(w.k.Ch.LastBlock(), n); len(txs) > 0 && !w.failed {
		w.extend(w.k.Ch.LastBlock(), txs, nil)
	}
}

// runRestart: funded pool (several outputs per address, counts around the switch-over), index on; rounds of
// shrink - restart - go on.
func runRestart(name string, seed uint64, mn uint64, um uint32, compr bool, stopAt int) *world {
	w := newWorldOpt(name, seed, mn, um, compr)
	w.stopAt = stopAt
	defer w.close()
	w.scriptedSetup()
	if w.rng.Bool() {
		w.enable(mn, um, false) // the records grow incrementally through the switch-over ...
	}
	w.fundPool(mn, 5+w.rng.Intn(3))
	if !w.on {
		w.enable(mn, um, false) // ... or are built from the populated set
	}
	for round := 0; round < 6 && !w.failed; round++ {
		// records shrink (a map stays a map whatever its count)
		if w.rng.Chance(2, 3) {
			w.spendPool(1 + w.rng.Intn(2))
		}
		nu := w.useMap
		switch w.rng.Intn(4) {
		case 0:
			nu = w.useMap + 1 + uint32(w.rng.Intn(8))
		case 1:
			nu = mapChoices[w.rng.Intn(len(mapChoices))]
		}
		w.cacheRestart(nu, round == 0)
		// the history goes on on the restored index
		for k := 0; k < 2 && !w.failed; k++ {
			switch w.rng.Intn(5) {
			case 0, 1:
				w.spendPool(1 + w.rng.Intn(3))
			case 2:
				w.opUndo()
			case 3:
				w.opRevisit(1+w.rng.Intn(2), true)
			default:
				w.fundPool(mn, 1)
			}
		}
		if w.rng.Chance(1, 5) && !w.failed {
			// switched off and built again from the set: every list is NewUTXO's own again
			w.setOn(false, 0, 0)
			w.enable(mn, um, false)
		}
	}
	if !w.failed {
		w.oddFull()
	}
	return w
}
