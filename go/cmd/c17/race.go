// race.go — history shapes added in the third pass of the C17 check:
//   - opRevisit / runRevisit: reorganisations that come back to the SAME heights several times, with spending blocks
//     and coinbase-only blocks mixed (block A at height H spends indexed outputs, is undone, a coinbase-only block B
//     takes height H — maybe with more on top — and the chain is unwound below H again, ...). Whatever lib/utxo keeps
//     per height (undo data) is revisited; the index must equal the projection of the real unspent set after every
//     single connection and disconnection.
//   - runCfgRace: every build of the index gets a config change (MinValue / UseMapCnt + common.Reset()) between two
//     records of the scan, with outputs around the old and the new threshold on both sides of that point.
package main

import (
	"fmt"

	"github.com/piotrnar/gocoin/lib/btc"
	"github.com/piotrnar/gocoin/lib/chain"
	"verif/chainkit"
)

// poolSpends builds up to n transactions on top of parent's view that spend outputs paying to pool addresses
// (indexed outputs) when there are any, anything spendable otherwise.
func (w *world) poolSpends(parent *chain.BlockTreeNode, n int) []*btc.Tx {
	height := parent.Height + 1
	v := w.views[parent.BlockHash.Hash].clone()
	var txs []*btc.Tx
	for i := 0; i < n; i++ {
		sp := spendable(v, height)
		var own []*vcoin
		for _, c := range sp {
			if w.byScript(c.Script) != nil {
				own = append(own, c)
			}
		}
		if len(own) == 0 {
			own = sp
		}
		if len(own) == 0 {
			break
		}
		nin := 1 + w.rng.Intn(3)
		var ins []*vcoin
		var sum uint64
		for j := 0; j < nin && len(own) > 0; j++ {
			x := w.rng.Intn(len(own))
			ins = append(ins, own[x])
			sum += own[x].Value
			own = append(own[:x], own[x+1:]...)
		}
		tx := mkTx(txSpec{Ins: ins, Outs: w.randOuts(sum, 4)})
		if applyTx(v, tx, height, false) {
			txs = append(txs, tx)
		}
	}
	return txs
}

func (w *world) undoTip() {
	func() {
		defer func() {
			if x := recover(); x != nil {
				w.tieFail("undo-panic", "Chain.UndoLastBlock panicked: "+fmt.Sprint(x), nil)
			}
		}()
		w.k.Ch.UndoLastBlock()
	}()
}

// opRevisit: `rounds` times: 1..3 blocks on top of the current tip (each a spending block or a coinbase-only one),
// then unwound block by block back to where it started (the last round may stay).
func (w *world) opRevisit(rounds int, scripted bool) {
	if w.failed {
		return
	}
	base := w.k.Ch.LastBlock()
	cb := w.cbSplit
	if scripted {
		cb = nil // scripted scenarios: coinbases to OP_TRUE (funds)
	}
	for round := 0; round < rounds && !w.failed; round++ {
		depth := 1 + w.rng.Intn(3)
		shape := ""
		for d := 0; d < depth && !w.failed; d++ {
			cur := w.k.Ch.LastBlock()
			var txs []*btc.Tx
			if w.rng.Chance(1, 2) {
				txs = w.poolSpends(cur, 1+w.rng.Intn(2))
			}
			if len(txs) > 0 {
				shape += "S"
			} else {
				shape += "E"
			}
			if !w.extend(cur, txs, cb) {
				return
			}
		}
		w.logf("revisit round %d on h=%d: %s", round, base.Height, shape)
		r.Hit("revisit:shape=" + shape + ":" + onoff(w.on))
		w.checkView()
		if round == rounds-1 && w.rng.Chance(1, 2) {
			break
		}
		if w.rng.Chance(1, 6) {
			w.opToggle() // the index is switched while the branch is connected
		}
		for w.k.Ch.LastBlock() != base && !w.failed {
			w.undoTip()
		}
		w.checkView()
	}
}

func (w *world) fundPool(mn uint64, ntx int) {
	for t := 0; t < ntx && !w.failed; t++ {
		n := 2 + w.rng.Intn(5)
		var outs []chainkit.OutSpec
		for j := 0; j < n; j++ {
			var v uint64
			switch w.rng.Intn(5) {
			case 0:
				v = mn / 2
			case 1:
				v = mn + uint64(w.rng.Intn(int(mn)+1000))
			case 2:
				v = mn*2 + uint64(w.rng.Intn(5000))
			case 3:
				v = uint64(w.rng.Intn(int(mn)*3 + 3000))
			default:
				v = w.pickValue(1 << 30)
			}
			outs = append(outs, chainkit.OutSpec{Value: v, Script: w.pool[w.rng.Intn(len(w.pool))].Script})
		}
		w.pay(outs...)
	}
}

func (w *world) scriptedSetup() {
	for idx := 0; idx < 5; idx++ {
		w.addAddr(idx, w.rng.Bytes(map[bool]int{true: 32, false: 20}[idx >= 3]))
	}
	w.addAddr(2, w.rng.Bytes(20))
	w.addAddr(3, w.rng.Bytes(32))
	w.quiet = true
	for i := 0; i < 106 && !w.failed; i++ {
		w.extend(w.k.Ch.LastBlock(), nil, nil)
	}
	w.quiet = false
}

// runRevisit: funded pool, index on; then rounds of revisits with payments, spends and on/off switches in between.
func runRevisit(name string, seed uint64, mn uint64, um uint32, compr bool, stopAt int) *world {
	w := newWorldOpt(name, seed, mn, um, compr)
	w.stopAt = stopAt
	defer w.close()
	w.scriptedSetup()
	w.enable(mn, um, false)
	w.fundPool(mn, 4)
	for round := 0; round < 5 && !w.failed; round++ {
		w.opRevisit(2+w.rng.Intn(3), true)
		switch w.rng.Intn(4) {
		case 0:
			w.fundPool(mn, 1)
		case 1:
			if txs := w.poolSpends(w.k.Ch.LastBlock(), 1); len(txs) > 0 {
				w.extend(w.k.Ch.LastBlock(), txs, nil)
			}
		case 2:
			if w.on {
				w.setOn(false, 0, 0)
			}
			w.enable(mn, um, w.rng.Bool())
		}
	}
	if !w.on && !w.failed {
		w.enable(mn, um, false)
	}
	w.oddFull()
	return w
}

// runCfgRace: every build of the index gets a config change between two of its records.
func runCfgRace(name string, seed uint64, mn uint64, um uint32, compr bool, stopAt int) *world {
	w := newWorldOpt(name, seed, mn, um, compr)
	w.stopAt = stopAt
	defer w.close()
	w.scriptedSetup()
	w.forceRace = true
	w.fundPool(mn, 6)
	for round := 0; round < 6 && !w.failed; round++ {
		if w.on {
			w.setOn(false, 0, 0)
		}
		w.enable(mn, um, w.rng.Chance(1, 3))
		// spends and new outputs while the index built that way is on
		if txs := w.poolSpends(w.k.Ch.LastBlock(), 1+w.rng.Intn(2)); len(txs) > 0 && !w.failed {
			w.extend(w.k.Ch.LastBlock(), txs, nil)
		}
		w.fundPool(mn, 1)
		if w.rng.Chance(1, 3) {
			w.opUndo()
		}
	}
	return w
}
