package main

// del.go — unit case for UnspentDB.del's txid comparison (fix 9e63ae4d, audit C17 §2): the map key is the first 8 txid
// bytes, the model's `.del` / `.undoDel` events carry the full 32-byte txid and touch the stored record only when it
// carries exactly that txid. A delete that names ANOTHER transaction with the same 8-byte prefix must be a no-op in the
// real UnspentDB (record kept, wallet callback not invoked) and in the model.

import (
	"bytes"
	"encoding/hex"
	"fmt"
	"os"
	"strings"

	"github.com/piotrnar/gocoin/lib/btc"
	"github.com/piotrnar/gocoin/lib/utxo"
	"verif/vlib"
)

func runCollidingDelete() {
	dir, err := os.MkdirTemp("", "vc17del")
	if err != nil {
		return
	}
	defer os.RemoveAll(dir)
	notified := 0
	db := utxo.NewUnspentDb(&utxo.NewUnspentOpts{Dir: dir + string(os.PathSeparator)})
	defer db.Close()
	db.CB.NotifyTxDel = func(*utxo.UtxoRec, []bool) { notified++ }
	var a, b [32]byte
	for i := range a {
		a[i] = byte(0x30 + i)
		b[i] = a[i]
	}
	for i := 8; i < 32; i++ {
		b[i] ^= 0x5a // same UtxoKeyType, another transaction
	}
	scr := mkScript(2, bytes.Repeat([]byte{7}, 20))
	rec := &utxo.UtxoRec{TxID: a, InBlock: 1, Outs: []*utxo.UtxoTxOut{{Value: 5000, PKScr: scr}, {Value: 7, PKScr: []byte{0x51}}}}
	h1, h2, h3 := bytes.Repeat([]byte{1}, 32), bytes.Repeat([]byte{2}, 32), bytes.Repeat([]byte{3}, 32)
	db.CommitBlockTxs(&utxo.BlockChanges{Height: 1, AddList: []*utxo.UtxoRec{rec}}, h1)
	db.CommitBlockTxs(&utxo.BlockChanges{Height: 2, DeledTxs: map[[32]byte][]bool{b: {true, true}}}, h2)
	still0 := db.UnspentGet(&btc.TxPrevOut{Hash: a, Vout: 0}) != nil
	still1 := db.UnspentGet(&btc.TxPrevOut{Hash: a, Vout: 1}) != nil
	realAfterForeign := fmt.Sprint(still0, still1, notified)
	db.CommitBlockTxs(&utxo.BlockChanges{Height: 3, DeledTxs: map[[32]byte][]bool{a: {true, false}}}, h3)
	own0 := db.UnspentGet(&btc.TxPrevOut{Hash: a, Vout: 0}) != nil
	own1 := db.UnspentGet(&btc.TxPrevOut{Hash: a, Vout: 1}) != nil
	realAfterOwn := fmt.Sprint(own0, own1, notified)

	// the model on the same three steps (index on, so that a wrong delete would also show in the index)
	ask := func(l string) string { return o.MustAsk(l) }
	ask("reset")
	ask("enable 0 3")
	line := fmt.Sprintf("add %s 1 0 2 0 5000 %s 1 7 51", hex.EncodeToString(a[:]), vlib.Hex(scr))
	if rep := ask(line); rep != "ok" {
		r.TieFail("colliding-delete", "oracle refuses the unit case: "+rep, map[string]string{"line": line})
		return
	}
	u0 := ask("utxo")
	d0 := ask("dump")
	ask(fmt.Sprintf("del %s 11", hex.EncodeToString(b[:])))
	u1 := ask("utxo")
	d1 := ask("dump")
	ask(fmt.Sprintf("del %s 10", hex.EncodeToString(a[:])))
	u2 := ask("utxo")
	ask("disable")
	ask("reset")
	r.Eval("unit:colliding-delete", "colliding-delete")
	rep := map[string]string{"txid": hex.EncodeToString(a[:]), "foreign": hex.EncodeToString(b[:]), "real_after_foreign_delete": realAfterForeign, "real_after_own_delete": realAfterOwn,
		"model_utxo": u0 + " | " + u1 + " | " + u2}
	switch {
	case realAfterForeign != "true true 0":
		r.PropFail("foreign-delete-touches-record", "UnspentDB.del with a txid that shares only its first 8 bytes with a stored record removed outputs of that record / notified the wallet (outputs 0,1 present, callbacks): "+realAfterForeign, rep)
	case realAfterOwn != "false true 1":
		r.TieFail("colliding-delete", "UnspentDB.del with the record's own txid and mask 10 did not remove exactly output 0 with one callback: "+realAfterOwn, rep)
	case u1 != u0 || d1 != d0:
		r.TieFail("colliding-delete", "the model's del with a foreign txid of the same key prefix changed the model state; the real UnspentDB leaves the record alone", rep)
	case u2 == u1 || !strings.Contains(u1, hex.EncodeToString(a[:8])):
		r.TieFail("colliding-delete", "the model's del with the record's own txid did not change the model's UTXO set", rep)
	default:
		r.TieOK()
		r.Hit("unit:colliding-delete:foreign-txid-is-a-no-op")
	}
}
