package main

// torn.go — prefix truncations of blockchain.new / the data file in directories where something is APPENDED afterwards.
//
// The truncations of harness.go (truncStart) cut the directory of the clean shutdown at the end of a workload: UTXO.db names the
// final tip there, so every cut below the tip's record ends in "Last Block Hash not found" (known finding
// index-truncated-below-snapshot) and nothing is ever written behind a torn record. Here the cuts are made in directories whose
// snapshot lies BELOW the cut: crash captures taken right after an index write while UTXO.db still names an older block (no
// snapshot since: `skip` histories, reorganisations before the next save), and the cleanly closed directory with UTXO.db replaced
// by UTXO.old. The index is cut at a record boundary and INSIDE a record (1, 55, 135 bytes into it), optionally together with the
// data file (one byte into the block of the first removed record: an orphaned partial block), or the data file alone. Then
//
//	second process  re-opens the cut directory like the client (LoadBlockIndex must drop the torn record and append at the end of
//	                the last complete one), recovers, is fed every block of the workload (the blocks whose records were cut are
//	                stored again: >= 1 append, >= 2 in the cases cut one record lower), flushes, is shut down cleanly, and re-opens
//	                the directory once more in the same process
//	third process   a fresh process on the directory the second one closed: must come up in exactly the final state
//
// both judged by the property predicate (judge2), plus the load-positions tie on the torn file: the append position the real
// LoadBlockIndex computed AND the file offset of the handle writeOne appends through (lib/chain/verif_export_c07.go
// VerifIndexHandlePos) == 136 * complete records == the index model's load (oracle op idx).

import (
	"bytes"
	"encoding/binary"
	"encoding/hex"
	"fmt"
	"os"
	"strings"

	"github.com/piotrnar/gocoin/lib/btc"
)

type tornJob struct {
	hit     Hit
	src     string // directory the copy is taken from
	label   string
	old     bool  // the source is the cleanly closed directory with UTXO.db replaced by UTXO.old
	n       int64 // blockchain.new is cut to n bytes (-1 = left alone)
	datN    int64 // the data file is cut to datN bytes (-1 = left alone)
	datName string
	keep    []idxRecord // the complete records left in blockchain.new
	removed int         // records removed or torn
	dir     string
	res     *ChildRes
	res3    *ChildRes
	srcIdx  []byte // blockchain.new of the source as tornSource read it
	srcSnap string // block hash in the source's snapshot header as tornSource read it
}

func (j *tornJob) tag() string {
	s := fmt.Sprintf("torn:%d:%d:%d", j.hit.N, j.n, j.datN)
	if j.old {
		s += ":old"
	}
	return s
}

type tornSrc struct {
	window   bool // an undo file under the snapshot's block names another block: the directory lies in the window of the known finding undo-file-keyed-by-height
	dir      string
	hit      Hit
	idx      []byte
	snap     int // record number of the snapshot's block
	old      bool
	label    string
	snapHash string // block hash in the snapshot header
}

func recHash(idx []byte, rec int) string {
	return hex.EncodeToString(btc.NewSha2Hash(idx[rec*136+56 : rec*136+136]).Hash[:])
}

// tornSource: the directory qualifies when blockchain.new holds complete records only and at least one record lies above the
// record of the block its snapshot names
func (h *Harness) tornSource(dir string, ht Hit, old bool, label string) *tornSrc {
	idx, err := os.ReadFile(dir + "blockchain.new")
	if err != nil || len(idx)%136 != 0 {
		return nil
	}
	snapFn := "UTXO.db"
	if old {
		snapFn = "UTXO.old"
	}
	sh, _, _, ok := readSnapHeader(dir + snapFn)
	if !ok {
		return nil
	}
	s := &tornSrc{dir: dir, hit: ht, idx: idx, snap: -1, old: old, label: label, snapHash: sh}
	for rec := 0; rec < len(idx)/136; rec++ {
		if idx[rec*136]&0x02 == 0 && recHash(idx, rec) == sh {
			s.snap = rec
		}
	}
	if s.snap < baseLen-1 || s.snap >= len(idx)/136-1 {
		return nil
	}
	s.window = h.undoWindow(dir, sh)
	return s
}

func (h *Harness) tornStart(p *pending) {
	r := h.r
	w, wr := p.w, p.wr
	var srcs []*tornSrc
	for _, ht := range wr.Hits {
		if ht.NoCopy || ht.Name != "blockdb.write:idx-written" {
			continue
		}
		if s := h.tornSource(fmt.Sprintf("%s/%04d/", wr.Snaps, ht.N), ht, false, fmt.Sprintf("directory captured at %s#%d (point %d)", ht.Name, ht.Idx, ht.N)); s != nil {
			srcs = append(srcs, s)
		}
	}
	if !r.Thorough() && len(srcs) > 0 {
		// quick: the capture with the most records above its snapshot (the last one of them)
		best := srcs[0]
		for _, s := range srcs {
			if (best.window && !s.window) || (best.window == s.window && len(s.idx)/136-s.snap >= len(best.idx)/136-best.snap) {
				best = s
			}
		}
		srcs = []*tornSrc{best}
	}
	if a, _, _, ok1 := readSnapHeader(wr.Dir + "UTXO.db"); ok1 {
		if b, _, _, ok2 := readSnapHeader(wr.Dir + "UTXO.old"); ok2 && a != b {
			ht := Hit{N: 0, Name: "clean-close", Idx: 1, NSub: len(wr.Names), OpIdx: len(w.Ops) - 1}
			if s := h.tornSource(wr.Dir, ht, true, "cleanly closed directory with UTXO.db replaced by UTXO.old"); s != nil {
				srcs = append(srcs, s)
			}
		}
	}
	var jobs []*tornJob
	for si, s := range srcs {
		nrec := len(s.idx) / 136
		datName := "blockchain.dat"
		if _, e := os.Stat(s.dir + datName); e != nil {
			datName = "bl00000000.dat"
		}
		add := func(rec, off int, datN int64) {
			j := &tornJob{hit: s.hit, src: s.dir, label: s.label, old: s.old, n: int64(rec*136 + off), datN: datN, datName: datName, removed: nrec - rec, srcIdx: s.idx, srcSnap: s.snapHash}
			if rec >= nrec {
				j.n = -1
			}
			keepTo := rec
			if keepTo > nrec {
				keepTo = nrec
			}
			for i := 0; i < keepTo; i++ {
				b := s.idx[i*136 : i*136+136]
				j.keep = append(j.keep, idxRecord{flags: b[0], file: binary.LittleEndian.Uint32(b[28:32]), key: hex.EncodeToString(b[56:136])})
			}
			jobs = append(jobs, j)
		}
		lowest := s.snap + 1
		if !r.Thorough() && lowest < nrec-3 {
			lowest = nrec - 3
		}
		for rec := nrec - 1; rec >= lowest; rec-- {
			offs := []int{1, 135}
			switch {
			case r.Thorough() || rec == nrec-1:
				offs = []int{0, 1, 55, 135}
			case rec == nrec-3:
				offs = []int{55}
			}
			if si > 0 && !r.Thorough() {
				offs = []int{55} // quick: the UTXO.old source gets one cut per record
			}
			for _, off := range offs {
				add(rec, off, -1)
			}
		}
		if w.MaxDat == 0 {
			rec := nrec - 1
			b := s.idx[rec*136 : rec*136+136]
			fpos := int64(binary.LittleEndian.Uint64(b[40:48]))
			blen := int64(binary.LittleEndian.Uint32(b[48:52]))
			if b[0]&0x02 == 0 && blen > 2 {
				add(rec, 0, fpos+1)  // the record is gone, a partial block is left behind the indexed data
				add(rec, 55, fpos+1) // … and the record is torn as well
				if si == 0 {
					add(nrec, 0, fpos+blen-1) // the index is intact, the last block lost its last byte
				}
			}
		}
	}
	p.torn = jobs
	for i, j := range jobs {
		p.wg.Add(1)
		j.dir = fmt.Sprintf("%s/%s/torn%04d/", h.root, w.Name, i)
		// the copy is taken now: the children of the capture change it
		if copyTree(j.src, j.dir) != nil {
			p.wg.Done()
			continue
		}
		if j.old {
			os.Remove(j.dir + "UTXO.db")
			os.Rename(j.dir+"UTXO.old", j.dir+"UTXO.db")
			os.Remove(j.dir + ".lock")
		}
		// the children of the capture (started earlier) re-open and change the source directory: a copy taken after one of
		// them saved a newer snapshot or appended records is not the directory tornSource looked at (its snapshot may then lie
		// ABOVE the cut, which is the known finding index-truncated-below-snapshot and not what this family is about) - skip it
		if ci, e := os.ReadFile(j.dir + "blockchain.new"); e != nil || !bytes.Equal(ci, j.srcIdx) {
			h.r.Hit("torn:source-changed-before-copy")
			os.RemoveAll(j.dir)
			p.wg.Done()
			continue
		} else if sh, _, _, ok := readSnapHeader(j.dir + "UTXO.db"); !ok || sh != j.srcSnap {
			h.r.Hit("torn:source-changed-before-copy")
			os.RemoveAll(j.dir)
			p.wg.Done()
			continue
		}
		if j.n >= 0 {
			os.Truncate(j.dir+"blockchain.new", j.n)
		}
		if j.datN >= 0 {
			os.Truncate(j.dir+j.datName, j.datN)
		}
		go func(j *tornJob) {
			defer p.wg.Done()
			j.res = runChildT(p.env, "client", j.dir, p.blocksFile, 40*truncWatchdog/20)
			if j.res.Open == "ok" && j.res.S4 != nil {
				os.Rename(strings.TrimRight(j.dir, "/")+".client.json", strings.TrimRight(j.dir, "/")+".second.json")
				j.res3 = runChildT(p.env, "client", j.dir, p.blocksFile, 40*truncWatchdog/20)
			}
			os.RemoveAll(j.dir)
		}(j)
	}
}

func (h *Harness) tornJudge(p *pending) {
	r := h.r
	w, wr := p.w, p.wr
	for _, j := range p.torn {
		if j.res == nil {
			continue
		}
		h.nChild++
		kind := "torn/index"
		switch {
		case j.n < 0:
			kind = "torn/data"
		case j.datN >= 0:
			kind = "torn/index+data"
		}
		if j.n >= 0 && j.n%136 != 0 {
			kind += "/mid-record"
		}
		r.Eval(kind+"/"+w.Shape, fmt.Sprintf("%s|%s", w.Name, j.tag()))
		cs := Case{Workload: w.Name, Mode: "client", Trunc: j.tag()}
		what := fmt.Sprintf("%s; blockchain.new cut to %d bytes (%d complete records, %d removed or torn), %s cut to %d bytes (-1 = not cut)", j.label, j.n, len(j.keep), j.removed, j.datName, j.datN)
		c := j.res
		// (1) the torn file as the real LoadBlockIndex saw it
		if c.Open == "ok" && c.IdxRecs != nil {
			h.loadTieRecs(w, cs, what, j.keep, c)
		}
		// (2) second process: restart on the cut directory, recover, append, flush, clean shutdown, re-open
		h.curMV, h.curLib = nil, ""
		cs2 := cs
		h.caseOverride, h.whereOverride = &cs2, fmt.Sprintf("workload %s, %s: restart of the cut directory", w.Name, what)
		ht := j.hit
		ht.Name += "/torn"
		ok := false
		if j.n < 0 && j.datN >= 0 && (strings.Contains(c.Recovery, "No data for block") || c.Readable != "" || strings.Contains(strings.Join(c.Feed, " "), "EOF") || strings.Contains(c.Recovery, "corrupt database") || strings.Contains(c.Recovery, "EOF")) {
			// the index is intact and names a block whose data is cut: the same situation as the data truncations of the closed directory
			r.PropFail(keyTruncDat, "index records point past the end of the data file; not detected at open, the block is unreadable later: workload "+w.Name+", "+what+": recovery "+c.Recovery+"; "+c.Readable, map[string]interface{}{"case": cs, "child": c})
			r.Hit("known:" + keyTruncDat)
		} else {
			ok = h.judge2(w, wr, ht, "client", c, "")
		}
		h.caseOverride, h.whereOverride = nil, ""
		if !ok {
			r.Hit("torn:second-process-fails")
			if os.Getenv("C07_DEBUG") != "" {
				fmt.Fprintf(diag, "C07_DEBUG torn %s %s: open %q recovery %q s1 %v s2 %v s3 %v readable %q reopen2 %q foreign %v feed %v\n", w.Name, j.tag(), c.Open, c.Recovery, hOf(c.S1), hOf(c.S2), hOf(c.S3), c.Readable, c.Reopen2, c.UndoForeign, c.Feed)
			}
			continue
		}
		r.Hit("torn:second-process-ok")
		if j.removed >= 2 {
			r.Hit("torn:at-least-two-records-appended-behind-the-cut")
		}
		// (3) third process on the cleanly closed directory
		c3 := j.res3
		if c3 == nil {
			continue
		}
		h.nChild++
		r.Eval(kind+"/third-process/"+w.Shape, fmt.Sprintf("%s|%s|3", w.Name, j.tag()))
		rep := map[string]interface{}{"case": cs, "child": c3, "second_process": c, "expected_final": wr.Final}
		where := fmt.Sprintf("workload %s, %s; a fresh process recovered, stored the missing blocks again and was shut down cleanly; a further fresh process", w.Name, what)
		switch {
		case c3.Open != "ok":
			r.PropFail("clean-restart-fails:torn-index", where+" fails to re-open the directory: "+c3.Open, rep)
			continue
		case c3.S1 == nil || c3.S1.Tip != wr.Final.Tip || c3.S1.Dump != wr.Final.Dump:
			r.PropFail("clean-restart-differs:torn-index", fmt.Sprintf("%s comes up at %s, the state before the shutdown was %s", where, stateStr(c3.S1), stateStr(c.S3)), rep)
			continue
		}
		ht3 := Hit{N: 0, Name: j.hit.Name + "/torn/clean-close", Idx: 1, NSub: len(wr.Names), OpIdx: j.hit.OpIdx}
		h.caseOverride, h.whereOverride = &cs2, where
		if h.judge2(w, wr, ht3, "client", c3, "") {
			r.Hit("torn:third-process-ok")
		}
		h.caseOverride, h.whereOverride = nil, ""
	}
}
