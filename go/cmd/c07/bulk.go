package main

// bulk.go — workloads that reach the two code paths which only a LONG run of blocks without an Idle in between reaches
// (audit C07 §2; both judged by the property predicate on the real code, NOT compared with the Lean model, whose BlockAdd
// never writes and whose recovery loop always keeps undo data):
//
//   threshold-flush   BlockDB.BlockAdd flushes synchronously (writeAll) once MAX_BLOCKS_TO_WRITE = 1024 blocks are queued
//                     (blockdb.go:207) — the normal path while a node syncs. The flush runs INSIDE Chain.CommitBlock, between
//                     chain.commit:before-blockadd and :after-blockadd, i.e. the index record of the block being committed is
//                     on disk before its undo file exists and before the unspent set has changed. History: one block, Idle
//                     with a complete snapshot, then 1024+ coinbase-only blocks with no Idle, a few more, Idle, Close.
//   deep-recovery     (thorough) 2600 blocks flushed ahead of the snapshot: the client's recovery loop sets
//                     bl.LastKnownHeight = end.Height, so CommitBlock creates no undo data for the blocks more than
//                     UnwindBufLen = 2560 below the target, and CommitBlockTxs removes undo/<h-2560>.
//
// Capturing the directory at every one of the ≈ 13 000 (deep-recovery: ≈ 40 000) vhook hits of such a history would cost minutes
// (it did: the final Idle of deep-recovery alone was ≈ 2 200 captures of a directory with 2 700 undo files, each re-opened twice
// by processes that replay 2 600 blocks - 28 minutes), so the hits are SAMPLED (hits that are not captured carry NoCopy): see
// bulkSelector. In library mode only every fourth capture of a deep-recovery run is re-opened.

import (
	"fmt"
	"strings"
)

const maxBlocksToWrite = 1024 // chain.MAX_BLOCKS_TO_WRITE (untyped constant of package chain; checked in bulkCounters)

func bulkWorkload(name string, n, tail, stride int) Workload {
	w := Workload{Name: name, Wide: "bulk", Shape: "bulk-" + name, BulkN: n, BulkStride: stride}
	w.Ops = append(w.Ops, skip(0), blk("A1", "", 2, "f1"), idle, wait, skip(1000000))
	for i := 1; i <= n+tail; i++ {
		b := blk(fmt.Sprintf("Q%d", i), "", 0)
		if i == n+1 {
			b = blk(fmt.Sprintf("Q%d", i), "", 1, "A1.0", "f2")
		}
		w.Ops = append(w.Ops, b)
	}
	w.Ops = append(w.Ops, idle, closeOp)
	return w
}

func bulkWorkloads(thorough bool) (ws []Workload) {
	stride, every := 2047, 8
	if thorough {
		stride, every = 97, 1
	}
	w := bulkWorkload("threshold-flush", maxBlocksToWrite, 3, stride)
	w.BulkEvery = every
	ws = append(ws, w)
	if thorough {
		ws = append(ws, bulkWorkload("deep-recovery", 2600, 2, 397))
	}
	return
}

// bulkSelector decides (with s.mu held) whether the directory is captured at the current hit.
//
// threshold-flush: nothing before the block that triggers the flush; inside the flush the first hits, every stride-th hit and
// everything from the last block of the flush on; the next block completely; afterwards every BulkEvery-th hit.
// deep-recovery (BulkN > MAX_BLOCKS_TO_WRITE; every captured directory holds thousands of undo files and every fresh process
// replays thousands of blocks, so the captures are FEW): the same inside the first flush; every stride-th hit while the rest is
// queued and flushed (the second threshold flush, the final Idle); but EVERY hit while the last deepTail blocks are written
// (only there more than UnwindBufLen = 2560 blocks are on disk above the snapshot, i.e. the recovery loop runs without undo
// data and removes undo files) and every hit that is not a block-store write during the final Idle / Close (snapshot points).
const deepTail = 10

func bulkSelector(s *Sched, w Workload) func(name string) bool {
	first := -1 // index of the op that queues the BulkN-th block (or the first block after the flush threshold)
	trigger := w.BulkN
	if trigger > maxBlocksToWrite {
		trigger = maxBlocksToWrite
	}
	seen, total := 0, 0
	for i, op := range w.Ops {
		if op.K == "blk" {
			total++
		}
		if op.K == "blk" && len(op.Name) > 1 && op.Name[0] == 'Q' {
			seen++
			if seen == trigger {
				first = i
			}
		}
	}
	deep := w.BulkN > maxBlocksToWrite
	inOp, written, after := 0, 0, 0
	return func(name string) bool {
		if s.opIdx < first {
			return false
		}
		if s.opIdx > first {
			if deep {
				inOp++
				if s.cnt["blockdb.write:before-dat"] > total-deepTail {
					return true // the last blocks go to disk (cnt is incremented before this is called: the block being written counts)
				}
				if s.opIdx >= len(w.Ops)-2 && !strings.HasPrefix(name, "blockdb.write:") {
					return true // final Idle / Close: the snapshot's points
				}
				return inOp%w.BulkStride == 0
			}
			// after the flush: the next block completely, then (quick) every eighth hit
			after++
			return s.opIdx == first+1 || w.BulkEvery <= 1 || after%w.BulkEvery == 0
		}
		inOp++
		if name == "blockdb.write:before-dat" {
			written++
		}
		return inOp <= 3 || inOp%w.BulkStride == 0 || written > trigger-1
	}
}

// bulkCounters: did the history take the synchronous flush inside CommitBlock? (histogram; a tie failure if not, because
// then the workload no longer exercises what it was built for — e.g. MAX_BLOCKS_TO_WRITE changed)
func (h *Harness) bulkCounters(w Workload, wr *WlRun) {
	r := h.r
	inside, open := 0, false
	for _, ht := range wr.Hits {
		switch ht.Name {
		case "chain.commit:before-blockadd":
			open = true
		case "chain.commit:after-blockadd":
			open = false
		case "blockdb.write:idx-written":
			if open {
				inside++
			}
		}
	}
	captured := 0
	for _, ht := range wr.Hits {
		if !ht.NoCopy {
			captured++
		}
	}
	r.Hit(fmt.Sprintf("wide:bulk:%s:index-records-written-inside-CommitBlock=%d", w.Name, inside))
	r.Hit(fmt.Sprintf("wide:bulk:%s:hits=%d,captured=%d", w.Name, len(wr.Hits), captured))
	if inside < maxBlocksToWrite {
		r.TieFail("bulk-flush-not-reached:"+w.Name, fmt.Sprintf("workload %s queues %d blocks without an Idle but BlockAdd's synchronous flush wrote only %d index records inside Chain.CommitBlock (MAX_BLOCKS_TO_WRITE is no longer %d?)", w.Name, w.BulkN, inside, maxBlocksToWrite),
			map[string]interface{}{"case": Case{Workload: w.Name}})
	}
}
