package main

// The child side of the C07 harness: a FRESH PROCESS that re-opens a captured data directory the way
// the client does (chain.NewChainExt with DoNotRescan, then the do_the_blocks / LocalAcceptBlock
// recovery loop) or the way the library does by default (NewChainExt re-applies inside), reports the
// state, feeds the remaining blocks of the workload, reports again, closes cleanly, re-opens once more.

import (
	"encoding/binary"
	"encoding/hex"
	"encoding/json"
	"fmt"
	"os"
	"sort"
	"strconv"
	"strings"
	"sync"

	"github.com/piotrnar/gocoin/lib/btc"
	"github.com/piotrnar/gocoin/lib/chain"
	"github.com/piotrnar/gocoin/lib/others/sys"
	"github.com/piotrnar/gocoin/lib/others/vhook"
	"github.com/piotrnar/gocoin/lib/utxo"
	"verif/chainkit"
	"verif/vlib"
)

type State struct {
	Tip    string   `json:"tip"`
	Height uint32   `json:"height"`
	Dump   string   `json:"dump"`  // digest of the canonical full dump
	Coins  []string `json:"coins"` // sorted "txid:vout"
}

type ChildRes struct {
	Open     string   `json:"open"`     // "ok" | "panic: …"
	Recovery string   `json:"recovery"` // "ok" | "none" | "panic: …"
	S1       *State   `json:"s1"`       // right after NewChainExt
	S2       *State   `json:"s2"`       // after the client's recovery loop (client mode) / = S1 (library mode)
	S3       *State   `json:"s3"`       // after feeding the remaining blocks
	S4       *State   `json:"s4"`       // after a clean Close and a second re-open
	Feed     []string `json:"feed"`     // result per fed block that was not "ok"/"already in"
	Readable string   `json:"readable"` // "" or the first block of the active chain whose data cannot be read back
	Reopen2  string   `json:"reopen2"`
	// undo files of the last heights of the re-opened tip's chain, looked at right after NewChainExt (client mode):
	// heights whose undo/<h> names ANOTHER block in its first 32 bytes / whose undo/<h> does not exist
	UndoForeign []uint32 `json:"undo_foreign,omitempty"`
	UndoMissing []uint32 `json:"undo_missing,omitempty"`
	// stage2 mode: the captures taken while this process continued the workload (directory names under <dir>.s2/)
	Second []SecondCap `json:"second,omitempty"`
	// library mode: the re-opened node is closed cleanly and opened again libCycles times BEFORE anything is fed; "" = every cycle
	// came up in the state it was shut down in
	Cycle string `json:"cycle,omitempty"`
	// miss4.go loadTie (C07_IDXREPORT): what BlockDB.LoadBlockIndex computed at the first open - the append position of
	// blockchain.new and, per block of the index, "<hash>:<ipos>:<data file>" (lib/chain/verif_export_c07.go)
	IdxPos  int64    `json:"idxpos,omitempty"`
	IdxHnd  int64    `json:"idxhnd,omitempty"` // file offset of the handle blockchain.new is appended through, right after the open
	IdxRecs []string `json:"idxrecs,omitempty"`
}

// libCycles: clean Close + NewChainExt cycles a library-mode child performs on the re-opened directory (which of two equally high
// leaves FindFarthestNode returns depends on Go's map order - every start is a new draw)
const libCycles = 3

type SecondCap struct {
	Name  string `json:"name"`  // directory name
	Point string `json:"point"` // vhook point (or "end" = after Idle, no Close)
	Idx   int    `json:"hit"`
}

// undoLook reads the first 32 bytes of undo/<h> for the last `depth` blocks of the active chain.
func undoLook(ch *chain.Chain, dir string, depth int) (foreign, missing []uint32) {
	n := ch.LastBlock()
	for i := 0; i < depth && n != nil && n.Parent != nil; i, n = i+1, n.Parent {
		b, err := os.ReadFile(fmt.Sprint(dir, "undo/", n.Height))
		if err != nil {
			missing = append(missing, n.Height)
			continue
		}
		if len(b) < 32 || hex.EncodeToString(b[:32]) != hex.EncodeToString(n.BlockHash.Hash[:]) {
			foreign = append(foreign, n.Height)
		}
	}
	return
}

func stateOf(ch *chain.Chain) *State {
	l := ch.LastBlock()
	d := chainkit.UtxoDump(ch.Unspent)
	s := &State{Tip: hex.EncodeToString(l.BlockHash.Hash[:]), Height: l.Height, Dump: chainkit.DumpHash(d)}
	for _, x := range d {
		s.Coins = append(s.Coins, x[:strings.IndexByte(x, ' ')])
	}
	sort.Strings(s.Coins)
	return s
}

func readBlocksFile(fn string) (res [][]byte) {
	b, _ := os.ReadFile(fn)
	for len(b) >= 4 {
		n := int(binary.LittleEndian.Uint32(b))
		if len(b) < 4+n {
			break
		}
		res = append(res, b[4:4+n])
		b = b[4+n:]
	}
	return
}

func writeBlocksFile(fn string, blocks [][]byte) {
	var out []byte
	for _, b := range blocks {
		var l [4]byte
		binary.LittleEndian.PutUint32(l[:], uint32(len(b)))
		out = append(out, l[:]...)
		out = append(out, b...)
	}
	os.WriteFile(fn, out, 0644)
}

// clientRecover mirrors client/main.go do_the_blocks + HandleNetBlock + LocalAcceptBlock for the blocks
// found on disk above the snapshot's block.
func clientRecover(ch *chain.Chain) (res string) {
	defer func() {
		if x := recover(); x != nil {
			res = "panic: " + fmt.Sprint(x)
		}
	}()
	end, _ := ch.BlockTreeRoot.FindFarthestNode()
	if end.Height <= ch.LastBlock().Height {
		return "none"
	}
	last := ch.LastBlock()
	if last != end {
		last = last.FindFirstFather(end)
	}
	for last != end {
		nxt := last.FindPathTo(end)
		if nxt == nil {
			break
		}
		if nxt.BlockSize == 0 {
			return "BlockSize is zero - corrupt database"
		}
		crec, trusted, _ := ch.Blocks.BlockGetInternal(nxt.BlockHash, true)
		if crec == nil || crec.Data == nil {
			panic(fmt.Sprint("No data for block #", nxt.Height, " ", nxt.BlockHash.String()))
		}
		bl, er := btc.NewBlock(crec.Data)
		if er != nil {
			return "btc.NewBlock() error - corrupt database"
		}
		bl.Height = nxt.Height
		ch.ApplyBlockFlags(bl)
		if er = bl.BuildTxList(); er != nil {
			return "bl.BuildTxList() error - corrupt database"
		}
		bl.Trusted.Store(trusted)
		// HandleNetBlock: HasAllParents is true on this path; LocalAcceptBlock:
		ch.Unspent.AbortWriting()
		ch.Blocks.BlockAdd(nxt.Height, bl)
		bl.LastKnownHeight = end.Height
		ch.CommitBlock(bl, nxt) // an error only counts a misbehaviour in the client
		last = nxt
	}
	return "ok"
}

func childMain(args []string) {
	// -child <client|library> <dir> <blocksfile> <genesistime> <resultfile>
	mode, dir, bf, gts, rf := args[0], args[1], args[2], args[3], args[4]
	gt, _ := strconv.ParseUint(gts, 10, 32)
	utxo.UTXO_WRITING_TIME_TARGET = 0
	utxo.UTXO_SKIP_SAVE_BLOCKS = 0
	res := &ChildRes{}
	write := func() {
		b, _ := json.Marshal(res)
		os.WriteFile(rf+".tmp", b, 0644)
		os.Rename(rf+".tmp", rf)
	}
	opts := chainkit.Opts{Dir: dir, KeepDir: true, GenesisTime: uint32(gt), ChainOpts: &chain.NewChanOpts{DoNotRescan: mode != "library"}}
	if v, err := strconv.ParseUint(os.Getenv("C07_MAXDAT"), 10, 64); err == nil {
		opts.BlockDBOpts = blockDBOpts(v) // the workload's data-file roll-over size: the same configuration in every restart
	}
	// client modes: the process starts like the client (client/init.go host_init): the data directory is locked before anything
	// else touches it. LockDatabaseDir ends the process (os.Exit) when it cannot get the lock: the result file says so beforehand.
	client := mode != "library"
	lock := func(stage *string) {
		if client {
			*stage = "the process exited inside sys.LockDatabaseDir: the data directory could not be locked (stale " + dir + ".lock?)"
			write()
			sys.LockDatabaseDir(dir)
			*stage = ""
		}
	}
	unlock := func() {
		if client {
			sys.UnlockDatabaseDir() // client/main.go: after CloseBlockChain
		}
	}
	lock(&res.Open)
	var k *chainkit.Kit
	open := func() (s string) {
		defer func() {
			if x := recover(); x != nil {
				s = "panic: " + fmt.Sprint(x)
			}
		}()
		var err error
		k, err = chainkit.New(opts, vlib.NewRng(1))
		if err != nil {
			return "error: " + err.Error()
		}
		return "ok"
	}
	res.Open = open()
	if res.Open != "ok" {
		write()
		return
	}
	res.S1 = stateOf(k.Ch)
	res.UndoForeign, res.UndoMissing = undoLook(k.Ch, dir, 8)
	if os.Getenv("C07_IDXREPORT") != "" {
		res.IdxPos, _, _, _, _ = k.Ch.Blocks.VerifPositions()
		res.IdxHnd = k.Ch.Blocks.VerifIndexHandlePos()
		for _, rec := range k.Ch.Blocks.VerifIndexRecords() {
			res.IdxRecs = append(res.IdxRecs, fmt.Sprintf("%s:%d:%d", hex.EncodeToString(rec.Idx[:]), rec.Ipos, rec.DatFile))
		}
		sort.Strings(res.IdxRecs)
	}
	write() // in case something below kills the process outright
	if mode == "stage2" || mode == "stage2all" {
		stage2(k, dir, bf, res, write, mode == "stage2all")
		return
	}
	if mode == "library" {
		cycles := libCycles
		if v, err := strconv.Atoi(os.Getenv("C07_LIBCYCLES")); err == nil {
			cycles = v
		}
		for i := 1; i <= cycles && res.Cycle == ""; i++ {
			pre := stateOf(k.Ch)
			func() {
				defer func() {
					if x := recover(); x != nil {
						res.Cycle = fmt.Sprintf("clean shutdown #%d: Close panics: %v", i, x)
					}
				}()
				k.Ch.Close()
			}()
			if res.Cycle != "" {
				break
			}
			if s := open(); s != "ok" {
				res.Cycle = fmt.Sprintf("clean restart #%d: NewChainExt on the cleanly closed directory: %s", i, s)
				break
			}
			if post := stateOf(k.Ch); post.Tip != pre.Tip || post.Dump != pre.Dump {
				res.Cycle = fmt.Sprintf("clean restart #%d: tip %s height %d dump %s before the shutdown, tip %s height %d dump %s after the restart", i, pre.Tip[:16], pre.Height, pre.Dump, post.Tip[:16], post.Height, post.Dump)
			}
		}
		if res.Cycle != "" {
			write()
			return
		}
	}
	res.Recovery = "none"
	if mode != "library" {
		res.Recovery = clientRecover(k.Ch)
	}
	res.S2 = stateOf(k.Ch)
	write()
	if strings.HasPrefix(res.Recovery, "panic") {
		return
	}
	submitted := map[string][]byte{}
	for i, raw := range readBlocksFile(bf) {
		if len(raw) >= 80 {
			submitted[hex.EncodeToString(btc.NewSha2Hash(raw[:80]).Hash[:])] = raw
		}
		r := k.Submit(raw)
		if !r.OK() {
			s := r.String()
			if strings.Contains(s, "already in") {
				continue
			}
			res.Feed = append(res.Feed, fmt.Sprintf("%d: %s", i, s))
		}
	}
	func() {
		defer func() {
			if x := recover(); x != nil {
				res.Feed = append(res.Feed, "idle panic: "+fmt.Sprint(x))
			}
		}()
		k.Ch.Idle()
	}()
	res.S3 = stateOf(k.Ch)
	// every block of the active chain must still be readable from the store
	for n := k.Ch.LastBlock(); n != nil && n.Parent != nil; n = n.Parent {
		if d, _, e := k.Ch.Blocks.BlockGet(n.BlockHash); e != nil {
			res.Readable = fmt.Sprintf("block %d %s: %s", n.Height, n.BlockHash.String(), e.Error())
		} else if len(d) < 80 || !btc.NewSha2Hash(d[:80]).Equal(n.BlockHash) {
			res.Readable = fmt.Sprintf("block %d %s: the store returns %d bytes of another block", n.Height, n.BlockHash.String(), len(d))
		} else if want, ok := submitted[hex.EncodeToString(n.BlockHash.Hash[:])]; ok && string(want) != string(d) {
			res.Readable = fmt.Sprintf("block %d %s: the store returns %d bytes that differ from the %d bytes submitted", n.Height, n.BlockHash.String(), len(d), len(want))
		}
	}
	write()
	func() {
		defer func() {
			if x := recover(); x != nil {
				res.Reopen2 = "close panic: " + fmt.Sprint(x)
			}
		}()
		k.Ch.Close()
	}()
	k.Ch = nil
	if res.Reopen2 == "" {
		unlock()
		lock(&res.Reopen2)
		res.Reopen2 = open()
		if res.Reopen2 == "ok" {
			res.S4 = stateOf(k.Ch)
			k.Ch.Close()
			unlock()
		}
	}
	write()
}

// stage2: this process is the FIRST restart after a crash. It recovers like the client, continues the workload (all its
// blocks, no snapshot: UTXO_SKIP_SAVE_BLOCKS is huge), flushes the blocks with Idle and is then "killed" a second time:
// the directory is captured at the chosen vhook points and once more after Idle; the process exits without Close.
// mode stage2all (thorough, first data-written hit of each scripted workload): capture at every point; otherwise at
// blockdb.write:idx-written hits and at the end.
func stage2(k *chainkit.Kit, dir, bf string, res *ChildRes, write func(), all bool) {
	out := strings.TrimRight(dir, "/") + ".s2/"
	os.MkdirAll(out, 0770)
	res.Recovery = clientRecover(k.Ch)
	res.S2 = stateOf(k.Ch)
	write()
	if strings.HasPrefix(res.Recovery, "panic") {
		return
	}
	utxo.UTXO_SKIP_SAVE_BLOCKS = 1000000
	cnt := map[string]int{}
	n := 0
	var mu sync.Mutex
	capture := func(name string) {
		if notCrashPoint(name) {
			return
		}
		mu.Lock()
		defer mu.Unlock()
		cnt[name]++
		if !all && name != "blockdb.write:idx-written" && name != "end" {
			return
		}
		if n >= 60 {
			return
		}
		n++
		dn := fmt.Sprintf("%s#%d", strings.NewReplacer(":", "_", ".", "_").Replace(name), cnt[name]) // same name in both capture modes
		if copyTree(dir, out+dn+"/") == nil {
			res.Second = append(res.Second, SecondCap{Name: dn, Point: name, Idx: cnt[name]})
		}
	}
	vhook.Set(capture)
	for i, raw := range readBlocksFile(bf) {
		r := k.Submit(raw)
		if !r.OK() {
			s := r.String()
			if strings.Contains(s, "already in") {
				continue
			}
			res.Feed = append(res.Feed, fmt.Sprintf("%d: %s", i, s))
		}
	}
	func() {
		defer func() {
			if x := recover(); x != nil {
				res.Feed = append(res.Feed, "idle panic: "+fmt.Sprint(x))
			}
		}()
		k.Ch.Idle()
	}()
	vhook.Set(nil)
	capture("end")
	res.S3 = stateOf(k.Ch)
	write()
	// no Close: the process dies here
}
