// c07 — correspondence + exhaustive crash-point harness for property C07
// (restart after a crash at any point recovers a consistent chain state).
//
// Parent: runs each workload ONCE on the real chain code with a vhook callback that, at every
// vhook.Point hit, freezes the world (global mutex) and takes a recursive copy of the data directory
// (= the state a SIGKILL at that instant leaves behind under DESIGN §3's crash semantics: every
// completed syscall survives, bufio buffers are lost). Every copy is then re-opened by a FRESH PROCESS
// (this binary with -child, see child.go) which reports exit status / panic, tip and UTXO dump after
// re-open, after the client's recovery loop, after feeding the remaining blocks and after a clean
// close + second re-open. The parent evaluates the property's own predicate on those reports (tip
// known, UTXO = independent replay of the tip's chain, final state = uninterrupted run) and compares
// them with the Lean model (oracle_c07): (a) the sequence of point names emitted by the real code ==
// the labels of the model's effect list for the same workload, (b) for every crash point k the
// recovered and final (tip, coin set) == the model's recover(apply(take k effects)).
package main

import (
	"encoding/hex"
	"encoding/json"
	"fmt"
	"io"
	"os"
	"os/exec"
	"path/filepath"
	"runtime"
	"sort"
	"strconv"
	"strings"
	"sync"
	"syscall"
	"time"

	"github.com/piotrnar/gocoin/lib/btc"
	"github.com/piotrnar/gocoin/lib/others/vhook"
	"github.com/piotrnar/gocoin/lib/utxo"
	"verif/chainkit"
	"verif/vlib"
)

const genesisTime = 1735689600 // fixed: block hashes are identical in every run and in every process
const baseLen = 104

// ------------------------------------------------------------------------------------------ workloads

type Op struct {
	K      string   // "blk" | "idle" | "wait" | "waitchunk" | "close" | "skip" | "pause" | "hurry" | "hold" | "release"
	Name   string   // blk: block name
	Parent string   // blk: parent block name ("" = current tip at build time)
	Spend  []string // blk: coins spent by the block's single transaction (none = coinbase only)
	NOut   int      // blk: number of OP_TRUE outputs of that transaction
	N      int      // skip: UTXO_SKIP_SAVE_BLOCKS; pause: 1 = writing-time target 1h (save pauses after a chunk)
	Expect string   // blk: "" ok | "fail" (submission is expected to be refused / to fail the reorg)
	// wide.go: blk with Async = submitted from a goroutine of its own ("join" waits for it); Spend names starting with "nx"
	// are outpoints that do not exist (the block is invalid in context); ops "holdfile"/"holdcommit"/"window"/"release"/
	// "join"/"waitsave"/"restart" are implemented by wideOp
	Async bool
	// miss3.go: blk with Big = the transaction's outputs carry a 34000-byte script (a record larger than the 64 KiB save chunk);
	// Low = the output values are varied until the txid's first byte is < 8 (the record lives in one of the first maps the
	// snapshot writer walks, so a paced save pauses at the beginning of its walk); ops "undo" (Chain.UndoLastBlock called
	// directly, as the text-UI command `undo` does; Async = from a goroutine of its own), "undostart" (clean shutdown, then
	// NewChainExt with UndoBlocks = N as `gocoin -undo N` does, clean shutdown, normal restart) and "settle" (wait until the
	// asynchronous operations have returned, at most N ms) are implemented by missOp
	// miss4.go: ops restart / crestart / undostart / undo with Name = the block the node must be at right after the operation
	// (restart ops: right after NewChainExt), crestart with Parent = the block the node must be at after the client's recovery loop
	// ("" = the block before the shutdown: the loop is a no-op)
	Big bool
	Low bool
	// High = the block's records lie in maps the writer reaches late: its transaction's txid and its coinbase's txid start with
	// a byte >= 0x40 (output value / extranonce varied), and the spends named hi1..hi4 are the mature base coinbases cb2..cb5
	// ordered by the first byte of their txid, highest first
	High bool
}

type Workload struct {
	Name       string
	Ops        []Op
	Model      bool // compared with the Lean model point by point (canonical schedule enforced)
	Free       bool // no schedule enforcement: goroutines interleave freely (property predicate only)
	SaveFirst  bool // adversarial schedule: a block write waits until a snapshot that has begun is complete
	Shape      string
	MaxDat     uint64 // wide.go: BlockDBOpts.MaxDataFileSize of every process of this workload (0 = one data file)
	Wide       string // wide.go: "" | "failed-reorg" | "save-race" | "rollover" | "bulk" (bulk.go)
	BulkN      int    // bulk.go: number of blocks queued without an Idle
	BulkStride int    // bulk.go: sampling stride of the captures inside the flush
	BulkEvery  int    // bulk.go: after the flush every BulkEvery-th hit is captured (≤ 1 = all)
	Lib        bool   // miss3.go: every capture is ALSO re-opened in library mode (NewChainExt without DoNotRescan) in quick runs
	// miss4.go closeTie: the history as the model of Close sees it (Model/PersistIdx.lean, oracle op closeg): c:<block name> commit,
	// u:<block name gone back to> undo, i:<skip> Idle, r restart; "base" is the base chain's tip
	CloseTok []string
	// miss4.go: the directories of the client-mode clean shutdowns inside the history (op crestart) are ALSO re-opened by fresh
	// client-mode processes (closedRestarts)
	CloseCap bool
}

func blk(name, parent string, nout int, spend ...string) Op {
	return Op{K: "blk", Name: name, Parent: parent, Spend: spend, NOut: nout}
}

var (
	idle    = Op{K: "idle"}
	wait    = Op{K: "wait"}
	closeOp = Op{K: "close"}
)

func skip(n int) Op { return Op{K: "skip", N: n} }

func workloads(r *vlib.Run) []Workload {
	ws := []Workload{
		{Name: "extend", Model: true, Shape: "extend", Ops: []Op{skip(100),
			blk("A1", "", 2, "f1"), idle, blk("A2", "", 1, "A1.0", "cb2"), idle, blk("A3", "", 0), closeOp}},
		{Name: "save", Model: true, Shape: "save", Ops: []Op{skip(0),
			blk("A1", "", 2, "f1"), idle, wait, blk("A2", "", 1, "A1.0"), idle, wait, blk("A3", "", 1, "A1.1", "cb3"), closeOp}},
		{Name: "abort-by-new-block", Model: true, Shape: "abort", Ops: []Op{skip(0), {K: "pause", N: 1},
			blk("A1", "", 2, "f1"), idle, {K: "waitchunk"}, blk("A2", "", 1, "A1.0"), wait, idle, {K: "waitchunk"}, {K: "hurry"}, wait,
			blk("A3", "", 0), {K: "pause", N: 0}, closeOp}},
		// Lib: also re-opened in library mode in quick runs (equal-height siblings, off-branch snapshots): the tie of Model/PersistLib.lean
		{Name: "reorg-after-save", Model: true, Lib: true, Shape: "reorg-after-save", Ops: []Op{skip(0),
			blk("A1", "", 2, "f1"), blk("A2", "", 1, "f2"), idle, wait,
			blk("B1", "base", 1, "f3"), blk("B2", "B1", 1, "f4"), idle, blk("B3", "B2", 0), idle, wait, closeOp}},
		{Name: "reorg-save-extend", Model: true, Shape: "reorg-save-extend", Ops: []Op{skip(0),
			blk("A1", "", 2, "f1"), idle, wait,
			blk("B1", "base", 1, "f3"), blk("B2", "B1", 1, "B1.0", "f1"), idle, wait,
			blk("B3", "B2", 2, "cb2"), idle, wait, blk("B4", "B3", 0), closeOp}},
		{Name: "extend-free", Free: true, Shape: "extend", Ops: []Op{skip(0),
			blk("A1", "", 2, "f1"), idle, blk("A2", "", 1, "A1.0"), idle, blk("A3", "", 1, "A1.1"), idle, blk("A4", "", 0), idle, closeOp}},
	}
	// adversarial schedule for the Chain.Idle ordering (blocks flushed BEFORE a snapshot starts): every block write is
	// held back while a snapshot is being written. With the code as written no snapshot can be active at that moment.
	ws = append(ws, Workload{Name: "save-priority", Free: true, SaveFirst: true, Shape: "save", Ops: []Op{skip(0),
		blk("A1", "", 2, "f1"), idle, blk("A2", "", 1, "A1.0"), idle, blk("A3", "", 0), idle, closeOp}})
	if os.Getenv("C07_FAILED_REORG") != "" {
		// NOT registered (result depends on Go map order after the restart): when the restart picks the invalid branch first,
		// B2 is flagged invalid, re-submitted by the feed and invalidated a second time in the same process; setBlockFlag has
		// set rec.trusted=true the first time, so BlockInvalid panics "Trusted block cannot be invalid" holding db.mutex.
		// failed reorganisation: B2 double-spends f3 (already spent by B1); found out only when B3 triggers MoveToBlock
		ws = append(ws, Workload{Name: "failed-reorg", Free: true, Shape: "failed-reorg", Ops: []Op{skip(0),
			blk("A1", "", 2, "f1"), blk("A2", "", 1, "f2"), idle, wait,
			blk("B1", "base", 1, "f3"), blk("B2", "B1", 1, "f3"), idle, blk("B3", "B2", 0), idle, blk("A3", "A2", 0), idle, closeOp}})
	}
	if r.Thorough() {
		ws = append(ws,
			Workload{Name: "reorg-no-save", Model: true, Shape: "reorg-before-any-save", Ops: []Op{skip(100),
				blk("A1", "", 2, "f1"), idle, blk("B1", "base", 1, "f1"), blk("B2", "B1", 1, "B1.0"), idle, blk("A2", "A1", 0), blk("A3", "A2", 1, "A1.1"), idle, closeOp}},
			Workload{Name: "reorg-free", Free: true, Shape: "reorg-after-save", Ops: []Op{skip(0),
				blk("A1", "", 2, "f1"), blk("A2", "", 1, "f2"), idle,
				blk("B1", "base", 1, "f3"), blk("B2", "B1", 1, "f4"), idle, blk("B3", "B2", 0), idle, blk("B4", "B3", 1, "f5"), idle, closeOp}},
		)
	}
	return ws
}

// generated workloads: random histories over the same vocabulary (seeded)
func genWorkload(g *vlib.Rng, i int) Workload {
	w := Workload{Name: fmt.Sprintf("gen%d", i), Model: true, Shape: "generated"}
	w.Ops = append(w.Ops, skip(g.Pick(0, 0, 1, 100)))
	free := []string{"f1", "f2", "f3", "f4", "f5", "cb2", "cb3"}
	type br struct {
		tip   string
		n     int
		coins []string // coins usable on this branch (not yet spent there)
	}
	brs := []*br{{tip: "", n: 0, coins: append([]string{}, free...)}}
	nb := 3 + g.Intn(4)
	forked := false
	cnt := 0
	for b := 0; b < nb; b++ {
		cur := brs[0]
		if !forked && b >= 1 && g.Chance(1, 2) {
			// fork from the base tip: a competing branch that will overtake
			forked = true
			nbr := &br{tip: "base", coins: append([]string{}, free...)}
			brs = append(brs, nbr)
		}
		if forked && g.Chance(2, 3) {
			cur = brs[1]
		}
		cnt++
		name := fmt.Sprintf("%c%d", 'A'+indexOf(brs, cur), cur.n+1)
		var sp []string
		nout := 0
		if len(cur.coins) > 0 && g.Chance(3, 4) {
			j := g.Intn(len(cur.coins))
			sp = []string{cur.coins[j]}
			cur.coins = append(cur.coins[:j:j], cur.coins[j+1:]...)
			nout = 1 + g.Intn(2)
			for o := 0; o < nout; o++ {
				cur.coins = append(cur.coins, fmt.Sprintf("%s.%d", name, o))
			}
		}
		parent := cur.tip
		w.Ops = append(w.Ops, blk(name, parent, nout, sp...))
		cur.tip = name
		cur.n++
		if g.Chance(1, 2) {
			w.Ops = append(w.Ops, idle, wait)
		}
	}
	// finish on a strictly longest branch so that the final state has no tie
	if forked && brs[0].n == brs[1].n {
		cur := brs[1]
		name := fmt.Sprintf("B%d", cur.n+1)
		w.Ops = append(w.Ops, blk(name, cur.tip, 0))
	}
	w.Ops = append(w.Ops, idle, wait, closeOp)
	return w
}

func indexOf[T comparable](xs []T, x T) int {
	for i, y := range xs {
		if y == x {
			return i
		}
	}
	return -1
}

// ------------------------------------------------------------------------------------------ base chain

type Base struct {
	Dir    string
	Blocks [][]byte                  // raw blocks 1..baseLen
	Coins  map[string]*chainkit.Coin // cb<h>, f0..f5, big0.*, big1.*
	Tip    string
}

func newKit(dir string) *chainkit.Kit { return newKitOpt(dir, 0) }

func newKitOpt(dir string, maxDat uint64) *chainkit.Kit {
	k, err := chainkit.New(chainkit.Opts{Dir: dir, KeepDir: true, GenesisTime: genesisTime, BlockDBOpts: blockDBOpts(maxDat)}, vlib.NewRng(7))
	if err != nil {
		panic(err)
	}
	return k
}

func anyone(v uint64) chainkit.OutSpec {
	return chainkit.OutSpec{Value: v, Script: chainkit.AnyoneScript}
}

func buildBase(root string) *Base {
	b := &Base{Dir: root + "/base/", Coins: map[string]*chainkit.Coin{}}
	utxo.UTXO_WRITING_TIME_TARGET = 0
	utxo.UTXO_SKIP_SAVE_BLOCKS = 0
	lockDir(b.Dir)
	defer unlockDir() // after the clean Close below: the base directory is the one of a node that was shut down properly
	k := newKit(b.Dir)
	for h := uint32(1); h <= baseLen; h++ {
		var txs []*btc.Tx
		if h == 102 {
			// fan-out: cb1 (50 BTC) -> f0..f5 + two transactions' worth of funding
			c := b.Coins["cb1"]
			outs := []chainkit.OutSpec{}
			for i := 0; i < 8; i++ {
				outs = append(outs, anyone(c.Value/8))
			}
			tx := chainkit.BuildTx(2, []*chainkit.Coin{c}, nil, outs, 0)
			txs = append(txs, tx)
			for i, co := range chainkit.OutCoins(tx, nil, h, false) {
				b.Coins[fmt.Sprintf("f%d", i)] = co
			}
		}
		if h == 103 {
			// two records larger than the 64 KiB save chunk: every snapshot has two full chunks
			for j, src := range []string{"f6", "f7"} {
				c := b.Coins[src]
				outs := []chainkit.OutSpec{{Value: c.Value / 2, Script: bigScript}, {Value: c.Value / 2, Script: bigScript}}
				tx := chainkit.BuildTx(2, []*chainkit.Coin{c}, nil, outs, 0)
				txs = append(txs, tx)
				for i, co := range chainkit.OutCoins(tx, nil, h, false) {
					b.Coins[fmt.Sprintf("big%d.%d", j, i)] = co
				}
				delete(b.Coins, src)
			}
		}
		cb, raw := k.MustExtend(txs, 0)
		b.Blocks = append(b.Blocks, raw)
		b.Coins[fmt.Sprintf("cb%d", h)] = chainkit.OutCoins(cb, nil, h, true)[0]
	}
	delete(b.Coins, "cb1")
	b.Tip, _ = k.Tip()
	k.Ch.Close()
	return b
}

// ------------------------------------------------------------------------------------------ independent replay

// refChain computes, without gocoin's chain/utxo packages, the unspent set of every block's chain:
// map tip hash -> sorted dump lines (same line format as chainkit.UtxoDump).
type refBlock struct {
	hash, parent string
	height       uint32
	raw          []byte
}

type Ref struct {
	mu     sync.Mutex // phase A of the next workload adds blocks while phase B of the previous one reads (harness.go)
	blocks map[string]*refBlock
	memo   map[string]map[string]string // tip -> outpoint -> line
	gen    string
}

// blk: the block with this hash (nil = unknown); refBlock values are never changed after add
func (r *Ref) blk(h string) *refBlock {
	r.mu.Lock()
	defer r.mu.Unlock()
	return r.blocks[h]
}

func newRef() *Ref {
	g := chainkit.GenesisHash(false, false)
	r := &Ref{blocks: map[string]*refBlock{}, memo: map[string]map[string]string{}, gen: hex.EncodeToString(g.Hash[:])}
	r.memo[r.gen] = map[string]string{}
	return r
}

func (r *Ref) add(raw []byte) string {
	bl, err := btc.NewBlock(raw)
	if err != nil {
		panic(err)
	}
	r.mu.Lock()
	defer r.mu.Unlock()
	h := hex.EncodeToString(bl.Hash.Hash[:])
	p := hex.EncodeToString(bl.ParentHash())
	ht := uint32(1)
	if pb, ok := r.blocks[p]; ok {
		ht = pb.height + 1
	}
	r.blocks[h] = &refBlock{hash: h, parent: p, height: ht, raw: raw}
	return h
}

// utxoAt: the returned map is shared and must not be changed by the caller
func (r *Ref) utxoAt(tip string) map[string]string {
	r.mu.Lock()
	defer r.mu.Unlock()
	return r.utxoAtL(tip)
}

func (r *Ref) utxoAtL(tip string) map[string]string {
	if m, ok := r.memo[tip]; ok {
		return m
	}
	b := r.blocks[tip]
	if b == nil {
		return nil
	}
	pm := r.utxoAtL(b.parent)
	if pm == nil {
		return nil
	}
	m := make(map[string]string, len(pm)+4)
	for k, v := range pm {
		m[k] = v
	}
	bl, _ := btc.NewBlock(b.raw)
	bl.BuildTxList()
	for i, tx := range bl.Txs {
		if i > 0 {
			for _, in := range tx.TxIn {
				key := fmt.Sprintf("%s:%d", hex.EncodeToString(in.Input.Hash[:]), in.Input.Vout)
				if _, ok := m[key]; !ok {
					return nil // invalid on this chain
				}
				delete(m, key)
			}
		}
		cb := 0
		if i == 0 {
			cb = 1
		}
		for vout, o := range tx.TxOut {
			key := fmt.Sprintf("%s:%d", hex.EncodeToString(tx.Hash.Hash[:]), vout)
			m[key] = fmt.Sprintf("%s %d %d %d %s", key, o.Value, b.height, cb, hex.EncodeToString(o.Pk_script))
		}
	}
	r.memo[tip] = m
	return m
}

func (r *Ref) dumpHash(tip string) string {
	m := r.utxoAt(tip)
	if m == nil {
		return "invalid"
	}
	lines := make([]string, 0, len(m))
	for _, v := range m {
		lines = append(lines, v)
	}
	sort.Strings(lines)
	return chainkit.DumpHash(lines)
}

func (r *Ref) isAncestorOrEqual(a, b string) bool {
	r.mu.Lock()
	defer r.mu.Unlock()
	for b != "" {
		if a == b {
			return true
		}
		if b == r.gen {
			return false
		}
		x := r.blocks[b]
		if x == nil {
			return false
		}
		b = x.parent
	}
	return false
}

// ------------------------------------------------------------------------------------------ hook / scheduler

type Hit struct {
	N      int    `json:"n"`
	Name   string `json:"point"`
	Idx    int    `json:"hit"`              // per-name hit count (1-based)
	OpIdx  int    `json:"op"`               // workload op during which the point fired
	NSub   int    `json:"nsub"`             // blocks submitted (started) so far
	SnapOK string `json:"snap"`             // tip of the last COMPLETED snapshot at that instant
	NoCopy bool   `json:"nocopy,omitempty"` // bulk workloads: the directory was not captured at this hit (sampling, see bulk.go)
}

type Sched struct {
	mu        sync.Mutex
	cond      *sync.Cond
	enforce   bool
	dir       string
	snaps     string
	hits      []Hit
	cnt       map[string]int
	opIdx     int
	nsub      int
	saveAct   bool // between utxo.save:begin and utxo.save:finito
	created   bool // the file goroutine of the current save has created its file
	fileLive  bool // between utxo.save.file:created and :renamed / :abort-removed
	saveCh    int  // utxo.save:chunk hits of the current save
	fileCh    int  // utxo.save.file:chunk hits of the current save
	commits   int  // utxo.commit:before-commit hits
	undoDone  int  // utxo.commit:undo-renamed hits
	snapTip   string
	curTip    func() string
	copyErr   error
	only      int // >0: copy only this hit (replay)
	saveFirst bool
	// wide.go
	hold      func(name string) bool // true = the goroutine arriving at this point has to wait (never longer than point()'s deadline)
	started   int                    // snapshots started by Chain.Idle / Chain.Close so far
	onlyPoint string                 // replay of a free-running workload: copy the hit with this point name and per-name index
	onlyPIdx  int
	copySel   func(name string) bool // bulk.go (called with s.mu held): capture the directory at this hit? nil = at every hit
}

func newSched(dir, snaps string, enforce bool) *Sched {
	s := &Sched{dir: dir, snaps: snaps, enforce: enforce, cnt: map[string]int{}}
	s.cond = sync.NewCond(&s.mu)
	return s
}

func (s *Sched) ready(name string) bool {
	if s.saveFirst && name == "blockdb.write:before-dat" {
		return !s.saveAct && !s.fileLive
	}
	if s.hold != nil && s.hold(name) {
		return false
	}
	if !s.enforce {
		return true
	}
	switch name {
	case "utxo.save:chunk":
		return s.created && s.fileCh >= s.saveCh
	case "utxo.save:finito":
		return s.created && s.fileCh >= s.saveCh
	case "utxo.commit:before-commit":
		return s.undoDone > s.commits && (s.saveAct || !s.fileLive)
	case "utxo.commit:undo-before-write":
		return s.saveAct || !s.fileLive
	}
	return true
}

func (s *Sched) point(name string) {
	if s.saveFirst && name == "blockdb.write:before-dat" {
		time.Sleep(15 * time.Millisecond) // let a snapshot goroutine that was just started reach its first point
	}
	s.mu.Lock()
	deadline := time.Now().Add(5 * time.Second)
	for !s.ready(name) {
		if time.Now().After(deadline) {
			break // never dead-lock the code under test; the trace comparison will show the deviation
		}
		waitCond(s.cond, 50*time.Millisecond)
	}
	s.cnt[name]++
	n := len(s.hits) + 1
	s.hits = append(s.hits, Hit{N: n, Name: name, Idx: s.cnt[name], OpIdx: s.opIdx, NSub: s.nsub, SnapOK: s.snapTip})
	switch name {
	case "utxo.save:begin":
		s.saveAct, s.created, s.saveCh, s.fileCh = true, false, 0, 0
	case "utxo.save.file:created":
		s.created, s.fileLive = true, true
	case "utxo.save:chunk":
		s.saveCh++
	case "utxo.save.file:chunk":
		s.fileCh++
	case "utxo.save:finito":
		s.saveAct = false
	case "utxo.save.file:renamed":
		s.fileLive = false
	case "utxo.save.file:abort-removed":
		s.fileLive = false
	case "utxo.commit:before-commit":
		s.commits++
	case "utxo.commit:undo-renamed":
		s.undoDone++
	}
	sampled := s.onlyPoint == "" && s.only == 0 && s.copySel != nil
	if sampled && !s.copySel(name) {
		s.hits[n-1].NoCopy = true
	} else if (s.onlyPoint != "" && s.onlyPoint == name && s.onlyPIdx == s.cnt[name]) || (s.onlyPoint == "" && (s.only == 0 || s.only == n)) {
		if err := copyTree(s.dir, fmt.Sprintf("%s/%04d/", s.snaps, n)); err != nil && s.copyErr == nil {
			s.copyErr = err
		}
	}
	s.cond.Broadcast()
	s.mu.Unlock()
}

func waitCond(c *sync.Cond, d time.Duration) {
	t := time.AfterFunc(d, func() { c.Broadcast() })
	c.Wait()
	t.Stop()
}

// waitFor blocks the workload driver until pred holds (used for "wait": save + file goroutine finished).
func (s *Sched) waitFor(pred func() bool) bool {
	s.mu.Lock()
	defer s.mu.Unlock()
	deadline := time.Now().Add(10 * time.Second)
	for !pred() {
		if time.Now().After(deadline) {
			return false
		}
		waitCond(s.cond, 20*time.Millisecond)
	}
	return true
}

func copyTree(src, dst string) error {
	if err := os.MkdirAll(dst, 0770); err != nil {
		return err
	}
	es, err := os.ReadDir(src)
	if err != nil {
		return err
	}
	for _, e := range es {
		if e.IsDir() {
			if err := copyTree(src+e.Name()+"/", dst+e.Name()+"/"); err != nil {
				return err
			}
			continue
		}
		// files that gocoin only ever replaces by rename (never rewrites in place) can be shared by hard link
		if nm := e.Name(); nm == "UTXO.db" || nm == "UTXO.old" || (strings.HasSuffix(src, "/undo/") && nm != "tmp") {
			if os.Link(src+nm, dst+nm) == nil {
				continue
			}
		}
		in, err := os.Open(src + e.Name())
		if err != nil {
			continue // removed / renamed between ReadDir and Open by a goroutine finishing its current effect
		}
		out, err := os.Create(dst + e.Name())
		if err != nil {
			in.Close()
			return err
		}
		_, err = io.Copy(out, in)
		in.Close()
		out.Close()
		if err != nil {
			return err
		}
	}
	return nil
}

// notCrashPoint: schedule-perturbation points of other properties (inside worker goroutines, before the in-memory mutation of an
// undo) that do not lie between two file-system effects - no directory state of their own
func notCrashPoint(name string) bool {
	return strings.Contains(name, ".worker:") || name == "utxo.undo:before-mutation"
}

// ------------------------------------------------------------------------------------------ running one workload

type WlRun struct {
	W        Workload
	Dir      string // live directory
	Snaps    string
	Hits     []Hit
	Blocks   [][]byte          // raw workload blocks in submission order
	Names    []string          // their names
	Hash     map[string]string // block name -> hash
	Final    *State
	Results  []string // per blk op: result string
	ModelTok []string // oracle tokens of this workload (after the base tokens)
	Err      string
	WideNote string // wide.go: whether the pinned schedule reached its window
	// miss3.go
	Stuck        []string    // the watchdog had to release a paced snapshot (HurryUp) because the workload made no progress
	RestartPanic string      // a clean Close + NewChainExt inside the history panicked with this message
	RestartDiff  string      // miss4.go: a clean Close + restart inside the history came up in another state than the one before it
	Restarts     [][2]*State // miss4.go: the state before every clean shutdown inside the history and the state right after the restart
	Closed       []closedDir // directories left behind by the clean shutdowns inside the history
}

func runWorkload(root string, base *Base, w Workload, only int) *WlRun {
	wr := &WlRun{W: w, Dir: root + "/" + w.Name + "/live/", Snaps: root + "/" + w.Name + "/snaps", Hash: map[string]string{"base": base.Tip}}
	if err := copyTree(base.Dir, wr.Dir); err != nil {
		wr.Err = err.Error()
		return wr
	}
	utxo.UTXO_WRITING_TIME_TARGET = 0
	utxo.UTXO_SKIP_SAVE_BLOCKS = 0
	lockDir(wr.Dir) // the node holds <datadir>/.lock while it runs (client/init.go host_init): every capture contains the file
	defer unlockDir()
	k := newKitOpt(wr.Dir, w.MaxDat)
	coins := map[string]*chainkit.Coin{}
	for n, c := range base.Coins {
		coins[n] = c
	}
	s := newSched(wr.Dir, wr.Snaps, !w.Free)
	s.only = only
	s.saveFirst = w.SaveFirst
	s.snapTip = base.Tip
	s.onlyPoint, s.onlyPIdx = onlyPoint, onlyPIdx
	wx := &wideCtx{s: s, wr: wr, w: w}
	if w.Wide == "bulk" {
		s.copySel = bulkSelector(s, w)
	}
	vhook.Set(func(name string) {
		if notCrashPoint(name) {
			return
		}
		s.point(name)
	})
	defer vhook.Set(nil)
	// watchdog: with the writing-time target at 1 h a paced snapshot waits until it is aborted or hurried. An operation that is
	// supposed to abort it but waits for it instead would block the workload for an hour: after 8 s without a new point and
	// without a new op the snapshot is released with HurryUp (reported as workload-stuck; everything else is judged as usual)
	stopDog := make(chan bool)
	defer close(stopDog)
	go func() {
		last, lastT := -1, time.Now()
		for {
			select {
			case <-stopDog:
				return
			case <-time.After(500 * time.Millisecond):
			}
			s.mu.Lock()
			n, opi := len(s.hits)*1000+s.opIdx, s.opIdx
			s.mu.Unlock()
			if n != last {
				last, lastT = n, time.Now()
				continue
			}
			if time.Since(lastT) > 8*time.Second && utxo.UTXO_WRITING_TIME_TARGET != 0 {
				wr.Stuck = append(wr.Stuck, fmt.Sprintf("op %d (%s %s)", opi, w.Ops[opi].K, w.Ops[opi].Name))
				k.Ch.Unspent.HurryUp() // the driver is inside an op (it has not moved for 8 s): k is not being replaced
				lastT = time.Now()
			}
		}
	}()
	saveDone := func() bool { return !s.saveAct && !s.fileLive }
	closed := false
	for i, op := range w.Ops {
		s.mu.Lock()
		s.opIdx = i
		s.mu.Unlock()
		switch op.K {
		case "skip":
			utxo.UTXO_SKIP_SAVE_BLOCKS = uint32(op.N)
		case "pause":
			if op.N == 1 {
				utxo.UTXO_WRITING_TIME_TARGET = time.Hour
			} else {
				utxo.UTXO_WRITING_TIME_TARGET = 0
			}
		case "idle":
			func() {
				defer func() {
					if x := recover(); x != nil {
						wr.Results = append(wr.Results, "idle panic: "+fmt.Sprint(x))
					}
				}()
				s.mu.Lock()
				begun := s.cnt["utxo.save:begin"]
				s.mu.Unlock()
				if k.Ch.Idle() {
					// a save was started; it counts as begun even before its first point fires. (If its first point HAS fired by now -
					// the driver may lose the processor for a while when many fresh processes are running - the points keep saveAct.)
					s.mu.Lock()
					s.started++
					if s.cnt["utxo.save:begin"] == begun {
						s.saveAct = true
					}
					s.mu.Unlock()
				}
			}()
		case "wait":
			if !w.Free {
				if !s.waitFor(saveDone) {
					wr.Err = "wait: save did not finish"
				}
			}
		case "waitchunk":
			// a chunk of the save that was just STARTED (fileCh is reset at its utxo.save:begin; until then it still counts the previous save)
			if !s.waitFor(func() bool { return (s.cnt["utxo.save:begin"] >= s.started && s.fileCh >= 1) || saveDone() }) {
				wr.Err = "waitchunk: no chunk"
			}
		case "hurry":
			k.Ch.Unspent.HurryUp()
		case "close":
			func() {
				defer func() {
					if x := recover(); x != nil {
						wr.Results = append(wr.Results, "close panic: "+fmt.Sprint(x))
					}
				}()
				wr.Final = stateOf(k.Ch)
				k.Ch.Close()
				closed = true
			}()
		case "blk":
			parent := k.Ch.LastBlock()
			if op.Parent != "" {
				ph := wr.Hash[op.Parent]
				raw, _ := hex.DecodeString(ph)
				parent = k.Ch.BlockIndex[btc.NewUint256(raw).BIdx()]
				if parent == nil {
					wr.Err = "parent " + op.Parent + " unknown to the chain"
					break
				}
			}
			var txs []*btc.Tx
			if len(op.Spend) > 0 {
				var ins []*chainkit.Coin
				var sum uint64
				for _, cn := range op.Spend {
					c := coins[hiCoin(coins, cn)]
					if c == nil && strings.HasPrefix(cn, "nx") {
						c = nonexistentCoin(w.Name + "/" + op.Name + "/" + cn)
					}
					if c == nil {
						wr.Err = "coin " + cn + " unknown"
						break
					}
					ins = append(ins, c)
					sum += c.Value
				}
				tx := buildOpTx(op, ins, sum)
				txs = append(txs, tx)
				for o, c := range chainkit.OutCoins(tx, nil, parent.Height+1, false) {
					coins[fmt.Sprintf("%s.%d", op.Name, o)] = c
				}
			}
			raw := k.Build(chainkit.BlockSpec{Parent: parent, Txs: txs})
			for try := 0; op.High && try < 64 && coinbaseFirstByte(raw) < 0x40; try++ {
				raw = k.Build(chainkit.BlockSpec{Parent: parent, Txs: txs}) // the next extranonce
			}
			bl, _ := btc.NewBlock(raw)
			wr.Hash[op.Name] = hex.EncodeToString(bl.Hash.Hash[:])
			wr.Blocks = append(wr.Blocks, raw)
			wr.Names = append(wr.Names, op.Name)
			s.mu.Lock()
			s.nsub = len(wr.Blocks)
			s.mu.Unlock()
			if op.Async {
				wx.submitAsync(k, op.Name, raw)
				break
			}
			res := k.Submit(raw)
			wr.Results = append(wr.Results, op.Name+": "+res.String())
		default:
			if !wx.wideOp(op, &k) && !wx.missOp(op, &k) && !wx.miss4Op(op, &k) && wr.Err == "" {
				wr.Err = "unknown op " + op.K
			}
		}
		if wr.Err != "" {
			break
		}
	}
	wx.finish()
	if !closed {
		func() {
			defer func() { recover() }()
			wr.Final = stateOf(k.Ch)
			k.Ch.Close()
		}()
	}
	s.mu.Lock()
	wr.Hits = append([]Hit{}, s.hits...)
	if s.copyErr != nil && wr.Err == "" {
		wr.Err = "snapshot copy: " + s.copyErr.Error()
	}
	s.mu.Unlock()
	return wr
}

// ------------------------------------------------------------------------------------------ children

// truncWatchdog: a child that re-opens a directory with a cut snapshot file has nothing slow to do
const truncWatchdog = 20 * time.Second

// childPar: fresh processes alive at a time, over all workloads in flight (C07_PAR overrides; default: the cores but two - the
// workload being driven in this process and the oracle need theirs)
var childPar = func() int {
	if v, err := strconv.Atoi(os.Getenv("C07_PAR")); err == nil && v > 0 {
		return v
	}
	n := runtime.NumCPU() - 2
	if n < 4 {
		n = 4
	}
	if n > 28 {
		n = 28
	}
	return n
}()

var childSem = make(chan bool, childPar)

func runChild(env []string, mode, dir, blocks string) *ChildRes {
	return runChildT(env, mode, dir, blocks, 60*time.Second)
}

func runChildT(env []string, mode, dir, blocks string, watchdog time.Duration) *ChildRes {
	childSem <- true
	defer func() { <-childSem }()
	rf := strings.TrimRight(dir, "/") + "." + mode + ".json"
	os.Remove(rf)
	cmd := exec.Command(os.Args[0], "-child", mode, dir, blocks, fmt.Sprint(genesisTime), rf)
	cmd.Env = append(os.Environ(), env...)
	cmd.Stdout, cmd.Stderr = nil, nil
	done := make(chan error, 1)
	cmd.Start()
	go func() { done <- cmd.Wait() }()
	var werr error
	select {
	case werr = <-done:
	case <-time.After(watchdog):
		cmd.Process.Kill()
		werr = fmt.Errorf("timeout (hung)")
	}
	res := &ChildRes{}
	if b, err := os.ReadFile(rf); err == nil {
		json.Unmarshal(b, res)
	}
	if werr != nil {
		st := "died: " + werr.Error()
		if res.Open == "" {
			res.Open = st
		} else if res.S3 == nil && !strings.HasPrefix(res.Recovery, "panic") {
			res.Recovery = st
		}
	}
	return res
}

// ------------------------------------------------------------------------------------------ main

type Case struct {
	Workload string `json:"workload"`
	Hit      int    `json:"hit"`  // crash point number (0 = truncation case)
	Mode     string `json:"mode"` // client | library
	Trunc    string `json:"trunc,omitempty"`
	Second   string `json:"second,omitempty"` // second crash: capture name of the stage-2 process ("" = single crash)
	// free-running workloads (goroutines interleave freely, the global hit number is not stable): the crash point by name and per-name index
	Point string `json:"point,omitempty"`
	PIdx  int    `json:"pidx,omitempty"`
}

func main() {
	if len(os.Args) > 1 && os.Args[1] == "-child" {
		childMain(os.Args[2:])
		return
	}
	r := vlib.NewRun("C07")
	root, err := os.MkdirTemp("", "vc07")
	if err != nil {
		fmt.Fprintln(os.Stderr, err)
		os.Exit(3)
	}
	if os.Getenv("C07_KEEP") == "" {
		defer os.RemoveAll(root)
	}
	h := &Harness{r: r, root: root}
	// gocoin prints progress with fmt.Print and println: silence fd 1 and 2 while the real code runs
	o1, _ := syscall.Dup(1)
	o2, _ := syscall.Dup(2)
	if os.Getenv("C07_VERBOSE") == "" {
		if nul, err := os.OpenFile(os.DevNull, os.O_WRONLY, 0); err == nil {
			syscall.Dup3(int(nul.Fd()), 1, 0)
			syscall.Dup3(int(nul.Fd()), 2, 0)
		}
	}
	diag = os.NewFile(uintptr(o2), "stderr")
	h.run()
	syscall.Dup3(o1, 1, 0)
	syscall.Dup3(o2, 2, 0)
	if os.Getenv("C07_KEEP") == "" {
		os.RemoveAll(root)
	}
	r.Finish("one case = one (workload, crash point, re-open mode) or one (workload, truncation length): the data directory captured at that instant is re-opened by a fresh process; distinct = distinct (workload, point name, hit index, mode); non-trivial = the directory differs from the previous capture or the point lies inside a multi-step update",
		h.explanation())
}

var diag *os.File = os.Stderr

func filepathBase(p string) string { return filepath.Base(strings.TrimRight(p, "/")) }
func filepathDir(p string) string  { return filepath.Dir(strings.TrimRight(p, "/")) }
