package main

// rolltie.go — correspondence between the real block store with data-file roll-over and the positional Lean model
// Model/PersistRoll.lean (oracle op `roll`; theorem dat_rollover_sound): after the uninterrupted run of a roll-over workload
// (Chain.Close done, so every block is written) the (data file number, fpos, blen) of EVERY index record, the number of the
// newest data file and its length must be what the model computes for "writeOne … (restart) …" with the same
// MaxDataFileSize and the same on-disk block lengths.

import (
	"encoding/binary"
	"encoding/hex"
	"fmt"
	"os"
	"strings"
)

func (h *Harness) rollTie(w Workload, wr *WlRun) {
	r := h.r
	if w.MaxDat == 0 {
		return
	}
	idx, err := os.ReadFile(wr.Dir + "blockchain.new")
	if err != nil || len(idx) == 0 || len(idx)%136 != 0 {
		r.Hit("roll-tie:skipped")
		return
	}
	restarts := false
	for _, o := range w.Ops {
		if o.K == "restart" {
			restarts = true
		}
	}
	nblk := 0
	for _, o := range w.Ops {
		if o.K == "blk" {
			nblk++
		}
	}
	nBase := len(idx)/136 - nblk // records of the pre-built base chain (stored earlier, in one data file)
	if nBase < 0 {
		r.Hit("roll-tie:skipped")
		return
	}
	ids := map[string]int{}
	var toks, real []string
	var maxFile uint32
	var maxEnd uint64
	for i := 0; i < len(idx)/136; i++ {
		b := idx[i*136 : i*136+136]
		if b[0]&0x02 != 0 { // invalidated record: not part of the positional model
			r.Hit("roll-tie:skipped")
			return
		}
		key := hex.EncodeToString(b[56:136])
		if _, ok := ids[key]; !ok {
			ids[key] = len(ids) + 1
		}
		var file uint32
		if b[0]&0x20 != 0 {
			file = binary.LittleEndian.Uint32(b[28:32])
		}
		fpos := binary.LittleEndian.Uint64(b[40:48])
		blen := binary.LittleEndian.Uint32(b[48:52])
		if i < nBase {
			toks = append(toks, fmt.Sprintf("r:%d:%d:%d:%d", ids[key], file, fpos, blen))
		} else {
			toks = append(toks, fmt.Sprintf("w:%d:%d", ids[key], blen))
			if restarts {
				toks = append(toks, "o")
			}
		}
		real = append(real, fmt.Sprintf("%d:%d:%d:%d", ids[key], file, fpos, blen))
		if file > maxFile {
			maxFile, maxEnd = file, 0
		}
		if file == maxFile && fpos+uint64(blen) > maxEnd {
			maxEnd = fpos + uint64(blen)
		}
	}
	// the newest data file on disk and its length
	fn := fmt.Sprintf("%sbl%08d.dat", wr.Dir, maxFile)
	if maxFile == 0 {
		if _, e := os.Stat(wr.Dir + "blockchain.dat"); e == nil {
			fn = wr.Dir + "blockchain.dat"
		}
	}
	st, err := os.Stat(fn)
	if err != nil {
		r.Hit("roll-tie:skipped")
		return
	}
	if _, e := os.Stat(fmt.Sprintf("%sbl%08d.dat", wr.Dir, maxFile+1)); e == nil {
		maxEnd = ^uint64(0) // a data file newer than every index record after a clean Close: cannot agree with the model
	}
	want := fmt.Sprintf("ok %d %d 1 %s", maxFile, st.Size(), strings.Join(real, " "))
	got := h.o.MustAsk(fmt.Sprintf("roll 0 %d %s", w.MaxDat, strings.Join(toks, " ")))
	r.Eval("roll-positions/"+w.Shape, w.Name)
	if got == want && uint64(st.Size()) == maxEnd {
		r.TieOK()
		r.Hit(fmt.Sprintf("roll-tie:agree(files=%d)", maxFile+1))
		return
	}
	r.TieFail("model-roll-positions:"+w.Shape, fmt.Sprintf("workload %s (MaxDataFileSize %d): after the uninterrupted run the block store's (newest data file, its length, every record reads back, id:file:fpos:blen…) = %q, positional model with roll-over = %q",
		w.Name, w.MaxDat, want, got),
		map[string]interface{}{"case": Case{Workload: w.Name, Mode: "clean"}, "query": toks, "maxdat": w.MaxDat})
}

// rollTie2: the same comparison at the second-crash captures of a roll-over workload (harness.go stage 2): the directory the first
// restart starts from holds the index records idx0 (possibly with an orphaned data tail or a freshly created empty data file
// behind them), the continuing process stores the blocks whose records follow; at every capture taken right after an index
// write (or at the end) the (data file, fpos, blen) of EVERY record must be what the model computes for "open, writeOne …".
func (h *Harness) rollTie2(w Workload, c *s2case, sc SecondCap) {
	r := h.r
	idx, have := c.capIdx[sc.Name]
	if !have || len(c.idx0)%136 != 0 || len(idx)%136 != 0 || len(idx) < len(c.idx0) || len(idx) == 0 {
		r.Hit("roll-tie:skipped")
		return
	}
	n0 := len(c.idx0) / 136
	ids := map[string]int{}
	var toks, real []string
	for i := 0; i < len(idx)/136; i++ {
		b := idx[i*136 : i*136+136]
		if b[0]&0x02 != 0 {
			r.Hit("roll-tie:skipped")
			return
		}
		if i < n0 && string(b[1:]) != string(c.idx0[i*136+1:i*136+136]) {
			r.Hit("roll-tie:skipped")
			return
		}
		key := hex.EncodeToString(b[56:136])
		if _, ok := ids[key]; !ok {
			ids[key] = len(ids) + 1
		}
		var file uint32
		if b[0]&0x20 != 0 {
			file = binary.LittleEndian.Uint32(b[28:32])
		}
		fpos := binary.LittleEndian.Uint64(b[40:48])
		blen := binary.LittleEndian.Uint32(b[48:52])
		if i < n0 {
			toks = append(toks, fmt.Sprintf("r:%d:%d:%d:%d", ids[key], file, fpos, blen))
		} else {
			toks = append(toks, fmt.Sprintf("w:%d:%d", ids[key], blen))
		}
		real = append(real, fmt.Sprintf("%d:%d:%d:%d", ids[key], file, fpos, blen))
	}
	got := h.o.MustAsk(fmt.Sprintf("roll 0 %d %s", w.MaxDat, strings.Join(toks, " ")))
	r.Eval("roll-positions/"+w.Shape, fmt.Sprintf("%s|%s|%d|%s", w.Name, c.hit.Name, c.hit.Idx, sc.Name))
	f := strings.Fields(got)
	if len(f) >= 4 && f[0] == "ok" && f[3] == "1" && strings.Join(f[4:], " ") == strings.Join(real, " ") {
		r.TieOK()
		r.Hit("roll-tie:second-crash-agree")
		return
	}
	pre := ""
	if c.trunc {
		pre = "t"
	}
	r.TieFail("model-roll-positions:"+w.Shape, fmt.Sprintf("workload %s (MaxDataFileSize %d), first crash at %s#%d (index cut: %v), second capture %s: the block store's index records (id:file:fpos:blen…) = %q, positional model with roll-over = %q",
		w.Name, w.MaxDat, c.hit.Name, c.hit.Idx, c.trunc, sc.Name, strings.Join(real, " "), got),
		map[string]interface{}{"case": Case{Workload: w.Name, Hit: c.hit.N, Mode: "client", Second: pre + sc.Name}, "query": toks, "maxdat": w.MaxDat})
}
