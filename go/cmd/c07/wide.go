package main

// wide.go — three workload families that the scripted/generated histories of main.go do not reach (all judged by the
// PROPERTY PREDICATE on the real code only: fresh-process re-open must not panic, re-opened tip's UTXO dump == independent
// replay, final state == uninterrupted run, every block of the active chain reads back as the bytes submitted, a clean
// Close + restart reproduces the pre-shutdown state; not compared with the Lean model):
//
//   failed-reorg  a side branch whose first block spends an output that does not exist overtakes the tip while all its
//                 blocks are still in the block-write queue (no Idle in between): the reorganisation fails, DeleteBranch /
//                 BlockInvalid drop the queued blocks from the index while their queue entries stay; more valid blocks are
//                 queued behind them; then Idle (+ snapshot) and Close. Every vhook point is a crash point.
//   save-race     back-to-back snapshots with a pinned goroutine schedule: the file goroutine of snapshot S1 is held at a
//                 vhook point, one block is accepted, Idle starts S2 (parks behind S1's file), a further block is submitted
//                 from a goroutine of its own; if its commit gets as far as utxo.commit:after-commit while S2 is still
//                 pending ("window reached") it is held there until S2 has walked the maps; S1's file is released. With the
//                 code as written the commit aborts/waits for the pending save instead, the window is never reached and
//                 the hold is released by a timeout (counted as a trivial case, never a failure).
//   rollover      BlockDBOpts.MaxDataFileSize small enough that every 1–3 blocks start a new data file; Idle + complete
//                 snapshot after every block; crash at every point, and two-crash cases from EVERY block boundary (index
//                 record just written = crash; snapshot just renamed = the directory of a clean shutdown): restart,
//                 continue without a snapshot, second crash, restart. A second variant closes and re-opens the chain
//                 inside the history after every block.

import (
	"crypto/sha256"
	"encoding/binary"
	"fmt"
	"os"
	"strings"
	"sync"
	"time"

	"github.com/piotrnar/gocoin/lib/chain"
	"verif/chainkit"
	"verif/vlib"
)

var (
	onlyPoint string // replay of a free-running workload: crash point by name …
	onlyPIdx  int    // … and per-name hit index
)

func blockDBOpts(maxDat uint64) *chain.BlockDBOpts {
	if maxDat == 0 {
		return nil
	}
	// CompressOnDisk: NewBlockDBExt(nil) compresses; keep every other setting as with nil options
	return &chain.BlockDBOpts{MaxDataFileSize: maxDat, CompressOnDisk: true}
}

// childEnvOf: extra environment of every child process of a workload
func childEnvOf(w Workload) (env []string) {
	if w.MaxDat != 0 {
		env = []string{fmt.Sprint("C07_MAXDAT=", w.MaxDat)}
	}
	if w.Wide == "bulk" {
		env = append(env, "C07_LIBCYCLES=0") // thousands of blocks per directory: no extra clean-restart cycles in library mode
	} else {
		env = append(env, "C07_IDXREPORT=1") // miss4.go loadTie: the positions LoadBlockIndex computed
	}
	return
}

// feedBlocks: the blocks a restarted node is fed = every block of the workload except the ones of a branch that is
// invalid in context (a restarted node that is offered them again refuses them again; leaving them out keeps the
// result independent of Go's map order among equal-height leaves).
func feedBlocks(w Workload, wr *WlRun) (res [][]byte) {
	bad := map[string]bool{}
	for _, op := range w.Ops {
		if op.K == "blk" && op.Expect == "fail" {
			bad[op.Name] = true
		}
	}
	for i, raw := range wr.Blocks {
		if !bad[wr.Names[i]] {
			res = append(res, raw)
		}
	}
	return
}

func replaySelects(ht Hit, only int) bool {
	if onlyPoint != "" {
		return ht.Name == onlyPoint && ht.Idx == onlyPIdx
	}
	return only == 0 || ht.N == only
}

func freePoint(w Workload, ht Hit, second string) string {
	if w.Free && second == "" && ht.N > 0 {
		return ht.Name
	}
	return ""
}

// nonexistentCoin: an OP_TRUE-style outpoint that no block ever created (deterministic per tag).
func nonexistentCoin(tag string) *chainkit.Coin {
	h := sha256.Sum256([]byte("c07-nonexistent-outpoint/" + tag))
	c := &chainkit.Coin{Value: 100000000, Script: chainkit.AnyoneScript, Kind: "anyone", Height: 1}
	copy(c.Out.Hash[:], h[:])
	c.Out.Vout = 0
	return c
}

// ------------------------------------------------------------------------------------------ schedule ops

type wideCtx struct {
	s  *Sched
	wr *WlRun
	w  Workload

	// all fields below are guarded by s.mu
	filePoint    string // hold the goroutine arriving at this point …
	fileArmed    bool
	fileHeld     bool // … it has arrived
	fileReleased bool
	cmtArmed     bool
	cmtHeld      bool // a commit reached utxo.commit:after-commit while the hold was armed
	cmtFinito    int  // released when this many utxo.save:finito hits have been seen …
	cmtDeadline  time.Time
	windowAsked  bool
	windowHit    bool

	amu   sync.Mutex
	async []chan string
}

func (x *wideCtx) install() {
	if x.s.hold != nil {
		return
	}
	x.s.hold = func(name string) bool { // called with s.mu held
		if x.fileArmed && !x.fileReleased && name == x.filePoint {
			x.fileHeld = true
			return true
		}
		if x.cmtArmed && name == "utxo.commit:after-commit" {
			x.cmtHeld = true
			if x.s.cnt["utxo.save:finito"] >= x.cmtFinito || (!x.cmtDeadline.IsZero() && time.Now().After(x.cmtDeadline)) {
				x.cmtArmed = false
				return false
			}
			return true
		}
		return false
	}
}

func (x *wideCtx) submitAsync(k *chainkit.Kit, name string, raw []byte) {
	ch := make(chan string, 1)
	x.amu.Lock()
	x.async = append(x.async, ch)
	x.amu.Unlock()
	go func() { ch <- name + ": " + k.Submit(raw).String() }()
}

func (x *wideCtx) join(d time.Duration) {
	x.amu.Lock()
	chs := x.async
	x.async = nil
	x.amu.Unlock()
	for _, ch := range chs {
		select {
		case r := <-ch:
			x.wr.Results = append(x.wr.Results, r)
		case <-time.After(d):
			x.wr.Err = "an asynchronously submitted block did not return"
		}
	}
}

func (x *wideCtx) releaseAll() {
	s := x.s
	s.mu.Lock()
	x.fileReleased = true
	if x.cmtArmed && x.cmtDeadline.IsZero() {
		x.cmtDeadline = time.Now().Add(2 * time.Second)
	}
	s.cond.Broadcast()
	s.mu.Unlock()
}

// finish: nothing may stay held or pending when the workload ends (also after an error)
func (x *wideCtx) finish() {
	if x.s.hold == nil {
		return
	}
	x.releaseAll()
	x.join(10 * time.Second)
	x.note()
}

func (s *Sched) settled() bool { // with s.mu held: no snapshot pending, being written or being flushed
	b := s.cnt["utxo.save:begin"]
	return b >= s.started && b == s.cnt["utxo.save:finito"] && b == s.cnt["utxo.save.file:renamed"]+s.cnt["utxo.save.file:abort-removed"]
}

// waitUntil: like Sched.waitFor with an own time limit
func (s *Sched) waitUntil(d time.Duration, pred func() bool) bool {
	s.mu.Lock()
	defer s.mu.Unlock()
	deadline := time.Now().Add(d)
	for !pred() {
		if time.Now().After(deadline) {
			return false
		}
		waitCond(s.cond, 10*time.Millisecond)
	}
	return true
}

func (x *wideCtx) wideOp(op Op, k **chainkit.Kit) bool {
	s := x.s
	switch op.K {
	case "holdfile": // the next goroutine arriving at point op.Name waits until "release"
		x.install()
		s.mu.Lock()
		x.filePoint, x.fileArmed, x.fileHeld, x.fileReleased = op.Name, true, false, false
		s.mu.Unlock()
	case "waitheld": // … it has arrived and the save() goroutine that feeds it has finished
		if !s.waitUntil(2*time.Second, func() bool {
			return x.fileHeld && s.cnt["utxo.save:begin"] == s.cnt["utxo.save:finito"] && s.cnt["utxo.save:begin"] > 0
		}) {
			x.wr.Results = append(x.wr.Results, "waitheld: the file goroutine did not get to "+op.Name)
		}
	case "holdcommit": // the next commit that gets to utxo.commit:after-commit waits until the pending save() has walked the maps
		x.install()
		s.mu.Lock()
		x.cmtArmed, x.cmtHeld, x.cmtFinito, x.cmtDeadline = true, false, s.cnt["utxo.save:finito"]+1, time.Time{}
		s.mu.Unlock()
	case "window": // did the asynchronously submitted block commit while a snapshot was pending behind the held file goroutine?
		d := time.Duration(op.N) * time.Millisecond
		ok := s.waitUntil(d, func() bool { return x.cmtHeld })
		s.mu.Lock()
		x.windowAsked, x.windowHit = true, ok
		s.mu.Unlock()
	case "release":
		x.releaseAll()
	case "join":
		x.join(15 * time.Second)
	case "waitsave": // every snapshot that was started is complete and renamed (also in free-running workloads)
		if !s.waitUntil(10*time.Second, s.settled) {
			x.wr.Err = "waitsave: the snapshot did not complete"
		}
	case "restart": // clean shutdown and restart inside the history
		func() {
			defer func() {
				if e := recover(); e != nil {
					x.wr.Results = append(x.wr.Results, "restart panic: "+fmt.Sprint(e))
					x.wr.RestartPanic = fmt.Sprint(e)
					x.wr.Err = "clean Close + NewChainExt inside the history panics: " + fmt.Sprint(e)
				}
			}()
			pre := stateOf((*k).Ch)
			(*k).Ch.Close()
			unlockDir() // client/main.go: sys.UnlockDatabaseDir() after CloseBlockChain
			s.mu.Lock()
			s.saveAct, s.started = false, s.cnt["utxo.save:begin"] // Close has waited for its own snapshot
			opIdx, nsub := s.opIdx, s.nsub
			s.mu.Unlock()
			if x.w.Lib {
				// the directory of a clean shutdown inside the history: re-opened later by fresh processes (miss3.go closedRestarts)
				cd := closedDir{Dir: fmt.Sprintf("%s/%s/closed%d/", filepathDir(x.wr.Snaps), "inhist", len(x.wr.Closed)), Pre: pre, Label: "clean-close-inside-history", OpIdx: opIdx, NSub: nsub}
				if copyTree(x.wr.Dir, cd.Dir) == nil {
					x.wr.Closed = append(x.wr.Closed, cd)
				}
			}
			lockDir(x.wr.Dir)
			*k = newKitOpt(x.wr.Dir, x.w.MaxDat)
			post := stateOf((*k).Ch)
			if op.Name != "" {
				// library mode re-applies the blocks found on disk above the snapshot's block (blocks undone by the operator): the
				// restarted node must be at the named block - the state itself is checked against the independent replay in phase B
				x.wr.Restarts = append(x.wr.Restarts, [2]*State{pre, post})
				if post.Tip != x.wr.Hash[op.Name] {
					x.wr.RestartDiff = fmt.Sprintf("library-mode restart (NewChainExt): before the clean shutdown: %s; after the restart: %s; expected block %s (%s)", stateStr(pre), stateStr(post), op.Name, x.wr.Hash[op.Name][:16])
					x.wr.Err = "clean shutdown + restart inside the history does not come up at the expected block: " + x.wr.RestartDiff
				}
				return
			}
			// "a clean shutdown followed by a restart reproduces the pre-shutdown state exactly" (miss4.go)
			x.restartCheck("library-mode restart (NewChainExt)", pre, post)
		}()
	default:
		return false
	}
	return true
}

// ------------------------------------------------------------------------------------------ the workloads

func hold(point string) Op { return Op{K: "holdfile", Name: point} }

func bad(o Op) Op   { o.Expect = "fail"; return o }
func async(o Op) Op { o.Async = true; return o }

var (
	waitsave = Op{K: "waitsave"}
	restart  = Op{K: "restart"}
)

func saveRace(name, point string, a3spends bool) Workload {
	a3 := blk("A3", "A2", 0)
	if a3spends {
		a3 = blk("A3", "A2", 2, "A1.1", "f2")
	}
	return Workload{Name: name, Free: true, Wide: "save-race", Shape: "save-race", Ops: []Op{skip(0),
		hold(point), blk("A1", "", 2, "f1"), idle, {K: "waitheld", Name: point}, // S1: save() done, its file goroutine held
		blk("A2", "A1", 1, "A1.0"), idle, // S2 started, parks behind S1's file
		{K: "holdcommit"}, async(a3), {K: "window", N: 400}, {K: "release"}, {K: "join"}, waitsave,
		closeOp}}
}

func failedReorg(name string, flushedPrefix bool, forkBack, after int, idleAfter []bool) Workload {
	w := Workload{Name: name, Free: true, Wide: "failed-reorg", Shape: "failed-reorg-then-idle"}
	w.Ops = append(w.Ops, skip(0), blk("A1", "", 2, "f1"))
	na := 1
	if forkBack == 2 {
		w.Ops = append(w.Ops, blk("A2", "A1", 1, "A1.0"))
		na = 2
	}
	if flushedPrefix {
		w.Ops = append(w.Ops, idle, waitsave)
	}
	// the side branch: forkBack+1 blocks on the block forkBack below the tip; its first block spends an unknown output
	par := "base"
	if na-forkBack > 0 {
		par = fmt.Sprintf("A%d", na-forkBack)
	}
	for i := 1; i <= forkBack+1; i++ {
		b := blk(fmt.Sprintf("B%d", i), par, 0)
		if i == 1 {
			b = blk("B1", par, 1, "nx1", "f3")
		}
		w.Ops = append(w.Ops, bad(b))
		par = b.Name
	}
	for i := 0; i < after; i++ {
		n := fmt.Sprintf("A%d", na+1)
		b := blk(n, fmt.Sprintf("A%d", na), 0)
		if i == 0 {
			b = blk(n, fmt.Sprintf("A%d", na), 1, "A1.1", "f4")
		}
		w.Ops = append(w.Ops, b)
		na++
		if i < len(idleAfter) && idleAfter[i] {
			w.Ops = append(w.Ops, idle, waitsave)
		}
	}
	w.Ops = append(w.Ops, idle, waitsave, closeOp)
	return w
}

// sizes (snappy, on disk) of the workload blocks are ≈ 150 bytes (coinbase only) … 330 bytes (one transaction):
// 520 bytes per data file = one to three blocks per file
const rollMax = 520

func rollover(name string, maxDat uint64, n int, restarts bool, g *vlib.Rng) Workload {
	w := Workload{Name: name, Wide: "rollover", Shape: "data-file-rollover", MaxDat: maxDat}
	if restarts {
		w.Shape = "data-file-rollover-restarts"
	}
	w.Ops = append(w.Ops, skip(0))
	coins := []string{"f1", "f2", "f3", "f4", "f5", "cb2", "cb3"}
	for i := 1; i <= n; i++ {
		name := fmt.Sprintf("W%d", i)
		b := blk(name, "", 0)
		spend := i%3 == 2
		if g != nil {
			spend = g.Chance(1, 2)
		}
		if spend && len(coins) > 0 {
			nout := 1 + i%2
			b = blk(name, "", nout, coins[0])
			coins = coins[1:]
			for o := 0; o < nout; o++ {
				coins = append(coins, fmt.Sprintf("%s.%d", name, o))
			}
		}
		w.Ops = append(w.Ops, b)
		if restarts {
			if i%2 == 0 {
				w.Ops = append(w.Ops, idle, wait)
			}
			w.Ops = append(w.Ops, restart)
		} else {
			w.Ops = append(w.Ops, idle, wait)
		}
	}
	w.Ops = append(w.Ops, closeOp)
	return w
}

func wideWorkloads(r *vlib.Run, g *vlib.Rng) (ws []Workload) {
	ws = append(ws,
		failedReorg("failed-reorg-queued", false, 1, 2, nil),
		failedReorg("failed-reorg-flushed-prefix", true, 1, 2, []bool{true}),
		saveRace("save-race-chunk", "utxo.save.file:chunk", true),
		saveRace("save-race-closed", "utxo.save.file:closed", false),
		rollover("rollover", rollMax, 7, false, nil),
		rollover("rollover-restarts", rollMax, 6, true, nil),
	)
	ws = append(ws, bulkWorkloads(r.Thorough())...)
	if r.Thorough() {
		ws = append(ws,
			failedReorg("failed-reorg-deep", true, 2, 3, []bool{false, true}),
			saveRace("save-race-created", "utxo.save.file:created", true),
			saveRace("save-race-closed-spend", "utxo.save.file:closed", true),
			saveRace("save-race-chunk-plain", "utxo.save.file:chunk", false),
		)
	}
	for i := 0; i < r.N(1, 6); i++ {
		ws = append(ws, failedReorg(fmt.Sprintf("failed-reorg-gen%d", i), g.Bool(), 1+g.Intn(2), 1+g.Intn(3), []bool{g.Bool(), g.Bool()}))
		md := uint64(g.Pick(340, 420, 520, 700, 900))
		n := 5 + g.Intn(4)
		rs := g.Chance(1, 3)
		if i >= 1 || r.Thorough() { // quick: the scripted roll-over workloads only (every roll-over workload costs ≈ 250 fresh processes)
			ws = append(ws, rollover(fmt.Sprintf("rollover-gen%d", i), md, n, rs, g))
		}
	}
	return
}

// ------------------------------------------------------------------------------------------ evaluation

// wideCounters: did the history get into the situation it was built for? (histogram only)
func (h *Harness) wideCounters(w Workload, wr *WlRun) {
	r := h.r
	switch w.Wide {
	case "failed-reorg":
		failed, behind := false, 0
		for _, res := range wr.Results {
			if strings.Contains(res, "MoveToBlock failed") {
				failed = true
			} else if failed && strings.HasSuffix(res, ": ok") {
				behind++
			}
		}
		if failed && behind > 0 {
			r.Hit("wide:failed-reorg:branch-invalidated-while-queued-then-blocks-queued-behind")
		} else {
			r.Hit("wide:failed-reorg:reorganisation-did-not-fail")
		}
	case "flag": // miss4.go: reorganisations over several data files - the same positional tie as for the roll-over workloads
		h.rollTie(w, wr)
	case "bulk":
		h.bulkCounters(w, wr)
	case "save-race":
		r.Hit("wide:save-race:" + wr.WideNote)
	case "rollover":
		n := 0
		if es, err := os.ReadDir(wr.Dir); err == nil {
			for _, e := range es {
				if strings.HasSuffix(e.Name(), ".dat") {
					n++
				}
			}
		}
		r.Hit(fmt.Sprintf("wide:rollover:data-files-at-the-end=%d", n))
		h.rollTie(w, wr)
	}
}

// note: did the pinned schedule reach its window? (reported through WlRun.WideNote)
func (x *wideCtx) note() {
	x.s.mu.Lock()
	defer x.s.mu.Unlock()
	switch {
	case !x.windowAsked:
		x.wr.WideNote = "schedule-not-run"
	case !x.fileHeld:
		x.wr.WideNote = "file-goroutine-never-held"
	case x.windowHit:
		x.wr.WideNote = "window-reached(a block was committed while a snapshot was pending behind the previous snapshot's file)"
	default:
		x.wr.WideNote = "window-not-reached(the commit waited for the pending snapshot)"
	}
}

// newestFileBlocks: number of index records that live in the newest data file named by the index, and that file's number
func newestFileBlocks(dir string) (n int, maxIdx uint32) {
	idx, err := os.ReadFile(dir + "blockchain.new")
	if err != nil {
		return
	}
	for i := 0; i+136 <= len(idx); i += 136 {
		b := idx[i : i+136]
		if b[0]&0x02 != 0 { // invalid
			continue
		}
		var fi uint32
		if b[0]&0x20 != 0 {
			fi = binary.LittleEndian.Uint32(b[28:32])
		}
		if fi > maxIdx {
			maxIdx, n = fi, 0
		}
		if fi == maxIdx {
			n++
		}
	}
	return
}

type cleanJob struct {
	had bool
	res *ChildRes
}

// cleanStart (phase A) / cleanRestart (phase B): "a clean shutdown followed by a restart reproduces the pre-shutdown state exactly" —
// the directory the uninterrupted run left behind after Chain.Close is re-opened by a fresh process.
func (h *Harness) cleanStart(p *pending) {
	dir := h.root + "/" + p.w.Name + "/closed/"
	if copyTree(p.wr.Dir, dir) != nil {
		return
	}
	j := &cleanJob{had: h.viewOf(dir).lockHas} // a clean shutdown removes the lock file: the restart has to create it
	p.clean = j
	p.wg.Add(1)
	go func() {
		defer p.wg.Done()
		j.res = runChild(p.env, "client", dir, p.blocksFile)
	}()
}

func (h *Harness) cleanRestart(p *pending) {
	r := h.r
	if p.clean == nil {
		return
	}
	w, wr, c, had := p.w, p.wr, p.clean.res, p.clean.had
	h.nChild++
	r.Eval("clean-restart/"+w.Shape, w.Name+"|clean-close")
	ht := Hit{N: 0, Name: "clean-close", Idx: 1, NSub: len(wr.Names)}
	h.lockTie(w, ht, had, c)
	rep := map[string]interface{}{"case": Case{Workload: w.Name, Mode: "clean"}, "ops": w.Ops, "child": c, "expected_final": wr.Final}
	switch {
	case c.Open != "ok":
		r.PropFail("clean-restart-fails:"+w.Shape, fmt.Sprintf("workload %s: the chain was closed cleanly (Chain.Close returned); a fresh process re-opening the directory fails: %s", w.Name, c.Open), rep)
	case c.S1 == nil || c.S1.Tip != wr.Final.Tip || c.S1.Dump != wr.Final.Dump:
		r.PropFail("clean-restart-differs:"+w.Shape, fmt.Sprintf("workload %s: state before the clean shutdown: tip %s height %d dump %s; after the restart: %s", w.Name, wr.Final.Tip[:16], wr.Final.Height, wr.Final.Dump, stateStr(c.S1)), rep)
	case c.S2 == nil || c.S2.Tip != c.S1.Tip || c.S2.Dump != c.S1.Dump:
		r.PropFail("clean-restart-recovers:"+w.Shape, fmt.Sprintf("workload %s: after a clean shutdown the recovery loop still changes the state: %s -> %s (%s)", w.Name, stateStr(c.S1), stateStr(c.S2), c.Recovery), rep)
	default:
		if h.judge2(w, wr, ht, "client", c, "") {
			r.Hit("wide:clean-restart-identity-holds")
		}
	}
}

func stateStr(s *State) string {
	if s == nil {
		return "(no state)"
	}
	return fmt.Sprintf("tip %s height %d dump %s", s.Tip[:16], s.Height, s.Dump)
}
