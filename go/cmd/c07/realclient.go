package main

// Round-5 pass: the client's OWN start-up replay, run by a fresh process on captured directories.
//
// Until this pass the client's recovery (client/main.go do_the_blocks + HandleNetBlock + LocalAcceptBlock) was only MIRRORED in
// child.go clientRecover: an edit of the client's functions themselves was invisible. Now the harness builds gocoin's client
// package (package main of <repo>/client) with ONE extra file added through `go build -overlay` (realclient/driver.go.txt - nothing is
// written into the repository) and starts that binary on a private copy of captured directories. The driver performs the chain part
// of host_init (LockDatabaseDir, NewChainExt with the options host_init builds, Last.ParseTill = farthest node when higher) and the
// start-up part of main (LastCommitedHeader, `go do_the_blocks(ParseTill)`, the main loop's HandleNetBlock / retry_cached_blocks) by
// CALLING the functions of client/main.go.
//
// Selection (phase A, from the files of the capture, before any child touches it):
//   off-branch   the snapshot's block is not an ancestor of some highest block on disk (reorganisation after a save, crash before
//                the next snapshot): EVERY such capture
//   parse        blocks above the snapshot, all highest blocks descend from it: every 10th of a workload
//   noop         nothing above the snapshot (do_the_blocks is not started): every 50th of a workload
// Judged (phase B) by the property's predicate on the REAL client's report: no panic / no exit / no hang, the state after NewChainExt
// and after the replay are a block the node knew with the unspent set of the independent replay, and the replay ends on a block as
// high as the one the mirrored recovery of the same capture reaches (same block when only one highest block is on disk). A
// report is judged only where the mirrored recovery of the same capture passes (otherwise the capture is already reported under its
// own key - e.g. the known finding's window).

import (
	_ "embed"
	"encoding/hex"
	"encoding/json"
	"fmt"
	"os"
	"os/exec"
	"path/filepath"
	"strings"
	"sync"
	"time"

	"github.com/piotrnar/gocoin/lib/btc"
	"verif/chainkit"
	"verif/vlib"
	"verif/vtrans"
)

//go:embed realclient/driver.go.txt
var realClientSrc string

type RCState = State

type RCRes struct {
	Open     string   `json:"open"`
	Recovery string   `json:"recovery"`
	S1       *RCState `json:"s1"`
	S2       *RCState `json:"s2"`
	Queued   int      `json:"queued"`
	ParseEnd bool     `json:"parse_end"`
	Stderr   string   `json:"stderr_tail,omitempty"` // set by the harness when the process died
}

type realClient struct {
	once sync.Once
	done chan bool
	bin  string
	err  string
}

var rcl = &realClient{done: make(chan bool)}

// start builds the client binary in the background (≈ 1.5 s warm).
func (c *realClient) start(root string) {
	c.once.Do(func() {
		go func() {
			defer close(c.done)
			repo := strings.TrimRight(vtrans.RepoRoot(), "/")
			dir := root + "/realclient/"
			os.MkdirAll(dir, 0770)
			src := dir + "driver.go"
			if err := os.WriteFile(src, []byte(realClientSrc), 0644); err != nil {
				c.err = err.Error()
				return
			}
			ov, _ := json.Marshal(map[string]interface{}{"Replace": map[string]string{repo + "/client/zz_verif_c07_driver.go": src}})
			os.WriteFile(dir+"overlay.json", ov, 0644)
			cmd := exec.Command("go", "build", "-tags", "verif", "-overlay", dir+"overlay.json", "-o", dir+"client", "./client")
			cmd.Dir = repo
			env := []string{}
			for _, e := range os.Environ() {
				if !strings.HasPrefix(e, "GOFLAGS=") { // the harness's -modfile (VERIF_REPO runs) belongs to module verif, not to gocoin
					env = append(env, e)
				}
			}
			cmd.Env = append(env, "GOFLAGS=-mod=mod", "GOPROXY=off", "GOSUMDB=off", "GOTOOLCHAIN=local")
			out, err := cmd.CombinedOutput()
			if err != nil {
				s := string(out)
				if len(s) > 1500 {
					s = s[:1500]
				}
				c.err = err.Error() + ": " + s
				return
			}
			c.bin = dir + "client"
		}()
	})
}

func (c *realClient) wait() bool {
	<-c.done
	return c.err == ""
}

// rcJob: one run of the real client's start-up code
type rcJob struct {
	hit  Hit
	kind string // off-branch | parse | noop | unknown
	tops int    // highest attached blocks on disk
	dir  string
	res  *RCRes
}

// diskTops: like libExpect, plus the number of highest attached blocks (with several, Go's map order decides which one
// FindFarthestNode returns in each process)
func (h *Harness) diskTops(v *diskView) (kind string, ntops int) {
	var sh uint32
	if v.snap != h.ref.gen {
		b := h.ref.blk(v.snap)
		if b == nil {
			return "unknown", 0
		}
		sh = b.height
	}
	var maxH uint32
	memo := map[string]bool{}
	var attached func(x string) bool
	attached = func(x string) bool {
		if x == h.ref.gen {
			return true
		}
		if a, ok := memo[x]; ok {
			return a
		}
		b := h.ref.blk(x)
		a := b != nil && v.idx[x] && attached(b.parent)
		memo[x] = a
		return a
	}
	var tops []string
	for x := range v.idx {
		b := h.ref.blk(x)
		if b == nil || !attached(x) {
			continue
		}
		if b.height > maxH {
			maxH, tops = b.height, nil
		}
		if b.height == maxH {
			tops = append(tops, x)
		}
	}
	ntops = len(tops)
	if maxH <= sh {
		return "noop", ntops
	}
	for _, t := range tops {
		if !h.ref.isAncestorOrEqual(v.snap, t) {
			return "off-branch", ntops
		}
	}
	return "parse", ntops
}

// rcSelect (phase A, before the children of the workload start): choose the captures, take the private copies
func (h *Harness) rcSelect(p *pending) {
	if os.Getenv("C07_NOREALCLIENT") != "" || p.w.Wide == "bulk" {
		return
	}
	if p.onlyMode != "" && p.onlyMode != "client" {
		return
	}
	if os.Getenv("C07_TIMES") != "" {
		defer func(t0 time.Time) { fmt.Fprintln(diag, "C07_TIMES", p.w.Name, "rcSelect", time.Since(t0), len(p.rc)) }(time.Now())
	}
	n := map[string]int{}
	for _, ht := range p.wr.Hits {
		if !replaySelects(ht, p.only) || ht.NoCopy {
			continue
		}
		dir := fmt.Sprintf("%s/%04d/", p.wr.Snaps, ht.N)
		v := p.views[ht.N]
		if v == nil {
			v = h.viewOf(dir)
		}
		kind, tops := h.diskTops(v)
		n[kind]++
		take := p.only != 0
		switch kind {
		case "off-branch", "unknown":
			take = true
		case "parse":
			take = take || n[kind]%10 == 1
		default:
			take = take || n[kind]%50 == 1
		}
		if !take {
			continue
		}
		j := &rcJob{hit: ht, kind: kind, tops: tops, dir: fmt.Sprintf("%s/%04d-rc/", p.wr.Snaps, ht.N)}
		if copyTree(dir, j.dir) != nil {
			continue
		}
		p.rc = append(p.rc, j)
	}
}

// rcStart (phase A): start the processes
func (h *Harness) rcStart(p *pending) {
	for _, j := range p.rc {
		p.wg.Add(1)
		go func(j *rcJob) {
			defer p.wg.Done()
			j.res = runRealClient(p.env, j.dir)
		}(j)
	}
}

func runRealClient(env []string, dir string) *RCRes {
	if !rcl.wait() {
		return nil
	}
	childSem <- true
	defer func() { <-childSem }()
	rf := strings.TrimRight(dir, "/") + ".realclient.json"
	os.Remove(rf)
	cmd := exec.Command(rcl.bin)
	cmd.Dir = filepath.Dir(rcl.bin)
	cmd.Env = append(append(os.Environ(), env...), "C07_REALCLIENT_DIR="+dir, "C07_REALCLIENT_RESULT="+rf,
		fmt.Sprint("C07_REALCLIENT_GENESISTIME=", genesisTime), "C07_REALCLIENT_GENESIS="+genesisHex())
	cmd.Stdout = nil
	ef, _ := os.Create(rf + ".stderr")
	if ef != nil {
		cmd.Stderr = ef
		defer ef.Close()
	}
	done := make(chan error, 1)
	if err := cmd.Start(); err != nil {
		return &RCRes{Open: "died: " + err.Error()}
	}
	go func() { done <- cmd.Wait() }()
	var werr error
	select {
	case werr = <-done:
	case <-time.After(60 * time.Second):
		cmd.Process.Kill()
		werr = fmt.Errorf("timeout (hung)")
	}
	res := &RCRes{}
	if b, err := os.ReadFile(rf); err == nil {
		json.Unmarshal(b, res)
	}
	if werr != nil {
		if b, err := os.ReadFile(rf + ".stderr"); err == nil {
			if len(b) > 400 {
				b = b[len(b)-400:]
			}
			res.Stderr = string(b)
		}
		st := "died: " + werr.Error()
		if res.Open == "" || res.Open == "ok" && res.S1 == nil {
			res.Open = st
		} else if res.S2 == nil && !strings.HasPrefix(res.Recovery, "panic") {
			res.Recovery = st
		}
	}
	return res
}

// rcJudge (phase B, after the mirrored children of the workload have been judged)
func (h *Harness) rcJudge(p *pending, mirrorOK map[int]bool, mirror map[int]*ChildRes) {
	r := h.r
	w, wr := p.w, p.wr
	if len(p.rc) == 0 {
		return
	}
	if !rcl.wait() {
		if !h.rcBuildReported {
			h.rcBuildReported = true
			r.TieFail("realclient-build", "gocoin's client package no longer builds with the harness's start-up driver (realclient/driver.go.txt calls do_the_blocks, HandleNetBlock, retry_cached_blocks, blockMined, blockUndone and reads retryCachedBlocks of client/main.go): "+rcl.err,
				map[string]interface{}{"case": Case{Workload: w.Name, Hit: p.rc[0].hit.N, Mode: "client"}})
		}
		return
	}
	for _, j := range p.rc {
		c, ht := j.res, j.hit
		r.Eval("realclient/"+j.kind, fmt.Sprintf("%s|%s|%d|realclient", w.Name, ht.Name, ht.Idx))
		m := mirror[ht.N]
		if c == nil || m == nil {
			r.Hit("realclient:no-mirrored-run")
			continue
		}
		// the mirrored recovery of the same capture is the reference of the stages the driver runs; where IT fails before the end of
		// the recovery loop the capture is already reported under its own key. A mirror that recovers into a state the predicate
		// refuses (the known finding's window: undo data of another branch) is still what the real client must do: same files, same
		// undo data, same state
		mirrorRecovered := m.Open == "ok" && m.S1 != nil && m.S2 != nil && !strings.HasPrefix(m.Recovery, "panic") && !strings.HasPrefix(m.Recovery, "died")
		if !mirrorRecovered {
			r.Hit("realclient:mirror-already-reported")
			continue
		}
		full := mirrorOK[ht.N]
		rep := map[string]interface{}{"case": Case{Workload: w.Name, Hit: ht.N, Mode: "client", Point: freePoint(w, ht, ""), PIdx: ht.Idx}, "point": ht.Name, "hit_index": ht.Idx, "ops": w.Ops,
			"real_client": c, "mirrored_recovery": map[string]interface{}{"open": m.Open, "recovery": m.Recovery, "s1": m.S1, "s2": m.S2}, "directory": j.kind}
		where := fmt.Sprintf("workload %s, crash at %s#%d (point %d), the client's own start-up code (host_init's NewChainExt, go do_the_blocks, HandleNetBlock) on the captured directory [%s: %s]", w.Name, ht.Name, ht.Idx, ht.N, j.kind,
			map[string]string{"off-branch": "the snapshot's block is not an ancestor of the highest block on disk", "parse": "blocks above the snapshot's block on disk", "noop": "nothing above the snapshot on disk", "unknown": "snapshot of an unknown block"}[j.kind])
		known := map[string]bool{h.base.Tip: true, h.ref.gen: true}
		for i := 0; i < ht.NSub && i < len(wr.Names); i++ {
			known[wr.Hash[wr.Names[i]]] = true
		}
		if h.baseHashes == nil {
			for _, raw := range h.base.Blocks {
				h.baseHashes = append(h.baseHashes, hex.EncodeToString(btc.NewSha2Hash(raw[:80]).Hash[:]))
			}
		}
		for _, b := range h.baseHashes {
			known[b] = true
		}
		chk := func(s *State, stage string) string {
			if s == nil {
				return stage + ": no state reported"
			}
			if !known[s.Tip] {
				return fmt.Sprintf("%s: tip %s (height %d) is not a block the node had received before the crash", stage, s.Tip[:16], s.Height)
			}
			if d := h.ref.dumpHash(s.Tip); d != s.Dump {
				return fmt.Sprintf("%s: tip %s height %d has UTXO dump %s, replay of that tip's chain gives %s", stage, s.Tip[:16], s.Height, s.Dump, d)
			}
			return ""
		}
		same := func(x, y *State) bool { return x != nil && y != nil && x.Tip == y.Tip && x.Dump == y.Dump }
		key, what, tie := "", "", false
		switch {
		case c.Open != "ok":
			key, what = "client-start-fails", "re-opening the directory fails: "+c.Open
		case !same(c.S1, m.S1):
			if e := chk(c.S1, "after NewChainExt"); e != "" {
				key, what = "client-start-inconsistent", e
			} else {
				key, what, tie = "client-start-differs", fmt.Sprintf("after NewChainExt the client is at %s, the harness's process (NewChainExt with DoNotRescan only) at %s on the same files", stateStr(c.S1), stateStr(m.S1)), true
			}
		case strings.HasPrefix(c.Recovery, "panic") || strings.HasPrefix(c.Recovery, "died") || strings.HasPrefix(c.Recovery, "stuck"):
			key, what = "client-replay-panics", "the start-up replay of the blocks found on disk fails (do_the_blocks runs as a bare goroutine: in the node a panic there ends the process at every start): "+c.Recovery+"; the recovery loop written out in the harness (first common ancestor of the tip and the farthest block, then every block up to it) ends at "+stateStr(m.S2)+" on the same directory"
		case c.S2 == nil:
			key, what = "client-replay-panics", "no state reported after the start-up replay"
		case full && chk(c.S2, "after the start-up replay") != "":
			key, what = "client-replay-inconsistent", chk(c.S2, "after the start-up replay")
		case c.S2.Height != m.S2.Height || (j.tops == 1 && !same(c.S2, m.S2)):
			what = fmt.Sprintf("the start-up replay ends at %s (%d blocks handed to the main loop); the recovery loop written out in the harness (first common ancestor of the tip and the farthest block, then every block up to it) reaches %s on the same directory", stateStr(c.S2), c.Queued, stateStr(m.S2))
			if c.S2.Height < m.S2.Height || chk(c.S2, "after the start-up replay") != "" {
				key = "client-replay-stops-short"
			} else {
				key, tie = "client-replay-differs", true
			}
		}
		if key == "" {
			r.TieOK()
			r.Hit("realclient:agrees:" + j.kind)
			if !full {
				r.Hit("realclient:agrees-inside-a-reported-window:" + j.kind)
			}
			continue
		}
		if j.tops > 1 && j.kind != "parse" && j.kind != "noop" {
			// several highest blocks on disk and not all of them descend from the snapshot's block: which one this process went for is
			// Go's map order - the mirrored process may have drawn the other one (the known finding's window is judged on the mirror)
			r.Hit("realclient:several-highest-blocks-not-judged")
			continue
		}
		// the known finding explains a wrong state after blocks were undone and the exit inside txpool.BlockUndone (its message is on
		// the process's stderr) - never a panic of do_the_blocks / HandleNetBlock that the mirrored loop does not have on the same files
		f8Symptom := !tie && !strings.HasPrefix(c.Recovery, "panic") && !strings.HasPrefix(c.Recovery, "stuck") && c.Open == "ok" &&
			(!strings.HasPrefix(c.Recovery, "died") || strings.Contains(c.Stderr, "TxUnmineFail"))
		if f8Symptom && h.foreignUndoOnPath(m, m.S2.Tip) {
			// evidence of the known finding on the captured directory: a block this start-up has to undo has an undo/<height> file that
			// names another block. The real client then also hands the undone block to txpool.BlockUndone, whose processTx finds the
			// inputs missing (the wrong outputs were restored): "TxUnmineFail" + os.Exit(1)
			r.PropFail(keyF8, "snapshot on one branch, undo/<height> rewritten by the other branch, crash before the next snapshot: restart undoes blocks with the other branch's undo data (hash in the undo file is skipped, not compared): "+where+": "+what, rep)
			r.Hit("known:" + keyF8 + ":real-client")
			continue
		}
		if tie {
			r.TieFail(key+":"+w.Shape, where+": "+what, rep)
		} else {
			r.PropFail(key+":"+w.Shape, where+": "+what, rep)
		}
	}
}

func genesisHex() string {
	return hex.EncodeToString(chainkit.GenesisHash(false, false).Hash[:])
}

// ------------------------------------------------------------------------------------------ workloads

// quietReorg: a reorganisation after a completed snapshot in which the blocks of BOTH branches at the heights the two branches
// share spend nothing (coinbase only). The snapshot stays on the abandoned branch until the next one is renamed into place, the
// undo files of the shared heights are rewritten by the new branch - and hold no inputs, like the ones they replace: undoing the old
// branch with them is right, so the known finding's window is harmless here and a restart from EVERY crash point between the
// reorganisation and the next snapshot must recover to the new branch (start from the first common ancestor of the snapshot's block
// and the farthest block on disk, go up from there). pre = spending blocks under the fork point, d = blocks the restart has to undo,
// up = blocks of the new branch above the old tip (the first one triggers the reorganisation), aside = the blocks stored aside are
// flushed to disk before the reorganisation, spendTop = the blocks above the shared heights spend base coins.
func quietReorg(name string, pre, d, up int, aside, spendTop, tailSnap bool) Workload {
	w := Workload{Name: name, Model: true, Shape: "quiet-reorg"}
	w.Ops = append(w.Ops, skip(0))
	fork := "base"
	coins := []string{"f1", "f2", "f3", "f4", "f5"}
	for i := 1; i <= pre; i++ {
		fork = fmt.Sprintf("P%d", i)
		w.Ops = append(w.Ops, blk(fork, "", 1+i%2, coins[0]))
		coins = coins[1:]
	}
	for i := 1; i <= d; i++ {
		w.Ops = append(w.Ops, blk(fmt.Sprintf("A%d", i), "", 0))
	}
	w.Ops = append(w.Ops, idle, wait) // the snapshot: block A<d>
	par := fork
	for i := 1; i <= d; i++ {
		nm := fmt.Sprintf("B%d", i)
		w.Ops = append(w.Ops, blk(nm, par, 0)) // not higher than the tip: stored aside
		par = nm
	}
	if aside {
		w.Ops = append(w.Ops, idle)
	}
	for i := d + 1; i <= d+up; i++ {
		nm := fmt.Sprintf("B%d", i)
		if spendTop && len(coins) > 0 {
			w.Ops = append(w.Ops, blk(nm, par, 1, coins[0]))
			coins = coins[1:]
		} else {
			w.Ops = append(w.Ops, blk(nm, par, 0))
		}
		par = nm
	}
	// the new branch reaches the block files; the snapshot that Idle starts is the next crash window
	w.Ops = append(w.Ops, idle)
	if tailSnap {
		w.Ops = append(w.Ops, wait)
	}
	w.Ops = append(w.Ops, closeOp)
	return w
}

func realClientWorkloads(r *vlib.Run, g *vlib.Rng) (ws []Workload) {
	n := r.N(2, 8)
	for i := 0; i < n; i++ {
		ws = append(ws, quietReorg(fmt.Sprintf("quiet-reorg-gen%d", i), g.Intn(3), 1+g.Intn(3), 1+g.Intn(2), g.Bool(), g.Bool(), g.Bool()))
	}
	return
}
