package main

import (
	"encoding/binary"
	"encoding/hex"
	"encoding/json"
	"fmt"
	"os"
	"sort"
	"strings"
	"sync"
	"time"

	"github.com/piotrnar/gocoin/lib/btc"
	"verif/chainkit"
	"verif/vlib"
)

const keyF8 = "undo-file-keyed-by-height"
const keyLib = "library-reopen-off-branch-panics"
const keyTruncIdx = "index-truncated-below-snapshot"
const keyTruncDat = "data-truncated-below-index"

type Harness struct {
	r       *vlib.Run
	root    string
	base    *Base
	ref     *Ref
	o       *vlib.Oracle
	nPoint  int
	nChild  int
	traces  int
	mu      sync.Mutex
	shapes  map[string]int
	curMV   *modelVerdict // the model's prediction for the crash point being judged (model-compared workloads, client mode)
	curLib  string        // miss3.go libExpect of the directory being judged (library mode): "" = not computed
	curWin  bool          // library mode: an undo file under the snapshot's block of the captured directory names another block
	lockAns map[string]string
	idxAns  map[string]string // miss4.go: answers of the oracle op idx (many captures hold the same index)
	// torn.go: the replay case / the description judge2 reports for a report that is not a plain (workload, hit, mode) case
	caseOverride  *Case
	whereOverride string
	// realclient.go
	rcBuildReported bool
	baseHashes      []string
}

func (h *Harness) explanation() string {
	return "Round-5 pass (realclient.go): the CLIENT'S OWN start-up code runs on captured directories - gocoin's client package is built with one driver file added through `go build -overlay` (nothing is written into the repository); a fresh process performs host_init's chain part (LockDatabaseDir, NewChainExt with host_init's options and txpool callbacks, Last.ParseTill = farthest node when higher) and main's start-up (`go do_the_blocks(ParseTill)`, HandleNetBlock / retry_cached_blocks for everything it queues) by calling the functions of client/main.go, on EVERY capture whose snapshot block is not an ancestor of the highest block on disk (reorganisation after a save, kill before the next snapshot), every 10th capture of a workload with blocks above the snapshot and every 50th with none; judged by the predicate (no panic / exit / hang, states are replays of blocks the node knew) and against the written-out recovery loop of the same capture (same block and unspent set; same height when several highest blocks are on disk); inside the known finding's window (an undo file on the undo path names another block) the real client's exit in txpool.BlockUndone ('TxUnmineFail', read from its stderr) or wrong state is assigned to the known finding, a panic of do_the_blocks never is. New workload family quiet-reorg (generated: 0-2 spending blocks under the fork, 1-3 blocks to undo, 1-2 blocks above the old tip, side blocks flushed or not before the reorganisation, upper blocks spending or not, snapshot completed or not): both branches spend nothing at the heights they share, so the undo files the new branch rewrites are interchangeable and the restart from every crash point between the reorganisation and the next snapshot must succeed (the off-branch class without the known finding's damage). Fact clientReplayStart (gen_c07, do_the_blocks: the walk starts at FindFirstFather(tip, end)) feeds Model/PersistClient.lean. Older: Prefix truncations with something appended behind the cut (torn.go): in directories whose snapshot lies BELOW the cut (the crash capture right after an index write with the most records above its snapshot - thorough: every such capture -, and the cleanly closed directory with UTXO.db replaced by UTXO.old) blockchain.new is cut at a record boundary and 1 / 55 / 135 bytes into a record, with and without a partial block left in the data file; a second process re-opens (load-positions tie incl. the file offset of the index handle), recovers, stores the missing blocks again, is shut down cleanly and re-opens; a third fresh process must come up in the final state. Undo-then-clean-shutdown workloads (miss4.go undoOnly): operator undo of n blocks right after a complete snapshot, nothing committed in between, clean shutdown; the client-mode restart (in-process and a fresh process) must come up at tip-n (asserted by block name), `NewChainExt{UndoBlocks:n}` must return n blocks lower and the next start must come up there. Older families: Round-4 pass (miss4.go; workloads of several kinds are in flight at a time: the fresh processes of one workload run while the next one is driven in-process, reports are judged in workload order): flag-rewrite workloads (the flag byte of an index record that is already ON DISK is rewritten: a side branch is stored aside, flushed by Chain.Idle and only then overtakes the tip - its records become trusted while the reorganisation applies them, or one of its blocks spends an output that does not exist and the records of the rest of the branch are flagged invalid; crossed with one / several data files (MaxDataFileSize 340..700), 1-3 further blocks stored behind the rewritten records, a clean shutdown + restart inside the history in library or client mode, 1-3 blocks appended by the restarted node, a second restart; every point a crash point) and close-relation workloads (a clean shutdown while the tip is another block of the SAME height as the block of UTXO.db - blocks undone by the operator, as many others accepted - or one higher on another branch - one more block, or a reorganisation while Idle may not save -, followed by a restart inside the history); after EVERY clean shutdown inside a history of any workload (ops restart = library mode, crestart = client mode incl. the recovery loop) the restarted node must be in exactly the state before the shutdown (key clean-restart-differs). Ties with Model/PersistIdx.lean (facts flagRewriteSource / invalidRecordAdvances / closeSaveGuard regenerated from setBlockFlag / LoadBlockIndex / UnspentDB.Close): index tie (between consecutive captures of every workload the index file changes by appended records and gained flag bits only == oracle op idx), load-positions tie (what the REAL LoadBlockIndex computed in every client-mode fresh process - append position, ipos and data file of every record, read through lib/chain/verif_export_c07.go - == the positions of the records in the captured file == the model's load), close tie (block and height before every clean shutdown inside a close-relation history and after the restart == oracle op closeg). Round-3 pass (miss3.go): operator-undo workloads (Chain.UndoLastBlock called directly, as the text-UI command `undo` and NewChainExt's -undo loop do: while a paced snapshot waits after its first chunk at the beginning of its walk, while none is active, at start-up between two clean shutdowns), stale-sibling workloads (blocks stored aside because they are not higher than the tip are on disk at every crash point and at clean shutdowns inside the history; every capture re-opened in client AND library mode; the library-mode process does 3 further clean Close + NewChainExt cycles before anything is fed; the closed directories are re-opened by fresh processes in both modes), the node process holds <datadir>/.lock through sys.LockDatabaseDir / UnlockDatabaseDir exactly like the client and every client-mode fresh process starts with the real LockDatabaseDir; snapshot-file tie (every UTXO.db / UTXO.old of every capture parsed independently: record count == header, txid set == replay of the header's block), library tie (oracle op libopen == library-mode fresh process) and lock tie (oracle op lock) with Model/PersistLib.lean whose parameters are regenerated from the source (go/cmd/gen_c07). Added after the audit: (i) truncations of UTXO.db after a clean close (inside the 48-byte header, right after it, inside and at the end of the record area; with and without UTXO.old) re-opened by a fresh process under a 20 s watchdog - NewUnspentDb must fall back to UTXO.old / start from genesis and the recovery loop must converge (fix eab07278: it hung with an intact header and a short record area); compared with the model's tearDb + restartFrom (oracle op torn, theorem torn_snapshot_reopens); a fall-back onto a snapshot of the abandoned branch is the known finding's window. (ii) bulk workload threshold-flush (bulk.go): 1024 blocks queued without an Idle so that BlockDB.BlockAdd flushes synchronously INSIDE Chain.CommitBlock (asserted: 1024 index records written between chain.commit:before-blockadd and :after-blockadd); crash points inside and after the flush are SAMPLED (not exhaustive), predicate only; thorough adds deep-recovery (2600 blocks ahead of the snapshot: recovery without undo data below target-2560). (iii) the known finding undo-file-keyed-by-height is assigned only with evidence (model predicts the observed state and raised its ghost flag there, or an undo file of a block that must be undone names another block); a child that reports no state must be a panic of the model too; the model's uninterrupted run must end in the real final state with ghost flag 0 (oracle op final). Wide workloads (wide.go; judged by the property predicate on the real code; only the data-file roll-over workloads are ALSO compared with a Lean model - rolltie.go: the (data file, fpos, blen) of every index record after the uninterrupted run and at every second-crash capture == oracle op `roll`, Model/PersistRoll.lean, theorem dat_rollover_sound): (1) failed-reorg-then-idle: a side branch whose first block spends a non-existent output overtakes the tip while all its blocks are still in the block-write queue; the reorganisation fails, the queued blocks are dropped from the index, further valid blocks are queued behind them, then Idle + snapshot + Close; every vhook point is a crash point and the cleanly closed directory is re-opened by a fresh process (clean-restart identity: same tip, same UTXO dump, recovery loop is a no-op). (2) save-race: back-to-back snapshots under a pinned schedule - the file goroutine of snapshot S1 is held at a vhook point, a block is accepted, Idle starts S2 which parks behind S1's file, a further block is submitted from its own goroutine; if its commit reaches utxo.commit:after-commit while S2 is pending it is held there until S2 has walked the maps, then everything is released (histogram wide:save-race:window-reached / window-not-reached; with the code as written the commit waits for the pending snapshot and the window is not reached - a trivial case); every point is a crash point, in particular the renamed UTXO.db of S2. (3) data-file roll-over: BlockDBOpts.MaxDataFileSize = 520 bytes (generated: 340..900) in every process, so that a new data file starts every 1-3 blocks; Idle + complete snapshot after every block (second variant: clean Close + NewChainExt inside the history after every block); single crash at every point, and two-crash cases from EVERY block boundary (index record written / snapshot renamed = the directory of a clean shutdown): restart, feed every block without a snapshot, second crash at each index write, third process judged (histogram wide:rollover:first-restart-with-exactly-one-block-in-the-newest-data-file). In all fresh-process reports every block of the active chain is read back from the store and must hash to its index entry and equal the bytes submitted. Second-crash cases (crash at a blockdb.write:dat-written / idx-written point or with the index cut by one record -> fresh process recovers like the client, is fed every block with snapshots disabled, flushes -> second crash at each idx-written point and after Idle; thorough: at every point for the first data-written hit of each scripted workload -> third fresh process re-opens and is judged by the same predicate; not compared with the model). The known finding undo-file-keyed-by-height is only assigned when the captured directory really holds an undo/<h> file naming another block than the re-opened chain's block at h (a missing undo file or any other failure off-branch is reported under its own key). Exhaustive over the crash points of each workload: the harness installs a vhook callback that copies the data directory at EVERY vhook.Point hit (all point names x all hit counts) of the workloads {extend, save, abort-by-new-block (save paused after its first 64 KiB chunk, aborted by CommitBlockTxs, later one hurried), reorg-after-save, reorg-save-extend, reorg-before-any-save, seeded generated histories (canonical schedule, compared with the model), free-running variants, and an adversarial schedule holding block writes back while a snapshot is being written}; each copy is re-opened by a fresh process (client mode: NewChainExt(DoNotRescan) + do_the_blocks/LocalAcceptBlock loop; library mode: NewChainExt default) and must give: no panic, a tip the node knew, UTXO dump == independent replay of that tip's chain, final (tip, dump) after feeding the remaining blocks == the uninterrupted run, and the same again after a clean close + re-open. Plus every record-boundary (and mid-record) truncation of blockchain.new and prefix truncations of blockchain.dat after a clean close. The Lean model (Model/Persist.lean) is tied by (a) point-name sequence == labels of the model's effect list, (b) recovered/final (tip, coin set) at every crash point == model's recover(apply(take k effects))."
}

func (h *Harness) run() {
	r := h.r
	r.Assume = []string{
		"crash = process kill (DESIGN §3): every completed syscall survives, user-space buffers are lost; a directory copy taken inside the vhook callback while every other goroutine is at most one file-system effect ahead stands for that instant",
		"crash points are the vhook.Point calls present in /repo (commit 6570cb3d): between the file-system effects of UnspentDB.save/CommitBlockTxs, BlockDB.writeOne/setBlockFlag, Chain.CommitBlock/UndoLastBlock/MoveToBlock/ParseTillBlock",
		"all blocks have the same difficulty (work = height); scripts are OP_TRUE; UnwindBufLen (2560) is never exceeded",
		"wide workloads: blocks of a branch that is invalid in context are not offered again to the restarted node; the data-file roll-over size is the same in every restart of a workload",
		"the fresh processes that are fed the remaining blocks re-implement the client's recovery from client/main.go (do_the_blocks, LocalAcceptBlock; child.go); the client's OWN functions (do_the_blocks, HandleNetBlock, LocalAcceptBlock, retry_cached_blocks, the blockMined / blockUndone callbacks into txpool) are run by a separate fresh process on a sample of the captures (realclient.go: gocoin's client package built with one driver file added through go build -overlay) and compared with that re-implementation; host_init itself is not called (its genesis hashes are fixed): its chain part is written out in the driver, the rest (config, auth key, wallet, peers db, network, UIs) is not run",
		"one instance at a time: no second process competes for the lock file",
	}
	h.shapes = map[string]int{}
	h.base = buildBase(h.root)
	h.ref = newRef()
	for _, raw := range h.base.Blocks {
		h.ref.add(raw)
	}
	if got := h.ref.dumpHash(h.base.Tip); got == "invalid" {
		fmt.Fprintln(diag, "C07: base chain does not replay")
		os.Exit(3)
	}
	var err error
	h.o, err = vlib.StartOracle("c07")
	if err != nil {
		fmt.Fprintln(diag, "C07: cannot start oracle:", err)
		os.Exit(3)
	}
	defer h.o.Close()
	rcl.start(h.root) // realclient.go: gocoin's client package + the start-up driver, built in the background

	if r.Replay != "" {
		h.replay()
		return
	}

	ws := workloads(r)
	g := r.Rng.Fork()
	for i := 0; i < r.N(3, 14); i++ {
		ws = append(ws, genWorkload(g, i))
	}
	ws = append(ws, wideWorkloads(r, r.Rng.Fork())...)
	ws = append(ws, missWorkloads(r, r.Rng.Fork())...)
	ws = append(ws, miss4Workloads(r, r.Rng.Fork())...)
	ws = append(ws, realClientWorkloads(r, r.Rng.Fork())...)
	exhaustive := true
	// pipeline: phase A of the next workloads runs while the fresh processes of the previous ones are alive (at most pipeDepth
	// workloads in flight: their captured directories are on disk at the same time)
	pend := make(chan *pending, pipeDepth)
	done := make(chan bool)
	go func() {
		for p := range pend {
			if !h.phaseB(p) {
				exhaustive = false
			}
		}
		done <- true
	}()
	for _, w := range ws {
		if o := os.Getenv("C07_ONLY"); o != "" && !onlyMatches(o, w.Name) {
			continue
		}
		pend <- h.phaseA(w, 0, "", "")
	}
	close(pend)
	<-done
	r.Extra["exhaustive"] = exhaustive
	r.Extra["crash_points_enumerated"] = h.nPoint
	r.Extra["fresh_process_reopens"] = h.nChild
	r.Extra["traces_validated_against_impl"] = h.traces
	r.Extra["workload_shapes"] = h.shapes
}

const pipeDepth = 6

func onlyMatches(sel, name string) bool {
	for _, s := range strings.Split(sel, ",") {
		if s == name || (strings.HasSuffix(s, "*") && strings.HasPrefix(name, strings.TrimSuffix(s, "*"))) {
			return true
		}
	}
	return false
}

// One workload is evaluated in two phases so that several workloads are in flight at a time (the fresh processes of workload i
// run while workload i+1 is being driven in this process):
//
//	phase A (main goroutine, one workload at a time: the real chain code runs in-process with process-wide hooks and settings):
//	        run the workload, capture every crash point, look at the captured files BEFORE any child changes them, take the
//	        private copies (library mode, second-crash cases) and START the fresh processes (process-wide pool childSem)
//	phase B (judge goroutine, workloads in their order; the only user of the oracle and the only source of violations / samples,
//	        so that the report does not depend on scheduling): model load + trace tie, judge every report, second-crash cases,
//	        clean restarts, truncations
type job struct {
	hit  Hit
	mode string
	res  *ChildRes
}

type pending struct {
	w                    Workload
	wr                   *WlRun
	only                 int
	onlyMode, onlySecond string
	t0                   time.Time
	tRun                 time.Duration
	early                func() bool // phase A ended early: what phase B has to report
	blocksFile           string
	env                  []string
	modes                []string
	libx                 map[int]string
	libWin               map[int]bool
	lockHad              map[int]bool
	idx                  map[int][]idxRecord // blockchain.new of every capture, read before any child touches it (miss4.go)
	jobs                 []*job
	s2                   []*s2case
	deferred             []func() // violations found in phase A, emitted at the start of phase B
	trunc                *truncSet
	torn                 []*tornJob // torn.go
	clean                *cleanJob
	closed               []*closedJob
	views                map[int]*diskView
	rc                   []*rcJob       // realclient.go: runs of the client's own start-up code
	wg                   sync.WaitGroup // every fresh process started for this workload in phase A
}

// doWorkload runs one workload, enumerates all its crash points (or just `only`), returns true if every
// point of the workload was captured and evaluated.
func (h *Harness) doWorkload(w Workload, only int, onlyMode string, onlySecond string) bool {
	return h.phaseB(h.phaseA(w, only, onlyMode, onlySecond))
}

func (h *Harness) phaseA(w Workload, only int, onlyMode string, onlySecond string) *pending {
	r := h.r
	p := &pending{w: w, only: only, onlyMode: onlyMode, onlySecond: onlySecond, t0: time.Now(), env: childEnvOf(w)}
	wr := runWorkload(h.root, h.base, w, only)
	p.wr = wr
	p.tRun = time.Since(p.t0)
	if os.Getenv("C07_KEEP") != "" {
		fmt.Fprintln(diag, "C07_KEEP:", h.root+"/"+w.Name, wr.Results)
	}
	if os.Getenv("C07_DEBUG") != "" {
		for _, ht := range wr.Hits {
			fmt.Fprintf(diag, "C07_DEBUG hit %d op %d %s#%d\n", ht.N, ht.OpIdx, ht.Name, ht.Idx)
		}
		fmt.Fprintln(diag, "C07_DEBUG results", wr.Results, wr.Err)
	}
	rep := func(hit int, mode string) Case { return Case{Workload: w.Name, Hit: hit, Mode: mode} }
	if wr.Err != "" && wr.RestartDiff != "" {
		p.early = func() bool {
			r.Eval("clean-restart/"+w.Shape, w.Name+"|in-history")
			r.PropFail("clean-restart-differs:"+w.Shape, fmt.Sprintf("workload %s: %s (the chain had been closed cleanly: Chain.Close returned and the lock file was removed)", w.Name, wr.Err),
				map[string]interface{}{"case": rep(0, "closed:none"), "ops": w.Ops, "results": wr.Results})
			return false
		}
		return p
	}
	if wr.Err != "" && wr.RestartPanic != "" {
		p.early = func() bool {
			r.Eval("clean-restart/"+w.Shape, w.Name+"|in-history")
			r.PropFail("clean-restart-fails:"+w.Shape, fmt.Sprintf("workload %s: %s (the chain had been closed cleanly: Chain.Close returned and the lock file was removed)", w.Name, wr.Err),
				map[string]interface{}{"case": rep(0, "closed:none"), "ops": w.Ops, "results": wr.Results})
			return false
		}
		return p
	}
	if wr.Err != "" {
		p.early = func() bool {
			r.TieFail("workload-run:"+w.Name, "the workload could not be run as scripted on the real code: "+wr.Err, map[string]interface{}{"case": rep(0, ""), "results": wr.Results})
			return false
		}
		return p
	}
	if len(wr.Stuck) > 0 {
		p.deferred = append(p.deferred, func() {
			r.TieFail("workload-stuck:"+w.Name, fmt.Sprintf("workload %s made no progress for 8 s while a paced snapshot (writing-time target 1 h) was waiting - an operation that aborts the snapshot in the model waits for it on the real code? stuck at %s; the harness released the snapshot with HurryUp and went on", w.Name, strings.Join(wr.Stuck, ", ")),
				map[string]interface{}{"case": rep(0, ""), "results": wr.Results, "ops": w.Ops})
		})
	}
	if wr.Final == nil {
		p.early = func() bool {
			r.PropFail("workload-panic:"+w.Name, "the uninterrupted run itself failed: "+strings.Join(wr.Results, "; "), map[string]interface{}{"case": rep(0, "")})
			return false
		}
		return p
	}
	for _, raw := range wr.Blocks {
		h.ref.add(raw)
	}
	p.blocksFile = h.root + "/" + w.Name + "/blocks.bin"
	writeBlocksFile(p.blocksFile, feedBlocks(w, wr))

	// ---- every crash point -> fresh process
	p.modes = []string{"client"}
	if r.Thorough() || only != 0 || w.Lib {
		p.modes = append(p.modes, "library")
	}
	h.snapFileTie(p)
	// what the unchanged tail of NewChainExt does with each captured directory, computed from the files BEFORE any child touches them
	p.libx = map[int]string{}
	p.libWin = map[int]bool{}
	p.lockHad = map[int]bool{}
	p.views = map[int]*diskView{}
	p.idx = map[int][]idxRecord{}
	for _, ht := range wr.Hits {
		if replaySelects(ht, only) && !ht.NoCopy {
			dir := fmt.Sprintf("%s/%04d/", wr.Snaps, ht.N)
			v := h.viewOf(dir)
			p.views[ht.N] = v
			p.lockHad[ht.N] = v.lockHas
			if len(p.modes) > 1 {
				p.libx[ht.N] = h.libExpect(v)
				p.libWin[ht.N] = h.undoWindow(dir, v.snap)
			}
			if w.Wide != "bulk" {
				if recs, ok := readIdx(dir + "blockchain.new"); ok {
					p.idx[ht.N] = recs
				}
			}
		}
	}
	for _, ht := range wr.Hits {
		if !replaySelects(ht, only) || ht.NoCopy {
			continue
		}
		for _, m := range p.modes {
			if onlyMode != "" && m != onlyMode {
				continue
			}
			if m == "library" && w.BulkN > maxBlocksToWrite && only == 0 && len(p.jobs)%8 != 1 {
				continue // deep-recovery: library mode at every fourth capture (bulk.go)
			}
			p.jobs = append(p.jobs, &job{hit: ht, mode: m})
		}
	}
	// second-crash cases get their own copies, taken BEFORE any child starts to modify the capture
	p.s2 = h.stage2Select(w, wr, only, onlySecond)
	if onlyMode == "clean" {
		p.s2 = nil // replay of a clean-restart case: only cleanRestart below
	}
	// the library-mode child gets its own copy, taken BEFORE any child starts to modify the capture
	for _, j := range p.jobs {
		if j.mode == "library" {
			copyTree(fmt.Sprintf("%s/%04d/", wr.Snaps, j.hit.N), fmt.Sprintf("%s/%04d-lib/", wr.Snaps, j.hit.N))
		}
	}
	h.rcSelect(p) // realclient.go: private copies for the runs of the client's own start-up code
	// the directories of the later stages of phase B are copied now as well: the children started below change the captures, and
	// the next workload's phase A must not wait for them
	for _, j := range p.jobs {
		p.wg.Add(1)
		go func(j *job) {
			defer p.wg.Done()
			dir := fmt.Sprintf("%s/%04d/", wr.Snaps, j.hit.N)
			if j.mode == "library" {
				dir = fmt.Sprintf("%s/%04d-lib/", wr.Snaps, j.hit.N)
			}
			j.res = runChild(p.env, j.mode, dir, p.blocksFile)
		}(j)
	}
	h.rcStart(p)
	h.stage2Start(p)
	if w.Wide != "" && (only == 0 || onlyMode == "clean") {
		h.cleanStart(p)
	}
	if only == 0 && (onlyMode == "" || strings.HasPrefix(onlyMode, "closed")) {
		h.closedStart(p)
	}
	if only == 0 && w.Wide == "" && (r.Thorough() || r.Replay != "" || w.Name == "extend" || w.Name == "reorg-after-save" || w.Name == "gen0") {
		h.truncStart(p)
		h.tornStart(p)
	}
	return p
}

func (h *Harness) phaseB(p *pending) bool {
	r := h.r
	w, wr, only, onlyMode, onlySecond := p.w, p.wr, p.only, p.onlyMode, p.onlySecond
	if os.Getenv("C07_TIMES") != "" {
		defer func() { fmt.Fprintln(diag, "C07_TIMES", w.Name, "run", p.tRun, "total", time.Since(p.t0)) }()
	}
	if os.Getenv("C07_KEEP") == "" {
		defer os.RemoveAll(h.root + "/" + w.Name)
	}
	if p.early != nil {
		p.wg.Wait()
		return p.early()
	}
	for _, f := range p.deferred {
		f()
	}
	rep := func(hit int, mode string) Case { return Case{Workload: w.Name, Hit: hit, Mode: mode} }
	h.shapes[w.Shape]++
	// the uninterrupted run must itself agree with the independent replay
	if d := h.ref.dumpHash(wr.Final.Tip); d != wr.Final.Dump {
		r.PropFail("uninterrupted-utxo:"+w.Shape, fmt.Sprintf("workload %s: uninterrupted run ends at tip %s with UTXO dump %s, independent replay of that chain gives %s", w.Name, wr.Final.Tip[:16], wr.Final.Dump, d),
			map[string]interface{}{"case": rep(0, ""), "results": wr.Results})
	}
	blocksFile := p.blocksFile
	h.wideCounters(w, wr)
	h.idxTie(p)
	h.closeTie(p)
	// the state before every clean shutdown inside the history (after an operator undo: the block gone back to) and the state the
	// restart came up in are states of the independent replay
	for i, pr := range wr.Restarts {
		for k, st := range pr {
			if st == nil || (k == 1 && pr[0] == pr[1]) {
				continue
			}
			r.Eval("restart-state/"+w.Shape, "")
			if d := h.ref.dumpHash(st.Tip); d != st.Dump {
				r.PropFail("clean-restart-inconsistent:"+w.Shape, fmt.Sprintf("workload %s, clean shutdown #%d inside the history (%s): %s, the independent replay of that block's chain gives dump %s", w.Name, i+1, []string{"state before the shutdown", "state after the restart"}[k], stateStr(st), d),
					map[string]interface{}{"case": rep(0, "closed:none"), "ops": w.Ops})
			}
		}
	}

	// ---- tie (a): point names vs model labels; model queries are answered for this workload until the next load
	modelOK := false
	var mdl *Model
	if w.Model && os.Getenv("C07_NOMODEL") == "" {
		mdl = h.loadModel(w, wr)
		if mdl != nil {
			modelOK = h.compareTrace(w, wr, mdl)
		}
	}
	p.wg.Wait()
	complete := true
	mirrorOK, mirror := map[int]bool{}, map[int]*ChildRes{}
	for _, j := range p.jobs {
		h.nChild++
		if j.mode == "client" {
			h.nPoint++
		}
		kind := w.Shape + "/" + j.mode
		r.Eval(kind, fmt.Sprintf("%s|%s|%d|%s", w.Name, j.hit.Name, j.hit.Idx, j.mode))
		r.Hit("point:" + j.hit.Name)
		// the model's prediction for this crash point is fetched BEFORE the real report is judged: the known finding F8 is only
		// assigned where the model reproduces the observed (wrong) state AND has read an undo file of another block there
		h.curMV = nil
		if j.mode == "client" && modelOK {
			h.curMV = h.askModel(mdl, j.hit, j.res)
		}
		h.curLib = ""
		if j.mode == "library" {
			h.curLib, h.curWin = p.libx[j.hit.N], p.libWin[j.hit.N]
			r.Hit("library-tail-expected:" + h.curLib)
		}
		ok := h.judge(w, wr, j.hit, j.mode, j.res)
		if j.mode == "client" {
			mirrorOK[j.hit.N], mirror[j.hit.N] = ok, j.res
		}
		h.curLib, h.curWin = "", false
		if j.mode == "library" && modelOK {
			h.libTie(w, wr, mdl, j.hit, j.res)
		}
		if j.mode == "client" {
			h.lockTie(w, j.hit, p.lockHad[j.hit.N], j.res)
			h.loadTie(p, j)
		}
		// the model must predict the recovered state ALSO where the property fails (F8: same wrong coin set), and a child
		// that reported no state (panic / died) must be a panic of the model too
		if mv := h.curMV; mv != nil {
			h.curMV = nil
			h.compareModel(w, wr, mdl, j.hit, j.res, ok, mv)
			if !ok {
				r.Hit("model-predicts-failure-state")
			}
		}
		if j.hit.N%17 == 3 && j.mode == "client" {
			r.Sample(map[string]interface{}{"workload": w.Name, "point": j.hit.Name, "hit": j.hit.Idx, "open": j.res.Open, "recovery": j.res.Recovery,
				"reopened_height": hOf(j.res.S1), "recovered_height": hOf(j.res.S2), "final_height": hOf(j.res.S3)})
		}
	}
	h.rcJudge(p, mirrorOK, mirror)
	h.stage2Run(p)
	h.cleanRestart(p)
	h.closedRestarts(p)
	var tm *Model
	if modelOK {
		tm = mdl
	}
	h.truncations(p, tm)
	h.tornJudge(p)
	_, _, _, _ = onlySecond, blocksFile, only, onlyMode
	return complete
}

func hOf(s *State) interface{} {
	if s == nil {
		return nil
	}
	return s.Height
}

// judge evaluates the property's own predicate on one re-open report. Returns true when it holds.
func (h *Harness) judge(w Workload, wr *WlRun, ht Hit, mode string, c *ChildRes) bool {
	return h.judge2(w, wr, ht, mode, c, "")
}

func (h *Harness) judge2(w Workload, wr *WlRun, ht Hit, mode string, c *ChildRes, second string) bool {
	r := h.r
	rep := map[string]interface{}{"case": Case{Workload: w.Name, Hit: ht.N, Mode: mode, Second: second, Point: freePoint(w, ht, second), PIdx: ht.Idx}, "point": ht.Name, "hit_index": ht.Idx, "ops": w.Ops, "child": c, "expected_final": wr.Final}
	where := fmt.Sprintf("workload %s, crash at %s#%d (point %d), %s re-open", w.Name, ht.Name, ht.Idx, ht.N, mode)
	if h.caseOverride != nil {
		rep["case"], where = *h.caseOverride, h.whereOverride
	}
	known := map[string]bool{h.base.Tip: true, h.ref.gen: true}
	for i := 0; i < ht.NSub && i < len(wr.Names); i++ {
		known[wr.Hash[wr.Names[i]]] = true
	}
	for _, raw := range h.base.Blocks {
		bl, _ := btc.NewBlock(raw)
		known[hex.EncodeToString(bl.Hash.Hash[:])] = true
	}
	// shape test for the known finding F8: the loaded snapshot's block is not on the branch recovery moves to
	offBranch := func() bool {
		if c.S1 == nil {
			return false
		}
		x := c.S1.Tip
		if c.S2 != nil && c.S2.Tip != x && !h.ref.isAncestorOrEqual(x, c.S2.Tip) {
			return true
		}
		// highest block known at the crash instant
		best, bh := "", uint32(0)
		for i := 0; i < ht.NSub && i < len(wr.Names); i++ {
			if b := h.ref.blk(wr.Hash[wr.Names[i]]); b != nil && b.height > bh {
				best, bh = b.hash, b.height
			}
		}
		return best != "" && bh > c.S1.Height && !h.ref.isAncestorOrEqual(x, best)
	}
	fail := func(key, what string) bool {
		// ... and only where the unchanged tail of NewChainExt has a strictly higher block to go to that is not a descendant of the
		// snapshot's block (computed from the files of the captured directory, miss3.go libExpect): with nothing higher on disk the
		// tail is a no-op, with every highest block a descendant it walks forward - a panic there is NOT the known finding
		if mode == "library" && h.curLib != "noop" && h.curLib != "parse" && (strings.Contains(c.Open, "unknown path to block") || strings.Contains(c.Open, "end block is not higher then current")) {
			// FindPathTo's own message: the snapshot's block is not an ancestor of the farthest block on disk; when the farthest
			// block is an equal-height leaf of another branch (Go map order decides) ParseTillBlock refuses before FindPathTo does
			r.PropFail(keyLib, "library-mode NewChainExt (DoNotRescan=false) calls ParseTillBlock(farthest) and panics in FindPathTo when the snapshot's block is not an ancestor of the farthest block on disk: "+where+": "+what, rep)
			r.Hit("known:" + keyLib)
			return false
		}
		// F8 needs BOTH: the loaded snapshot is off the branch recovery moves to, AND an undo file of the snapshot's own chain
		// has been rewritten by another block (seen in the captured directory right after NewChainExt). A missing undo file,
		// or a failure while every undo file still belongs to its block, is a different defect.
		// … or the blocks still to be fed lead away from the re-opened block's branch (the uninterrupted run's final tip is not a
		// descendant of it) while an undo file under the re-opened chain already names another block
		offFinal := c.S1 != nil && wr.Final != nil && !h.ref.isAncestorOrEqual(c.S1.Tip, wr.Final.Tip) && len(c.UndoForeign) > 0
		if (offBranch() && (mode == "library" || len(c.UndoForeign) > 0)) || offFinal {
			if mode == "library" && h.curLib != "noop" && h.curLib != "parse" && strings.Contains(c.Open, "unknown path to block") {
				r.PropFail(keyLib, "library-mode NewChainExt (DoNotRescan=false) panics in FindPathTo when the snapshot's block is not an ancestor of the farthest block on disk: "+where+": "+what, rep)
				r.Hit("known:" + keyLib)
				return false
			}
			// the directory has the SHAPE of F8; the finding is assigned only with evidence that the defect is what happened:
			//  * model-compared point: the model predicts exactly the observed states and its ghost flag says that the restart read an
			//    undo file of another block (where the model stops at "unsupported" - DeleteBranch - or equal-height leaves on disk
			//    make the real choice depend on Go's map order, the next criterion decides);
			//  * otherwise: observed on the captured directory - a block the restart has to undo has an undo/<height> file that
			//    names another block.
			// Any other failure inside the window is reported under its own key.
			evidence, why := false, ""
			if mv := h.curMV; mv != nil && mode == "client" && !mv.unsupported && !(mv.ambiguous && !mv.agrees) {
				evidence = mv.agrees && mv.foreign
				why = fmt.Sprintf("the model's prediction for this crash point is %q (agrees with the real states: %v, foreign undo file read: %v)", mv.rep, mv.agrees, mv.foreign)
			} else if mode == "library" {
				// observed on the captured directory BEFORE the library-mode process touched it (its NewChainExt re-applies blocks and
				// rewrites undo files itself), or on the re-opened chain afterwards
				evidence = h.curWin || h.foreignUndoReadTo(c, wr)
				why = "no undo file under the snapshot's block names another block"
			} else {
				evidence = h.foreignUndoReadTo(c, wr)
				why = "no block that the restart has to undo has an undo file naming another block"
			}
			if !evidence {
				r.Hit("f8-shaped-window-but-not-f8")
				r.PropFail(key+":"+w.Shape, where+": "+what+" [the directory has the shape of the known finding "+keyF8+" but "+why+"]", rep)
				return false
			}
			r.PropFail(keyF8, "snapshot on one branch, undo/<height> rewritten by the other branch, crash before the next snapshot: restart undoes blocks with the other branch's undo data (hash in the undo file is skipped, not compared): "+where+": "+what, rep)
			r.Hit("known:" + keyF8)
			return false
		}
		r.PropFail(key+":"+w.Shape, where+": "+what, rep)
		return false
	}
	if c.Open != "ok" {
		return fail("reopen-fails", "re-opening the directory fails: "+c.Open)
	}
	chk := func(s *State, stage string) string {
		if s == nil {
			return stage + ": no state reported"
		}
		if !known[s.Tip] {
			return fmt.Sprintf("%s: tip %s (height %d) is not a block the node had received before the crash", stage, s.Tip[:16], s.Height)
		}
		if d := h.ref.dumpHash(s.Tip); d != s.Dump {
			return fmt.Sprintf("%s: tip %s height %d has UTXO dump %s, replay of that tip's chain gives %s", stage, s.Tip[:16], s.Height, s.Dump, d)
		}
		return ""
	}
	if e := chk(c.S1, "after NewChainExt"); e != "" {
		return fail("reopen-inconsistent", e)
	}
	if c.Cycle != "" {
		return fail("clean-restart-fails", "the re-opened node is shut down cleanly and started again (nothing fed in between): "+c.Cycle)
	}
	if strings.HasPrefix(c.Recovery, "panic") || strings.HasPrefix(c.Recovery, "died") {
		return fail("recovery-panics", "the client's recovery loop fails: "+c.Recovery)
	}
	if e := chk(c.S2, "after recovery"); e != "" {
		return fail("recovery-inconsistent", e)
	}
	if c.S3 == nil {
		return fail("feed-fails", "feeding the remaining blocks did not finish: "+strings.Join(c.Feed, "; "))
	}
	if c.S3.Tip != wr.Final.Tip || c.S3.Dump != wr.Final.Dump {
		return fail("final-differs", fmt.Sprintf("after feeding the remaining blocks: tip %s height %d dump %s; uninterrupted run: tip %s height %d dump %s; feed: %s",
			c.S3.Tip[:16], c.S3.Height, c.S3.Dump, wr.Final.Tip[:16], wr.Final.Height, wr.Final.Dump, strings.Join(c.Feed, "; ")))
	}
	if c.Readable != "" {
		return fail("block-unreadable", "a block of the active chain cannot be read back: "+c.Readable)
	}
	if c.Reopen2 != "ok" || c.S4 == nil {
		return fail("clean-restart-fails", "clean close + re-open fails: "+c.Reopen2)
	}
	if c.S4.Tip != c.S3.Tip || c.S4.Dump != c.S3.Dump {
		return fail("clean-restart-differs", fmt.Sprintf("clean close + re-open: tip %s dump %s, before: tip %s dump %s", c.S4.Tip[:16], c.S4.Dump, c.S3.Tip[:16], c.S3.Dump))
	}
	return true
}

// ------------------------------------------------------------------------------------------ two crashes

// A second-crash case: the directory captured at the first crash point is re-opened by a fresh process that recovers like
// the client, is fed every block of the workload (no snapshot is allowed to start), flushes them, and is "killed" again
// (captures at blockdb.write:idx-written hits and after Idle; thorough: at every point). Each second capture is then
// re-opened by another fresh process and judged with the property's predicate like a single-crash case.
type s2case struct {
	hit   Hit
	trunc bool   // the index lost its last record before the first restart (truncated-index-then-continue)
	all   bool   // the second crash is taken at EVERY point the continuing process reaches
	dir   string // private copy of the first capture
	res   *ChildRes
	idx0  []byte // blockchain.new of the first capture (after the optional cut), read before the restart touches it
	dat0  int64  // length of the current data file at that moment
	datFn string
	// per second capture (by name), filled by the goroutine that ran the stage-2 process BEFORE the third process touches the capture
	capIdx map[string][]byte // blockchain.new of the capture
	capDat map[string]int64  // length of the data file datFn in the capture (-1 = missing)
	third  map[string]*ChildRes
}

// posTie compares the FILE POSITIONS of the real block store with the positional Lean model (Model/PersistPos.lean, oracle op
// `pos`): the directory the first restart starts from holds the index records idx0 and a data file of dat0 bytes (anything
// beyond the indexed data is an orphaned tail); the continuing process stores the blocks whose records follow; at every
// second-crash capture taken right after an index write (or at the end) the fpos of every record and the length of the data
// file must be what the model computes for "open (LoadBlockIndex + Seek), writeOne …".
func (h *Harness) posTie(w Workload, c *s2case, sc SecondCap) {
	r := h.r
	if sc.Point != "blockdb.write:idx-written" && sc.Point != "end" {
		return
	}
	if w.MaxDat != 0 {
		h.rollTie2(w, c, sc) // several data files: Model/PersistRoll.lean
		return
	}
	idx, have := c.capIdx[sc.Name]
	if !have || len(c.idx0)%136 != 0 || len(idx)%136 != 0 || len(idx) < len(c.idx0) {
		r.Hit("pos-tie:skipped")
		return
	}
	stSize := c.capDat[sc.Name]
	if stSize < 0 {
		r.Hit("pos-tie:skipped")
		return
	}
	ids := map[string]int{}
	var toks, real []string
	n0 := len(c.idx0) / 136
	for i := 0; i < len(idx)/136; i++ {
		b := idx[i*136 : i*136+136]
		if i < n0 && string(b[1:]) != string(c.idx0[i*136+1:i*136+136]) {
			r.Hit("pos-tie:skipped")
			return
		}
		if b[0]&0x02 != 0 {
			// a record flagged invalid is not in the node's index: LoadBlockIndex does not count its data when it looks for the end of
			// the indexed data (the bytes are a hole / an orphaned tail that later blocks may overwrite)
			r.Hit("pos-tie:invalid-record-left-out")
			continue
		}
		key := hex.EncodeToString(b[56:136])
		if _, ok := ids[key]; !ok {
			ids[key] = len(ids) + 1
		}
		fpos := binary.LittleEndian.Uint64(b[40:48])
		blen := binary.LittleEndian.Uint32(b[48:52])
		if binary.LittleEndian.Uint32(b[32:36]) != 0 && false {
			continue
		}
		if i < n0 {
			if string(b[1:]) != string(c.idx0[i*136+1:i*136+136]) {
				r.Hit("pos-tie:skipped")
				return
			}
			toks = append(toks, fmt.Sprintf("r:%d:%d:%d", ids[key], fpos, blen))
		} else {
			toks = append(toks, fmt.Sprintf("w:%d:%d", ids[key], blen))
		}
		real = append(real, fmt.Sprintf("%d:%d:%d", ids[key], fpos, blen))
	}
	want := fmt.Sprintf("ok %d 1", stSize)
	if len(real) > 0 {
		want += " " + strings.Join(real, " ")
	}
	got := h.o.MustAsk(fmt.Sprintf("pos 0 %d %s", c.dat0, strings.Join(toks, " ")))
	r.Eval("positions/"+w.Shape, fmt.Sprintf("%s|%s|%d|%s", w.Name, c.hit.Name, c.hit.Idx, sc.Name))
	if got == want {
		r.TieOK()
		if c.dat0 > 0 && n0 > 0 {
			last := c.idx0[(n0-1)*136 : n0*136]
			if int64(binary.LittleEndian.Uint64(last[40:48]))+int64(binary.LittleEndian.Uint32(last[48:52])) < c.dat0 {
				r.Hit("pos-tie:orphaned-data-tail-overwritten")
			}
		}
		return
	}
	pre := ""
	if c.trunc {
		pre = "t"
	}
	r.TieFail("model-positions:"+w.Shape, fmt.Sprintf("workload %s, first crash at %s#%d (index cut: %v), second capture %s: the block store's file positions differ from the positional model: real (data file length, every record reads back, id:fpos:blen…) = %q, model = %q",
		w.Name, c.hit.Name, c.hit.Idx, c.trunc, sc.Name, want, got),
		map[string]interface{}{"case": Case{Workload: w.Name, Hit: c.hit.N, Mode: "client", Second: pre + sc.Name}, "query": toks, "dat0": c.dat0})
}

func (h *Harness) stage2Select(w Workload, wr *WlRun, only int, onlySecond string) (cs []*s2case) {
	r := h.r
	if w.Free || w.Wide == "bulk" || (only != 0 && onlySecond == "") {
		return nil
	}
	quickSet := w.Name == "extend" || w.Name == "reorg-save-extend" || w.Name == "gen0" || w.Wide == "rollover"
	if !r.Thorough() && only == 0 && !quickSet {
		return nil
	}
	idxSeen := 0
	lastPub := -1
	for i, ht := range wr.Hits {
		if ht.Name == "blockdb.write:before-publish" {
			lastPub = i
		}
	}
	for i, ht := range wr.Hits {
		if only != 0 && ht.N != only {
			continue
		}
		take := false
		switch ht.Name {
		case "blockdb.write:dat-written":
			take = true
		case "blockdb.write:idx-written":
			idxSeen++
			take = r.Thorough() || idxSeen == 1 || only != 0 || w.Wide == "rollover"
		case "utxo.save.file:renamed":
			// = the directory a clean shutdown at this block boundary leaves behind (blocks flushed, snapshot complete)
			take = w.Wide == "rollover"
		}
		if take && !strings.HasPrefix(onlySecond, "t") {
			c := &s2case{hit: ht, dir: fmt.Sprintf("%s/%04d-s2/", wr.Snaps, ht.N)}
			if ht.Name == "blockdb.write:dat-written" && (r.Thorough() || r.Replay != "") && !strings.HasPrefix(w.Name, "gen") && (ht.Idx == 1 || only != 0) {
				c.all = true
			}
			if copyTree(fmt.Sprintf("%s/%04d/", wr.Snaps, ht.N), c.dir) == nil {
				c.readStart()
				cs = append(cs, c)
				if w.Wide == "rollover" {
					if n, fi := newestFileBlocks(c.dir); n == 1 && fi > 0 {
						r.Hit("wide:rollover:first-restart-with-exactly-one-block-in-the-newest-data-file")
					} else {
						r.Hit("wide:rollover:first-restart-other")
					}
				}
			}
		}
		if (i == lastPub && only == 0) || (only != 0 && strings.HasPrefix(onlySecond, "t")) {
			c := &s2case{hit: ht, trunc: true, dir: fmt.Sprintf("%s/%04d-s2t/", wr.Snaps, ht.N)}
			if copyTree(fmt.Sprintf("%s/%04d/", wr.Snaps, ht.N), c.dir) == nil {
				if st, err := os.Stat(c.dir + "blockchain.new"); err == nil && st.Size() >= 136 {
					os.Truncate(c.dir+"blockchain.new", st.Size()-st.Size()%136-136)
					c.readStart()
					cs = append(cs, c)
				}
			}
		}
	}
	return
}

func (c *s2case) readStart() {
	c.idx0, _ = os.ReadFile(c.dir + "blockchain.new")
	c.datFn = "blockchain.dat"
	if _, e := os.Stat(c.dir + c.datFn); e != nil {
		c.datFn = "bl00000000.dat"
	}
	if st, e := os.Stat(c.dir + c.datFn); e == nil {
		c.dat0 = st.Size()
	}
}

// stage2Start (phase A): the stage-2 process of every case, and - as soon as it has finished - the third process of each of its captures
func (h *Harness) stage2Start(p *pending) {
	for _, c := range p.s2 {
		c.capIdx, c.capDat, c.third = map[string][]byte{}, map[string]int64{}, map[string]*ChildRes{}
		p.wg.Add(1)
		go func(c *s2case) {
			defer p.wg.Done()
			mode := "stage2"
			if c.all {
				mode = "stage2all"
			}
			c.res = runChild(p.env, mode, c.dir, p.blocksFile)
			pre := ""
			if c.trunc {
				pre = "t"
			}
			var wg sync.WaitGroup
			var mu sync.Mutex
			for _, sc := range c.res.Second {
				capDir := strings.TrimRight(c.dir, "/") + ".s2/" + sc.Name + "/"
				if b, err := os.ReadFile(capDir + "blockchain.new"); err == nil {
					c.capIdx[sc.Name] = b
				}
				c.capDat[sc.Name] = -1
				if st, err := os.Stat(capDir + c.datFn); err == nil {
					c.capDat[sc.Name] = st.Size()
				}
				if p.onlySecond != "" && pre+sc.Name != p.onlySecond {
					continue
				}
				wg.Add(1)
				go func(sc SecondCap, capDir string) {
					defer wg.Done()
					res := runChild(p.env, "client", capDir, p.blocksFile)
					mu.Lock()
					c.third[sc.Name] = res
					mu.Unlock()
				}(sc, capDir)
			}
			wg.Wait()
		}(c)
	}
}

// stage2Run (phase B, after p.wg): position ties and the judgement of every third process
func (h *Harness) stage2Run(p *pending) {
	r := h.r
	w, wr, cs := p.w, p.wr, p.s2
	if len(cs) == 0 {
		return
	}
	type j2 struct {
		c   *s2case
		cap SecondCap
		res *ChildRes
	}
	var jobs []*j2
	for _, c := range cs {
		h.nChild++
		for _, sc := range c.res.Second {
			if res, ok := c.third[sc.Name]; ok {
				jobs = append(jobs, &j2{c: c, cap: sc, res: res})
			}
		}
		if len(c.res.Second) == 0 {
			r.Hit("second-crash:first-restart-did-not-continue")
		}
		for _, sc := range c.res.Second {
			h.posTie(w, c, sc)
		}
	}
	for _, j := range jobs {
		h.nChild++
		first := j.c.hit.Name
		pre := ""
		if j.c.trunc {
			first += "/index-minus-one-record"
			pre = "t"
		}
		name := fmt.Sprintf("%s#%d then %s", first, j.c.hit.Idx, j.cap.Point)
		ph := Hit{N: j.c.hit.N, Name: name, Idx: j.cap.Idx, OpIdx: j.c.hit.OpIdx, NSub: len(wr.Names), SnapOK: j.c.hit.SnapOK}
		r.Eval("second-crash/"+w.Shape, fmt.Sprintf("%s|%s|%d|%s|%d", w.Name, first, j.c.hit.Idx, j.cap.Point, j.cap.Idx))
		r.Hit("second-point:" + j.cap.Point)
		h.judge2(w, wr, ph, "client", j.res, pre+j.cap.Name)
	}
}

// ------------------------------------------------------------------------------------------ truncations

type tj struct {
	file  string
	n     int
	noOld bool // UTXO.db cases: UTXO.old removed as well (nothing to fall back to: the node must start over from genesis)
	res   *ChildRes
	dir   string
}

type truncSet struct {
	jobs    []*tj
	idx     []byte
	nrec    int
	datName string
}

// truncStart (phase A): the cut copies of the cleanly closed directory and their fresh processes
func (h *Harness) truncStart(p *pending) {
	r := h.r
	w, wr, blocksFile := p.w, p.wr, p.blocksFile
	final := wr.Dir // live dir after clean close
	idx, err := os.ReadFile(final + "blockchain.new")
	if err != nil {
		return
	}
	datName := "blockchain.dat" // a fresh directory gets "bl00000000.dat" (dat_fname falls back to it when blockchain.dat does not exist)
	if _, e := os.Stat(final + datName); e != nil {
		datName = "bl00000000.dat"
	}
	dat, _ := os.ReadFile(final + datName)
	nrec := len(idx) / 136
	var jobs []*tj
	first := baseLen - 2
	if r.Thorough() {
		first = 0
	}
	for rec := first; rec <= nrec; rec++ {
		for _, off := range []int{0, 1, 55, 135} {
			n := rec*136 + off
			if n > len(idx) || (off != 0 && (rec == nrec || (!r.Thorough() && rec%2 == 0))) {
				continue
			}
			// thorough: below the base tip every record boundary, the mid-record cuts at every fourth record (the records of the
			// pre-built base chain are all alike: coinbase-only blocks stored by one run)
			if off != 0 && rec < baseLen-4 && rec%4 != 1 {
				continue
			}
			jobs = append(jobs, &tj{file: "blockchain.new", n: n})
		}
	}
	// data file: cut at every block boundary above the base (read from the index) and one byte either side
	for rec := baseLen - 1; rec < nrec; rec++ {
		b := idx[rec*136 : rec*136+136]
		fpos := int(uint64(b[40]) | uint64(b[41])<<8 | uint64(b[42])<<16 | uint64(b[43])<<24)
		blen := int(uint32(b[48]) | uint32(b[49])<<8 | uint32(b[50])<<16 | uint32(b[51])<<24)
		for _, n := range []int{fpos, fpos + 1, fpos + blen - 1} {
			if n >= 0 && n < len(dat) {
				jobs = append(jobs, &tj{file: datName, n: n})
			}
		}
	}
	// snapshot file: UTXO.db cut inside its 48-byte header, right after it, inside / at the end of the record area (power loss or
	// a full disk - save() ignores write errors and renames anyway; outside the process-kill quantifier, but the anchored
	// mechanism "load UTXO.db, else UTXO.old, else start empty" is exactly for this): NewUnspentDb must fall back to UTXO.old
	// and the client's recovery loop must bring the node back to the uninterrupted run's state.
	if st, e := os.Stat(final + "UTXO.db"); e == nil && st.Size() > 48 {
		L := int(st.Size())
		for _, n := range []int{0, 20, 47, 48, 49, 48 + (L-48)/2, L - 10, L - 1} {
			if n >= 0 && n < L {
				jobs = append(jobs, &tj{file: "UTXO.db", n: n})
			}
		}
		jobs = append(jobs, &tj{file: "UTXO.db", n: 20, noOld: true}, &tj{file: "UTXO.db", n: L - 10, noOld: true})
	}
	p.trunc = &truncSet{jobs: jobs, idx: idx, nrec: nrec, datName: datName}
	// a private, settled copy of the closed directory: the live directory is gone when the workload's phase B ends, not before -
	// but the copies below are taken by goroutines that run while later workloads are driven
	sem := make(chan bool, childPar)
	for i, j := range jobs {
		p.wg.Add(1)
		go func(i int, j *tj) {
			defer p.wg.Done()
			sem <- true
			j.dir = fmt.Sprintf("%s/%s/trunc%04d/", h.root, w.Name, i)
			copyTree(final, j.dir)
			if j.file == "UTXO.db" {
				// copyTree hard-links snapshot files: give this copy a file of its own before cutting it
				if b, e := os.ReadFile(final + "UTXO.db"); e == nil {
					os.Remove(j.dir + "UTXO.db")
					os.WriteFile(j.dir+"UTXO.db", b, 0660)
				}
				if j.noOld {
					os.Remove(j.dir + "UTXO.old")
				}
			}
			os.Truncate(j.dir+j.file, int64(j.n))
			<-sem
			j.res = runChildT(p.env, "client", j.dir, blocksFile, truncWatchdog)
			os.RemoveAll(j.dir)
		}(i, j)
	}
}

// truncations (phase B, after p.wg): the judgement of every cut
func (h *Harness) truncations(p *pending, mdl *Model) {
	r := h.r
	w, wr := p.w, p.wr
	if p.trunc == nil {
		return
	}
	jobs, idx, nrec, datName := p.trunc.jobs, p.trunc.idx, p.trunc.nrec, p.trunc.datName
	// index record of the block UTXO.db was written for (the final tip)
	tipRec := -1
	for rec := 0; rec < nrec; rec++ {
		if hex.EncodeToString(btc.NewSha2Hash(idx[rec*136+56 : rec*136+136]).Hash[:]) == wr.Final.Tip {
			tipRec = rec
		}
	}
	for _, j := range jobs {
		h.nChild++
		c := j.res
		kind := "trunc/" + j.file
		r.Eval(kind, fmt.Sprintf("%s|%s|%d", w.Name, j.file, j.n))
		rep := map[string]interface{}{"case": Case{Workload: w.Name, Mode: "client", Trunc: fmt.Sprintf("%s:%d", j.file, j.n)}, "child": c, "expected_final": wr.Final}
		where := fmt.Sprintf("workload %s closed cleanly, %s truncated to %d bytes", w.Name, j.file, j.n)
		if j.noOld {
			kind += "/no-UTXO.old"
			where += ", UTXO.old removed"
			rep["case"] = Case{Workload: w.Name, Mode: "client", Trunc: fmt.Sprintf("%s:%d:noold", j.file, j.n)}
		}
		bad := ""
		switch {
		case c.Open != "ok":
			bad = "re-open fails: " + c.Open
		case strings.HasPrefix(c.Recovery, "panic") || strings.HasPrefix(c.Recovery, "died"):
			bad = "recovery fails: " + c.Recovery
		case c.S3 == nil:
			bad = "feeding the remaining blocks did not finish"
		case c.S3.Tip != wr.Final.Tip || c.S3.Dump != wr.Final.Dump:
			bad = fmt.Sprintf("final state tip %s height %d dump %s differs from the uninterrupted run (height %d dump %s); feed: %s", c.S3.Tip[:16], c.S3.Height, c.S3.Dump, wr.Final.Height, wr.Final.Dump, strings.Join(c.Feed, "; "))
		case c.Readable != "":
			bad = "a block of the active chain cannot be read back: " + c.Readable
		case c.Reopen2 != "ok" || c.S4 == nil || c.S4.Tip != c.S3.Tip || c.S4.Dump != c.S3.Dump:
			bad = "clean close + re-open does not reproduce the state: " + c.Reopen2
		}
		// UTXO.db unreadable = the model's `tearDb` of the final directory (oracle op `torn`): same recovered / final states
		var tmv *modelVerdict
		if j.file == "UTXO.db" && mdl != nil {
			k := mdl.baseLabels + len(wr.Hits)
			no := 0
			if j.noOld {
				no = 1
			}
			tmv = h.askModelQ(mdl, k, fmt.Sprintf("torn %d 1 %d", k, no), c)
			switch {
			case tmv.agrees:
				r.TieOK()
				r.Hit("trunc-UTXO.db:model-torn-agrees")
			case tmv.unsupported && bad != "":
				r.Hit("model-unsupported-in-failure-region")
			case tmv.ambiguous && tmv.real != "panic":
				r.Hit("model-tie-ambiguous")
			default:
				r.TieFail("model-torn:"+w.Shape, fmt.Sprintf("%s: the fresh process gives %s, the model (tearDb + restartFrom) gives %s", where, tmv.real, tmv.rep),
					map[string]interface{}{"case": rep["case"], "tokens": wr.ModelTok, "k": k})
			}
		}
		if bad == "" {
			r.Hit("trunc-ok:" + j.file)
			if j.file == "UTXO.db" && c.S1 != nil {
				switch {
				case c.S1.Tip == wr.Final.Tip:
					r.Hit("trunc-UTXO.db:reopened-at-the-final-tip") // only possible if nothing was cut
				case c.S1.Height == 0:
					r.Hit("trunc-UTXO.db:started-over-from-genesis")
				default:
					r.Hit("trunc-UTXO.db:fell-back-to-UTXO.old")
				}
			}
			continue
		}
		if j.file == "UTXO.db" && strings.HasPrefix(c.Open, "died") {
			// watchdog, or the Go runtime's "all goroutines are asleep" (exit status 2) when the child has no other goroutine
			r.PropFail("snapshot-truncated-reopen-hangs", "NewUnspentDb does not return (watchdog): UTXO.db has an intact header but a short record area, the retry on UTXO.old waits for the map-filler goroutine of the failed attempt: "+where+": "+bad, rep)
			continue
		}
		f8 := false
		if tmv != nil && !tmv.unsupported && !(tmv.ambiguous && !tmv.agrees) {
			f8 = tmv.agrees && tmv.foreign
		} else {
			f8 = h.foreignUndoReadTo(c, wr)
		}
		if j.file == "UTXO.db" && f8 {
			// fall-back to UTXO.old puts the node on the OTHER branch's snapshot: same window as the known finding F8
			r.PropFail(keyF8, "fall-back to UTXO.old (snapshot on one branch), undo/<height> rewritten by the other branch: restart undoes blocks with the other branch's undo data: "+where+": "+bad, rep)
			r.Hit("known:" + keyF8)
			r.Hit("trunc-UTXO.db:fell-back-into-the-F8-window")
			continue
		}
		if j.file == "blockchain.new" && j.n < (tipRec+1)*136 && strings.Contains(c.Open, "Last Block Hash not found") {
			// the snapshot's block lost its index record: cannot arise from a process kill (Chain.Idle writes blocks before
			// it starts a snapshot) but is inside the property's quantifier (prefix truncation of the index)
			r.PropFail(keyTruncIdx, "the index is truncated below the block of UTXO.db: loadBlockIndex panics 'Last Block Hash not found' (no fall-back to UTXO.old / rescan): "+where+": "+bad, rep)
			r.Hit("known:" + keyTruncIdx)
			continue
		}
		if j.file == datName && c.Open == "ok" && (c.Readable != "" || strings.Contains(bad, "EOF")) {
			r.PropFail(keyTruncDat, "index records point past the end of the data file; not detected at open, the block is unreadable later: "+where+": "+bad, rep)
			r.Hit("known:" + keyTruncDat)
			continue
		}
		r.PropFail("truncation:"+j.file, where+": "+bad, rep)
	}
}

// foreignUndoRead: observed on the real directory - the re-opened snapshot's block is not on the chain of the uninterrupted
// run's final tip, so recovery has to undo it, and the undo file of that very height names another block (the file
// UndoBlockTxs will read first). This is the F8 window seen from outside the model.
func (h *Harness) foreignUndoRead(c *ChildRes, wr *WlRun) bool {
	if wr.Final == nil {
		return false
	}
	return h.foreignUndoOnPath(c, wr.Final.Tip)
}

// foreignUndoReadTo: the same towards the block the recovery loop moved to (if it got anywhere) or towards the final tip
func (h *Harness) foreignUndoReadTo(c *ChildRes, wr *WlRun) bool {
	if c.S1 != nil && c.S2 != nil && c.S2.Tip != c.S1.Tip && h.foreignUndoOnPath(c, c.S2.Tip) {
		return true
	}
	return h.foreignUndoRead(c, wr)
}

func (h *Harness) foreignUndoOnPath(c *ChildRes, target string) bool {
	if c.S1 == nil || h.ref.isAncestorOrEqual(c.S1.Tip, target) {
		return false
	}
	// every height from the re-opened tip down to the fork point is undone; UndoForeign lists the heights (of the re-opened
	// chain) whose undo file belongs to another block
	fork := c.S1.Tip
	for !h.ref.isAncestorOrEqual(fork, target) {
		b := h.ref.blk(fork)
		if b == nil {
			return false
		}
		for _, fh := range c.UndoForeign {
			if fh == b.height {
				return true
			}
		}
		fork = b.parent
	}
	return false
}

// ------------------------------------------------------------------------------------------ model tie

type Model struct {
	baseLabels int
	labels     []string
	coinID     map[string]int // outpoint "txid:vout" -> model coin id
	blockID    map[string]int // hash -> model block id
	gen        string         // genesis (model block id 0)
	idBlock    map[int]string
}

// tokens describing a block for the oracle: b:<id>:<parent>:<height>:<spends>:<creates>
func (h *Harness) blockTok(m *Model, raw []byte, next *int) string {
	bl, _ := btc.NewBlock(raw)
	bl.BuildTxList()
	hash := hex.EncodeToString(bl.Hash.Hash[:])
	par := hex.EncodeToString(bl.ParentHash())
	rb := h.ref.blk(hash)
	id := len(m.blockID) + 1
	m.blockID[hash] = id
	m.idBlock[id] = hash
	pid := m.blockID[par] // genesis = 0
	var sp, cr []string
	for i, tx := range bl.Txs {
		if i > 0 {
			for _, in := range tx.TxIn {
				key := fmt.Sprintf("%s:%d", hex.EncodeToString(in.Input.Hash[:]), in.Input.Vout)
				sp = append(sp, fmt.Sprint(m.coinID[key]))
			}
		}
		for vout := range tx.TxOut {
			key := fmt.Sprintf("%s:%d", hex.EncodeToString(tx.Hash.Hash[:]), vout)
			// coin identity = outpoint: the same transaction mined on two branches creates the SAME coins
			if _, seen := m.coinID[key]; !seen {
				*next++
				m.coinID[key] = *next
			}
			cr = append(cr, fmt.Sprint(m.coinID[key]))
		}
	}
	j := func(xs []string) string {
		if len(xs) == 0 {
			return "-"
		}
		return strings.Join(xs, ",")
	}
	return fmt.Sprintf("b:%d:%d:%d:%s:%s", id, pid, rb.height, j(sp), j(cr))
}

// idOf: the model's id of a block; a block the model was never told about is -1 (no oracle reply contains it: a mismatch)
func (m *Model) idOf(hash string) int {
	if id, ok := m.blockID[hash]; ok {
		return id
	}
	if hash == m.gen {
		return 0
	}
	return -1
}

func (h *Harness) loadModel(w Workload, wr *WlRun) *Model {
	r := h.r
	m := &Model{coinID: map[string]int{}, blockID: map[string]int{}, idBlock: map[int]string{}, gen: h.ref.gen}
	next := 0
	var toks []string
	// base: blocks, all submitted, one idle (no snapshot before: skip 0), close == what buildBase did
	toks = append(toks, "k:0")
	for _, raw := range h.base.Blocks {
		toks = append(toks, h.blockTok(m, raw, &next))
		toks = append(toks, fmt.Sprintf("s:%d", len(m.blockID)))
	}
	toks = append(toks, "c", "o") // close, re-open (the workload runs on the re-opened base)
	// big coins: every coin of the two >64 KiB records; the model writes one full chunk per such record
	var bigs []string
	for name, c := range h.base.Coins {
		if strings.HasPrefix(name, "big") && strings.HasSuffix(name, ".0") {
			bigs = append(bigs, fmt.Sprint(m.coinID[fmt.Sprintf("%s:%d", hex.EncodeToString(c.Out.Hash[:]), c.Out.Vout)]))
		}
	}
	sort.Strings(bigs)
	pre := "g:" + strings.Join(bigs, ",")
	rep0 := h.o.MustAsk("load " + pre + " " + strings.Join(toks, " "))
	var nb int
	if _, err := fmt.Sscanf(rep0, "ok %d", &nb); err != nil {
		r.TieFail("model-load:"+w.Shape, "oracle refuses the base history: "+rep0, map[string]interface{}{"case": Case{Workload: w.Name}})
		return nil
	}
	m.baseLabels = nb
	bi := 0
	for _, op := range w.Ops {
		switch op.K {
		case "blk":
			toks = append(toks, h.blockTok(m, wr.Blocks[bi], &next))
			toks = append(toks, fmt.Sprintf("s:%d", m.blockID[wr.Hash[op.Name]]))
			bi++
		case "idle":
			toks = append(toks, "i")
		case "skip":
			toks = append(toks, fmt.Sprintf("k:%d", op.N))
		case "pause":
			toks = append(toks, fmt.Sprintf("p:%d", op.N))
		case "hurry":
			toks = append(toks, "h")
		case "close":
			toks = append(toks, "c")
		}
	}
	wr.ModelTok = toks
	rep1 := h.o.MustAsk("load " + pre + " " + strings.Join(toks, " "))
	var nl int
	if _, err := fmt.Sscanf(rep1, "ok %d", &nl); err != nil {
		r.TieFail("model-load:"+w.Shape, "oracle refuses the workload: "+rep1, map[string]interface{}{"case": Case{Workload: w.Name}, "tokens": toks})
		return nil
	}
	tr := h.o.MustAsk("trace")
	f := strings.Fields(tr)
	if len(f) < 1 || f[0] != "ok" {
		r.TieFail("model-trace:"+w.Shape, "oracle: "+tr, map[string]interface{}{"case": Case{Workload: w.Name}})
		return nil
	}
	m.labels = f[1:]
	// the uninterrupted run of the model: same final state as the real run, and it has read no undo file of another block
	// (= the hypothesis `(run bigs ops).foreign = false` of crash_consistent & co holds for this workload)
	if wr.Final != nil {
		fin := h.o.MustAsk("final")
		want := fmt.Sprintf("ok %d %s 0", m.idOf(wr.Final.Tip), h.coinsToIDs(m, wr.Final))
		if fin == want {
			r.TieOK()
			r.Hit("model-final-agrees-and-run-read-no-foreign-undo")
		} else {
			r.TieFail("model-final:"+w.Shape, fmt.Sprintf("workload %s: the uninterrupted run ends at %s (tip, coins, foreign-undo flag 0), the model's run gives %s", w.Name, want, fin),
				map[string]interface{}{"case": Case{Workload: w.Name}, "tokens": toks})
		}
	}
	return m
}

func (h *Harness) compareTrace(w Workload, wr *WlRun, m *Model) bool {
	r := h.r
	var real []string
	for _, ht := range wr.Hits {
		real = append(real, ht.Name)
	}
	mod := m.labels
	if len(mod) >= m.baseLabels {
		mod = mod[m.baseLabels:]
	}
	h.traces++
	if strings.Join(real, " ") == strings.Join(mod, " ") {
		r.TieOK()
		r.Hit("trace-agrees")
		return true
	}
	i := 0
	for i < len(real) && i < len(mod) && real[i] == mod[i] {
		i++
	}
	get := func(xs []string, i int) string {
		if i < len(xs) {
			return xs[i]
		}
		return "(end)"
	}
	r.TieFail("trace:"+w.Shape, fmt.Sprintf("workload %s: the real code emitted %d points, the model's effect list has %d; first difference at position %d: real %s, model %s",
		w.Name, len(real), len(mod), i, get(real, i), get(mod, i)),
		map[string]interface{}{"case": Case{Workload: w.Name}, "real": real, "model": mod, "ops": w.Ops})
	return false
}

func (h *Harness) coinsToIDs(m *Model, s *State) string {
	var ids []int
	for _, c := range s.Coins {
		id, ok := m.coinID[c]
		if !ok {
			id = -1
		}
		ids = append(ids, id)
	}
	sort.Ints(ids)
	var ss []string
	for _, i := range ids {
		ss = append(ss, fmt.Sprint(i))
	}
	if len(ss) == 0 {
		return "-"
	}
	return strings.Join(ss, ",")
}

// modelVerdict: the oracle's answer to `crash k` set against the real re-open report of the same crash point
type modelVerdict struct {
	k           int
	rep         string // the oracle's reply
	real        string // the real report in the same vocabulary ("panic" when the child reported no state at some stage)
	agrees      bool   // same (tip1, tip2, coins2, tip3, coins3), or both sides panic
	foreign     bool   // the model's ghost flag: the restart read an undo file of another block
	ambiguous   bool   // equal-height leaves on disk: the real code's choice depends on Go map order
	unsupported bool   // the model stopped at a construct it does not contain (DeleteBranch)
}

func (h *Harness) askModel(m *Model, ht Hit, c *ChildRes) *modelVerdict {
	k := m.baseLabels + ht.N
	return h.askModelQ(m, k, fmt.Sprintf("crash %d", k), c)
}

func (h *Harness) askModelQ(m *Model, k int, query string, c *ChildRes) *modelVerdict {
	mv := &modelVerdict{k: k}
	mv.rep = h.o.MustAsk(query)
	// reply: ok <tip1> <tip2> <coins2> <tip3> <coins3> <ambiguous 0|1> <foreign 0|1>   |  panic <what> <foreign 0|1>
	f := strings.Fields(mv.rep)
	mv.unsupported = strings.Contains(mv.rep, "unsupported")
	if len(f) >= 3 && f[0] == "panic" {
		mv.foreign = f[len(f)-1] == "1"
	}
	if c.S1 != nil && c.S2 != nil && c.S3 != nil {
		mv.real = fmt.Sprintf("ok %d %d %s %d %s", m.idOf(c.S1.Tip), m.idOf(c.S2.Tip), h.coinsToIDs(m, c.S2), m.idOf(c.S3.Tip), h.coinsToIDs(m, c.S3))
	} else {
		mv.real = "panic"
	}
	if len(f) == 8 && f[0] == "ok" {
		mv.agrees = strings.Join(f[:6], " ") == mv.real
		mv.ambiguous = f[6] == "1"
		mv.foreign = f[7] == "1"
	} else if len(f) > 0 && f[0] == "panic" && !mv.unsupported {
		mv.agrees = mv.real == "panic"
	}
	return mv
}

func (h *Harness) compareModel(w Workload, wr *WlRun, m *Model, ht Hit, c *ChildRes, propOK bool, mv *modelVerdict) {
	r := h.r
	rep := mv.rep
	if !propOK && mv.unsupported {
		// inside the known-finding region the corrupted UTXO set makes a VALID block fail; DeleteBranch is not modelled
		r.Hit("model-unsupported-in-failure-region")
		return
	}
	if mv.agrees {
		if mv.real == "panic" {
			r.Hit("model-predicts-the-panic")
			r.TieOK()
			return
		}
		// the ghost flag of the model (an undo file of another block was read) is the exclusion hypothesis of the Lean theorem
		// recovered_set_is_replay: wherever the real code's recovered state is wrong, the model must have raised it
		if !propOK && !mv.foreign {
			r.TieFail("model-foreign-flag:"+w.Shape, fmt.Sprintf("workload %s crash point %d (%s#%d): the property fails on the real code and the model predicts the same state, but the model did not read an undo file of another block there (ghost flag 0): the exclusion hypothesis of recovered_set_is_replay does not cover this failure", w.Name, ht.N, ht.Name, ht.Idx),
				map[string]interface{}{"case": Case{Workload: w.Name, Hit: ht.N, Mode: "client"}, "tokens": wr.ModelTok, "k": mv.k})
			return
		}
		if mv.foreign {
			if propOK {
				r.Hit("model-foreign-undo-read-but-harmless")
			} else {
				r.Hit("model-foreign-undo-read-and-property-fails")
			}
		}
		r.TieOK()
		return
	}
	if mv.ambiguous && mv.real != "panic" {
		// equal-work leaves on disk: the real code's choice depends on Go map iteration order
		r.Hit("model-tie-ambiguous")
		return
	}
	what := "real recovery gives " + mv.real
	if mv.real == "panic" {
		what = fmt.Sprintf("the fresh process reported no state at some stage (open %q, recovery %q, fed: %v)", c.Open, c.Recovery, c.S3 != nil)
	}
	r.TieFail("model-recover:"+w.Shape, fmt.Sprintf("workload %s crash point %d (%s#%d): %s, the model gives %s", w.Name, ht.N, ht.Name, ht.Idx, what, rep),
		map[string]interface{}{"case": Case{Workload: w.Name, Hit: ht.N, Mode: "client"}, "tokens": wr.ModelTok, "k": mv.k})
}

// ------------------------------------------------------------------------------------------ replay

func (h *Harness) replay() {
	r := h.r
	b, err := os.ReadFile(r.Replay)
	if err != nil {
		fmt.Fprintln(diag, err)
		os.Exit(3)
	}
	var doc struct {
		Replay struct {
			Case Case `json:"case"`
		} `json:"replay"`
	}
	json.Unmarshal(b, &doc)
	c := doc.Replay.Case
	ws := workloads(r)
	rr := *r
	rr.Tier = "thorough"
	ws = append(ws, workloads(&rr)...)
	g := r.Rng.Fork()
	for i := 0; i < 14; i++ {
		ws = append(ws, genWorkload(g, i))
	}
	ws = append(ws, wideWorkloads(&rr, r.Rng.Fork())...)
	ws = append(ws, missWorkloads(&rr, r.Rng.Fork())...)
	ws = append(ws, miss4Workloads(&rr, r.Rng.Fork())...)
	ws = append(ws, realClientWorkloads(&rr, r.Rng.Fork())...)
	for _, w := range ws {
		if w.Name == c.Workload {
			onlyPoint, onlyPIdx = c.Point, c.PIdx
			if c.Trunc != "" {
				h.doWorkload(w, 0, "", "")
			} else {
				h.doWorkload(w, c.Hit, c.Mode, c.Second)
			}
			return
		}
	}
	fmt.Fprintln(diag, "C07: replay names an unknown workload:", c.Workload)
	os.Exit(3)
}

var _ = chainkit.EasyBits
