package main

// miss3.go — three scenario families that the histories of main.go / wide.go / bulk.go do not reach, and the checks that go
// with them (all judged by the PROPERTY PREDICATE on the real code; the mechanisms are ALSO in the Lean layer: Model/PersistLib,
// PersistLock, PersistLazy + Gen/C07Facts regenerated from the source by go/cmd/gen_c07):
//
//   operator-undo   Chain.UndoLastBlock called DIRECTLY (not through MoveToBlock): the text-UI command `undo`
//                   (client/usif/textui/commands.go) while a paced snapshot is being written (UTXO_WRITING_TIME_TARGET = 1 h:
//                   the writer has sent its first 64 KiB chunk and waits, holding the read locks of the maps it has walked),
//                   while no snapshot is active, and NewChainExt's own `-undo N` loop at start-up. The writer is made to pause
//                   at the BEGINNING of its walk (a record > 64 KiB whose txid starts with a byte < 8), the undone block
//                   removes more whole records than it creates; afterwards the history goes on to a unique best block (the
//                   undone blocks are re-applied through a reorganisation, or a competing branch overtakes them).
//   stale-sibling   blocks that are stored aside because they are NOT higher than the tip (a sibling of the tip with the same
//                   parent, a lower stale branch) are on disk when the node is restarted - after a crash at every point and
//                   after a clean shutdown inside the history. Every capture is re-opened in client mode AND in library mode
//                   (NewChainExt without DoNotRescan: its last step decides whether blocks are re-applied), and the library-mode
//                   process performs further clean Close + NewChainExt cycles on the directory BEFORE anything is fed (Go's map
//                   order decides which of two equally high leaves FindFarthestNode returns - every cycle is a new draw).
//   lock file       the node process holds <datadir>/.lock exactly as the client does (sys.LockDatabaseDir in host_init before
//                   NewChainExt, sys.UnlockDatabaseDir after a clean shutdown): every captured directory contains the file a
//                   killed client leaves behind, and every client-mode fresh process starts with the real LockDatabaseDir.
//
// plus two checks on the captured directories themselves:
//   snapshot-file tie   every UTXO.db / UTXO.old of every capture is parsed independently: the number of records present must be
//                       the header's count and the set of txids must be the replay of the header's block (the model's disk
//                       invariant "a snapshot file is a state the node held" - every_crash_prefix_good, lazy_snapshot_is_start_state)
//   library expectation what the unchanged NewChainExt tail does with a directory is computed from the files (snapshot's block,
//                       index records): no-op / re-apply / off-branch - the known finding library-reopen-off-branch-panics is
//                       assigned only to directories where the snapshot's block is not an ancestor of a strictly higher leaf.

import (
	"encoding/binary"
	"encoding/hex"
	"fmt"
	"os"
	"sort"
	"strings"
	"syscall"
	"time"

	"github.com/piotrnar/gocoin/lib/btc"
	"github.com/piotrnar/gocoin/lib/chain"
	"github.com/piotrnar/gocoin/lib/others/sys"
	"verif/chainkit"
	"verif/vlib"
)

// ------------------------------------------------------------------------------------------ the lock file

var dirLocked bool

// lockDir / unlockDir: the node process of the harness does what client/init.go and client/main.go do around the chain
func lockDir(dir string) {
	if dirLocked {
		unlockDir()
	}
	sys.LockDatabaseDir(dir) // os.Exit(1) when it fails - never the case for a directory that was shut down cleanly
	dirLocked = true
}

func unlockDir() {
	if dirLocked {
		sys.UnlockDatabaseDir()
		dirLocked = false
	}
}

// ------------------------------------------------------------------------------------------ blocks

var bigScript = func() []byte {
	b := make([]byte, 34000)
	for i := range b {
		b[i] = 0x51
	}
	return b
}()

// buildOpTx: the single transaction of a workload block. Big: every output carries the 34000-byte script (two of them make a
// record larger than the 64 KiB save chunk); Low: the first output's value is lowered satoshi by satoshi until the txid starts
// with a byte < 8 (the fee absorbs the difference).
func buildOpTx(op Op, ins []*chainkit.Coin, sum uint64) *btc.Tx {
	for delta := uint64(0); ; delta++ {
		var outs []chainkit.OutSpec
		for o := 0; o < op.NOut; o++ {
			spec := anyone(sum / uint64(op.NOut))
			if op.Big {
				spec.Script = bigScript
			}
			if o == 0 {
				spec.Value -= delta
			}
			outs = append(outs, spec)
		}
		tx := chainkit.BuildTx(2, ins, nil, outs, 0)
		okLow := !op.Low || tx.Hash.Hash[0] < 8
		okHigh := !op.High || tx.Hash.Hash[0] >= 0x40
		if (okLow && okHigh) || op.NOut == 0 || delta > 5000 {
			if os.Getenv("C07_DEBUG") != "" {
				fmt.Fprintf(diag, "C07_DEBUG tx of %s: txid[0]=%02x delta=%d\n", op.Name, tx.Hash.Hash[0], delta)
			}
			return tx
		}
	}
}

func coinbaseFirstByte(raw []byte) byte {
	bl, err := btc.NewBlock(raw)
	if err != nil || bl.BuildTxList() != nil || len(bl.Txs) == 0 {
		return 0xff
	}
	return bl.Txs[0].Hash.Hash[0]
}

// hiCoin resolves the spend names hi1..hi4 (see Op.High); every other name stands for itself
func hiCoin(coins map[string]*chainkit.Coin, name string) string {
	if len(name) != 3 || !strings.HasPrefix(name, "hi") || name[2] < '1' || name[2] > '4' {
		return name
	}
	cand := []string{"cb2", "cb3", "cb4", "cb5"}
	sort.SliceStable(cand, func(i, j int) bool {
		a, b := coins[cand[i]], coins[cand[j]]
		if a == nil || b == nil {
			return b == nil && a != nil
		}
		return a.Out.Hash[0] > b.Out.Hash[0]
	})
	return cand[name[2]-'1']
}

// ------------------------------------------------------------------------------------------ ops

func (x *wideCtx) asyncDo(f func() string) {
	x.install() // so that finish() joins whatever is still running
	ch := make(chan string, 1)
	x.amu.Lock()
	x.async = append(x.async, ch)
	x.amu.Unlock()
	go func() { ch <- f() }()
}

func undoBlocks(ch *chain.Chain, n int) (res string) {
	defer func() {
		if e := recover(); e != nil {
			res = "undo panic: " + fmt.Sprint(e)
		}
	}()
	for i := 0; i < n; i++ {
		ch.UndoLastBlock() // client/usif/textui/commands.go undo_block: exactly this call
	}
	return fmt.Sprintf("undo %d: ok", n)
}

type closedDir struct {
	ClientOnly bool // re-opened by a client-mode fresh process only (library mode re-applies what is on disk above the snapshot by design)
	Reapply    bool // … whose recovery loop is expected to re-apply blocks (blocks undone by the operator are still on disk)
	Dir   string
	Pre   *State
	Label string
	OpIdx int
	NSub  int
}

func (x *wideCtx) missOp(op Op, k **chainkit.Kit) bool {
	s := x.s
	switch op.K {
	case "undo":
		n := op.N
		if n < 1 {
			n = 1
		}
		c := (*k).Ch
		if op.Async {
			x.asyncDo(func() string { return undoBlocks(c, n) })
		} else {
			res := undoBlocks(c, n)
			x.wr.Results = append(x.wr.Results, res)
			if strings.Contains(res, "panic") {
				x.wr.Err = "Chain.UndoLastBlock called directly: " + res
			} else if op.Name != "" {
				if st := stateOf(c); st.Tip != x.wr.Hash[op.Name] {
					x.wr.Err = fmt.Sprintf("Chain.UndoLastBlock x %d: the node is at %s, expected block %s (%s)", n, stateStr(st), op.Name, x.wr.Hash[op.Name][:16])
				}
			}
		}
	case "settle": // the asynchronous operations have returned (or N ms have passed)
		deadline := time.Now().Add(time.Duration(op.N) * time.Millisecond)
		for time.Now().Before(deadline) {
			x.amu.Lock()
			done := true
			for _, ch := range x.async {
				if len(ch) == 0 {
					done = false
				}
			}
			x.amu.Unlock()
			if done {
				break
			}
			time.Sleep(2 * time.Millisecond)
		}
	case "undostart": // `gocoin -undo N`: clean shutdown; NewChainExt undoes N blocks and returns; clean shutdown; client-mode restart
		func() {
			defer func() {
				if e := recover(); e != nil {
					x.wr.Results = append(x.wr.Results, "undostart panic: "+fmt.Sprint(e))
					x.wr.RestartPanic = fmt.Sprint(e)
					x.wr.Err = "clean Close + NewChainExt(UndoBlocks) + Close + NewChainExt inside the history panics: " + fmt.Sprint(e)
				}
			}()
			closeNode := func(c *chain.Chain) {
				c.Close()
				unlockDir()
				s.mu.Lock()
				s.saveAct, s.started = false, s.cnt["utxo.save:begin"]
				s.mu.Unlock()
			}
			pre := stateOf((*k).Ch)
			closeNode((*k).Ch)
			lockDir(x.wr.Dir)
			ku, err := chainkit.New(chainkit.Opts{Dir: x.wr.Dir, KeepDir: true, GenesisTime: genesisTime, BlockDBOpts: blockDBOpts(x.w.MaxDat),
				ChainOpts: &chain.NewChanOpts{UndoBlocks: uint(op.N), DoNotRescan: true}}, vlib.NewRng(7))
			if err != nil {
				panic(err)
			}
			*k = ku
			// the node `gocoin -undo N` shuts down: N blocks below the block it was started at
			und := stateOf(ku.Ch)
			if und.Height+uint32(op.N) != pre.Height || (op.Name != "" && und.Tip != x.wr.Hash[op.Name]) {
				x.wr.RestartDiff = fmt.Sprintf("NewChainExt(UndoBlocks = %d) on the cleanly closed directory (%s) returns at %s, expected block %s", op.N, stateStr(pre), stateStr(und), op.Name)
				x.wr.Err = "-undo N at start-up does not go back N blocks: " + x.wr.RestartDiff
				return
			}
			closeNode(ku.Ch)
			if x.w.CloseCap {
				cd := closedDir{Dir: fmt.Sprintf("%s/%s/closed%d/", filepathDir(x.wr.Snaps), "inhist", len(x.wr.Closed)), Pre: und, Label: "clean-close-after-undo-at-start-up", OpIdx: s.opIdx, NSub: s.nsub, ClientOnly: true, Reapply: true}
				if copyTree(x.wr.Dir, cd.Dir) == nil {
					x.wr.Closed = append(x.wr.Closed, cd)
				}
			}
			// … and the next start (client mode) must come up exactly there: the undo is lasting
			lockDir(x.wr.Dir)
			kc, err := chainkit.New(chainkit.Opts{Dir: x.wr.Dir, KeepDir: true, GenesisTime: genesisTime, BlockDBOpts: blockDBOpts(x.w.MaxDat),
				ChainOpts: &chain.NewChanOpts{DoNotRescan: true}}, vlib.NewRng(7))
			if err != nil {
				panic(err)
			}
			*k = kc
			if !x.restartCheck("client-mode restart after `-undo N` (NewChainExt)", und, stateOf(kc.Ch)) {
				return
			}
			// the client's recovery loop then re-applies the blocks that are still on disk
			if res := clientRecover(kc.Ch); strings.HasPrefix(res, "panic") {
				panic("recovery loop: " + res)
			}
			if st := stateOf(kc.Ch); st.Tip != pre.Tip || st.Dump != pre.Dump {
				x.wr.RestartDiff = fmt.Sprintf("the recovery loop after `-undo %d` + restart gives %s, the blocks on disk lead to %s", op.N, stateStr(st), stateStr(pre))
				x.wr.Err = "recovery after an undo at start-up: " + x.wr.RestartDiff
			}
		}()
	default:
		return false
	}
	return true
}

// ------------------------------------------------------------------------------------------ the workloads

func bigLow(o Op) Op { o.Big, o.Low = true, true; return o }
func high(o Op) Op   { o.High = true; return o }

// operatorUndo: see the head of this file. during = a paced snapshot is waiting after its first chunk when the undo arrives;
// nUndo blocks are undone; cont = "extend" (a child of the undone tip arrives: the undone blocks are re-applied by the
// reorganisation) | "fork" (a branch on the block the node went back to overtakes the undone blocks)
func operatorUndo(name string, during bool, nUndo int, cont string, nSpend int) Workload {
	w := Workload{Name: name, Free: true, Wide: "undo", Shape: "operator-undo"}
	w.Ops = append(w.Ops, skip(0), bigLow(blk("G1", "", 2, "f1")), idle, waitsave)
	spend := []string{"hi1", "hi2", "hi3"}[:nSpend]
	w.Ops = append(w.Ops, high(blk("A1", "G1", 1, spend...)))
	last := "A1"
	if nUndo == 2 {
		w.Ops = append(w.Ops, high(blk("A2", "A1", 1, "A1.0", "hi4")))
		last = "A2"
	}
	if during {
		w.Ops = append(w.Ops, Op{K: "pause", N: 1}, idle, Op{K: "waitchunk"},
			Op{K: "undo", N: nUndo, Async: true}, Op{K: "settle", N: 300}, Op{K: "hurry"}, Op{K: "join"}, waitsave, Op{K: "pause", N: 0})
	} else {
		w.Ops = append(w.Ops, idle, waitsave, Op{K: "undo", N: nUndo})
	}
	w.Ops = append(w.Ops, idle, waitsave)
	switch cont {
	case "extend":
		w.Ops = append(w.Ops, blk("A9", last, 1, "f2"), idle, waitsave)
	case "fork":
		par := "G1"
		for i := 1; i <= nUndo+1; i++ {
			n := fmt.Sprintf("B%d", i)
			b := blk(n, par, 0)
			if i == 1 {
				b = blk(n, par, 2, "cb2", "f3")
			}
			w.Ops = append(w.Ops, b)
			par = n
		}
		w.Ops = append(w.Ops, idle, waitsave)
	}
	w.Ops = append(w.Ops, closeOp)
	return w
}

// undoAtStart: `gocoin -undo N` between two clean shutdowns, then the normal restart re-applies what is on disk
func undoAtStart(name string, n int) Workload {
	w := Workload{Name: name, Free: true, Wide: "undo", Shape: "undo-at-start-up"}
	// A1 .. A<n+1> with a complete snapshot at the top, `-undo n` goes back to A1, then one more block on the top
	w.Ops = append(w.Ops, skip(0), blk("A1", "", 2, "f1"))
	for i := 2; i <= n+1; i++ {
		b := blk(fmt.Sprintf("A%d", i), fmt.Sprintf("A%d", i-1), 0)
		if i == 2 {
			b = blk("A2", "A1", 1, "A1.0", "cb2")
		}
		w.Ops = append(w.Ops, b)
	}
	w.Ops = append(w.Ops, idle, waitsave, Op{K: "undostart", N: n, Name: "A1"},
		blk(fmt.Sprintf("A%d", n+2), fmt.Sprintf("A%d", n+1), 1, "A1.1"), idle, waitsave, closeOp)
	w.CloseCap = true
	return w
}

// staleSibling: see the head of this file. early = the sibling arrives before the snapshot of the tip is taken;
// lower = a stale block on the base tip as well (a leaf two below the tip); restarts = clean Close + NewChainExt inside the
// history while the sibling is the best other leaf (0, 1 or 2 of them); two = a second sibling of the tip
func staleSibling(name string, early, lower, two bool, restarts int) Workload {
	w := Workload{Name: name, Wide: "sibling", Shape: "stale-sibling", Lib: true}
	w.Ops = append(w.Ops, skip(0), blk("A1", "", 2, "f1"), idle, wait)
	if lower {
		w.Ops = append(w.Ops, blk("T1", "base", 1, "f2"))
	}
	sib := []Op{blk("S2", "A1", 1, "A1.1")}
	if two {
		sib = append(sib, blk("R2", "A1", 0))
	}
	if early {
		w.Ops = append(w.Ops, blk("A2", "A1", 1, "A1.0"))
		w.Ops = append(w.Ops, sib...)
		w.Ops = append(w.Ops, idle, wait)
	} else {
		w.Ops = append(w.Ops, blk("A2", "A1", 1, "A1.0"), idle, wait)
		w.Ops = append(w.Ops, sib...)
		w.Ops = append(w.Ops, idle, wait)
	}
	for i := 0; i < restarts; i++ {
		w.Ops = append(w.Ops, restart)
		if i == 0 && restarts > 1 {
			w.Ops = append(w.Ops, idle, wait)
		}
	}
	w.Ops = append(w.Ops, blk("A3", "A2", 1, "f3"), idle, wait, closeOp)
	return w
}

func missWorkloads(r *vlib.Run, g *vlib.Rng) (ws []Workload) {
	ws = append(ws,
		operatorUndo("undo-during-save", true, 1, "extend", 3),
		operatorUndo("undo-idle", false, 1, "fork", 2),
		staleSibling("sibling-restart", false, false, false, 1),
	)
	ws = append(ws, undoAtStart("undo-at-start", 1))
	if r.Thorough() {
		ws = append(ws,
			operatorUndo("undo-during-save-two", true, 2, "fork", 3),
			operatorUndo("undo-idle-two", false, 2, "extend", 3),
			undoAtStart("undo-at-start-two", 2),
			staleSibling("sibling-early-lower", true, true, false, 2),
			staleSibling("sibling-two", false, false, true, 1),
		)
	}
	for i := 0; i < r.N(1, 4); i++ {
		ws = append(ws, operatorUndo(fmt.Sprintf("undo-gen%d", i), g.Chance(3, 4), 1+g.Intn(2), []string{"extend", "fork"}[g.Intn(2)], 2+g.Intn(2)))
		ws = append(ws, staleSibling(fmt.Sprintf("sibling-gen%d", i), g.Bool(), g.Bool(), g.Chance(1, 3), g.Intn(3)))
	}
	return
}

// ------------------------------------------------------------------------------------------ what a directory holds

type diskView struct {
	snap    string          // block of the snapshot NewUnspentDb loads (UTXO.db, else UTXO.old, else genesis)
	idx     map[string]bool // blocks with a valid index record
	lockHas bool
}

func readSnapHeader(fn string) (hash string, height uint32, count uint64, ok bool) {
	f, err := os.Open(fn)
	if err != nil {
		return
	}
	defer f.Close()
	var b [48]byte
	if n, _ := f.Read(b[:]); n != 48 {
		return
	}
	return hex.EncodeToString(b[8:40]), uint32(binary.LittleEndian.Uint64(b[0:8]) & 0x7fffffff), binary.LittleEndian.Uint64(b[40:48]), true
}

func (h *Harness) viewOf(dir string) *diskView {
	v := &diskView{snap: h.ref.gen, idx: map[string]bool{}}
	if hs, _, _, ok := readSnapHeader(dir + "UTXO.db"); ok {
		v.snap = hs
	} else if hs, _, _, ok := readSnapHeader(dir + "UTXO.old"); ok {
		v.snap = hs
	}
	idx, _ := os.ReadFile(dir + "blockchain.new")
	for i := 0; i+136 <= len(idx); i += 136 {
		b := idx[i : i+136]
		if b[0]&0x02 != 0 { // BLOCK_INVALID
			continue
		}
		v.idx[hex.EncodeToString(btc.NewSha2Hash(b[56:136]).Hash[:])] = true
	}
	_, e := os.Stat(dir + ".lock")
	v.lockHas = e == nil
	return v
}

// undoWindow: an undo/<height> file under the block the directory's snapshot names (that block and up to 7 ancestors) carries the
// hash of ANOTHER block: a restart that has to undo these blocks reads another branch's undo data (the window of the known finding
// undo-file-keyed-by-height), seen on the files themselves
func (h *Harness) undoWindow(dir, snap string) bool {
	for b, i := h.ref.blk(snap), 0; b != nil && i < 8; b, i = h.ref.blk(b.parent), i+1 {
		if u, err := os.ReadFile(fmt.Sprint(dir, "undo/", b.height)); err == nil && (len(u) < 32 || hex.EncodeToString(u[:32]) != b.hash) {
			return true
		}
	}
	return false
}

// libExpect: what the tail of NewChainExt (DoNotRescan = false) does with this directory AS THE CODE IS WRITTEN
// ("if end.Height > ch.LastBlock().Height { ParseTillBlock(end) }"):
//
//	noop        no block on disk is higher than the snapshot's block: nothing is re-applied, nothing can panic there
//	parse       every highest block on disk is a descendant of the snapshot's block: ParseTillBlock walks forward
//	off-branch  some highest block on disk is strictly higher and NOT a descendant of the snapshot's block: FindPathTo panics
//	            (known finding library-reopen-off-branch-panics; with several highest leaves Go's map order decides)
//	unknown     the snapshot's block is not one the harness knows
func (h *Harness) libExpect(v *diskView) string {
	var sh uint32
	if v.snap != h.ref.gen {
		b := h.ref.blk(v.snap)
		if b == nil {
			return "unknown"
		}
		sh = b.height
	}
	attached := func(x string) bool {
		for x != h.ref.gen {
			b := h.ref.blk(x)
			if b == nil || !v.idx[x] {
				return false
			}
			x = b.parent
		}
		return true
	}
	var maxH uint32
	var tops []string
	for x := range v.idx {
		b := h.ref.blk(x)
		if b == nil || !attached(x) {
			continue
		}
		if b.height > maxH {
			maxH, tops = b.height, nil
		}
		if b.height == maxH {
			tops = append(tops, x)
		}
	}
	if maxH <= sh {
		return "noop"
	}
	for _, t := range tops {
		if !h.ref.isAncestorOrEqual(v.snap, t) {
			return "off-branch"
		}
	}
	return "parse"
}

// ------------------------------------------------------------------------------------------ snapshot-file tie

type snapFile struct {
	hash   string
	height uint32
	count  uint64
	nrec   uint64
	txids  map[string]bool
	bad    string
}

func parseSnapFile(fn string) *snapFile {
	b, err := os.ReadFile(fn)
	if err != nil || len(b) < 48 {
		return nil
	}
	sf := &snapFile{txids: map[string]bool{}}
	sf.height = uint32(binary.LittleEndian.Uint64(b[0:8]) & 0x7fffffff)
	sf.hash = hex.EncodeToString(b[8:40])
	sf.count = binary.LittleEndian.Uint64(b[40:48])
	off := 48
	for off < len(b) {
		le, n := btc.VLen(b[off:])
		if n <= 0 || off+n+le > len(b) || le < 32 {
			sf.bad = fmt.Sprintf("record %d at offset %d is cut short", sf.nrec, off)
			break
		}
		off += n
		sf.txids[hex.EncodeToString(b[off:off+32])] = true
		off += le
		sf.nrec++
	}
	return sf
}

// snapFileTie: every snapshot file of every capture of the workload is a state the node held (see the head of this file)
func (h *Harness) snapFileTie(p *pending) {
	r := h.r
	w, wr := p.w, p.wr
	seen := map[uint64]bool{}
	for _, ht := range wr.Hits {
		if ht.NoCopy {
			continue
		}
		dir := fmt.Sprintf("%s/%04d/", wr.Snaps, ht.N)
		for _, nm := range []string{"UTXO.db", "UTXO.old"} {
			st, err := os.Stat(dir + nm)
			if err != nil {
				continue
			}
			if sys, ok := st.Sys().(*syscall.Stat_t); ok {
				if seen[sys.Ino] {
					continue
				}
				seen[sys.Ino] = true
			}
			sf := parseSnapFile(dir + nm)
			if sf == nil {
				continue
			}
			what := ""
			want := h.ref.utxoAt(sf.hash)
			switch {
			case sf.bad != "":
				what = sf.bad
			case sf.nrec != sf.count:
				what = fmt.Sprintf("the header announces %d records, the file holds %d", sf.count, sf.nrec)
			case want == nil && sf.hash != h.ref.gen:
				what = "the header names a block the node never had"
			default:
				ids := map[string]bool{}
				for op := range want {
					ids[op[:64]] = true
				}
				var diff []string
				for id := range ids {
					if !sf.txids[id] {
						diff = append(diff, "-"+id[:12])
					}
				}
				for id := range sf.txids {
					if !ids[id] {
						diff = append(diff, "+"+id[:12])
					}
				}
				if len(diff) > 0 {
					sort.Strings(diff)
					what = fmt.Sprintf("its records are not the replay of the header's block (missing -, surplus +): %s", strings.Join(diff, " "))
				}
			}
			r.Hit("snapshot-file-tie:checked")
			if what == "" {
				r.TieOK()
				continue
			}
			msg := fmt.Sprintf("workload %s, directory captured at %s#%d (point %d): %s (header: block %s height %d) is not a state the node held: %s - the model's disk invariant (every_crash_prefix_good, lazy_snapshot_is_start_state) does not hold on the real disk",
				w.Name, ht.Name, ht.Idx, ht.N, nm, sf.hash[:16], sf.height, what)
			cs := Case{Workload: w.Name, Hit: ht.N, Mode: "client", Point: freePoint(w, ht, ""), PIdx: ht.Idx}
			p.deferred = append(p.deferred, func() {
				r.TieFail("snapshot-file:"+w.Shape, msg, map[string]interface{}{"case": cs, "ops": w.Ops})
			})
		}
	}
}

// ------------------------------------------------------------------------------------------ clean shutdown inside the history

type closedJob struct {
	i    int
	cd   closedDir
	mode string
	lx   string
	win  bool
	res  *ChildRes
}

// closedStart (phase A) / closedRestarts (phase B): every directory the node left behind after a clean shutdown INSIDE the history
// (ops restart) is re-opened by fresh processes in client and in library mode: the state must be exactly the one before the
// shutdown, the recovery loop a no-op, and (library mode) further clean Close + NewChainExt cycles keep it.
func (h *Harness) closedStart(p *pending) {
	for i, cd := range p.wr.Closed {
		for _, mode := range []string{"client", "library"} {
			if mode == "library" && cd.ClientOnly {
				continue
			}
			dir := fmt.Sprintf("%s-%s/", strings.TrimRight(cd.Dir, "/"), mode)
			if copyTree(cd.Dir, dir) != nil {
				continue
			}
			v := h.viewOf(dir)
			j := &closedJob{i: i, cd: cd, mode: mode, lx: h.libExpect(v), win: h.undoWindow(dir, v.snap)}
			p.closed = append(p.closed, j)
			p.wg.Add(1)
			go func(j *closedJob, dir string) {
				defer p.wg.Done()
				j.res = runChild(p.env, j.mode, dir, p.blocksFile)
			}(j, dir)
		}
	}
}

func (h *Harness) closedRestarts(p *pending) {
	r := h.r
	w, wr := p.w, p.wr
	for _, j := range p.closed {
		i, cd, mode, lx, c := j.i, j.cd, j.mode, j.lx, j.res
		h.nChild++
		r.Eval("clean-restart/"+w.Shape+"/"+mode, fmt.Sprintf("%s|closed%d|%s", w.Name, i, mode))
		r.Hit("clean-restart-inside-history:library-tail-expected-" + lx)
		ht := Hit{N: 0, Name: cd.Label, Idx: i + 1, OpIdx: cd.OpIdx, NSub: cd.NSub}
		rep := map[string]interface{}{"case": Case{Workload: w.Name, Mode: "closed:" + mode}, "closed_directory": i + 1, "ops": w.Ops, "child": c, "before_shutdown": cd.Pre}
		where := fmt.Sprintf("workload %s: the chain was closed cleanly inside the history (op %d); a fresh process (%s mode) re-opening that directory", w.Name, cd.OpIdx, mode)
		switch {
		case c.Open != "ok":
			r.PropFail("clean-restart-fails:"+w.Shape, where+" fails: "+c.Open, rep)
		case c.S1 == nil || c.S1.Tip != cd.Pre.Tip || c.S1.Dump != cd.Pre.Dump:
			r.PropFail("clean-restart-differs:"+w.Shape, fmt.Sprintf("%s gives %s; before the shutdown: %s", where, stateStr(c.S1), stateStr(cd.Pre)), rep)
		case c.Cycle != "":
			r.PropFail("clean-restart-fails:"+w.Shape, where+" succeeds, but "+c.Cycle, rep)
		case mode == "client" && !cd.Reapply && (c.S2 == nil || c.S2.Tip != c.S1.Tip || c.S2.Dump != c.S1.Dump):
			r.PropFail("clean-restart-recovers:"+w.Shape, fmt.Sprintf("%s: the recovery loop still changes the state: %s -> %s (%s)", where, stateStr(c.S1), stateStr(c.S2), c.Recovery), rep)
		default:
			h.curLib, h.curWin = lx, j.win
			if h.judge2(w, wr, ht, mode, c, "") {
				r.Hit("clean-restart-inside-history:identity-holds/" + mode)
			}
			h.curLib, h.curWin = "", false
		}
	}
}

// ------------------------------------------------------------------------------------------ ties with Model/PersistLib.lean

// libTie: NewChainExt in library mode on the captured directory == the model's libraryOpen (oracle op libopen: openNode + the tail
// with the guard regenerated from the source) - same block and same coin set, or a panic on both sides. Equally high leaves
// (Go's map order decides) and model stops at "unsupported" are skipped.
func (h *Harness) libTie(w Workload, wr *WlRun, m *Model, ht Hit, c *ChildRes) {
	r := h.r
	k := m.baseLabels + ht.N
	rep := h.o.MustAsk(fmt.Sprintf("libopen %d", k))
	f := strings.Fields(rep)
	if len(f) < 3 || strings.Contains(rep, "unsupported") {
		r.Hit("library-tie:model-unsupported")
		return
	}
	if f[len(f)-1] == "1" {
		r.Hit("library-tie:equally-high-leaves")
		return
	}
	real := "panic"
	if c.S1 != nil && c.Open == "ok" {
		real = fmt.Sprintf("ok %d %s", m.idOf(c.S1.Tip), h.coinsToIDs(m, c.S1))
	} else if !strings.HasPrefix(c.Open, "panic") {
		r.Hit("library-tie:child-died")
		return
	}
	model := "panic"
	if f[0] == "ok" && len(f) == 4 {
		model = strings.Join(f[:3], " ")
	}
	if real == model {
		r.TieOK()
		r.Hit("library-tie:agrees:" + strings.Fields(real)[0])
		return
	}
	r.TieFail("model-library-open:"+w.Shape, fmt.Sprintf("workload %s crash point %d (%s#%d): NewChainExt in library mode gives %s (open: %s), the model's libraryOpen gives %s", w.Name, ht.N, ht.Name, ht.Idx, real, c.Open, rep),
		map[string]interface{}{"case": Case{Workload: w.Name, Hit: ht.N, Mode: "library"}, "tokens": wr.ModelTok, "k": k})
}

// lockTie: did the fresh client-mode process get past sys.LockDatabaseDir? == the model's lockStart for the regenerated open mode
func (h *Harness) lockTie(w Workload, ht Hit, fileThere bool, c *ChildRes) {
	r := h.r
	q := "lock 0"
	if fileThere {
		q = "lock 1"
	}
	if h.lockAns == nil {
		h.lockAns = map[string]string{}
	}
	ans, ok := h.lockAns[q]
	if !ok {
		ans = h.o.MustAsk(q)
		h.lockAns[q] = ans
	}
	got := !strings.Contains(c.Open, "sys.LockDatabaseDir")
	want := ans == "ok 1"
	if got == want {
		r.TieOK()
		if fileThere {
			r.Hit("lock-tie:agrees:stale-lock-file-present")
		} else {
			r.Hit("lock-tie:agrees:no-lock-file")
		}
		return
	}
	r.TieFail("model-lock:"+w.Shape, fmt.Sprintf("workload %s crash point %d (%s#%d): .lock present %v, the fresh process got the lock: %v, the model (lockStart with the open mode read from the source) says %s", w.Name, ht.N, ht.Name, ht.Idx, fileThere, got, ans),
		map[string]interface{}{"case": Case{Workload: w.Name, Hit: ht.N, Mode: "client"}})
}
