package main

// miss4.go — round-4 pass: two scenario families that cross dimensions which the earlier families kept apart, and the check
// that every clean shutdown INSIDE a history is followed by a restart into exactly the state before it.
//
//   flag-rewrite     the flag byte of an index record that is ALREADY ON DISK is rewritten (BlockDB.setBlockFlag): a side branch
//                    is stored aside, flushed by Chain.Idle, and only then overtakes the tip - its blocks become trusted one by one
//                    while the reorganisation applies them (BLOCK_TRUSTED), or one of them turns out to be invalid in context and
//                    the rest of the branch is dropped (DeleteBranch: BLOCK_INVALID for the records on disk, removal from the index
//                    for the blocks still queued). Crossed with: one or SEVERAL data files (BlockDBOpts.MaxDataFileSize small: the
//                    rewritten records name data files > 0), further valid blocks stored BEHIND the rewritten / invalidated records,
//                    clean shutdown + restart inside the history (library mode and client mode) followed by more blocks (the
//                    restarted node appends at the position LoadBlockIndex computed and rewrites flags at the ipos it computed) and
//                    a second restart. Every vhook point is a crash point; every fresh process restarts, is fed the remaining
//                    blocks, reads every block of the active chain back, shuts down cleanly and restarts again.
//   close-relation   a clean shutdown (Chain.Close) in every relation between the block in memory and the block of UTXO.db that
//                    equal work allows: the tip is another block of the SAME height as the snapshot's block (blocks undone by the
//                    operator, as many other blocks accepted on the block gone back to), one block higher on another branch (the
//                    same, one more block; or a reorganisation through MoveToBlock while Idle is not allowed to save), each time
//                    followed by a restart inside the history whose state must be the state before the shutdown, then more blocks.
//
// Model side: Model/PersistIdx.lean (index file positions + flag bytes, parametrised by the facts flagRewriteSource,
// invalidRecordAdvances, closeSaveGuard of Gen/C07Facts.lean), Proofs/C07Idx.lean, theorems idx_* / close_* of Props/C07.lean;
// tie: idxTie below (oracle op `idx`) at every captured directory of the flag-rewrite workloads.

import (
	"encoding/binary"
	"encoding/hex"
	"fmt"
	"os"
	"sort"
	"strings"

	"github.com/piotrnar/gocoin/lib/btc"
	"github.com/piotrnar/gocoin/lib/chain"
	"verif/chainkit"
	"verif/vlib"
)

var crestart = Op{K: "crestart"}

// restartCheck: the state the restarted node comes up in must be the state before the clean shutdown
func (x *wideCtx) restartCheck(kind string, pre, post *State) bool {
	if !strings.Contains(kind, "recovery loop") {
		x.wr.Restarts = append(x.wr.Restarts, [2]*State{pre, post})
	}
	if post != nil && post.Tip == pre.Tip && post.Dump == pre.Dump {
		return true
	}
	x.wr.RestartDiff = fmt.Sprintf("%s: before the clean shutdown: %s; after the restart: %s", kind, stateStr(pre), stateStr(post))
	x.wr.Err = "clean shutdown + restart inside the history does not reproduce the state: " + x.wr.RestartDiff
	return false
}

// miss4Op: "crestart" = clean shutdown and restart inside the history THE WAY THE CLIENT DOES IT: Chain.Close, unlock; lock,
// NewChainExt(DoNotRescan), the do_the_blocks recovery loop. The state right after NewChainExt and after the recovery loop must
// both be the state before the shutdown.
func (x *wideCtx) miss4Op(op Op, k **chainkit.Kit) bool {
	s := x.s
	switch op.K {
	case "crestart":
		func() {
			defer func() {
				if e := recover(); e != nil {
					x.wr.Results = append(x.wr.Results, "crestart panic: "+fmt.Sprint(e))
					x.wr.RestartPanic = fmt.Sprint(e)
					x.wr.Err = "clean Close + NewChainExt(DoNotRescan) + recovery loop inside the history panics: " + fmt.Sprint(e)
				}
			}()
			pre := stateOf((*k).Ch)
			(*k).Ch.Close()
			unlockDir()
			s.mu.Lock()
			s.saveAct, s.started = false, s.cnt["utxo.save:begin"]
			opIdx, nsub := s.opIdx, s.nsub
			s.mu.Unlock()
			if x.w.CloseCap {
				cd := closedDir{Dir: fmt.Sprintf("%s/%s/closed%d/", filepathDir(x.wr.Snaps), "inhist", len(x.wr.Closed)), Pre: pre, Label: "clean-close-inside-history", OpIdx: opIdx, NSub: nsub, ClientOnly: true, Reapply: op.Parent != ""}
				if copyTree(x.wr.Dir, cd.Dir) == nil {
					x.wr.Closed = append(x.wr.Closed, cd)
				}
			}
			lockDir(x.wr.Dir)
			kc, err := chainkit.New(chainkit.Opts{Dir: x.wr.Dir, KeepDir: true, GenesisTime: genesisTime, BlockDBOpts: blockDBOpts(x.w.MaxDat),
				ChainOpts: &chain.NewChanOpts{DoNotRescan: true}}, vlib.NewRng(7))
			if err != nil {
				panic(err)
			}
			*k = kc
			post := stateOf(kc.Ch)
			if op.Name != "" && (pre.Tip != x.wr.Hash[op.Name] || post.Tip != x.wr.Hash[op.Name]) {
				x.wr.RestartDiff = fmt.Sprintf("client-mode restart (NewChainExt): before the clean shutdown: %s; after the restart: %s; expected before and after: block %s (%s)", stateStr(pre), stateStr(post), op.Name, x.wr.Hash[op.Name][:16])
				x.wr.Err = "clean shutdown + restart inside the history does not come up at the expected block: " + x.wr.RestartDiff
				return
			}
			if !x.restartCheck("client-mode restart (NewChainExt)", pre, post) {
				return
			}
			if res := clientRecover(kc.Ch); strings.HasPrefix(res, "panic") {
				panic("recovery loop: " + res)
			}
			if op.Parent != "" {
				// blocks undone by the operator are still on disk: the client's recovery loop re-applies them
				if st := stateOf(kc.Ch); st.Tip != x.wr.Hash[op.Parent] {
					x.wr.RestartDiff = fmt.Sprintf("client-mode restart (after the recovery loop): %s, expected block %s (%s)", stateStr(st), op.Parent, x.wr.Hash[op.Parent][:16])
					x.wr.Err = "the recovery loop after a clean restart does not re-apply the blocks on disk: " + x.wr.RestartDiff
				}
				return
			}
			x.restartCheck("client-mode restart (after the recovery loop)", pre, stateOf(kc.Ch))
		}()
	default:
		return false
	}
	return true
}

// ------------------------------------------------------------------------------------------ the workloads

// flagRewrite: main chain A1..Ap with a snapshot; side branch S1..Sp stored aside and FLUSHED; S(p+1) overtakes. invalidAt = 0: the
// reorganisation succeeds (p records on disk become trusted); 1 ≤ invalidAt ≤ p: S<invalidAt> spends an output that does not
// exist - the records S<invalidAt>..Sp on disk are flagged invalid (p+1-invalidAt records), the node returns to Ap. Then pre ≥ 1
// blocks on the active branch (their records lie BEHIND the rewritten ones; snapAfter: a snapshot after the first), rk1 = "" |
// "restart" | "crestart" (clean shutdown + restart in library / client mode), post ≥ 1 further blocks (appended by the restarted
// node at the position its LoadBlockIndex computed), rk2 in front of the last of them.
func flagRewrite(name string, maxDat uint64, p, invalidAt, pre, post int, snapAfter bool, rk1, rk2 string) Workload {
	w := Workload{Name: name, Wide: "flag", Shape: "flag-rewrite-trusted", MaxDat: maxDat}
	if invalidAt > 0 {
		w.Shape = "flag-rewrite-invalid"
	}
	if maxDat != 0 {
		w.Shape += "-several-data-files"
	}
	w.Ops = append(w.Ops, skip(0), blk("A1", "", 2, "f1"))
	for i := 2; i <= p; i++ {
		w.Ops = append(w.Ops, blk(fmt.Sprintf("A%d", i), fmt.Sprintf("A%d", i-1), 0))
	}
	w.Ops = append(w.Ops, idle, wait)
	par := "base"
	for i := 1; i <= p+1; i++ {
		n := fmt.Sprintf("S%d", i)
		b := blk(n, par, 0)
		if i == 1 {
			b = blk(n, par, 1, "f3")
		}
		if i == invalidAt {
			b = blk(n, par, 1, "nx1", "f4")
		}
		if invalidAt > 0 && i >= invalidAt {
			b = bad(b)
		}
		if i == p+1 {
			w.Ops = append(w.Ops, idle) // S1..Sp go to disk (no snapshot: the unspent set has not changed)
		}
		w.Ops = append(w.Ops, b)
		par = n
	}
	last := fmt.Sprintf("S%d", p+1)
	if invalidAt > 0 {
		last = fmt.Sprintf("A%d", p)
	}
	rop := func(k string) {
		switch k {
		case "restart":
			w.Ops = append(w.Ops, restart)
		case "crestart":
			w.Ops = append(w.Ops, crestart)
		}
	}
	for i := 1; i <= pre+post; i++ {
		n := fmt.Sprintf("X%d", i)
		b := blk(n, last, 0)
		if i == 1 {
			b = blk(n, last, 1, "f5")
		}
		if i == pre+post && post > 1 {
			rop(rk2)
		}
		w.Ops = append(w.Ops, b)
		last = n
		if i == 1 && snapAfter {
			w.Ops = append(w.Ops, idle, wait)
		}
		if i == pre {
			rop(rk1)
		}
	}
	w.Ops = append(w.Ops, idle, wait, closeOp)
	return w
}

// closeRelation: snapshot at An (n = 1 | 2), Idle is then kept from saving (skip), and
//
//	kind "undo":  the operator undoes the n blocks, m = n | n+1 other blocks are accepted on the block gone back to
//	kind "reorg": a branch of n+1 blocks overtakes (MoveToBlock)
//
// then the node is shut down cleanly and restarted (rk = "restart": library mode | "crestart": client mode), goes on to a unique
// best block, is shut down and restarted again.
func closeRelation(name, kind string, n, m int, rk string) Workload {
	w := Workload{Name: name, Wide: "closerel", Shape: "close-relation-" + kind}
	w.Ops = append(w.Ops, skip(0), blk("A1", "", 2, "f1"))
	tok := []string{"c:A1"}
	if n == 2 {
		w.Ops = append(w.Ops, blk("A2", "A1", 1, "A1.0"))
		tok = append(tok, "c:A2")
	}
	w.Ops = append(w.Ops, idle, wait, skip(1000000))
	tok = append(tok, "i:0")
	undos := []string{"u:base"}
	if n == 2 {
		undos = []string{"u:A1", "u:base"}
	}
	if kind == "undo" {
		w.Ops = append(w.Ops, Op{K: "undo", N: n})
		tok = append(tok, undos...)
	} else {
		m = n + 1
	}
	par := "base"
	for i := 1; i <= m; i++ {
		c := fmt.Sprintf("C%d", i)
		b := blk(c, par, 0)
		if i == 1 {
			b = blk(c, par, 2, "f3")
		}
		w.Ops = append(w.Ops, b)
		par = c
		if kind == "undo" {
			tok = append(tok, "c:"+c)
		}
	}
	if kind != "undo" { // the reorganisation happens when the last block of the branch arrives
		tok = append(tok, undos...)
		for i := 1; i <= m; i++ {
			tok = append(tok, fmt.Sprintf("c:C%d", i))
		}
	}
	rop := restart
	if rk == "crestart" {
		rop = crestart
	}
	w.Ops = append(w.Ops, rop, skip(0))
	w.Ops = append(w.Ops, blk(fmt.Sprintf("C%d", m+1), par, 1, "C1.0"), idle, wait, rop,
		blk(fmt.Sprintf("C%d", m+2), fmt.Sprintf("C%d", m+1), 0), idle, wait, closeOp)
	w.CloseTok = append(tok, "r", fmt.Sprintf("c:C%d", m+1), "i:0", "r", fmt.Sprintf("c:C%d", m+2), "i:0")
	return w
}

// undoOnly: snapshot at A<na> (complete: the set in memory is clean), the operator undoes n blocks (text-UI `undo`), then - with
// NOTHING committed in between - the node is shut down cleanly: idleKind "none" = at once (Close has to write UTXO.db because
// the set is dirty), "idle" = after an Idle that may save (LastBlockHeight - CurrentHeightOnDisk wraps around in uint32: it
// does), "noidle" = after an Idle under UTXO_SKIP_SAVE_BLOCKS = 2^32-1 (it does not). rk "crestart": the client-mode restart
// must come up at A<na-n> - the undo is lasting -, its recovery loop re-applies the blocks still on disk; "restart": library
// mode re-applies them inside NewChainExt and must come up at A<na>. Then one more block, snapshot, clean shutdown.
func undoOnly(name string, na, n int, idleKind, rk string) Workload {
	w := Workload{Name: name, Wide: "closerel", Shape: "undo-then-clean-shutdown", CloseCap: true}
	w.Ops = append(w.Ops, skip(0), blk("A1", "", 2, "f1"))
	tok := []string{"c:A1"}
	for i := 2; i <= na; i++ {
		w.Ops = append(w.Ops, blk(fmt.Sprintf("A%d", i), fmt.Sprintf("A%d", i-1), 1, fmt.Sprintf("cb%d", i)))
		tok = append(tok, fmt.Sprintf("c:A%d", i))
	}
	w.Ops = append(w.Ops, idle, wait)
	tok = append(tok, "i:0")
	nm := func(i int) string {
		if i == 0 {
			return "base"
		}
		return fmt.Sprintf("A%d", i)
	}
	top, back := nm(na), nm(na-n)
	w.Ops = append(w.Ops, Op{K: "undo", N: n, Name: back})
	for i := na - 1; i >= na-n; i-- {
		tok = append(tok, "u:"+nm(i))
	}
	switch idleKind {
	case "idle":
		w.Ops = append(w.Ops, idle, wait)
		tok = append(tok, "i:0")
	case "noidle":
		w.Ops = append(w.Ops, skip(4294967295), idle, wait, skip(0))
		tok = append(tok, "i:4294967295")
	}
	if rk == "crestart" {
		w.Ops = append(w.Ops, Op{K: "crestart", Name: back, Parent: top})
		tok = append(tok, "r")
		for i := na - n + 1; i <= na; i++ {
			tok = append(tok, "c:"+nm(i)) // re-applied by the recovery loop
		}
		w.CloseTok = tok
	} else {
		w.Ops = append(w.Ops, Op{K: "restart", Name: top})
	}
	w.Ops = append(w.Ops, blk(nm(na+1), top, 1, "f3"), idle, wait, closeOp)
	return w
}

func miss4Workloads(r *vlib.Run, g *vlib.Rng) (ws []Workload) {
	ws = append(ws,
		undoOnly("undo-then-close", 1, 1, "none", "crestart"),
		undoOnly("undo-then-close-lib", 2, 1, "noidle", "restart"),
	)
	if r.Thorough() {
		ws = append(ws,
			undoOnly("undo-two-then-close", 2, 2, "none", "crestart"),
			undoOnly("undo-idle-then-close", 2, 1, "idle", "crestart"),
			undoOnly("undo-noidle-then-close", 3, 2, "noidle", "crestart"),
			undoOnly("undo-two-then-close-lib", 2, 2, "none", "restart"),
		)
	}
	ws = append(ws,
		flagRewrite("flag-invalid", 0, 2, 1, 2, 2, true, "crestart", ""),
		flagRewrite("flag-trusted-files", rollMax, 2, 0, 1, 2, false, "", "restart"),
		closeRelation("close-same-height", "undo", 1, 1, "crestart"),
	)
	if r.Thorough() {
		ws = append(ws,
			flagRewrite("flag-invalid-files", rollMax, 3, 2, 2, 2, false, "restart", "crestart"),
			flagRewrite("flag-trusted", 0, 3, 0, 1, 1, true, "crestart", ""),
			flagRewrite("flag-invalid-late", 420, 2, 2, 1, 2, true, "", "restart"),
			closeRelation("close-same-height-two", "undo", 2, 2, "restart"),
			closeRelation("close-higher-other-branch", "undo", 1, 2, "restart"),
			closeRelation("close-after-reorg", "reorg", 2, 3, "crestart"),
		)
	}
	rks := []string{"", "restart", "crestart"}
	for i := 0; i < r.N(1, 5); i++ {
		p := 2 + g.Intn(2)
		inv := g.Intn(p + 1) // 0 = the branch is valid
		md := uint64(g.Pick(0, 340, 420, 520, 700))
		ws = append(ws, flagRewrite(fmt.Sprintf("flag-gen%d", i), md, p, inv, 1+g.Intn(3), 1+g.Intn(3), g.Bool(), rks[g.Intn(3)], rks[g.Intn(3)]))
		kind := []string{"undo", "undo", "reorg"}[g.Intn(3)]
		n := 1 + g.Intn(2)
		ws = append(ws, closeRelation(fmt.Sprintf("close-gen%d", i), kind, n, n+g.Intn(2), rks[1+g.Intn(2)]))
		if r.Thorough() {
			na := 1 + g.Intn(3)
			ws = append(ws, undoOnly(fmt.Sprintf("undo-close-gen%d", i), na, 1+g.Intn(na), []string{"none", "idle", "noidle"}[g.Intn(3)], rks[1+g.Intn(2)]))
		}
	}
	return
}

// ------------------------------------------------------------------------------------------ tie with Model/PersistIdx.lean

// idxRecord: what the positional index model sees of one 136-byte record
type idxRecord struct {
	flags byte
	file  uint32
	key   string
}

func readIdx(fn string) (recs []idxRecord, ok bool) {
	b, err := os.ReadFile(fn)
	if err != nil {
		return nil, false
	}
	for i := 0; i+136 <= len(b); i += 136 {
		recs = append(recs, idxRecord{flags: b[i], file: binary.LittleEndian.Uint32(b[i+28 : i+32]), key: hex.EncodeToString(b[i+56 : i+136])})
	}
	return recs, true
}

// idxTie (every workload but the bulk ones, every captured directory in hit order): between two consecutive captures the index file changes
// by appended records and by flag bytes that gained bits. The Lean model (oracle op `idx`: Model/PersistIdx.lean with the facts
// regenerated from setBlockFlag / LoadBlockIndex) is given the previous capture's records and the flag rewrites / appends seen
// since, and must arrive at the flag bytes of this capture - in particular no record may LOSE a bit (the data-file bit BLOCK_INDEX
// and its file number, the length / compression bits), and after a load of that index the model's ipos of every valid record and
// its append position must be the real positions (136 * record number, file length).
func (h *Harness) idxTie(p *pending) {
	r := h.r
	w, wr := p.w, p.wr
	var prev []idxRecord
	have := false
	for _, ht := range wr.Hits {
		if ht.NoCopy || !replaySelects(ht, p.only) {
			continue
		}
		cur, ok := p.idx[ht.N]
		if !ok {
			continue
		}
		if !have {
			prev, have = cur, true
			continue
		}
		if len(cur) == len(prev) {
			same := true
			for i := range cur {
				if cur[i] != prev[i] {
					same = false
					break
				}
			}
			if same {
				continue // nothing happened to the index between the two captures
			}
		}
		// tokens: every record of the previous capture "r:<flags>:<file>", then per change "f:<recno>:<bits gained>" / "a:<flags>:<file>"
		var toks, want []string
		bad := ""
		for i, rec := range prev {
			toks = append(toks, fmt.Sprintf("r:%d:%d", rec.flags, rec.file))
			if i >= len(cur) {
				bad = fmt.Sprintf("record %d disappeared", i)
				continue
			}
			c := cur[i]
			if c.key != rec.key {
				bad = fmt.Sprintf("record %d (at byte %d) now holds the header of another block", i, i*136)
			}
		}
		if len(cur) < len(prev) {
			bad = fmt.Sprintf("the index shrank from %d to %d records", len(prev), len(cur))
		}
		if bad == "" {
			for i, rec := range prev {
				c := cur[i]
				if c.flags != rec.flags || c.file != rec.file {
					gained := c.flags &^ rec.flags
					toks = append(toks, fmt.Sprintf("f:%d:%d", i, gained))
				}
			}
			for i := len(prev); i < len(cur); i++ {
				toks = append(toks, fmt.Sprintf("a:%d:%d", cur[i].flags, cur[i].file))
			}
			for _, c := range cur {
				want = append(want, fmt.Sprintf("%d:%d", c.flags, c.file))
			}
		}
		r.Eval("idx-tie/"+w.Shape, "")
		cs := Case{Workload: w.Name} // the replay runs the whole workload: the tie compares consecutive captures
		if bad != "" {
			r.TieFail("model-index:"+w.Shape, fmt.Sprintf("workload %s, directory captured at %s#%d (point %d): blockchain.new is not the previous capture's index plus appended records and flag bits: %s", w.Name, ht.Name, ht.Idx, ht.N, bad),
				map[string]interface{}{"case": cs, "ops": w.Ops})
			prev = cur
			continue
		}
		got := h.o.MustAsk("idx " + strings.Join(toks, " "))
		// reply: ok <append position> <flags:file of every record> | <ipos of every valid record>
		exp := fmt.Sprintf("ok %d %s |", len(cur)*136, strings.Join(want, " "))
		for i, c := range cur {
			if c.flags&0x02 == 0 {
				exp += fmt.Sprintf(" %d", i*136)
			}
		}
		if got == exp {
			r.TieOK()
			if len(toks) > len(prev) {
				r.Hit("idx-tie:agrees:index-changed")
			}
		} else {
			r.TieFail("model-index:"+w.Shape, fmt.Sprintf("workload %s, directory captured at %s#%d (point %d): flag bytes / data-file numbers of blockchain.new and the positions a load of it must compute (append position, ipos of the valid records) = %q, the index model (flag rewrite ORs into the byte on disk; every record read advances the position) gives %q",
				w.Name, ht.Name, ht.Idx, ht.N, exp, got), map[string]interface{}{"case": cs, "ops": w.Ops, "query": toks})
		}
		prev = cur
	}
}

// loadTie (every client-mode fresh process of every workload except the bulk ones): what the REAL BlockDB.LoadBlockIndex computed
// at the first open of the captured directory - the append position of blockchain.new and the (ipos, data file) of every block
// of its index (lib/chain/verif_export_c07.go) - set against the file itself (complete 136-byte records; a record flagged invalid
// is not in the index but occupies its 136 bytes; the last valid record of a block wins) and against the Lean model's load of the
// same records (oracle op `idx` without changes; theorem idx_load_positions_exact says the model's load returns exactly these
// positions).
func (h *Harness) loadTie(p *pending, j *job) {
	recs, ok := p.idx[j.hit.N]
	if !ok {
		return
	}
	if j.res.Open == "ok" && j.res.IdxRecs == nil {
		h.r.TieFail("load-positions-missing:"+p.w.Shape, fmt.Sprintf("workload %s, directory captured at %s#%d (point %d): the fresh process re-opened the directory but did not report what LoadBlockIndex computed", p.w.Name, j.hit.Name, j.hit.Idx, j.hit.N),
			map[string]interface{}{"case": Case{Workload: p.w.Name, Hit: j.hit.N, Mode: "client", Point: freePoint(p.w, j.hit, ""), PIdx: j.hit.Idx}})
		return
	}
	if j.res.Open != "ok" {
		return
	}
	cs := Case{Workload: p.w.Name, Hit: j.hit.N, Mode: "client", Point: freePoint(p.w, j.hit, ""), PIdx: j.hit.Idx}
	h.loadTieRecs(p.w, cs, fmt.Sprintf("directory captured at %s#%d (point %d)", j.hit.Name, j.hit.Idx, j.hit.N), recs, j.res)
}

// loadTieRecs: recs = the COMPLETE 136-byte records of the blockchain.new the process c opened (a torn tail is not among them)
func (h *Harness) loadTieRecs(w Workload, cs Case, where string, recs []idxRecord, c *ChildRes) {
	r := h.r
	want := map[string]string{}
	var toks, ipos []string
	for i, rec := range recs {
		toks = append(toks, fmt.Sprintf("r:%d:%d", rec.flags, rec.file))
		if rec.flags&0x02 != 0 {
			continue
		}
		ipos = append(ipos, fmt.Sprint(i*136))
		hdr, _ := hex.DecodeString(rec.key)
		bidx := btc.NewSha2Hash(hdr).BIdx()
		file := uint32(0)
		if rec.flags&0x20 != 0 {
			file = rec.file
		}
		want[hex.EncodeToString(bidx[:])] = fmt.Sprintf("%d:%d", i*136, file)
	}
	var diff []string
	got := map[string]string{}
	for _, s := range c.IdxRecs {
		if k := strings.IndexByte(s, ':'); k > 0 {
			got[s[:k]] = s[k+1:]
		}
	}
	for k, v := range want {
		if got[k] != v {
			diff = append(diff, fmt.Sprintf("block %s: record at %s (ipos:data file), the node holds %q", k, v, got[k]))
		}
	}
	for k, v := range got {
		if _, ok := want[k]; !ok {
			diff = append(diff, fmt.Sprintf("block %s: no valid record in the file, the node holds %s", k, v))
		}
	}
	if c.IdxPos != int64(len(recs)*136) {
		diff = append(diff, fmt.Sprintf("append position %d, the file holds %d complete records = %d bytes", c.IdxPos, len(recs), len(recs)*136))
	}
	if c.IdxHnd != int64(len(recs)*136) {
		// BlockDB.writeOne appends with blockindx.Write: the record lands at the HANDLE's offset, whatever maxidxfilepos says
		diff = append(diff, fmt.Sprintf("the handle blockchain.new is appended through stands at byte %d after the load, the file holds %d complete records = %d bytes (the next record would not start on a record boundary / would not follow the last complete record)", c.IdxHnd, len(recs), len(recs)*136))
	}
	r.Eval("load-positions/"+w.Shape, "")
	if len(diff) > 0 {
		sort.Strings(diff)
		if len(diff) > 6 {
			diff = append(diff[:6], fmt.Sprintf("… %d more", len(diff)-6))
		}
		r.TieFail("load-positions:"+w.Shape, fmt.Sprintf("workload %s, %s: the positions BlockDB.LoadBlockIndex computed are not the positions of the records in blockchain.new (the next block is appended / the next flag is rewritten at them): %s",
			w.Name, where, strings.Join(diff, "; ")), map[string]interface{}{"case": cs, "ops": w.Ops})
		return
	}
	// the model's load of the same records
	key := strings.Join(toks, " ")
	if h.idxAns == nil {
		h.idxAns = map[string]string{}
	}
	ans, seen := h.idxAns[key]
	if !seen {
		ans = h.o.MustAsk("idx " + key)
		if len(h.idxAns) < 4096 {
			h.idxAns[key] = ans
		}
	}
	f := strings.SplitN(ans, "|", 2)
	exp := fmt.Sprintf("ok %d", len(recs)*136)
	if len(f) == 2 && strings.HasPrefix(f[0], exp+" ") && strings.Join(strings.Fields(f[1]), " ") == strings.Join(ipos, " ") {
		r.TieOK()
		r.Hit("load-positions-tie:agrees")
		return
	}
	r.TieFail("model-index-load:"+w.Shape, fmt.Sprintf("workload %s, %s: LoadBlockIndex computed append position %d and the record positions [%s]; the index model's load gives %q",
		w.Name, where, c.IdxPos, strings.Join(ipos, " "), ans), map[string]interface{}{"case": cs, "query": toks})
}

// closeTie (close-relation workloads): the block and height the node had before every clean shutdown inside the history and
// right after the restart == the model of what Close leaves in UTXO.db (oracle op closeg: Model/PersistIdx.lean cstep /
// restartPairs with the guard regenerated from UnspentDB.Close; theorem close_restart_identity_model)
func (h *Harness) closeTie(p *pending) {
	r := h.r
	w, wr := p.w, p.wr
	if len(w.CloseTok) == 0 || len(wr.Restarts) == 0 {
		return
	}
	ids := map[string]int{"base": 0}
	byHash := map[string]int{h.base.Tip: 0}
	for i, n := range wr.Names {
		ids[n] = i + 1
		byHash[wr.Hash[n]] = i + 1
	}
	var toks []string
	for _, t := range w.CloseTok {
		if k := strings.IndexByte(t, ':'); k > 0 && (t[0] == 'c' || t[0] == 'u') {
			id, ok := ids[t[k+1:]]
			if !ok {
				r.TieFail("model-close-unmapped:"+w.Shape, fmt.Sprintf("workload %s: the close history names block %q which the run did not build", w.Name, t[k+1:]), map[string]interface{}{"case": Case{Workload: w.Name, Mode: "closed:none"}})
				return
			}
			t = fmt.Sprintf("%s:%d", t[:k], id)
		}
		toks = append(toks, t)
	}
	var real []string
	for _, pr := range wr.Restarts {
		a, ok1 := byHash[pr[0].Tip]
		b, ok2 := byHash[pr[1].Tip]
		if !ok1 || !ok2 {
			r.TieFail("model-close-unmapped:"+w.Shape, fmt.Sprintf("workload %s: a clean shutdown inside the history was taken / came up at a block the workload does not know (before: %s, after: %s)", w.Name, stateStr(pr[0]), stateStr(pr[1])), map[string]interface{}{"case": Case{Workload: w.Name, Mode: "closed:none"}})
			return
		}
		real = append(real, fmt.Sprintf("%d:%d:%d:%d", a, pr[0].Height, b, pr[1].Height))
	}
	want := "ok " + strings.Join(real, " ")
	got := h.o.MustAsk(fmt.Sprintf("closeg 0 %d %s", baseLen, strings.Join(toks, " ")))
	r.Eval("close-tie/"+w.Shape, w.Name)
	if got == want {
		r.TieOK()
		r.Hit("close-tie:agrees")
		return
	}
	r.TieFail("model-close:"+w.Shape, fmt.Sprintf("workload %s: (block, height) before every clean shutdown inside the history and after the restart = %q, the model of UnspentDB.Close (guard read from the source) gives %q", w.Name, want, got),
		map[string]interface{}{"case": Case{Workload: w.Name, Mode: "closed:none"}, "query": toks})
}
