package main

// config.go — second group of source facts of gen_c03: the CONFIGURATION of the observables.
//
// Which signer btc.EcdsaSign is and which verifier the three verify observables are is selected by the
// exported package-level variables of lib/btc/ecdsa.go (today: EcdsaSignWithRFC6979, EC_Verify,
// Schnorr_Verify, Check_PayToContract). The model and every theorem of C03 treat them as set once by the
// application and never touched by the library: `ecdsaSignRfc` IS EcdsaSign when the switch is on, for the
// whole life of the process. That is a fact about the source, not about any single call, so it is
// regenerated here: every function of lib/ (all packages, non-test files) that WRITES one of those
// variables — assignment (any operator), `range` assigning to it, ++/--, or taking its address.
// Expected: none (wallet/main.go and client/speedups, the applications, are the only writers).
// A library function that toggles the switch — even if it restores it on the success path — makes the
// signer of a later call depend on the history of calls; the harness looks for the failing history (op hist).
//
// Extracted by syntax: the variables = exported names of top-level `var` declarations of lib/btc/ecdsa.go;
// the signer switch = the one of them that func EcdsaSign tests in an `if` (exit 2 when there is none: the
// shape the model was written for is gone). Inside package btc a write is to the bare identifier, in other
// packages to <import name of lib/btc>.<name>.

import (
	"fmt"
	"go/ast"
	"go/parser"
	"go/token"
	"os"
	"path/filepath"
	"sort"
	"strconv"
	"strings"

	"verif/vtrans"
)

func configFacts() (lean string, nfacts int, summary string) {
	f, err := vtrans.Parse("lib/btc/ecdsa.go")
	if err != nil {
		die("%v", err)
	}
	vars := map[string]bool{}
	for _, d := range f.AST.Decls {
		gd, ok := d.(*ast.GenDecl)
		if !ok || gd.Tok != token.VAR {
			continue
		}
		for _, sp := range gd.Specs {
			for _, nm := range sp.(*ast.ValueSpec).Names {
				if nm.IsExported() {
					vars[nm.Name] = true
				}
			}
		}
	}
	fd, err := f.Func("", "EcdsaSign")
	if err != nil || fd.Body == nil {
		die("func EcdsaSign not found in lib/btc/ecdsa.go: %v", err)
	}
	sw := ""
	ast.Inspect(fd.Body, func(n ast.Node) bool {
		is, ok := n.(*ast.IfStmt)
		if !ok || sw != "" {
			return true
		}
		c := is.Cond
		if u, ok := c.(*ast.UnaryExpr); ok && u.Op == token.NOT {
			c = u.X
		}
		if p, ok := c.(*ast.ParenExpr); ok {
			c = p.X
		}
		if id, ok := c.(*ast.Ident); ok && vars[id.Name] {
			sw = id.Name
		}
		return true
	})
	if sw == "" {
		die("EcdsaSign no longer selects the nonce scheme by testing an exported package-level variable of lib/btc/ecdsa.go: the shape the model ('one switch, set by the application') was written for is gone")
	}

	root := vtrans.RepoRoot()
	writers := map[string]bool{}
	nfiles := 0
	werr := filepath.Walk(root+"/lib", func(p string, info os.FileInfo, err error) error {
		if err != nil {
			return err
		}
		if info.IsDir() || !strings.HasSuffix(p, ".go") || strings.HasSuffix(p, "_test.go") {
			return nil
		}
		fset := token.NewFileSet()
		af, perr := parser.ParseFile(fset, p, nil, 0)
		if perr != nil {
			return perr
		}
		nfiles++
		rel, _ := filepath.Rel(root, p)
		inBtc := filepath.ToSlash(filepath.Dir(rel)) == "lib/btc"
		btcName := ""
		for _, im := range af.Imports {
			if path, _ := strconv.Unquote(im.Path.Value); strings.HasSuffix(path, "/lib/btc") {
				btcName = "btc"
				if im.Name != nil {
					btcName = im.Name.Name
				}
			}
		}
		if !inBtc && btcName == "" {
			return nil
		}
		target := func(e ast.Expr) string {
			for {
				if pe, ok := e.(*ast.ParenExpr); ok {
					e = pe.X
					continue
				}
				break
			}
			if inBtc {
				if id, ok := e.(*ast.Ident); ok && vars[id.Name] {
					return id.Name
				}
			}
			if se, ok := e.(*ast.SelectorExpr); ok && vars[se.Sel.Name] {
				if x, ok := se.X.(*ast.Ident); ok && x.Name == btcName {
					return se.Sel.Name
				}
			}
			return ""
		}
		for _, d := range af.Decls {
			fn, ok := d.(*ast.FuncDecl)
			where := filepath.ToSlash(filepath.Dir(rel)) + ":<init>"
			var body ast.Node = d
			if ok {
				if fn.Body == nil {
					continue
				}
				where = filepath.ToSlash(filepath.Dir(rel)) + ":" + fn.Name.Name
				body = fn.Body
			} else if gd, isGen := d.(*ast.GenDecl); !isGen || gd.Tok != token.VAR {
				continue
			}
			note := func(e ast.Expr, how string) {
				if t := target(e); t != "" {
					writers[where+" "+how+" "+t] = true
				}
			}
			ast.Inspect(body, func(n ast.Node) bool {
				switch v := n.(type) {
				case *ast.AssignStmt:
					if v.Tok != token.DEFINE {
						for _, l := range v.Lhs {
							note(l, "assigns")
						}
					}
				case *ast.RangeStmt:
					if v.Tok == token.ASSIGN {
						if v.Key != nil {
							note(v.Key, "range-assigns")
						}
						if v.Value != nil {
							note(v.Value, "range-assigns")
						}
					}
				case *ast.IncDecStmt:
					note(v.X, "assigns")
				case *ast.UnaryExpr:
					if v.Op == token.AND {
						note(v.X, "takes-address-of")
					}
				}
				return true
			})
		}
		return nil
	})
	if werr != nil {
		die("cannot scan lib/ for writers of the configuration variables: %v", werr)
	}
	if nfiles < 50 {
		die("only %d Go files found under lib/: the scan for writers of the configuration variables is not looking at the library", nfiles)
	}
	var vl, wl []string
	for v := range vars {
		vl = append(vl, v)
	}
	for w := range writers {
		wl = append(wl, w)
	}
	sort.Strings(vl)
	sort.Strings(wl)
	q := func(xs []string) string {
		o := make([]string, len(xs))
		for i, s := range xs {
			o[i] = fmt.Sprintf("%q", s)
		}
		return "[" + strings.Join(o, ", ") + "]"
	}
	var sb strings.Builder
	sb.WriteString("/-- exported package-level variables of lib/btc/ecdsa.go: the configuration of signer and verifiers -/\n")
	sb.WriteString("def configVars : List String := " + q(vl) + "\n\n")
	sb.WriteString("/-- the one of them that `EcdsaSign` tests to select the nonce scheme -/\n")
	sb.WriteString(fmt.Sprintf("def signerSwitch : String := %q\n\n", sw))
	sb.WriteString("/-- every function of lib/ (non-test files) that writes one of them: \"<dir>:<func> <how> <variable>\" -/\n")
	sb.WriteString("def configWriters : List String := " + q(wl) + "\n\n")
	return sb.String(), 3, fmt.Sprintf("config vars %v switch %s library writers %v (%d files scanned)", vl, sw, wl, nfiles)
}
