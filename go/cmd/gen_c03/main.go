// gen_c03 regenerates lean/GocoinV/Gen/C03Facts.lean from /repo/lib/secp256k1/schnorr.go (translator part of
// the C03 tie). The C03 model is hand-written and tied to the code by the differential harness go/cmd/c03;
// this generator pins the ONE structural fact of the acceptance predicates that no input can discriminate on
// the real function (audit 2, item 3b):
//
//	BIP340 "fail if r >= p" is implemented in secp256k1.SchnorrVerify only implicitly — the signature's
//	first 32 bytes are loaded into a Field with SetB32 (raw limbs, NOT reduced mod p) and compared with the
//	NORMALISED x(R) by Field.Equals, so a value r = x(R) + p can never compare equal. An edit that
//	normalises that Field (or compares through anything else than Equals) would accept r = x(R) + p; such
//	a signature needs a nonce point with x(R) < 2^32 + 977 whose key satisfies a hash equation, so no test
//	input for the real btc.SchnorrVerify exists (the harness reaches the case only through a hand-made
//	re-assembly of SchnorrVerify's steps with an injected challenge, class schnorre/*-r-plus-p).
//
// Extracted (by syntax, names are not fixed): in func SchnorrVerify(pkey, sig, msg), every local V that
// receives V.SetB32(<2nd parameter>[:32]); for each such V the set of ways it is used afterwards: "SetB32"
// (that load), "Equals" (receiver or &V argument of a method named Equals), "M:<name>" for any other method
// called on V, "A:<callee>" for &V / V passed to any other call, "other" for any other occurrence.
// Alpha-renaming, moving the load, regrouping declarations leave the fact unchanged.
// Facts: schnorrSigRxUses (the sorted set) and schnorrSigRxRaw (= the set is exactly {Equals, SetB32}).
// Props/C03.lean proves schnorrSigRxRaw = true (kernel re-check on every run); exit 2 when SchnorrVerify or
// the load of sig[:32] cannot be found (broken tie).
//
// Second group (config.go): the configuration variables of lib/btc/ecdsa.go (signer switch, verifier hooks) and
// the library functions that write them — expected none (theorem config_written_by_no_library_function).
package main

import (
	"fmt"
	"go/ast"
	"os"
	"sort"
	"strings"

	"verif/vlib"
	"verif/vtrans"
)

func die(format string, a ...interface{}) {
	fmt.Fprintf(os.Stderr, "TRANSLATE-ERROR: gen_c03: "+format+"\n", a...)
	os.Exit(2)
}

// isSigLow32: <sig>[:32] or <sig>[0:32]
func isSigLow32(e ast.Expr, sig string) bool {
	s, ok := e.(*ast.SliceExpr)
	if !ok || s.Slice3 {
		return false
	}
	id, ok := s.X.(*ast.Ident)
	if !ok || id.Name != sig {
		return false
	}
	if s.Low != nil {
		if v, err := vtrans.IntLit(s.Low); err != nil || v != 0 {
			return false
		}
	}
	if s.High == nil {
		return false
	}
	v, err := vtrans.IntLit(s.High)
	return err == nil && v == 32
}

func main() {
	f, err := vtrans.Parse("lib/secp256k1/schnorr.go")
	if err != nil {
		die("%v", err)
	}
	fd, err := f.Func("", "SchnorrVerify")
	if err != nil || fd.Body == nil {
		die("func SchnorrVerify not found in lib/secp256k1/schnorr.go: %v", err)
	}
	var params []string
	for _, fl := range fd.Type.Params.List {
		for _, n := range fl.Names {
			params = append(params, n.Name)
		}
	}
	if len(params) != 3 {
		die("SchnorrVerify no longer has three parameters (pkey, sig, msg)")
	}
	sig := params[1]

	// pass 1: the locals loaded from sig[:32]
	rx := map[string]bool{}
	ast.Inspect(fd.Body, func(n ast.Node) bool {
		c, ok := n.(*ast.CallExpr)
		if !ok || len(c.Args) != 1 {
			return true
		}
		se, ok := c.Fun.(*ast.SelectorExpr)
		if !ok || se.Sel.Name != "SetB32" {
			return true
		}
		if id, ok := se.X.(*ast.Ident); ok && isSigLow32(c.Args[0], sig) {
			rx[id.Name] = true
		}
		return true
	})
	if len(rx) == 0 {
		die("SchnorrVerify no longer loads %s[:32] into a Field with SetB32: the shape the model ('rx: raw limbs, never normalised') was written for is gone", sig)
	}

	// pass 2: every use of those locals
	uses := map[string]bool{}
	accounted := map[*ast.Ident]bool{}
	isRx := func(e ast.Expr) *ast.Ident {
		if u, ok := e.(*ast.UnaryExpr); ok {
			e = u.X
		}
		if p, ok := e.(*ast.ParenExpr); ok {
			e = p.X
		}
		if id, ok := e.(*ast.Ident); ok && rx[id.Name] {
			return id
		}
		return nil
	}
	ast.Inspect(fd.Body, func(n ast.Node) bool {
		switch v := n.(type) {
		case *ast.ValueSpec: // var rx Field  — the declaration itself is not a use
			for _, nm := range v.Names {
				if rx[nm.Name] {
					accounted[nm] = true
				}
			}
		case *ast.CallExpr:
			callee := "?"
			if se, ok := v.Fun.(*ast.SelectorExpr); ok {
				callee = se.Sel.Name
				if id := isRx(se.X); id != nil {
					accounted[id] = true
					switch callee {
					case "SetB32":
						if len(v.Args) == 1 && isSigLow32(v.Args[0], sig) {
							uses["SetB32"] = true
						} else {
							uses["M:SetB32(other source)"] = true
						}
					case "Equals":
						uses["Equals"] = true
					default:
						uses["M:"+callee] = true
					}
				}
			} else if id, ok := v.Fun.(*ast.Ident); ok {
				callee = id.Name
			}
			for _, a := range v.Args {
				if id := isRx(a); id != nil {
					accounted[id] = true
					if callee == "Equals" {
						uses["Equals"] = true
					} else {
						uses["A:"+callee] = true
					}
				}
			}
		}
		return true
	})
	ast.Inspect(fd.Body, func(n ast.Node) bool {
		if id, ok := n.(*ast.Ident); ok && rx[id.Name] && !accounted[id] {
			uses["other"] = true
		}
		return true
	})
	var list []string
	for u := range uses {
		list = append(list, u)
	}
	sort.Strings(list)
	raw := len(list) == 2 && list[0] == "Equals" && list[1] == "SetB32"

	var sb strings.Builder
	sb.WriteString("-- GENERATED by go/cmd/gen_c03 from " + f.Path + " — do not edit; regenerated on every ./check C03 run\n")
	sb.WriteString("namespace GocoinV.Gen.C03Facts\n\n")
	sb.WriteString("/-- how `SchnorrVerify` uses the Field it loads from the signature's first 32 bytes (sorted set) -/\n")
	q := make([]string, len(list))
	for i, u := range list {
		q[i] = fmt.Sprintf("%q", u)
	}
	sb.WriteString("def schnorrSigRxUses : List String := [" + strings.Join(q, ", ") + "]\n\n")
	sb.WriteString("/-- the signature's r is loaded raw (SetB32) and only ever compared (Equals): never normalised -/\n")
	sb.WriteString(fmt.Sprintf("def schnorrSigRxRaw : Bool := %v\n\n", raw))
	cfgLean, cfgN, cfgSummary := configFacts()
	sb.WriteString(cfgLean)
	sb.WriteString("end GocoinV.Gen.C03Facts\n")
	out := vlib.Root() + "/lean/GocoinV/Gen/C03Facts.lean"
	os.Remove(out)
	if err := os.WriteFile(out, []byte(sb.String()), 0644); err != nil {
		die("%v", err)
	}
	fmt.Printf("gen_c03: SchnorrVerify uses of the signature's r Field: %v raw=%v\n", list, raw)
	fmt.Printf("gen_c03: %s\n", cfgSummary)
	fmt.Printf("FACTS %d\n", 2+cfgN)
}
