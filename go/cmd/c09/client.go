// client.go — the block decoder as the NODE uses it: one btc.Block object per wanted block (network.BlocksToGet), fed by
// the real handlers of client/network — netBlockReceived ("block"), ProcessCmpctBlock ("cmpctblock", assembly A) and
// ProcessBlockTxn ("blocktxn", assembly B) — with copies of the block that are refused (another transaction list behind
// the same header: fewer / more / other / reordered transactions, another CompactSize width of the count, a damaged or cut
// body) and finally with the real block, through any of the three entry paths; and the block that waits on disk
// (Memory.CacheOnDisk: netBlockReceived writes <hash> and <hash>.hashes, get_block_from_disk_cache of client/main.go reads
// them back with the hash-less parser) with the side file complete, missing, cut at any point or too long.
//
// Property side: whatever copies were refused before, the block handed to the chain thread carries exactly what a FRESH
// btc.Block of the real bytes carries (TxCount, Txs ids and sizes, BlockWeight) and the ids are the reference txids; a
// block read back from the disk cache either fails loudly or carries exactly these ids.
// Model side: Model/WireClient.lean (statement lists of the install / discard sites regenerated from the source by
// gen_c09, theorem client_copies_exact; disk cache: disk_cache_exact), oracle ops `cli`, `hashes`, `dcache`.
//
// Nothing of the handlers is copied here: the messages go through network.VerifDispatch (a clause-by-clause copy of Run's
// switch that gen_c18 compares with Run on every run), get_block_from_disk_cache runs in a child process built from the
// repository's client package with one extra file (clientdrv.go.txt) added through `go build -overlay`.
package main

import (
	"bufio"
	"bytes"
	"crypto/sha256"
	_ "embed"
	"encoding/binary"
	"encoding/json"
	"fmt"
	"io"
	"os"
	"os/exec"
	"path/filepath"
	"strconv"
	"strings"
	"syscall"
	"time"

	"github.com/piotrnar/gocoin/client/common"
	"github.com/piotrnar/gocoin/client/network"
	"github.com/piotrnar/gocoin/client/peersdb"
	"github.com/piotrnar/gocoin/client/txpool"
	"github.com/piotrnar/gocoin/lib/btc"
	"github.com/piotrnar/gocoin/lib/chain"
	"github.com/piotrnar/gocoin/lib/others/qdb"
	"github.com/piotrnar/gocoin/lib/others/siphash"
	"verif/chainkit"
	"verif/vlib"
	"verif/vtrans"
)

//go:embed clientdrv.go.txt
var clientDrvSrc []byte

// ---------------------------------------------------------------- silence

// hushed runs f with fd 1 on /dev/null (the handlers print with fmt.Println; fd 2 is silenced for the whole run)
func hushed(f func()) {
	if os.Getenv("C09_LOUD") != "" {
		f()
		return
	}
	dn, err := os.OpenFile("/dev/null", os.O_WRONLY, 0)
	if err != nil {
		f()
		return
	}
	defer dn.Close()
	s1, e1 := syscall.Dup(1)
	if e1 != nil {
		f()
		return
	}
	syscall.Dup3(int(dn.Fd()), 1, 0)
	defer func() {
		syscall.Dup3(s1, 1, 0)
		syscall.Close(s1)
	}()
	f()
}

// withStderr runs f with fd 2 on a temporary file and returns what was written (the handlers report the error PostCheckBlock
// returned with println, which writes to fd 2; nothing else makes it observable)
func withStderr(dir string, f func()) string {
	tmp, err := os.CreateTemp(dir, "stderr")
	if err != nil {
		f()
		return ""
	}
	defer os.Remove(tmp.Name())
	defer tmp.Close()
	s2, e2 := syscall.Dup(2)
	if e2 != nil {
		f()
		return ""
	}
	syscall.Dup3(int(tmp.Fd()), 2, 0)
	func() {
		defer func() {
			syscall.Dup3(s2, 2, 0)
			syscall.Close(s2)
		}()
		f()
	}()
	b, _ := os.ReadFile(tmp.Name())
	return string(b)
}

// ---------------------------------------------------------------- the node

type cliEnv struct {
	k     *chainkit.Kit
	dir   string
	conns [4]*network.OneConnection // 0,1: senders of refused copies (a new address each time), 2: the honest sender, 3: the announcer
	ipSeq uint32
	drv   *drvProc
}

var cli *cliEnv

// development aid: run the client stream without asking the oracle
var cliNoModel = os.Getenv("C09_CLI_NOMODEL") != ""

func cliSetup() *cliEnv {
	e := &cliEnv{}
	dir, err := os.MkdirTemp("", "vc09")
	if err != nil {
		panic(err)
	}
	e.dir = dir + string(os.PathSeparator)
	hushed(func() {
		k, err := chainkit.New(chainkit.Opts{Dir: e.dir + "chain" + string(os.PathSeparator)}, vlib.NewRng(909))
		if err != nil {
			panic(err)
		}
		e.k = k
		for i := 0; i < 3; i++ {
			k.MustExtend(nil, 0)
		}
		// client globals (client/init.go host_init, client/main.go main) — what the three handlers read
		common.CFG.Net.MaxBlockAtOnce = 3
		common.CFG.Net.MaxOutCons = 20
		common.CFG.Net.MaxInCons = 20
		common.CFG.TXPool.Enabled = true
		common.CFG.TXPool.AllowMemInputs = true
		common.CFG.TXPool.MaxTxWeight = 400e3
		common.CFG.TXPool.MaxSizeMB = 500
		common.CFG.TXPool.RejectRecCnt = 100
		common.CFG.TXPool.FeePerByte = 0.001
		common.CFG.TXRoute.Enabled = true
		common.CFG.TXRoute.MaxTxWeight = 400e3
		common.CFG.Memory.CacheOnDisk = true
		common.CFG.DropPeers.ImmunityMinutes = 15
		common.CFG.UserAgent = "/Gocoin:verif/"
		common.GocoinHomeDir = e.dir
		common.GenesisBlock = k.Genesis
		common.Magic = [4]byte{0xF9, 0xBE, 0xB4, 0xD9}
		common.UserAgent = "/Gocoin:verif/"
		common.SecretKey = make([]byte, 32)
		common.SecretKey[31] = 7
		common.PublicKeyBin = btc.PublicFromPrivate(common.SecretKey, true)
		common.BlockChain = k.Ch
		common.Last.Block = k.Ch.LastBlock()
		common.Last.Time = time.Now()
		common.UpdateScriptFlags(0)
		common.StartTime = time.Now()
		common.BlockChainSynchronized.Store(true)
		common.AverageBlockSize.Store(1000)
		os.MkdirAll(common.TempBlocksDir(), 0700)
		peersdb.PeerDB, _ = qdb.NewDB(e.dir+"peers3", true)
		txpool.InitTransactionsToSend()
		txpool.InitTransactionsRejected()
		for kk, v := range k.Ch.BlockIndex {
			network.ReceivedBlocks[kk] = &network.OneReceivedBlock{TmStart: time.Unix(int64(v.Timestamp()), 0)}
		}
		network.LastCommitedHeader = common.Last.Block
		for i := range e.conns {
			e.conns[i] = network.VerifNewConn([4]byte{10, 9, 0, byte(i + 1)}, 8333, false, nil)
		}
		// 13 headers on the tip whose blocks never arrive: the node is "more than 10 blocks behind the last header with
		// more than 10 blocks to get", the state in which netBlockReceived parks a block of more than 16 KB on disk
		c := e.peer(0)
		parent := k.Ch.LastBlock()
		for i := 0; i < 13; i++ {
			raw := k.Build(chainkit.BlockSpec{Parent: parent, CoinbaseExtra: []byte{byte(i), 0xC9, 0x09}})
			pl := append([]byte{1}, raw[:80]...)
			c.VerifDispatch("headers", append(pl, 0), false)
			node := k.Ch.BlockIndex[btc.NewSha2Hash(raw[:80]).BIdx()]
			if node == nil {
				panic("c09 client env: the node did not take a header of the synthetic chain")
			}
			parent = node
		}
	})
	return e
}

func (e *cliEnv) close() {
	if e.drv != nil {
		e.drv.stop()
	}
	hushed(func() {
		if peersdb.PeerDB != nil {
			peersdb.PeerDB.Close()
		}
		e.k.Close()
	})
	os.RemoveAll(e.dir)
}

// peer: connection object i as a NEW peer (another address), version handshake done, compact blocks version 2
func (e *cliEnv) peer(i int) *network.OneConnection {
	c := e.conns[i]
	e.ipSeq++
	c.VerifRecycle([4]byte{10, byte(e.ipSeq >> 16), byte(e.ipSeq >> 8), byte(e.ipSeq)}, 8333, false, nil)
	c.X.VersionReceived = true
	c.Node.Version = 70016
	c.Node.SendCmpctVer = 2
	return c
}

// peerAt: connection object i made a new peer, result not needed
func (e *cliEnv) peerAt(i int) { e.peer(i) }

// ---------------------------------------------------------------- blocks and copies

func cliTx(g *vlib.Rng, fat int) *btc.Tx {
	tx := new(btc.Tx)
	tx.Version = uint32(g.Pick(1, 2))
	nin := g.Pick(1, 1, 1, 2, 3)
	for i := 0; i < nin; i++ {
		in := &btc.TxIn{Sequence: 0xffffffff, ScriptSig: g.Bytes(g.Pick(0, 0, 1, 23, 72, 107))}
		copy(in.Input.Hash[:], g.Bytes(32))
		in.Input.Hash[31] |= 1
		in.Input.Vout = uint32(g.Intn(4))
		tx.TxIn = append(tx.TxIn, in)
	}
	nout := g.Pick(1, 1, 2, 3)
	for i := 0; i < nout; i++ {
		tx.TxOut = append(tx.TxOut, &btc.TxOut{Value: uint64(g.Intn(1000000)), Pk_script: g.Bytes(g.Pick(1, 22, 23, 25, 34))})
	}
	if fat > 0 {
		tx.TxOut = append(tx.TxOut, &btc.TxOut{Value: 1, Pk_script: g.Bytes(fat + g.Intn(200))})
	}
	if g.Chance(1, 2) {
		for i := 0; i < nin; i++ {
			var st [][]byte
			for k := g.Pick(0, 1, 2, 2, 3); k > 0; k-- {
				st = append(st, g.Bytes(g.Pick(0, 1, 33, 64, 72)))
			}
			if st == nil {
				st = [][]byte{}
			}
			tx.SegWit = append(tx.SegWit, st)
		}
		if len(tx.SegWit[0]) == 0 {
			tx.SegWit[0] = [][]byte{g.Bytes(33)}
		}
	}
	chainkit.Finish(tx)
	return tx
}

// splitBlock: header and the raw transactions of a well-formed block, by the reference parser
func splitBlock(raw []byte) (txs [][]byte) {
	d := &reader{b: raw[80:]}
	d.cs()
	p := 80 + d.p
	for p < len(raw) {
		_, k, e := refParse(raw[p:])
		if e != "" || k == 0 {
			panic("c09 client: reference parser refuses a transaction of a block built by chainkit: " + e)
		}
		txs = append(txs, raw[p:p+k])
		p += k
	}
	return
}

func asmCopy(hdr []byte, txs [][]byte) []byte { return asmBlock(hdr, txs, false) }

// cmpctMsg: a BIP152 (version 2) cmpctblock message for the transaction list txs; pre[i] = transaction i is prefilled.
// Returns the payload and the transactions a blocktxn has to bring.
func cmpctMsg(hdr []byte, txs [][]byte, pre []bool, nonce []byte) (pl []byte, missing [][]byte) {
	w := new(bytes.Buffer)
	w.Write(hdr[:80])
	w.Write(nonce[:8])
	kk := sha256.Sum256(w.Bytes())
	k0, k1 := binary.LittleEndian.Uint64(kk[0:8]), binary.LittleEndian.Uint64(kk[8:16])
	var sids [][]byte
	npre := 0
	for i, t := range txs {
		if pre[i] {
			npre++
			continue
		}
		sid := siphash.Hash(k0, k1, sha256d(t)) & 0xffffffffffff
		var b [8]byte
		binary.LittleEndian.PutUint64(b[:], sid)
		sids = append(sids, b[:6])
		missing = append(missing, t)
	}
	putCS(w, uint64(len(sids)))
	for _, s := range sids {
		w.Write(s)
	}
	putCS(w, uint64(npre))
	exp := 0
	for i, t := range txs {
		if !pre[i] {
			continue
		}
		putCS(w, uint64(i-exp))
		w.Write(t)
		exp = i + 1
	}
	return w.Bytes(), missing
}

func blockTxnMsg(hash []byte, txs [][]byte) []byte {
	w := new(bytes.Buffer)
	w.Write(hash)
	putCS(w, uint64(len(txs)))
	for _, t := range txs {
		w.Write(t)
	}
	return w.Bytes()
}

type cliCopy struct {
	via  byte     // 'f' block message, 'a' cmpctblock complete (assembly A), 'b' cmpctblock + blocktxn (assembly B)
	what string   // how the copy differs from the block
	txs  [][]byte // transaction list of the copy ('a' / 'b', and 'f' when body is nil)
	body []byte   // 'f': the payload when it is not a well-formed list
	// the copy has the block's txids (only witness bytes differ): its Merkle root matches the header
	sameIds bool
}

func (c *cliCopy) data(hdr []byte) []byte {
	if c.body != nil {
		return c.body
	}
	return asmCopy(hdr, c.txs)
}

// badList: another transaction list behind the same header
func badList(g *vlib.Rng, real [][]byte, fat int) ([][]byte, string) {
	n := len(real)
	cp := append([][]byte{}, real...)
	extra := func() []byte { return cliTx(g, fat).SerializeNew() }
	for try := 0; try < 8; try++ {
		switch g.Intn(8) {
		case 0:
			if n >= 2 {
				return cp[:1+g.Intn(n-1)], "tail-dropped"
			}
		case 1:
			if n >= 3 {
				i := 1 + g.Intn(n-1)
				return append(cp[:i:i], cp[i+1:]...), "one-dropped"
			}
		case 2:
			return append(cp, extra()), "one-appended"
		case 3:
			k := 1 + g.Intn(3)
			for ; k > 0; k-- {
				cp = append(cp, extra())
			}
			return cp, "some-appended"
		case 4:
			if n >= 2 {
				cp[1+g.Intn(n-1)] = extra()
				return cp, "one-replaced"
			}
		case 5:
			if n >= 3 {
				i, j := 1+g.Intn(n-1), 1+g.Intn(n-1)
				if i != j && !bytes.Equal(cp[i], cp[j]) {
					cp[i], cp[j] = cp[j], cp[i]
					return cp, "two-swapped"
				}
			}
		case 6: // the coinbase and one more: the smallest list a lying peer needs
			if n >= 3 {
				return [][]byte{cp[0], cp[1+g.Intn(n-1)]}, "two-left"
			}
		case 7:
			return [][]byte{cp[0], extra()}, "coinbase-and-a-stranger"
		}
	}
	return append(cp, extra()), "one-appended"
}

// witnessCopy: the block's own transactions with other WITNESS bytes. Every txid, hence the Merkle root of the header, is
// that of the block: only the witness commitment (or its absence) tells such a copy from the block. Anybody who has the
// block can make one.
// witnessClassSel: prefix of the copy's label -> branch of witnessCopy
var witnessClassSel = []string{"witness-bitflip", "witness-item-added", "witness-stripped", "coinbase-reserved-value-bitflip", "coinbase-w", "witness-added-to-block-without-commitment", "witness-padded-over-weight"}

// witnessCorpus: every class of witness-only copy through every entry path, on every run: the defect fixed in /repo 335b5eaa
// (such a copy made all three handlers give the VALID block up) must be reported again if it returns
var witnessCorpus = []string{"witness-bitflip", "witness-item-added", "witness-stripped", "coinbase-reserved-value-bitflip", "coinbase-w", "witness-added-to-block-without-commitment"}

func witnessCopy(g *vlib.Rng, real [][]byte, want string) ([][]byte, string) {
	n := len(real)
	cp := append([][]byte{}, real...)
	var withWit []int
	for i := 1; i < n; i++ {
		if ref, k, e := refParse(real[i]); e == "" && k == len(real[i]) && ref.hasWit {
			withWit = append(withWit, i)
		}
	}
	cbRef, _, _ := refParse(real[0])
	parse := func(i int) *btc.Tx {
		tx, k := btc.NewTx(exact(real[i]))
		if tx == nil || k != len(real[i]) {
			panic("c09 client: btc.NewTx refuses a transaction of a block built by chainkit")
		}
		return tx
	}
	for try := 0; try < 12; try++ {
		sel := g.Intn(6)
		for k, w := range witnessClassSel {
			if want != "" && strings.HasPrefix(want, w) {
				sel = k
			}
		}
		switch sel {
		case 0: // one bit of one witness item
			if len(withWit) > 0 {
				i := withWit[g.Intn(len(withWit))]
				tx := parse(i)
				for a := range tx.SegWit {
					for b := range tx.SegWit[a] {
						if it := tx.SegWit[a][b]; len(it) > 0 {
							it[g.Intn(len(it))] ^= byte(1 << uint(g.Intn(8)))
							cp[i] = tx.SerializeNew()
							return cp, "witness-bitflip"
						}
					}
				}
			}
		case 1: // one more witness item
			if len(withWit) > 0 {
				i := withWit[g.Intn(len(withWit))]
				tx := parse(i)
				a := g.Intn(len(tx.SegWit))
				tx.SegWit[a] = append(tx.SegWit[a], g.Bytes(g.Pick(0, 1, 32)))
				cp[i] = tx.SerializeNew()
				return cp, "witness-item-added"
			}
		case 2: // a transaction without its witness (legacy layout)
			if len(withWit) > 0 {
				i := withWit[g.Intn(len(withWit))]
				tx := parse(i)
				cp[i] = tx.Serialize()
				return cp, "witness-stripped"
			}
		case 3: // the coinbase's reserved value
			if cbRef.hasWit {
				tx := parse(0)
				if len(tx.SegWit) == 1 && len(tx.SegWit[0]) == 1 && len(tx.SegWit[0][0]) == 32 {
					tx.SegWit[0][0][g.Intn(32)] ^= byte(1 << uint(g.Intn(8)))
					cp[0] = tx.SerializeNew()
					return cp, "coinbase-reserved-value-bitflip"
				}
			}
		case 4: // the coinbase without witness / with a reserved value of another size
			if cbRef.hasWit {
				tx := parse(0)
				if g.Chance(1, 2) {
					cp[0] = tx.Serialize()
					return cp, "coinbase-witness-stripped"
				}
				tx.SegWit[0] = [][]byte{g.Bytes(g.Pick(0, 31, 33))}
				cp[0] = tx.SerializeNew()
				return cp, "coinbase-reserved-value-resized"
			}
		case 6: // (never drawn: one forced case per run) one witness item grown until the copy is over the weight limit
			if len(withWit) > 0 {
				i := withWit[0]
				tx := parse(i)
				tot := 81
				for _, t := range real {
					tot += len(t)
				}
				tx.SegWit[0] = append(tx.SegWit[0], make([]byte, 3999900-tot-5)) // payload just below the 4e6 limit of a block message
				cp[i] = tx.SerializeNew()
				return cp, "witness-padded-over-weight"
			}
		case 5: // witness bytes on a block that commits to none
			if !cbRef.hasWit && len(withWit) == 0 {
				i := g.Intn(n)
				tx := parse(i)
				tx.SegWit = make([][][]byte, len(tx.TxIn))
				for a := range tx.SegWit {
					tx.SegWit[a] = [][]byte{}
				}
				tx.SegWit[0] = [][]byte{g.Bytes(g.Pick(1, 32))}
				cp[i] = tx.SerializeNew()
				return cp, "witness-added-to-block-without-commitment"
			}
		}
	}
	return nil, ""
}

func genBadCopy(g *vlib.Rng, hdr []byte, real [][]byte, full []byte, fat int) cliCopy {
	via := byte(g.Pick('f', 'a', 'a', 'b', 'b'))
	if g.Chance(1, 4) {
		if l, what := witnessCopy(g, real, ""); l != nil {
			return cliCopy{via: byte(g.Pick('f', 'f', 'a', 'b')), what: what, txs: l, sameIds: true}
		}
	}
	if via == 'f' && g.Chance(1, 2) {
		c := exact(full)
		switch g.Intn(3) {
		case 0:
			if len(c) > 101 {
				return cliCopy{via: 'f', what: "body-cut", body: c[:100+g.Intn(len(c)-100)]}
			}
		case 1:
			p := 81 + g.Intn(len(c)-81)
			c[p] ^= byte(1 << uint(g.Intn(8)))
			return cliCopy{via: 'f', what: "body-bitflip", body: c}
		}
		c[80] = byte(g.Pick(1, 2, int(c[80])+1, int(c[80])-1, 0xfc))
		if len(c) >= 100 && c[80] != full[80] {
			return cliCopy{via: 'f', what: "count-changed", body: c}
		}
	}
	l, what := badList(g, real, fat)
	return cliCopy{via: via, what: what, txs: l}
}

// ---------------------------------------------------------------- one case

func cliObjSeg(outcome string, bl *btc.Block) string { return objSeg(outcome, bl) }

type cliCase struct {
	seed uint64
}

func cliDoc(seed uint64, extra map[string]interface{}) map[string]interface{} {
	d := map[string]interface{}{"op": "client", "case": strconv.FormatUint(seed, 10),
		"note": "the case is regenerated from this number (block, refused copies, entry path of the real block, disk-cache fault)"}
	for k, v := range extra {
		d[k] = v
	}
	return d
}

// bSplit: a cmpctblock message for the list with the coinbase prefilled and at least one transaction left for a blocktxn
func bSplit(hdr []byte, txs [][]byte, g *vlib.Rng) (pl []byte, missing [][]byte) {
	pre := make([]bool, len(txs))
	pre[0] = true
	nmiss := 0
	for i := 1; i < len(pre); i++ {
		pre[i] = g.Chance(1, 3)
		if !pre[i] {
			nmiss++
		}
	}
	if nmiss == 0 {
		pre[len(pre)-1] = false
		if len(pre) == 1 {
			pre[0] = false
		}
	}
	return cmpctMsg(hdr, txs, pre, g.Bytes(8))
}

// guarded runs one or more handler calls: panics recovered, stdout hushed, what the handlers print on fd 2 returned
func (e *cliEnv) guarded(f func()) (panicked, printed string) {
	defer func() {
		if x := recover(); x != nil {
			panicked = fmt.Sprint(x)
		}
	}()
	printed = withStderr(e.dir, func() { hushed(f) })
	return
}

// deliver sends one copy through the real handlers. early != nil: the cmpctblock message of a 'b' copy went out before
// (early = what its blocktxn has to bring), only the blocktxn is sent now.
func (e *cliEnv) deliver(c *network.OneConnection, hdr []byte, hash *btc.Uint256, cp *cliCopy, g *vlib.Rng, early [][]byte) (panicked, printed string) {
	return e.guarded(func() {
		switch cp.via {
		case 'f':
			c.VerifDispatch("block", exact(cp.data(hdr)), false)
		case 'a':
			pre := make([]bool, len(cp.txs))
			for i := range pre {
				pre[i] = true
			}
			pl, _ := cmpctMsg(hdr, cp.txs, pre, g.Bytes(8))
			c.VerifDispatch("cmpctblock", pl, false)
		case 'b':
			missing := early
			if missing == nil {
				var pl []byte
				pl, missing = bSplit(hdr, cp.txs, g)
				c.VerifDispatch("cmpctblock", pl, false)
			}
			c.VerifDispatch("blocktxn", blockTxnMsg(hash.Hash[:], missing), false)
		}
	})
}

// refusalOf: the error PostCheckBlock returned for a refused copy, as netBlockReceived prints it (" ... received from <ip> <error>");
// class = the decoder's part of it in the model's terms
func refusalOf(printed string) (class, rpc string) {
	i := strings.Index(printed, " ... received from")
	if i < 0 {
		return "", ""
	}
	line := printed[i:]
	if j := strings.IndexByte(line, '\n'); j >= 0 {
		line = line[:j]
	}
	if k := strings.Index(line, "RPC_Result:"); k >= 0 {
		rpc = strings.TrimSpace(line[k+len("RPC_Result:"):])
	}
	switch {
	case strings.Contains(line, "size limits failed low"):
		return "tooShort", rpc
	case strings.Contains(line, "txn_count"):
		return "badCount", rpc
	case strings.Contains(line, "NewTx failed"):
		return "txFailed", "NewTx-failed"
	}
	return "ok", rpc
}

func drainNetBlocks() (l []*network.BlockRcvd) {
	for {
		select {
		case b := <-network.NetBlocks:
			l = append(l, b)
		default:
			return
		}
	}
}

// runClientCase: one block, 0..3 refused copies, then the real block. disk = make the block large enough to be parked.
func runClientCase(seed uint64, disk bool, forced string, forceCopy string) (applicable bool) {
	applicable = true
	e := cli
	g := vlib.NewRng(seed)
	// the block
	ntx := g.Pick(1, 2, 2, 3, 4, 5, 8, 12, 30)
	fat := 0
	if g.Chance(1, 12) {
		ntx = g.Pick(251, 252, 253, 254, 300)
	}
	if disk {
		fat = g.Pick(300, 900, 2500)
		if (ntx-1)*(fat+120) < 17000 {
			ntx = 17000/(fat+120) + 2 + g.Intn(6)
		}
	}
	var txs []*btc.Tx
	for i := 1; i < ntx; i++ {
		txs = append(txs, cliTx(g, fat))
	}
	var full []byte
	hushed(func() {
		full = e.k.Build(chainkit.BlockSpec{CoinbaseExtra: g.Bytes(6), Txs: txs})
	})
	hdr := exact(full[:80])
	hash := btc.NewSha2Hash(hdr)
	real := splitBlock(full)
	fresh := observeBlock(full, true)
	kind := "client-history"
	if disk {
		kind = "client-diskcache"
	}
	if forceCopy != "" {
		kind = "client-witness-only-copy"
	}
	var copies []cliCopy
	nbad := g.Pick(0, 1, 1, 1, 2, 2, 3)
	if disk {
		nbad = g.Pick(0, 0, 1)
	}
	for i := 0; i < nbad; i++ {
		copies = append(copies, genBadCopy(g, hdr, real, full, fat))
	}
	if forceCopy != "" { // "<via>:<class of witness-only copy>"
		l, what := witnessCopy(g, real, forceCopy[2:])
		if l == nil || !strings.HasPrefix(what, forceCopy[2:]) {
			return false // this block has no such copy (no witness transaction / a commitment)
		}
		copies = []cliCopy{{via: forceCopy[0], what: what, txs: l, sameIds: true}}
	}
	final := cliCopy{via: byte(g.Pick('f', 'f', 'f', 'a', 'b')), what: "the-block", txs: real}
	if disk {
		final.via = 'f' // only netBlockReceived parks a block
	}
	shape := ""
	for _, c := range copies {
		shape += fmt.Sprintf("%c(%s) ", c.via, c.what)
	}
	shape += fmt.Sprintf("%c(%s)", final.via, final.what)
	doc := cliDoc(seed, map[string]interface{}{"history": shape, "block_txs": len(real), "block_len": len(full), "disk": disk, "fault": forced, "copy": forceCopy})
	defer os.Remove(hash.String() + ".bin") // ProcessCmpctBlock / ProcessBlockTxn dump a refused assembly into the working directory
	if fresh.err != "none" || fresh.panicked != "" || len(fresh.txs) != len(real) {
		r.PropFail("client-block-not-decoded", fmt.Sprintf("a fresh btc.Block of a valid %d-transaction block: BuildTxList()=%s %s, %d transactions", len(real), fresh.err, fresh.panicked, len(fresh.txs)), doc)
		return
	}
	beat("the node's handlers on history "+shape, doc)
	drainNetBlocks()
	r.Eval(kind, "cli"+string(hdr))
	// the model follows the same history (small cases): state of the object after every refused copy, then the delivery
	var model []string
	total := len(full)
	for _, c := range copies {
		total += len(c.data(hdr))
	}
	if total <= 60000 && !cliNoModel {
		line := "cli " + vlib.Hex(hdr)
		for _, c := range copies {
			line += fmt.Sprintf(" %c:%s", c.via, vlib.Hex(c.data(hdr)))
		}
		line += fmt.Sprintf(" %c:%s", final.via, vlib.Hex(full))
		model = strings.Fields(o.MustAsk(line))
	} else {
		r.Hit("client-model-skipped:large")
	}
	idx := hash.BIdx()
	var b2g *network.OneBlockToGet
	var classes []string
	if model != nil {
		if len(model) < 2+len(copies)+1 {
			r.TieFail("tie-client-object", "history "+shape+": the model has no answer: "+short([]byte(strings.Join(model, " "))), doc)
			return
		}
		if model[0] != "-" {
			classes = strings.Split(model[0], ",")
		}
		model = model[1:]
	}
	// interleavings: the ANNOUNCER sends a cmpctblock of the real list that stays incomplete at some point of the history (its
	// blocktxn comes after the block was taken); the honest sender of a 'b' delivery may send its cmpctblock before the
	// refused copies and the blocktxn after them. An incomplete cmpctblock does not touch the Block object.
	annAt, annMissing := -1, [][]byte(nil)
	if len(real) >= 2 && g.Chance(1, 3) {
		annAt = g.Intn(len(copies) + 1)
	}
	announce := func() bool {
		r.Hit("client-interleaved:incomplete-cmpctblock-from-another-peer")
		var pl []byte
		pl, annMissing = bSplit(hdr, real, g)
		if p, _ := e.guarded(func() { e.conns[3].VerifDispatch("cmpctblock", pl, false) }); p != "" {
			r.PropFail("client-handler-panic", fmt.Sprintf("history %s: ProcessCmpctBlock panicked on an incomplete cmpctblock of the block: %s", shape, p), doc)
			return false
		}
		if got := drainNetBlocks(); len(got) != 0 {
			r.TieFail("tie-client-interleaving", "history "+shape+": a cmpctblock that leaves transactions missing handed a block to the chain thread", doc)
			return false
		}
		return true
	}
	e.peerAt(3)
	honest := e.peer(2)
	var finalEarly [][]byte
	if final.via == 'b' && len(copies) > 0 && g.Chance(1, 2) {
		r.Hit("client-interleaved:cmpctblock-before-the-refused-copies")
		var pl []byte
		pl, finalEarly = bSplit(hdr, real, g)
		if p, _ := e.guarded(func() { honest.VerifDispatch("cmpctblock", pl, false) }); p != "" {
			r.PropFail("client-handler-panic", fmt.Sprintf("history %s: ProcessCmpctBlock panicked on the cmpctblock of the real block: %s", shape, p), doc)
			return
		}
	}
	for i := range copies {
		cp := &copies[i]
		if annAt == i && !announce() {
			return
		}
		r.Hit(fmt.Sprintf("client-refused-copy:%c:%s", cp.via, cp.what))
		beat(fmt.Sprintf("the node's handler for copy %d of history %s", i, shape), doc)
		peer := e.peer(i % 2)
		p, printed := e.deliver(peer, hdr, hash, cp, g, nil)
		if p != "" {
			r.PropFail("client-handler-panic", fmt.Sprintf("history %s: the handler panicked on copy %d: %s", shape, i, p), doc)
			return
		}
		if got := drainNetBlocks(); len(got) != 0 {
			// (cannot happen with another transaction list unless the Merkle root collides; a copy with other witness bytes
			// is refused by its witness commitment)
			r.PropFail("client-wrong-copy-accepted", fmt.Sprintf("history %s: copy %d (%s) is not the block, yet a block was handed to the chain thread", shape, i, cp.what), doc)
			return
		}
		network.MutexRcv.Lock()
		b2g = network.BlocksToGet[idx]
		network.MutexRcv.Unlock()
		cls, rpc := refusalOf(printed)
		if rpc != "" {
			r.Hit("client-refusal:" + rpc)
		}
		if b2g == nil {
			// The header is that of a VALID block (the harness built it) and the copy came from ONE peer. Whatever that peer
			// sent - another transaction list, damaged bytes, the block's own transactions with other witness bytes (same
			// txids, same Merkle root: anybody can make such a copy) - the node must keep wanting the block.
			k := "client-block-given-up"
			if cp.sameIds {
				k = "client-block-given-up:witness-only-copy"
			}
			if cp.what == "witness-padded-over-weight" && rpc == "bad-blk-weight" {
				// KNOWN (known_findings.txt): PostCheckBlock tests the weight BEFORE the witness commitment, so witness bytes
				// nobody committed to can push a valid block over the limit; not one of the three refusals 335b5eaa exempts
				k = "client-block-given-up:witness-padded-over-weight"
			}
			r.PropFail(k, fmt.Sprintf("history %s: after copy %d (%s, via %c; PostCheckBlock said %q) the node gave the block up (DelB2G + DeleteBranch: header %s is no longer in BlocksToGet, in the block tree: %v) - the block is valid and its sender never got a chance",
				shape, i, cp.what, cp.via, rpc, hash.String(), e.k.Ch.BlockIndex[idx] != nil), doc)
			return
		}
		// what the node keeps after a refused copy: the bare header, nothing of the copy
		if b2g.Block == nil || !bytes.Equal(b2g.Block.Raw, hdr) {
			r.PropFail("client-refused-copy-kept", fmt.Sprintf("history %s: after refused copy %d (%s) Raw of the node's Block object is %s, not the 80-byte header", shape, i, cp.what, short(b2g.Block.Raw)), doc)
			return
		}
		if model != nil {
			seg := cliObjSeg("refused@"+vlib.Hex(b2g.Block.Raw), b2g.Block)
			if model[i+1] != seg {
				r.TieFail("tie-client-object", fmt.Sprintf("history %s: after refused copy %d the node's Block object is %s, the model of the install/discard statements says %s", shape, i, short([]byte(seg)), short([]byte(model[i+1]))), doc)
				return
			}
			r.TieOK()
			// the error class PostCheckBlock's parse returned inside the handler (printed by netBlockReceived only)
			if cls != "" && i < len(classes) {
				if cls != classes[i] {
					r.TieFail("tie-client-refusal-class", fmt.Sprintf("history %s: copy %d (%s): PostCheckBlock inside the handler returned %q (decoder class %s), the model's parse of that copy returns %s", shape, i, cp.what, rpc, cls, classes[i]), doc)
					return
				}
				r.TieOK()
			}
		}
		if cp.via == 'f' {
			// and against a FRESH object of the copy's bytes (property side: the refusal is that of THIS copy)
			fr := observeBlock(cp.data(hdr), true)
			want := map[string]string{"none": "ok", "tooShort": "tooShort", "badCount": "badCount", "txFailed": "txFailed"}[fr.err]
			if len(cp.data(hdr)) < 81 {
				want = "tooShort"
			}
			if cls != "" && want != "" && cls != want {
				r.PropFail("client-refusal-of-another-copy", fmt.Sprintf("history %s: copy %d (%s) was refused with %q (decoder class %s); a fresh btc.Block of the same bytes gives %s", shape, i, cp.what, rpc, cls, want), doc)
				return
			}
			if cls == "" {
				r.Hit("client-refusal-not-printed")
			}
		}
	}
	if annAt == len(copies) && !announce() {
		return
	}
	// the real block
	r.Hit(fmt.Sprintf("client-real-block-via:%c", final.via))
	beat("the node's handler for the real block of history "+shape, doc)
	if p, _ := e.deliver(honest, hdr, hash, &final, g, finalEarly); p != "" {
		r.PropFail("client-handler-panic", fmt.Sprintf("history %s: the handler panicked on the real block: %s", shape, p), doc)
		return
	}
	got := drainNetBlocks()
	var rcvd *network.BlockRcvd
	for _, b := range got {
		if b.BlockTreeNode != nil && b.BlockTreeNode.BlockHash.Equal(hash) {
			rcvd = b
		}
	}
	if rcvd == nil {
		st := honest.VerifState()
		detail := ""
		network.MutexRcv.Lock()
		if b := network.BlocksToGet[idx]; b != nil && b.Block != nil {
			detail = fmt.Sprintf("; the node's Block object now has TxCount=%d TxOffset=%d len(Txs)=%d BlockWeight=%d for %d bytes", b.Block.TxCount, b.Block.TxOffset, len(b.Block.Txs), b.Block.BlockWeight, len(b.Block.Raw))
		}
		network.MutexRcv.Unlock()
		r.PropFail("client-valid-block-refused", fmt.Sprintf("history %s: the VALID block (%d transactions, %d bytes; a fresh btc.Block decodes it: BlockWeight %d) was not handed to the chain thread after the refused copies; sender banned=%v (%s)%s",
			shape, len(real), len(full), fresh.weight, st.Banit, st.BanReason, detail), doc)
		return
	}
	if annMissing != nil {
		// the announcer's blocktxn arrives when the block is no longer wanted
		defer func() {
			if p, _ := e.guarded(func() { e.conns[3].VerifDispatch("blocktxn", blockTxnMsg(hash.Hash[:], annMissing), false) }); p != "" {
				r.PropFail("client-handler-panic", fmt.Sprintf("history %s: ProcessBlockTxn panicked on the blocktxn of a block that was taken from another peer meanwhile: %s", shape, p), doc)
			} else if got := drainNetBlocks(); len(got) != 0 {
				r.PropFail("client-block-handed-over-twice", "history "+shape+": the late blocktxn of the announcer handed the block to the chain thread a second time", doc)
			}
		}()
	}
	if rcvd.Block != nil {
		r.Hit("client-real-block:in-memory")
		bl := rcvd.Block
		mine := objTxs(bl)
		if bl.TxCount != fresh.txCount || bl.BlockWeight != fresh.weight || strings.Join(mine, " ") != strings.Join(fresh.txs, " ") || !bytes.Equal(bl.Raw, full) {
			r.PropFail("client-block-stale", fmt.Sprintf("history %s: the block handed to the chain thread has TxCount=%d BlockWeight=%d and %d transactions; a fresh btc.Block of the same %d bytes has %d/%d/%d (%s)",
				shape, bl.TxCount, bl.BlockWeight, len(mine), len(full), fresh.txCount, fresh.weight, len(fresh.txs), firstDiff(strings.Join(fresh.txs, " "), strings.Join(mine, " "))), doc)
			return
		}
		if !cliRefIds(bl.Txs, real, shape, doc) {
			return
		}
		if model != nil {
			seg := cliObjSeg("ok", bl)
			if model[len(model)-1] != seg {
				r.TieFail("tie-client-object", fmt.Sprintf("history %s: the delivered Block object and the model differ: %s", shape, firstDiff(model[len(model)-1], seg)), doc)
				return
			}
			r.TieOK()
		}
		return
	}
	// parked on disk
	r.Hit("client-real-block:parked-on-disk")
	diskCase(g, forced, hash, full, real, fresh, shape, doc)
	return
}

// cliRefIds: Txs[i].Hash against the reference parser's txid
func cliRefIds(txs []*btc.Tx, real [][]byte, shape string, doc map[string]interface{}) bool {
	for j, tx := range txs {
		ref, n, e := refParse(real[j])
		if e != "" || n != len(real[j]) {
			continue
		}
		if !bytes.Equal(tx.Hash.Hash[:], sha256d(refSerialize(&ref, false))) {
			r.PropFail("client-block-txid", fmt.Sprintf("history %s: Txs[%d].Hash=%s of the block handed to the chain thread is not the txid", shape, j, vlib.Hex(tx.Hash.Hash[:])), doc)
			return false
		}
	}
	return true
}

// ---------------------------------------------------------------- the disk cache

type drvProc struct {
	bin string
	dir string
	cmd *exec.Cmd
	in  io.WriteCloser
	out *bufio.Reader
	err string
}

// buildDrv compiles <repo>/client with clientdrv.go.txt added to the package through an overlay
func buildDrv() *drvProc {
	d := &drvProc{}
	dir, err := os.MkdirTemp("", "vc09drv")
	if err != nil {
		d.err = err.Error()
		return d
	}
	d.dir = dir
	src := filepath.Join(dir, "drv.go")
	os.WriteFile(src, clientDrvSrc, 0600)
	root := vtrans.RepoRoot()
	ov, _ := json.Marshal(map[string]interface{}{"Replace": map[string]string{filepath.Join(root, "client", "zz_verif_c09_drv.go"): src}})
	ovf := filepath.Join(dir, "overlay.json")
	os.WriteFile(ovf, ov, 0600)
	d.bin = filepath.Join(dir, "client")
	cmd := exec.Command("go", "build", "-tags", "verif", "-overlay", ovf, "-o", d.bin, "./client")
	cmd.Dir = root
	cmd.Env = append(os.Environ(), "GOFLAGS=-mod=mod")
	if out, err := cmd.CombinedOutput(); err != nil {
		d.err = err.Error() + ": " + string(out)
	}
	return d
}

func (d *drvProc) start() bool {
	if d.err != "" {
		return false
	}
	d.cmd = exec.Command(d.bin)
	d.cmd.Env = append(os.Environ(), "VERIF_C09_DRV=1")
	d.cmd.Dir = d.dir
	in, _ := d.cmd.StdinPipe()
	out, _ := d.cmd.StdoutPipe()
	if err := d.cmd.Start(); err != nil {
		d.err = err.Error()
		return false
	}
	d.in, d.out = in, bufio.NewReaderSize(out, 1<<20)
	return true
}

func (d *drvProc) stop() {
	if d.cmd != nil {
		d.in.Close()
		d.cmd.Process.Kill()
		d.cmd.Wait()
		d.cmd = nil
	}
	if d.dir != "" {
		os.RemoveAll(d.dir)
	}
}

// ask: one request; "crash" when the process died on it (a panic outside the main goroutine)
func (d *drvProc) ask(line string) string {
	if d.cmd == nil && !d.start() {
		return "no-driver"
	}
	if _, err := io.WriteString(d.in, line+"\n"); err != nil {
		d.cmd.Process.Kill()
		d.cmd.Wait()
		d.cmd = nil
		return "crash"
	}
	ans, err := d.out.ReadString('\n')
	if err != nil {
		d.cmd.Process.Kill()
		d.cmd.Wait()
		d.cmd = nil
		return "crash"
	}
	return strings.TrimSpace(ans)
}

// hashesWant: what netBlockReceived stores for a block (wtxid, and the txid too when the transaction has a witness)
func hashesWant(fresh blkObs, real [][]byte) []byte {
	var b []byte
	for i, s := range fresh.txs {
		f := strings.Split(s, ":")
		ref, _, _ := refParse(real[i])
		b = append(b, vlib.UnHex(f[1])...)
		if ref.hasWit {
			b = append(b, vlib.UnHex(f[0])...)
		}
	}
	return b
}

func hexOrDash(b []byte) string {
	if len(b) == 0 {
		return "-"
	}
	return vlib.Hex(b)
}

// applyHashesFault: what an interrupted / failed write (or a stray file) leaves of the side file. forced "" = drawn.
func applyHashesFault(g *vlib.Rng, forced string, hs []byte) (fault string, newHs []byte, have bool) {
	total := len(hs)
	sel := forced
	if sel == "" {
		sel = []string{"complete", "missing", "extended", "head", "tail-small", "tail-small", "tail-big", "record", "anywhere", "anywhere"}[g.Intn(10)]
	}
	clamp := func(k int) int {
		if k > total {
			return total
		}
		return k
	}
	switch {
	case sel == "complete":
		return "complete", hs, true
	case sel == "missing":
		return "hashes-missing", nil, false
	case sel == "extended":
		return "hashes-extended", append(exact(hs), g.Bytes(g.Pick(1, 31, 32, 33, 64))...), true
	case sel == "head":
		k := clamp(g.Pick(0, 1, 31, 32, 33, 64))
		return fmt.Sprintf("hashes-cut-head:%d", k), hs[:k], true
	case sel == "tail-small":
		k := clamp(g.Pick(1, 5, 31, 32))
		return fmt.Sprintf("hashes-cut-tail:-%d", k), hs[:total-k], true
	case sel == "tail-big":
		k := clamp(g.Pick(33, 63, 64, 65, 96))
		return fmt.Sprintf("hashes-cut-tail:-%d", k), hs[:total-k], true
	case sel == "record":
		return "hashes-cut-at-record", hs[:32*g.Intn(total/32)], true
	case strings.HasPrefix(sel, "tail:-"):
		k, _ := strconv.Atoi(sel[6:])
		k = clamp(k)
		return fmt.Sprintf("hashes-cut-tail:-%d", k), hs[:total-k], true
	case strings.HasPrefix(sel, "head:"):
		k, _ := strconv.Atoi(sel[5:])
		k = clamp(k)
		return fmt.Sprintf("hashes-cut-head:%d", k), hs[:k], true
	}
	return "hashes-cut-anywhere", hs[:g.Intn(total)], true
}

// diskCorpus: the fault classes named by the defect fixed in /repo 06ce6a22 (a side file that lost its last 1..32 bytes was
// accepted) and their neighbours, each on a block of its own, on every run
var diskCorpus = []string{"complete", "missing", "tail:-1", "tail:-5", "tail:-31", "tail:-32", "tail:-33", "tail:-64", "head:0", "head:1", "head:32", "record", "extended"}

// diskCase: the block was parked by the real netBlockReceived. Check what it wrote, damage the files the way an
// interrupted / failed write does, read the block back with the real get_block_from_disk_cache.
func diskCase(g *vlib.Rng, forced string, hash *btc.Uint256, full []byte, real [][]byte, fresh blkObs, shape string, doc map[string]interface{}) {
	e := cli
	fname := common.TempBlocksDir() + hash.String()
	defer os.Remove(fname)
	defer os.Remove(fname + ".hashes")
	dat, e1 := os.ReadFile(fname)
	hs, e2 := os.ReadFile(fname + ".hashes")
	want := hashesWant(fresh, real)
	if e1 != nil || e2 != nil || !bytes.Equal(dat, full) || !bytes.Equal(hs, want) {
		r.PropFail("diskcache-written-wrong", fmt.Sprintf("history %s: netBlockReceived parked the block: block file %d bytes (block %d, err %v), .hashes %d bytes (wtxid[+txid] of %d transactions = %d bytes, err %v); first difference of .hashes at %s",
			shape, len(dat), len(full), e1, len(hs), len(real), len(want), e2, firstDiff(vlib.Hex(want), vlib.Hex(hs))), doc)
		return
	}
	if len(full) <= 60000 && !cliNoModel {
		if m := o.MustAsk("hashes " + vlib.Hex(full)); m != hexOrDash(hs) {
			r.TieFail("tie-diskcache-hashes-file", "model of the .hashes file and the file netBlockReceived wrote differ: "+firstDiff(m, vlib.Hex(hs)), doc)
			return
		}
		r.TieOK()
	}
	// the fault
	total := len(hs)
	fault, newHs, haveHs := applyHashesFault(g, forced, hs)
	newDat := dat
	if g.Chance(1, 10) {
		switch g.Intn(3) {
		case 0:
			newDat = dat[:81+g.Intn(len(dat)-81)]
			fault += "+block-file-cut"
		case 1:
			newDat = dat[:g.Intn(81)]
			fault += "+block-file-cut-in-header"
		case 2:
			newDat = nil
			fault += "+block-file-missing"
		}
	}
	r.Hit("diskcache-fault:" + strings.SplitN(fault, ":", 2)[0])
	if haveHs {
		os.WriteFile(fname+".hashes", newHs, 0600)
	} else {
		os.Remove(fname + ".hashes")
	}
	if newDat == nil {
		os.Remove(fname)
	} else if len(newDat) != len(dat) {
		os.WriteFile(fname, newDat, 0600)
	}
	doc["disk_fault"] = fault
	doc["hashes_len"] = fmt.Sprintf("%d of %d", len(newHs), total)
	if e.drv == nil {
		unwatched(func() { e.drv = buildDrv() })
	}
	beat("get_block_from_disk_cache (child process), fault "+fault+", history "+shape, doc)
	ans := e.drv.ask("get " + common.GocoinHomeDir + " " + hash.String())
	if ans == "no-driver" {
		r.TieFail("tie-diskcache-driver", "the client program with the C09 driver file does not build / start against the repository: "+short([]byte(e.drv.err)), doc)
		return
	}
	// the property: a loud failure, or exactly the ids / sizes / weight of the block
	f := strings.Fields(ans)
	switch {
	case ans == "crash" || (len(f) > 0 && f[0] == "panic"):
		r.Hit("diskcache-answer:loud-failure")
		if bytes.Equal(newDat, dat) && (!haveHs || bytes.Equal(newHs, hs)) {
			r.PropFail("diskcache-intact-refused", fmt.Sprintf("history %s, fault %s: get_block_from_disk_cache fails (%s) although both files are as written", shape, fault, short([]byte(ans))), doc)
			return
		}
	case len(f) == 5 && f[0] == "ok":
		r.Hit("diskcache-answer:block")
		ids := strings.Split(f[4], ",")
		if len(newDat) != len(dat) {
			r.PropFail("diskcache-cut-block-accepted", fmt.Sprintf("history %s, fault %s: a block file of %d of %d bytes was turned into a block of %s transactions", shape, fault, len(newDat), len(dat), f[2]), doc)
			return
		}
		if f[1] != fmt.Sprint(fresh.txCount) || f[2] != fmt.Sprint(len(fresh.txs)) || f[3] != fmt.Sprint(fresh.weight) || strings.Join(ids, " ") != strings.Join(fresh.txs, " ") {
			bad := 0
			for i := range ids {
				if i >= len(fresh.txs) || ids[i] != fresh.txs[i] {
					bad++
				}
			}
			r.PropFail("diskcache-wrong-txid", fmt.Sprintf("history %s, fault %s (.hashes %d of %d bytes): get_block_from_disk_cache returned a block with TxCount=%s, %s transactions, BlockWeight=%s of which %d differ in Hash/wTxID/Size/NoWitSize from the block as decoded on arrival (%d/%d/%d): %s",
				shape, fault, len(newHs), total, f[1], f[2], f[3], bad, fresh.txCount, len(fresh.txs), fresh.weight, firstDiff(strings.Join(fresh.txs, " "), strings.Join(ids, " "))), doc)
			return
		}
	default:
		r.TieFail("tie-diskcache-driver", "unexpected answer of the driver: "+short([]byte(ans)), doc)
		return
	}
	// files are consumed whatever happened
	if _, er := os.Stat(fname); er == nil {
		r.Hit("diskcache-block-file-left-behind")
	}
	// model
	if len(full) <= 60000 && !cliNoModel {
		hh := "none"
		if haveHs {
			hh = hexOrDash(newHs)
		}
		dd := "none"
		if newDat != nil {
			dd = hexOrDash(newDat)
		}
		m := o.MustAsk("dcache " + dd + " " + hh)
		mine := ans
		if len(f) > 0 && f[0] == "panic" || ans == "crash" {
			mine = "panic"
		}
		if m == mine {
			r.TieOK()
		} else {
			r.TieFail("tie-diskcache", fmt.Sprintf("fault %s: model of get_block_from_disk_cache and the real function differ: %s", fault, firstDiff(m, mine)), doc)
		}
	}
}

// ---------------------------------------------------------------- stream

func clientStream(g *vlib.Rng) {
	beat("setting up the synthetic node", nil)
	cli = cliSetup()
	defer cli.close()
	probe := os.Getenv("C09_PROBE") == "pad" // development aid: this case only
	for try := 0; try < 40; try++ { // the known finding, once per run (a 4 MB `block` message)
		if runClientCase(g.U64(), false, "", "f:witness-padded-over-weight") {
			break
		}
	}
	if probe {
		return
	}
	n := r.N(70, 900)
	for i := 0; i < n; i++ {
		runClientCase(g.U64(), false, "", "")
	}
	for _, w := range witnessCorpus {
		for _, via := range "fab" {
			for try := 0; try < 40; try++ {
				if runClientCase(g.U64(), false, "", string(via)+":"+w) {
					break
				}
			}
		}
	}
	for _, f := range diskCorpus {
		runClientCase(g.U64(), true, f, "")
	}
	m := r.N(40, 500)
	for i := 0; i < m; i++ {
		runClientCase(g.U64(), true, "", "")
	}
}

func replayClient(seed string, disk bool, forced string, forceCopy string) {
	s, err := strconv.ParseUint(seed, 10, 64)
	if err != nil {
		fmt.Println("bad replay file: case", seed)
		os.Exit(3)
	}
	cli = cliSetup()
	defer cli.close()
	runClientCase(s, disk, forced, forceCopy)
}

var _ = chain.NewChainExt
