// client.go — the block decoder as the NODE uses it: one btc.Block object per wanted block (network.BlocksToGet), fed by
// the real handlers of client/network — netBlockReceived ("block"), ProcessCmpctBlock ("cmpctblock", assembly A) and
// ProcessBlockTxn ("blocktxn", assembly B) — with copies of the block that are refused (another transaction list behind
// the same header: fewer / more / other / reordered transactions, another CompactSize width of the count, a damaged or cut
// body) and finally with the real block, through any of the three entry paths; and the block that waits on disk
// (Memory.CacheOnDisk: netBlockReceived writes <hash> and <hash>.hashes, get_block_from_disk_cache of client/main.go reads
// them back with the hash-less parser) with the side file complete, missing, cut at any point or too long.
//
// Property side: whatever copies were refused before, the block handed to the chain thread carries exactly what a FRESH
// btc.Block of the real bytes carries (TxCount, Txs ids and sizes, BlockWeight) and the ids are the reference txids; a
// block read back from the disk cache either fails loudly or carries exactly these ids.
// Model side: Model/WireClient.lean (statement lists of the install / discard sites regenerated from the source by
// gen_c09, theorem client_copies_exact; disk cache: disk_cache_exact), oracle ops `cli`, `hashes`, `dcache`.
//
// Nothing of the handlers is copied here: the messages go through network.VerifDispatch (a clause-by-clause copy of Run's
// switch that gen_c18 compares with Run on every run), get_block_from_disk_cache runs in a child process built from the
// repository's client package with one extra file (clientdrv.go.txt) added through `go build -overlay`.
package main

import (
	"bufio"
	"bytes"
	"crypto/sha256"
	_ "embed"
	"encoding/binary"
	"encoding/json"
	"fmt"
	"io"
	"os"
	"os/exec"
	"path/filepath"
	"strconv"
	"strings"
	"syscall"
	"time"

	"github.com/piotrnar/gocoin/client/common"
	"github.com/piotrnar/gocoin/client/network"
	"github.com/piotrnar/gocoin/client/peersdb"
	"github.com/piotrnar/gocoin/client/txpool"
	"github.com/piotrnar/gocoin/lib/btc"
	"github.com/piotrnar/gocoin/lib/chain"
	"github.com/piotrnar/gocoin/lib/others/qdb"
	"github.com/piotrnar/gocoin/lib/others/siphash"
	"verif/chainkit"
	"verif/vlib"
	"verif/vtrans"
)

//go:embed clientdrv.go.txt
var clientDrvSrc []byte

// ---------------------------------------------------------------- silence

// hushed runs f with fd 1 on /dev/null (the handlers print with fmt.Println; fd 2 is silenced for the whole run)
func hushed(f func()) {
	if os.Getenv("C09_LOUD") != "" {
		f()
		return
	}
	dn, err := os.OpenFile("/dev/null", os.O_WRONLY, 0)
	if err != nil {
		f()
		return
	}
	defer dn.Close()
	s1, e1 := syscall.Dup(1)
	if e1 != nil {
		f()
		return
	}
	syscall.Dup3(int(dn.Fd()), 1, 0)
	defer func() {
		syscall.Dup3(s1, 1, 0)
		syscall.Close(s1)
	}()
	f()
}

// ---------------------------------------------------------------- the node

type cliEnv struct {
	k     *chainkit.Kit
	dir   string
	conns [3]*network.OneConnection
	ipSeq uint32
	drv   *drvProc
}

var cli *cliEnv

// development aid: run the client stream without asking the oracle
var cliNoModel = os.Getenv("C09_CLI_NOMODEL") != ""

func cliSetup() *cliEnv {
	e := &cliEnv{}
	dir, err := os.MkdirTemp("", "vc09")
	if err != nil {
		panic(err)
	}
	e.dir = dir + string(os.PathSeparator)
	hushed(func() {
		k, err := chainkit.New(chainkit.Opts{Dir: e.dir + "chain" + string(os.PathSeparator)}, vlib.NewRng(909))
		if err != nil {
			panic(err)
		}
		e.k = k
		for i := 0; i < 3; i++ {
			k.MustExtend(nil, 0)
		}
		// client globals (client/init.go host_init, client/main.go main) — what the three handlers read
		common.CFG.Net.MaxBlockAtOnce = 3
		common.CFG.Net.MaxOutCons = 20
		common.CFG.Net.MaxInCons = 20
		common.CFG.TXPool.Enabled = true
		common.CFG.TXPool.AllowMemInputs = true
		common.CFG.TXPool.MaxTxWeight = 400e3
		common.CFG.TXPool.MaxSizeMB = 500
		common.CFG.TXPool.RejectRecCnt = 100
		common.CFG.TXPool.FeePerByte = 0.001
		common.CFG.TXRoute.Enabled = true
		common.CFG.TXRoute.MaxTxWeight = 400e3
		common.CFG.Memory.CacheOnDisk = true
		common.CFG.DropPeers.ImmunityMinutes = 15
		common.CFG.UserAgent = "/Gocoin:verif/"
		common.GocoinHomeDir = e.dir
		common.GenesisBlock = k.Genesis
		common.Magic = [4]byte{0xF9, 0xBE, 0xB4, 0xD9}
		common.UserAgent = "/Gocoin:verif/"
		common.SecretKey = make([]byte, 32)
		common.SecretKey[31] = 7
		common.PublicKeyBin = btc.PublicFromPrivate(common.SecretKey, true)
		common.BlockChain = k.Ch
		common.Last.Block = k.Ch.LastBlock()
		common.Last.Time = time.Now()
		common.UpdateScriptFlags(0)
		common.StartTime = time.Now()
		common.BlockChainSynchronized.Store(true)
		common.AverageBlockSize.Store(1000)
		os.MkdirAll(common.TempBlocksDir(), 0700)
		peersdb.PeerDB, _ = qdb.NewDB(e.dir+"peers3", true)
		txpool.InitTransactionsToSend()
		txpool.InitTransactionsRejected()
		for kk, v := range k.Ch.BlockIndex {
			network.ReceivedBlocks[kk] = &network.OneReceivedBlock{TmStart: time.Unix(int64(v.Timestamp()), 0)}
		}
		network.LastCommitedHeader = common.Last.Block
		for i := range e.conns {
			e.conns[i] = network.VerifNewConn([4]byte{10, 9, 0, byte(i + 1)}, 8333, false, nil)
		}
		// 13 headers on the tip whose blocks never arrive: the node is "more than 10 blocks behind the last header with
		// more than 10 blocks to get", the state in which netBlockReceived parks a block of more than 16 KB on disk
		c := e.peer(0)
		parent := k.Ch.LastBlock()
		for i := 0; i < 13; i++ {
			raw := k.Build(chainkit.BlockSpec{Parent: parent, CoinbaseExtra: []byte{byte(i), 0xC9, 0x09}})
			pl := append([]byte{1}, raw[:80]...)
			c.VerifDispatch("headers", append(pl, 0), false)
			node := k.Ch.BlockIndex[btc.NewSha2Hash(raw[:80]).BIdx()]
			if node == nil {
				panic("c09 client env: the node did not take a header of the synthetic chain")
			}
			parent = node
		}
	})
	return e
}

func (e *cliEnv) close() {
	if e.drv != nil {
		e.drv.stop()
	}
	hushed(func() {
		if peersdb.PeerDB != nil {
			peersdb.PeerDB.Close()
		}
		e.k.Close()
	})
	os.RemoveAll(e.dir)
}

// peer: connection object i as a NEW peer (another address), version handshake done, compact blocks version 2
func (e *cliEnv) peer(i int) *network.OneConnection {
	c := e.conns[i]
	e.ipSeq++
	c.VerifRecycle([4]byte{10, byte(e.ipSeq >> 16), byte(e.ipSeq >> 8), byte(e.ipSeq)}, 8333, false, nil)
	c.X.VersionReceived = true
	c.Node.Version = 70016
	c.Node.SendCmpctVer = 2
	return c
}

// ---------------------------------------------------------------- blocks and copies

func cliTx(g *vlib.Rng, fat int) *btc.Tx {
	tx := new(btc.Tx)
	tx.Version = uint32(g.Pick(1, 2))
	nin := g.Pick(1, 1, 1, 2, 3)
	for i := 0; i < nin; i++ {
		in := &btc.TxIn{Sequence: 0xffffffff, ScriptSig: g.Bytes(g.Pick(0, 0, 1, 23, 72, 107))}
		copy(in.Input.Hash[:], g.Bytes(32))
		in.Input.Hash[31] |= 1
		in.Input.Vout = uint32(g.Intn(4))
		tx.TxIn = append(tx.TxIn, in)
	}
	nout := g.Pick(1, 1, 2, 3)
	for i := 0; i < nout; i++ {
		tx.TxOut = append(tx.TxOut, &btc.TxOut{Value: uint64(g.Intn(1000000)), Pk_script: g.Bytes(g.Pick(1, 22, 23, 25, 34))})
	}
	if fat > 0 {
		tx.TxOut = append(tx.TxOut, &btc.TxOut{Value: 1, Pk_script: g.Bytes(fat + g.Intn(200))})
	}
	if g.Chance(1, 2) {
		for i := 0; i < nin; i++ {
			var st [][]byte
			for k := g.Pick(0, 1, 2, 2, 3); k > 0; k-- {
				st = append(st, g.Bytes(g.Pick(0, 1, 33, 64, 72)))
			}
			if st == nil {
				st = [][]byte{}
			}
			tx.SegWit = append(tx.SegWit, st)
		}
		if len(tx.SegWit[0]) == 0 {
			tx.SegWit[0] = [][]byte{g.Bytes(33)}
		}
	}
	chainkit.Finish(tx)
	return tx
}

// splitBlock: header and the raw transactions of a well-formed block, by the reference parser
func splitBlock(raw []byte) (txs [][]byte) {
	d := &reader{b: raw[80:]}
	d.cs()
	p := 80 + d.p
	for p < len(raw) {
		_, k, e := refParse(raw[p:])
		if e != "" || k == 0 {
			panic("c09 client: reference parser refuses a transaction of a block built by chainkit: " + e)
		}
		txs = append(txs, raw[p:p+k])
		p += k
	}
	return
}

func asmCopy(hdr []byte, txs [][]byte) []byte { return asmBlock(hdr, txs, false) }

// cmpctMsg: a BIP152 (version 2) cmpctblock message for the transaction list txs; pre[i] = transaction i is prefilled.
// Returns the payload and the transactions a blocktxn has to bring.
func cmpctMsg(hdr []byte, txs [][]byte, pre []bool, nonce []byte) (pl []byte, missing [][]byte) {
	w := new(bytes.Buffer)
	w.Write(hdr[:80])
	w.Write(nonce[:8])
	kk := sha256.Sum256(w.Bytes())
	k0, k1 := binary.LittleEndian.Uint64(kk[0:8]), binary.LittleEndian.Uint64(kk[8:16])
	var sids [][]byte
	npre := 0
	for i, t := range txs {
		if pre[i] {
			npre++
			continue
		}
		sid := siphash.Hash(k0, k1, sha256d(t)) & 0xffffffffffff
		var b [8]byte
		binary.LittleEndian.PutUint64(b[:], sid)
		sids = append(sids, b[:6])
		missing = append(missing, t)
	}
	putCS(w, uint64(len(sids)))
	for _, s := range sids {
		w.Write(s)
	}
	putCS(w, uint64(npre))
	exp := 0
	for i, t := range txs {
		if !pre[i] {
			continue
		}
		putCS(w, uint64(i-exp))
		w.Write(t)
		exp = i + 1
	}
	return w.Bytes(), missing
}

func blockTxnMsg(hash []byte, txs [][]byte) []byte {
	w := new(bytes.Buffer)
	w.Write(hash)
	putCS(w, uint64(len(txs)))
	for _, t := range txs {
		w.Write(t)
	}
	return w.Bytes()
}

type cliCopy struct {
	via  byte     // 'f' block message, 'a' cmpctblock complete (assembly A), 'b' cmpctblock + blocktxn (assembly B)
	what string   // how the copy differs from the block
	txs  [][]byte // transaction list of the copy ('a' / 'b', and 'f' when body is nil)
	body []byte   // 'f': the payload when it is not a well-formed list
}

func (c *cliCopy) data(hdr []byte) []byte {
	if c.body != nil {
		return c.body
	}
	return asmCopy(hdr, c.txs)
}

// badList: another transaction list behind the same header
func badList(g *vlib.Rng, real [][]byte, fat int) ([][]byte, string) {
	n := len(real)
	cp := append([][]byte{}, real...)
	extra := func() []byte { return cliTx(g, fat).SerializeNew() }
	for try := 0; try < 8; try++ {
		switch g.Intn(8) {
		case 0:
			if n >= 2 {
				return cp[:1+g.Intn(n-1)], "tail-dropped"
			}
		case 1:
			if n >= 3 {
				i := 1 + g.Intn(n-1)
				return append(cp[:i:i], cp[i+1:]...), "one-dropped"
			}
		case 2:
			return append(cp, extra()), "one-appended"
		case 3:
			k := 1 + g.Intn(3)
			for ; k > 0; k-- {
				cp = append(cp, extra())
			}
			return cp, "some-appended"
		case 4:
			if n >= 2 {
				cp[1+g.Intn(n-1)] = extra()
				return cp, "one-replaced"
			}
		case 5:
			if n >= 3 {
				i, j := 1+g.Intn(n-1), 1+g.Intn(n-1)
				if i != j && !bytes.Equal(cp[i], cp[j]) {
					cp[i], cp[j] = cp[j], cp[i]
					return cp, "two-swapped"
				}
			}
		case 6: // the coinbase and one more: the smallest list a lying peer needs
			if n >= 3 {
				return [][]byte{cp[0], cp[1+g.Intn(n-1)]}, "two-left"
			}
		case 7:
			return [][]byte{cp[0], extra()}, "coinbase-and-a-stranger"
		}
	}
	return append(cp, extra()), "one-appended"
}

func genBadCopy(g *vlib.Rng, hdr []byte, real [][]byte, full []byte, fat int) cliCopy {
	via := byte(g.Pick('f', 'a', 'a', 'b', 'b'))
	if via == 'f' && g.Chance(1, 2) {
		c := exact(full)
		switch g.Intn(3) {
		case 0:
			if len(c) > 101 {
				return cliCopy{via: 'f', what: "body-cut", body: c[:100+g.Intn(len(c)-100)]}
			}
		case 1:
			p := 81 + g.Intn(len(c)-81)
			c[p] ^= byte(1 << uint(g.Intn(8)))
			return cliCopy{via: 'f', what: "body-bitflip", body: c}
		}
		c[80] = byte(g.Pick(1, 2, int(c[80])+1, int(c[80])-1, 0xfc))
		if len(c) >= 100 && c[80] != full[80] {
			return cliCopy{via: 'f', what: "count-changed", body: c}
		}
	}
	l, what := badList(g, real, fat)
	return cliCopy{via: via, what: what, txs: l}
}

// ---------------------------------------------------------------- one case

func cliObjSeg(outcome string, bl *btc.Block) string { return objSeg(outcome, bl) }

type cliCase struct {
	seed uint64
}

func cliDoc(seed uint64, extra map[string]interface{}) map[string]interface{} {
	d := map[string]interface{}{"op": "client", "case": strconv.FormatUint(seed, 10),
		"note": "the case is regenerated from this number (block, refused copies, entry path of the real block, disk-cache fault)"}
	for k, v := range extra {
		d[k] = v
	}
	return d
}

// deliver sends one copy through the real handlers. It returns false when the peer could not get the copy in.
func (e *cliEnv) deliver(c *network.OneConnection, hdr []byte, hash *btc.Uint256, cp *cliCopy, g *vlib.Rng) (panicked string) {
	defer func() {
		if x := recover(); x != nil {
			panicked = fmt.Sprint(x)
		}
	}()
	hushed(func() {
		switch cp.via {
		case 'f':
			c.VerifDispatch("block", exact(cp.data(hdr)), false)
		case 'a':
			pre := make([]bool, len(cp.txs))
			for i := range pre {
				pre[i] = true
			}
			pl, _ := cmpctMsg(hdr, cp.txs, pre, g.Bytes(8))
			c.VerifDispatch("cmpctblock", pl, false)
		case 'b':
			pre := make([]bool, len(cp.txs))
			pre[0] = true
			nmiss := 0
			for i := 1; i < len(pre); i++ {
				pre[i] = g.Chance(1, 3)
				if !pre[i] {
					nmiss++
				}
			}
			if nmiss == 0 {
				pre[len(pre)-1] = false
				if len(pre) == 1 {
					pre[0] = false
				}
			}
			pl, missing := cmpctMsg(hdr, cp.txs, pre, g.Bytes(8))
			c.VerifDispatch("cmpctblock", pl, false)
			c.VerifDispatch("blocktxn", blockTxnMsg(hash.Hash[:], missing), false)
		}
	})
	return
}

func drainNetBlocks() (l []*network.BlockRcvd) {
	for {
		select {
		case b := <-network.NetBlocks:
			l = append(l, b)
		default:
			return
		}
	}
}

// runClientCase: one block, 0..3 refused copies, then the real block. disk = make the block large enough to be parked.
func runClientCase(seed uint64, disk bool, forced string) {
	e := cli
	g := vlib.NewRng(seed)
	// the block
	ntx := g.Pick(1, 2, 2, 3, 4, 5, 8, 12, 30)
	fat := 0
	if g.Chance(1, 12) {
		ntx = g.Pick(251, 252, 253, 254, 300)
	}
	if disk {
		fat = g.Pick(300, 900, 2500)
		if (ntx-1)*(fat+120) < 17000 {
			ntx = 17000/(fat+120) + 2 + g.Intn(6)
		}
	}
	var txs []*btc.Tx
	for i := 1; i < ntx; i++ {
		txs = append(txs, cliTx(g, fat))
	}
	var full []byte
	hushed(func() {
		full = e.k.Build(chainkit.BlockSpec{CoinbaseExtra: g.Bytes(6), Txs: txs})
	})
	hdr := exact(full[:80])
	hash := btc.NewSha2Hash(hdr)
	real := splitBlock(full)
	fresh := observeBlock(full, true)
	kind := "client-history"
	if disk {
		kind = "client-diskcache"
	}
	r.Eval(kind, "cli"+string(hdr))
	var copies []cliCopy
	nbad := g.Pick(0, 1, 1, 1, 2, 2, 3)
	if disk {
		nbad = g.Pick(0, 0, 1)
	}
	for i := 0; i < nbad; i++ {
		copies = append(copies, genBadCopy(g, hdr, real, full, fat))
	}
	final := cliCopy{via: byte(g.Pick('f', 'f', 'f', 'a', 'b')), what: "the-block", txs: real}
	if disk {
		final.via = 'f' // only netBlockReceived parks a block
	}
	shape := ""
	for _, c := range copies {
		shape += fmt.Sprintf("%c(%s) ", c.via, c.what)
	}
	shape += fmt.Sprintf("%c(%s)", final.via, final.what)
	doc := cliDoc(seed, map[string]interface{}{"history": shape, "block_txs": len(real), "block_len": len(full), "disk": disk, "fault": forced})
	if fresh.err != "none" || fresh.panicked != "" || len(fresh.txs) != len(real) {
		r.PropFail("client-block-not-decoded", fmt.Sprintf("a fresh btc.Block of a valid %d-transaction block: BuildTxList()=%s %s, %d transactions", len(real), fresh.err, fresh.panicked, len(fresh.txs)), doc)
		return
	}
	beat("the node's handlers on history "+shape, doc)
	drainNetBlocks()
	// the model follows the same history (small cases): state of the object after every refused copy, then the delivery
	var model []string
	total := len(full)
	for _, c := range copies {
		total += len(c.data(hdr))
	}
	if total <= 60000 && !cliNoModel {
		line := "cli " + vlib.Hex(hdr)
		for _, c := range copies {
			line += fmt.Sprintf(" %c:%s", c.via, vlib.Hex(c.data(hdr)))
		}
		line += fmt.Sprintf(" %c:%s", final.via, vlib.Hex(full))
		model = strings.Fields(o.MustAsk(line))
	} else {
		r.Hit("client-model-skipped:large")
	}
	idx := hash.BIdx()
	var b2g *network.OneBlockToGet
	for i := range copies {
		cp := &copies[i]
		r.Hit(fmt.Sprintf("client-refused-copy:%c:%s", cp.via, cp.what))
		beat(fmt.Sprintf("the node's handler for copy %d of history %s", i, shape), doc)
		peer := e.peer(i % 2)
		if p := e.deliver(peer, hdr, hash, cp, g); p != "" {
			r.PropFail("client-handler-panic", fmt.Sprintf("history %s: the handler panicked on copy %d: %s", shape, i, p), doc)
			return
		}
		if got := drainNetBlocks(); len(got) != 0 {
			// (cannot happen with another transaction list unless the Merkle root collides)
			r.PropFail("client-wrong-copy-accepted", fmt.Sprintf("history %s: copy %d (%s) is not the block, yet a block was handed to the chain thread", shape, i, cp.what), doc)
			return
		}
		network.MutexRcv.Lock()
		b2g = network.BlocksToGet[idx]
		network.MutexRcv.Unlock()
		if b2g == nil {
			r.Hit("client-block-given-up-after-refused-copy")
			return
		}
		if model != nil {
			seg := cliObjSeg("refused", b2g.Block)
			if i+1 >= len(model) || model[i+1] != seg {
				m := "(none)"
				if i+1 < len(model) {
					m = model[i+1]
				}
				r.TieFail("tie-client-object", fmt.Sprintf("history %s: after refused copy %d the node's Block object is %s, the model of the install/discard statements says %s", shape, i, short([]byte(seg)), short([]byte(m))), doc)
				return
			}
			r.TieOK()
		}
	}
	// the real block
	r.Hit(fmt.Sprintf("client-real-block-via:%c", final.via))
	beat("the node's handler for the real block of history "+shape, doc)
	honest := e.peer(2)
	if p := e.deliver(honest, hdr, hash, &final, g); p != "" {
		r.PropFail("client-handler-panic", fmt.Sprintf("history %s: the handler panicked on the real block: %s", shape, p), doc)
		return
	}
	got := drainNetBlocks()
	var rcvd *network.BlockRcvd
	for _, b := range got {
		if b.BlockTreeNode != nil && b.BlockTreeNode.BlockHash.Equal(hash) {
			rcvd = b
		}
	}
	if rcvd == nil {
		st := honest.VerifState()
		detail := ""
		network.MutexRcv.Lock()
		if b := network.BlocksToGet[idx]; b != nil && b.Block != nil {
			detail = fmt.Sprintf("; the node's Block object now has TxCount=%d TxOffset=%d len(Txs)=%d BlockWeight=%d for %d bytes", b.Block.TxCount, b.Block.TxOffset, len(b.Block.Txs), b.Block.BlockWeight, len(b.Block.Raw))
		}
		network.MutexRcv.Unlock()
		r.PropFail("client-valid-block-refused", fmt.Sprintf("history %s: the VALID block (%d transactions, %d bytes; a fresh btc.Block decodes it: BlockWeight %d) was not handed to the chain thread after the refused copies; sender banned=%v (%s)%s",
			shape, len(real), len(full), fresh.weight, st.Banit, st.BanReason, detail), doc)
		return
	}
	if rcvd.Block != nil {
		r.Hit("client-real-block:in-memory")
		bl := rcvd.Block
		mine := objTxs(bl)
		if bl.TxCount != fresh.txCount || bl.BlockWeight != fresh.weight || strings.Join(mine, " ") != strings.Join(fresh.txs, " ") || !bytes.Equal(bl.Raw, full) {
			r.PropFail("client-block-stale", fmt.Sprintf("history %s: the block handed to the chain thread has TxCount=%d BlockWeight=%d and %d transactions; a fresh btc.Block of the same %d bytes has %d/%d/%d (%s)",
				shape, bl.TxCount, bl.BlockWeight, len(mine), len(full), fresh.txCount, fresh.weight, len(fresh.txs), firstDiff(strings.Join(fresh.txs, " "), strings.Join(mine, " "))), doc)
			return
		}
		if !cliRefIds(bl.Txs, real, shape, doc) {
			return
		}
		if model != nil {
			seg := cliObjSeg("ok", bl)
			if model[len(model)-1] != seg {
				r.TieFail("tie-client-object", fmt.Sprintf("history %s: the delivered Block object and the model differ: %s", shape, firstDiff(model[len(model)-1], seg)), doc)
				return
			}
			r.TieOK()
		}
		return
	}
	// parked on disk
	r.Hit("client-real-block:parked-on-disk")
	diskCase(g, forced, hash, full, real, fresh, shape, doc)
}

// cliRefIds: Txs[i].Hash against the reference parser's txid
func cliRefIds(txs []*btc.Tx, real [][]byte, shape string, doc map[string]interface{}) bool {
	for j, tx := range txs {
		ref, n, e := refParse(real[j])
		if e != "" || n != len(real[j]) {
			continue
		}
		if !bytes.Equal(tx.Hash.Hash[:], sha256d(refSerialize(&ref, false))) {
			r.PropFail("client-block-txid", fmt.Sprintf("history %s: Txs[%d].Hash=%s of the block handed to the chain thread is not the txid", shape, j, vlib.Hex(tx.Hash.Hash[:])), doc)
			return false
		}
	}
	return true
}

// ---------------------------------------------------------------- the disk cache

type drvProc struct {
	bin string
	dir string
	cmd *exec.Cmd
	in  io.WriteCloser
	out *bufio.Reader
	err string
}

// buildDrv compiles <repo>/client with clientdrv.go.txt added to the package through an overlay
func buildDrv() *drvProc {
	d := &drvProc{}
	dir, err := os.MkdirTemp("", "vc09drv")
	if err != nil {
		d.err = err.Error()
		return d
	}
	d.dir = dir
	src := filepath.Join(dir, "drv.go")
	os.WriteFile(src, clientDrvSrc, 0600)
	root := vtrans.RepoRoot()
	ov, _ := json.Marshal(map[string]interface{}{"Replace": map[string]string{filepath.Join(root, "client", "zz_verif_c09_drv.go"): src}})
	ovf := filepath.Join(dir, "overlay.json")
	os.WriteFile(ovf, ov, 0600)
	d.bin = filepath.Join(dir, "client")
	cmd := exec.Command("go", "build", "-tags", "verif", "-overlay", ovf, "-o", d.bin, "./client")
	cmd.Dir = root
	cmd.Env = append(os.Environ(), "GOFLAGS=-mod=mod")
	if out, err := cmd.CombinedOutput(); err != nil {
		d.err = err.Error() + ": " + string(out)
	}
	return d
}

func (d *drvProc) start() bool {
	if d.err != "" {
		return false
	}
	d.cmd = exec.Command(d.bin)
	d.cmd.Env = append(os.Environ(), "VERIF_C09_DRV=1")
	d.cmd.Dir = d.dir
	in, _ := d.cmd.StdinPipe()
	out, _ := d.cmd.StdoutPipe()
	if err := d.cmd.Start(); err != nil {
		d.err = err.Error()
		return false
	}
	d.in, d.out = in, bufio.NewReaderSize(out, 1<<20)
	return true
}

func (d *drvProc) stop() {
	if d.cmd != nil {
		d.in.Close()
		d.cmd.Process.Kill()
		d.cmd.Wait()
		d.cmd = nil
	}
	if d.dir != "" {
		os.RemoveAll(d.dir)
	}
}

// ask: one request; "crash" when the process died on it (a panic outside the main goroutine)
func (d *drvProc) ask(line string) string {
	if d.cmd == nil && !d.start() {
		return "no-driver"
	}
	if _, err := io.WriteString(d.in, line+"\n"); err != nil {
		d.cmd.Process.Kill()
		d.cmd.Wait()
		d.cmd = nil
		return "crash"
	}
	ans, err := d.out.ReadString('\n')
	if err != nil {
		d.cmd.Process.Kill()
		d.cmd.Wait()
		d.cmd = nil
		return "crash"
	}
	return strings.TrimSpace(ans)
}

// hashesWant: what netBlockReceived stores for a block (wtxid, and the txid too when the transaction has a witness)
func hashesWant(fresh blkObs, real [][]byte) []byte {
	var b []byte
	for i, s := range fresh.txs {
		f := strings.Split(s, ":")
		ref, _, _ := refParse(real[i])
		b = append(b, vlib.UnHex(f[1])...)
		if ref.hasWit {
			b = append(b, vlib.UnHex(f[0])...)
		}
	}
	return b
}

func hexOrDash(b []byte) string {
	if len(b) == 0 {
		return "-"
	}
	return vlib.Hex(b)
}

// applyHashesFault: what an interrupted / failed write (or a stray file) leaves of the side file. forced "" = drawn.
func applyHashesFault(g *vlib.Rng, forced string, hs []byte) (fault string, newHs []byte, have bool) {
	total := len(hs)
	sel := forced
	if sel == "" {
		sel = []string{"complete", "missing", "extended", "head", "tail-small", "tail-small", "tail-big", "record", "anywhere", "anywhere"}[g.Intn(10)]
	}
	clamp := func(k int) int {
		if k > total {
			return total
		}
		return k
	}
	switch {
	case sel == "complete":
		return "complete", hs, true
	case sel == "missing":
		return "hashes-missing", nil, false
	case sel == "extended":
		return "hashes-extended", append(exact(hs), g.Bytes(g.Pick(1, 31, 32, 33, 64))...), true
	case sel == "head":
		k := clamp(g.Pick(0, 1, 31, 32, 33, 64))
		return fmt.Sprintf("hashes-cut-head:%d", k), hs[:k], true
	case sel == "tail-small":
		k := clamp(g.Pick(1, 5, 31, 32))
		return fmt.Sprintf("hashes-cut-tail:-%d", k), hs[:total-k], true
	case sel == "tail-big":
		k := clamp(g.Pick(33, 63, 64, 65, 96))
		return fmt.Sprintf("hashes-cut-tail:-%d", k), hs[:total-k], true
	case sel == "record":
		return "hashes-cut-at-record", hs[:32*g.Intn(total/32)], true
	case strings.HasPrefix(sel, "tail:-"):
		k, _ := strconv.Atoi(sel[6:])
		k = clamp(k)
		return fmt.Sprintf("hashes-cut-tail:-%d", k), hs[:total-k], true
	case strings.HasPrefix(sel, "head:"):
		k, _ := strconv.Atoi(sel[5:])
		k = clamp(k)
		return fmt.Sprintf("hashes-cut-head:%d", k), hs[:k], true
	}
	return "hashes-cut-anywhere", hs[:g.Intn(total)], true
}

// diskCorpus: the fault classes named by the defect fixed in /repo 06ce6a22 (a side file that lost its last 1..32 bytes was
// accepted) and their neighbours, each on a block of its own, on every run
var diskCorpus = []string{"complete", "missing", "tail:-1", "tail:-5", "tail:-31", "tail:-32", "tail:-33", "tail:-64", "head:0", "head:1", "head:32", "record", "extended"}

// diskCase: the block was parked by the real netBlockReceived. Check what it wrote, damage the files the way an
// interrupted / failed write does, read the block back with the real get_block_from_disk_cache.
func diskCase(g *vlib.Rng, forced string, hash *btc.Uint256, full []byte, real [][]byte, fresh blkObs, shape string, doc map[string]interface{}) {
	e := cli
	fname := common.TempBlocksDir() + hash.String()
	defer os.Remove(fname)
	defer os.Remove(fname + ".hashes")
	dat, e1 := os.ReadFile(fname)
	hs, e2 := os.ReadFile(fname + ".hashes")
	want := hashesWant(fresh, real)
	if e1 != nil || e2 != nil || !bytes.Equal(dat, full) || !bytes.Equal(hs, want) {
		r.PropFail("diskcache-written-wrong", fmt.Sprintf("history %s: netBlockReceived parked the block: block file %d bytes (block %d, err %v), .hashes %d bytes (wtxid[+txid] of %d transactions = %d bytes, err %v); first difference of .hashes at %s",
			shape, len(dat), len(full), e1, len(hs), len(real), len(want), e2, firstDiff(vlib.Hex(want), vlib.Hex(hs))), doc)
		return
	}
	if len(full) <= 60000 && !cliNoModel {
		if m := o.MustAsk("hashes " + vlib.Hex(full)); m != hexOrDash(hs) {
			r.TieFail("tie-diskcache-hashes-file", "model of the .hashes file and the file netBlockReceived wrote differ: "+firstDiff(m, vlib.Hex(hs)), doc)
			return
		}
		r.TieOK()
	}
	// the fault
	total := len(hs)
	fault, newHs, haveHs := applyHashesFault(g, forced, hs)
	newDat := dat
	if g.Chance(1, 10) {
		switch g.Intn(3) {
		case 0:
			newDat = dat[:81+g.Intn(len(dat)-81)]
			fault += "+block-file-cut"
		case 1:
			newDat = dat[:g.Intn(81)]
			fault += "+block-file-cut-in-header"
		case 2:
			newDat = nil
			fault += "+block-file-missing"
		}
	}
	r.Hit("diskcache-fault:" + strings.SplitN(fault, ":", 2)[0])
	if haveHs {
		os.WriteFile(fname+".hashes", newHs, 0600)
	} else {
		os.Remove(fname + ".hashes")
	}
	if newDat == nil {
		os.Remove(fname)
	} else if len(newDat) != len(dat) {
		os.WriteFile(fname, newDat, 0600)
	}
	doc["disk_fault"] = fault
	doc["hashes_len"] = fmt.Sprintf("%d of %d", len(newHs), total)
	if e.drv == nil {
		unwatched(func() { e.drv = buildDrv() })
	}
	beat("get_block_from_disk_cache (child process), fault "+fault+", history "+shape, doc)
	ans := e.drv.ask("get " + common.GocoinHomeDir + " " + hash.String())
	if ans == "no-driver" {
		r.TieFail("tie-diskcache-driver", "the client program with the C09 driver file does not build / start against the repository: "+short([]byte(e.drv.err)), doc)
		return
	}
	// the property: a loud failure, or exactly the ids / sizes / weight of the block
	f := strings.Fields(ans)
	switch {
	case ans == "crash" || (len(f) > 0 && f[0] == "panic"):
		r.Hit("diskcache-answer:loud-failure")
		if bytes.Equal(newDat, dat) && (!haveHs || bytes.Equal(newHs, hs)) {
			r.PropFail("diskcache-intact-refused", fmt.Sprintf("history %s, fault %s: get_block_from_disk_cache fails (%s) although both files are as written", shape, fault, short([]byte(ans))), doc)
			return
		}
	case len(f) == 5 && f[0] == "ok":
		r.Hit("diskcache-answer:block")
		ids := strings.Split(f[4], ",")
		if len(newDat) != len(dat) {
			r.PropFail("diskcache-cut-block-accepted", fmt.Sprintf("history %s, fault %s: a block file of %d of %d bytes was turned into a block of %s transactions", shape, fault, len(newDat), len(dat), f[2]), doc)
			return
		}
		if f[1] != fmt.Sprint(fresh.txCount) || f[2] != fmt.Sprint(len(fresh.txs)) || f[3] != fmt.Sprint(fresh.weight) || strings.Join(ids, " ") != strings.Join(fresh.txs, " ") {
			bad := 0
			for i := range ids {
				if i >= len(fresh.txs) || ids[i] != fresh.txs[i] {
					bad++
				}
			}
			r.PropFail("diskcache-wrong-txid", fmt.Sprintf("history %s, fault %s (.hashes %d of %d bytes): get_block_from_disk_cache returned a block with TxCount=%s, %s transactions, BlockWeight=%s of which %d differ in Hash/wTxID/Size/NoWitSize from the block as decoded on arrival (%d/%d/%d): %s",
				shape, fault, len(newHs), total, f[1], f[2], f[3], bad, fresh.txCount, len(fresh.txs), fresh.weight, firstDiff(strings.Join(fresh.txs, " "), strings.Join(ids, " "))), doc)
			return
		}
	default:
		r.TieFail("tie-diskcache-driver", "unexpected answer of the driver: "+short([]byte(ans)), doc)
		return
	}
	// files are consumed whatever happened
	if _, er := os.Stat(fname); er == nil {
		r.Hit("diskcache-block-file-left-behind")
	}
	// model
	if len(full) <= 60000 && !cliNoModel {
		hh := "none"
		if haveHs {
			hh = hexOrDash(newHs)
		}
		dd := "none"
		if newDat != nil {
			dd = hexOrDash(newDat)
		}
		m := o.MustAsk("dcache " + dd + " " + hh)
		mine := ans
		if len(f) > 0 && f[0] == "panic" || ans == "crash" {
			mine = "panic"
		}
		if m == mine {
			r.TieOK()
		} else {
			r.TieFail("tie-diskcache", fmt.Sprintf("fault %s: model of get_block_from_disk_cache and the real function differ: %s", fault, firstDiff(m, mine)), doc)
		}
	}
}

// ---------------------------------------------------------------- stream

func clientStream(g *vlib.Rng) {
	beat("setting up the synthetic node", nil)
	cli = cliSetup()
	defer cli.close()
	n := r.N(70, 900)
	for i := 0; i < n; i++ {
		runClientCase(g.U64(), false, "")
	}
	for _, f := range diskCorpus {
		runClientCase(g.U64(), true, f)
	}
	m := r.N(40, 500)
	for i := 0; i < m; i++ {
		runClientCase(g.U64(), true, "")
	}
}

func replayClient(seed string, disk bool, forced string) {
	s, err := strconv.ParseUint(seed, 10, 64)
	if err != nil {
		fmt.Println("bad replay file: case", seed)
		os.Exit(3)
	}
	cli = cliSetup()
	defer cli.close()
	runClientCase(s, disk, forced)
}

var _ = chain.NewChainExt
