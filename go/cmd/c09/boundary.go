// boundary.go — the CompactSize RANGES as an input class of their own.
//
// Every length / count of the wire format is a CompactSize with four encodings (1, 3, 5, 9 bytes) chosen by the VALUE, in
// the reader (vlenWire / VULe / VLen / ReadVLen) and, independently, in the writers (WriteVlen behind Serialize /
// SerializeNew / SetHash / BuildTxList's hashing workers; PutULe; PutVlen; VLenSize). A range that no input reaches is a
// range in which reader and writers are never compared: values below 65536 cover two of the four. This file drives
//   1. the writers and readers DIRECTLY over values of all four ranges (every power of two ±1, the range ends, values whose
//      bytes are all different, random values per range): WriteVlen / PutULe / VLenSize against the model (Base.putULe /
//      vlenSize, oracle ops putule / vlensize) and the wire format, VULe against the model (oracle op vule), and the
//      round trip ReadVLen(WriteVlen(v)) = v on the real code — the only place the 9-byte range (lengths from 2^32 on,
//      not materialisable as a transaction here) is reached;
//   2. whole TRANSACTIONS in which ONE length field — input count, scriptSig length, output count, pk_script length,
//      witness item count, witness item length — takes a value at the ends of the 1-, 3- and 5-byte ranges or inside the
//      5-byte range, in the legacy and in the BIP144 layout, each through the complete checkTx predicate (re-encoding,
//      txid / wtxid, sizes, weight, TxSize, allocation, model), plus a cut and a damaged length prefix of each;
//   3. the same transactions built BY HAND as btc.Tx through both serialisers (checkEncTx), and
//   4. inside BLOCKS (Txs[i].Hash comes from BuildTxList's workers, which re-serialise a witness transaction themselves;
//      the header's Merkle field is the root over the reference txids).
package main

import (
	"bytes"
	"encoding/binary"
	"fmt"
	"math/bits"
	"strconv"

	"github.com/piotrnar/gocoin/lib/btc"
	"verif/vlib"
)

// ---------------------------------------------------------------- 1. writers / readers called directly

// csSweep: values of all four CompactSize ranges
func csSweep(g *vlib.Rng) []uint64 {
	seen := map[uint64]bool{}
	var out []uint64
	add := func(v uint64) {
		if !seen[v] {
			seen[v] = true
			out = append(out, v)
		}
	}
	for k := uint(0); k < 64; k++ {
		p := uint64(1) << k
		add(p - 1)
		add(p)
		add(p + 1)
	}
	for _, v := range []uint64{0xfc, 0xfd, 0xfe, 0xff, 0x100, 0xfffe, 0xffff, 0x10000, 0x10001, 0xfffffffe, 0xffffffff, 0x100000000, 0x100000001, ^uint64(0) - 1, ^uint64(0),
		0x0201, 0x030201, 0x04030201, 0x0504030201, 0x060504030201, 0x07060504030201, 0x0807060504030201, 0x80c0e0f0f8fcfeff} {
		add(v)
	}
	n := r.N(40, 2000)
	for i := 0; i < n; i++ {
		x := g.U64()
		add(x % 0xfd)
		add(0xfd + x%(0x10000-0xfd))
		add(0x10000 + x%(0x100000000-0x10000))
		add(0x100000000 + x%(^uint64(0)-0x100000000))
		add(x >> uint(g.Intn(64))) // every bit length
	}
	return out
}

func refCS(v uint64) []byte {
	var w bytes.Buffer
	putCS(&w, v)
	return w.Bytes()
}

func csRange(v uint64) string {
	switch {
	case v < 0xfd:
		return "1-byte"
	case v < 0x10000:
		return "3-byte"
	case v < 0x100000000:
		return "5-byte"
	}
	return "9-byte"
}

// checkWriters: one value through every CompactSize writer / reader of lib/btc/funcs.go
func checkWriters(v uint64, tail []byte) {
	want := refCS(v)
	doc := map[string]interface{}{"op": "direct:CompactSize", "v": strconv.FormatUint(v, 10)}
	beat("WriteVlen / PutULe / VLenSize / VULe / ReadVLen directly", doc)
	rg := csRange(v)
	model := o.MustAsk(fmt.Sprintf("putule %d", v))
	if model != vlib.Hex(want) {
		r.TieFail("tie-direct-putule-ref", fmt.Sprintf("model putULe(%d) = %s, the harness's reference CompactSize writer gives %s", v, model, vlib.Hex(want)), doc)
	}
	prop := func(key, fn, got string) {
		r.PropFail(key, fmt.Sprintf("btc.%s(%d) (%s range, bit length %d) gives %s; the CompactSize encoding of that value is %s", fn, v, rg, bits.Len64(v), got, vlib.Hex(want)), doc)
	}
	// WriteVlen — the writer behind Tx.Serialize / SerializeNew, i.e. behind every witness txid
	{
		real := "panic"
		func() {
			defer func() { recover() }()
			var w bytes.Buffer
			btc.WriteVlen(&w, v)
			real = vlib.Hex(w.Bytes())
		}()
		r.Eval("direct:WriteVlen:"+rg, fmt.Sprint("WriteVlen", v))
		if real == model && real == vlib.Hex(want) {
			r.TieOK()
		} else {
			prop("direct-writevlen", "WriteVlen", real)
		}
		// round trip on the real code alone: what WriteVlen wrote, ReadVLen reads back (and nothing more)
		if b := vlib.UnHex(real); real != "panic" {
			rd := bytes.NewReader(append(exact(b), tail...))
			back, er := uint64(0), error(nil)
			func() {
				defer func() {
					if x := recover(); x != nil {
						er = fmt.Errorf("panic: %v", x)
					}
				}()
				back, er = btc.ReadVLen(rd)
			}()
			if er != nil || back != v || rd.Len() != len(tail) {
				r.PropFail("direct-vlen-roundtrip", fmt.Sprintf("btc.ReadVLen(btc.WriteVlen(%d)) = %d (error %v, %d bytes left of %d): the reader does not read back what the writer wrote (%s range)", v, back, er, rd.Len(), len(tail), rg), doc)
			} else {
				r.TieOK()
			}
		}
	}
	// PutULe — the same encoding into a buffer; a buffer of exactly the encoding's size must do
	for _, bl := range []int{9, len(want)} {
		real := "panic"
		func() {
			defer func() { recover() }()
			buf := make([]byte, bl)
			n := btc.PutULe(buf, v)
			real = vlib.Hex(buf[:n])
		}()
		r.Eval("direct:PutULe:"+rg, fmt.Sprint("PutULe", v, bl))
		if real == model && real == vlib.Hex(want) {
			r.TieOK()
		} else { // PutULe is the model's putULe by name, but no serialiser of this property calls it (users: the UTXO records, C10)
			r.TieFail("tie-direct-PutULe", fmt.Sprintf("btc.PutULe(buf[%d], %d) (%s range) gives %s; model putULe / the CompactSize encoding is %s", bl, v, rg, real, vlib.Hex(want)), doc)
		}
	}
	// VLenSize
	{
		real, ms := "panic", o.MustAsk(fmt.Sprintf("vlensize %d", v))
		func() {
			defer func() { recover() }()
			real = strconv.Itoa(btc.VLenSize(v))
		}()
		r.Eval("direct:VLenSize:"+rg, fmt.Sprint("VLenSize", v))
		if real == ms && real == strconv.Itoa(len(want)) {
			r.TieOK()
		} else if real != strconv.Itoa(len(want)) {
			r.PropFail("direct-vlensize", fmt.Sprintf("btc.VLenSize(%d) = %s, the CompactSize encoding %s has %d bytes", v, real, vlib.Hex(want), len(want)), doc)
		} else {
			r.TieFail("tie-direct-VLenSize", fmt.Sprintf("btc.VLenSize(%d) = %s, model vlenSize = %s", v, real, ms), doc)
		}
	}
	// VULe on the canonical encoding followed by other bytes, and on the 9-byte (possibly non-minimal) form
	nine := make([]byte, 9)
	nine[0] = 0xff
	binary.LittleEndian.PutUint64(nine[1:], v)
	for _, enc := range [][]byte{want, nine} {
		b := append(exact(enc), tail...)
		real := "panic"
		func() {
			defer func() { recover() }()
			x, n := btc.VULe(b)
			real = fmt.Sprintf("%d %d", x, n)
		}()
		r.Eval("direct:VULe:"+rg, "VULe"+string(b))
		ms := o.MustAsk("vule " + vlib.Hex(b))
		wantS := fmt.Sprintf("%d %d", v, len(enc))
		switch {
		case real == ms && real == wantS:
			r.TieOK()
		case real != wantS:
			r.PropFail("direct-vule", fmt.Sprintf("btc.VULe(%s) = %s, the bytes encode %s", short(b), real, wantS), map[string]interface{}{"op": "direct:VULe", "raw": vlib.Hex(b)})
		default:
			r.TieFail("tie-direct-VULe", fmt.Sprintf("btc.VULe(%s) = %s, model vule = %s", short(b), real, ms), map[string]interface{}{"op": "direct:VULe", "raw": vlib.Hex(b)})
		}
	}
}

func writersStream(g *vlib.Rng) {
	for _, v := range csSweep(g) {
		checkWriters(v, g.Bytes(g.Intn(4)))
	}
}

// ---------------------------------------------------------------- 2. one length field of a transaction at a range end

// the six kinds of length field of the wire format
var fieldClasses = []string{"scriptsig-len", "pkscript-len", "witness-item-len", "witness-item-count", "out-count", "in-count"}

// bytesPerUnit: what one unit of the field costs on the wire (bounds the values a class is given)
func bytesPerUnit(class string) int {
	switch class {
	case "in-count":
		return 41
	case "out-count":
		return 9
	}
	return 1
}

// rangeValues: values for one field — the ends of the 1- and 3-byte ranges and the first value of the 5-byte range
// always (whatever they cost: 65536 inputs are 2.7 MB), further values around and INSIDE the 5-byte range (low half zero,
// low half all ones, random; in the thorough tier also above 2^20) as far as `budget` bytes of wire data allow.
// Ascending, so that the smallest failing case is the one reported.
func rangeValues(g *vlib.Rng, class string, budget int) []uint64 {
	max := uint64(budget / bytesPerUnit(class))
	cand := []uint64{252, 253, 0xffff, 0x10000, 0x10001, 0x10000 + uint64(2+g.Intn(0xfffd)), 0x1ffff, 0x20000, 0x20000 + uint64(g.Intn(0x20000)), 0x30000 + uint64(g.Intn(0x10000))<<2,
		0x100000 + uint64(g.Intn(0x100000)), 0x200000 + uint64(g.Intn(0x80000))}
	var out []uint64
	for _, v := range cand {
		if v <= max || v == 252 || v == 253 || v == 0x10000 {
			out = append(out, v)
		}
	}
	return out
}

// fieldTx: a small valid transaction in which ONE field of the class has the value v (everything else small and random)
func fieldTx(g *vlib.Rng, class string, v int, wit bool) refTx {
	var t refTx
	t.ver = uint32(g.Pick(1, 2))
	t.lock = uint32(g.Pick(0, 500000, int(g.U64()&0xffffffff)))
	nin, nout := 1+g.Intn(3), 1+g.Intn(3)
	if class == "in-count" {
		nin = v
	}
	if class == "out-count" {
		nout = v
	}
	small := func() []byte {
		if nin+nout > 64 {
			if g.Chance(1, 16) {
				return g.Bytes(1 + g.Intn(3))
			}
			return nil
		}
		return g.Bytes(g.Intn(30))
	}
	for i := 0; i < nin; i++ {
		t.ins = append(t.ins, refIn{g.Bytes(32), uint32(g.Intn(4)), small(), uint32(g.Pick(0xffffffff, 0xfffffffe, int(g.U64()&0xffffffff)))})
	}
	for i := 0; i < nout; i++ {
		t.outs = append(t.outs, refOut{g.U64() >> 20, small()})
	}
	if class == "witness-item-len" || class == "witness-item-count" {
		wit = true
	}
	if wit {
		t.hasWit = true
		for i := 0; i < nin; i++ {
			var st [][]byte
			if nin <= 64 || g.Chance(1, 16) {
				for j := g.Intn(3); j > 0; j-- {
					st = append(st, small())
				}
			}
			t.wit = append(t.wit, st)
		}
		any := false
		for _, st := range t.wit {
			any = any || len(st) > 0
		}
		if !any { // not the superfluous-witness record
			t.wit[g.Intn(nin)] = [][]byte{g.Bytes(1 + g.Intn(8))}
		}
	}
	switch class {
	case "scriptsig-len":
		t.ins[g.Intn(nin)].script = g.Bytes(v)
	case "pkscript-len":
		t.outs[g.Intn(nout)].script = g.Bytes(v)
	case "witness-item-len":
		i := g.Intn(nin)
		st := append([][]byte{}, t.wit[i]...)
		st = append(st, g.Bytes(v))
		j := g.Intn(len(st))
		st[j], st[len(st)-1] = st[len(st)-1], st[j]
		t.wit[i] = st
	case "witness-item-count":
		st := make([][]byte, v)
		for j := range st {
			st[j] = []byte{}
			if g.Chance(1, 64) {
				st[j] = g.Bytes(1 + g.Intn(3))
			}
		}
		t.wit[g.Intn(nin)] = st
	}
	return t
}

// prefixOffset: where the CompactSize of value v (canonical form) first occurs in b, -1 if nowhere
func prefixOffset(b []byte, v uint64) int {
	return bytes.Index(b, refCS(v))
}

func boundaryStream(g *vlib.Rng) {
	budget := r.N(300000, 3000000) // wire bytes one case may take
	side := 0
	for round := r.N(1, 3); round > 0; round-- {
		boundaryRound(g, budget, &side)
	}
}

func boundaryRound(g *vlib.Rng, budget int, sidep *int) {
	side := *sidep
	defer func() { *sidep = side }()
	for ci, class := range fieldClasses {
		for vi, v := range rangeValues(g, class, budget) {
			wit := (ci+vi)%2 == 0
			t := fieldTx(g, class, int(v), wit)
			b := refSerialize(&t, true)
			kind := "range:" + class + ":" + csRange(v)
			checkTx(kind, b)
			side++
			if len(b) > 1<<20 {
				continue // megabytes of inputs: the case itself only
			}
			// the neighbourhood: a cut inside / just before the end, trailing bytes, the length prefix itself one up / one down
			switch side % 3 {
			case 0:
				checkTx(kind+":truncated", b[:len(b)-1-g.Intn(8)])
			case 1:
				checkTx(kind+":trailing", append(exact(b), g.Bytes(1+g.Intn(6))...))
			case 2:
				if p := prefixOffset(b, v); p >= 0 {
					c := exact(b)
					c[p+1] += byte(g.Pick(1, 255))
					checkTx(kind+":prefix-damaged", c)
				}
			}
			// 3. the same fields as a hand-built btc.Tx through both serialisers
			if v >= 0xffff && len(b) <= 400000 {
				checkEncTx(t, "enc-"+kind)
			}
		}
	}
	// 4. blocks holding such a transaction (byte-length classes: one per class and format; counts: the cheapest one)
	for ci, class := range []string{"scriptsig-len", "pkscript-len", "witness-item-len", "witness-item-count", "pkscript-len", "scriptsig-len"} {
		v := g.Pick(0x10000, 0x10001+g.Intn(0xfffe), 0x20000+g.Intn(0x10000))
		wit := ci < 4
		txs := [][]byte{refSerialize(&refTx{ver: 1, ins: []refIn{{make([]byte, 32), 0xffffffff, g.Bytes(2 + g.Intn(20)), 0xffffffff}}, outs: []refOut{{5000000000, g.Bytes(25)}}}, true)}
		for k := g.Intn(3); k > 0; k-- {
			st := fieldTx(g, "pkscript-len", g.Intn(100), g.Bool())
			txs = append(txs, refSerialize(&st, true))
		}
		ft := fieldTx(g, class, v, wit)
		txs = append(txs, refSerialize(&ft, true))
		for k := g.Intn(3); k > 0; k-- {
			st := fieldTx(g, "scriptsig-len", g.Intn(100), g.Bool())
			txs = append(txs, refSerialize(&st, true))
		}
		checkBlock("block-range:"+class+":"+csRange(uint64(v)), asmBlock(g.Bytes(80), txs, true))
	}
}
