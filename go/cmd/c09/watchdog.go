// watchdog.go — "decoding never … hangs": every case announces itself (beat) before it calls into gocoin; when no case
// finished for hangAfter(), the case in flight is reported as a concrete failing input (key decode-hang) and the run ends.
// Without this a hang inside btc.Block.BuildTxListExt (its worker goroutines and WaitGroup) or inside a handler that holds
// network.MutexRcv would stop the whole check: Go's own deadlock detector does not fire here because the client packages
// this harness links (client/network, txpool, peersdb) keep timer goroutines alive.
package main

import (
	"fmt"
	"sync"
	"sync/atomic"
	"time"
)

// the longest legitimate case (a 2.6 MB transaction through the Lean oracle, thorough tier) takes a few seconds
func hangAfter() time.Duration {
	if r != nil && r.Thorough() {
		return 120 * time.Second
	}
	return 45 * time.Second
}

type wdCase struct {
	what string
	doc  map[string]interface{}
}

var (
	wdBeats  uint64
	wdMu     sync.Mutex
	wdCur    wdCase
	wdPaused int32 // >0: something that is not decoding runs (compiling the driver program)
)

// unwatched runs f outside the watchdog's clock
func unwatched(f func()) {
	atomic.AddInt32(&wdPaused, 1)
	defer func() {
		atomic.AddUint64(&wdBeats, 1)
		atomic.AddInt32(&wdPaused, -1)
	}()
	f()
}

// beat: a case starts. doc must be enough to re-run it (-replay).
func beat(what string, doc map[string]interface{}) {
	wdMu.Lock()
	wdCur = wdCase{what, doc}
	wdMu.Unlock()
	atomic.AddUint64(&wdBeats, 1)
}

func startWatchdog() {
	go func() {
		last, since := atomic.LoadUint64(&wdBeats), time.Now()
		for {
			time.Sleep(time.Second)
			n := atomic.LoadUint64(&wdBeats)
			if n != last || atomic.LoadInt32(&wdPaused) > 0 {
				last, since = n, time.Now()
				continue
			}
			if time.Since(since) < hangAfter() {
				continue
			}
			wdMu.Lock()
			c := wdCur
			wdMu.Unlock()
			if c.doc == nil {
				c.doc = map[string]interface{}{"op": "none", "note": "no case had announced itself"}
			}
			r.PropFail("decode-hang", fmt.Sprintf("the call has not returned after %v (decoding must never hang): %s", hangAfter(), c.what), c.doc)
			r.Finish("run ended by the watchdog", "a call into the decoder did not return")
		}
	}()
}
