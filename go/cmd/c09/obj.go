// obj.go — ONE btc.Block object driven through a history of calls (NewBlock, UpdateContent, BuildTxListExt(false/true),
// BuildTxList, Clean, the client's hand-made reset) compared after every call with
//   (a) the Lean model of the stateful object (Model/WireBlockObj.lean, oracle op `obj`), and
//   (b) the property's own predicate: whatever happened before, a build must leave exactly what a FRESH object built
//       from the bytes the object holds now would carry (error class, TxCount, Txs with ids/sizes, BlockWeight,
//       MerkleRootMatch), must not panic, and after BuildTxList() every Txs[i].Hash must be the double-SHA256 of the
//       stripped serialisation given by the independent reference parser.
// Theorem side: Props.C09.block_object_history_independent.
package main

import (
	"bytes"
	"fmt"
	"strings"

	"github.com/piotrnar/gocoin/lib/btc"
	"verif/vlib"
)

type objOp struct {
	kind byte // 'u' UpdateContent, 'b' BuildTxListExt(false), 'B' BuildTxListExt(true) via BuildTxList, 'c' Clean, 'd' reset
	data []byte
}

func (op objOp) token() string {
	switch op.kind {
	case 'u':
		return "u:" + vlib.Hex(op.data)
	case 'd':
		return "d:" + vlib.Hex(op.data)
	case 'b':
		return "b0"
	case 'B':
		return "b1"
	}
	return "c"
}

func objErrClass(er error) string {
	if er == nil {
		return "ok"
	}
	s := er.Error()
	switch {
	case strings.Contains(s, "too short") || strings.Contains(s, "nil pointer"):
		return "tooShort"
	case strings.Contains(s, "NewTx failed"):
		return "txFailed"
	case strings.Contains(s, "txn_count"):
		return "badCount"
	}
	return "other-error(" + s + ")"
}

func objTxs(bl *btc.Block) []string {
	var l []string
	for _, tx := range bl.Txs {
		if tx == nil {
			l = append(l, "nil-pointer")
			continue
		}
		l = append(l, fmt.Sprintf("%s:%s:%d:%d", vlib.Hex(tx.Hash.Hash[:]), vlib.Hex(tx.WTxID().Hash[:]), tx.Size, tx.NoWitSize))
	}
	return l
}

func objSeg(outcome string, bl *btc.Block) string {
	txs := "nil"
	if bl.Txs != nil {
		txs = strings.Join(append([]string{fmt.Sprint(len(bl.Txs))}, objTxs(bl)...), ",")
	}
	return fmt.Sprintf("%s/%d/%d/%d/%d/%s", outcome, bl.TxCount, bl.TxOffset, bl.BlockWeight, bl.TotalInputs, txs)
}

// one call on the object, panics recovered (a recovered panic is an observation)
func objApply(bl *btc.Block, op objOp) (outcome string) {
	defer func() {
		if x := recover(); x != nil {
			outcome = "panic"
		}
	}()
	switch op.kind {
	case 'u':
		return objErrClass(bl.UpdateContent(exact(op.data)))
	case 'b':
		return objErrClass(bl.BuildTxListExt(false))
	case 'B':
		return objErrClass(bl.BuildTxList())
	case 'c':
		bl.Clean()
		return "ok"
	case 'd': // client/network/data.go, netBlockReceived: "discard the data we extracted from this one"
		bl.Raw = exact(op.data)
		bl.BlockWeight, bl.TotalInputs = 0, 0
		bl.TxCount, bl.TxOffset = 0, 0
		bl.Txs = nil
		return "ok"
	}
	return "?"
}

func objReplayDoc(data []byte, ops []objOp) map[string]interface{} {
	var toks []string
	for _, op := range ops {
		toks = append(toks, op.token())
	}
	return map[string]interface{}{"op": "obj", "data": vlib.Hex(data), "ops": strings.Join(toks, " ")}
}

func checkObj(kind string, data []byte, ops []objOp) {
	doc := objReplayDoc(data, ops)
	beat("a history of calls on one btc.Block object", doc)
	line := "obj " + vlib.Hex(data)
	shape := ""
	for _, op := range ops {
		line += " " + op.token()
		shape += string(op.kind)
	}
	r.Eval(kind+":len="+fmt.Sprint(len(ops)), "obj"+line)
	fail := func(k, what string) {
		r.PropFail(k, what+" history=NewBlock,"+shape+" first content="+short(data), doc)
	}
	var bl *btc.Block
	var er error
	func() {
		defer func() {
			if x := recover(); x != nil {
				fail("block-object-panic", "btc.NewBlock panicked: "+fmt.Sprint(x))
			}
		}()
		bl, er = btc.NewBlock(exact(data))
	}()
	var got []string
	if bl == nil {
		got = []string{"none"}
	} else {
		got = append(got, objSeg(objErrClass(er), bl))
		cur := data
		for i, op := range ops {
			out := objApply(bl, op)
			got = append(got, objSeg(out, bl))
			r.Hit("obj-op:" + string(op.kind) + ":" + out)
			if (op.kind == 'u' && len(op.data) >= 80) || op.kind == 'd' {
				cur = op.data
			}
			if !bytes.Equal(bl.Raw, cur) {
				fail("block-object-raw", fmt.Sprintf("after call %d (%c) Block.Raw is not the last content installed", i, op.kind))
				return
			}
			if op.kind != 'b' && op.kind != 'B' {
				continue
			}
			// the property: the result of a build is a function of the bytes the object holds NOW
			if out == "panic" {
				fail("block-object-panic", fmt.Sprintf("call %d: BuildTxListExt panicked on an object holding %d bytes", i, len(cur)))
				return
			}
			fresh := observeBlock(cur, op.kind == 'B')
			want := fresh.err
			if want == "none" {
				want = "ok"
			}
			if out != want {
				fail("block-object-stale", fmt.Sprintf("call %d: BuildTxListExt(%v) returned %s; a fresh Block of the same %d bytes gives %s", i, op.kind == 'B', out, len(cur), want))
				return
			}
			if out == "badCount" {
				continue
			}
			mine := objTxs(bl)
			if bl.TxCount != fresh.txCount || bl.BlockWeight != fresh.weight || strings.Join(mine, " ") != strings.Join(fresh.txs, " ") {
				fail("block-object-stale", fmt.Sprintf("call %d: after BuildTxListExt(%v) the object has TxCount=%d BlockWeight=%d and %d transactions; a fresh Block of the same bytes has %d/%d/%d (or their Hash/wTxID/Size/NoWitSize differ: %s)",
					i, op.kind == 'B', bl.TxCount, bl.BlockWeight, len(mine), fresh.txCount, fresh.weight, len(fresh.txs), firstDiff(strings.Join(fresh.txs, " "), strings.Join(mine, " "))))
				return
			}
			mm, mpanic := false, ""
			func() {
				defer func() {
					if x := recover(); x != nil {
						mpanic = fmt.Sprint(x)
					}
				}()
				mm = bl.MerkleRootMatch()
			}()
			if mpanic != fresh.mpanic || (op.kind == 'B' && mm != fresh.mmatch) {
				fail("block-object-stale", fmt.Sprintf("call %d: MerkleRootMatch()=%v/%s on the object, %v/%s on a fresh Block of the same bytes", i, mm, mpanic, fresh.mmatch, fresh.mpanic))
				return
			}
			if op.kind == 'B' { // "always calculating TX IDs": txid by the independent parser
				for j, tx := range bl.Txs {
					ref, n, e := refParse(tx.Raw)
					if e != "" || n != len(tx.Raw) {
						fail("block-object-txid", fmt.Sprintf("call %d: Txs[%d].Raw is not one transaction for the reference parser (%s)", i, j, e))
						return
					}
					if !bytes.Equal(tx.Hash.Hash[:], sha256d(refSerialize(&ref, false))) {
						fail("block-object-txid", fmt.Sprintf("call %d: after BuildTxList() Txs[%d].Hash=%s is not the txid", i, j, vlib.Hex(tx.Hash.Hash[:])))
						return
					}
				}
			}
		}
	}
	ans := o.MustAsk(line)
	if ans == strings.Join(got, " ") {
		r.TieOK()
	} else {
		r.TieFail("tie-block-object", "model of the stateful Block object and btc.Block disagree; history=NewBlock,"+shape+" "+firstDiff(ans, strings.Join(got, " ")), doc)
	}
}

// contents: blocks of 1..6 transactions with the right Merkle field, and damaged relatives
func objContent(g *vlib.Rng) []byte {
	ntx := g.Pick(1, 1, 2, 3, 4, 6)
	b0, txs := genBlock(g, ntx)
	b := asmBlock(b0[:80], txs, true)
	switch g.Intn(12) {
	case 0: // header only
		return exact(b[:80])
	case 1: // shorter than a header
		return exact(b[:g.Intn(80)])
	case 2: // cut inside the transactions: a failing decode with some transactions built
		return exact(b[:81+g.Intn(len(b)-81)])
	case 3: // count field damaged
		c := exact(b)
		c[80] = byte(g.Pick(0, 0xfd, 0xfe, 0xff, int(c[80])+1, int(c[80])+2))
		return c
	case 4: // one more transaction announced than present
		c := exact(b)
		c[80]++
		return c
	case 5:
		return append(exact(b), g.Bytes(1+g.Intn(20))...)
	case 6: // a byte inside the transactions changed
		c := exact(b)
		c[81+g.Intn(len(c)-81)] ^= byte(1 << uint(g.Intn(8)))
		return c
	case 7: // only the count
		return exact(b[:81])
	}
	return b
}

func genObjHistory(g *vlib.Rng) ([]byte, []objOp) {
	data := objContent(g)
	pool := [][]byte{data}
	n := 1 + g.Intn(8)
	var ops []objOp
	for i := 0; i < n; i++ {
		switch g.Pick(0, 0, 0, 1, 1, 1, 2, 2, 2, 3, 4) {
		case 0:
			ops = append(ops, objOp{kind: 'b'})
		case 1:
			ops = append(ops, objOp{kind: 'B'})
		case 2:
			c := objContent(g)
			pool = append(pool, c)
			ops = append(ops, objOp{kind: 'u', data: c})
		case 3:
			ops = append(ops, objOp{kind: 'c'})
		case 4: // the client hands back a content the object held before (or the block as received): at least a header
			c := pool[g.Intn(len(pool))]
			if len(c) < 80 {
				c = objContent(g)
				for len(c) < 80 {
					c = objContent(g)
				}
			}
			ops = append(ops, objOp{kind: 'd', data: c})
		}
	}
	return data, ops
}

// hand-made histories (shapes, not inputs, named by the property: hash-less build then BuildTxList; failed build then
// retry; content replaced then re-parsed; content replaced by a bare header; reset then build)
func objCorpus(g *vlib.Rng) {
	full := func() []byte {
		b0, txs := genBlock(g, 2+g.Intn(3))
		return asmBlock(b0[:80], txs, true)
	}
	a, b := full(), full()
	cut := exact(a[:len(a)-1-g.Intn(20)])
	checkObj("obj-corpus", a, []objOp{{kind: 'b'}, {kind: 'B'}})
	checkObj("obj-corpus", a, []objOp{{kind: 'B'}, {kind: 'b'}, {kind: 'B'}, {kind: 'c'}})
	checkObj("obj-corpus", cut, []objOp{{kind: 'B'}, {kind: 'B'}})
	checkObj("obj-corpus", cut, []objOp{{kind: 'b'}, {kind: 'b'}, {kind: 'u', data: a}, {kind: 'B'}})
	checkObj("obj-corpus", a, []objOp{{kind: 'B'}, {kind: 'u', data: b}, {kind: 'B'}})
	checkObj("obj-corpus", a, []objOp{{kind: 'B'}, {kind: 'u', data: cut}, {kind: 'b'}, {kind: 'u', data: b}, {kind: 'b'}, {kind: 'B'}})
	checkObj("obj-corpus", a, []objOp{{kind: 'B'}, {kind: 'u', data: exact(a[:80])}, {kind: 'B'}, {kind: 'u', data: b}, {kind: 'B'}})
	checkObj("obj-corpus", exact(a[:80]), []objOp{{kind: 'u', data: a}, {kind: 'B'}, {kind: 'c'}})
	checkObj("obj-corpus", exact(a[:80]), []objOp{{kind: 'd', data: cut}, {kind: 'B'}, {kind: 'd', data: exact(a[:80])}, {kind: 'd', data: a}, {kind: 'B'}})
	checkObj("obj-corpus", a, []objOp{{kind: 'c'}, {kind: 'u', data: exact(a[:40])}, {kind: 'B'}})
	checkObj("obj-corpus", exact(a[:79]), nil)
	checkObj("obj-corpus", exact(a[:81]), []objOp{{kind: 'B'}, {kind: 'c'}})
}

// manyPackBlocks: BuildTxListExt(true) hashes every ~4 KB of transactions in its own goroutine and the goroutines add
// to one weight counter. Blocks of 100..200 transactions of 2..7 KB (one pack each, roughly) are built REPEATEDLY on
// fresh objects: BlockWeight must be the BIP141 weight by the reference parser on every run, and the ids must not vary.
func manyPackBlocks(g *vlib.Rng) {
	nblk := r.N(3, 12)
	runs := r.N(40, 200)
	for bi := 0; bi < nblk; bi++ {
		b0, txs := genBlock(g, 100+g.Intn(100))
		base, total := 0, 0
		for i := range txs {
			ref, _, e := refParse(txs[i])
			if e != "" {
				continue
			}
			ref.outs = append(ref.outs, refOut{uint64(g.Intn(1000)), g.Bytes(g.Pick(2000, 3900, 4100, 5000, 7000) + g.Intn(300))})
			txs[i] = refSerialize(&ref, true)
			base += len(refSerialize(&ref, false))
			total += len(txs[i])
		}
		raw := asmBlock(b0[:80], txs, true)
		hdr := 80 + 3
		if len(txs) < 253 {
			hdr = 80 + 1
		}
		want := uint(3*(hdr+base) + hdr + total)
		doc := map[string]interface{}{"op": "manypack", "note": "re-run stream 9 with the recorded seed", "transactions": len(txs), "raw_len": len(raw)}
		r.Eval("block-many-packs", "mp"+string(raw[:80]))
		beat(fmt.Sprintf("repeated BuildTxList on a block of %d transactions (%d bytes)", len(txs), len(raw)), rep("block", raw))
		first := ""
		for k := 0; k < runs; k++ {
			beat(fmt.Sprintf("repeated BuildTxList on a block of %d transactions (%d bytes)", len(txs), len(raw)), rep("block", raw))
			ob := observeBlock(raw, true)
			r.Hit("block-many-packs-run:" + ob.err)
			if ob.panicked != "" {
				r.PropFail("block-panic", "BuildTxList panicked on a block of many packs: "+ob.panicked, doc)
				break
			}
			if ob.err != "none" || ob.weight != want {
				r.PropFail("block-weight", fmt.Sprintf("run %d of %d on the same %d bytes (%d transactions of 2..7 KB, one hashing goroutine per ~4 KB): BuildTxList()=%s BlockWeight=%d, BIP141 weight %d", k, runs, len(raw), len(txs), ob.err, ob.weight, want), doc)
				break
			}
			ids := strings.Join(ob.txs, " ")
			if first == "" {
				first = ids
			} else if ids != first {
				r.PropFail("block-ids-vary", fmt.Sprintf("run %d: Txs[i] Hash/wTxID/Size/NoWitSize differ between two builds of the same bytes: %s", k, firstDiff(first, ids)), doc)
				break
			}
		}
	}
}

func objStream(g *vlib.Rng) {
	objCorpus(g)
	manyPackBlocks(g)
	n := r.N(600, 8000)
	for i := 0; i < n; i++ {
		data, ops := genObjHistory(g)
		checkObj("obj", data, ops)
	}
}

func replayObj(data string, ops string) {
	var l []objOp
	for _, t := range strings.Fields(ops) {
		switch {
		case t == "b0":
			l = append(l, objOp{kind: 'b'})
		case t == "b1":
			l = append(l, objOp{kind: 'B'})
		case t == "c":
			l = append(l, objOp{kind: 'c'})
		case strings.HasPrefix(t, "u:"):
			l = append(l, objOp{kind: 'u', data: vlib.UnHex(t[2:])})
		case strings.HasPrefix(t, "d:"):
			l = append(l, objOp{kind: 'd', data: vlib.UnHex(t[2:])})
		}
	}
	checkObj("replay", vlib.UnHex(data), l)
}
