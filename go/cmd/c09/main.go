// c09 — correspondence harness + property search for C09 (transaction / block wire decoding).
// Real code: btc.NewTx, Tx.SetHash, Serialize/SerializeNew, Weight/VSize, btc.TxSize, btc.NewBlock + BuildTxListExt.
// Files: main.go (transactions, blocks, corpus, generators), boundary.go (the CompactSize ranges as an input class: writers /
// readers directly, one length field at a range end, the same through the serialisers and inside blocks), direct.go (exported
// helpers on short buffers), obj.go (one Block object through histories), client.go (the Block object of a wanted block inside the
// node: real client/network handlers, refused copies, the disk cache through the real get_block_from_disk_cache), watchdog.go
// (a call into the decoder that does not return is reported with the case in flight).
// Model: lean oracle_c09 (Model/Wire.lean). Independent reference for the property predicate: refParse /
// refSerialize below, written from BIP144 and Bitcoin Core's UnserializeTransaction / ReadCompactSize.
package main

import (
	"bufio"
	"bytes"
	"crypto/sha256"
	"encoding/hex"
	"encoding/json"
	"fmt"
	"io"
	"os"
	"os/exec"
	"runtime"
	"runtime/debug"
	"runtime/metrics"
	"strconv"
	"strings"
	"syscall"
	"time"
	"unsafe"

	"github.com/piotrnar/gocoin/lib/btc"
	"verif/vlib"
	"verif/vtrans"
)

var r *vlib.Run
var o *vlib.Oracle

func sha256d(b []byte) []byte {
	h := sha256.Sum256(b)
	h = sha256.Sum256(h[:])
	return h[:]
}

// ---------------------------------------------------------------- independent reference (Spec side)

type refIn struct {
	hash   []byte
	idx    uint32
	script []byte
	seq    uint32
}
type refOut struct {
	value  uint64
	script []byte
}
type refTx struct {
	ver    uint32
	ins    []refIn
	outs   []refOut
	wit    [][][]byte
	hasWit bool
	lock   uint32
}

type reader struct {
	b   []byte
	p   int
	err string
}

func (d *reader) fail(e string) {
	if d.err == "" {
		d.err = e
	}
}
func (d *reader) take(n uint64) []byte {
	if d.err != "" {
		return nil
	}
	if n > uint64(len(d.b)-d.p) {
		d.fail("short")
		return nil
	}
	s := d.b[d.p : d.p+int(n)]
	d.p += int(n)
	return s
}
func le(b []byte) (v uint64) {
	for i := len(b) - 1; i >= 0; i-- {
		v = v<<8 | uint64(b[i])
	}
	return
}

// Core's ReadCompactSize: minimal encodings only, at most MAX_SIZE (0x02000000)
func (d *reader) cs() uint64 {
	f := d.take(1)
	if f == nil {
		return 0
	}
	var v uint64
	switch f[0] {
	case 0xfd:
		x := d.take(2)
		if x == nil {
			return 0
		}
		v = le(x)
		if v < 253 {
			d.fail("noncanonical")
		}
	case 0xfe:
		x := d.take(4)
		if x == nil {
			return 0
		}
		v = le(x)
		if v < 0x10000 {
			d.fail("noncanonical")
		}
	case 0xff:
		x := d.take(8)
		if x == nil {
			return 0
		}
		v = le(x)
		if v < 0x100000000 {
			d.fail("noncanonical")
		}
	default:
		v = uint64(f[0])
	}
	if d.err == "" && v > 0x02000000 {
		d.fail("toolarge")
	}
	return v
}

func (d *reader) vin() (ins []refIn) {
	n := d.cs()
	for i := uint64(0); i < n && d.err == ""; i++ {
		var in refIn
		in.hash = d.take(32)
		in.idx = uint32(le(d.take(4)))
		in.script = d.take(d.cs())
		in.seq = uint32(le(d.take(4)))
		ins = append(ins, in)
	}
	return
}
func (d *reader) vout() (outs []refOut) {
	n := d.cs()
	for i := uint64(0); i < n && d.err == ""; i++ {
		var ou refOut
		ou.value = le(d.take(8))
		ou.script = d.take(d.cs())
		outs = append(outs, ou)
	}
	return
}

// refParse: Bitcoin Core's UnserializeTransaction (witness allowed). err "" = accepted.
// A transaction with an empty vin followed by a flags byte other than 0/1 is refused ("unknown optional data").
func refParse(b []byte) (tx refTx, n int, err string) {
	d := &reader{b: b}
	tx.ver = uint32(le(d.take(4)))
	tx.ins = d.vin()
	var flags byte
	if d.err == "" && len(tx.ins) == 0 {
		f := d.take(1)
		if f != nil {
			flags = f[0]
			if flags != 0 {
				tx.ins = d.vin()
				tx.outs = d.vout()
			}
		}
	} else {
		tx.outs = d.vout()
	}
	if flags&1 != 0 && d.err == "" {
		flags ^= 1
		tx.hasWit = true
		nonempty := false
		for range tx.ins {
			k := d.cs()
			var st [][]byte
			for j := uint64(0); j < k && d.err == ""; j++ {
				st = append(st, d.take(d.cs()))
			}
			if k > 0 {
				nonempty = true
			}
			tx.wit = append(tx.wit, st)
		}
		if d.err == "" && !nonempty {
			d.fail("superfluous")
		}
	}
	if d.err == "" && flags != 0 {
		d.fail("unknownflags")
	}
	tx.lock = uint32(le(d.take(4)))
	return tx, d.p, d.err
}

func putCS(w *bytes.Buffer, v uint64) {
	switch {
	case v < 253:
		w.WriteByte(byte(v))
	case v <= 0xffff:
		w.Write([]byte{0xfd, byte(v), byte(v >> 8)})
	case v <= 0xffffffff:
		w.Write([]byte{0xfe, byte(v), byte(v >> 8), byte(v >> 16), byte(v >> 24)})
	default:
		w.WriteByte(0xff)
		for i := 0; i < 8; i++ {
			w.WriteByte(byte(v >> (8 * uint(i))))
		}
	}
}
func putLE(w *bytes.Buffer, v uint64, n int) {
	for i := 0; i < n; i++ {
		w.WriteByte(byte(v >> (8 * uint(i))))
	}
}

// refSerialize: BIP144 serialisation; withWit=false gives the stripped form (txid preimage).
func refSerialize(tx *refTx, withWit bool) []byte {
	w := new(bytes.Buffer)
	putLE(w, uint64(tx.ver), 4)
	if withWit && tx.hasWit {
		w.Write([]byte{0, 1})
	}
	putCS(w, uint64(len(tx.ins)))
	for _, in := range tx.ins {
		w.Write(in.hash)
		putLE(w, uint64(in.idx), 4)
		putCS(w, uint64(len(in.script)))
		w.Write(in.script)
		putLE(w, uint64(in.seq), 4)
	}
	putCS(w, uint64(len(tx.outs)))
	for _, ou := range tx.outs {
		putLE(w, ou.value, 8)
		putCS(w, uint64(len(ou.script)))
		w.Write(ou.script)
	}
	if withWit && tx.hasWit {
		for _, st := range tx.wit {
			putCS(w, uint64(len(st)))
			for _, it := range st {
				putCS(w, uint64(len(it)))
				w.Write(it)
			}
		}
	}
	putLE(w, uint64(tx.lock), 4)
	return w.Bytes()
}

// ---------------------------------------------------------------- one transaction case

var (
	sizeofTx        = unsafe.Sizeof(btc.Tx{})
	sizeofTxIn      = unsafe.Sizeof(btc.TxIn{})
	sizeofTxOut     = unsafe.Sizeof(btc.TxOut{})
	maxAllocVsModel = 0.0
	minAllocVsModel = 1e9
)
var maxAllocRatio float64
var maxAllocCase string
var allocMeasured int

func exact(b []byte) []byte { // cap == len, fresh memory
	c := make([]byte, len(b))
	copy(c, b)
	return c
}

type txObs struct {
	ok                  bool
	panicked            string
	n                   int
	nws0                uint32
	segwit              bool
	nin, nout           int
	ser, serNew         []byte
	hash, wtxid         []byte
	size, nws           uint32
	weight, vsize       int
	txsize              int
	nilElem             bool
	alloc               uint64
	allocExact          bool
	serPanic, sizePanic string
	capDiff             string
	fields              string // the decoded numbers (fieldsOf), "" if an element is nil
}

// fieldsOf / refFields: the decoded fields as NUMBERS in one token (same format as the oracle's fieldsTok): version,
// lock_time, per input first 4 bytes of the previous hash . index . sequence . len(scriptSig), per output value . len(script),
// witness item counts. Everything else in the comparison goes through re-serialisations and hashes, where a field that is
// read and written in the same wrong way cancels out.
func fieldsOf(tx *btc.Tx) string {
	var ins, outs []string
	for _, in := range tx.TxIn {
		ins = append(ins, fmt.Sprintf("%s.%d.%d.%d", hex.EncodeToString(in.Input.Hash[:4]), in.Input.Vout, in.Sequence, len(in.ScriptSig)))
	}
	for _, o := range tx.TxOut {
		outs = append(outs, fmt.Sprintf("%d.%d", o.Value, len(o.Pk_script)))
	}
	w := "-"
	if tx.SegWit != nil {
		var c []string
		for _, st := range tx.SegWit {
			c = append(c, strconv.Itoa(len(st)))
		}
		w = strings.Join(c, ",")
	}
	return fmt.Sprintf("F%d/%d/%s/%s/%s", tx.Version, tx.Lock_time, strings.Join(ins, ";"), strings.Join(outs, ";"), w)
}

func refFields(t *refTx) string {
	var ins, outs []string
	for _, in := range t.ins {
		ins = append(ins, fmt.Sprintf("%s.%d.%d.%d", hex.EncodeToString(in.hash[:4]), in.idx, in.seq, len(in.script)))
	}
	for _, o := range t.outs {
		outs = append(outs, fmt.Sprintf("%d.%d", o.value, len(o.script)))
	}
	w := "-"
	if t.hasWit {
		var c []string
		for _, st := range t.wit {
			c = append(c, strconv.Itoa(len(st)))
		}
		w = strings.Join(c, ",")
	}
	return fmt.Sprintf("F%d/%d/%s/%s/%s", t.ver, t.lock, strings.Join(ins, ";"), strings.Join(outs, ";"), w)
}

var allocSample = [1]metrics.Sample{{Name: "/gc/heap/allocs:bytes"}}
var obsCount int

func observeTx(raw []byte, exactAlloc bool) (ob txObs) {
	b := exact(raw)
	var tx *btc.Tx
	func() {
		defer func() {
			if x := recover(); x != nil {
				ob.panicked = fmt.Sprint(x)
			}
		}()
		if exactAlloc {
			// exact but slow (stops the world): used for the corpus / huge-count / length-form streams and 1 in 4 others
			var m0, m1 runtime.MemStats
			runtime.ReadMemStats(&m0)
			tx, ob.n = btc.NewTx(b)
			runtime.ReadMemStats(&m1)
			ob.alloc = m1.TotalAlloc - m0.TotalAlloc
			ob.allocExact = true
		} else {
			// cheap: cumulative heap allocation from runtime/metrics (per-P caches are not flushed, so small
			// objects may be missed, but any allocation of 32 KiB or more is counted at once)
			metrics.Read(allocSample[:])
			a0 := allocSample[0].Value.Uint64()
			tx, ob.n = btc.NewTx(b)
			metrics.Read(allocSample[:])
			ob.alloc = allocSample[0].Value.Uint64() - a0
		}
	}()
	func() {
		defer func() {
			if x := recover(); x != nil {
				ob.sizePanic = fmt.Sprint(x)
			}
		}()
		ob.txsize = btc.TxSize(b)
	}()
	// the same bytes inside a larger buffer (spare capacity holding zeros, which complete a cut-off
	// lock_time / count into something decodable): the result must not depend on the capacity
	func() {
		defer func() {
			if x := recover(); x != nil {
				ob.capDiff = "panic with spare capacity: " + fmt.Sprint(x)
			}
		}()
		big := make([]byte, len(raw)+24)
		copy(big, raw)
		tx2, n2 := btc.NewTx(big[:len(raw)])
		if (tx2 == nil) != (tx == nil) || n2 != ob.n {
			ob.capDiff = fmt.Sprintf("with 24 spare bytes of capacity: tx!=nil %v consumed %d; exact capacity: tx!=nil %v consumed %d", tx2 != nil, n2, tx != nil, ob.n)
		}
		if s2 := btc.TxSize(big[:len(raw)]); s2 != ob.txsize && ob.sizePanic == "" {
			ob.capDiff += fmt.Sprintf(" TxSize %d vs %d", s2, ob.txsize)
		}
	}()
	if tx == nil {
		return
	}
	ob.ok = true
	ob.nws0 = tx.NoWitSize
	ob.segwit = tx.SegWit != nil
	ob.nin, ob.nout = len(tx.TxIn), len(tx.TxOut)
	for _, x := range tx.TxIn {
		if x == nil {
			ob.nilElem = true
		}
	}
	for _, x := range tx.TxOut {
		if x == nil {
			ob.nilElem = true
		}
	}
	if !ob.nilElem {
		ob.fields = fieldsOf(tx)
	}
	func() {
		defer func() {
			if x := recover(); x != nil {
				ob.serPanic = fmt.Sprint(x)
			}
		}()
		ob.ser = tx.Serialize()
		ob.serNew = tx.SerializeNew()
		if ob.n >= 0 && ob.n <= len(b) {
			tx.SetHash(b[:ob.n])
			ob.hash = append([]byte{}, tx.Hash.Hash[:]...)
			ob.wtxid = append([]byte{}, tx.WTxID().Hash[:]...)
			ob.size, ob.nws = tx.Size, tx.NoWitSize
			ob.weight, ob.vsize = tx.Weight(), tx.VSize()
		}
	}()
	return
}

func rep(op string, raw []byte) map[string]interface{} {
	return map[string]interface{}{"op": op, "raw": vlib.Hex(raw)}
}

// checkTx evaluates the property predicate on the real code for one byte string and compares with the model.
func checkTx(kind string, raw []byte) {
	beat("btc.NewTx & co on "+short(raw), rep("tx", raw))
	obsCount++
	exactAlloc := obsCount%4 == 0 || strings.HasPrefix(kind, "corpus") || strings.HasPrefix(kind, "huge") || strings.HasPrefix(kind, "lenform") || kind == "replay"
	{
		a, alive := probe("t", raw)
		if !alive || a > 64*uint64(len(raw))+(1<<20) {
			what := fmt.Sprintf("btc.NewTx/TxSize allocated %d bytes for an input of %d bytes", a, len(raw))
			if !alive {
				what = fmt.Sprintf("btc.NewTx/TxSize on an input of %d bytes exhausted a 3 GiB address space (process died)", len(raw))
			}
			r.Eval(kind+":alloc-out-of-proportion", "tx"+string(raw))
			r.PropFail("tx-alloc", what+" input="+short(raw), rep("tx", raw))
			return // not run in-process: it would take the harness down
		}
	}
	ob := observeTx(raw, exactAlloc)
	ref, rn, rerr := refParse(raw)
	class := "reject-" + rerr
	if rerr == "" {
		if ref.hasWit {
			class = "accept-segwit"
		} else {
			class = "accept-legacy"
		}
	}
	dk := ""
	if len(raw) > 4 {
		dk = "tx" + string(raw)
	}
	r.Eval(kind+":"+class, dk)
	key := ""
	fail := func(k, what string) {
		if key == "" {
			key = k
		}
		r.PropFail(k, what+" input="+short(raw), rep("tx", raw))
	}
	// ---- property on the real code
	if ob.panicked != "" {
		fail("tx-panic", "btc.NewTx panicked: "+ob.panicked)
	}
	if ob.capDiff != "" {
		fail("tx-reads-past-len", "btc.NewTx/TxSize depend on the capacity of the slice, i.e. read past its length: "+ob.capDiff)
	}
	if ob.sizePanic != "" {
		fail("txsize-panic", "btc.TxSize panicked: "+ob.sizePanic)
	}
	if ob.ok != (rerr == "") {
		if ob.ok {
			fail("tx-accepts-"+rerr, "btc.NewTx accepts an encoding Bitcoin's deserialiser refuses ("+rerr+")")
		} else {
			fail("tx-refuses-valid", "btc.NewTx refuses a valid BIP144 encoding")
		}
	}
	if ob.ok {
		if ob.nilElem {
			fail("tx-nil-element", "btc.NewTx returned a transaction holding a nil TxIn/TxOut")
		}
		if ob.serPanic != "" {
			fail("tx-ser-panic", "serialising / hashing the decoded transaction panicked: "+ob.serPanic)
		}
		if ob.n <= 0 || ob.n > len(raw) {
			fail("tx-consumed-range", fmt.Sprintf("consumed=%d outside (0,%d]", ob.n, len(raw)))
		} else if ob.serPanic == "" {
			if !bytes.Equal(ob.serNew, raw[:ob.n]) {
				fail("tx-reencode", "SerializeNew() of the decoded transaction differs from the bytes consumed")
			}
			if rerr == "" {
				if rn != ob.n {
					fail("tx-consumed", fmt.Sprintf("consumed=%d, reference %d", ob.n, rn))
				}
				if rf := refFields(&ref); ob.fields != rf && !ob.nilElem {
					fail("tx-fields", "the decoded fields (version, lock_time, prevout index, sequence, value, lengths) are not the ones the reference parser reads: "+firstDiffTok(ob.fields, rf))
				}
				strip, total := refSerialize(&ref, false), refSerialize(&ref, true)
				if !bytes.Equal(ob.ser, strip) {
					fail("tx-serialize", "Serialize() differs from the stripped BIP144 serialisation")
				}
				if !bytes.Equal(ob.hash, sha256d(strip)) {
					fail("tx-txid", "tx.Hash is not double-SHA256 of the stripped serialisation")
				}
				if !bytes.Equal(ob.wtxid, sha256d(total)) {
					fail("tx-wtxid", "tx.WTxID() is not double-SHA256 of the full serialisation")
				}
				if int(ob.size) != len(total) || int(ob.nws) != len(strip) || int(ob.nws0) != len(strip) {
					fail("tx-sizes", fmt.Sprintf("Size=%d NoWitSize=%d (NewTx: %d), expected %d / %d", ob.size, ob.nws, ob.nws0, len(total), len(strip)))
				}
				w := 3*len(strip) + len(total)
				if ob.weight != w || ob.vsize != (w+3)/4 {
					fail("tx-weight", fmt.Sprintf("Weight=%d VSize=%d, expected %d / %d", ob.weight, ob.vsize, w, (w+3)/4))
				}
			}
			if ob.txsize != ob.n {
				fail("txsize-mismatch", fmt.Sprintf("TxSize=%d but NewTx consumed %d", ob.txsize, ob.n))
			}
		}
	}
	if ob.txsize < 0 || ob.txsize > len(raw) {
		fail("txsize-range", fmt.Sprintf("TxSize=%d beyond the %d bytes of the buffer", ob.txsize, len(raw)))
	}
	// allocation in proportion to the input
	if ob.panicked == "" {
		if ob.allocExact {
			allocMeasured++
			ratio := float64(ob.alloc) / float64(len(raw)+64)
			if ratio > maxAllocRatio {
				maxAllocRatio, maxAllocCase = ratio, short(raw)
			}
		}
		slack := uint64(8192)
		if !ob.allocExact {
			slack = 4 << 20 // the cheap counter is updated in bulk when per-P caches are flushed
		}
		if ob.alloc > 64*uint64(len(raw))+slack {
			fail("tx-alloc", fmt.Sprintf("btc.NewTx allocated %d bytes for an input of %d bytes", ob.alloc, len(raw)))
		}
	}
	// ---- tie for the allocation counter of the model (Wire.allocTx): requested bytes A vs runtime.MemStats delta M.
	// A <= M (the runtime never hands out less than asked) and M <= 2A + 2048 (size-class rounding is below 2x;
	// the slack covers the panic value / println of a refused input). Noise from other goroutines only adds to M:
	// re-measured up to 4 times before it counts.
	if ob.allocExact && ob.panicked == "" {
		A, _ := strconv.ParseUint(o.MustAsk(fmt.Sprintf("alloc %d %d %d %s", sizeofTx, sizeofTxIn, sizeofTxOut, vlib.Hex(raw))), 10, 64)
		M := ob.alloc
		for try := 0; try < 4 && M > 2*A+2048; try++ {
			M = observeTx(raw, true).alloc
		}
		if A > 0 {
			q := float64(M) / float64(A)
			if q > maxAllocVsModel {
				maxAllocVsModel = q
			}
			if q < minAllocVsModel {
				minAllocVsModel = q
			}
		}
		if M < A || M > 2*A+2048 {
			r.TieFail("tie-tx-alloc", fmt.Sprintf("model allocTx=%d bytes requested, btc.NewTx allocated %d (expected A <= M <= 2A+2048); input=%s", A, M, short(raw)), rep("tx", raw))
		} else {
			r.TieOK()
		}
	}
	// ---- tie: model vs implementation
	tq := time.Now()
	ans := o.MustAsk("tx " + vlib.Hex(raw))
	if os.Getenv("VERIF_DEBUG") != "" && time.Since(tq) > 50*time.Millisecond {
		fmt.Printf("slow oracle %.0fms len=%d kind=%s ok=%v nin=%d nout=%d\n", time.Since(tq).Seconds()*1000, len(raw), kind, ob.ok, ob.nin, ob.nout)
	}
	var got string
	if !ob.ok {
		got = "none"
	} else {
		sw := "0"
		if ob.segwit {
			sw = "1"
		}
		got = fmt.Sprintf("ok %d %d %s %d %d %s %s %s %s %d %d %d %d %d %s", ob.n, ob.nws0, sw, ob.nin, ob.nout, vlib.Hex(ob.serNew), vlib.Hex(ob.ser),
			vlib.Hex(ob.hash), vlib.Hex(ob.wtxid), ob.size, ob.nws, ob.weight, ob.vsize, ob.txsize, ob.fields)
	}
	if got == ans {
		r.TieOK()
	} else if ob.panicked == "" || true {
		if !ob.ok && strings.HasPrefix(ans, "ok ") || ob.ok && ans == "none" {
			r.TieFail("tie-tx-accept", "model and btc.NewTx disagree on acceptance; input="+short(raw)+" model="+short([]byte(ans))+" impl="+short([]byte(got)), rep("tx", raw))
		} else {
			r.TieFail("tie-tx-fields", "model and btc.NewTx disagree on the decoded fields; input="+short(raw)+" model="+firstDiff(ans, got), rep("tx", raw))
		}
	}
	if !ob.ok && ob.panicked == "" {
		// TxSize is compared on refused inputs too (it has no superfluous-witness rule of its own)
		a2 := o.MustAsk("txsize " + vlib.Hex(raw))
		if a2 == strconv.Itoa(ob.txsize) {
			r.TieOK()
		} else {
			r.TieFail("tie-txsize", fmt.Sprintf("model txSize=%s, btc.TxSize=%d; input=%s", a2, ob.txsize, short(raw)), rep("tx", raw))
		}
	}
}

// firstDiffTok: where two field tokens differ (they can be long)
func firstDiffTok(a, b string) string {
	i := 0
	for i < len(a) && i < len(b) && a[i] == b[i] {
		i++
	}
	cut := func(s string) string {
		lo, hi := i-24, i+24
		if lo < 0 {
			lo = 0
		}
		if hi > len(s) {
			hi = len(s)
		}
		return s[lo:hi]
	}
	return fmt.Sprintf("at char %d: decoded …%s… reference …%s…", i, cut(a), cut(b))
}

func firstDiff(a, b string) string {
	fa, fb := strings.Fields(a), strings.Fields(b)
	for i := 0; i < len(fa) && i < len(fb); i++ {
		if fa[i] != fb[i] {
			return fmt.Sprintf("field %d: model %s impl %s", i, short([]byte(fa[i])), short([]byte(fb[i])))
		}
	}
	return fmt.Sprintf("field count %d vs %d", len(fa), len(fb))
}

func short(b []byte) string {
	s := hex.EncodeToString(b)
	if len(b) > 0 && b[0] >= 0x20 && b[0] < 0x7f && len(b) > 2 && b[1] >= 0x20 && b[1] < 0x7f {
		s = string(b)
	}
	if len(s) > 160 {
		return s[:120] + fmt.Sprintf("…(%d chars)", len(s))
	}
	return s
}

// ---------------------------------------------------------------- structured generator

type lenForm struct {
	form int    // 0 = canonical, 1/3/5/9 = forced width
	val  uint64 // value written when override is set
	over bool
}

// genTx builds a random reference transaction. Sizes are skewed: mostly small, sometimes at CompactSize
// boundaries (252/253/254/255/256/65535/65536) and up to 10^4-byte scripts.
func scriptLen(g *vlib.Rng) int {
	switch g.Intn(20) {
	case 0:
		return g.Pick(252, 253, 254, 255, 256, 257)
	case 1:
		return 1000 + g.Intn(9001)
	case 2:
		return g.Pick(65535, 65536, 65537)
	case 3, 4, 5:
		return 0
	case 6, 7:
		return 20 + g.Intn(100)
	default:
		return g.Intn(40)
	}
}

func genTx(g *vlib.Rng, big bool) refTx {
	var t refTx
	t.ver = uint32(g.Pick(1, 2, 0, 0xffffffff, int(g.U64()&0x7fffffff)))
	nin := g.Pick(1, 1, 1, 2, 3, 0, 5)
	nout := g.Pick(1, 1, 2, 2, 3, 0, 4)
	if big && g.Chance(1, 3) {
		nin = g.Pick(252, 253, 254, 300)
	}
	if big && g.Chance(1, 3) {
		nout = g.Pick(252, 253, 254, 300)
	}
	sl := func() int {
		if nin+nout > 50 {
			return g.Intn(4)
		}
		n := scriptLen(g)
		if !big && n > 300 {
			n = g.Intn(80)
		}
		return n
	}
	for i := 0; i < nin; i++ {
		h := g.Bytes(32)
		if g.Chance(1, 8) {
			h = make([]byte, 32)
		}
		t.ins = append(t.ins, refIn{h, uint32(g.Pick(0, 1, 0xffffffff, int(g.U64()&0xffff))), g.Bytes(sl()), uint32(g.Pick(0xffffffff, 0xfffffffe, 0, int(g.U64()&0xffffffff)))})
	}
	for i := 0; i < nout; i++ {
		t.outs = append(t.outs, refOut{g.U64() >> uint(g.Pick(0, 8, 20, 40, 63)), g.Bytes(sl())})
	}
	if g.Chance(1, 2) {
		t.hasWit = true
		for i := 0; i < nin; i++ {
			var st [][]byte
			k := g.Pick(0, 0, 1, 2, 2, 3, 5)
			if big && g.Chance(1, 10) {
				k = g.Pick(252, 253, 300)
			}
			for j := 0; j < k; j++ {
				n := sl()
				if k > 50 {
					n = g.Intn(3)
				}
				st = append(st, g.Bytes(n))
			}
			t.wit = append(t.wit, st)
		}
	}
	t.lock = uint32(g.Pick(0, 1, 499999999, 500000000, 0xffffffff, int(g.U64()&0xffffffff)))
	return t
}

// encodeForms serialises like refSerialize but lets the caller choose the CompactSize form / value of the
// k-th length field (fields are numbered in wire order). Returns the bytes and the number of length fields.
func encodeForms(tx *refTx, pick func(k int, v uint64) lenForm) ([]byte, int) {
	w := new(bytes.Buffer)
	k := 0
	cs := func(v uint64) {
		f := pick(k, v)
		k++
		if f.over {
			v = f.val
		}
		switch f.form {
		case 0:
			putCS(w, v)
		case 1:
			w.WriteByte(byte(v))
		case 3:
			w.Write([]byte{0xfd, byte(v), byte(v >> 8)})
		case 5:
			w.Write([]byte{0xfe, byte(v), byte(v >> 8), byte(v >> 16), byte(v >> 24)})
		case 9:
			w.WriteByte(0xff)
			putLE(w, v, 8)
		}
	}
	putLE(w, uint64(tx.ver), 4)
	if tx.hasWit {
		w.Write([]byte{0, 1})
	}
	cs(uint64(len(tx.ins)))
	for _, in := range tx.ins {
		w.Write(in.hash)
		putLE(w, uint64(in.idx), 4)
		cs(uint64(len(in.script)))
		w.Write(in.script)
		putLE(w, uint64(in.seq), 4)
	}
	cs(uint64(len(tx.outs)))
	for _, ou := range tx.outs {
		putLE(w, ou.value, 8)
		cs(uint64(len(ou.script)))
		w.Write(ou.script)
	}
	if tx.hasWit {
		for _, st := range tx.wit {
			cs(uint64(len(st)))
			for _, it := range st {
				cs(uint64(len(it)))
				w.Write(it)
			}
		}
	}
	putLE(w, uint64(tx.lock), 4)
	return w.Bytes(), k
}

var hugeVals = []uint64{0xfffffff, 0x7fffffff, 0x80000000, 0xffffffff, 0x100000000, 0x7fffffffffffffff, 0x8000000000000000, 0xffffffffffffffff, 0x2000001, 0xffff, 0x10000}

func canon(k int, v uint64) lenForm { return lenForm{} }

// ---------------------------------------------------------------- enc: structured tx -> both serialisers

func checkEnc(g *vlib.Rng) {
	t := genTx(g, false)
	if t.hasWit && g.Chance(1, 6) && len(t.wit) > 0 { // hand-built SegWit whose length differs from the number of inputs
		t.wit = t.wit[:len(t.wit)-1]
	}
	checkEncTx(t, "enc")
}

// checkEncTx: the fields of t as a hand-built btc.Tx through SerializeNew / Serialize, against the BIP144 serialisation of
// the same fields and against the model's encodeTx / encodeTxNoWit
func checkEncTx(t refTx, kind string) {
	beat("a hand-built btc.Tx through Serialize / SerializeNew ("+kind+")", nil)
	tx := new(btc.Tx)
	tx.Version, tx.Lock_time = t.ver, t.lock
	var sb strings.Builder
	sw := "0"
	if t.hasWit {
		sw = "1"
	}
	fmt.Fprintf(&sb, "enc %d %d %s %d", t.ver, t.lock, sw, len(t.ins))
	for _, in := range t.ins {
		ti := &btc.TxIn{ScriptSig: in.script, Sequence: in.seq}
		copy(ti.Input.Hash[:], in.hash)
		ti.Input.Vout = in.idx
		tx.TxIn = append(tx.TxIn, ti)
		fmt.Fprintf(&sb, " %s %d %s %d", vlib.Hex(in.hash), in.idx, vlib.Hex(in.script), in.seq)
	}
	fmt.Fprintf(&sb, " %d", len(t.outs))
	for _, ou := range t.outs {
		tx.TxOut = append(tx.TxOut, &btc.TxOut{Value: ou.value, Pk_script: ou.script})
		fmt.Fprintf(&sb, " %d %s", ou.value, vlib.Hex(ou.script))
	}
	if t.hasWit {
		wit := t.wit
		tx.SegWit = make([][][]byte, 0)
		fmt.Fprintf(&sb, " %d", len(wit))
		for _, st := range wit {
			tx.SegWit = append(tx.SegWit, st)
			fmt.Fprintf(&sb, " %d", len(st))
			for _, it := range st {
				fmt.Fprintf(&sb, " %s", vlib.Hex(it))
			}
		}
	}
	var s1, s2 []byte
	perr := ""
	func() {
		defer func() {
			if x := recover(); x != nil {
				perr = fmt.Sprint(x)
			}
		}()
		s1, s2 = tx.SerializeNew(), tx.Serialize()
	}()
	r.Eval(kind+":segwit="+sw, "enc"+sb.String())
	if perr != "" {
		r.PropFail("enc-panic", "Serialize panicked: "+perr, map[string]interface{}{"op": "enc", "line": sb.String()})
		return
	}
	if len(t.wit) == len(t.ins) || !t.hasWit {
		if !bytes.Equal(s1, refSerialize(&t, true)) || !bytes.Equal(s2, refSerialize(&t, false)) {
			r.PropFail("enc-spec", "SerializeNew/Serialize differ from the BIP144 serialisation of the same fields", map[string]interface{}{"op": "enc", "line": sb.String()})
		}
	}
	ans := o.MustAsk(sb.String())
	if ans == "ok "+vlib.Hex(s1)+" "+vlib.Hex(s2) {
		r.TieOK()
	} else {
		r.TieFail("tie-enc", "model encodeTx/encodeTxNoWit differ from SerializeNew/Serialize: "+short([]byte(ans)), map[string]interface{}{"op": "enc", "line": sb.String()})
	}
}

// ---------------------------------------------------------------- blocks

type blkObs struct {
	err      string
	panicked string
	txCount  int
	weight   uint
	txs      []string
	rawTxs   [][]byte
	hashes   [][]byte
	nws      []uint32
	mmatch   bool
	mroot    string
	mmut     bool
	mpanic   string
}

// blockErrClass: the error of NewBlock / UpdateContent / BuildTxListExt by its EXACT message. A message this table does not
// know (a new error site in lib/btc/block.go) becomes "unknown-error:…", which no model answer equals: the tie breaks
// instead of the error being filed under one of the known classes.
func blockErrClass(er error, where string) string {
	switch er.Error() {
	case "Block too short":
		return "tooShort"
	case "block's txn_count field corrupt - RPC_Result:bad-blk-length":
		return "badCount"
	case "NewTx failed":
		if where == "BuildTxListExt" {
			return "txFailed"
		}
	}
	return "unknown-error:" + where + ":" + strings.ReplaceAll(er.Error(), " ", "_")
}

func observeBlock(raw []byte, dohash bool) (ob blkObs) {
	defer func() {
		if x := recover(); x != nil {
			ob.panicked = fmt.Sprint(x)
		}
	}()
	b := exact(raw)
	bl, er := btc.NewBlock(b)
	if er != nil {
		ob.err = blockErrClass(er, "NewBlock")
		return
	}
	er = bl.BuildTxListExt(dohash)
	ob.err = "none"
	if er != nil {
		ob.err = blockErrClass(er, "BuildTxListExt")
		if ob.err != "txFailed" {
			return
		}
	}
	ob.txCount = bl.TxCount
	ob.weight = bl.BlockWeight
	for _, tx := range bl.Txs {
		ob.txs = append(ob.txs, fmt.Sprintf("%s:%s:%d:%d", vlib.Hex(tx.Hash.Hash[:]), vlib.Hex(tx.WTxID().Hash[:]), tx.Size, tx.NoWitSize))
		ob.rawTxs = append(ob.rawTxs, tx.Raw)
		ob.hashes = append(ob.hashes, append([]byte{}, tx.Hash.Hash[:]...))
		ob.nws = append(ob.nws, tx.NoWitSize)
	}
	// Merkle root side: MerkleRootMatch() on whatever BuildTxList left, GetMerkle() when there is a leaf
	func() {
		defer func() {
			if x := recover(); x != nil {
				ob.mpanic = fmt.Sprint(x)
			}
		}()
		ob.mmatch = bl.MerkleRootMatch()
		ob.mroot = "none"
		if len(bl.Txs) > 0 {
			root, mut := bl.GetMerkle()
			ob.mroot, ob.mmut = vlib.Hex(root), mut
		}
	}()
	return
}

// refMerkle: Bitcoin Core's ComputeMerkleRoot with its CVE-2012-2459 mutation flag
func refMerkle(ids [][]byte) (root []byte, mutated bool) {
	if len(ids) == 0 {
		return make([]byte, 32), false
	}
	lv := ids
	for len(lv) > 1 {
		for pos := 0; pos+1 < len(lv); pos += 2 {
			if bytes.Equal(lv[pos], lv[pos+1]) {
				mutated = true
			}
		}
		if len(lv)&1 == 1 {
			lv = append(lv[:len(lv):len(lv)], lv[len(lv)-1])
		}
		var nx [][]byte
		for pos := 0; pos < len(lv); pos += 2 {
			nx = append(nx, sha256d(append(append([]byte{}, lv[pos]...), lv[pos+1]...)))
		}
		lv = nx
	}
	return lv[0], mutated
}

func checkBlock(kind string, raw []byte) {
	beat(fmt.Sprintf("btc.NewBlock + BuildTxListExt on a block of %d bytes (%s)", len(raw), kind), rep("block", raw))
	if a, alive := probe("b", raw); !alive || a > 64*uint64(len(raw))+(1<<20) {
		what := fmt.Sprintf("btc.NewBlock+BuildTxList allocated %d bytes for an input of %d bytes", a, len(raw))
		if !alive {
			what = fmt.Sprintf("btc.NewBlock+BuildTxList on an input of %d bytes crashed the process or exhausted a 3 GiB address space", len(raw))
		}
		r.Eval(kind+":alloc-or-crash", "blk"+string(raw))
		r.PropFail("block-alloc-or-crash", what+" input="+short(raw), rep("block", raw))
		return
	}
	ob := observeBlock(raw, true)
	ob2 := observeBlock(raw, false)
	r.Eval(kind+":"+ob.err, "blk"+string(raw))
	fail := func(k, what string) {
		r.PropFail(k, what+" input="+short(raw), rep("block", raw))
	}
	if ob.panicked != "" || ob2.panicked != "" {
		fail("block-panic", "btc.NewBlock/BuildTxList panicked: "+ob.panicked+ob2.panicked)
		return
	}
	if ob.err != ob2.err || ob.weight != ob2.weight || len(ob.txs) != len(ob2.txs) {
		fail("block-dohash", fmt.Sprintf("BuildTxListExt(true) and (false) disagree: %s/%d/%d vs %s/%d/%d", ob.err, ob.weight, len(ob.txs), ob2.err, ob2.weight, len(ob2.txs)))
	}
	// property predicate, independent of the model: ids and BIP141 block weight of the parsed transactions
	if ob.err == "none" || ob.err == "txFailed" {
		var base, total int
		offs := 80
		// reference: count
		d := &reader{b: raw, p: 80}
		cnt := d.cs()
		if d.err != "" {
			fail("block-accepts-"+d.err, "block transaction count accepted although Bitcoin's deserialiser refuses it ("+d.err+")")
		}
		offs = d.p
		hdr := offs
		var refIDs [][]byte
		for i, rt := range ob.rawTxs {
			ref, n, e := refParse(raw[offs:])
			if e != "" || n != len(rt) {
				fail("block-tx-parse", fmt.Sprintf("transaction %d of the block: reference says %q/%d bytes, code took %d", i, e, n, len(rt)))
				break
			}
			strip := refSerialize(&ref, false)
			refIDs = append(refIDs, sha256d(strip))
			base += len(strip)
			total += n
			if !bytes.Equal(ob.hashes[i], sha256d(strip)) {
				fail("block-txid", fmt.Sprintf("Txs[%d].Hash is not double-SHA256 of the stripped serialisation", i))
			}
			offs += n
		}
		w := uint(3*(hdr+base) + hdr + total)
		if ob.weight != w {
			fail("block-weight", fmt.Sprintf("BlockWeight=%d, BIP141 weight of the parsed part %d", ob.weight, w))
		}
		if ob.err == "none" && uint64(len(ob.rawTxs)) != cnt {
			fail("block-count", fmt.Sprintf("%d transactions built, count field says %d", len(ob.rawTxs), cnt))
		}
		// Merkle root: MerkleRootMatch() iff every announced transaction was built, the header field is the root
		// over the reference txids and the tree has no duplicated pair (CVE-2012-2459)
		if ob.mpanic != "" {
			fail("block-merkle-panic", "MerkleRootMatch/GetMerkle panicked: "+ob.mpanic)
		} else if len(refIDs) == len(ob.rawTxs) {
			root, mut := refMerkle(refIDs)
			want := ob.err == "none" && !mut && bytes.Equal(root, raw[36:68])
			cls := "merkle-nomatch"
			if want {
				cls = "merkle-match"
			} else if ob.err == "none" && mut && bytes.Equal(root, raw[36:68]) {
				cls = "merkle-mutated-same-root"
			}
			r.Hit(cls)
			if ob.mmatch != want {
				fail("block-merkle-match", fmt.Sprintf("MerkleRootMatch()=%v, expected %v (build %s, reference root %s mutated=%v, header field %s)", ob.mmatch, want, ob.err, vlib.Hex(root), mut, vlib.Hex(raw[36:68])))
			}
			if len(refIDs) > 0 && (ob.mroot != vlib.Hex(root) || ob.mmut != mut) {
				fail("block-merkle-root", fmt.Sprintf("GetMerkle()=%s/%v, reference %s/%v", ob.mroot, ob.mmut, vlib.Hex(root), mut))
			}
		}
	}
	ans := o.MustAsk("block " + vlib.Hex(raw))
	got := fmt.Sprintf("%s %d %d %d %s", ob.err, ob.txCount, ob.weight, len(ob.txs), strings.Join(ob.txs, " "))
	if ob.err == "tooShort" || ob.err == "badCount" {
		got = ob.err + " 0 0 0 "
	}
	if strings.TrimSpace(got) == strings.TrimSpace(ans) {
		r.TieOK()
	} else {
		r.TieFail("tie-block", "model decodeBlock and btc.NewBlock+BuildTxList disagree; input="+short(raw)+" "+firstDiff(ans, got), rep("block", raw))
	}
	if ob.err == "none" || ob.err == "txFailed" {
		ans := o.MustAsk("merkle " + vlib.Hex(raw))
		mm, mu := "0", "0"
		if ob.mmatch {
			mm = "1"
		}
		if ob.mmut {
			mu = "1"
		}
		got := fmt.Sprintf("%s %s %s", mm, ob.mroot, mu)
		if got == ans {
			r.TieOK()
		} else {
			r.TieFail("tie-block-merkle", "model merkleRootMatch/getMerkle and Block.MerkleRootMatch/GetMerkle disagree; input="+short(raw)+" model="+ans+" impl="+got, rep("block", raw))
		}
	}
}

// asmBlock: header (merkle field set to the root over the given transactions' txids when fixRoot) + count + txs
func asmBlock(hdr []byte, txs [][]byte, fixRoot bool) []byte {
	w := new(bytes.Buffer)
	hd := exact(hdr)
	if fixRoot {
		var ids [][]byte
		for _, t := range txs {
			ref, _, _ := refParse(t)
			ids = append(ids, sha256d(refSerialize(&ref, false)))
		}
		root, _ := refMerkle(ids)
		copy(hd[36:68], root)
	}
	w.Write(hd)
	putCS(w, uint64(len(txs)))
	for _, t := range txs {
		w.Write(t)
	}
	return w.Bytes()
}

// dupTail: the CVE-2012-2459 transformation — repeat the last 2^k transactions where level k of the tree has an
// odd number (> 1) of nodes: the Merkle root stays the same. nil when the count is a power of two.
func dupTail(txs [][]byte) [][]byte {
	n, k := len(txs), 1
	for n > 1 {
		if n&1 == 1 {
			if k > len(txs) {
				return nil
			}
			return append(append([][]byte{}, txs...), txs[len(txs)-k:]...)
		}
		n, k = n/2, k*2
	}
	return nil
}

func genBlock(g *vlib.Rng, ntx int) ([]byte, [][]byte) {
	w := new(bytes.Buffer)
	w.Write(g.Bytes(80))
	putCS(w, uint64(ntx))
	var txs [][]byte
	for i := 0; i < ntx; i++ {
		t := genTx(g, false)
		if len(t.ins) == 0 {
			t.ins = append(t.ins, refIn{g.Bytes(32), 0, nil, 0})
			if t.hasWit {
				t.wit = append(t.wit, nil)
			}
		}
		if t.hasWit {
			any := false
			for _, st := range t.wit {
				if len(st) > 0 {
					any = true
				}
			}
			if !any {
				t.wit[0] = [][]byte{g.Bytes(g.Intn(5))}
			}
		}
		if i == 0 {
			t.ins = t.ins[:1]
			t.ins[0].hash = make([]byte, 32)
			t.ins[0].idx = 0xffffffff
			if t.hasWit {
				t.wit = [][][]byte{{make([]byte, 32)}}
			}
		}
		b := refSerialize(&t, true)
		txs = append(txs, b)
		w.Write(b)
	}
	return w.Bytes(), txs
}

// ---------------------------------------------------------------- corpus

func h(s string) []byte {
	b, err := hex.DecodeString(strings.ReplaceAll(s, " ", ""))
	if err != nil {
		panic(err)
	}
	return b
}

const cIn = "0000000000000000000000000000000000000000000000000000000000000001 00000000 00 ffffffff"
const cInP = "0000000000000000000000000000000000000000000000000000000000000001 00000000"
const cOut = "0100000000000000 00"

// Witnesses of the defects repaired by the fix: commits in /repo (DESIGN §7 F4); each must now be refused.
var corpusTx = []struct{ name, hex string }{
	{"valid-min", "01000000 01" + cIn + "01" + cOut + "00000000"},
	{"F4-nonminimal-incount", "01000000 fd0100" + cIn + "01" + cOut + "00000000"},
	{"F4-nonminimal-outcount", "01000000 01" + cIn + "fd0100" + cOut + "00000000"},
	{"F4-nonminimal-scriptlen", "01000000 01" + cInP + "fe00000000 ffffffff 01" + cOut + "00000000"},
	{"F4-nonminimal-pklen", "01000000 01" + cIn + "01 0100000000000000 ff0000000000000000 00000000"},
	{"F4-superfluous-witness", "01000000 0001 01" + cIn + "01" + cOut + "00 00000000"},
	{"F4-superfluous-witness-noinputs", "01000000 0001 00 01" + cOut + "00000000"},
	{"F4-huge-incount", "01000000 feffffff0f" + cIn + "01" + cOut + "00000000"},
	{"F4-huge-scriptlen", "01000000 01" + cInP + "feffffff7f ffffffff 01" + cOut + "00000000"},
	{"F4-huge-witcount", "01000000 0001 01" + cIn + "01" + cOut + "feffffff07 00000000"},
	{"F4-negative-incount", "01000000 ffffffffffffffffff" + cIn + "01" + cOut + "00000000"},
	{"F4-nil-txin", "01000000 01 00aabbccdd000000000000000000000000000000000000000000000000000001 00000000 fd"},
	{"F4-nil-txout", "01000000 01" + cIn + "01 0100000000000000 fd00"},
	{"valid-segwit", "02000000 0001 01" + cIn + "01" + cOut + "01 02 aabb 2a000000"},
	{"valid-segwit-empty-item", "02000000 0001 01" + cIn + "01" + cOut + "01 00 2a000000"},
	{"zero-in-zero-out", "01000000 00 00 00000000"},
	{"zero-in-flag2", "01000000 00 02" + cOut + cOut + "00000000"},
	{"zero-in-flag3", "01000000 00 03" + cOut + cOut + cOut + "00000000"},
	{"zero-in-flag-fd", "01000000 00 fd0100" + cOut + "00000000"},
	{"zero-in-flag-ff-short", "01000000 00 ff"},
	{"zero-in-flag2-truncated", "01000000 00 02" + cOut},
	{"zero-in-segwit-zero-out", "01000000 0001 00 00 00000000"},
	{"marker-only", "01000000 00"},
	{"marker-01-short", "01000000 0001"},
	{"version-only", "01000000"},
	{"empty", ""},
	{"three-bytes", "010000"},
	{"valid-trailing", "01000000 01" + cIn + "01" + cOut + "00000000 deadbeef"},
	{"truncated-locktime", "01000000 01" + cIn + "01" + cOut + "000000"},
	{"scriptlen-exceeds", "01000000 01" + cInP + "05 ffffffff 01" + cOut + "00000000"},
}

var corpusBlock = []struct{ name, hex string }{
	{"short-10", "00000000000000000000"},
	{"header-only", strings.Repeat("00", 80)},
	{"count-negative", strings.Repeat("00", 80) + "ffffffffffffffffff"},
	{"count-huge", strings.Repeat("00", 80) + "feffffff0f"},
	{"count-nonminimal", strings.Repeat("00", 80) + "fd0100" + "01000000 01" + cIn + "01" + cOut + "00000000"},
	{"count-zero", strings.Repeat("00", 80) + "00"},
	{"one-tx", strings.Repeat("11", 80) + "01" + "01000000 01" + cIn + "01" + cOut + "00000000"},
	{"one-tx-trailing", strings.Repeat("11", 80) + "01" + "01000000 01" + cIn + "01" + cOut + "00000000 00"},
	{"two-announced-one-present", strings.Repeat("11", 80) + "02" + "01000000 01" + cIn + "01" + cOut + "00000000"},
	{"segwit-coinbase", strings.Repeat("22", 80) + "02" + "02000000 0001 01" + cIn + "01" + cOut + "01 01 aa 00000000" + "02000000 0001 01" + cIn + "01" + cOut + "01 01 bb 00000000"},
}

func vectorTxs() (out [][]byte) {
	for _, f := range []string{vtrans.RepoRoot() + "/lib/test/tx_valid.json", vtrans.RepoRoot() + "/lib/test/tx_invalid.json"} {
		dat, err := os.ReadFile(f)
		if err != nil {
			continue
		}
		var v [][]interface{}
		if json.Unmarshal(dat, &v) != nil {
			continue
		}
		for _, e := range v {
			if len(e) == 3 {
				if s, ok := e[1].(string); ok {
					if b, err := hex.DecodeString(s); err == nil {
						out = append(out, b)
					}
				}
			}
		}
	}
	return
}

// ---------------------------------------------------------------- allocation probe (child process)
// Every input is first run in a child process whose address space is
// limited: a decoder that allocates GiBs for a 60-byte input kills the child, not the harness, and the input is
// reported with a replay file.

func probeMain() {
	lim := syscall.Rlimit{Cur: 3 << 30, Max: 3 << 30}
	syscall.Setrlimit(syscall.RLIMIT_AS, &lim)
	if nul, e := os.OpenFile("/dev/null", os.O_WRONLY, 0); e == nil {
		syscall.Dup3(int(nul.Fd()), 2, 0)
	}
	sc := bufio.NewScanner(os.Stdin)
	sc.Buffer(make([]byte, 1<<20), 1<<26)
	out := bufio.NewWriter(os.Stdout)
	for sc.Scan() {
		line := sc.Text()
		raw := vlib.UnHex(line[1:])
		var alloc uint64
		func() {
			defer func() { recover() }()
			var m0, m1 runtime.MemStats
			runtime.ReadMemStats(&m0)
			if line[0] == 'b' {
				if bl, er := btc.NewBlock(exact(raw)); er == nil {
					bl.BuildTxListExt(false)
				}
			} else {
				btc.NewTx(exact(raw))
				btc.TxSize(exact(raw))
			}
			runtime.ReadMemStats(&m1)
			alloc = m1.TotalAlloc - m0.TotalAlloc
		}()
		fmt.Fprintf(out, "%d\n", alloc)
		out.Flush()
	}
}

type probeProc struct {
	cmd *exec.Cmd
	in  io.WriteCloser
	out *bufio.Reader
}

var prober *probeProc

func startProbe() {
	cmd := exec.Command(os.Args[0], "-probe")
	in, _ := cmd.StdinPipe()
	out, _ := cmd.StdoutPipe()
	if cmd.Start() != nil {
		prober = nil
		return
	}
	prober = &probeProc{cmd, in, bufio.NewReader(out)}
}

// probe returns the bytes allocated by NewTx+TxSize in the child, ok=false when the child died on this input.
func probe(what string, raw []byte) (alloc uint64, ok bool) {
	if prober == nil {
		startProbe()
		if prober == nil {
			return 0, true
		}
	}
	io.WriteString(prober.in, what+vlib.Hex(raw)+"\n")
	line, err := prober.out.ReadString('\n')
	if err != nil {
		prober.in.Close()
		prober.cmd.Wait()
		prober = nil
		return 0, false
	}
	alloc, _ = strconv.ParseUint(strings.TrimSpace(line), 10, 64)
	return alloc, true
}

// ---------------------------------------------------------------- main

func mutations(g *vlib.Rng, b []byte, pos int) [][]byte {
	var out [][]byte
	for _, v := range []byte{b[pos] ^ 1, b[pos] ^ 0x80, 0, 1, 0xfd, 0xfe, 0xff, b[pos] + 1, byte(g.U64())} {
		if v != b[pos] {
			c := exact(b)
			c[pos] = v
			out = append(out, c)
		}
	}
	return out
}

func main() {
	if len(os.Args) > 1 && os.Args[1] == "-probe" {
		probeMain()
		return
	}
	r = vlib.NewRun("C09")
	var err error
	o, err = vlib.StartOracle("c09")
	if err != nil {
		fmt.Println("cannot start oracle:", err)
		os.Exit(3)
	}
	defer o.Close()
	// btc.NewTx println()s "NewTx failed" on every refused input: silence fd 2 (the oracle keeps the real one)
	if nul, e := os.OpenFile("/dev/null", os.O_WRONLY, 0); e == nil {
		syscall.Dup3(int(nul.Fd()), 2, 0)
	}
	debug.SetGCPercent(400)
	startWatchdog()

	if r.Replay != "" {
		replay(r.Replay)
		r.Finish("replay of one recorded case", "replay")
	}
	g := r.Rng
	t0 := time.Now()
	phase := func(name string) {
		if os.Getenv("VERIF_DEBUG") != "" {
			fmt.Printf("phase %s done at %.1fs\n", name, time.Since(t0).Seconds())
		}
	}

	if os.Getenv("C09_ONLY") == "client" { // development aid
		clientStream(g)
		r.Finish("client stream only", "development run")
	}
	// 1. corpus
	for _, c := range corpusTx {
		checkTx("corpus", h(c.hex))
	}
	r.Sample(map[string]string{"op": "tx", "name": corpusTx[1].name, "raw": strings.ReplaceAll(corpusTx[1].hex, " ", "")})
	for _, c := range corpusBlock {
		checkBlock("corpus-block", h(c.hex))
	}
	vec := vectorTxs()
	for _, b := range vec {
		checkTx("core-vector", b)
	}
	r.Extra["core_vectors_used"] = len(vec)

	phase("corpus")
	// 2. valid encodings of random transactions (+ trailing bytes)
	var pool []refTx
	nvalid := r.N(1500, 30000)
	for i := 0; i < nvalid; i++ {
		t := genTx(g, i%40 == 0)
		b := refSerialize(&t, true)
		if _, _, e := refParse(b); e == "" && len(b) < 3000 && len(pool) < 4000 {
			pool = append(pool, t)
		}
		checkTx("generated", b)
		if i%4 == 0 {
			checkTx("trailing", append(exact(b), g.Bytes(1+g.Intn(40))...))
		}
		if i == 3 || i == 10 {
			r.Sample(map[string]string{"op": "tx", "raw": short(b)})
		}
	}

	phase("valid")
	// 2b. one length field at the ends of / inside the CompactSize ranges, incl. the 5-byte one (boundary.go)
	boundaryStream(g)
	phase("ranges")
	// 3. EVERY truncation and every position mutated, of a sample (small ones exhaustively; of larger ones every
	// truncation point near a field boundary is still hit because all prefixes are taken, mutations at 150 positions)
	nsample := r.N(14, 150)
	var small []refTx
	for _, t := range pool {
		if b := refSerialize(&t, true); len(b) <= 260 {
			small = append(small, t)
		}
	}
	for i := 0; i < nsample; i++ {
		var t refTx
		if i%7 == 6 {
			t = pool[g.Intn(len(pool))]
		} else {
			t = small[g.Intn(len(small))]
		}
		b := refSerialize(&t, true)
		r.Hit(fmt.Sprintf("sample-for-truncation-len<=%d", (len(b)/100+1)*100))
		for k := 0; k < len(b); k++ {
			checkTx("truncation", b[:k])
		}
		for k := 0; k < len(b); k++ {
			if len(b) > 260 && !g.Chance(150, len(b)) {
				continue
			}
			for _, m := range mutations(g, b, k) {
				checkTx("mutation", m)
			}
		}
	}

	phase("trunc-mut")
	// 4. every length field of a sample in all four CompactSize forms, plus huge values in every form
	nforms := r.N(60, 1500)
	for i := 0; i < nforms; i++ {
		t := pool[g.Intn(len(pool))]
		_, nf := encodeForms(&t, canon)
		for k := 0; k < nf; k++ {
			for _, f := range []int{1, 3, 5, 9} {
				kk, ff := k, f
				b, _ := encodeForms(&t, func(j int, v uint64) lenForm {
					if j == kk {
						return lenForm{form: ff}
					}
					return lenForm{}
				})
				checkTx(fmt.Sprintf("lenform-%d", f), b)
			}
			hv := hugeVals[g.Intn(len(hugeVals))]
			f := 9
			if hv <= 0xffffffff && g.Bool() {
				f = 5
			}
			if hv <= 0xffff {
				f = g.Pick(3, 5, 9)
			}
			kk := k
			b, _ := encodeForms(&t, func(j int, v uint64) lenForm {
				if j == kk {
					return lenForm{form: f, val: hv, over: true}
				}
				return lenForm{}
			})
			checkTx("huge-count", b)
		}
	}

	phase("lenforms")
	// 5. marker / flag combinations
	nmark := r.N(60, 1500)
	for i := 0; i < nmark; i++ {
		t := pool[g.Intn(len(pool))]
		full, strip := refSerialize(&t, true), refSerialize(&t, false)
		for _, m := range [][]byte{{0, 0}, {0, 1}, {0, 2}, {0, 3}, {0, 0xff}, {1, 1}, {0}, {0, 1, 0}, {0, 1, 0, 1}} {
			checkTx("marker-on-stripped", append(append(exact(strip[:4]), m...), strip[4:]...))
			if t.hasWit {
				c := exact(full)
				if len(m) == 2 {
					c[4], c[5] = m[0], m[1]
					checkTx("marker-replaced", c)
				}
			}
		}
		if t.hasWit { // all witness stacks emptied: the superfluous-witness record
			t2 := t
			t2.wit = make([][][]byte, len(t.ins))
			checkTx("superfluous-witness", refSerialize(&t2, true))
		}
	}

	phase("marker")
	// 6. unstructured bytes
	nrand := r.N(1500, 40000)
	for i := 0; i < nrand; i++ {
		b := g.Bytes(g.Intn(120))
		if len(b) > 6 && g.Chance(2, 3) {
			b[4] = byte(g.Pick(0, 1, 2, 0xfd))
			b[5] = byte(g.Pick(0, 1, 2, 0xfd))
		}
		checkTx("random", b)
	}

	phase("random")
	// 7. structured transactions through both serialisers
	nenc := r.N(800, 20000)
	for i := 0; i < nenc; i++ {
		checkEnc(g)
	}

	phase("enc")
	// 8. blocks
	nblk := r.N(80, 1500)
	for i := 0; i < nblk; i++ {
		ntx := g.Pick(1, 1, 2, 3, 5, 8)
		if i%25 == 0 {
			ntx = g.Pick(253, 260, 120)
		}
		b0, txs := genBlock(g, ntx)
		b := asmBlock(b0[:80], txs, true) // header field = Merkle root of the txids
		checkBlock("block", b)
		if i%3 == 0 {
			checkBlock("block-random-merkle-field", b0)
			c := exact(b)
			c[36+g.Intn(32)] ^= byte(1 << uint(g.Intn(8)))
			checkBlock("block-merkle-field-bitflip", c)
		}
		if d := dupTail(txs); d != nil && i%2 == 0 {
			checkBlock("block-duplicated-tail(CVE-2012-2459)", asmBlock(b[:80], d, false))
		}
		if i%5 == 0 && len(txs) > 1 { // one transaction fewer than the root commits to / one swapped pair
			checkBlock("block-merkle-tx-dropped", asmBlock(b[:80], txs[:len(txs)-1], false))
			sw := append([][]byte{}, txs...)
			sw[0], sw[len(sw)-1] = sw[len(sw)-1], sw[0]
			checkBlock("block-merkle-tx-swapped", asmBlock(b[:80], sw, false))
		}
		switch i % 4 {
		case 0:
			checkBlock("block-trailing", append(exact(b), g.Bytes(1+g.Intn(30))...))
		case 1:
			checkBlock("block-truncated", b[:g.Intn(len(b))])
		case 2:
			c := exact(b)
			p := 80 + g.Intn(len(c)-80)
			c[p] ^= byte(1 << uint(g.Intn(8)))
			checkBlock("block-mutated", c)
		case 3:
			c := exact(b)
			c[80] = byte(g.Pick(0, 0xfd, 0xfe, 0xff, int(c[80])+1))
			checkBlock("block-count-changed", c)
		}
		if i == 0 && len(b) < 700 {
			for k := 0; k <= len(b); k++ {
				checkBlock("block-every-truncation", b[:k])
			}
		}
	}

	phase("blocks")
	// 8b. the exported helpers called directly on short / malformed buffers (direct.go)
	directStream(g)
	writersStream(g)
	phase("direct-helpers")
	// 9. one Block object through histories of calls
	objStream(g)
	phase("block-objects")
	// 10. the Block object of a wanted block inside the node: refused copies, then the real block; the disk cache (client.go)
	clientStream(g)
	phase("client")
	r.Extra["alloc_measured_over_model_min_max"] = []float64{minAllocVsModel, maxAllocVsModel}
	r.Extra["alloc_model_struct_sizes_tx_txin_txout"] = []uint64{uint64(sizeofTx), uint64(sizeofTxIn), uint64(sizeofTxOut)}
	r.Extra["alloc_cases_measured"] = allocMeasured
	r.Extra["alloc_max_bytes_per_input_byte"] = maxAllocRatio
	r.Extra["alloc_max_case"] = maxAllocCase
	r.Extra["alloc_bound_checked"] = "heap bytes allocated by one btc.NewTx call ≤ 64·len(input) + 8192 on every case (exact runtime.MemStats.TotalAlloc delta on alloc_cases_measured cases; on the rest the cheaper runtime/metrics /gc/heap/allocs:bytes delta with 4 MiB slack)"
	r.Assume = []string{
		"SHA-256 is modelled (Lean executable version validated here against Go's crypto/sha256 on every accepted case); theorems are parametric in the hash",
		"inputs shorter than 2^30 bytes (uint32 size fields do not wrap)",
		"the reference parser in this harness (refParse/refSerialize) states BIP144 + Bitcoin Core's UnserializeTransaction/ReadCompactSize",
		"disk cache: a file read back holds what was written, a prefix of it (failed / interrupted write), or has extra bytes appended; a side file of the RIGHT length with other content is not generated (the ids in it are trusted as the block file itself is)",
		"client histories: besides cmpctblock directly followed by its blocktxn, an incomplete cmpctblock of the real list from a fourth peer at any point of the history (its blocktxn arrives after the block was taken) and the honest cmpctblock before / blocktxn after the refused copies are generated; other interleavings (two collectors of the same block completing in turn, a blocktxn for a collector made before a refused copy of ANOTHER list) are not. A refused copy either has a Merkle root that does not match the header or differs from the block in witness bytes only (same txids); a copy with matching txids, valid witness commitment and another defect (the genuinely wrongly mined block, which the node gives up by design) is not generated",
		"size hypotheses of the theorems: sizes_spec bs.length < 2^32-1, block_weight_spec raw.length < 2^30, block_txids_spec / merkle_root_spec / block_object_txids_after_history < 2^32; disk_cache_exact: the hash function returns 32 bytes; client_copies_exact: header exactly 80 bytes, refused copies >= 80 bytes (netBlockReceived refuses payloads < 100 before the object is touched; Assemble() starts with the 80-byte header), final copy >= 81 bytes; block_object_history_independent: first content >= 80 bytes, the client's reset is handed >= 80 bytes (Op.WF)",
		"the model run of a node history is skipped when copies + block exceed 60000 bytes (histogram client-model-skipped:large; every disk-cache history and the 251..300-transaction blocks): there only the property side (fresh Block of the real bytes, reference txids, Raw = header after every refused copy, block not given up) is evaluated",
		"allocation counter of the model (Wire.allocTx) counts bytes REQUESTED (64-bit Go: pointer 8, slice header 24, struct sizes from unsafe.Sizeof); size-class rounding and the panic value of a refused input are covered by the tie bound A <= measured <= 2A+2048",
	}
	r.Finish("corpus (defect witnesses of F4, boundary shapes, Core's tx_valid/tx_invalid vectors from /repo/lib/test); BIP144 encodings of random transactions (0..300 inputs/outputs/witness items, scripts 0..65537 bytes, CompactSize boundaries 252..257/65535..65537) with and without trailing bytes; ONE length field (input count, scriptSig length, output count, pk_script length, witness item count, witness item length) at 252/253/65535/65536/65537 and inside the 5-byte CompactSize range, legacy and BIP144 layout, each also cut / with trailing bytes / with a damaged prefix, as a hand-built btc.Tx through both serialisers, and inside blocks; WriteVlen/PutULe/VLenSize/VULe/ReadVLen directly on values of all four CompactSize ranges; EVERY truncation and every byte position mutated 6-9 ways of a sample; every length field of a sample in each of the four CompactSize forms and with huge values; marker/flag combinations; emptied witnesses; unstructured bytes; structured transactions through both serialisers; random blocks (header Merkle field = root of the txids; also random / bit-flipped field, CVE-2012-2459 duplicated tails, dropped and swapped transactions) with trailing bytes, truncations, bit flips, changed count forms; histories of 1..8 calls (UpdateContent with valid / truncated / count-damaged / header-only / too-short contents, BuildTxListExt(false), BuildTxList, Clean, the client's reset) on ONE Block object; the Block object of a wanted block INSIDE THE NODE (synthetic chain, real client/network handlers through the dispatch mirror): 0..3 refused copies of a 1..300-transaction block — another transaction list behind the same header (tail / one dropped, one / some appended, one replaced, two swapped, only two left, coinbase + a stranger; 251..254 and 300 transactions so that the count changes its CompactSize width), a cut / bit-flipped body or a changed count byte, or the block's own transactions with other WITNESS bytes (one bit of an item, an item added, a witness stripped, the coinbase's reserved value flipped / resized / dropped, witness bytes on a block without commitment: txids and Merkle root unchanged; all six classes through all three entry paths on every run) — each through `block`, `cmpctblock` (complete) or `cmpctblock`+`blocktxn`, then the real block through any of the three, with an incomplete cmpctblock of the real list from a fourth peer at a random point of 1 history in 3 and the honest cmpctblock sent before the refused copies in half of the blocktxn deliveries; blocks of more than 16 KB parked on disk by netBlockReceived and read back by the real get_block_from_disk_cache (child process built from the repository's client package + one driver file through go build -overlay) with the .hashes side file complete, missing, extended, cut at the head / tail (by 1, 5, 31, 32, 33, 63..96 bytes) / a record boundary / anywhere, and the block file cut or missing. distinct = distinct input byte strings longer than 4 bytes",
		"each byte string is run through btc.NewTx/SetHash/Serialize/SerializeNew/Weight/VSize/TxSize (blocks: NewBlock+BuildTxListExt true and false), through the Lean model (oracle_c09) and through an independent BIP144/Core reference parser; the property predicate (no panic; accepted iff the reference accepts; re-encoding = bytes consumed; txid/wtxid = double-SHA256 of the stripped/full serialisation; Size/NoWitSize/Weight/VSize/BlockWeight per BIP141; TxSize = consumed and never past the buffer; allocation ≤ 64·len+8192; MerkleRootMatch iff built completely, header field = reference Merkle root of the reference txids, no duplicated pair) is evaluated on the real code; for Block objects with a history: after every build the object carries exactly what a fresh Block of the bytes it holds now carries (error class, TxCount, Txs ids/sizes, BlockWeight, MerkleRootMatch), no panic, Txs[i].Hash = reference txid after BuildTxList, and every field after every call equals the stateful Lean model; for the node's Block object: after any refused copies the block handed to the chain thread (network.NetBlocks) is the real block with exactly what a fresh Block of its bytes carries and reference txids, the sender is not refused, no wrong copy is accepted, after EVERY refused copy the block is still wanted (a node that gives the valid block up is a failure, key client-block-given-up), Raw is the bare header, the error PostCheckBlock returned inside netBlockReceived (read from what the handler prints) has the decoder class of a fresh Block of that copy and of the model, and the object (Raw included) equals the model run of the regenerated install / discard statement lists; a late blocktxn for a block already taken hands nothing over; for the disk cache: the files netBlockReceived wrote are the block and the model's side file, and reading back gives a loud failure or exactly the ids / sizes / weight of the block as decoded on arrival (and equals the model diskCacheGet); model = implementation on every field is the tie for the theorems in Props/C09.lean")
}

// parseEncLine: the fields of a recorded `enc` request (see checkEncTx) back into a refTx
func parseEncLine(line string) (t refTx, ok bool) {
	f := strings.Fields(line)
	p := 0
	bad := false
	next := func() string {
		if p >= len(f) {
			bad = true
			return "0"
		}
		p++
		return f[p-1]
	}
	num := func() uint64 {
		v, e := strconv.ParseUint(next(), 10, 64)
		bad = bad || e != nil
		return v
	}
	if next() != "enc" {
		return t, false
	}
	t.ver, t.lock = uint32(num()), uint32(num())
	t.hasWit = next() == "1"
	for n := num(); n > 0 && !bad; n-- {
		var in refIn
		in.hash = vlib.UnHex(next())
		in.idx = uint32(num())
		in.script = vlib.UnHex(next())
		in.seq = uint32(num())
		t.ins = append(t.ins, in)
	}
	for n := num(); n > 0 && !bad; n-- {
		var ou refOut
		ou.value = num()
		ou.script = vlib.UnHex(next())
		t.outs = append(t.outs, ou)
	}
	if t.hasWit {
		for n := num(); n > 0 && !bad; n-- {
			st := [][]byte{}
			for k := num(); k > 0 && !bad; k-- {
				st = append(st, vlib.UnHex(next()))
			}
			t.wit = append(t.wit, st)
		}
	}
	return t, !bad && p == len(f)
}

func replay(path string) {
	b, err := os.ReadFile(path)
	if err != nil {
		fmt.Println("cannot read replay:", err)
		os.Exit(3)
	}
	var doc struct {
		Replay map[string]interface{} `json:"replay"`
	}
	json.Unmarshal(b, &doc)
	str := func(k string) string { s, _ := doc.Replay[k].(string); return s }
	switch str("op") {
	case "tx":
		checkTx("replay", vlib.UnHex(str("raw")))
	case "block":
		checkBlock("replay", vlib.UnHex(str("raw")))
	case "obj":
		replayObj(str("data"), str("ops"))
	case "client":
		dk, _ := doc.Replay["disk"].(bool)
		replayClient(str("case"), dk, str("fault"), str("copy"))
	case "enc":
		if t, ok := parseEncLine(str("line")); ok {
			checkEncTx(t, "replay")
		} else {
			fmt.Println("replay: cannot parse the recorded enc line")
			os.Exit(3)
		}
	case "direct:CompactSize":
		v, _ := strconv.ParseUint(str("v"), 10, 64)
		checkWriters(v, []byte{0xaa, 0xbb})
	case "direct:VULe":
		b := vlib.UnHex(str("raw"))
		x, n := btc.VULe(b)
		fmt.Printf("replay: btc.VULe(%s) = %d %d, model vule = %s\n", short(b), x, n, o.MustAsk("vule "+vlib.Hex(b)))
		r.PropFail("direct-vule", "replayed: compare the line above with the CompactSize at the start of the bytes", map[string]interface{}{"op": "direct:VULe", "raw": vlib.Hex(b)})
	default:
		fmt.Println("replay: nothing to re-run for this file (proof-level violation); see its 'broken' field")
	}
}
