// direct.go — the exported helpers of the property's mechanism list that NewTx / TxSize call (or called before the
// fixes) and that nothing reached on their own: NewTxIn, NewTxOut, TxInSize, TxOutSize on short and malformed buffers,
// and the CompactSize helpers VLen, ReadVLen, PutVlen. Called directly (nothing around them recovers), compared with the
// model's decodeTxIn / decodeTxOut / txInSize / txOutSize / Base.vlen / Base.putULe (oracle ops txin, txout, txinsize,
// txoutsize, vlen, putule) and with what the wire format says.
//   * NewTxIn / NewTxOut: the model folds "returns nil,0" and "panics" into `none` (NewTx recovers); here the two are told
//     apart in the histogram, and `none` must be exactly {nil, panic}. A buffer shorter than the fixed part (36 / 8 bytes)
//     or cut inside script / sequence PANICS when the helper is called directly — documented behaviour, not a failure of
//     the property (whose subject is NewTx / NewBlock / TxSize), recorded as direct:<fn>=panic.
//   * TxInSize / TxOutSize: the model distinguishes panic (buffer shorter than 36 / 8) from 0 (length prefix refused).
//   * VLen: value (as Go int) and size, (0,0) on a short buffer, all four forms accepted (the lax reader);
//     ReadVLen: the same number from an io.Reader, an error exactly when VLen gives size 0;
//     PutVlen: the canonical form of uint32(v); a buffer shorter than that PANICS (recorded).
package main

import (
	"bytes"
	"encoding/binary"
	"encoding/hex"
	"fmt"
	"strings"

	"github.com/piotrnar/gocoin/lib/btc"
	"verif/vlib"
)

func directBuffers(g *vlib.Rng, fixed int, withSeq bool) [][]byte {
	var res [][]byte
	mk := func(script []byte, prefix []byte) []byte {
		b := g.Bytes(fixed)
		if prefix == nil {
			var w bytes.Buffer
			putCS(&w, uint64(len(script)))
			prefix = w.Bytes()
		}
		b = append(append(b, prefix...), script...)
		if withSeq {
			b = append(b, g.Bytes(4)...)
		}
		return b
	}
	for _, l := range []int{0, 1, 2, 252, 253, 254, 300} {
		full := mk(g.Bytes(l), nil)
		res = append(res, full, append(append([]byte{}, full...), g.Bytes(3)...))
		// every cut around the boundaries: inside the fixed part, the prefix, the script, the sequence
		for _, k := range []int{0, 1, fixed - 1, fixed, fixed + 1, fixed + 2, fixed + 3, len(full) - 5, len(full) - 4, len(full) - 3, len(full) - 1} {
			if k >= 0 && k < len(full) {
				res = append(res, full[:k])
			}
		}
	}
	// non-minimal and oversized length prefixes
	for _, p := range [][]byte{{0xfd, 5, 0}, {0xfd, 0xfc, 0}, {0xfe, 5, 0, 0, 0}, {0xfe, 0xff, 0xff, 0, 0}, {0xff, 5, 0, 0, 0, 0, 0, 0, 0}, {0xff, 0, 0, 0, 0, 1, 0, 0, 0},
		{0xfd}, {0xfd, 1}, {0xfe, 1, 2, 3}, {0xff, 1, 2, 3, 4, 5, 6, 7}, {0xff, 0xff, 0xff, 0xff, 0xff, 0xff, 0xff, 0xff, 0xff}, {0xff, 0, 0, 0, 0, 0, 0, 0, 0x80}, {0xfe, 0, 0, 0, 0x80}, {200}} {
		res = append(res, mk(g.Bytes(5), p))
	}
	for i := 0; i < 60; i++ {
		b := mk(g.Bytes(g.Intn(40)), nil)
		if g.Bool() {
			b = b[:g.Intn(len(b)+1)]
		} else if len(b) > 0 {
			b[g.Intn(len(b))] ^= byte(1 << uint(g.Intn(8)))
		}
		res = append(res, b)
	}
	return res
}

func directStream(g *vlib.Rng) {
	doc := func(fn string, b []byte) map[string]interface{} {
		return map[string]interface{}{"op": "direct:" + fn, "raw": vlib.Hex(b)}
	}
	judge := func(fn string, b []byte, real, model string, modelNone func(string) bool) {
		beat("exported helper "+fn+" called directly", nil)
		r.Eval("direct:"+fn, fn+string(b))
		cls := strings.Fields(real)[0]
		switch {
		case fn == "VLen" && strings.HasSuffix(real, " 0"):
			cls = "short-buffer(0,0)"
		case fn == "VLen" && strings.HasPrefix(real, "-"):
			cls = "negative-int"
		case fn == "VLen":
			cls = "value"
		case (fn == "TxInSize" || fn == "TxOutSize") && cls != "0" && cls != "panic":
			cls = "size"
		}
		r.Hit("direct:" + fn + "=" + cls)
		if real == model || (model == "none" && modelNone(real)) {
			r.TieOK()
		} else {
			r.TieFail("tie-direct-"+fn, fmt.Sprintf("btc.%s called directly: real %s, model %s; input=%s", fn, short([]byte(real)), short([]byte(model)), short(b)), doc(fn, b))
		}
	}
	nilOrPanic := func(s string) bool { return s == "nil" || s == "panic" }
	never := func(string) bool { return false }
	// NewTxIn / TxInSize
	for _, raw := range directBuffers(g, 36, true) {
		b := exact(raw)
		real := "panic"
		func() {
			defer func() { recover() }()
			in, n := btc.NewTxIn(b)
			if in == nil {
				real = "nil"
				if n != 0 {
					real = fmt.Sprintf("nil-with-offset-%d", n)
				}
				return
			}
			real = fmt.Sprintf("ok %d %s.%d.%d.%d %s", n, hex.EncodeToString(in.Input.Hash[:4]), in.Input.Vout, in.Sequence, len(in.ScriptSig), vlib.Hex(in.ScriptSig))
		}()
		judge("NewTxIn", raw, real, o.MustAsk("txin "+vlib.Hex(raw)), nilOrPanic)
		// the wire format itself: accepted iff 36 bytes + canonical length + script + 4 bytes are there; fields little-endian
		d := &reader{b: raw}
		h := d.take(32)
		idx := uint32(le(d.take(4)))
		sc := d.take(d.cs())
		seq := uint32(le(d.take(4)))
		if d.err == "" {
			want := fmt.Sprintf("ok %d %s.%d.%d.%d %s", d.p, hex.EncodeToString(h[:4]), idx, seq, len(sc), vlib.Hex(sc))
			if real != want {
				r.PropFail("direct-newtxin", fmt.Sprintf("btc.NewTxIn on a well-formed input: %s, the wire format says %s", short([]byte(real)), short([]byte(want))), doc("NewTxIn", raw))
			}
		} else if strings.HasPrefix(real, "ok ") {
			r.PropFail("direct-newtxin-accepts", "btc.NewTxIn accepts an input the wire format refuses ("+d.err+"): "+short(raw), doc("NewTxIn", raw))
		}
		real = "panic"
		func() {
			defer func() { recover() }()
			real = fmt.Sprint(btc.TxInSize(b))
		}()
		judge("TxInSize", raw, real, o.MustAsk("txinsize "+vlib.Hex(raw)), never)
	}
	// NewTxOut / TxOutSize
	for _, raw := range directBuffers(g, 8, false) {
		b := exact(raw)
		real := "panic"
		func() {
			defer func() { recover() }()
			t, n := btc.NewTxOut(b)
			if t == nil {
				real = "nil"
				if n != 0 {
					real = fmt.Sprintf("nil-with-offset-%d", n)
				}
				return
			}
			real = fmt.Sprintf("ok %d %d.%d %s", n, t.Value, len(t.Pk_script), vlib.Hex(t.Pk_script))
		}()
		judge("NewTxOut", raw, real, o.MustAsk("txout "+vlib.Hex(raw)), nilOrPanic)
		d := &reader{b: raw}
		v := le(d.take(8))
		sc := d.take(d.cs())
		if d.err == "" {
			want := fmt.Sprintf("ok %d %d.%d %s", d.p, v, len(sc), vlib.Hex(sc))
			if real != want {
				r.PropFail("direct-newtxout", fmt.Sprintf("btc.NewTxOut on a well-formed output: %s, the wire format says %s", short([]byte(real)), short([]byte(want))), doc("NewTxOut", raw))
			}
		} else if strings.HasPrefix(real, "ok ") {
			r.PropFail("direct-newtxout-accepts", "btc.NewTxOut accepts an output the wire format refuses ("+d.err+"): "+short(raw), doc("NewTxOut", raw))
		}
		real = "panic"
		func() {
			defer func() { recover() }()
			real = fmt.Sprint(btc.TxOutSize(b))
		}()
		judge("TxOutSize", raw, real, o.MustAsk("txoutsize "+vlib.Hex(raw)), never)
	}
	// VLen / ReadVLen: every form at every length 0..10, boundary values
	var bufs [][]byte
	for _, first := range []byte{0, 1, 0xfc, 0xfd, 0xfe, 0xff} {
		for l := 0; l <= 10; l++ {
			b := append([]byte{first}, g.Bytes(10)...)
			bufs = append(bufs, b[:l])
		}
	}
	for _, v := range []uint64{0, 0xfc, 0xfd, 0xffff, 0x10000, 0x7fffffff, 0x80000000, 0xffffffff, 0x100000000, 1<<63 - 1, 1 << 63, ^uint64(0)} {
		var w bytes.Buffer
		putCS(&w, v)
		bufs = append(bufs, w.Bytes())
		nine := make([]byte, 9)
		nine[0] = 0xff
		binary.LittleEndian.PutUint64(nine[1:], v)
		bufs = append(bufs, nine)
	}
	for _, raw := range bufs {
		b := exact(raw)
		real := "panic"
		var le0, n0 int
		func() {
			defer func() { recover() }()
			le0, n0 = btc.VLen(b)
			real = fmt.Sprintf("%d %d", le0, n0)
		}()
		judge("VLen", raw, real, o.MustAsk("vlen "+vlib.Hex(raw)), never)
		if real == "panic" {
			r.PropFail("direct-vlen-panic", "btc.VLen panicked on "+short(raw), doc("VLen", raw))
			continue
		}
		rv, rerr := uint64(0), error(nil)
		rpan := false
		func() {
			defer func() {
				if recover() != nil {
					rpan = true
				}
			}()
			rv, rerr = btc.ReadVLen(bytes.NewReader(b))
		}()
		beat("btc.ReadVLen called directly", nil)
		r.Eval("direct:ReadVLen", "ReadVLen"+string(raw))
		switch {
		case rpan:
			r.Hit("direct:ReadVLen=panic")
			r.PropFail("direct-readvlen-panic", "btc.ReadVLen panicked on "+short(raw), doc("ReadVLen", raw))
		case (rerr != nil) != (n0 == 0):
			r.Hit("direct:ReadVLen=disagrees")
			r.TieFail("tie-direct-ReadVLen", fmt.Sprintf("btc.ReadVLen error=%v but btc.VLen size=%d on %s", rerr, n0, short(raw)), doc("ReadVLen", raw))
		case rerr == nil && rv != uint64(le0):
			r.Hit("direct:ReadVLen=disagrees")
			r.TieFail("tie-direct-ReadVLen", fmt.Sprintf("btc.ReadVLen=%d, btc.VLen=%d on %s", rv, uint64(le0), short(raw)), doc("ReadVLen", raw))
		default:
			if rerr != nil {
				r.Hit("direct:ReadVLen=error")
			} else {
				r.Hit("direct:ReadVLen=ok")
			}
			r.TieOK()
		}
	}
	// PutVlen: canonical encoding of uint32(v); buffers of every length 0..6
	for _, v := range []int{0, 1, 0xfc, 0xfd, 0xfe, 0xffff, 0x10000, 0x7fffffff, 0x80000000, 0xffffffff, 0x100000000, 0x1000000fd, -1} {
		want := o.MustAsk(fmt.Sprintf("putule %d", uint32(v)))
		for l := 0; l <= 6; l++ {
			buf := make([]byte, l)
			real := "panic"
			func() {
				defer func() { recover() }()
				n := btc.PutVlen(buf, v)
				real = vlib.Hex(buf[:n])
			}()
			r.Eval("direct:PutVlen", fmt.Sprint("PutVlen", v, l))
			need := len(want) / 2
			switch {
			case l < need && real == "panic":
				r.Hit("direct:PutVlen=panic(buffer-shorter-than-the-encoding)")
				r.TieOK()
			case real == want:
				if uint64(uint32(v)) != uint64(v) {
					r.Hit("direct:PutVlen=ok(value-truncated-to-uint32)")
				} else {
					r.Hit("direct:PutVlen=ok")
				}
				r.TieOK()
			default:
				r.TieFail("tie-direct-PutVlen", fmt.Sprintf("btc.PutVlen(buf[%d], %d) = %s, canonical CompactSize of uint32(v) is %s", l, v, real, want), map[string]interface{}{"op": "direct:PutVlen", "v": v, "buflen": l})
			}
		}
	}
}
