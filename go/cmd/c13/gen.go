package main

// Generators: wallets, balance folders, payment requests over the property's grid, raw transactions, multisig
// scenarios, malformed requests; the hand-made corpus; the in-process StringToSatoshis tie.

import (
	"encoding/hex"
	"fmt"
	"os"
	"strings"

	"github.com/piotrnar/gocoin/lib/btc"
	"verif/vlib"
)

// ---------------------------------------------------------------- amounts
func fmtAmt(g *vlib.Rng, sat uint64, variant int) string {
	whole, frac := sat/1e8, sat%1e8
	if variant < 0 {
		variant = g.Intn(5)
	}
	fs := fmt.Sprintf("%08d", frac)
	switch variant {
	case 0:
		return fmt.Sprintf("%d.%s", whole, fs)
	case 1: // shortest
		t := strings.TrimRight(fs, "0")
		if t == "" {
			return fmt.Sprintf("%d", whole)
		}
		return fmt.Sprintf("%d.%s", whole, t)
	case 2: // leading zeros
		return fmt.Sprintf("00%d.%s", whole, fs)
	case 3: // partial trailing zeros
		t := strings.TrimRight(fs, "0")
		if len(t) < 8 && g.Bool() {
			t += "0"
		}
		if t == "" {
			return fmt.Sprintf("%d.", whole)
		}
		return fmt.Sprintf("%d.%s", whole, t)
	default:
		if frac == 0 {
			return fmt.Sprintf("%d.0", whole)
		}
		return fmt.Sprintf("%d.%s", whole, fs)
	}
}

// amountTie compares btc.StringToSatoshis (in process) with the model on boundary and random strings.
func amountTie() {
	o, err := vlib.StartOracle("c13")
	if err != nil {
		fmt.Println("oracle:", err)
		os.Exit(3)
	}
	defer o.Close()
	g := r.Rng.Fork()
	strs := []string{"", "0", "1", "0.00000001", "1.5", "5.", ".5", "1.123456789", "1.12345678", "abc", "-1", "+1", "1e3", "0x10", "1_0",
		"184467440737.09551615", "184467440737.09551616", "184467440737", "184467440738", "18446744073709551615", "18446744073709551616",
		"21000000", "20999999.99999999", " 1", "1 ", "1.", "1.0000000a", "１", "0.1", "0.10", "00.1", "99999999999999999999.1", "1.99999999",
		"1.2.3", "..", "1..", "0.0.0"}
	alpha := "0123456789..  ab-+e"
	for i := 0; i < r.N(3000, 30000); i++ {
		n := g.Intn(24)
		b := make([]byte, n)
		for j := range b {
			if g.Chance(7, 8) {
				b[j] = alpha[g.Intn(11)]
			} else {
				b[j] = alpha[g.Intn(len(alpha))]
			}
		}
		strs = append(strs, string(b))
		if g.Chance(1, 3) {
			strs = append(strs, fmtAmt(g, g.U64()>>uint(g.Intn(64)), -1))
		}
	}
	for _, s := range strs {
		rep := o.MustAsk("amt " + vlib.Hex([]byte(s)))
		if strings.Count(s, ".") >= 2 {
			// the real function calls os.Exit(1) here; that path is exercised through the wallet binary only
			if rep != "exit" {
				r.TieFail("amt", fmt.Sprintf("StringToSatoshis(%q): model %s, code exits", s, rep), map[string]string{"kind": "amt", "s": s})
			}
			r.Hit("amt:exit")
			continue
		}
		v, e := btc.StringToSatoshis(s)
		want := "err"
		if e == nil {
			want = fmt.Sprintf("ok %d", v)
		}
		r.Eval("amt", "")
		if rep != want {
			r.TieFail("amt", fmt.Sprintf("StringToSatoshis(%q): model %s, code %s", s, rep, want), map[string]string{"kind": "amt", "s": s})
		} else {
			r.TieOK()
			r.Hit("amt:" + strings.Fields(want)[0])
		}
	}
}

// ---------------------------------------------------------------- wallets, coins
var atypes = []string{"p2kh", "segwit", "bech32", "tap"}
var ownKinds = []string{"p2pkh", "p2sh", "p2wpkh", "p2tr"}

func genWallet(g *vlib.Rng) WCfg {
	w := WCfg{Type: g.Pick(3, 4), Testnet: g.Chance(1, 3), Atype: atypes[g.Intn(4)], Keycnt: 3 + g.Intn(4)}
	w.Pass = fmt.Sprintf("pw%x", g.U64()&0xffff)
	if g.Chance(1, 3) {
		w.Seed = fmt.Sprintf("s%d", g.Intn(4))
	}
	if w.Type == 4 && g.Bool() {
		w.HdPath = []string{"m/0'", "m/44'/0'/0'/0", "m/84'/0'/0'/0/5", "m/0/1"}[g.Intn(4)]
	}
	w.Minsig = g.Chance(1, 8)
	if g.Chance(1, 3) {
		w.Others = genOthers(g, w.Testnet, 1+g.Intn(3), -1)
	}
	return w
}

// genOthers: the lines of a .others file with n imported raw keys (built with the repo's own btc.NewPrivateAddr /
// PrivateAddr.String): each key in the compressed or the uncompressed WIF form (uncomprMask: bit k set = key k is
// uncompressed; -1 = random), with or without a label, now and then with the OTHER network's version byte (the
// wallet only warns and loads it); comment lines, empty lines and a line that does not decode (skipped by the wallet)
// in between. The wallet puts these keys in front of the deterministic ones.
func genOthers(g *vlib.Rng, testnet bool, n int, uncomprMask int) []string {
	var ls []string
	junk := func() {
		switch g.Intn(8) {
		case 0:
			ls = append(ls, "# imported keys")
		case 1:
			ls = append(ls, "")
		case 2:
			ls = append(ls, "5HueCGU8rMjxEXxiPuD5BDku4MkFqeZyd4dZ1jvhTVqvbTLvyTx label of an undecodable line") // checksum error
		}
	}
	for k := 0; k < n; k++ {
		junk()
		key := append([]byte{byte(1 + g.Intn(200))}, g.Bytes(31)...) // below the group order
		ver := byte(0x80)
		if testnet != g.Chance(1, 8) {
			ver = 0xef
		}
		uncompr := g.Bool()
		if uncomprMask >= 0 {
			uncompr = uncomprMask&(1<<uint(k)) != 0
		}
		l := btc.NewPrivateAddr(key, ver, !uncompr).String()
		if g.Bool() {
			l += fmt.Sprintf(" imported %d", k)
		}
		if g.Chance(1, 6) {
			l = " " + l
		}
		ls = append(ls, l)
	}
	junk()
	return ls
}

// randOwn: an output script the wallet owns - any of the four types for a compressed key, P2PKH for a key that is
// not compressed (it has no SegWit form).
func randOwn(g *vlib.Rng, pubs [][]byte) []byte {
	kind, pub := ownKinds[g.Intn(4)], pubs[g.Intn(len(pubs))]
	if len(pub) != 33 {
		kind = "p2pkh"
	}
	return ownScript(kind, pub)
}

// aliasKinds: scripts of ANOTHER template that merely carry one of the wallet's 20-byte hashes (or 20 zero bytes, the
// Hash160 field of a witness-program address in bech32 / tap mode). Anybody can create them; the wallet must not treat
// them as its own (finding F1 of the second audit: before the fix pkscr_to_key / hash_to_key_idx matched the 20 bytes
// against keys[i].Hash160 AND segwit[i].Hash160 whatever the template, and the P2SH test did not read byte 1).
var aliasKinds = []string{"p2sh-of-keyhash", "p2pkh-of-scripthash", "p2wpkh-of-scripthash", "p2pkh-zero", "p2wpkh-zero", "p2sh-zero",
	"p2sh-badlen-scripthash", "p2sh-badlen-keyhash"}

func aliasScript(kind string, pub []byte) []byte {
	kh := h160(pub)
	sh := h160(scrP2WPKH(kh))
	zero := make([]byte, 20)
	switch kind {
	case "p2sh-of-keyhash":
		return scrP2SH(kh)
	case "p2pkh-of-scripthash":
		return scrP2PKH(sh)
	case "p2wpkh-of-scripthash":
		return scrP2WPKH(sh)
	case "p2pkh-zero":
		return scrP2PKH(zero)
	case "p2wpkh-zero":
		return scrP2WPKH(zero)
	case "p2sh-zero":
		return scrP2SH(zero)
	case "p2sh-badlen-scripthash": // a9 <not 0x14> <script hash> 87: 23 bytes, not a P2SH script
		s := scrP2SH(sh)
		s[1] = 0x15
		return s
	case "p2sh-badlen-keyhash":
		s := scrP2SH(kh)
		s[1] = 0x4c
		return s
	}
	panic("alias kind " + kind)
}

func randAlias(g *vlib.Rng, pubs [][]byte) []byte {
	return aliasScript(aliasKinds[g.Intn(len(aliasKinds))], pubs[g.Intn(len(pubs))])
}

func randScript(g *vlib.Rng, kind string) []byte {
	switch kind {
	case "p2pkh":
		return scrP2PKH(g.Bytes(20))
	case "p2sh":
		return scrP2SH(g.Bytes(20))
	case "p2wpkh":
		return scrP2WPKH(g.Bytes(20))
	case "p2wsh":
		return scrWit(0, g.Bytes(32))
	case "p2tr":
		return scrP2TR(g.Bytes(32))
	default: // future witness version
		return scrWit(2+g.Intn(15), g.Bytes(2+g.Intn(39)))
	}
}

var destKinds = []string{"p2pkh", "p2sh", "p2wpkh", "p2wsh", "p2tr", "witfuture"}

func pickValue(g *vlib.Rng) uint64 {
	switch g.Intn(10) {
	case 0:
		return 1
	case 1:
		return 546
	case 2:
		return uint64(g.Pick(99999, 100000, 100001, 200000))
	case 3:
		return 100000000
	case 4:
		return 2100000000000000
	case 5, 6:
		return 1 + g.U64()%1000000
	default:
		return 1 + g.U64()%10000000000
	}
}

type coinPlan struct {
	script []byte
	value  uint64
}

// fundingTx builds one funding transaction paying the given outputs (plus fillers); returns raw hex, txid and vouts.
func fundingTx(g *vlib.Rng, outs []coinPlan) (string, string, []uint32) {
	tx := new(btc.Tx)
	tx.Version = uint32(g.Pick(1, 2))
	tin := &btc.TxIn{Sequence: 0xffffffff, ScriptSig: g.Bytes(g.Intn(20))}
	copy(tin.Input.Hash[:], g.Bytes(32))
	tin.Input.Vout = uint32(g.Intn(3))
	tx.TxIn = []*btc.TxIn{tin}
	var vouts []uint32
	for _, o := range outs {
		for g.Chance(1, 3) {
			tx.TxOut = append(tx.TxOut, &btc.TxOut{Value: g.U64() % 100000, Pk_script: randScript(g, destKinds[g.Intn(5)])})
		}
		vouts = append(vouts, uint32(len(tx.TxOut)))
		tx.TxOut = append(tx.TxOut, &btc.TxOut{Value: o.value, Pk_script: o.script})
	}
	var raw []byte
	if g.Chance(1, 3) {
		tx.SegWit = [][][]byte{{g.Bytes(1 + g.Intn(70))}}
		raw = tx.SerializeNew()
	} else {
		raw = tx.Serialize()
	}
	t2, _ := btc.NewTx(raw)
	t2.SetHash(raw)
	return hex.EncodeToString(raw), t2.Hash.String(), vouts
}

// genBalance fills c.Funding / c.Unspent with n coins; forced kinds first (own types), then random.
func genBalance(g *vlib.Rng, c *Case, pubs [][]byte, plans []coinPlan) {
	i := 0
	for i < len(plans) {
		m := 1 + g.Intn(3)
		if i+m > len(plans) {
			m = len(plans) - i
		}
		raw, txid, vouts := fundingTx(g, plans[i:i+m])
		c.Funding = append(c.Funding, raw)
		for j := 0; j < m; j++ {
			label := ""
			if g.Bool() {
				label = fmt.Sprintf("# %s BTC @ x", btc.UintToBtc(plans[i+j].value))
			}
			c.Unspent = append(c.Unspent, Unspent{Txid: txid, Vout: vouts[j], Value: plans[i+j].value,
				Script: hex.EncodeToString(plans[i+j].script), Label: label})
		}
		i += m
	}
}

func genPlans(g *vlib.Rng, pubs [][]byte, n int) []coinPlan {
	var ps []coinPlan
	for i := 0; i < n; i++ {
		var sc []byte
		if g.Chance(1, 6) {
			if g.Chance(1, 3) {
				sc = randAlias(g, pubs) // foreign, but carrying one of the wallet's hashes in another template
			} else {
				sc = randScript(g, destKinds[g.Intn(5)]) // foreign
			}
		} else {
			sc = randOwn(g, pubs)
		}
		ps = append(ps, coinPlan{sc, pickValue(g)})
	}
	return ps
}

func make32(b byte) []byte {
	o := make([]byte, 32)
	for i := range o {
		o[i] = b
	}
	return o
}

func addrOf(scr []byte, testnet bool) string {
	a := btc.NewAddrFromPkScript(scr, testnet)
	if a == nil {
		return ""
	}
	return a.String()
}

func destScript(g *vlib.Rng, pubs [][]byte) []byte {
	if g.Chance(1, 5) {
		return randOwn(g, pubs)
	}
	if g.Chance(1, 12) {
		if sc := randAlias(g, pubs); addrOf(sc, false) != "" { // payable by address (the bad-length forms have none)
			return sc
		}
	}
	return randScript(g, destKinds[g.Intn(len(destKinds))])
}

// ---------------------------------------------------------------- send cases
type sendOpts struct {
	w        *WCfg
	plans    []coinPlan // nil = random
	ndest    int        // 0 = random
	mode     int        // -1 = random: 0 exact, 1 one short, 2 one spare, 3 small, 4 one satoshi each, 5 far too much, 6 prefix boundary
	fee      int64      // -1 random, else satoshis
	subfee   int        // -1 random, 0/1
	msgLen   int        // -1 random, 0 none
	change   int        // -1 random, 0 none, 1 foreign, 2 own
	useBatch int        // -1 random, 0 send, 1 batch, 2 both
	useAll   int
	rfc      int
	seq      *int64
	lock     *uint64
	ver      *uint64
	apply    int
	txfn     string
	upper    bool
}

func defOpts() sendOpts {
	return sendOpts{mode: -1, fee: -1, subfee: -1, msgLen: -1, change: -1, useBatch: -1, useAll: -1, rfc: -1, apply: -1}
}

func tri(g *vlib.Rng, v int, num, den int) bool {
	if v < 0 {
		return g.Chance(num, den)
	}
	return v == 1
}

func genSend(g *vlib.Rng, name string, op sendOpts) *Case {
	c := &Case{Name: name, Kind: "send", Valid: true}
	if op.w != nil {
		c.W = *op.w
	} else {
		c.W = genWallet(g)
	}
	pubs, err := walletPubkeys(&c.W)
	if err != nil {
		fmt.Println("INFRA:", err)
		os.Exit(3)
	}
	plans := op.plans
	if plans == nil {
		plans = genPlans(g, pubs, 1+g.Intn(7))
	}
	genBalance(g, c, pubs, plans)
	bech := c.W.bech32Mode()
	var ownedVals []uint64
	var have uint64
	for _, p := range plans {
		if ownedBy(pubs, bech, p.script) {
			ownedVals = append(ownedVals, p.value)
			have += p.value
		}
	}
	// fee
	fee := uint64(100000)
	switch {
	case op.fee >= 0:
		fee = uint64(op.fee)
	case g.Chance(1, 2):
		fee = []uint64{0, 1, 1000, 100000, 12345, 999999}[g.Intn(6)]
	}
	if fee != 100000 || g.Chance(1, 6) {
		if g.Bool() {
			c.FeeFlag = fmtAmt(g, fee, -1)
		} else {
			c.W.CfgFee = fmtAmt(g, fee, -1)
		}
	}
	c.FeeSat = fee
	// destinations and amounts
	k := op.ndest
	if k == 0 {
		k = 1 + g.Intn(4)
	}
	mode := op.mode
	if mode < 0 {
		mode = g.Pick(0, 1, 2, 3, 3, 3, 4, 5, 6, 6)
	}
	var target uint64 // Σ paid
	switch mode {
	case 0:
		target = have - fee
	case 1:
		target = have - fee + 1
	case 2:
		target = have - fee - 1
	case 5:
		target = have + 1 + g.U64()%1000000
	case 6:
		j := 1 + g.Intn(len(ownedVals)+1)
		var s uint64
		for i := 0; i < j && i < len(ownedVals); i++ {
			s += ownedVals[i]
		}
		target = s - fee + uint64(g.Intn(3)) - 1
	}
	if mode != 3 && mode != 4 && (have < fee+uint64(k)+2 || target > have+2000000 || target < uint64(k)) {
		mode = 3
	}
	paid := make([]uint64, k)
	switch mode {
	case 3:
		for i := range paid {
			lim := have/uint64(k) + 1
			if lim > 5000000 {
				lim = 5000000
			}
			paid[i] = 1 + g.U64()%lim
		}
	case 4:
		for i := range paid {
			paid[i] = 1
		}
	default:
		rest := target
		for i := 0; i < k-1; i++ {
			paid[i] = 1 + g.U64()%(rest/uint64(k-i))
			rest -= paid[i]
		}
		paid[k-1] = rest
	}
	useBatch := op.useBatch
	if useBatch < 0 {
		useBatch = g.Pick(0, 0, 0, 1, 2)
	}
	if useBatch == 2 && k < 2 {
		useBatch = 0
	}
	c.UseSend = useBatch != 1
	c.UseBatch = useBatch != 0
	c.SubFee = tri(g, op.subfee, 1, 4)
	c.SendSep = []string{",", ",", " , ", ", "}[g.Intn(4)]
	for i, p := range paid {
		sc := destScript(g, pubs)
		ad := addrOf(sc, c.W.Testnet)
		if (op.upper || g.Chance(1, 12)) && (strings.HasPrefix(ad, "bc1") || strings.HasPrefix(ad, "tb1")) {
			ad = strings.ToUpper(ad)
		}
		asked := p
		toSend := c.UseSend && (!c.UseBatch || i < (k+1)/2)
		if c.SubFee && c.UseSend && i == 0 {
			asked = p + fee
		}
		d := Dest{Addr: ad, AmtStr: fmtAmt(g, asked, -1), Script: hex.EncodeToString(sc), Amount: asked}
		if toSend {
			c.Send = append(c.Send, d)
		} else {
			c.Batch = append(c.Batch, d)
		}
	}
	// options
	switch ch := op.change; {
	case ch == 1 || (ch < 0 && g.Chance(1, 5)):
		sc := randScript(g, destKinds[g.Intn(len(destKinds))])
		c.Change, c.ChangeScript = addrOf(sc, c.W.Testnet), hex.EncodeToString(sc)
	case ch == 2 || (ch < 0 && g.Chance(1, 8)):
		sc := randOwn(g, pubs)
		c.Change, c.ChangeScript = addrOf(sc, c.W.Testnet), hex.EncodeToString(sc)
	}
	ml := op.msgLen
	if ml < 0 {
		ml = 0
		if g.Chance(1, 4) {
			ml = g.Pick(1, 5, 40, 75, 76, 77, 80, 255, 256, 300)
		}
	}
	if ml > 0 {
		b := make([]byte, ml)
		for i := range b {
			b[i] = byte('a' + g.Intn(26))
		}
		c.Msg = string(b)
	}
	c.Seq, c.Lock, c.Ver = op.seq, op.lock, op.ver
	if c.Seq == nil && g.Chance(1, 4) {
		s := []int64{-1, -2, 0, 1, 0xfffffffd, 0xfffffffe, int64(g.U64() % 0xffffffff)}[g.Intn(7)]
		c.Seq = &s
	}
	if c.Lock == nil && g.Chance(1, 5) {
		l := []uint64{0, 1, 499999999, 500000000, 0xffffffff, g.U64() % 900000}[g.Intn(6)]
		c.Lock = &l
	}
	if c.Ver == nil && g.Chance(1, 5) {
		vv := []uint64{1, 2, 3, 0, 0xffffffff}[g.Intn(5)]
		c.Ver = &vv
	}
	c.UseAll = tri(g, op.useAll, 1, 5)
	c.Rfc = tri(g, op.rfc, 1, 4)
	if c.Rfc && c.W.Minsig && op.rfc < 0 && !g.Chance(1, 4) {
		c.W.Minsig = false // keep most cases out of the refused combination minsig + rfc6979
	}
	c.Apply = tri(g, op.apply, 4, 5)
	c.Txfn = op.txfn
	if c.Txfn == "" && g.Chance(1, 6) {
		c.Txfn = "signed.txt"
	}
	return c
}

// mangle turns a valid send case into a malformed one (model decides the outcome; tie only).
func mangle(g *vlib.Rng, c *Case) {
	c.Valid = false
	c.Name += "/malformed"
	items := &c.Send
	if !c.UseSend || (c.UseBatch && len(c.Batch) > 0 && g.Bool()) {
		items = &c.Batch
	}
	if len(*items) == 0 {
		c.UseSend = true
		c.Send = []Dest{{Addr: "x", AmtStr: "1"}}
		return
	}
	i := g.Intn(len(*items))
	d := &(*items)[i]
	d.Script = ""
	switch g.Intn(12) {
	case 0: // flip one character of the address
		b := []byte(d.Addr)
		p := 4 + g.Intn(len(b)-4)
		if b[p] == 'q' {
			b[p] = 'p'
		} else {
			b[p] = 'q'
		}
		d.Addr = string(b)
	case 1: // other network
		sc := randScript(g, destKinds[g.Intn(5)])
		d.Addr = addrOf(sc, !c.W.Testnet)
	case 2:
		d.AmtStr = []string{"abc", "", "-1", "+1", "1e3", "0.123456789", " 1", "1 2", "0x1", ".5", "18446744073709551616"}[g.Intn(11)]
	case 3:
		d.AmtStr = []string{"1.2.3", "..", "1.."}[g.Intn(3)]
	case 4:
		d.AmtStr = d.AmtStr + "=1"
	case 5:
		d.Addr = d.Addr + " "
	case 6:
		d.Addr = "1" + d.Addr
	case 7: // trailing comma / empty line
		if items == &c.Send {
			*items = append(*items, Dest{})
			(*items)[len(*items)-1].Addr = ""
		} else {
			c.BatchRaw = append(c.BatchRaw, "")
		}
	case 8:
		if c.UseBatch {
			c.BatchRaw = append(c.BatchRaw, []string{"# comment without equals", "#c=1", "=5", "noequals"}[g.Intn(4)])
		} else {
			d.Addr = "#" + d.Addr
		}
	case 9:
		c.FeeFlag = []string{"abc", "1.2.3", "", "-1"}[g.Intn(4)]
	case 10:
		c.Change, c.ChangeScript = "notanaddress", ""
	default:
		d.Addr = ""
	}
}

// ---------------------------------------------------------------- raw and multisig cases
// edge-biased 32-bit values for sequence / lock time / version of externally built transactions
func edge32(g *vlib.Rng) uint32 {
	switch g.Intn(8) {
	case 0:
		return 0
	case 1:
		return 1
	case 2:
		return 0xffffffff
	case 3:
		return 0xfffffffe
	case 4:
		return 0xfffffffd
	case 5:
		return uint32(g.Pick(499999999, 500000000, 0x80000000, 0x7fffffff))
	default:
		return uint32(g.U64())
	}
}

func genRaw(g *vlib.Rng, name string, w *WCfg) *Case { return genRawP(g, name, w, nil) }

// genRawP: plans == nil = random balance folder
func genRawP(g *vlib.Rng, name string, w *WCfg, plans []coinPlan) *Case {
	c := &Case{Name: name, Kind: "raw", Valid: true, Apply: true}
	if w != nil {
		c.W = *w
	} else {
		c.W = genWallet(g)
	}
	pubs, err := walletPubkeys(&c.W)
	if err != nil {
		fmt.Println("INFRA:", err)
		os.Exit(3)
	}
	if plans == nil {
		plans = genPlans(g, pubs, 2+g.Intn(6))
	}
	genBalance(g, c, pubs, plans)
	tx := new(btc.Tx)
	tx.Version = uint32(g.Pick(1, 2, 2, 3))
	if g.Chance(1, 4) {
		tx.Version = edge32(g)
	}
	tx.Lock_time = edge32(g)
	perm := g.Intn(len(c.Unspent))
	nin := 1 + g.Intn(len(c.Unspent))
	if nin > 4 {
		nin = 4
	}
	anyWit := false
	var wits [][][]byte
	for i := 0; i < nin; i++ {
		u := c.Unspent[(perm+i)%len(c.Unspent)]
		tin := &btc.TxIn{Sequence: edge32(g)}
		copy(tin.Input.Hash[:], txidBytes(u.Txid))
		tin.Input.Vout = u.Vout
		sc, _ := hex.DecodeString(u.Script)
		// a left-over scriptSig: only where the wallet replaces it (P2PKH / P2SH) or does not sign at all; on a native
		// witness input a non-empty scriptSig is the supplier's error (the wallet does not clear it)
		if k := scriptKind(sc); g.Chance(1, 5) && (k == "p2pkh" || k == "p2sh" || !ownedBy(pubs, c.W.bech32Mode(), sc)) {
			tin.ScriptSig = append([]byte{byte(3)}, g.Bytes(3)...)
		}
		tx.TxIn = append(tx.TxIn, tin)
		// witness data already present: on a foreign input (left alone), or on an owned input of a witness type, where the
		// wallet REPLACES the stack (a partly signed segwit transaction fed back: outside hwit of signatures_verify, so
		// judged by VerifyTxScript and the byte tie only). Not on an owned P2PKH input: the wallet leaves tx.SegWit[i]
		// alone there and the left-over witness (WITNESS_UNEXPECTED) is the supplier's error, like a left-over scriptSig
		// on a native witness input.
		if k := scriptKind(sc); g.Chance(1, 8) && (!ownedBy(pubs, c.W.bech32Mode(), sc) || k == "p2wpkh" || k == "p2tr" || k == "p2sh") {
			if ownedBy(pubs, c.W.bech32Mode(), sc) {
				wits = append(wits, [][]byte{g.Bytes(71), g.Bytes(33)})
			} else {
				wits = append(wits, [][]byte{g.Bytes(10)})
			}
			anyWit = true
		} else {
			wits = append(wits, nil)
		}
	}
	if g.Chance(1, 15) { // an input that is not in the balance folder
		tin := &btc.TxIn{Sequence: 1}
		copy(tin.Input.Hash[:], g.Bytes(32))
		tx.TxIn = append(tx.TxIn, tin)
		wits = append(wits, nil)
	}
	for i := 0; i < 1+g.Intn(3); i++ {
		tx.TxOut = append(tx.TxOut, &btc.TxOut{Value: pickValue(g), Pk_script: randScript(g, destKinds[g.Intn(len(destKinds))])})
	}
	var raw []byte
	if anyWit {
		tx.SegWit = wits
		raw = tx.SerializeNew()
	} else {
		raw = tx.Serialize()
	}
	c.RawTx = hex.EncodeToString(raw)
	c.Rfc = g.Chance(1, 4)
	if c.Rfc && !g.Chance(1, 4) {
		c.W.Minsig = false
	}
	return c
}

func genMs(g *vlib.Rng, name string, w *WCfg) *Case {
	c := &Case{Name: name, Kind: "ms", Valid: true, Apply: true}
	if w != nil {
		c.W = *w
	} else {
		c.W = genWallet(g)
	}
	c.W.Minsig = false
	pubs, err := walletPubkeys(&c.W)
	if err != nil {
		fmt.Println("INFRA:", err)
		os.Exit(3)
	}
	n := 2 + g.Intn(2)
	m := 1 + g.Intn(2)
	var keys [][]byte
	foreign := -1
	if n == 3 && g.Bool() {
		foreign = g.Intn(3)
	}
	for i := 0; i < n; i++ {
		if i == foreign {
			keys = append(keys, btc.PublicFromPrivate(append([]byte{1}, g.Bytes(31)...), true))
		} else {
			keys = append(keys, pubs[(i+g.Intn(2)*0)%len(pubs)])
		}
	}
	redeem := []byte{byte(0x50 + m)}
	for _, k := range keys {
		redeem = append(append(redeem, byte(len(k))), k...)
	}
	redeem = append(redeem, byte(0x50+n), 0xae)
	c.Redeem = hex.EncodeToString(redeem)
	plans := []coinPlan{{scrP2SH(h160(redeem)), pickValue(g)}}
	if g.Bool() {
		kind, pub := ownKinds[g.Pick(0, 2, 3)], pubs[g.Intn(len(pubs))]
		if len(pub) != 33 {
			kind = "p2pkh"
		}
		plans = append(plans, coinPlan{ownScript(kind, pub), pickValue(g)})
	}
	genBalance(g, c, pubs, plans)
	tx := new(btc.Tx)
	tx.Version = 2
	tx.Lock_time = edge32(g)
	for _, u := range c.Unspent {
		tin := &btc.TxIn{Sequence: edge32(g)}
		copy(tin.Input.Hash[:], txidBytes(u.Txid))
		tin.Input.Vout = u.Vout
		tx.TxIn = append(tx.TxIn, tin)
	}
	for i := 0; i < 1+g.Intn(2); i++ {
		tx.TxOut = append(tx.TxOut, &btc.TxOut{Value: pickValue(g), Pk_script: randScript(g, destKinds[g.Intn(len(destKinds))])})
	}
	c.RawTx = hex.EncodeToString(tx.Serialize())
	return c
}

// genCase: the generated stream (i = case number)
func genCase(g *vlib.Rng, i int) *Case {
	name := fmt.Sprintf("gen%d", i)
	switch x := g.Intn(20); {
	case x < 12:
		return genSend(g, name, defOpts())
	case x < 15:
		c := genSend(g, name, defOpts())
		mangle(g, c)
		return c
	case x < 19:
		return genRaw(g, name, nil)
	default:
		return genMs(g, name, nil)
	}
}

// ---------------------------------------------------------------- corpus (fixed; independent of VERIF_SEED)
func corpus() []*Case {
	g := vlib.NewRng(20260925)
	var cs []*Case
	i64 := func(v int64) *int64 { return &v }
	u64 := func(v uint64) *uint64 { return &v }
	// every wallet type × atype × network, one coin of every own type + a foreign one
	for _, typ := range []int{3, 4} {
		for _, at := range atypes {
			for _, tn := range []bool{false, true} {
				w := WCfg{Type: typ, Testnet: tn, Atype: at, Keycnt: 4, Pass: "corpus pass", Seed: "cs"}
				pubs, err := walletPubkeys(&w)
				if err != nil {
					fmt.Println("INFRA:", err)
					os.Exit(3)
				}
				plans := []coinPlan{{randScript(g, "p2pkh"), 5000}}
				for k, kind := range ownKinds {
					plans = append(plans, coinPlan{ownScript(kind, pubs[k%len(pubs)]), uint64(200000 + 1000*k)})
				}
				op := defOpts()
				op.w, op.plans, op.useAll, op.mode, op.ndest = &w, plans, 1, 3, 2
				cs = append(cs, genSend(g, fmt.Sprintf("corpus/grid-type%d-%s-tn%v", typ, at, tn), op))
			}
		}
	}
	// imported raw keys (.others) in front of the deterministic ones: compressed and uncompressed forms in every
	// position pattern of up to two imported keys, every atype; one coin of every type each key has, all spent at once
	// (an uncompressed key has a P2PKH address only and no entry in the wallet's SegWit table)
	for _, at := range atypes {
		for mask := 0; mask < 6; mask++ { // 0,1: one key (compressed / uncompressed); 2..5: two keys, mask-2 = uncompressed bits
			n, um := 1, mask
			if mask >= 2 {
				n, um = 2, mask-2
			}
			wo := WCfg{Type: 3 + mask%2, Testnet: mask == 3, Atype: at, Keycnt: 3, Pass: "corpus pass", Seed: "co"}
			wo.Others = genOthers(g, wo.Testnet, n, um)
			po, err := walletPubkeys(&wo)
			if err != nil {
				fmt.Println("INFRA:", err)
				os.Exit(3)
			}
			var plans []coinPlan
			for k, pub := range po {
				for j, kind := range ownKinds {
					if kind == "p2pkh" || len(pub) == 33 {
						plans = append(plans, coinPlan{ownScript(kind, pub), uint64(150000 + 1000*k + 10*j)})
					}
				}
			}
			op := defOpts()
			op.w, op.plans, op.useAll, op.mode, op.ndest = &wo, plans, 1, 3, 2
			op.rfc = mask % 2
			cs = append(cs, genSend(g, fmt.Sprintf("corpus/others-%s-n%d-u%d", at, n, um), op))
			if um == 1 { // minsig with an uncompressed key first: the legacy re-signing loop never ended before fix a0bc40ce
				wm := wo
				wm.Minsig = true
				op.w, op.rfc = &wm, 0
				cs = append(cs, genSend(g, fmt.Sprintf("corpus/others-minsig-%s-n%d", at, n), op))
			}
		}
		wr := WCfg{Type: 3, Atype: at, Keycnt: 3, Pass: "corpus pass"}
		wr.Others = genOthers(g, false, 2, 1)
		cs = append(cs, genRaw(g, "corpus/raw-others-"+at, &wr))
	}
	// cross-template aliases (second audit, F1): for every atype and every alias form of key 1, the alias as the FIRST
	// listed line (where the default change address is taken from) followed by one own coin of every type; spend
	// everything (-useallinputs), default change; plus one run paying TO an alias (it must not be booked as own) and
	// a raw transaction spending alias and own outputs side by side. Witness of the audit's case: p2sh-of-keyhash, p2kh.
	for _, at := range atypes {
		wa := WCfg{Type: 3, Atype: at, Keycnt: 4, Pass: "corpus pass"}
		pa, err := walletPubkeys(&wa)
		if err != nil {
			fmt.Println("INFRA:", err)
			os.Exit(3)
		}
		for _, ak := range aliasKinds {
			plans := []coinPlan{{aliasScript(ak, pa[1]), 300000}}
			for k, kind := range ownKinds {
				plans = append(plans, coinPlan{ownScript(kind, pa[k]), uint64(400000 + 100000*k)})
			}
			op := defOpts()
			op.w, op.plans, op.useAll, op.mode, op.ndest, op.change, op.useBatch, op.subfee, op.apply, op.msgLen, op.fee = &wa, plans, 1, 3, 1, 0, 0, 0, 1, 0, 1000
			cs = append(cs, genSend(g, fmt.Sprintf("corpus/alias-%s-%s-first", ak, at), op))
			op.useAll = 0 // the audit's shape: the first listed coin alone would cover the payment
			op.plans = []coinPlan{{aliasScript(ak, pa[0]), 300000}, {ownScript("p2wpkh", pa[1]), 400000}, {ownScript("p2tr", pa[2]), 500000},
				{ownScript("p2pkh", pa[3]), 600000}}
			c := genSend(g, fmt.Sprintf("corpus/alias-%s-%s-coin", ak, at), op)
			c.Send = []Dest{{Addr: addrOf(scrP2TR(make32(0xee)), false), AmtStr: "0.001", Script: hex.EncodeToString(scrP2TR(make32(0xee))), Amount: 100000}}
			c.UseSend, c.UseBatch, c.Batch = true, false, nil
			cs = append(cs, c)
			// -raw: the alias next to own outputs; the wallet must leave the alias input unsigned
			cs = append(cs, genRawP(g, fmt.Sprintf("corpus/alias-%s-%s-raw", ak, at), &wa,
				[]coinPlan{{aliasScript(ak, pa[1]), 300000}, {ownScript("p2pkh", pa[0]), 400000}, {ownScript("p2tr", pa[2]), 500000}, {aliasScript(ak, pa[3]), 600000}}))
			if sc := aliasScript(ak, pa[2]); addrOf(sc, false) != "" { // pay TO the alias
				op.plans = []coinPlan{{ownScript("p2pkh", pa[0]), 900000}}
				c2 := genSend(g, fmt.Sprintf("corpus/alias-%s-%s-dest", ak, at), op)
				c2.Send = []Dest{{Addr: addrOf(sc, false), AmtStr: "0.001", Script: hex.EncodeToString(sc), Amount: 100000}}
				c2.UseSend, c2.UseBatch, c2.Batch = true, false, nil
				cs = append(cs, c2)
			}
		}
	}
	w := WCfg{Type: 3, Atype: "p2kh", Keycnt: 4, Pass: "corpus pass"}
	pubs, _ := walletPubkeys(&w)
	own := func(kind string, k int, v uint64) coinPlan { return coinPlan{ownScript(kind, pubs[k]), v} }
	base := func() sendOpts {
		op := defOpts()
		op.w = &w
		op.plans = []coinPlan{own("p2pkh", 0, 300000), own("p2wpkh", 1, 400000), own("p2tr", 2, 500000), own("p2sh", 3, 600000)}
		op.subfee, op.msgLen, op.change, op.useBatch, op.useAll, op.rfc, op.apply = 0, 0, 0, 0, 0, 0, 1
		return op
	}
	add := func(name string, f func(*sendOpts)) {
		op := base()
		f(&op)
		cs = append(cs, genSend(g, "corpus/"+name, op))
	}
	for mode := 0; mode <= 6; mode++ {
		m := mode
		add(fmt.Sprintf("mode%d", m), func(o *sendOpts) { o.mode = m; o.ndest = 1 + m%3 })
		add(fmt.Sprintf("mode%d-useall", m), func(o *sendOpts) { o.mode = m; o.useAll = 1 })
		add(fmt.Sprintf("mode%d-subfee", m), func(o *sendOpts) { o.mode = m; o.subfee = 1 })
		add(fmt.Sprintf("mode%d-batch", m), func(o *sendOpts) { o.mode = m; o.useBatch = 1; o.ndest = 3 })
	}
	for _, ml := range []int{1, 75, 76, 77, 255, 256, 600} {
		l := ml
		add(fmt.Sprintf("msg%d", l), func(o *sendOpts) { o.msgLen = l; o.mode = 3 })
	}
	for _, s := range []int64{-1, -2, -3, 0, 1, 4294967295, 4294967296} {
		sv := s
		add(fmt.Sprintf("seq%d", sv), func(o *sendOpts) { o.seq = i64(sv); o.mode = 3 })
	}
	add("locktime", func(o *sendOpts) { o.lock = u64(500000000); o.mode = 3 })
	add("locktime-wrap", func(o *sendOpts) { o.lock = u64(4294967296 + 7); o.mode = 3 })
	add("txver1", func(o *sendOpts) { o.ver = u64(1); o.mode = 3 })
	add("txver3", func(o *sendOpts) { o.ver = u64(3); o.mode = 3 })
	add("rfc6979", func(o *sendOpts) { o.rfc = 1; o.useAll = 1; o.mode = 3 })
	add("change-foreign", func(o *sendOpts) { o.change = 1; o.mode = 3 })
	add("change-own", func(o *sendOpts) { o.change = 2; o.mode = 3 })
	add("noapply", func(o *sendOpts) { o.apply = 0; o.mode = 3 })
	add("txfn", func(o *sendOpts) { o.txfn = "my.tx"; o.mode = 3 })
	add("fee0", func(o *sendOpts) { o.fee = 0; o.mode = 0 })
	add("fee0-subfee", func(o *sendOpts) { o.fee = 0; o.subfee = 1; o.mode = 2 })
	add("upper-bech32", func(o *sendOpts) { o.upper = true; o.ndest = 4; o.mode = 3 })
	add("both-send-batch", func(o *sendOpts) { o.useBatch = 2; o.ndest = 4; o.mode = 2 })
	wm := w
	wm.Minsig = true
	add("minsig", func(o *sendOpts) { o.w = &wm; o.useAll = 1; o.mode = 3 })
	add("minsig-rfc6979", func(o *sendOpts) { o.w = &wm; o.useAll = 1; o.mode = 3; o.rfc = 1 }) // hung before fix 513217bb
	// -f with the first amount equal to the fee (pays 0) and below the fee
	{
		op := base()
		op.subfee, op.mode, op.ndest, op.fee = 1, 4, 1, 100000
		c := genSend(g, "corpus/subfee-amount-equals-fee", op)
		cs = append(cs, c)
		c2 := genSend(g, "corpus/subfee-amount-below-fee", op)
		c2.Send[0].Amount = 1
		c2.Send[0].AmtStr = "0.00000001"
		cs = append(cs, c2)
	}
	// a wallet whose third key had its compressed public key listed with the wrong parity before fix 63bfb7fc
	{
		wp := WCfg{Type: 3, Atype: "segwit", Keycnt: 4, Seed: "s1", Pass: "pwdfcd"}
		pp, err := walletPubkeys(&wp)
		if err != nil {
			fmt.Println("INFRA:", err)
			os.Exit(3)
		}
		op := defOpts()
		op.w = &wp
		for k := range pp {
			op.plans = append(op.plans, coinPlan{ownScript("p2wpkh", pp[k]), 100000 + uint64(k)}, coinPlan{ownScript("p2pkh", pp[k]), 200000 + uint64(k)},
				coinPlan{ownScript("p2tr", pp[k]), 300000 + uint64(k)}, coinPlan{ownScript("p2sh", pp[k]), 400000 + uint64(k)})
		}
		op.subfee, op.msgLen, op.change, op.useBatch, op.useAll, op.rfc, op.apply, op.mode, op.ndest = 0, 0, 0, 0, 1, 0, 1, 3, 1
		cs = append(cs, genSend(g, "corpus/pubkey-parity", op))
	}
	// damaged balance folder (tx_from_balance: txid check of balance files - an anchored mechanism): exit 1, nothing written
	for k, how := range []string{"flip", "truncate", "trailing", "missing"} {
		op := base()
		op.mode = 3
		c := genSend(g, "corpus/balance-"+how, op)
		c.Corrupt, c.CorruptIdx = how, k%len(c.Funding)
		cs = append(cs, c)
	}
	// a '#' comment line WITH '=' in the batch file is skipped: the request stays well formed, the full predicate applies
	{
		op := base()
		op.mode, op.useBatch, op.ndest = 3, 1, 2
		c := genSend(g, "corpus/batch-comment-line", op)
		c.BatchRaw = []string{"#c=1", " # note = 5"}
		cs = append(cs, c)
	}
	// CompactSize boundaries of the serialisation: 253+ inputs (-useallinputs), 253+ outputs (-batch), vout 1000
	{
		op := base()
		op.plans = nil
		for k := 0; k < 260; k++ {
			op.plans = append(op.plans, coinPlan{ownScript(ownKinds[k%4], pubs[k%4]), uint64(3000 + k)})
		}
		op.useAll, op.mode, op.ndest, op.fee = 1, 3, 1, 1000
		cs = append(cs, genSend(g, "corpus/many-inputs-260", op))
		op = base()
		op.mode, op.useBatch, op.ndest, op.fee = 4, 1, 260, 1000
		cs = append(cs, genSend(g, "corpus/many-outputs-260", op))
		op = base()
		op.mode = 3
		c := genSend(g, "corpus/vout-1000", op)
		tx := new(btc.Tx)
		tx.Version = 2
		tin := &btc.TxIn{Sequence: 0xffffffff}
		copy(tin.Input.Hash[:], make32(0x77))
		tx.TxIn = []*btc.TxIn{tin}
		for k := 0; k <= 1000; k++ {
			tx.TxOut = append(tx.TxOut, &btc.TxOut{Value: 700000, Pk_script: ownScript("p2wpkh", pubs[k%4])})
		}
		raw := tx.Serialize()
		t2, _ := btc.NewTx(raw)
		t2.SetHash(raw)
		c.Funding = append([]string{hex.EncodeToString(raw)}, c.Funding...)
		c.Unspent = append([]Unspent{{Txid: t2.Hash.String(), Vout: 1000, Value: 700000, Script: hex.EncodeToString(tx.TxOut[1000].Pk_script)}}, c.Unspent...)
		cs = append(cs, c)
	}
	// malformed
	for k := 0; k < 24; k++ {
		op := base()
		op.mode, op.useBatch = 3, k%3
		c := genSend(g, fmt.Sprintf("corpus/mal%d", k), op)
		mangle(g, c)
		cs = append(cs, c)
	}
	// raw and multisig for every atype
	for _, at := range atypes {
		w2 := WCfg{Type: 3, Atype: at, Keycnt: 4, Pass: "corpus pass"}
		cs = append(cs, genRaw(g, "corpus/raw-"+at, &w2), genRaw(g, "corpus/raw2-"+at, &w2), genMs(g, "corpus/ms-"+at, &w2))
	}
	return cs
}
