// c13 — correspondence harness + property search for C13 (wallet-built transactions).
// Real code: the wallet BINARY built from <repo>/wallet (run in a temp dir), btc.NewTx / script.VerifyTxScript
// in process for decoding and verifying what it wrote. Model: lean oracle_c13 (Model.WalletTx).
// For every case the property's own predicate is evaluated directly on the wallet's output (outputs, amounts,
// change, fee arithmetic, inputs ⊆ unspent, no duplicates, EVERY input verified by script.VerifyTxScript under
// consensus and standard flags); then the whole file is compared byte for byte with the model's prediction
// (signatures taken from the real output).
package main

import (
	"bytes"
	"encoding/hex"
	"encoding/json"
	"fmt"
	"math/big"
	"os"
	"path/filepath"
	"runtime"
	"strings"
	"sync"

	"github.com/piotrnar/gocoin/lib/btc"
	"github.com/piotrnar/gocoin/lib/script"
	"verif/vlib"
)

var r *vlib.Run

const (
	consensusFlags = script.VER_P2SH | script.VER_DERSIG | script.VER_NULLDUMMY | script.VER_CLTV | script.VER_CSV |
		script.VER_WITNESS | script.VER_TAPROOT
	standardFlags = script.STANDARD_VERIFY_FLAGS | script.VER_SIGPUSHONLY | script.VER_DIS_TAPVER
)

type Unspent struct {
	Txid   string `json:"txid"` // as printed (reversed hex)
	Vout   uint32 `json:"vout"`
	Value  uint64 `json:"value"`
	Script string `json:"script"`
	Label  string `json:"label"`
}

type Dest struct {
	Addr   string `json:"addr"`
	AmtStr string `json:"amt"`
	Script string `json:"script"` // expected output script (generator's knowledge), "" when the item is malformed
	Amount uint64 `json:"amount"` // expected satoshis
}

type Case struct {
	Name    string    `json:"name"`
	Kind    string    `json:"kind"` // send | raw | ms
	W       WCfg      `json:"wallet"`
	Funding []string  `json:"funding"` // raw funding transactions (hex), stored as balance/<txid>.tx
	Unspent []Unspent `json:"unspent"` // lines of balance/unspent.txt, in order

	UseSend  bool   `json:"use_send"`
	Send     []Dest `json:"send"`
	SendSep  string `json:"send_sep"` // "," or " , " …
	UseBatch bool   `json:"use_batch"`
	Batch    []Dest `json:"batch"`
	BatchRaw []string `json:"batch_raw"` // extra raw lines appended to the batch file (malformed stream)

	FeeFlag string `json:"fee_flag"` // -fee value ("" = not given)
	FeeSat  uint64 `json:"fee_sat"`  // what the generator means by the effective fee string
	SubFee  bool   `json:"subfee"`
	Change  string `json:"change"`
	ChangeScript string `json:"change_script"`
	Msg     string `json:"msg"`
	Seq     *int64  `json:"seq"`
	Lock    *uint64 `json:"lock"`
	Ver     *uint64 `json:"ver"`
	UseAll  bool   `json:"useall"`
	Rfc     bool   `json:"rfc6979"`
	Txfn    string `json:"txfn"`
	Apply   bool   `json:"apply"`
	Valid   bool   `json:"valid"` // generator's claim: the request is well formed for this wallet's network

	RawTx  string `json:"rawtx"`  // -raw: the externally built transaction (hex)
	Redeem string `json:"redeem"` // ms: redeem script for -p2sh

	// Corrupt: damage done to balance/<txid>.tx of funding transaction CorruptIdx after the folder was written
	// ("flip" = last byte changed: parses, other txid; "truncate"; "trailing" = one byte appended; "missing" = file removed).
	// tx_from_balance must refuse the folder: exit 1, nothing written.
	Corrupt    string `json:"corrupt,omitempty"`
	CorruptIdx int    `json:"corrupt_idx,omitempty"`
}

func (c *Case) feeStr() string {
	if c.FeeFlag != "" {
		return c.FeeFlag
	}
	if c.W.CfgFee != "" {
		return c.W.CfgFee
	}
	return "0.001"
}

func (c *Case) sendStr() string {
	var it []string
	for _, d := range c.Send {
		it = append(it, d.Addr+"="+d.AmtStr)
	}
	sep := c.SendSep
	if sep == "" {
		sep = ","
	}
	return strings.Join(it, sep)
}

func (c *Case) batchLines() []string {
	var ls []string
	for _, d := range c.Batch {
		ls = append(ls, d.Addr+"="+d.AmtStr)
	}
	return append(ls, c.BatchRaw...)
}

func (c *Case) seqU32() uint32 {
	if c.Seq == nil {
		return 0xfffffffd // uint32(-3)
	}
	return uint32(*c.Seq)
}
func (c *Case) lockU32() uint32 {
	if c.Lock == nil {
		return 0
	}
	return uint32(*c.Lock)
}
func (c *Case) verU32() uint32 {
	if c.Ver == nil {
		return 2
	}
	return uint32(*c.Ver)
}

func (c *Case) args() []string {
	var a []string
	if c.UseSend {
		a = append(a, "-send", c.sendStr())
	}
	if c.UseBatch {
		a = append(a, "-batch", "batch.txt")
	}
	if c.FeeFlag != "" {
		a = append(a, "-fee", c.FeeFlag)
	}
	if c.SubFee {
		a = append(a, "-f")
	}
	if c.Change != "" {
		a = append(a, "-change", c.Change)
	}
	if c.Msg != "" {
		a = append(a, "-msg", c.Msg)
	}
	if c.Seq != nil {
		a = append(a, fmt.Sprintf("-seq=%d", *c.Seq))
	}
	if c.Lock != nil {
		a = append(a, fmt.Sprintf("-locktime=%d", *c.Lock))
	}
	if c.Ver != nil {
		a = append(a, fmt.Sprintf("-txver=%d", *c.Ver))
	}
	if c.UseAll {
		a = append(a, "-useallinputs")
	}
	if c.Rfc {
		a = append(a, "-rfc6979")
	}
	if c.Txfn != "" {
		a = append(a, "-txfn", c.Txfn)
	}
	return a
}

// setup writes the working directory of a case.
func (c *Case) setup(dir string) error {
	c.W.writeKeyFiles(dir, c.Apply)
	os.MkdirAll(filepath.Join(dir, "balance"), 0700)
	for _, f := range c.Funding {
		raw, err := hex.DecodeString(f)
		if err != nil {
			return err
		}
		tx, _ := btc.NewTx(raw)
		if tx == nil {
			return fmt.Errorf("funding tx does not decode")
		}
		tx.SetHash(raw)
		os.WriteFile(filepath.Join(dir, "balance", tx.Hash.String()+".tx"), raw, 0600)
	}
	var b strings.Builder
	for _, u := range c.Unspent {
		fmt.Fprintf(&b, "%s-%03d", u.Txid, u.Vout)
		if u.Label != "" {
			b.WriteString(" " + u.Label)
		}
		b.WriteString("\n")
	}
	os.WriteFile(filepath.Join(dir, "balance", "unspent.txt"), []byte(b.String()), 0600)
	if c.Corrupt != "" && c.CorruptIdx < len(c.Funding) {
		raw, _ := hex.DecodeString(c.Funding[c.CorruptIdx])
		tx, _ := btc.NewTx(raw)
		tx.SetHash(raw)
		fn := filepath.Join(dir, "balance", tx.Hash.String()+".tx")
		switch c.Corrupt {
		case "flip":
			raw[len(raw)-1] ^= 1
			os.WriteFile(fn, raw, 0600)
		case "truncate":
			os.WriteFile(fn, raw[:len(raw)-5], 0600)
		case "trailing":
			os.WriteFile(fn, append(raw, 0), 0600)
		case "missing":
			os.Remove(fn)
		}
	}
	if c.UseBatch {
		os.WriteFile(filepath.Join(dir, "batch.txt"), []byte(strings.Join(c.batchLines(), "\n")+"\n"), 0600)
	}
	if c.RawTx != "" {
		os.WriteFile(filepath.Join(dir, "raw.txt"), []byte(c.RawTx), 0600)
	}
	return nil
}

// ---------------------------------------------------------------- helpers
func txidBytes(display string) []byte { // internal byte order
	b, _ := hex.DecodeString(display)
	for i, j := 0, len(b)-1; i < j; i, j = i+1, j-1 {
		b[i], b[j] = b[j], b[i]
	}
	return b
}

func hx(b []byte) string { return vlib.Hex(b) }

func listTok(items []string) string {
	if len(items) == 0 {
		return "_"
	}
	return strings.Join(items, ",")
}

func optTok(use bool, s string) string {
	if !use {
		return "none"
	}
	return hx([]byte(s))
}

func b2s(b bool) string {
	if b {
		return "1"
	}
	return "0"
}

// sigsOf extracts, for every input, the signature bytes the model takes as a parameter: first witness item if
// the input has a witness, else the first push of the scriptSig; an ECDSA signature loses its hash-type byte
// (the model appends 0x01 itself), a 64-byte Schnorr signature is taken as is.
func sigsOf(tx *btc.Tx) []string {
	var out []string
	for i := range tx.TxIn {
		var blob []byte
		if tx.SegWit != nil && i < len(tx.SegWit) && len(tx.SegWit[i]) > 0 {
			blob = tx.SegWit[i][0]
			if len(blob) != 64 && len(blob) > 0 {
				blob = blob[:len(blob)-1]
			}
		} else if ss := tx.TxIn[i].ScriptSig; len(ss) > 1 && int(ss[0]) <= 75 && int(ss[0]) >= 1 && 1+int(ss[0]) <= len(ss) {
			blob = ss[1 : 1+int(ss[0])]
			blob = blob[:len(blob)-1]
		}
		out = append(out, hx(blob))
	}
	return out
}

func decodeTxHexFile(content []byte) (*btc.Tx, []byte) {
	raw, err := hex.DecodeString(strings.TrimSpace(string(content)))
	if err != nil {
		return nil, nil
	}
	tx, n := btc.NewTx(raw)
	if tx == nil || n != len(raw) {
		return nil, raw
	}
	tx.SetHash(raw)
	return tx, raw
}

// verifyInputs runs the real script interpreter on input i (or all inputs) against the spent outputs.
func verifyInput(tx *btc.Tx, spent []*btc.TxOut, i int, flags uint32) (ok bool) {
	defer func() {
		if e := recover(); e != nil {
			ok = false
		}
	}()
	if tx.TxVerVars == nil {
		tx.AllocVerVars()
	}
	tx.Spent_outputs = spent
	return script.VerifyTxScript(spent[i].Pk_script, &script.SigChecker{Tx: tx, Idx: i, Amount: spent[i].Value}, flags)
}

// tieDigests: "digest signed = digest verified" on the real code. The three digests that the Lean side computes from the
// SKELETON of the transaction alone (c02Crypto of Spec/WalletTxDigest.lean = C02's model functions on a transaction with
// empty scriptSigs, no witness and an empty hash cache — the instance `signatures_verify` is stated for) must be the
// digests the real Tx.SignatureHash / Tx.WitnessSigHash / Tx.TaprootSigHash hand out for input i of the SIGNED
// transaction (all scriptSigs and witnesses in place, hash cache filled by the verification that ran before).
func tieDigests(tx *btc.Tx, spent []*btc.TxOut, i int, o *vlib.Oracle, v *verdict) {
	var real [3]string
	call := func(k int, f func() []byte) {
		defer func() {
			if e := recover(); e != nil {
				real[k] = "panic"
			}
		}()
		if d := f(); len(d) == 0 {
			real[k] = "-"
		} else {
			real[k] = hx(d)
		}
	}
	if tx.TxVerVars == nil {
		tx.AllocVerVars()
	}
	tx.Spent_outputs = spent
	sc := spent[i].Pk_script
	call(0, func() []byte { return tx.SignatureHash(sc, i, 1) })
	call(1, func() []byte { return tx.WitnessSigHash(sc, spent[i].Value, i, 1) })
	call(2, func() []byte { return tx.TaprootSigHash(&btc.ScriptExecutionData{}, i, 0, false) })
	var ins, outs, sp []string
	for _, in := range tx.TxIn {
		// the scriptSig is NOT sent: the model side sees the skeleton only
		ins = append(ins, fmt.Sprintf("%s:%d:-:%d", hx(in.Input.Hash[:]), in.Input.Vout, in.Sequence))
	}
	for _, out := range tx.TxOut {
		outs = append(outs, fmt.Sprintf("%d:%s", out.Value, hx(out.Pk_script)))
	}
	for _, s := range spent {
		sp = append(sp, fmt.Sprintf("%d:%s", s.Value, hx(s.Pk_script)))
	}
	lst := func(l []string) string {
		if len(l) == 0 {
			return "_"
		}
		return strings.Join(l, ",")
	}
	line := fmt.Sprintf("dig %d %d %s %s %s %d %s %d", tx.Version, tx.Lock_time, lst(ins), lst(outs), lst(sp), i, hx(sc), spent[i].Value)
	model := o.MustAsk(line)
	want := "ok " + real[0] + " " + real[1] + " " + real[2]
	if model != want {
		v.tf("digest-from-skeleton", "input %d: digests of the SIGNED transaction on the real code %q, computed from the skeleton by the model %q (legacy, BIP143, BIP341 key path)", i, want, model)
	} else {
		v.hit("digest-tie:" + scriptKind(sc))
		r.TieOK()
	}
}

// tieSigner: the signer of `signatures_verify` is C03's Signature.Sign + the DER assembly of Tx.Sign / Tx.SignWitness
// (Model/WalletDer.lean, proved equal to Signature.Bytes()). With -rfc6979 the wallet's ECDSA signatures are deterministic,
// so the model can reproduce them: for an ECDSA input of the written transaction the DER bytes found in the wallet's
// output must equal `txSignRfc priv digest`, where digest is the real SignatureHash / WitnessSigHash of the script code
// the wallet signs (itself tied to the model by tieDigests) and priv the wallet's own exported secret of the key whose
// public key stands next to the signature.
func tieSigner(c *Case, tx *btc.Tx, spent []*btc.TxOut, i int, pubs [][]byte, o *vlib.Oracle, v *verdict) {
	kind := scriptKind(spent[i].Pk_script)
	var blob, pub, digest []byte
	func() {
		defer func() { recover() }()
		switch kind {
		case "p2pkh":
			ss := tx.TxIn[i].ScriptSig
			n := int(ss[0])
			blob, pub = ss[1:1+n], ss[2+n:]
			digest = tx.SignatureHash(spent[i].Pk_script, i, 1)
		case "p2wpkh", "p2sh":
			blob, pub = tx.SegWit[i][0], tx.SegWit[i][1]
			digest = tx.WitnessSigHash(scrP2PKH(h160(pub)), spent[i].Value, i, 1)
		}
	}()
	if len(blob) < 9 || (len(pub) != 33 && len(pub) != 65) || len(digest) != 32 {
		return
	}
	privs, err := walletPrivkeys(&c.W)
	if err != nil {
		v.tf("infra-privkeys", "%v", err)
		return
	}
	k := -1
	for j := range pubs {
		if bytes.Equal(pubs[j], pub) {
			k = j
		}
	}
	if k < 0 || k >= len(privs) {
		return
	}
	want := o.MustAsk(fmt.Sprintf("signrfc %s %s", hx(privs[k]), hx(digest)))
	got := "ok " + hx(blob[:len(blob)-1])
	if want != got {
		v.tf("signer-der", "input %d (%s): -rfc6979 signature in the wallet's output %s, model of EcdsaSign(RFC6979) + Tx.Sign's DER assembly %s", i, kind, got, want)
	} else {
		v.hit("signer-tie:" + kind)
		r.TieOK()
	}
}

func stdMsgScript(msg string) []byte {
	b := []byte{0x6a}
	n := len(msg)
	switch {
	case n <= 75:
		b = append(b, byte(n))
	case n < 256:
		b = append(b, 0x4c, byte(n))
	default:
		b = append(b, 0x4d, byte(n), byte(n>>8))
	}
	return append(b, msg...)
}

func msgLenClass(n int) string {
	switch {
	case n < 75:
		return "<75"
	case n <= 77:
		return fmt.Sprint(n)
	case n < 256:
		return "78..255"
	}
	return ">=256"
}

type verdict struct {
	prop []string // property failures (key|what)
	tie  []string // model/impl disagreements
	hits []string
	kind string
	key  string // distinct key
}

func (v *verdict) pf(key, format string, a ...interface{}) {
	v.prop = append(v.prop, key+"|"+fmt.Sprintf(format, a...))
}
func (v *verdict) tf(key, format string, a ...interface{}) {
	v.tie = append(v.tie, key+"|"+fmt.Sprintf(format, a...))
}
func (v *verdict) hit(s string) { v.hits = append(v.hits, s) }

// ---------------------------------------------------------------- one send case
func runSendCase(c *Case, o *vlib.Oracle, v *verdict) {
	pubs, err := walletPubkeys(&c.W)
	if err != nil {
		v.tf("infra-keys", "%v", err)
		return
	}
	dir, _ := os.MkdirTemp("", "vc13")
	defer os.RemoveAll(dir)
	if err := c.setup(dir); err != nil {
		v.tf("infra-setup", "%v", err)
		return
	}
	unspentBefore, _ := os.ReadFile(filepath.Join(dir, "balance", "unspent.txt"))
	hitKeyTable(c, pubs, v)
	res := runWallet(dir, c.args())
	if res.TimedOut {
		v.pf("wallet-hang", "the wallet did not terminate within 20 s")
		return
	}
	if c.Corrupt != "" {
		// tx_from_balance: a balance file that is missing, does not parse, or does not hash to its name ends the run
		// (cleanExit(1)) while the folder is loaded - whatever was asked
		v.kind = "send-corrupt-balance"
		v.hit("corrupt-balance:" + c.Corrupt)
		if res.Exit != 1 || len(res.NewFiles) > 0 {
			v.pf("corrupt-balance-accepted", "balance/<txid>.tx of a listed output is damaged (%s) but the wallet went on: exit %d, files %v\n%s%s",
				c.Corrupt, res.Exit, sortedKeys(res.NewFiles), res.Stdout, res.Stderr)
		} else {
			r.TieOK()
		}
		return
	}

	if c.W.Minsig && c.Rfc {
		// main.go refuses this combination since fix 513217bb (before: endless re-signing loop in sign_tx)
		v.kind = "send-refused"
		v.hit("minsig+rfc6979 refused")
		if res.Exit != 1 || len(res.NewFiles) > 0 {
			v.pf("minsig-rfc6979", "minsig with -rfc6979 must be refused (exit 1, nothing written); got exit %d, files %v", res.Exit, sortedKeys(res.NewFiles))
		}
		return
	}

	// ---- what was written
	var txFileName string
	var txFile []byte
	var otherFiles []string
	for _, k := range sortedKeys(res.NewFiles) {
		if strings.HasPrefix(k, "balance/") {
			continue
		}
		if txFileName == "" && (strings.HasSuffix(k, ".txt") || k == c.Txfn) {
			txFileName, txFile = k, res.NewFiles[k]
		} else {
			otherFiles = append(otherFiles, k)
		}
	}
	if len(otherFiles) > 0 {
		v.tf("unexpected-files", "unexpected files written: %v", otherFiles)
	}
	wrote := txFileName != ""
	var tx *btc.Tx
	if wrote {
		tx, _ = decodeTxHexFile(txFile)
		if tx == nil {
			v.pf("undecodable-output", "the written file %s does not decode as one transaction", txFileName)
		}
	}

	// ---- the model's prediction
	bech := c.W.bech32Mode()
	var pk []string
	for _, p := range pubs {
		pk = append(pk, hx(p))
	}
	o.MustAsk(fmt.Sprintf("keys %s %s %s", b2s(c.W.Testnet), b2s(bech), listTok(pk)))
	var cs []string
	for _, u := range c.Unspent {
		sc, _ := hex.DecodeString(u.Script)
		cs = append(cs, fmt.Sprintf("%s:%d:%d:%s", hx(txidBytes(u.Txid)), u.Vout, u.Value, hx(sc)))
	}
	o.MustAsk("coins " + listTok(cs))
	var bl []string
	for _, l := range c.batchLines() {
		bl = append(bl, hx([]byte(l)))
	}
	batchTok := "none"
	if c.UseBatch {
		batchTok = listTok(bl)
	}
	sigs := "_"
	if tx != nil {
		sigs = listTok(sigsOf(tx))
	}
	changeTok := "none"
	if c.Change != "" {
		changeTok = hx([]byte(c.Change))
	}
	pred := o.MustAsk(fmt.Sprintf("send %s %s %s %s %s %d %d %d %s %s %s %s",
		optTok(c.UseSend, c.sendStr()), batchTok, hx([]byte(c.feeStr())), b2s(c.SubFee), b2s(c.UseAll),
		c.seqU32(), c.lockU32(), c.verU32(), changeTok, hx([]byte(c.Msg)), b2s(c.Apply), sigs))
	pf := strings.Fields(pred)
	v.hit("model:" + pf[0])

	// ---- tie: outcome class
	switch pf[0] {
	case "exit1":
		if wrote || res.Exit != 1 {
			v.tf("outcome", "model: exit 1, nothing written; wallet: exit %d, wrote=%v (%s)", res.Exit, wrote, txFileName)
		} else {
			r.TieOK()
		}
	case "panic":
		if wrote || res.Exit != 2 {
			v.tf("outcome", "model: Go panic; wallet: exit %d, wrote=%v", res.Exit, wrote)
		} else {
			r.TieOK()
		}
	case "nosend":
		if wrote || res.Exit != 0 {
			v.tf("outcome", "model: no send requested; wallet: exit %d, wrote=%v", res.Exit, wrote)
		} else {
			r.TieOK()
		}
	case "ok":
		if !wrote || res.Exit != 0 || tx == nil {
			v.tf("outcome", "model: transaction written; wallet: exit %d, wrote=%v\n%s%s", res.Exit, wrote, res.Stdout, res.Stderr)
		} else {
			_, raw := decodeTxHexFile(txFile)
			if hx(raw) != pf[1] {
				v.tf("file-bytes", "file content differs from the model's transaction\n wallet: %s\n model:  %s", hx(raw), pf[1])
			} else if hx(tx.Hash.Hash[:]) != pf[2] {
				v.tf("txid", "txid differs: wallet %s model %s", hx(tx.Hash.Hash[:]), pf[2])
			} else {
				r.TieOK()
			}
			// file name
			if c.Txfn == "" && txFileName != tx.Hash.String()[:8]+".txt" {
				v.tf("file-name", "file name %s is not <txid[:8]>.txt (%s)", txFileName, tx.Hash.String())
			}
			// balance folder afterwards
			after, changed := res.NewFiles["balance/unspent.txt"]
			if pf[3] == "1" {
				var want []string
				if pf[6] != "_" {
					for _, e := range strings.Split(pf[6], ",") {
						p := strings.Split(e, ":")
						want = append(want, fmt.Sprintf("%s-%s", btc.NewUint256(vlib.UnHex(p[0])).String(), p[1]))
					}
				}
				var got []string
				for _, l := range strings.Split(string(after), "\n") {
					if l = strings.TrimSpace(l); l != "" {
						f := strings.Fields(l)
						i := strings.LastIndex(f[0], "-")
						var n int
						fmt.Sscanf(f[0][i+1:], "%d", &n)
						got = append(got, fmt.Sprintf("%s-%d", f[0][:i], n))
					}
				}
				if !changed && len(want) != len(c.Unspent) {
					v.tf("balance-after", "model: balance/unspent.txt rewritten; wallet left it unchanged")
				} else if changed && strings.Join(got, " ") != strings.Join(want, " ") {
					v.tf("balance-after", "balance/unspent.txt afterwards differs\n wallet: %v\n model:  %v", got, want)
				} else {
					r.TieOK()
				}
				if ntx, ok := res.NewFiles["balance/"+tx.Hash.String()+".tx"]; !ok || !bytes.Equal(ntx, tx.Serialize()) {
					v.pf("balance-newtx", "balance/<txid>.tx of the new transaction is missing or is not its witness-less serialisation")
				}
			} else if changed {
				v.tf("balance-after", "model: balance untouched; wallet rewrote balance/unspent.txt")
			}
		}
	default:
		v.tf("oracle", "oracle reply %q", pred)
	}

	// ---- the property's own predicate, evaluated on the real output (independent of the model)
	if res.Exit != 0 && (wrote || len(res.NewFiles) > 0) {
		v.pf("failed-run-wrote", "exit code %d but files were written: %v", res.Exit, sortedKeys(res.NewFiles))
	}
	if !c.Valid {
		v.kind = "send-malformed"
		if wrote && tx != nil {
			// the generator makes no claim about what such a request pays; what holds of EVERY written transaction is
			// still judged on the real output: inputs are distinct listed outputs the wallet owns, every one verifies
			v.hit("malformed-but-written")
			reducedPredicate(c, tx, pubs, bech, v)
		}
		return
	}
	v.kind = "send"
	// owned coins, requested payments, in exact arithmetic
	var owned []Unspent
	for _, u := range c.Unspent {
		sc, _ := hex.DecodeString(u.Script)
		if ownedBy(pubs, bech, sc) {
			owned = append(owned, u)
		}
	}
	type pay struct {
		script []byte
		amount *big.Int
	}
	var pays []pay
	fee := new(big.Int).SetUint64(c.FeeSat)
	total := new(big.Int).Set(fee)
	all := append(append([]Dest{}, c.sendIf()...), c.batchIf()...)
	for i, d := range all {
		sc, _ := hex.DecodeString(d.Script)
		am := new(big.Int).SetUint64(d.Amount)
		if c.SubFee && c.UseSend && i == 0 {
			am.Sub(am, fee)
		}
		pays = append(pays, pay{sc, am})
		total.Add(total, am)
	}
	if len(pays) == 0 {
		return
	}
	two64 := new(big.Int).Lsh(big.NewInt(1), 64)
	have := new(big.Int)
	for _, u := range owned {
		have.Add(have, new(big.Int).SetUint64(u.Value))
	}
	if pays[0].amount.Sign() < 0 {
		// -f with a first amount below the fee: "amount minus fee" is negative, nothing sensible can be paid
		v.hit("subfee-below-fee")
		if wrote {
			v.pf("subfee-underflow", "-f with first amount %d < fee %d: the wallet wrote a transaction (first output value wrapped to 2^64-%d) instead of refusing",
				all[0].Amount, c.FeeSat, c.FeeSat-all[0].Amount)
		}
		return
	}
	if total.Cmp(two64) >= 0 || have.Cmp(two64) >= 0 {
		v.hit("beyond-2^64 (outside the quantifier, tie only)")
		return
	}
	if have.Cmp(total) < 0 {
		v.hit("insufficient")
		if wrote || res.Exit != 1 || len(res.NewFiles) > 0 {
			v.pf("insufficient-wrote", "funds insufficient (have %s need %s) but exit=%d files=%v", have, total, res.Exit, sortedKeys(res.NewFiles))
		}
		if after, _ := os.ReadFile(filepath.Join(dir, "balance", "unspent.txt")); !bytes.Equal(after, unspentBefore) {
			v.pf("insufficient-balance-touched", "funds insufficient but balance/unspent.txt changed")
		}
		return
	}
	v.hit("sufficient")
	if !wrote || tx == nil || res.Exit != 0 {
		v.pf("no-tx", "funds suffice (have %s need %s) and the request is well formed, but no transaction was written (exit %d)\n%s%s", have, total, res.Exit, res.Stdout, res.Stderr)
		return
	}
	if tx.Version != c.verU32() || tx.Lock_time != c.lockU32() {
		v.pf("ver-lock", "version/locktime %d/%d, asked %d/%d", tx.Version, tx.Lock_time, c.verU32(), c.lockU32())
	}
	// inputs ⊆ owned listed unspent, distinct
	seen := map[string]bool{}
	sumIn := new(big.Int)
	var spent []*btc.TxOut
	inputsOK := true
	for i, in := range tx.TxIn {
		id := fmt.Sprintf("%s-%d", btc.NewUint256(in.Input.Hash[:]).String(), in.Input.Vout)
		if seen[id] {
			v.pf("dup-input", "input %d spends %s twice", i, id)
			inputsOK = false
		}
		seen[id] = true
		var u *Unspent
		for k := range owned {
			if owned[k].Txid == btc.NewUint256(in.Input.Hash[:]).String() && owned[k].Vout == in.Input.Vout {
				u = &owned[k]
			}
		}
		if u == nil {
			v.pf("foreign-input", "input %d (%s) is not one of the wallet's listed unspent outputs", i, id)
			inputsOK = false
			continue
		}
		if in.Sequence != c.seqU32() {
			v.pf("sequence", "input %d sequence %08x, asked %08x", i, in.Sequence, c.seqU32())
		}
		sc, _ := hex.DecodeString(u.Script)
		spent = append(spent, &btc.TxOut{Value: u.Value, Pk_script: sc})
		sumIn.Add(sumIn, new(big.Int).SetUint64(u.Value))
	}
	if c.UseAll && len(tx.TxIn) != len(owned) {
		v.pf("useall", "-useallinputs: %d inputs, %d owned unspent outputs", len(tx.TxIn), len(owned))
	}
	// outputs = requested in order ++ change iff > 0 ++ message
	change := new(big.Int).Sub(sumIn, total)
	want := len(pays)
	if change.Sign() > 0 {
		want++
	}
	if c.Msg != "" {
		want++
	}
	if len(tx.TxOut) != want {
		v.pf("out-count", "%d outputs, expected %d (payments %d, change %s, msg %q)", len(tx.TxOut), want, len(pays), change, c.Msg)
	} else {
		for i, p := range pays {
			if !bytes.Equal(tx.TxOut[i].Pk_script, p.script) || new(big.Int).SetUint64(tx.TxOut[i].Value).Cmp(p.amount) != 0 {
				v.pf("payment", "output %d pays %d to %x, requested %s to %x", i, tx.TxOut[i].Value, tx.TxOut[i].Pk_script, p.amount, p.script)
			}
		}
		k := len(pays)
		if change.Sign() > 0 {
			co := tx.TxOut[k]
			if new(big.Int).SetUint64(co.Value).Cmp(change) != 0 {
				v.pf("change-amount", "change output %d, expected inputs-payments-fee = %s", co.Value, change)
			}
			if c.Change != "" {
				cs, _ := hex.DecodeString(c.ChangeScript)
				if !bytes.Equal(co.Pk_script, cs) {
					v.pf("change-addr", "change goes to %x, -change asked for %x", co.Pk_script, cs)
				}
			} else if !ownedBy(pubs, bech, co.Pk_script) {
				v.pf("change-not-own", "default change script %x is not one of the wallet's own addresses", co.Pk_script)
			}
			k++
		}
		if c.Msg != "" {
			mo := tx.TxOut[k]
			if mo.Value != 0 || len(mo.Pk_script) == 0 || mo.Pk_script[0] != 0x6a || !bytes.HasSuffix(mo.Pk_script, []byte(c.Msg)) {
				v.pf("msg-output", "message output %d / %x does not carry %q", mo.Value, mo.Pk_script, c.Msg)
			} else if !bytes.Equal(mo.Pk_script, stdMsgScript(c.Msg)) || !btc.IsPushOnly(mo.Pk_script[1:]) {
				// fixed by 0bb0a110 (WritePutLen `<` OP_PUSHDATA1); a 76-byte message used to give 6a 4c <76 bytes>
				v.pf("msg-output-nonstandard", "message output %x is not OP_RETURN + the canonical push of the %d-byte message (not push-only: the transaction is non-standard)", mo.Pk_script, len(c.Msg))
			} else {
				v.hit(fmt.Sprintf("msg-output canonical push (len class %s)", msgLenClass(len(c.Msg))))
			}
		}
	}
	sumOut := new(big.Int)
	for _, o := range tx.TxOut {
		sumOut.Add(sumOut, new(big.Int).SetUint64(o.Value))
	}
	if inputsOK && new(big.Int).Add(sumOut, fee).Cmp(sumIn) != 0 {
		v.pf("fee-arith", "Σinputs %s ≠ Σoutputs %s + fee %s", sumIn, sumOut, fee)
	}
	// every input verifies under consensus and standard rules (real interpreter)
	if inputsOK {
		for i := range tx.TxIn {
			if !verifyInput(tx, spent, i, consensusFlags) {
				v.pf("sig-consensus", "input %d (spending %x) does not verify under consensus flags", i, spent[i].Pk_script)
			} else if !verifyInput(tx, spent, i, standardFlags) {
				v.pf("sig-standard", "input %d (spending %x) verifies under consensus but not under standard flags", i, spent[i].Pk_script)
			} else {
				v.hit("verified:" + scriptKind(spent[i].Pk_script))
				v.hit("verified:" + scriptKind(spent[i].Pk_script) + keyClass(pubs, spent[i].Pk_script))
			}
			tieDigests(tx, spent, i, o, v)
			if c.Rfc {
				tieSigner(c, tx, spent, i, pubs, o, v)
			}
			if c.W.Minsig {
				if tx.SegWit != nil && len(tx.SegWit[i]) == 2 && len(tx.SegWit[i][0]) > 71 {
					v.pf("minsig", "minsig set but witness signature of input %d has %d bytes", i, len(tx.SegWit[i][0]))
				}
				// legacy input: <sig‖hashtype> <pub>; the signature push must be at most 71 bytes whatever the form of the
				// public key (33 bytes, or 65 for an imported uncompressed key; fix a0bc40ce: the wallet's own bound was a
				// fixed scriptSig size of 106 and never ended for a 65-byte key)
				if ss := tx.TxIn[i].ScriptSig; scriptKind(spent[i].Pk_script) == "p2pkh" && len(ss) > 0 && int(ss[0]) > 71 {
					v.pf("minsig", "minsig set but the signature in the scriptSig of input %d has %d bytes", i, int(ss[0]))
				}
			}
		}
	}
	// balance/unspent.txt afterwards (observe_at): spent lines gone, the others kept in order, own new outputs appended
	if c.Apply && inputsOK {
		var wantB []string
		for _, u := range c.Unspent {
			if !seen[fmt.Sprintf("%s-%d", u.Txid, u.Vout)] {
				wantB = append(wantB, fmt.Sprintf("%s-%d", u.Txid, u.Vout))
			}
		}
		for i, o := range tx.TxOut {
			if ownedBy(pubs, bech, o.Pk_script) {
				wantB = append(wantB, fmt.Sprintf("%s-%d", tx.Hash.String(), i))
			}
		}
		var gotB []string
		after, _ := os.ReadFile(filepath.Join(dir, "balance", "unspent.txt"))
		for _, l := range strings.Split(string(after), "\n") {
			if f := strings.Fields(l); len(f) > 0 {
				i := strings.LastIndex(f[0], "-")
				var n int
				fmt.Sscanf(f[0][i+1:], "%d", &n)
				gotB = append(gotB, fmt.Sprintf("%s-%d", f[0][:i], n))
			}
		}
		if strings.Join(gotB, " ") != strings.Join(wantB, " ") {
			v.pf("balance-after-prop", "balance/unspent.txt after the run lists %v, expected (unspent minus inputs plus own new outputs) %v", gotB, wantB)
		}
	}
	v.key = fmt.Sprintf("%d in %d out %s", len(tx.TxIn), len(tx.TxOut), hx(tx.Hash.Hash[:8]))
}

// reducedPredicate: the request-independent part of the property, for transactions written for a request the generator
// calls malformed (a comment line, an empty -fee, an unused bad -change ...): inputs ⊆ owned listed unspent outputs,
// pairwise distinct, each verifying under consensus and standard flags; Σ outputs ≤ Σ inputs.
func reducedPredicate(c *Case, tx *btc.Tx, pubs [][]byte, bech bool, v *verdict) {
	seen := map[string]bool{}
	var spent []*btc.TxOut
	sumIn, sumOut := new(big.Int), new(big.Int)
	for i, in := range tx.TxIn {
		id := fmt.Sprintf("%s-%d", btc.NewUint256(in.Input.Hash[:]).String(), in.Input.Vout)
		if seen[id] {
			v.pf("dup-input", "input %d spends %s twice", i, id)
			return
		}
		seen[id] = true
		var u *Unspent
		for k := range c.Unspent {
			if c.Unspent[k].Txid == btc.NewUint256(in.Input.Hash[:]).String() && c.Unspent[k].Vout == in.Input.Vout {
				u = &c.Unspent[k]
			}
		}
		if u == nil {
			v.pf("foreign-input", "input %d (%s) is not one of the listed unspent outputs", i, id)
			return
		}
		sc, _ := hex.DecodeString(u.Script)
		if !ownedBy(pubs, bech, sc) {
			v.pf("foreign-input", "input %d (%s) spends %x, which is not one of the wallet's own scripts", i, id, sc)
			return
		}
		spent = append(spent, &btc.TxOut{Value: u.Value, Pk_script: sc})
		sumIn.Add(sumIn, new(big.Int).SetUint64(u.Value))
	}
	for _, o := range tx.TxOut {
		sumOut.Add(sumOut, new(big.Int).SetUint64(o.Value))
	}
	if sumOut.Cmp(sumIn) > 0 && sumIn.BitLen() <= 64 {
		v.pf("fee-arith", "Σoutputs %s > Σinputs %s", sumOut, sumIn)
	}
	for i := range tx.TxIn {
		if !verifyInput(tx, spent, i, consensusFlags) {
			v.pf("sig-consensus", "input %d (spending %x) does not verify under consensus flags", i, spent[i].Pk_script)
		} else if !verifyInput(tx, spent, i, standardFlags) {
			v.pf("sig-standard", "input %d (spending %x) verifies under consensus but not under standard flags", i, spent[i].Pk_script)
		} else {
			v.hit("verified(malformed request):" + scriptKind(spent[i].Pk_script))
		}
	}
}

// hitKeyTable records the shape of the wallet's key table (input distribution: imported keys, their forms).
func hitKeyTable(c *Case, pubs [][]byte, v *verdict) {
	if len(c.W.Others) == 0 {
		v.hit("keys:deterministic only")
		return
	}
	un := 0
	for _, p := range pubs {
		if len(p) != 33 {
			un++
		}
	}
	v.hit(fmt.Sprintf("keys:%d imported (.others), %d of them uncompressed", c.W.nOthers(), un))
}

// keyClass: where in keys[] the owner of an own script stands - "" for a wallet without imported keys, else whether the
// key is imported or deterministic and whether an uncompressed key (nil entry of the SegWit table) precedes it.
func keyClass(pubs [][]byte, scr []byte) string {
	anyUn := false
	for _, p := range pubs {
		if len(p) != 33 {
			anyUn = true
		}
	}
	if !anyUn {
		return ""
	}
	seenUn := false
	for _, p := range pubs {
		if len(p) != 33 {
			if bytes.Equal(scr, ownScript("p2pkh", p)) {
				return " of an uncompressed imported key"
			}
			seenUn = true
			continue
		}
		for _, k := range ownKinds {
			if bytes.Equal(scr, ownScript(k, p)) {
				if seenUn {
					return " of a key behind an uncompressed imported key"
				}
				return " of a key in front of an uncompressed imported key"
			}
		}
	}
	return ""
}

func (c *Case) sendIf() []Dest {
	if c.UseSend {
		return c.Send
	}
	return nil
}
func (c *Case) batchIf() []Dest {
	if c.UseBatch {
		return c.Batch
	}
	return nil
}

func scriptKind(s []byte) string {
	switch {
	case len(s) == 25 && s[0] == 0x76:
		return "p2pkh"
	case len(s) == 23 && s[0] == 0xa9:
		return "p2sh"
	case len(s) == 22 && s[0] == 0:
		return "p2wpkh"
	case len(s) == 34 && s[0] == 0x51:
		return "p2tr"
	case len(s) == 34 && s[0] == 0:
		return "p2wsh"
	case len(s) > 0 && s[0] == 0x6a:
		return "opreturn"
	}
	return "other"
}

// ---------------------------------------------------------------- one raw / multisig case
func skeletonOf(tx *btc.Tx) string {
	var b strings.Builder
	fmt.Fprintf(&b, "v%d l%d", tx.Version, tx.Lock_time)
	for _, in := range tx.TxIn {
		fmt.Fprintf(&b, " i%x:%d:%d", in.Input.Hash, in.Input.Vout, in.Sequence)
	}
	for _, o := range tx.TxOut {
		fmt.Fprintf(&b, " o%d:%x", o.Value, o.Pk_script)
	}
	return b.String()
}

func runRawCase(c *Case, o *vlib.Oracle, v *verdict) {
	v.kind = c.Kind
	pubs, err := walletPubkeys(&c.W)
	if err != nil {
		v.tf("infra-keys", "%v", err)
		return
	}
	dir, _ := os.MkdirTemp("", "vc13")
	defer os.RemoveAll(dir)
	if err := c.setup(dir); err != nil {
		v.tf("infra-setup", "%v", err)
		return
	}
	orig, _ := decodeTxHexFile([]byte(c.RawTx))
	if orig == nil {
		v.tf("infra-raw", "generated raw tx does not decode")
		return
	}
	inFile := "raw.txt"
	if c.Kind == "ms" {
		res := runWallet(dir, []string{"-raw", "raw.txt", "-p2sh", c.Redeem, "-input", "0"})
		if _, ok := res.NewFiles["multi2sign.txt"]; !ok {
			v.pf("ms-p2sh", "-p2sh did not write multi2sign.txt (exit %d)\n%s%s", res.Exit, res.Stdout, res.Stderr)
			return
		}
		mid, _ := decodeTxHexFile(res.NewFiles["multi2sign.txt"])
		if mid == nil || skeletonOf(mid) != skeletonOf(orig) {
			v.pf("raw-altered", "-p2sh altered version/locktime/outpoints/sequences/outputs")
			return
		}
		inFile = "multi2sign.txt"
	}
	args := []string{"-raw", inFile, "-txfn", "out.txt"}
	if c.Rfc {
		args = append(args, "-rfc6979")
	}
	before, _ := decodeTxHexFile(mustRead(filepath.Join(dir, inFile)))
	res := runWallet(dir, args)
	if res.TimedOut {
		v.pf("wallet-hang", "the wallet did not terminate within 20 s")
		return
	}
	if c.W.Minsig && c.Rfc {
		v.hit("minsig+rfc6979 refused")
		if res.Exit != 1 || len(res.NewFiles) > 0 {
			v.pf("minsig-rfc6979", "minsig with -rfc6979 must be refused (exit 1, nothing written); got exit %d, files %v", res.Exit, sortedKeys(res.NewFiles))
		}
		return
	}
	// spent outputs as the balance folder gives them
	bal := map[string]*Unspent{}
	for i := range c.Unspent {
		u := &c.Unspent[i]
		bal[fmt.Sprintf("%s-%d", u.Txid, u.Vout)] = u
	}
	var spent []*btc.TxOut
	var spentTok, msTok []string
	missing := false
	for _, in := range orig.TxIn {
		u := bal[fmt.Sprintf("%s-%d", btc.NewUint256(in.Input.Hash[:]).String(), in.Input.Vout)]
		if u == nil {
			missing = true
			break
		}
		sc, _ := hex.DecodeString(u.Script)
		spent = append(spent, &btc.TxOut{Value: u.Value, Pk_script: sc})
		spentTok = append(spentTok, fmt.Sprintf("%d:%s", u.Value, hx(sc)))
	}
	outFile, wrote := res.NewFiles["out.txt"]
	if missing {
		// getUO is fatal for an input whose transaction is not in the balance folder
		v.hit("raw-missing-input")
		if wrote || res.Exit != 1 {
			v.tf("raw-missing", "input not in balance folder: expected exit 1 and no file, got exit %d wrote=%v", res.Exit, wrote)
		} else {
			r.TieOK()
		}
		return
	}
	if !wrote || res.Exit != 0 {
		v.tf("raw-outcome", "raw signing: exit %d, wrote=%v\n%s%s", res.Exit, wrote, res.Stdout, res.Stderr)
		return
	}
	tx, raw := decodeTxHexFile(outFile)
	if tx == nil {
		v.pf("undecodable-output", "the written file does not decode as one transaction")
		return
	}
	// property: nothing but scriptSig / witness changed
	if skeletonOf(tx) != skeletonOf(orig) {
		v.pf("raw-altered", "raw signing altered version/locktime/outpoints/sequences/outputs\n before: %s\n after:  %s", skeletonOf(orig), skeletonOf(tx))
	}
	bech := c.W.bech32Mode()
	allOwned := true
	for i := range tx.TxIn {
		ms, _ := btc.NewMultiSigFromScript(before.TxIn[i].ScriptSig)
		if ms != nil {
			msTok = append(msTok, hx(tx.TxIn[i].ScriptSig)+":1")
			v.hit("raw-input:multisig")
			if c.Kind == "ms" {
				if !verifyInput(tx, spent, i, consensusFlags) || !verifyInput(tx, spent, i, standardFlags) {
					v.pf("sig-multisig", "multisig input %d does not verify (scriptSig %x)", i, tx.TxIn[i].ScriptSig)
				} else {
					v.hit("verified:multisig")
				}
			}
			continue
		}
		msTok = append(msTok, "none")
		if ownedBy(pubs, bech, spent[i].Pk_script) {
			if !verifyInput(tx, spent, i, consensusFlags) {
				v.pf("sig-consensus", "raw: owned input %d (spending %x) does not verify under consensus flags", i, spent[i].Pk_script)
			} else if !verifyInput(tx, spent, i, standardFlags) {
				v.pf("sig-standard", "raw: owned input %d (spending %x) does not verify under standard flags", i, spent[i].Pk_script)
			} else {
				v.hit("verified:" + scriptKind(spent[i].Pk_script))
				v.hit("verified:" + scriptKind(spent[i].Pk_script) + keyClass(pubs, spent[i].Pk_script))
			}
			tieDigests(tx, spent, i, o, v)
		} else {
			allOwned = false
			v.hit("raw-input:foreign-" + scriptKind(spent[i].Pk_script))
		}
	}
	_ = allOwned
	// tie: whole file
	var pk []string
	for _, p := range pubs {
		pk = append(pk, hx(p))
	}
	o.MustAsk(fmt.Sprintf("keys %s %s %s", b2s(c.W.Testnet), b2s(bech), listTok(pk)))
	var ins, outs []string
	for _, in := range before.TxIn {
		ins = append(ins, fmt.Sprintf("%s:%d:%s:%d", hx(in.Input.Hash[:]), in.Input.Vout, hx(in.ScriptSig), in.Sequence))
	}
	for _, ou := range before.TxOut {
		outs = append(outs, fmt.Sprintf("%d:%s", ou.Value, hx(ou.Pk_script)))
	}
	wit := "none"
	if before.SegWit != nil {
		var st []string
		for _, s := range before.SegWit {
			var it []string
			for _, x := range s {
				it = append(it, hx(x))
			}
			if len(it) == 0 {
				st = append(st, "_")
			} else {
				st = append(st, strings.Join(it, "."))
			}
		}
		wit = strings.Join(st, ";")
	}
	pred := o.MustAsk(fmt.Sprintf("raw %d %d %s %s %s %s %s %s", before.Version, before.Lock_time, listTok(ins), listTok(outs), wit,
		listTok(spentTok), listTok(msTok), listTok(sigsOf(tx))))
	pf := strings.Fields(pred)
	if pf[0] != "ok" {
		v.tf("oracle", "oracle reply %q", pred)
	} else if pf[1] != hx(raw) {
		v.tf("file-bytes", "raw signing: file differs from the model\n wallet: %s\n model:  %s", hx(raw), pf[1])
	} else {
		r.TieOK()
		notAll := strings.Contains(res.Stdout, "Not all the inputs have been signed")
		if c.Kind == "raw" && (pf[2] == "1") == notAll {
			v.tf("all-signed", "all_signed: model %s, wallet printed warning=%v", pf[2], notAll)
		}
	}
	v.key = "raw " + hx(tx.Hash.Hash[:8])
}

func mustRead(p string) []byte {
	b, _ := os.ReadFile(p)
	return b
}

// ---------------------------------------------------------------- driver
func runCase(c *Case, o *vlib.Oracle) *verdict {
	v := &verdict{}
	defer func() {
		if e := recover(); e != nil {
			v.tf("harness-panic", "%v", e)
		}
	}()
	switch c.Kind {
	case "send":
		runSendCase(c, o, v)
	case "raw", "ms":
		runRawCase(c, o, v)
	}
	return v
}

func report(c *Case, v *verdict) {
	kind := v.kind
	if kind == "" {
		kind = c.Kind
	}
	r.Eval("case:"+kind, v.key)
	for _, h := range v.hits {
		r.Hit(h)
	}
	for _, p := range v.prop {
		i := strings.Index(p, "|")
		r.PropFail(p[:i], p[i+1:], c)
	}
	for _, p := range v.tie {
		i := strings.Index(p, "|")
		r.TieFail(p[:i], p[i+1:], c)
	}
	if v.key != "" {
		r.Sample(map[string]interface{}{"name": c.Name, "kind": c.Kind, "wallet": c.W, "args": c.args(), "unspent": len(c.Unspent)})
	}
}

func main() {
	r = vlib.NewRun("C13")
	tmp, err := os.MkdirTemp("", "vc13bin")
	if err != nil {
		fmt.Println(err)
		os.Exit(3)
	}
	defer os.RemoveAll(tmp)
	if err := buildWallet(tmp); err != nil {
		fmt.Println(err)
		r.TieFail("wallet-build", "the wallet binary does not build: "+err.Error(), nil)
		os.RemoveAll(tmp)
		r.Finish("-", "wallet binary could not be built")
	}
	r.Assume = []string{
		"signature validity is observed on the real output by script.VerifyTxScript (real interpreter); in Lean it is the theorem signatures_verify against the REAL script rules ScriptSpec.verifyScript (the reference semantics C01's script_equiv ties VerifyTxScript to), for every flag set with Core's flag dependencies and every oracle instance whose ecdsaVerify / schnorrVerify are C03's models; the sign=>verify facts are imported from C03 (own_signature_accepted, sign_canonical, schnorr_sign_verifies, generator_order), not assumed",
		"remaining hypotheses of signatures_verify: hcalls (the ONE signing call the input's type needs succeeds with R != 0 - inherited from C03; CallsOk is split per input type), no_clash (signature bytes||01 are not the 20-byte key hash: FindAndDelete), nonzero (no key hash / x-only key is all-zero = false as a stack element), hash_same / hash_len, hwit (no witness data yet on the transaction handed to sign_tx), hms (not the multisig branch: the incoming scriptSig is not a multisig script), hspent, hown (one of the four own scripts - PROVED from ownership for every input of a -send run: ownership_is_four_templates, send_signatures_verify), haddr, hss; no_cross is gone since fix ebf80672 (per-template look-ups); all hypotheses are discharged jointly (kernel-checked) for one input of each of the four types and for a two-key two-input -send run in Props/C13.lean, with toy sha / HASH160 / tagged hash / nonce source",
		"the theorem's signer is C03's Signature.Sign + the DER assembly of Tx.Sign / Tx.SignWitness (wallet_der_is_c03_bytes: = Signature.Bytes()); that btc.EcdsaSign hands Sign's (R,S) through is tied here in -rfc6979 runs only (signer-tie: the wallet's DER bytes = the model's); random-nonce ECDSA and Schnorr signatures are judged by script.VerifyTxScript alone",
		"digest signed = digest verified is PROVED (digests_read_skeleton_only: C02's models of SignatureHash / WitnessSigHash / TaprootSigHash read no scriptSig and no witness; the hash cache stays coherent), for the oracle whose digest requests are those model functions on the signed transaction (DigestsAreC02) - and observed here: the digests computed from the skeleton alone equal the real functions' results on the signed transaction, for every verified input",
		"wallet keys are taken from the real wallet's own listing (-l -atype pks); key derivation is C14's subject",
		"amounts and sums < 2^64 (beyond: StringToSatoshis / spendBtc wrap silently — DESIGN O4, observation only)",
		"balance/unspent.txt names pairwise distinct outpoints (hnd of inputs_distinct; duplicate or malformed lines are not generated) and balance/<txid>.tx files hash to their names (damaged files ARE generated: exit 1, nothing written)",
		".others raw-key files ARE exercised (1..3 imported keys in front of the deterministic ones, compressed and uncompressed WIF, labels, comment / empty / undecodable lines, wrong-network version byte); an uncompressed key owns its P2PKH address only - P2WPKH / P2TR outputs built from an uncompressed key's hash / x coordinate (which pkscr_to_key would also attribute to it) are not generated; litecoin mode, the deprecated -u switch, -prompt, scrypt and BIP39 password entry are not exercised",
	}

	if r.Replay != "" {
		b, err := os.ReadFile(r.Replay)
		var doc struct {
			Replay *Case `json:"replay"`
		}
		if err != nil || json.Unmarshal(b, &doc) != nil || doc.Replay == nil || doc.Replay.Kind == "" {
			fmt.Println("replay: nothing to re-run for this file (proof-level violation or unreadable); see its 'broken' field")
			os.RemoveAll(tmp)
			r.Finish("replay", "replay")
		}
		o, _ := vlib.StartOracle("c13")
		v := runCase(doc.Replay, o)
		report(doc.Replay, v)
		for _, p := range append(v.prop, v.tie...) {
			fmt.Println("  replay:", p)
		}
		o.Close()
		os.RemoveAll(tmp)
		r.Finish("replay of one recorded case", "replay")
	}

	if dn := os.Getenv("C13_DUMPCASE"); dn != "" { // debugging aid: print one corpus case as a replay document
		for _, c := range corpus() {
			if c.Name == dn {
				b, _ := json.MarshalIndent(map[string]interface{}{"replay": c}, "", " ")
				fmt.Println(string(b))
			}
		}
		os.RemoveAll(tmp)
		os.Exit(0)
	}

	amountTie()

	cases := corpus()
	n := r.N(500, 10000)
	g := r.Rng
	for i := 0; i < n; i++ {
		cg := g.Fork()
		cases = append(cases, genCase(cg, i))
	}
	// run sharded; results reported in case order (deterministic)
	res := make([]*verdict, len(cases))
	nw := runtime.NumCPU()
	if nw > 16 {
		nw = 16
	}
	var wg sync.WaitGroup
	idx := make(chan int, len(cases))
	for i := range cases {
		idx <- i
	}
	close(idx)
	for w := 0; w < nw; w++ {
		wg.Add(1)
		go func() {
			defer wg.Done()
			o, err := vlib.StartOracle("c13")
			if err != nil {
				fmt.Println("oracle:", err)
				os.Exit(3)
			}
			defer o.Close()
			for i := range idx {
				res[i] = runCase(cases[i], o)
			}
		}()
	}
	wg.Wait()
	for i, c := range cases {
		report(c, res[i])
	}
	os.RemoveAll(tmp)
	r.Finish("corpus of hand-made boundary cases (1 satoshi, exact balance, one short, every input/destination type, -f, -change, -msg 75/76/77, -seq/-locktime/-txver, -useallinputs, -rfc6979, minsig, type 3/4, all atypes, testnet) + generated wallet runs (send / batch / raw / multisig) + malformed requests; a case is distinct and non-trivial when the wallet wrote a transaction with a new txid",
		"Every case runs the real wallet binary in a fresh directory; the written file is decoded with btc.NewTx and the property predicate is evaluated on it directly (payments, change, fee arithmetic, inputs, every signature through script.VerifyTxScript with consensus and standard flags); the Lean model then has to reproduce the file byte for byte (signatures as parameters), the txid/file name, the exit class and balance/unspent.txt afterwards.")
}
