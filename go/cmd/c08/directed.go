// directed.go — directed generators for NON-NORMALISED INTERMEDIATES (C08).
//
// Field.Mul / Field.Sqr outputs are magnitude 1 but, for about 1 in 2^17 operands, not canonical (top
// limb ≥ 2^48: the limbs stand for v+p). The group code compares such values (XYZ.AddXY / XYZ.Add:
// u1==u2, s1==s2 decide between Double / Infinity / general addition) and reads their parity
// (XY.SetXO / DecompressPoint: IsOdd of the Sqrt output) only after Normalize. Random inputs
// practically never produce them, so these generators SEARCH for them at run time with the real
// Field code (deterministic from the run's PRNG) and feed the found operands through the ordinary
// case kinds (addxy, add3, ecmult, setxo) and the twins of SetXO (decompress, parsepub, xonly).
package main

import (
	"encoding/hex"
	"fmt"
	"math/big"

	secp "github.com/piotrnar/gocoin/lib/secp256k1"
	"verif/vlib"
)

// jacZ: the Jacobian limbs (x·z², y·z³, z) of an affine point for exactly these z limbs
func jacZ(p pt, z fe) xyz {
	zv := modP(z.val())
	z2 := modP(new(big.Int).Mul(zv, zv))
	z3 := modP(new(big.Int).Mul(z2, zv))
	return xyz{x: feOfBig(modP(new(big.Int).Mul(p.x, z2))), y: feOfBig(modP(new(big.Int).Mul(p.y, z3))), z: z}
}

func randZ(g *vlib.Rng, addP bool) fe {
	z := fe{g.U64() & limbM, g.U64() & limbM, g.U64() & limbM, g.U64() & limbM, g.U64() & limbM4}
	if addP { // magnitude-2 limbs of the same value (Z of Double/Add results has magnitude ≤ 2)
		z = denorm(z, 1)
	}
	return z
}

// findZ searches z such that the raw Field.Mul output of w·z² (cube=false: the u of Add/AddXY) or of
// (w·z²)·z (cube=true: the s of Add/AddXY), computed with the statements of the code, is not canonical.
func findZ(g *vlib.Rng, w fe, cube, addP bool, tries int) (fe, bool) {
	wf := w.field()
	for i := 0; i < tries; i++ {
		z := randZ(g, addP)
		zf := z.field()
		var zz, v secp.Field
		zf.Sqr(&zz)
		wf.Mul(&v, &zz)
		if cube {
			v.Mul(&v, &zf)
		}
		if l := limbsOf(&v); l[4]>>48 != 0 && noncanon(l) && modP(z.val()).Sign() != 0 {
			return z, true
		}
	}
	r.Hit("directed:search-exhausted")
	return fe{}, false
}

const zTries = 1 << 21 // ≈ 16 expected witnesses: the search fails with probability < 1e-6

func maybeDenormA(g *vlib.Rng, a xyz, on bool) xyz {
	if on { // X ≤ 6, Y ≤ 4 is the contract; Z keeps the limbs the search was done with
		a.x = denorm(a.x, uint64(g.Intn(6)))
		a.y = denorm(a.y, uint64(g.Intn(4)))
	}
	return a
}

// fixed witnesses (found by the searches below, kept so that detection does not depend on search luck)
var fixedAddxyZ = []struct {
	k int64 // P = k·G, b = canonical affine limbs of P
	z string
}{
	{1, "73be586e1c244fde6da38b6edd190db4a0d32c46a785684d0f573f95c060cc24"},
	{1, "d4d48894a130e4b865768f8f6caa5c69fed10c1feda4fa64504ca37445b1e94d"},
	{1, "e96b6cb84271cde45ab072fbe5c421563f5bb6ad7d24bf1bc1bf07328a8a9c4e"},
}

// x coordinates whose lift has a non-canonical raw Sqrt output
var fixedLiftX = []string{"20f105", "28b871", "29ceb4", "327dde"} // found by a counter search from 2000003 with the real Sqrt
var fixedLiftKeys = []int64{}                                  // x of k·G (none kept; the run-time search supplies them)
// k with BaseMultiplyAdd(k·G, k) running into the doubling branch of AddXY on a non-canonical s2
var fixedBMA = []int64{1014079, 1341451, 1346054} // found by a counter search from 1000003 with the real ECmultGen/Mul

func emitAddxyWitness(g *vlib.Rng, p pt, b xy, z fe, which, origin string, denormA bool) {
	a := maybeDenormA(g, jacZ(p, z), denormA)
	an := maybeDenormA(g, jacZ(refNeg(p), z), denormA)
	runCase(fmt.Sprintf("addxy %s %s", a, b), "dbl-noncanon-"+which+origin)
	runCase(fmt.Sprintf("addxy %s %s", an, b), "neg-noncanon-"+which+origin)
}

func addDirected(g *vlib.Rng) {
	G := refG
	// ---- corpus
	for _, w := range fixedAddxyZ {
		p := refMul(big.NewInt(w.k), G)
		z := feOfBig(bigHex(w.z))
		b := xy{x: feOfBig(p.x), y: feOfBig(p.y)}
		if !noncanon(rawS(b.y, z)) {
			r.Hit("directed:fixed-witness-stale") // Field.Mul's raw representation changed; not an error
		}
		emitAddxyWitness(g, p, b, z, "s2", "-fixed", false)
		a := jacZ(p, z)
		// the same operands through ECmult: 1·A + k·G starts with r = A and adds pre_g[(k-1)/2] = A
		runCase(fmt.Sprintf("ecmult %s 1 %x", a, w.k), "dbl-noncanon-s2-fixed")
		// XYZ.Add with b = (P, 1): s2 = P.y·Z1³ is the same product
		one := xyz{x: b.x, y: b.y, z: fe{1}}
		runCase(fmt.Sprintf("add3 %s %s", a, one), "dbl-noncanon-s2-fixed")
		runCase(fmt.Sprintf("add3 %s %s", one, a), "dbl-noncanon-s1-fixed")
		runCase(fmt.Sprintf("add3 %s %s", jacZ(refNeg(p), z), one), "neg-noncanon-s2-fixed")
	}
	for _, k := range fixedBMA { // ecmult's property part calls BaseMultiplyAdd(pub(A), ng)
		p := refMul(big.NewInt(k), G)
		runCase(fmt.Sprintf("ecmult %s 1 %x", jacZ(p, fe{1}), k), "basemultiplyadd-dbl-fixed")
		runCase(fmt.Sprintf("ecmult %s 1 %x", jacZ(refNeg(p), fe{1}), k), "basemultiplyadd-neg-fixed")
	}
	// ---- AddXY: a = (P, z) Jacobian, b = ±P affine, with s2 = b.Y·z³ or u2 = b.X·z² non-canonical
	nA := r.N(12, 160)
	for i := 0; i < nA; i++ {
		var p pt
		var b xy
		tabIdx := -1
		switch {
		case i%4 == 0: // an entry of pre_g: P = (2j+1)·G with the table's own limbs (what ECmult adds)
			tabIdx = g.Intn(8)
			if i == 0 {
				tabIdx = 0
			}
			e := secp.VerifTableEntry("pre_g", tabIdx)
			b = xyOf(&e)
			p, _ = b.ref()
		case i%4 == 1:
			p = refMul(big.NewInt(int64(1+g.Intn(20))), G)
			if g.Bool() {
				p = refNeg(p)
			}
			b = aff(g, p, false)
		default:
			p = randPoint(g)
			b = aff(g, p, g.Chance(1, 3)) // b.X, b.Y of magnitude ≤ 2
		}
		which, cube := "s2", true
		if i%4 == 3 {
			which, cube = "u2", false
		}
		w := b.y
		if !cube {
			w = b.x
		}
		z, ok := findZ(g, w, cube, g.Chance(1, 4), zTries)
		if !ok {
			continue
		}
		emitAddxyWitness(g, p, b, z, which, "", g.Bool())
		if tabIdx >= 0 { // r = A = (P,z); r.AddXY(r, &pre_g[tabIdx])
			runCase(fmt.Sprintf("ecmult %s 1 %x", jacZ(p, z), 2*tabIdx+1), "dbl-noncanon-"+which)
		}
	}
	// ---- XYZ.Add: a = (P, z1), b = (±P, z2) with one of u1, u2, s1, s2 non-canonical
	nB := r.N(12, 160)
	for i := 0; i < nB; i++ {
		p := randPoint(g)
		if i%5 == 0 {
			p = G
		}
		which := []string{"s1", "s2", "u1", "u2"}[i%4]
		cube := which[0] == 's'
		// the operand whose X/Y limbs enter the product is built first (any z, maybe denormalised) …
		first := jac(g, p, g.Bool())
		w := first.y
		if !cube {
			w = first.x
		}
		// … then the OTHER operand's z is searched
		z, ok := findZ(g, w, cube, g.Chance(1, 4), zTries)
		if !ok {
			continue
		}
		dn := g.Bool()
		same, opp := maybeDenormA(g, jacZ(p, z), dn), maybeDenormA(g, jacZ(refNeg(p), z), dn)
		if which == "s1" || which == "u1" { // u1 = a.X·b.Z², s1 = a.Y·b.Z³: a is `first`
			runCase(fmt.Sprintf("add3 %s %s", first, same), "dbl-noncanon-"+which)
			runCase(fmt.Sprintf("add3 %s %s", first, opp), "neg-noncanon-"+which)
		} else {
			runCase(fmt.Sprintf("add3 %s %s", same, first), "dbl-noncanon-"+which)
			runCase(fmt.Sprintf("add3 %s %s", opp, first), "neg-noncanon-"+which)
		}
	}
	// ---- BaseMultiplyAdd(k·G, k): ECmultGen's own Z against the parsed key (thorough only: ≈ 20 µs a try)
	if r.Thorough() {
		found := 0
		for i := 0; i < 1<<18 && found < 4; i++ {
			k := new(big.Int).SetUint64(1 + g.U64()%(1<<40))
			n := numberOf(k)
			var j secp.XYZ
			secp.ECmultGen(&j, &n)
			var a secp.XY
			jc := j
			a.SetXYZ(&jc)
			a.Y.Normalize()
			if noncanon(rawS(limbsOf(&a.Y), limbsOf(&j.Z))) {
				found++
				p := refMul(k, G)
				runCase(fmt.Sprintf("ecmult %s 1 %x", jacZ(p, fe{1}), k), "basemultiplyadd-dbl")
			}
		}
	}
}

// cube root exponent: p ≡ 7 (mod 9), so a^((p+2)/9) is a cube root of every cubic residue a
var cbrtExp = new(big.Int).Div(new(big.Int).Add(refP, big2), big.NewInt(9))

// findLiftX searches an x with x³+7 a square whose raw Sqrt output (as SetXO computes it) is not
// canonical. The raw output can only be v+p for a small root v (the top limb overflows by a carry),
// so candidates are built from a small y: x = cbrt(y²-7) when that is a cube; the real code decides.
func findLiftX(g *vlib.Rng, tries int) (*big.Int, bool) {
	for i := 0; i < tries; i++ {
		bits := uint(120 + g.Intn(122))
		y := new(big.Int).SetBytes(g.Bytes(32))
		y.Rsh(y, 256-bits)
		a := modP(new(big.Int).Sub(new(big.Int).Mul(y, y), big7))
		x := new(big.Int).Exp(a, cbrtExp, refP)
		if new(big.Int).Exp(x, big3, refP).Cmp(a) != 0 {
			continue
		}
		if noncanon(rawLiftSqrt(feOfBig(x))) {
			return x, true
		}
	}
	r.Hit("directed:search-exhausted")
	return nil, false
}

func emitLift(x *big.Int, origin string) {
	xf := feOfBig(x)
	xh := hex.EncodeToString(b32(x))
	for _, odd := range []string{"0", "1"} {
		runCase(fmt.Sprintf("setxo %s %s", xf, odd), origin)
		runCase(fmt.Sprintf("decompress %s %s", xh, odd), origin)
	}
	runCase("parsepub 02"+xh, origin)
	runCase("parsepub 03"+xh, origin)
	runCase("xonly "+xh, origin)
}

func liftDirected(g *vlib.Rng) {
	// ---- corpus
	for _, s := range fixedLiftX {
		x := bigHex(s)
		if !noncanon(rawLiftSqrt(feOfBig(x))) {
			r.Hit("directed:fixed-witness-stale")
		}
		emitLift(x, "noncanon-sqrt-fixed")
	}
	for _, k := range fixedLiftKeys {
		x := refMul(big.NewInt(k), refG).x
		if !noncanon(rawLiftSqrt(feOfBig(x))) {
			r.Hit("directed:fixed-witness-stale")
		}
		emitLift(x, "noncanon-sqrt-fixed")
	}
	// ---- constructed from small roots
	for i := 0; i < r.N(12, 200); i++ {
		if x, ok := findLiftX(g, 4000); ok {
			emitLift(x, "noncanon-sqrt")
		}
	}
	// ---- plain search over small counters and random x (thorough: ≈ 6 µs a try, 1 hit in 2^16..2^18)
	if r.Thorough() {
		base := uint64(g.Intn(1 << 30))
		for i := uint64(0); i < 1<<19; i++ {
			x := new(big.Int).SetUint64(base + i)
			if i&1 == 1 {
				x = modP(new(big.Int).SetBytes(g.Bytes(32)))
			}
			if l := rawLiftSqrt(feOfBig(x)); l[4]>>48 != 0 && noncanon(l) {
				emitLift(x, "noncanon-sqrt-search")
			}
		}
	}
	// ---- the twins of SetXO on ordinary inputs (points, non-residues, x ≥ p)
	for i := 0; i < r.N(40, 1500); i++ {
		var x *big.Int
		switch g.Intn(5) {
		case 0:
			x = randPoint(g).x
		case 1:
			x = big.NewInt(int64(g.Intn(30)))
		case 2: // p-3 … p+3 and 2^256-1: set_b32_limit's bound
			x = new(big.Int).Add(refP, big.NewInt(int64(g.Intn(7))-3))
			if g.Chance(1, 6) {
				x = new(big.Int).Sub(new(big.Int).Lsh(big1, 256), big1)
			}
		default:
			x = new(big.Int).SetBytes(g.Bytes(32))
		}
		xh := hex.EncodeToString(b32(x))
		runCase(fmt.Sprintf("decompress %s %d", xh, g.Intn(2)), "lift")
		runCase(fmt.Sprintf("parsepub 0%d%s", 2+g.Intn(2), xh), "lift")
		runCase("xonly "+xh, "lift")
	}
}
