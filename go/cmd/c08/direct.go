// direct.go — direct ties of the helpers that ECmult / ECmultGen are built from and that were so far only tied through
// their callers: XYZ.precomp (table of odd multiples), Number.split (2^128 split of ng) and Number.rsh_x (the word
// extraction of ecmult_wnaf and of the comb of ECmultGen), through the `verif`-tagged exports VerifPrecompXYZ / VerifSplit /
// VerifRshX. Each case runs the real function (under recover), the Lean model's definition (oracle ops precomp / split /
// rshx) and an independent math/big evaluation of what the function is for.
// Also here: checkAPI, the judgement of the byte-string API (Multiply / BaseMultiply / BaseMultiplyAdd) including results
// equal to the identity.
package main

import (
	"encoding/hex"
	"fmt"
	"math/big"
	"strconv"
	"strings"

	secp "github.com/piotrnar/gocoin/lib/secp256k1"
	"verif/vlib"
)

// checkAPI judges one call of the public byte-string API against the reference point `want`:
//   - a panic is a property failure (never a crash of the harness);
//   - want finite: the call must report success and write the compressed encoding of want;
//   - want = ∞ (scalars 0, n, 2n…, P + k·G = ∞): the observable of the property is "bytes and Infinity flags"; the only
//     carrier of the flag in this API is the boolean result, so the call must report failure — `true` together with 33
//     bytes that read as a public key is a wrong answer.
//     (The code did exactly that until /repo fix 6fd2a4a3 — the former known findings api-*-identity; the keys are kept so
//     that a regression is reported under the same name. api.go runs the same judgement on byte-string operands.)
func checkAPI(name, call string, want pt, c *caseRec, f func(out []byte) bool) bool {
	out33 := make([]byte, 33)
	var ok bool
	if pan := guard(func() { ok = f(out33) }); pan != "" {
		propFail("api-panic:"+name, fmt.Sprintf("%s panics: %s", call, pan), c)
		return false
	}
	if want.inf {
		r.Hit("api/" + name + "-identity")
		if ok {
			// recorded, and the case goes on (the model-vs-code comparison of the underlying ECmult / ECmultGen result,
			// Infinity flag included, must not be skipped because the byte API above it is wrong)
			propFail("api-"+name+"-identity", fmt.Sprintf("%s = true with the bytes %x, but the result is the point at infinity: the API reports success and hands out stale coordinates that read as a public key", call, out33), c)
		} else {
			r.Hit("api/" + name + "-identity-refused")
		}
		return true
	}
	r.Hit("api/" + name + "-finite")
	if !ok || out33[0] != byte(2+want.y.Bit(0)) || hex.EncodeToString(out33[1:]) != hex.EncodeToString(b32(want.x)) {
		propFail("api-"+name, fmt.Sprintf("%s = %v %x, group law gives %s", call, ok, out33, want), c)
		return false
	}
	return true
}

func bitsClass(bits int) string {
	switch {
	case bits == 0:
		return "bits0"
	case bits%64 == 0:
		return "bits-word-aligned"
	}
	return "bits-partial-word"
}

// runDirect: one precomp / split / rshx case. ok=false = malformed line.
func runDirect(op string, t []string, line string, c *caseRec) (impl, pan string, prop func() bool, ok bool) {
	switch op {
	case "precomp":
		if len(t) != 6 {
			return
		}
		a, ok1 := parseXYZ(t[1:5])
		w, err := strconv.Atoi(t[5])
		if !ok1 || err != nil || w < 2 || w > 10 {
			return
		}
		g := a.goXYZ()
		var pre []secp.XYZ
		pan = guard(func() { pre = g.VerifPrecompXYZ(w) })
		parts := make([]string, len(pre))
		res := make([]xyz, len(pre))
		for i := range pre {
			res[i] = xyzOf(&pre[i])
			parts[i] = res[i].String()
		}
		impl = strings.Join(parts, " | ")
		r.Hit(fmt.Sprintf("precomp/w%d", w))
		if ap, on := a.ref(); on && a.inContract() {
			if a.inf {
				r.Hit("precomp/operand-inf")
			} else {
				hitMags("precomp", a)
			}
			prop = func() bool {
				if len(res) != 1<<uint(w-2) {
					propFail("precomp-length", fmt.Sprintf("%s: %d entries, want 2^(w-2) = %d", line, len(res), 1<<uint(w-2)), c)
					return false
				}
				// entry i is (2i+1)·A, every entry again an admissible operand (checkPoint incl. the SetXYZ+GetPublicKey observable)
				two := refDbl(ap)
				want := ap
				for i := range res {
					if !checkPoint(op, res[i], want, c) {
						return false
					}
					want = refAdd(want, two)
				}
				return true
			}
		}
		return impl, pan, prop, true
	case "split":
		if len(t) != 3 {
			return
		}
		n, ok1 := parseInt(t[1])
		bits, err := strconv.Atoi(t[2])
		if !ok1 || err != nil || n.Sign() < 0 || bits < 0 || bits > 4096 {
			return
		}
		a := numberOf(n)
		var rl, rh secp.Number
		pan = guard(func() { a.VerifSplit(&rl, &rh, uint(bits)) })
		impl = intHex(&rl.Int) + " " + intHex(&rh.Int)
		r.Hit("split/" + bitsClass(bits))
		switch {
		case n.Sign() == 0:
			r.Hit("split/zero")
		case n.BitLen() <= bits:
			r.Hit("split/number-shorter-than-bits")
		case n.BitLen() > bits+64:
			r.Hit("split/high-part-multiword")
		}
		if bits == 128 {
			r.Hit("split/bits128(ECmult)")
		}
		prop = func() bool {
			// independent: n = rl + rh·2^bits, 0 ≤ rl < 2^bits, rh ≥ 0; the receiver is not modified (mask_bits works in place
			// on the words of a COPY)
			back := new(big.Int).Lsh(&rh.Int, uint(bits))
			back.Add(back, &rl.Int)
			if back.Cmp(n) != 0 || rl.Int.Sign() < 0 || rl.Int.BitLen() > bits || rh.Int.Sign() < 0 {
				propFail("split", fmt.Sprintf("%s: low=%s high=%s is not the split of the number at bit %d", line, intHex(&rl.Int), intHex(&rh.Int), bits), c)
				return false
			}
			if a.Int.Cmp(n) != 0 {
				propFail("split-clobbers-receiver", fmt.Sprintf("%s: the receiver is %s after the call", line, intHex(&a.Int)), c)
				return false
			}
			return true
		}
		return impl, pan, prop, true
	case "rshx":
		if len(t) != 3 {
			return
		}
		n, ok1 := parseInt(t[1])
		bits, err := strconv.Atoi(t[2])
		if !ok1 || err != nil || bits < 1 || bits > 62 {
			return
		}
		a := numberOf(n)
		var word int
		pan = guard(func() { word = a.VerifRshX(uint(bits)) })
		impl = strconv.Itoa(word) + " " + intHex(&a.Int)
		switch {
		case n.Sign() < 0:
			r.Hit("rshx/negative")
		case n.Sign() == 0:
			r.Hit("rshx/zero")
		default:
			r.Hit("rshx/positive")
		}
		if n.BitLen() > 64 {
			r.Hit("rshx/multiword")
		}
		switch bits {
		case 4, secp.WINDOW_A, secp.WINDOW_G:
			r.Hit(fmt.Sprintf("rshx/bits%d(used)", bits))
		default:
			r.Hit("rshx/bits-other")
		}
		prop = func() bool {
			// independent: n = rest·2^bits + word with 0 ≤ word < 2^bits (floor division: two's-complement low bits,
			// arithmetic shift) — what ecmult_wnaf relies on for negative halves of the λ-split
			q, m := new(big.Int).DivMod(n, new(big.Int).Lsh(big1, uint(bits)), new(big.Int))
			if !m.IsInt64() || int64(word) != m.Int64() || a.Int.Cmp(q) != 0 {
				propFail("rshx", fmt.Sprintf("%s: returns word %d and leaves %s, two's complement gives %s and %s", line, word, intHex(&a.Int), m, intHex(q)), c)
				return false
			}
			return true
		}
		return impl, pan, prop, true
	}
	return
}

// directCases: corpus boundaries first, then random.
func directCases(g *vlib.Rng) {
	edges := edgeScalars()
	two := func(k uint) *big.Int { return new(big.Int).Lsh(big1, k) }
	// ---- split: every word/partial-word boundary around the numbers' lengths, 128 = ECmult's own call
	nums := append([]*big.Int{}, edges...)
	for _, k := range []uint{63, 64, 65, 127, 128, 129, 191, 192, 193, 255, 256, 257, 320} {
		nums = append(nums, two(k), new(big.Int).Sub(two(k), big1), new(big.Int).Add(two(k), big1))
	}
	bitsEdge := []int{0, 1, 4, 63, 64, 65, 127, 128, 129, 191, 192, 193, 255, 256, 257, 300, 512}
	for i, n := range nums {
		runCase(fmt.Sprintf("split %s 128", intHex(n)), "edge")
		runCase(fmt.Sprintf("split %s %d", intHex(n), bitsEdge[i%len(bitsEdge)]), "edge")
		if n.BitLen() > 0 { // exactly at, one below and one above the number's own length
			for _, d := range []int{-1, 0, 1} {
				if b := n.BitLen() + d; b >= 0 {
					runCase(fmt.Sprintf("split %s %d", intHex(n), b), "edge-own-length")
				}
			}
		}
	}
	for i := 0; i < r.N(150, 6000); i++ {
		n := genScalar(g, edges)
		if g.Chance(1, 4) {
			n = new(big.Int).Rsh(n, uint(g.Intn(256)))
		}
		if g.Chance(1, 8) {
			n = new(big.Int).Lsh(n, uint(g.Intn(130)))
		}
		b := 128
		if g.Bool() {
			b = bitsEdge[g.Intn(len(bitsEdge))]
		} else if g.Bool() {
			b = g.Intn(400)
		}
		runCase(fmt.Sprintf("split %s %d", intHex(n), b), "gen")
	}
	// ---- rsh_x: the three widths the library uses (comb nibble 4, WINDOW_A, WINDOW_G) and the extremes 1, 62, on both signs
	widths := []int{4, secp.WINDOW_A, secp.WINDOW_G, 1, 2, 31, 32, 33, 62}
	small := []int64{0, 1, 2, 7, 8, 15, 16, 17, 31, 32, 33, 1<<13 - 1, 1 << 13, 1<<14 - 1, 1 << 14, 1<<14 + 1}
	for _, v := range small {
		for _, w := range widths {
			runCase(fmt.Sprintf("rshx %s %d", intHex(big.NewInt(v)), w), "edge")
			runCase(fmt.Sprintf("rshx %s %d", intHex(big.NewInt(-v)), w), "edge-negative")
		}
	}
	for i, n := range nums {
		w := widths[i%len(widths)]
		runCase(fmt.Sprintf("rshx %s %d", intHex(n), w), "edge")
		runCase(fmt.Sprintf("rshx %s %d", intHex(new(big.Int).Neg(n)), w), "edge-negative")
	}
	for i := 0; i < r.N(200, 8000); i++ {
		n := genScalar(g, edges)
		switch g.Intn(4) {
		case 0: // what ECmult really feeds in: a half of the λ-split (either sign, ≤ 128 bits)
			nn := numberOf(n)
			var r1, r2 secp.Number
			nn.VerifSplitExp(&r1, &r2)
			n = new(big.Int).Set(&r1.Int)
			if g.Bool() {
				n = new(big.Int).Set(&r2.Int)
			}
		case 1:
			n = new(big.Int).Neg(n)
		case 2:
			n = new(big.Int).Rsh(n, uint(g.Intn(256)))
			if g.Bool() {
				n.Neg(n)
			}
		}
		w := widths[g.Intn(3)]
		if g.Chance(1, 3) {
			w = 1 + g.Intn(62)
		}
		runCase(fmt.Sprintf("rshx %s %d", intHex(n), w), "gen")
	}
	// ---- precomp: fixed points (incl. ∞), every admissible magnitude, windows 2..6 (5 = WINDOW_A), 8 in the thorough tier
	G := refG
	fixed := []pt{refInf, G, refDbl(G), refNeg(G), refMul(big3, G), refMul(new(big.Int).Sub(refN, big1), G), refMul(refLambda, G)}
	for _, p := range fixed {
		for _, w := range []int{2, 3, secp.WINDOW_A} {
			runCase(fmt.Sprintf("precomp %s %d", jac(g, p, false), w), "fixed")
			runCase(fmt.Sprintf("precomp %s %d", jac(g, p, true), w), "fixed-denorm")
		}
	}
	for m := 1; m <= 8; m++ { // un-normalised operand kept as pre[0] and doubled: value + k·p with the largest k of magnitude m
		runCase(fmt.Sprintf("precomp %s %d", jacMag(g, randPoint(g), m, m, m, m%2 == 0), secp.WINDOW_A), "wide-mag")
	}
	for i := 0; i < r.N(40, 1500); i++ {
		p := randPoint(g)
		w := secp.WINDOW_A
		switch g.Intn(6) {
		case 0:
			w = 2 + g.Intn(5)
		case 1:
			if r.Thorough() {
				w = 8
			}
		}
		var a xyz
		if g.Bool() {
			a = jacWide(g, p, 8, 8, 8)
		} else {
			a = jac(g, p, g.Bool())
		}
		runCase(fmt.Sprintf("precomp %s %d", a, w), "gen")
	}
	r.Sample(map[string]string{"line": fmt.Sprintf("precomp %s %d", jac(g, G, false), secp.WINDOW_A)})
}
