// ref.go — independent big-integer reference for C08: F_p arithmetic and the secp256k1 group law
// written from the textbook definitions with math/big (nothing shared with gocoin's code).
package main

import (
	"fmt"
	"math/big"
	"strings"
)

func bigHex(s string) *big.Int {
	v, ok := new(big.Int).SetString(s, 16)
	if !ok {
		panic("bad hex " + s)
	}
	return v
}

var (
	refP      = bigHex("FFFFFFFFFFFFFFFFFFFFFFFFFFFFFFFFFFFFFFFFFFFFFFFFFFFFFFFEFFFFFC2F")
	refN      = bigHex("FFFFFFFFFFFFFFFFFFFFFFFFFFFFFFFEBAAEDCE6AF48A03BBFD25E8CD0364141")
	refGx     = bigHex("79BE667EF9DCBBAC55A06295CE870B07029BFCDB2DCE28D959F2815B16F81798")
	refGy     = bigHex("483ADA7726A3C4655DA4FBFC0E1108A8FD17B448A68554199C47D08FFB10D4B8")
	refLambda = bigHex("5363AD4CC05C30E0A5261C028812645A122E22EA20816678DF02967C1B23BD72")
	refBeta   = bigHex("7AE96A2B657C07106E64479EAC3434E99CF0497512F58995C1396C28719501EE")
	big0      = big.NewInt(0)
	big1      = big.NewInt(1)
	big2      = big.NewInt(2)
	big3      = big.NewInt(3)
	big7      = big.NewInt(7)
)

type pt struct {
	x, y *big.Int
	inf  bool
}

var refInf = pt{inf: true}
var refG = pt{x: refGx, y: refGy}

func modP(v *big.Int) *big.Int { return new(big.Int).Mod(v, refP) }

func (a pt) eq(b pt) bool {
	if a.inf || b.inf {
		return a.inf == b.inf
	}
	return a.x.Cmp(b.x) == 0 && a.y.Cmp(b.y) == 0
}

func (a pt) String() string {
	if a.inf {
		return "inf"
	}
	return fmt.Sprintf("(%x,%x)", a.x, a.y)
}

func refOnCurve(a pt) bool {
	if a.inf {
		return true
	}
	l := modP(new(big.Int).Mul(a.y, a.y))
	r := new(big.Int).Mul(a.x, a.x)
	r.Mul(r, a.x)
	r.Add(r, big7)
	return l.Cmp(modP(r)) == 0
}

func refNeg(a pt) pt {
	if a.inf {
		return a
	}
	return pt{x: a.x, y: modP(new(big.Int).Neg(a.y))}
}

func refDbl(a pt) pt {
	if a.inf || a.y.Sign() == 0 {
		return refInf
	}
	num := new(big.Int).Mul(a.x, a.x)
	num.Mul(num, big3)
	den := new(big.Int).ModInverse(modP(new(big.Int).Mul(a.y, big2)), refP)
	l := modP(num.Mul(num, den))
	x3 := new(big.Int).Mul(l, l)
	x3.Sub(x3, a.x)
	x3.Sub(x3, a.x)
	x3 = modP(x3)
	y3 := new(big.Int).Sub(a.x, x3)
	y3.Mul(y3, l)
	y3.Sub(y3, a.y)
	return pt{x: x3, y: modP(y3)}
}

func refAdd(a, b pt) pt {
	if a.inf {
		return b
	}
	if b.inf {
		return a
	}
	if a.x.Cmp(b.x) == 0 {
		if a.y.Cmp(b.y) == 0 {
			return refDbl(a)
		}
		return refInf
	}
	num := new(big.Int).Sub(b.y, a.y)
	den := new(big.Int).ModInverse(modP(new(big.Int).Sub(b.x, a.x)), refP)
	l := modP(num.Mul(num, den))
	x3 := new(big.Int).Mul(l, l)
	x3.Sub(x3, a.x)
	x3.Sub(x3, b.x)
	x3 = modP(x3)
	y3 := new(big.Int).Sub(a.x, x3)
	y3.Mul(y3, l)
	y3.Sub(y3, a.y)
	return pt{x: x3, y: modP(y3)}
}

// refMul: k·a for any integer k (negative allowed), plain double-and-add.
func refMul(k *big.Int, a pt) pt {
	if k.Sign() < 0 {
		return refMul(new(big.Int).Neg(k), refNeg(a))
	}
	r := refInf
	for i := k.BitLen() - 1; i >= 0; i-- {
		r = refDbl(r)
		if k.Bit(i) == 1 {
			r = refAdd(r, a)
		}
	}
	return r
}

// refSqrt returns a square root mod p or nil.
func refSqrt(a *big.Int) *big.Int {
	r := new(big.Int).ModSqrt(modP(a), refP)
	return r
}

// refLift returns the curve point with this x and the given parity of y (nil,false if none).
func refLift(x *big.Int, odd bool) (pt, bool) {
	if x.Cmp(refP) >= 0 {
		return pt{}, false
	}
	r := new(big.Int).Mul(x, x)
	r.Mul(r, x)
	r.Add(r, big7)
	y := refSqrt(r)
	if y == nil {
		return pt{}, false
	}
	if (y.Bit(0) == 1) != odd {
		y = modP(new(big.Int).Neg(y))
	}
	return pt{x: new(big.Int).Set(x), y: y}, true
}

func b32(v *big.Int) []byte {
	b := v.Bytes()
	if len(b) > 32 {
		b = b[len(b)-32:]
	}
	return append(make([]byte, 32-len(b)), b...)
}

func hexS(v *big.Int) string {
	s := v.Text(16)
	return strings.ToLower(s)
}
