// c08 — correspondence harness + property evaluation for C08 (secp256k1 field and group arithmetic).
//
// Every case is ONE request line of the oracle protocol (see lean/Oracle/C08.lean). For a line the
// harness (1) runs the REAL gocoin code on the inputs the line encodes (raw limbs through the
// verif-tagged accessors), (2) asks the Lean model (generated limb functions + hand group model) the
// same line and compares limb-for-limb, (3) evaluates the PROPERTY on the real code's result against
// an independent math/big reference (ref.go): value mod p of field results, the secp256k1 group law
// for point results, observed as normalised big-endian bytes / Infinity flags.
// The case kinds decompress / parsepub / xonly (DecompressPoint, ParsePubkey 02/03, ParseXOnlyPubkey) are
// the byte-level twins / callers of XY.SetXO: the model side is the oracle's `setxo` on the limbs SetB32
// produces, the property side is the math/big lift (refLift).
package main

import (
	"encoding/hex"
	"encoding/json"
	"fmt"
	"math/big"
	"os"
	"strconv"
	"strings"

	secp "github.com/piotrnar/gocoin/lib/secp256k1"
	"verif/vlib"
)

var r *vlib.Run
var o *vlib.Oracle

type fe [5]uint64

const limbM = uint64(0xFFFFFFFFFFFFF)
const limbM4 = uint64(0x0FFFFFFFFFFFF)

func (a fe) String() string {
	return fmt.Sprintf("%x:%x:%x:%x:%x", a[0], a[1], a[2], a[3], a[4])
}

func parseFe(s string) (fe, bool) {
	var a fe
	p := strings.Split(s, ":")
	if len(p) != 5 {
		return a, false
	}
	for i := range p {
		v, err := strconv.ParseUint(p[i], 16, 64)
		if err != nil {
			return a, false
		}
		a[i] = v
	}
	return a, true
}

func (a fe) field() (f secp.Field) { f.VerifSetLimbs(a); return }
func limbsOf(f *secp.Field) fe     { return fe(f.VerifLimbs()) }

// val: the integer the limbs stand for
func (a fe) val() *big.Int {
	v := new(big.Int)
	for i := 4; i >= 0; i-- {
		v.Lsh(v, 52)
		v.Add(v, new(big.Int).SetUint64(a[i]))
	}
	return v
}

// mag: least m ≥ 1 with limbs ≤ 2m·(2^52-1) (2m·(2^48-1) for the top limb); 0 for canonical limbs
func (a fe) mag() int {
	if a[0] <= limbM && a[1] <= limbM && a[2] <= limbM && a[3] <= limbM && a[4] <= limbM4 {
		return 0
	}
	m := uint64(1)
	for i := 0; i < 5; i++ {
		mx := limbM
		if i == 4 {
			mx = limbM4
		}
		need := (a[i] + 2*mx - 1) / (2 * mx)
		if a[i] > ^uint64(0)-2*mx {
			need = 1 << 20
		}
		if need > m {
			m = need
		}
	}
	if m > 1<<20 {
		m = 1 << 20
	}
	return int(m)
}

func magAtMost(a fe, m int) bool { g := a.mag(); return g <= m }

func feOfBig(v *big.Int) fe { // canonical limbs of v mod 2^256
	var a fe
	t := new(big.Int).Set(v)
	mask := new(big.Int).SetUint64(limbM)
	for i := 0; i < 5; i++ {
		a[i] = new(big.Int).And(t, mask).Uint64()
		t.Rsh(t, 52)
	}
	a[4] &= limbM4
	return a
}

// observe: the property's observable — Normalize then GetB32 on the real code
func observe(a fe) []byte {
	f := a.field()
	f.Normalize()
	out := make([]byte, 32)
	f.GetB32(out)
	return out
}

type xyz struct {
	x, y, z fe
	inf     bool
}
type xy struct {
	x, y fe
	inf  bool
}

func b01(b bool) string {
	if b {
		return "1"
	}
	return "0"
}
func (a xyz) String() string { return fmt.Sprintf("%s %s %s %s", a.x, a.y, a.z, b01(a.inf)) }
func (a xy) String() string  { return fmt.Sprintf("%s %s %s", a.x, a.y, b01(a.inf)) }

func parseXYZ(t []string) (a xyz, ok bool) {
	if len(t) != 4 {
		return
	}
	var o1, o2, o3 bool
	a.x, o1 = parseFe(t[0])
	a.y, o2 = parseFe(t[1])
	a.z, o3 = parseFe(t[2])
	a.inf = t[3] == "1"
	return a, o1 && o2 && o3 && (t[3] == "0" || t[3] == "1")
}
func parseXY(t []string) (a xy, ok bool) {
	if len(t) != 3 {
		return
	}
	var o1, o2 bool
	a.x, o1 = parseFe(t[0])
	a.y, o2 = parseFe(t[1])
	a.inf = t[2] == "1"
	return a, o1 && o2 && (t[2] == "0" || t[2] == "1")
}
func (a xyz) goXYZ() (g secp.XYZ) {
	g.X, g.Y, g.Z, g.Infinity = a.x.field(), a.y.field(), a.z.field(), a.inf
	return
}
func (a xy) goXY() (g secp.XY) {
	g.X, g.Y, g.Infinity = a.x.field(), a.y.field(), a.inf
	return
}
func xyzOf(g *secp.XYZ) xyz { return xyz{limbsOf(&g.X), limbsOf(&g.Y), limbsOf(&g.Z), g.Infinity} }
func xyOf(g *secp.XY) xy    { return xy{limbsOf(&g.X), limbsOf(&g.Y), g.Infinity} }

// affine reference point of Jacobian limbs (independent of gocoin): x = X/Z², y = Y/Z³ mod p
func (a xyz) ref() (pt, bool) {
	if a.inf {
		return refInf, true
	}
	z := modP(a.z.val())
	if z.Sign() == 0 {
		return pt{}, false
	}
	zi := new(big.Int).ModInverse(z, refP)
	zi2 := modP(new(big.Int).Mul(zi, zi))
	zi3 := modP(new(big.Int).Mul(zi2, zi))
	p := pt{x: modP(new(big.Int).Mul(a.x.val(), zi2)), y: modP(new(big.Int).Mul(a.y.val(), zi3))}
	return p, refOnCurve(p)
}
func (a xy) ref() (pt, bool) {
	if a.inf {
		return refInf, true
	}
	p := pt{x: modP(a.x.val()), y: modP(a.y.val())}
	return p, refOnCurve(p)
}

// group-layer input contract = what the Go functions admit: every coordinate goes into Field.Mul / Field.Sqr
// (magnitude ≤ 8) somewhere in Double / Add / AddXY / mul_lambda / SetXYZ / IsValid / ECmult, and nothing
// narrower is required anywhere (the library's own outputs have X ≤ 6, Y ≤ 4, Z ≤ 2 — a subset).
func (a xyz) inContract() bool {
	return magAtMost(a.x, 8) && magAtMost(a.y, 8) && magAtMost(a.z, 8)
}
func (a xy) inContract() bool { return magAtMost(a.x, 8) && magAtMost(a.y, 8) }

// XYZ.Neg / XY.Neg only copy X (and Z) and Normalize Y before Negate(1): Y is admitted up to Normalize's own
// contract (magnitude ≤ 32); X and Z ≤ 8 so that the result can be handed on (and observed through SetXYZ).
func (a xyz) inNegContract() bool {
	return magAtMost(a.x, 8) && magAtMost(a.y, 32) && magAtMost(a.z, 8)
}
func (a xy) inNegContract() bool { return magAtMost(a.x, 8) && magAtMost(a.y, 32) }

func parseInt(s string) (*big.Int, bool) {
	v, ok := new(big.Int).SetString(s, 16)
	return v, ok
}
func intHex(v *big.Int) string { return v.Text(16) }

func numberOf(v *big.Int) (n secp.Number) { n.Int.Set(v); return }

type caseRec struct {
	Line   string `json:"line"`
	Origin string `json:"origin"`
	Impl   string `json:"impl"`
	Model  string `json:"model"`
}

// guarded call of real code
func guard(f func()) (pan string) {
	defer func() {
		if x := recover(); x != nil {
			pan = fmt.Sprint(x)
		}
	}()
	f()
	return
}

func propFail(key, what string, c *caseRec) { r.PropFail(key, what, c) }

// checkFeValue: property for a field result — limbs' value ≡ want (mod p), magnitude ≤ mag, and
// the observable (Normalize+GetB32 of the real code) equals want mod p as 32 bytes.
func checkFeValue(op string, res fe, want *big.Int, mag int, c *caseRec) bool {
	w := modP(want)
	if modP(res.val()).Cmp(w) != 0 {
		propFail("field-value:"+op, fmt.Sprintf("%s: result limbs %s stand for %x (mod p), arithmetic mod p gives %x", c.Line, res, modP(res.val()), w), c)
		return false
	}
	if !magAtMost(res, mag) {
		propFail("field-magnitude:"+op, fmt.Sprintf("%s: result limbs %s exceed magnitude %d", c.Line, res, mag), c)
		return false
	}
	if ob := observe(res); hex.EncodeToString(ob) != hex.EncodeToString(b32(w)) {
		propFail("field-observe:"+op, fmt.Sprintf("%s: Normalize+GetB32 of the result gives %x, arithmetic mod p gives %x", c.Line, ob, b32(w)), c)
		return false
	}
	return true
}

// checkPoint: property for a Jacobian result against the reference point
func checkPoint(op string, res xyz, want pt, c *caseRec) bool {
	if res.inf != want.inf {
		propFail("group-infinity:"+op, fmt.Sprintf("%s: Infinity=%v, group law gives %s", c.Line, res.inf, want), c)
		return false
	}
	if res.inf {
		return true
	}
	got, on := res.ref()
	if !on || !got.eq(want) {
		propFail("group-value:"+op, fmt.Sprintf("%s: result is %s, group law gives %s", c.Line, got, want), c)
		return false
	}
	// the result must itself be an admissible operand (every coordinate within what Mul/Sqr accept)
	if !res.inContract() {
		propFail("group-magnitude:"+op, fmt.Sprintf("%s: result limbs %s exceed magnitude 8 (cannot be fed to the next group operation)", c.Line, res), c)
		return false
	}
	// observable: XY.SetXYZ + GetPublicKey of the real code
	g := res.goXYZ()
	var pk secp.XY
	var out [65]byte
	if pan := guard(func() { pk.SetXYZ(&g); pk.GetPublicKey(out[:]) }); pan != "" {
		propFail("group-observe-panic:"+op, fmt.Sprintf("%s: SetXYZ/GetPublicKey panics: %s", c.Line, pan), c)
		return false
	}
	if hex.EncodeToString(out[1:33]) != hex.EncodeToString(b32(want.x)) || hex.EncodeToString(out[33:]) != hex.EncodeToString(b32(want.y)) {
		propFail("group-observe:"+op, fmt.Sprintf("%s: SetXYZ+GetPublicKey gives %x, group law gives %s", c.Line, out[1:], want), c)
		return false
	}
	return true
}

func digitsStr(d []int) string {
	if len(d) == 0 {
		return "-"
	}
	s := make([]string, len(d))
	for i, v := range d {
		s[i] = strconv.Itoa(v)
	}
	return strings.Join(s, ",")
}

// runCase executes one protocol line on the real code, the model and the reference.
func runCase(line, origin string) {
	t := strings.Fields(line)
	if len(t) == 0 {
		return
	}
	op := t[0]
	switch op {
	case "hist": // a history of calls on one file of objects (history.go)
		runHist(line, origin)
		return
	case "conc": // several callers at once, nothing shared (concurrent.go)
		runConcLine(line, origin)
		return
	}
	c := &caseRec{Line: line, Origin: origin}
	r.Eval(op+"/"+origin, line)
	impl := ""
	var prop func() bool // evaluated after the tie comparison, on the real code's result
	bad := func() { fmt.Fprintln(os.Stderr, "harness: malformed case line:", line); os.Exit(3) }
	fe1 := func(i int) fe {
		a, ok := parseFe(t[i])
		if !ok {
			bad()
		}
		return a
	}
	u64 := func(i int) uint64 {
		v, err := strconv.ParseUint(t[i], 16, 64)
		if err != nil {
			bad()
		}
		return v
	}
	pan := ""
	ask := line                      // the oracle request (differs from the case line for the twins of setxo)
	var mapModel func(string) string // renders the oracle's reply in the form of impl
	switch op {
	case "norm":
		a := fe1(1)
		f := a.field()
		pan = guard(func() { f.Normalize() })
		res := limbsOf(&f)
		impl = res.String()
		if magAtMost(a, 32) {
			r.Hit(fmt.Sprintf("norm/mag%d", a.mag()))
			prop = func() bool {
				if res.mag() != 0 || res.val().Cmp(refP) >= 0 {
					propFail("field-normalize-canonical", fmt.Sprintf("%s: Normalize result %s is not canonical (< p, 52-bit limbs)", line, res), c)
					return false
				}
				return checkFeValue(op, res, a.val(), 1, c)
			}
		}
	case "add":
		a, b := fe1(1), fe1(2)
		f, g := a.field(), b.field()
		pan = guard(func() { f.SetAdd(&g) })
		res := limbsOf(&f)
		impl = res.String()
		ma, mb := max(a.mag(), 1), max(b.mag(), 1)
		if ma+mb <= 32 {
			prop = func() bool { return checkFeValue(op, res, new(big.Int).Add(a.val(), b.val()), ma+mb, c) }
		}
	case "mulint":
		a, k := fe1(1), u64(2)
		f := a.field()
		pan = guard(func() { f.MulInt(k) })
		res := limbsOf(&f)
		impl = res.String()
		ma := max(a.mag(), 1)
		if k <= 32 && ma*int(k) <= 32 {
			prop = func() bool {
				return checkFeValue(op, res, new(big.Int).Mul(a.val(), new(big.Int).SetUint64(k)), max(ma*int(k), 1), c)
			}
		}
	case "neg":
		a, m := fe1(1), u64(2)
		f := a.field()
		var out secp.Field
		pan = guard(func() { f.Negate(&out, m) })
		res := limbsOf(&out)
		impl = res.String()
		// aliasing form a.Negate(&a, m) must agree
		f2 := a.field()
		guard(func() { f2.Negate(&f2, m) })
		if limbsOf(&f2) != res {
			propFail("field-alias:neg", fmt.Sprintf("%s: a.Negate(&a,m) gives %s, a.Negate(&r,m) gives %s", line, limbsOf(&f2), res), c)
		}
		if m <= 31 && magAtMost(a, int(m)) {
			prop = func() bool { return checkFeValue(op, res, new(big.Int).Neg(a.val()), int(m)+1, c) }
		}
	case "mul", "sqr":
		a := fe1(1)
		b := a
		if op == "mul" {
			b = fe1(2)
		}
		f, g := a.field(), b.field()
		var out secp.Field
		pan = guard(func() {
			if op == "mul" {
				f.Mul(&out, &g)
			} else {
				f.Sqr(&out)
			}
		})
		res := limbsOf(&out)
		impl = res.String()
		// aliasing forms
		f2, g2 := a.field(), b.field()
		guard(func() {
			if op == "mul" {
				f2.Mul(&f2, &g2)
			} else {
				f2.Sqr(&f2)
			}
		})
		if limbsOf(&f2) != res {
			propFail("field-alias:"+op, fmt.Sprintf("%s: result written over the operand gives %s instead of %s", line, limbsOf(&f2), res), c)
		}
		if op == "mul" {
			f3, g3 := a.field(), b.field()
			guard(func() { f3.Mul(&g3, &g3) })
			if limbsOf(&g3) != res {
				propFail("field-alias:mul-b", fmt.Sprintf("%s: a.Mul(&b,&b) gives %s instead of %s", line, limbsOf(&g3), res), c)
			}
		}
		if magAtMost(a, 8) && magAtMost(b, 8) {
			r.Hit(fmt.Sprintf("%s/mag%d-%d", op, a.mag(), b.mag()))
			prop = func() bool { return checkFeValue(op, res, new(big.Int).Mul(a.val(), b.val()), 1, c) }
		}
	case "inv", "sqrt", "invvar":
		a := fe1(1)
		f := a.field()
		var out secp.Field
		pan = guard(func() {
			switch op {
			case "inv":
				f.Inv(&out)
			case "sqrt":
				f.Sqrt(&out)
			default:
				f.InvVar(&out)
			}
		})
		res := limbsOf(&out)
		impl = res.String()
		if magAtMost(a, 8) {
			prop = func() bool {
				av := modP(a.val())
				switch op {
				case "inv", "invvar":
					want := new(big.Int)
					if av.Sign() != 0 {
						want.ModInverse(av, refP)
					}
					return checkFeValue(op, res, want, 1, c)
				default:
					rt := refSqrt(av)
					if rt == nil {
						r.Hit("sqrt/non-residue")
						// no square root exists: the result must NOT square to a (this is what callers test)
						if modP(new(big.Int).Mul(res.val(), res.val())).Cmp(av) == 0 {
							propFail("field-sqrt-nonresidue", line+": non-residue has a 'root'", c)
							return false
						}
						return true
					}
					r.Hit("sqrt/residue")
					if modP(new(big.Int).Mul(res.val(), res.val())).Cmp(av) != 0 {
						propFail("field-value:sqrt", fmt.Sprintf("%s: result² = %x ≠ a = %x (a is a residue)", line, modP(new(big.Int).Mul(res.val(), res.val())), av), c)
						return false
					}
					return magAtMost(res, 1)
				}
			}
		}
	case "setb32":
		b, err := hex.DecodeString(t[1])
		if err != nil || len(b) != 32 {
			bad()
		}
		var f secp.Field
		pan = guard(func() { f.SetB32(b) })
		res := limbsOf(&f)
		impl = res.String()
		prop = func() bool {
			if res.mag() != 0 || res.val().Cmp(new(big.Int).SetBytes(b)) != 0 {
				propFail("field-setb32", fmt.Sprintf("%s: limbs %s are not the canonical limbs of the bytes", line, res), c)
				return false
			}
			f2 := res.field()
			back := make([]byte, 32)
			f2.GetB32(back)
			if hex.EncodeToString(back) != t[1] {
				propFail("field-roundtrip-b32", fmt.Sprintf("%s: GetB32(SetB32(b)) = %x", line, back), c)
				return false
			}
			return true
		}
	case "getb32":
		a := fe1(1)
		f := a.field()
		out := make([]byte, 32)
		pan = guard(func() { f.GetB32(out) })
		impl = vlib.Hex(out)
		if a.mag() == 0 {
			prop = func() bool {
				if new(big.Int).SetBytes(out).Cmp(a.val()) != 0 {
					propFail("field-getb32", fmt.Sprintf("%s: bytes %x are not the big-endian value of the canonical limbs", line, out), c)
					return false
				}
				var f2 secp.Field
				f2.SetB32(out)
				if limbsOf(&f2) != a {
					propFail("field-roundtrip-limbs", fmt.Sprintf("%s: SetB32(GetB32(a)) = %s", line, limbsOf(&f2)), c)
					return false
				}
				return true
			}
		}
	case "setint":
		k := u64(1)
		var f secp.Field
		pan = guard(func() { f.SetInt(k) })
		impl = limbsOf(&f).String()
	case "iszero", "isodd":
		a := fe1(1)
		f := a.field()
		var res bool
		pan = guard(func() {
			if op == "iszero" {
				res = f.IsZero()
			} else {
				res = f.IsOdd()
			}
		})
		impl = b01(res)
		if a.mag() == 0 && a.val().Cmp(refP) < 0 {
			prop = func() bool {
				want := a.val().Sign() == 0
				if op == "isodd" {
					want = a.val().Bit(0) == 1
				}
				if res != want {
					propFail("field-"+op, fmt.Sprintf("%s: %v on a normalised element of value %x", line, res, a.val()), c)
					return false
				}
				return true
			}
		}
	case "equals":
		a, b := fe1(1), fe1(2)
		f, g := a.field(), b.field()
		var res bool
		pan = guard(func() { res = f.Equals(&g) })
		impl = b01(res)
		if a.mag() == 0 && b.mag() == 0 && a.val().Cmp(refP) < 0 && b.val().Cmp(refP) < 0 {
			prop = func() bool {
				if res != (a.val().Cmp(b.val()) == 0) {
					propFail("field-equals", line+": Equals disagrees with equality of values on normalised elements", c)
					return false
				}
				return true
			}
		}
	case "const":
		order, half, p, lam, a1b2, b1, a2, g, beta := secp.VerifCurve()
		var v *big.Int
		var want *big.Int
		gx, gy := limbsOf(&g.X), limbsOf(&g.Y)
		bt := limbsOf(&beta)
		switch t[1] {
		case "order":
			v, want = new(big.Int).SetBytes(order), refN
		case "halforder":
			v, want = new(big.Int).SetBytes(half), new(big.Int).Rsh(refN, 1)
		case "p":
			v, want = new(big.Int).SetBytes(p), refP
		case "lambda":
			v, want = new(big.Int).SetBytes(lam), refLambda
		case "a1b2":
			v = new(big.Int).SetBytes(a1b2)
		case "b1":
			v = new(big.Int).SetBytes(b1)
		case "a2":
			v = new(big.Int).SetBytes(a2)
		case "gx":
			v, want = gx.val(), refGx
		case "gy":
			v, want = gy.val(), refGy
		case "beta":
			v, want = bt.val(), refBeta
		case "window_a":
			v = big.NewInt(secp.WINDOW_A)
		case "window_g":
			v = big.NewInt(secp.WINDOW_G)
		default:
			bad()
		}
		impl = v.Text(16)
		if want != nil {
			prop = func() bool {
				if v.Cmp(want) != 0 {
					propFail("const:"+t[1], fmt.Sprintf("curve constant %s = %x, secp256k1 defines %x", t[1], v, want), c)
					return false
				}
				return true
			}
		}
	case "tablen":
		impl = strconv.Itoa(secp.VerifTableLen(t[1]))
	case "tab":
		i, err := strconv.Atoi(t[2])
		if err != nil {
			bad()
		}
		n := secp.VerifTableLen(t[1])
		if n < 0 {
			bad()
		}
		if i >= n {
			impl = "none"
			break
		}
		e := secp.VerifTableEntry(t[1], i)
		ent := xyOf(&e)
		impl = fmt.Sprintf("%s %s", ent.x, ent.y)
		prop = func() bool {
			want := tableRef(t[1], i)
			got, on := ent.ref()
			if ent.inf || !on || !got.eq(want) {
				propFail(fmt.Sprintf("table:%s[%d]", t[1], i), fmt.Sprintf("table entry %s[%d] is %s, the multiple of G it stands for is %s", t[1], i, got, want), c)
				return false
			}
			if !ent.inContract() {
				propFail(fmt.Sprintf("table-mag:%s[%d]", t[1], i), fmt.Sprintf("table entry %s[%d] has limbs beyond magnitude 2", t[1], i), c)
				return false
			}
			return true
		}
	case "dbl", "negj", "mullam", "setxyz", "setxyzarg":
		a, ok := parseXYZ(t[1:])
		if !ok {
			bad()
		}
		g := a.goXYZ()
		var out secp.XYZ
		var outA secp.XY
		pan = guard(func() {
			switch op {
			case "dbl":
				g.Double(&out)
			case "negj":
				g.Neg(&out)
			case "mullam":
				g.VerifMulLambda(&out)
			case "setxyz", "setxyzarg":
				outA.SetXYZ(&g)
			}
		})
		if op == "setxyzarg" { // what SetXYZ leaves in its ARGUMENT (the one call that rewrites an operand: rescaled, Z = 1)
			res := xyzOf(&g)
			impl = res.String()
			if ap, on := a.ref(); on && a.inContract() {
				prop = func() bool {
					if !operandKept("setxyz", "Jacobian argument", a, &g, c) {
						return false
					}
					// the same object converted a second time (the caller publishes it twice) and used as an operand
					var again secp.XY
					var sum secp.XYZ
					if p2 := guard(func() { again.SetXYZ(&g); g.AddXY(&sum, &outA) }); p2 != "" {
						propFail("group-operand:setxyz", fmt.Sprintf("%s: using the argument again after SetXYZ panics: %s", line, p2), c)
						return false
					}
					first, second := xyOf(&outA), xyOf(&again)
					fp, _ := first.ref()
					sp, on2 := second.ref()
					if first.inf != second.inf || (!first.inf && (!on2 || !fp.eq(sp) || !second.inContract())) {
						propFail("group-operand:setxyz", fmt.Sprintf("%s: converting the same XYZ twice gives %s first and %s the second time", line, first, second), c)
						return false
					}
					if !a.inf {
						return checkPoint("setxyz-then-addxy", xyzOf(&sum), refDbl(ap), c)
					}
					return true
				}
			}
			break
		}
		if op == "setxyz" {
			defer runCase("setxyzarg "+a.String(), origin)
			res := xyOf(&outA)
			impl = res.String()
			// the result is a function of the operand alone: a receiver that held something else before (the OTHER value of
			// the Infinity flag, arbitrary coordinates) must end up with the operand's flag and the same coordinates
			// (a reused XY variable: P + (−P) = ∞ first, a finite point afterwards)
			if a.inContract() {
				g2 := a.goXYZ()
				dirty := secp.XY{Infinity: !a.inf}
				dirty.X.SetInt(7)
				dirty.Y.SetInt(11)
				if p2 := guard(func() { dirty.SetXYZ(&g2) }); p2 != "" {
					propFail("group-setxyz-receiver", fmt.Sprintf("%s: SetXYZ into a used receiver panics: %s", line, p2), c)
				} else if d := xyOf(&dirty); d.inf != a.inf || (!a.inf && d != res) {
					propFail("group-setxyz-receiver", fmt.Sprintf("%s: SetXYZ into a receiver that held Infinity=%v before gives %s (Infinity must be %v), into a fresh receiver %s: the result depends on what the receiver held", line, !a.inf, d, a.inf, res), c)
				} else {
					r.Hit("setxyz/used-receiver-agrees")
				}
			}
			if ap, on := a.ref(); on && a.inContract() && !a.inf {
				prop = func() bool {
					return checkFeValue("setxyz.x", res.x, ap.x, 1, c) && checkFeValue("setxyz.y", res.y, ap.y, 1, c)
				}
			}
			break
		}
		res := xyzOf(&out)
		impl = res.String()
		if op == "dbl" { // aliasing form r.Double(r)
			g2 := a.goXYZ()
			guard(func() { g2.Double(&g2) })
			if r2 := xyzOf(&g2); r2.inf != res.inf || (!res.inf && r2 != res) {
				propFail("group-alias:dbl", line+": r.Double(r) differs from a.Double(&r)", c)
			}
		}
		if a.inContract() && !operandKept(op, "operand", a, &g, c) {
			break
		}
		if ap, on := a.ref(); on && (a.inContract() || (op == "negj" && a.inNegContract())) {
			if op == "negj" {
				r.Hit(fmt.Sprintf("negj/ymag=%d", a.y.mag()))
			}
			prop = func() bool {
				switch op {
				case "dbl":
					return checkPoint(op, res, refDbl(ap), c)
				case "negj":
					return checkPoint(op, res, refNeg(ap), c)
				default:
					return checkPoint(op, res, refMul(refLambda, ap), c)
				}
			}
		}
	case "negxy": // XY.Neg (affine twin of XYZ.Neg; ECmult applies it to pre_g / pre_g_128 entries)
		a, ok := parseXY(t[1:])
		if !ok {
			bad()
		}
		ga := a.goXY()
		var out secp.XY
		pan = guard(func() { ga.Neg(&out) })
		res := xyOf(&out)
		impl = res.String()
		g2 := a.goXY()
		guard(func() { g2.Neg(&g2) })
		if r2 := xyOf(&g2); r2 != res {
			propFail("group-alias:negxy", line+": a.Neg(&a) differs from a.Neg(&r)", c)
		}
		if a.inContract() && !operandKeptXY(op, "operand", a, &ga, c) {
			break
		}
		if ap, on := a.ref(); on && a.inNegContract() {
			r.Hit(fmt.Sprintf("negxy/ymag=%d", a.y.mag()))
			prop = func() bool {
				want := refNeg(ap)
				if res.inf != want.inf {
					propFail("group-infinity:negxy", fmt.Sprintf("%s: Infinity=%v, group law gives %s", line, res.inf, want), c)
					return false
				}
				if res.inf {
					return true
				}
				got, on := res.ref()
				if !on || !got.eq(want) || !res.inContract() {
					propFail("group-value:negxy", fmt.Sprintf("%s: result is %s (limbs %s), group law gives %s", line, got, res, want), c)
					return false
				}
				k2 := res.goXY()
				var out65 [65]byte
				if pan := guard(func() { k2.GetPublicKey(out65[:]) }); pan != "" {
					propFail("group-observe-panic:negxy", fmt.Sprintf("%s: GetPublicKey panics: %s", line, pan), c)
					return false
				}
				if hex.EncodeToString(out65[1:33]) != hex.EncodeToString(b32(want.x)) || hex.EncodeToString(out65[33:]) != hex.EncodeToString(b32(want.y)) {
					propFail("group-observe:negxy", fmt.Sprintf("%s: GetPublicKey gives %x, group law gives %s", line, out65[1:], want), c)
					return false
				}
				return true
			}
		}
	case "add3":
		a, ok1 := parseXYZ(t[1:5])
		b, ok2 := parseXYZ(t[5:])
		if !ok1 || !ok2 {
			bad()
		}
		ga, gb := a.goXYZ(), b.goXYZ()
		var out secp.XYZ
		pan = guard(func() { ga.Add(&out, &gb) })
		res := xyzOf(&out)
		impl = res.String()
		g2, gb2 := a.goXYZ(), b.goXYZ()
		guard(func() { g2.Add(&g2, &gb2) })
		if r2 := xyzOf(&g2); r2.inf != res.inf || (!res.inf && r2 != res) {
			propFail("group-alias:add3", line+": r.Add(r,b) differs from a.Add(&r,b)", c)
		}
		ap, on1 := a.ref()
		bp, on2 := b.ref()
		if on1 && on2 && a.inContract() && b.inContract() {
			if !operandKept(op, "first operand", a, &ga, c) || !operandKept(op, "second operand", b, &gb, c) {
				break
			}
			r.Hit("add3/" + relClass(ap, bp))
			hitNoncanon(op, ap, bp, map[string]fe{"u1": rawU(a.x, b.z), "s1": rawS(a.y, b.z), "u2": rawU(b.x, a.z), "s2": rawS(b.y, a.z)})
			prop = func() bool { return checkPoint(op, res, refAdd(ap, bp), c) }
		}
	case "addxy":
		a, ok1 := parseXYZ(t[1:5])
		b, ok2 := parseXY(t[5:])
		if !ok1 || !ok2 {
			bad()
		}
		ga, gb := a.goXYZ(), b.goXY()
		var out secp.XYZ
		pan = guard(func() { ga.AddXY(&out, &gb) })
		res := xyzOf(&out)
		impl = res.String()
		g2 := a.goXYZ()
		guard(func() { g2.AddXY(&g2, &gb) })
		if r2 := xyzOf(&g2); r2.inf != res.inf || (!res.inf && r2 != res) {
			propFail("group-alias:addxy", line+": r.AddXY(r,b) differs from a.AddXY(&r,b)", c)
		}
		ap, on1 := a.ref()
		bp, on2 := b.ref()
		if on1 && on2 && a.inContract() && b.inContract() {
			if !operandKept(op, "Jacobian operand", a, &ga, c) || !operandKeptXY(op, "affine operand", b, &gb, c) {
				break
			}
			r.Hit("addxy/" + relClass(ap, bp))
			hitNoncanon(op, ap, bp, map[string]fe{"u2": rawU(b.x, a.z), "s2": rawS(b.y, a.z)})
			prop = func() bool { return checkPoint(op, res, refAdd(ap, bp), c) }
		}
	case "setxo":
		x := fe1(1)
		odd := t[2] == "1"
		f := x.field()
		var out secp.XY
		pan = guard(func() { out.SetXO(&f, odd) })
		res := xyOf(&out)
		impl = res.String()
		if magAtMost(x, 8) {
			prop = func() bool {
				want, ok := refLift(modP(x.val()), odd)
				if !ok {
					r.Hit("setxo/no-point")
					return true // no point with this x: nothing is promised (C03 covers the callers)
				}
				r.Hit("setxo/point")
				if noncanon(rawLiftSqrt(x)) {
					r.Hit("setxo:noncanon-sqrt")
				}
				got, _ := res.ref()
				if res.inf || !got.eq(want) || res.y.mag() != 0 {
					propFail("group-setxo", fmt.Sprintf("%s: lifted point %s, definition gives %s", line, got, want), c)
					return false
				}
				return true
			}
		}
	case "decompress": // DecompressPoint (ec.go), the byte-level twin of SetXO; model: setxo on the limbs SetB32 produces
		xb, err := hex.DecodeString(t[1])
		if err != nil || len(xb) != 32 || (t[2] != "0" && t[2] != "1") {
			bad()
		}
		odd := t[2] == "1"
		xv := new(big.Int).SetBytes(xb)
		yb := make([]byte, 32)
		pan = guard(func() { secp.DecompressPoint(xb, odd, yb) })
		impl = vlib.Hex(yb)
		ask = fmt.Sprintf("setxo %s %s", feOfBig(xv), b01(odd))
		mapModel = func(m string) string {
			mp, ok := parseXY(strings.Fields(m))
			if !ok || mp.y.mag() != 0 {
				return "unexpected:" + m
			}
			return vlib.Hex(b32(mp.y.val()))
		}
		prop = func() bool {
			want, ok := refLift(xv, odd)
			if !ok {
				r.Hit("decompress/no-point")
				return true // no point with this x (or x ≥ p): nothing is promised
			}
			r.Hit("decompress/point")
			if noncanon(rawLiftSqrt(feOfBig(xv))) {
				r.Hit("decompress:noncanon-sqrt")
			}
			if hex.EncodeToString(yb) != hex.EncodeToString(b32(want.y)) {
				propFail("group-decompress", fmt.Sprintf("%s: DecompressPoint gives y=%x, the root of x³+7 with the requested parity is %x", line, yb, want.y), c)
				return false
			}
			return true
		}
	case "parsepub", "xonly": // XY.ParsePubkey (02/03 keys) / XY.ParseXOnlyPubkey: the callers of SetXO
		pub, err := hex.DecodeString(t[1])
		if err != nil || (op == "parsepub" && (len(pub) != 33 || (pub[0] != 2 && pub[0] != 3))) || (op == "xonly" && len(pub) != 32) {
			bad()
		}
		odd := op == "parsepub" && pub[0] == 3
		xb := pub[len(pub)-32:]
		xv := new(big.Int).SetBytes(xb)
		var key secp.XY
		var okp bool
		pan = guard(func() {
			if op == "parsepub" {
				okp = key.ParsePubkey(pub)
			} else {
				okp = key.ParseXOnlyPubkey(pub)
			}
		})
		res := xyOf(&key)
		impl = "0"
		if okp {
			impl = "1 " + res.String()
		}
		ask = fmt.Sprintf("setxo %s %s", feOfBig(xv), b01(odd))
		mapModel = func(m string) string {
			mp, ok := parseXY(strings.Fields(m))
			if !ok {
				return "unexpected:" + m
			}
			mpt, on := mp.ref()
			if xv.Cmp(refP) >= 0 || mp.inf || !on || mpt.inf {
				return "0"
			}
			return "1 " + mp.String()
		}
		prop = func() bool {
			want, ok := refLift(xv, odd)
			if ok != okp {
				propFail("group-"+op+"-accept", fmt.Sprintf("%s: returns %v, but \"x < p and x³+7 is a square\" is %v", line, okp, ok), c)
				return false
			}
			if !ok {
				r.Hit(op + "/no-point")
				return true
			}
			r.Hit(op + "/point")
			if noncanon(rawLiftSqrt(feOfBig(xv))) {
				r.Hit(op + ":noncanon-sqrt")
			}
			got, _ := res.ref()
			if res.inf || !got.eq(want) || res.y.mag() != 0 || res.y.val().Cmp(refP) >= 0 {
				propFail("group-"+op, fmt.Sprintf("%s: parsed point %s, definition gives %s", line, got, want), c)
				return false
			}
			// observable: serialising the parsed key gives the input back
			k2 := res.goXY()
			out33 := make([]byte, 33)
			if pan := guard(func() { k2.GetPublicKey(out33) }); pan != "" {
				propFail("group-observe-panic:"+op, fmt.Sprintf("%s: GetPublicKey panics: %s", line, pan), c)
				return false
			}
			wantPre := byte(2)
			if odd {
				wantPre = 3
			}
			if out33[0] != wantPre || hex.EncodeToString(out33[1:]) != hex.EncodeToString(xb) {
				propFail("group-observe:"+op, fmt.Sprintf("%s: GetPublicKey of the parsed key gives %x", line, out33), c)
				return false
			}
			return true
		}
	case "isvalid":
		a, ok := parseXY(t[1:])
		if !ok {
			bad()
		}
		g := a.goXY()
		var res bool
		pan = guard(func() { res = g.IsValid() })
		impl = b01(res)
		if a.inContract() {
			prop = func() bool {
				_, on := a.ref()
				if res != (on && !a.inf) {
					propFail("group-isvalid", line+": IsValid disagrees with the curve equation", c)
					return false
				}
				return true
			}
		}
	case "wnaf":
		a, ok := parseInt(t[1])
		w, err := strconv.Atoi(t[2])
		if !ok || err != nil {
			bad()
		}
		n := numberOf(a)
		buf := make([]int, 129)
		var cnt int
		pan = guard(func() { cnt = secp.VerifWnaf(buf, &n, uint(w)) })
		if pan != "" {
			impl = "panic"
			pan = ""
			if a.BitLen() <= 128 {
				prop = func() bool {
					propFail("wnaf-overflow", line+": ecmult_wnaf overruns its 129-slot array for a scalar below 2^128", c)
					return false
				}
			}
			break
		}
		d := buf[:cnt]
		impl = "ok " + digitsStr(d)
		prop = func() bool {
			sum := new(big.Int)
			last := -1000
			for i := len(d) - 1; i >= 0; i-- {
				sum.Lsh(sum, 1)
				sum.Add(sum, big.NewInt(int64(d[i])))
			}
			okd := sum.Cmp(a) == 0
			for i, v := range d {
				if v == 0 {
					continue
				}
				if v%2 == 0 || v >= 1<<(w-1) || v <= -(1<<(w-1)) || i-last < w {
					okd = false
				}
				last = i
			}
			if !okd {
				propFail("wnaf-unsound", fmt.Sprintf("%s: digits %v are not a width-%d NAF of the scalar", line, d, w), c)
				return false
			}
			return true
		}
	case "splitexp":
		a, ok := parseInt(t[1])
		if !ok {
			bad()
		}
		n := numberOf(a)
		var r1, r2 secp.Number
		pan = guard(func() { n.VerifSplitExp(&r1, &r2) })
		impl = intHex(&r1.Int) + " " + intHex(&r2.Int)
		if a.Sign() < 0 {
			r.Hit("splitexp/negative")
		}
		{ // judged for EVERY integer (either sign, any size): that is what split_exp_sound / split_exp_bound state
			prop = func() bool {
				s := new(big.Int).Mul(&r2.Int, refLambda)
				s.Add(s, &r1.Int)
				s.Sub(s, a)
				s.Mod(s, refN)
				if s.Sign() != 0 || r1.Int.BitLen() > 128 || r2.Int.BitLen() > 128 {
					propFail("splitexp", fmt.Sprintf("%s: r1=%s r2=%s is not a 128-bit decomposition a = r1 + r2·λ (mod n)", line, intHex(&r1.Int), intHex(&r2.Int)), c)
					return false
				}
				return true
			}
		}
	case "ecmult":
		a, ok1 := parseXYZ(t[1:5])
		na, ok2 := parseInt(t[5])
		ng, ok3 := parseInt(t[6])
		if !ok1 || !ok2 || !ok3 || ng.Sign() < 0 {
			bad()
		}
		g := a.goXYZ()
		var out secp.XYZ
		nna, nng := numberOf(na), numberOf(ng)
		pan = guard(func() { g.ECmult(&out, &nna, &nng) })
		if pan != "" {
			impl = "panic"
			pan = ""
			if na.BitLen() <= 256 && ng.BitLen() <= 256 {
				prop = func() bool {
					propFail("ecmult-panic", line+": ECmult panics for scalars below 2^256", c)
					return false
				}
			}
			break
		}
		res := xyzOf(&out)
		impl = res.String()
		g2 := a.goXYZ()
		guard(func() { g2.ECmult(&g2, &nna, &nng) })
		if r2 := xyzOf(&g2); r2.inf != res.inf || (!res.inf && r2 != res) {
			propFail("group-alias:ecmult", line+": a.ECmult(&a,…) differs from a.ECmult(&r,…)", c)
		}
		if ap, on := a.ref(); on && a.inContract() && !a.inf && na.BitLen() <= 256 && ng.BitLen() <= 256 {
			prop = func() bool {
				if !operandKept(op, "base point", a, &g, c) {
					return false
				}
				want := refAdd(refMul(na, ap), refMul(ng, refG))
				if !checkPoint(op, res, want, c) {
					return false
				}
				// public API: Multiply (ng = 0) and BaseMultiplyAdd (na = 1) on the same operands
				if na.Sign() < 0 {
					return true // the byte-string API has no negative scalars
				}
				pub := append([]byte{4}, append(b32(ap.x), b32(ap.y)...)...)
				if ng.Sign() == 0 {
					if !checkAPI("multiply", fmt.Sprintf("Multiply(%x, %x)", pub, b32(na)), want, c,
						func(out []byte) bool { return secp.Multiply(pub, b32(na), out) }) {
						return false
					}
				}
				w2 := refAdd(ap, refMul(ng, refG))
				return checkAPI("basemultiplyadd", fmt.Sprintf("BaseMultiplyAdd(%x, %x)", pub, b32(ng)), w2, c,
					func(out []byte) bool { return secp.BaseMultiplyAdd(pub, b32(ng), out) })
			}
		}
	case "ecmultgen":
		a, ok := parseInt(t[1])
		if !ok || a.Sign() < 0 {
			bad()
		}
		n := numberOf(a)
		var out secp.XYZ
		pan = guard(func() { secp.ECmultGen(&out, &n) })
		res := xyzOf(&out)
		impl = res.String()
		if a.BitLen() <= 256 {
			prop = func() bool {
				if !checkPoint(op, res, refMul(a, refG), c) {
					return false
				}
				// public API on the same scalar; k·G = ∞ (k = 0, n, 2n, …) is judged too: the only place where
				// BaseMultiply can carry the Infinity flag is its boolean result
				return checkAPI("basemultiply", fmt.Sprintf("BaseMultiply(%x)", b32(a)), refMul(a, refG), c,
					func(out []byte) bool { return secp.BaseMultiply(b32(a), out) })
			}
		}
	case "precomp", "split", "rshx": // direct ties of XYZ.precomp / Number.split / Number.rsh_x (direct.go)
		var okd bool
		impl, pan, prop, okd = runDirect(op, t, line, c)
		if !okd {
			bad()
		}
	case "apibm", "apibma", "apimul", "parsekey": // the byte-string API and ParsePubkey on arbitrary byte strings (api.go)
		var oka bool
		impl, pan, prop, oka = runAPI(op, t, line, c)
		if !oka {
			bad()
		}
	case "refmul": // validates the Lean reference (Base.Secp) against math/big; no gocoin code involved
		k, ok1 := parseInt(t[1])
		x, ok2 := parseInt(t[2])
		y, ok3 := parseInt(t[3])
		if !ok1 || !ok2 || !ok3 {
			bad()
		}
		w := refMul(k, pt{x: x, y: y})
		if w.inf {
			impl = "inf"
		} else {
			impl = hexS(w.x) + " " + hexS(w.y)
		}
	default:
		bad()
	}
	c.Impl = impl
	model := o.MustAsk(ask)
	if mapModel != nil {
		model = mapModel(model)
	}
	c.Model = model
	if pan != "" {
		propFail("panic:"+op, fmt.Sprintf("%s: the real code panics: %s", line, pan), c)
		return
	}
	okProp := true
	if prop != nil {
		okProp = prop()
		r.Hit("property-evaluated/" + op)
	} else {
		r.Hit("tie-only(out-of-contract)/" + op)
	}
	if !okProp {
		return
	}
	if !sameReply(op, impl, model) {
		r.TieFail("tie:"+op, fmt.Sprintf("model and real code differ on `%s`: impl=%s model=%s", line, impl, model), c)
		return
	}
	r.TieOK()
}

// ---------------------------------------------------------------- raw (un-normalised) intermediates
//
// Field.Mul / Field.Sqr return magnitude-1 limbs that are not necessarily canonical: for about 1 in
// 2^17 operands the top limb comes out ≥ 2^48 (the limbs stand for v+p). Code that compares
// (Equals) or reads the parity (IsOdd) of such a value without Normalize is wrong only there. The
// functions below recompute, with the SAME statements as the code, the intermediates of AddXY / Add /
// SetXO so that the generators can search for such operands and the histogram shows they were run.

func noncanon(a fe) bool {
	f := a.field()
	f.Normalize()
	return limbsOf(&f) != a
}

// rawU: z.Sqr(&zz); w.Mul(&u,&zz) — u1/u2 of XYZ.Add, u2 of XYZ.AddXY
func rawU(w, z fe) fe {
	wf, zf := w.field(), z.field()
	var zz, u secp.Field
	zf.Sqr(&zz)
	wf.Mul(&u, &zz)
	return limbsOf(&u)
}

// rawS: z.Sqr(&zz); w.Mul(&s,&zz); s.Mul(&s,&z) — s1/s2 of XYZ.Add, s2 of XYZ.AddXY
func rawS(w, z fe) fe {
	wf, zf := w.field(), z.field()
	var zz, s secp.Field
	zf.Sqr(&zz)
	wf.Mul(&s, &zz)
	s.Mul(&s, &zf)
	return limbsOf(&s)
}

// rawLiftSqrt: the value XY.SetXO / DecompressPoint hand to IsOdd before any Normalize
func rawLiftSqrt(x fe) fe {
	X := x.field()
	var c, x2, x3, y secp.Field
	X.Sqr(&x2)
	X.Mul(&x3, &x2)
	c.SetInt(7)
	c.SetAdd(&x3)
	c.Sqrt(&y)
	return limbsOf(&y)
}

func hitNoncanon(op string, ap, bp pt, vals map[string]fe) {
	if ap.inf || bp.inf {
		return
	}
	rel := "gen"
	switch relClass(ap, bp) {
	case "P+P":
		rel = "dbl"
	case "P+(-P)":
		rel = "neg"
	}
	for _, k := range []string{"u1", "u2", "s1", "s2"} {
		if v, ok := vals[k]; ok && noncanon(v) {
			r.Hit(fmt.Sprintf("%s:%s-noncanon-%s", op, rel, k))
		}
	}
}

// sameReply: limb-for-limb, except that the coordinates of an infinite result are unspecified
func sameReply(op, impl, model string) bool {
	if impl == model {
		if op == "setxyzarg" {
			r.Hit("setxyzarg/limb-exact") // histogram only: the exact clause of setXYZ_keeps_operand observed limb for limb
		}
		return true
	}
	if op == "setxyzarg" {
		r.Hit("setxyzarg/not-limb-exact")
	}
	switch op {
	case "setxyzarg": // the argument after SetXYZ: another admissible triple for the same point is the same observable
		return sameRegister(impl, model)
	case "dbl", "add3", "addxy", "negj", "mullam", "ecmult", "ecmultgen":
		a, b := strings.Fields(impl), strings.Fields(model)
		return len(a) == 4 && len(b) == 4 && a[3] == "1" && b[3] == "1"
	case "setxyz", "negxy":
		a, b := strings.Fields(impl), strings.Fields(model)
		return len(a) == 3 && len(b) == 3 && a[2] == "1" && b[2] == "1"
	case "precomp": // entry by entry
		a, b := strings.Split(impl, " | "), strings.Split(model, " | ")
		if len(a) != len(b) {
			return false
		}
		for i := range a {
			if !sameReply("dbl", a[i], b[i]) {
				return false
			}
		}
		return true
	}
	return false
}

// sameRegister: two renderings of one register (xyz = 4 tokens, xy = 3) agree when they are limb-for-limb equal, both
// infinite, or both within the contract and standing for the same curve point (a register is observed as a point)
func sameRegister(impl, model string) bool {
	if impl == model {
		r.Hit("register-compare/limb-exact")
		return true
	}
	// histogram only: how often the lenient rule (same point, other limbs / both infinite) decides instead of limb equality
	r.Hit("register-compare/not-limb-exact")
	a, b := strings.Fields(impl), strings.Fields(model)
	if len(a) != len(b) || (len(a) != 3 && len(a) != 4) {
		return false
	}
	if a[len(a)-1] == "1" && b[len(b)-1] == "1" {
		return true
	}
	if len(a) == 4 {
		x, ok1 := parseXYZ(a)
		y, ok2 := parseXYZ(b)
		if !ok1 || !ok2 || x.inf != y.inf || !x.inContract() || !y.inContract() {
			return false
		}
		p, on1 := x.ref()
		q, on2 := y.ref()
		return on1 && on2 && p.eq(q)
	}
	x, ok1 := parseXY(a)
	y, ok2 := parseXY(b)
	if !ok1 || !ok2 || x.inf != y.inf || !x.inContract() || !y.inContract() {
		return false
	}
	p, on1 := x.ref()
	q, on2 := y.ref()
	return on1 && on2 && p.eq(q)
}

func relClass(a, b pt) string {
	switch {
	case a.inf && b.inf:
		return "inf+inf"
	case a.inf:
		return "inf+P"
	case b.inf:
		return "P+inf"
	case a.eq(b):
		return "P+P"
	case a.eq(refNeg(b)):
		return "P+(-P)"
	}
	return "P+Q"
}

// ---------------------------------------------------------------- table reference (incremental)

var tabCache = map[string][]pt{}

func tableRef(name string, i int) pt {
	if tabCache[name] == nil {
		switch name {
		case "pre_g", "pre_g_128":
			base := refG
			if name == "pre_g_128" {
				base = refMul(new(big.Int).Lsh(big1, 128), refG)
			}
			two := refDbl(base)
			l := make([]pt, 4096)
			l[0] = base
			for k := 1; k < len(l); k++ {
				l[k] = refAdd(l[k-1], two)
			}
			tabCache[name] = l
		case "prec":
			l := make([]pt, 1024)
			base := refG
			for j := 0; j < 64; j++ {
				l[j*16] = base
				for k := 1; k < 16; k++ {
					l[j*16+k] = refAdd(l[j*16+k-1], base)
				}
				base = l[j*16+15] // 16·base
			}
			tabCache[name] = l
		case "fin":
			s := refInf
			base := refG
			for j := 0; j < 64; j++ {
				s = refAdd(s, base)
				base = refMul(big.NewInt(16), base)
			}
			tabCache[name] = []pt{refNeg(s)}
		}
	}
	return tabCache[name][i]
}

func replay(path string) {
	b, err := os.ReadFile(path)
	if err != nil {
		fmt.Println("cannot read replay:", err)
		os.Exit(3)
	}
	var doc struct {
		Replay caseRec `json:"replay"`
	}
	json.Unmarshal(b, &doc)
	if doc.Replay.Line == "" {
		fmt.Println("replay: nothing to re-run for this file (proof-level violation); see its 'broken' field")
		return
	}
	runCase(doc.Replay.Line, "replay")
}

func main() {
	r = vlib.NewRun("C08")
	var err error
	o, err = vlib.StartOracle("c08")
	if err != nil {
		fmt.Println("cannot start oracle:", err)
		os.Exit(3)
	}
	defer o.Close()
	if secp.FieldArch != "5x52" {
		fmt.Println("this platform does not compile the 5x52 field; the C08 model does not apply")
		os.Exit(3)
	}
	if r.Replay != "" {
		replay(r.Replay)
		r.Finish("replay of one recorded case", "replay")
	}
	generate()
	r.Assume = []string{
		"#E(F_p) = n for secp256k1 is not proved (it only enters theorems as an explicit hypothesis)",
		"math/big (reference side of the harness) and Lean's Nat/Int arithmetic are trusted",
		"the 10x26 field (field_10x26.go, 32-bit platforms) is not compiled here and is out of scope",
		"byte-string API (Multiply / BaseMultiply / BaseMultiplyAdd): a result equal to the point at infinity must be reported by the boolean result (the API's only carrier of the Infinity flag) with the output buffer untouched — true of the code since /repo fix 6fd2a4a3 (the former known findings api-*-identity; a regression is a VIOLATION under the same keys); BaseMultiply / BaseMultiplyAdd read the low 256 bits of a longer scalar (model-tie only above 2^256), big.Int.ModInverse inside InvVar is modelled by the reference Fermat inverse",
		"Go's math/bits.Mul64/Add64 and uint64 wrap-around are rendered by the translator as the Nat expressions listed in go/cmd/gen_c08/xlate.go",
	}
	r.Finish("every case is one oracle request line: field ops on (a) named edge limb vectors 0,1,p-1,p,p+1,2p-1,2p,2^256-1, all-ones and per-magnitude maxima, (b) per-limb edge/random mixes within magnitude m (1..32), (c) raw 64-bit limbs (translator validation beyond the contract), (d) chains of add/negate/mul_int/normalize/mul/sqr fed with their own outputs up to the magnitude limits; group ops on curve points with random Z and denormalised limbs in the relations inf+inf, inf+P, P+inf, P+P, P+(-P), P+Q; scalars 0,1,n-1,n,n+1,2^128 boundaries, lambda-split rounding edges, runs of ones, 2^256-1, random, and the NEGATIVES of all of these for split_exp and for na of ECmult (single calls, wide operands, histories; big.Int.Div vs Quo differ exactly there); every entry of pre_g/pre_g_128/prec/fin; (e) group operands over the FULL magnitude contract of the Go functions (wide.go): coordinates standing for value + k·p with k up to what the magnitude admits (X,Y,Z ≤ 8 = what Mul/Sqr accept; Y of XYZ.Neg/XY.Neg up to 32 = Normalize's contract), the excess spread evenly (k·p_i per limb) or unevenly (each limb anywhere in the interval that keeps all five within the bound), every magnitude 1..8 once per operation with the largest k, through negj/negxy/dbl/add3/addxy/mullam/setxyz/isvalid and ecmult with scalars small, 2^k−1, 2^k+2^j−1, small·λ, n−small, edges, random (histogram `ecmult/wide:digit-1-selects-pre_a_1[0]` counts the runs whose λ-split wNAF negates the caller's own un-normalised operand); (f) directed (directed.go): operands found at run time by a search with the real Field code for which a raw Mul/Sqr output that the group code compares or takes the parity of is NOT canonical (top limb ≥ 2^48) — u1/u2/s1/s2 of XYZ.Add and XYZ.AddXY in the relations P+P and P+(-P) (also through ECmult 1·A+k·G and BaseMultiplyAdd(k·G,k)), the Sqrt output of XY.SetXO and its callers/twin DecompressPoint, ParsePubkey(02/03), ParseXOnlyPubkey — plus fixed witnesses of each; histogram kinds `addxy:dbl-noncanon-s2`, `setxo:noncanon-sqrt`, … count them. (g) direct ties (direct.go) of the helpers below ECmult/ECmultGen through the verif-tagged exports: XYZ.precomp (fixed points incl. ∞, every magnitude 1..8, w = 2..6, 8 in thorough; every entry i judged as (2i+1)·A with checkPoint), Number.split (non-negative numbers around every word / partial-word boundary and around their own bit length, bits 0..512, 128 = ECmult's own call; judged n = lo + hi·2^bits, receiver unchanged), Number.rsh_x (both signs, widths 4 / WINDOW_A / WINDOW_G and 1..62, the real halves of the λ-split; judged against Euclidean division by 2^bits); (h) the byte-string API on every ecmult / ecmultgen case under recover, results equal to ∞ judged too (histogram `api/*-identity`); (i) api.go: BaseMultiply / BaseMultiplyAdd / Multiply / ParsePubkey on BYTE STRINGS tied to Model.GroupApi (ops apibm / apibma / apimul / parsekey) — scalars of 0..40 bytes (empty, zeros of several lengths, 1, n−2..n+1, 2n, 3n, 2^256, 2^256+n, leading zero bytes, multiples of n, random), keys 02/03/04/06/07 of random points and of −(k·G) (sum = ∞), bad keys (wrong tag / length, x ≥ p, y ≥ p, off-curve, wrong hybrid parity, mutated), both buffer lengths; judged: ∞ ⇒ false and buffer untouched, finite ⇒ SEC1 bytes, unparsable ⇒ false. (j) history.go: HISTORIES of calls on one file of OBJECTS (oracle op hist = Model.GroupHist.run): 2..5 Jacobian and 1..3 affine registers holding related points (P, P again, −P, 2P, P+Q, G, ∞) with coordinates anywhere in the contract; idioms (compute – publish with SetXYZ – go on computing with the same object – publish again; publish twice; running sum published every round; ladder on two registers; precomp-style loop with re-used temporaries) and random histories of 3..24 calls dbl/add/addxy/neg/negxy/setxyz/setxy/gen/lam/mult with freely chosen operand and result registers; the real calls are made on the SAME objects from first to last and after EVERY call EVERY register is judged against the math/big group law (group-history:<op> result register, group-operand:<op> any other register); single calls judge their operands the same way (operandKept) and every setxyz case also runs setxyzarg (the argument afterwards, converted again, added to its own affine image). (k) concurrent.go: several callers at once with nothing shared — 13 scenarios of 2/4/8/12/16 goroutines, each with its own 10 jobs (InvVar / Inv / Mul / Sqrt on field elements, SetXYZ+GetPublicKey, Add, AddXY, Double, XYZ.Neg, XY.Neg+IsValid, SetXO, ParseXOnlyPubkey, ECmultGen, ECmult, BaseMultiply, BaseMultiplyAdd, Multiply, ParsePubkey, DecompressPoint, secp.Verify on ECDSA signatures made by math/big; families inv/api/group/mixed/entry) run for many rounds after a common start signal, every result compared with the math/big reference for the caller's own arguments (concurrent-<op>), plus the step-level model of InvVar under a random interleaving (invsched). (l) cancel.go: ECmult on RELATED operands A = c·γ/β·G (γ ∈ {1, 2^128}, β ∈ {1, λ}, c small signed) with stream values solved on discrete logarithms so that inside the interleaved wNAF loop the running sum is ∞ / equals the table entry being added / is its negative, for each of the four streams and both digit signs; every case's class confirmed by a replay of the loop on discrete logarithms (histogram `ecmult/exceptional:<stream>:<sign>:<relation>`, 24 classes). distinct = distinct request lines; a case counts as non-trivial when it reaches the real code",
		"translator validation: generated Lean defs vs the Go functions limb-for-limb on every field case; property: value/magnitude/observable (Normalize+GetB32) of the real code's result against math/big mod p, group results against an independent affine group law, table entries against recomputed multiples of G; hand group model vs Go limb-for-limb on finite results")
}
