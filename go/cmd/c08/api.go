// api.go — the byte-string API of lib/secp256k1 (ec.go: BaseMultiply / BaseMultiplyAdd / Multiply) and XY.ParsePubkey on
// arbitrary byte strings, tied to Model.GroupApi (oracle ops apibm / apibma / apimul / parsekey) and judged against the
// math/big reference: a result equal to the point at infinity must be reported by `false` with the output buffer left
// untouched (the repaired findings api-basemultiply-identity / api-multiply-identity / api-basemultiplyadd-identity: the
// functions returned true and serialised stale coordinates), a finite result by `true` with its SEC1 bytes, an operand
// that is no SEC1 encoding of a curve point by `false`.
//
//	apibm  <k> <unc>         BaseMultiply(k, out)            k, pub: byte strings in hex, `-` = empty
//	apibma <pub> <k> <unc>   BaseMultiplyAdd(pub, k, out)    unc = 0: len(out) = 33, unc = 1: len(out) = 65
//	apimul <pub> <k> <unc>   Multiply(pub, k, out)
//	parsekey <pub>           XY.ParsePubkey(pub)             any length, tags 02 03 04 06 07 and others
package main

import (
	"bytes"
	"encoding/hex"
	"fmt"
	"math/big"

	secp "github.com/piotrnar/gocoin/lib/secp256k1"
	"verif/vlib"
)

func hexOrDash(b []byte) string {
	if len(b) == 0 {
		return "-"
	}
	return hex.EncodeToString(b)
}

func unhexOrDash(s string) ([]byte, bool) {
	if s == "-" {
		return []byte{}, true
	}
	b, err := hex.DecodeString(s)
	return b, err == nil
}

// refParseKey: SEC1 parsing as the property means it, independent of gocoin and of the model: 33 bytes 02/03 ‖ x or
// 65 bytes 04/06/07 ‖ x ‖ y, coordinates below p (canonical), the point on the curve, hybrid tags agree with y's parity.
func refParseKey(pub []byte) (pt, bool) {
	switch {
	case len(pub) == 33 && (pub[0] == 2 || pub[0] == 3):
		return refLift(new(big.Int).SetBytes(pub[1:]), pub[0] == 3)
	case len(pub) == 65 && (pub[0] == 4 || pub[0] == 6 || pub[0] == 7):
		p := pt{x: new(big.Int).SetBytes(pub[1:33]), y: new(big.Int).SetBytes(pub[33:])}
		if p.x.Cmp(refP) >= 0 || p.y.Cmp(refP) >= 0 || !refOnCurve(p) {
			return pt{}, false
		}
		if pub[0] != 4 && (p.y.Bit(0) == 1) != (pub[0] == 7) {
			return pt{}, false
		}
		return p, true
	}
	return pt{}, false
}

func sec1(p pt, unc bool) []byte {
	if unc {
		return append([]byte{4}, append(b32(p.x), b32(p.y)...)...)
	}
	return append([]byte{byte(2 + p.y.Bit(0))}, b32(p.x)...)
}

// judgeAPI: the property on one call's outcome. name = basemultiply | basemultiplyadd | multiply.
func judgeAPI(name, call string, want pt, okr bool, out []byte, c *caseRec) bool {
	untouched := bytes.Equal(out, make([]byte, len(out)))
	if want.inf {
		r.Hit("api/" + name + "-identity")
		if okr {
			propFail("api-"+name+"-identity", fmt.Sprintf("%s = true with the bytes %x, but the result is the point at infinity: the API reports success and hands out stale coordinates that read as a public key", call, out), c)
			return false
		}
		if !untouched {
			propFail("api-"+name+"-identity-bytes", fmt.Sprintf("%s = false, but the output buffer was written: %x", call, out), c)
			return false
		}
		r.Hit("api/" + name + "-identity-refused")
		return true
	}
	r.Hit("api/" + name + "-finite")
	if !okr || !bytes.Equal(out, sec1(want, len(out) == 65)) {
		propFail("api-"+name, fmt.Sprintf("%s = %v %x, group law gives %s", call, okr, out, want), c)
		return false
	}
	return true
}

// runAPI: one apibm / apibma / apimul / parsekey case. ok=false = malformed line.
func runAPI(op string, t []string, line string, c *caseRec) (impl, pan string, prop func() bool, ok bool) {
	if op == "parsekey" {
		if len(t) != 2 {
			return
		}
		pub, ok1 := unhexOrDash(t[1])
		if !ok1 {
			return
		}
		var key secp.XY
		var okp bool
		pan = guard(func() { okp = key.ParsePubkey(append([]byte{}, pub...)) })
		res := xyOf(&key)
		impl = "0"
		if okp {
			impl = "1 " + res.String()
		}
		tag := "none"
		if len(pub) > 0 {
			tag = fmt.Sprintf("%02x", pub[0])
		}
		r.Hit(fmt.Sprintf("parsekey/len%d-tag%s", len(pub), tag))
		prop = func() bool {
			want, okw := refParseKey(pub)
			if okw != okp {
				propFail("group-parsekey-accept", fmt.Sprintf("%s: ParsePubkey returns %v, but \"SEC1 encoding of a curve point with canonical coordinates\" is %v", line, okp, okw), c)
				return false
			}
			if !okw {
				r.Hit("parsekey/refused")
				return true
			}
			r.Hit("parsekey/point")
			got, _ := res.ref()
			if res.inf || !got.eq(want) || !magAtMost(res.x, 8) || !magAtMost(res.y, 8) {
				propFail("group-parsekey", fmt.Sprintf("%s: parsed point %s, definition gives %s", line, got, want), c)
				return false
			}
			// observable: serialising the parsed key gives the point back (the input itself for 02/03/04)
			k2 := res.goXY()
			out := make([]byte, map[bool]int{false: 33, true: 65}[len(pub) == 65])
			if p2 := guard(func() { k2.GetPublicKey(out) }); p2 != "" {
				propFail("group-observe-panic:parsekey", fmt.Sprintf("%s: GetPublicKey panics: %s", line, p2), c)
				return false
			}
			if !bytes.Equal(out, sec1(want, len(pub) == 65)) {
				propFail("group-observe:parsekey", fmt.Sprintf("%s: GetPublicKey of the parsed key gives %x", line, out), c)
				return false
			}
			return true
		}
		return impl, pan, prop, true
	}
	// the three API functions
	var pub, kb []byte
	var ok1, ok2 bool
	ui := 2
	if op == "apibm" {
		if len(t) != 3 {
			return
		}
		kb, ok2 = unhexOrDash(t[1])
		ok1 = true
	} else {
		if len(t) != 4 {
			return
		}
		pub, ok1 = unhexOrDash(t[1])
		kb, ok2 = unhexOrDash(t[2])
		ui = 3
	}
	if !ok1 || !ok2 || (t[ui] != "0" && t[ui] != "1") {
		return
	}
	unc := t[ui] == "1"
	out := make([]byte, 33)
	if unc {
		out = make([]byte, 65)
	}
	name := map[string]string{"apibm": "basemultiply", "apibma": "basemultiplyadd", "apimul": "multiply"}[op]
	var okr bool
	pubArg, kArg := append([]byte{}, pub...), append([]byte{}, kb...)
	pan = guard(func() {
		switch op {
		case "apibm":
			okr = secp.BaseMultiply(kArg, out)
		case "apibma":
			okr = secp.BaseMultiplyAdd(pubArg, kArg, out)
		default:
			okr = secp.Multiply(pubArg, kArg, out)
		}
	})
	impl = "false"
	if okr {
		impl = "true " + hex.EncodeToString(out)
	}
	if !bytes.Equal(pubArg, pub) || !bytes.Equal(kArg, kb) {
		propFail("api-"+name+"-writes-operand", line+": the call modified its input slices", c)
	}
	k := new(big.Int).SetBytes(kb)
	var call string
	if op == "apibm" {
		call = fmt.Sprintf("BaseMultiply(%x) [len(out)=%d]", kb, len(out))
	} else {
		call = fmt.Sprintf("%s(%x, %x) [len(out)=%d]", map[string]string{"apibma": "BaseMultiplyAdd", "apimul": "Multiply"}[op], pub, kb, len(out))
	}
	r.Hit(fmt.Sprintf("%s/scalar-%dbytes", op, len(kb)))
	// BaseMultiply / BaseMultiplyAdd read the low 256 bits of the scalar only (ECmultGen's comb); a scalar byte string
	// longer than 32 bytes with a non-zero prefix is outside what "k·G" means for them: model tie only (observation).
	if op != "apimul" && k.BitLen() > 256 {
		r.Hit(op + "/scalar-above-2^256(model-tie-only)")
		return impl, pan, nil, true
	}
	prop = func() bool {
		var want pt
		if op == "apibm" {
			want = refMul(k, refG)
		} else {
			P, okp := refParseKey(pub)
			if !okp {
				r.Hit("api/" + name + "-operand-refused")
				if okr || !bytes.Equal(out, make([]byte, len(out))) {
					propFail("api-"+name+"-operand", fmt.Sprintf("%s = %v %x although the operand is no SEC1 encoding of a curve point", call, okr, out), c)
					return false
				}
				return true
			}
			if op == "apibma" {
				want = refAdd(refMul(k, refG), P)
			} else {
				want = refMul(k, P)
			}
		}
		return judgeAPI(name, call, want, okr, out, c)
	}
	return impl, pan, prop, true
}

// apiScalars: byte strings around every boundary the three functions have: empty, zero of several lengths, 1, n−1, n, n+1
// (the identity witnesses), n with leading zero bytes, 2n / 3n (33 bytes: ∞ for Multiply, truncated for BaseMultiply),
// 2^256 and 2^256 + n (33 bytes whose low 256 bits are 0 / n), λ, 2^128 ± 1, 2^255, 2^256 − 1.
func apiScalars() [][]byte {
	n := refN
	add := func(a *big.Int, d int64) *big.Int { return new(big.Int).Add(a, big.NewInt(d)) }
	two256 := new(big.Int).Lsh(big1, 256)
	vals := []*big.Int{big1, big.NewInt(2), add(n, -2), add(n, -1), n, add(n, 1), new(big.Int).Lsh(n, 1), new(big.Int).Mul(n, big3),
		two256, new(big.Int).Add(two256, n), add(two256, 1), add(two256, -1), refLambda,
		new(big.Int).Lsh(big1, 128), add(new(big.Int).Lsh(big1, 128), -1), new(big.Int).Lsh(big1, 255), new(big.Int).Rsh(n, 1)}
	out := [][]byte{{}, {0}, make([]byte, 32), make([]byte, 33), make([]byte, 40)}
	for _, v := range vals {
		out = append(out, v.Bytes())
		if v.BitLen() <= 256 {
			out = append(out, b32(v))
			out = append(out, append(make([]byte, 5), b32(v)...)) // leading zero bytes: same number
		}
	}
	return out
}

// apiBadKeys: byte strings that are no SEC1 encoding of a curve point (plus the empty and odd-length ones)
func apiBadKeys(g *vlib.Rng) [][]byte {
	G := refG
	pPlus := func(v *big.Int) *big.Int { return new(big.Int).Add(v, refP) }
	c33 := sec1(G, false)
	u65 := sec1(G, true)
	mod := func(b []byte, i int, v byte) []byte { o := append([]byte{}, b...); o[i] = v; return o }
	out := [][]byte{{}, {2}, c33[:32], append(append([]byte{}, c33...), 0), u65[:64], append(append([]byte{}, u65...), 0),
		mod(c33, 0, 0), mod(c33, 0, 1), mod(c33, 0, 4), mod(c33, 0, 5), mod(c33, 0, 6), mod(u65, 0, 2), mod(u65, 0, 3), mod(u65, 0, 5), mod(u65, 0, 8),
		mod(u65, 0, 7),                                  // hybrid tag with the wrong parity (Gy is even)
		mod(u65, 64, u65[64]^1),                         // y off by one: not on the curve
		append([]byte{2}, b32(big.NewInt(5))...),        // x³+7 no square
		append([]byte{2}, b32(refP)...),                 // x = p
		append([]byte{3}, b32(pPlus(big1))...),          // x = p+1 (non-canonical encoding of 1)
		append([]byte{2}, bytes.Repeat([]byte{0xff}, 32)...), // x = 2^256−1
		make([]byte, 33), make([]byte, 65),
	}
	// 04 ‖ x ‖ (y + p) and 04 ‖ (x + p) ‖ y for a point with small coordinates, if one is found quickly
	for i := 0; i < 4000; i++ {
		p := randPoint(g)
		if pPlus(p.y).BitLen() <= 256 {
			out = append(out, append([]byte{4}, append(b32(p.x), b32(pPlus(p.y))...)...))
			break
		}
	}
	return out
}

func apiGoodKeys(g *vlib.Rng, p pt) [][]byte {
	hy := sec1(p, true)
	hy[0] = byte(6 + p.y.Bit(0))
	return [][]byte{sec1(p, false), sec1(p, true), hy}
}

// apiCases: corpus (every boundary scalar × every key form × both buffer lengths; the identity witnesses; bad keys), then
// a generated stream: scalars of 0..40 random bytes, scalars ≡ 0 mod n, operands −(k·G) for BaseMultiplyAdd, operands of
// the three good encodings and mutated ones.
func apiCases(g *vlib.Rng) {
	G := refG
	edges := edgeScalars()
	scal := apiScalars()
	uncs := []string{"0", "1"}
	for i, kb := range scal {
		for _, u := range uncs {
			runCase(fmt.Sprintf("apibm %s %s", hexOrDash(kb), u), "api-edge")
		}
		for j, pub := range apiGoodKeys(g, G) {
			u := uncs[(i+j)%2]
			runCase(fmt.Sprintf("apimul %s %s %s", hexOrDash(pub), hexOrDash(kb), u), "api-edge")
			runCase(fmt.Sprintf("apibma %s %s %s", hexOrDash(pub), hexOrDash(kb), u), "api-edge")
		}
	}
	// the witnesses of the three repaired findings, by name
	nb, nm1 := b32(refN), b32(new(big.Int).Sub(refN, big1))
	gc := hexOrDash(sec1(G, false))
	for _, l := range []string{
		"apibm " + hexOrDash(make([]byte, 32)) + " 0", "apibm " + hexOrDash(nb) + " 0", "apibm " + hexOrDash(make([]byte, 32)) + " 1",
		"apimul " + gc + " " + hexOrDash(make([]byte, 32)) + " 0", "apimul " + gc + " " + hexOrDash(nb) + " 0",
		"apibma " + gc + " " + hexOrDash(nm1) + " 0", "apibma " + gc + " " + hexOrDash(nm1) + " 1",
	} {
		runCase(l, "api-witness")
	}
	bad := apiBadKeys(g)
	for i, pub := range bad {
		runCase("parsekey "+hexOrDash(pub), "api-badkey")
		runCase(fmt.Sprintf("apimul %s %s %s", hexOrDash(pub), hexOrDash(b32(big3)), uncs[i%2]), "api-badkey")
		runCase(fmt.Sprintf("apibma %s %s %s", hexOrDash(pub), hexOrDash(b32(big3)), uncs[(i+1)%2]), "api-badkey")
	}
	for _, pub := range apiGoodKeys(g, G) {
		runCase("parsekey "+hexOrDash(pub), "api-edge")
	}
	r.Sample(map[string]string{"line": "apibma " + gc + " " + hexOrDash(nm1) + " 0"})
	r.Sample(map[string]string{"line": "apibm " + hexOrDash(nb) + " 0"})
	// ---- generated
	randScalar := func() []byte {
		switch g.Intn(8) {
		case 0: // ≡ 0 mod n, any length up to 40 bytes
			v := new(big.Int).Mul(refN, big.NewInt(int64(g.Intn(5))))
			if g.Chance(1, 3) {
				v.Mul(v, new(big.Int).SetBytes(g.Bytes(1+g.Intn(8))))
			}
			b := v.Bytes()
			if len(b) > 40 {
				b = b[:40]
			}
			if g.Bool() && len(b) <= 32 {
				return b32(v)
			}
			return b
		case 1:
			return scal[g.Intn(len(scal))]
		case 2:
			return g.Bytes(g.Intn(41))
		case 3:
			return b32(genScalar(g, edges))
		}
		return g.Bytes(32)
	}
	N := r.N(220, 9000)
	for i := 0; i < N; i++ {
		u := uncs[g.Intn(2)]
		kb := randScalar()
		switch g.Intn(10) {
		case 0, 1:
			runCase(fmt.Sprintf("apibm %s %s", hexOrDash(kb), u), "api-gen")
		case 2: // BaseMultiplyAdd whose sum is the identity: operand −(k·G)
			k := new(big.Int).SetBytes(kb)
			k.Mod(k, new(big.Int).Lsh(big1, 256))
			p := refNeg(refMul(k, G))
			if p.inf {
				runCase(fmt.Sprintf("apibm %s %s", hexOrDash(kb), u), "api-gen")
				continue
			}
			keys := apiGoodKeys(g, p)
			runCase(fmt.Sprintf("apibma %s %s %s", hexOrDash(keys[g.Intn(3)]), hexOrDash(b32(k)), u), "api-gen-identity")
		case 3: // Multiply by a multiple of n on a random point
			p := randPoint(g)
			v := new(big.Int).Mul(refN, big.NewInt(int64(g.Intn(4))))
			keys := apiGoodKeys(g, p)
			runCase(fmt.Sprintf("apimul %s %s %s", hexOrDash(keys[g.Intn(3)]), hexOrDash(v.Bytes()), u), "api-gen-identity")
		case 4: // mutated key
			keys := apiGoodKeys(g, randPoint(g))
			pub := append([]byte{}, keys[g.Intn(3)]...)
			switch g.Intn(4) {
			case 0:
				pub[g.Intn(len(pub))] ^= byte(1 << uint(g.Intn(8)))
			case 1:
				pub[0] = byte(g.Intn(9))
			case 2:
				pub = pub[:g.Intn(len(pub))]
			case 3:
				pub = append(pub, g.Bytes(1+g.Intn(3))...)
			}
			runCase("parsekey "+hexOrDash(pub), "api-gen-mutated")
			if g.Bool() {
				runCase(fmt.Sprintf("apimul %s %s %s", hexOrDash(pub), hexOrDash(kb), u), "api-gen-mutated")
			} else {
				runCase(fmt.Sprintf("apibma %s %s %s", hexOrDash(pub), hexOrDash(kb), u), "api-gen-mutated")
			}
		default:
			keys := apiGoodKeys(g, randPoint(g))
			pub := keys[g.Intn(3)]
			if g.Chance(1, 6) {
				runCase("parsekey "+hexOrDash(pub), "api-gen")
			}
			if g.Bool() {
				runCase(fmt.Sprintf("apimul %s %s %s", hexOrDash(pub), hexOrDash(kb), u), "api-gen")
			} else {
				runCase(fmt.Sprintf("apibma %s %s %s", hexOrDash(pub), hexOrDash(kb), u), "api-gen")
			}
		}
	}
}
