// cancel.go — ECmult on RELATED operands: the exceptional states of the interleaved wNAF loop.
//
// XYZ.ECmult adds, bit level by bit level, one digit of each of four wNAF streams to ONE running sum:
//
//	a1 (na_1 · A, XYZ.Add, pre_a_1)   lam (na_lam · λA, XYZ.Add, pre_a_lam)   g (ng_1 · G, XYZ.AddXY, pre_g)
//	g128 (ng_128 · 2^128·G, XYZ.AddXY, pre_g_128)
//
// With an operand A unrelated to G and generated scalars the running sum is an "ordinary" point at every one of these
// additions after the first: never ∞, never equal to the table entry that is being added, never its negative. The
// branches of Add / AddXY for those three relations — and the sign handling of the table entry in each of them — are then
// only reached by the single-call cases, never from inside the loop, with the loop's own operands (a negated copy of a
// table entry, a result register that is also the operand, ∞ carried through many doublings).
//
// This stream builds operands for which they ARE reached, for every stream, both digit signs and all three relations.
// The construction is arithmetic on discrete logarithms, nothing is searched and no input is written down:
//
//   - A = m·G with m = c·γ/β, where γ ∈ {1, 2^128} is the base of one of the generator streams, β ∈ {1, λ} the base of
//     one of the operand streams and c a small signed integer — so the operand stream s adds multiples of c·γ·G, the
//     generator stream t multiples of γ·G, and "the running sum is ∞ / = addend / = −addend" is a LINEAR equation between
//     the wNAF prefix values P_s(j) = Σ_{i≥j} d_i 2^(i−j) and P_t(j) of the two streams at one bit level j;
//   - one of the two stream values ("driver") is generated freely (structured / random, either sign for the operand
//     streams), a non-zero digit of the wanted sign is picked in its wNAF, and the equation is solved for the prefix of
//     the other stream; below level j both values continue with free low parts, the other two streams carry free values
//     that live entirely below level j;
//   - na = na_1 + na_lam·λ (mod n, or the plain negative number), ng = ng_1 + ng_128·2^128.
//
// ecmultTrace then REPLAYS the loop in discrete logarithms (the split and the digits are the real code's, both judged by
// the `splitexp` / `wnaf` cases) and names the relation met by every addition; a case counts for a class only when the
// trace confirms it: histogram `ecmult/exceptional:<stream>:<+|->:<acc-inf|double|cancel>` (24 classes), and
// `ecmult/exceptional-miss:…` when ten constructions in a row did not reach a class. The cases are ordinary `ecmult`
// request lines: tie with the Lean model, result judged against na·A + ng·G by math/big, aliasing, operand kept, public API.
package main

import (
	"fmt"
	"math/big"

	secp "github.com/piotrnar/gocoin/lib/secp256k1"
	"verif/vlib"
)

var excStreams = [4]string{"a1", "lam", "g", "g128"}

type loopEv struct {
	s   int  // stream
	neg bool // sign of the digit
	rel string
	lvl int
}

func (e loopEv) class() string {
	sg := "+"
	if e.neg {
		sg = "-"
	}
	return excStreams[e.s] + ":" + sg + ":" + e.rel
}

// wnafOf: the digits ecmult_wnaf gives for v (nil when it panics — more than 128 bits).
func wnafOf(v *big.Int, w uint) []int {
	n := numberOf(v)
	buf := make([]int, 129)
	cnt := -1
	if guard(func() { cnt = secp.VerifWnaf(buf, &n, w) }) != "" || cnt < 0 {
		return nil
	}
	return buf[:cnt]
}

// prefixAt: Σ_{i≥k} d_i·2^(i−k)
func prefixAt(d []int, k int) *big.Int {
	s := new(big.Int)
	for i := len(d) - 1; i >= k; i-- {
		s.Lsh(s, 1)
		s.Add(s, big.NewInt(int64(d[i])))
	}
	return s
}

var two128 = new(big.Int).Lsh(big1, 128)

// ecmultTrace: the relation between the running sum and the addend at every addition of ECmult's loop for A = m·G,
// computed on discrete logarithms mod n. rel: first (nothing added yet) / acc-inf / double / cancel / generic.
func ecmultTrace(m, na, ng *big.Int) (evs []loopEv, ok bool) {
	n := numberOf(na)
	var r1, r2 secp.Number
	if guard(func() { n.VerifSplitExp(&r1, &r2) }) != "" || ng.Sign() < 0 {
		return nil, false
	}
	lo := new(big.Int).Mod(ng, two128)
	hi := new(big.Int).Rsh(ng, 128)
	vals := [4]*big.Int{&r1.Int, &r2.Int, lo, hi}
	ws := [4]uint{secp.WINDOW_A, secp.WINDOW_A, secp.WINDOW_G, secp.WINDOW_G}
	mm := new(big.Int).Mod(m, refN)
	bases := [4]*big.Int{mm, new(big.Int).Mod(new(big.Int).Mul(mm, refLambda), refN), big.NewInt(1), two128}
	var d [4][]int
	bits := 0
	for s := 0; s < 4; s++ {
		if d[s] = wnafOf(vals[s], ws[s]); d[s] == nil && vals[s].Sign() != 0 {
			return nil, false
		}
		if len(d[s]) > bits {
			bits = len(d[s])
		}
	}
	acc := new(big.Int)
	started := false
	for i := bits - 1; i >= 0; i-- {
		acc.Lsh(acc, 1)
		acc.Mod(acc, refN)
		for s := 0; s < 4; s++ {
			if i >= len(d[s]) || d[s][i] == 0 {
				continue
			}
			add := new(big.Int).Mul(bases[s], big.NewInt(int64(d[s][i])))
			add.Mod(add, refN)
			sum := new(big.Int).Add(acc, add)
			sum.Mod(sum, refN)
			rel := "generic"
			switch {
			case !started:
				rel = "first"
			case acc.Sign() == 0:
				rel = "acc-inf"
			case acc.Cmp(add) == 0:
				rel = "double"
			case sum.Sign() == 0:
				rel = "cancel"
			}
			evs = append(evs, loopEv{s, d[s][i] < 0, rel, i})
			acc = sum
			started = true
		}
	}
	return evs, true
}

// randBits: a random non-negative integer of 1..bits bits (0 when bits ≤ 0); signedBits: the same with a random sign
func randBits(g *vlib.Rng, bits int) *big.Int {
	if bits <= 0 {
		return new(big.Int)
	}
	v := new(big.Int).SetBytes(g.Bytes(17))
	return v.Rsh(v, uint(136-1-g.Intn(bits)))
}

func signedBits(g *vlib.Rng, bits int) *big.Int {
	v := randBits(g, bits)
	if g.Bool() {
		v.Neg(v)
	}
	return v
}

// driverValue: a non-negative stream value below 2^limit: random of random length, sparse, runs of ones / zeros,
// 2^k − small, 2^k + small
func driverValue(g *vlib.Rng, limit int) *big.Int {
	bl := 8 + g.Intn(limit-8)
	v := new(big.Int)
	switch g.Intn(5) {
	case 0:
		v = randBits(g, bl)
		v.SetBit(v, bl-1, 1)
	case 1:
		for i := 0; i < 2+g.Intn(5); i++ {
			v.SetBit(v, g.Intn(bl), 1)
		}
	case 2:
		bit := uint(1)
		for i := 0; i < bl; {
			l := 1 + g.Intn(24)
			for k := 0; k < l && i < bl; k++ {
				v.SetBit(v, i, bit)
				i++
			}
			bit ^= 1
		}
	case 3:
		v.Lsh(big1, uint(bl))
		v.Sub(v, big.NewInt(int64(1+g.Intn(1<<uint(1+g.Intn(16))))))
	default:
		v.Lsh(big1, uint(bl-1))
		v.Add(v, randBits(g, 1+g.Intn(bl-1)))
	}
	if v.Sign() < 0 || v.BitLen() > limit {
		v = v.Abs(v).Rsh(v, uint(max(0, v.BitLen()-limit)))
	}
	return v
}

var excCoeffs = []int64{1, -1, 1, -1, 1, -1, 2, -2, 3, -3, 4, 5, -6, -7, 9, 15, -15, 17, -33, 8191}

// buildExceptional: operands aimed at one class (stream tgt, digit sign, relation). ok=false: this draw has no solution
// (no digit of that sign, value out of range, …) — the caller draws again.
func buildExceptional(g *vlib.Rng, tgt int, neg bool, rel string) (m, na, ng *big.Int, ok bool) {
	s, t := tgt, 2+g.Intn(2)
	if tgt >= 2 {
		s, t = g.Intn(2), tgt
	}
	c := excCoeffs[g.Intn(len(excCoeffs))]
	wA, wG := int(secp.WINDOW_A), int(secp.WINDOW_G)
	var v [4]*big.Int
	for i := range v {
		v[i] = new(big.Int)
	}
	pick := func(d []int) int { // a position holding a digit of the wanted sign, top digit last choice
		var pos []int
		for i, x := range d {
			if x != 0 && (x < 0) == neg {
				pos = append(pos, i)
			}
		}
		if len(pos) == 0 {
			return -1
		}
		if len(pos) > 1 && pos[len(pos)-1] == len(d)-1 && !g.Chance(1, 8) {
			pos = pos[:len(pos)-1]
		}
		return pos[g.Intn(len(pos))]
	}
	tau := func(dj int) *big.Int {
		switch rel {
		case "double":
			return big.NewInt(int64(dj))
		case "cancel":
			return big.NewInt(int64(-dj))
		}
		return new(big.Int)
	}
	var j int
	if tgt >= 2 { // a generator-stream digit: the generator value drives, the operand stream is solved
		v[t] = driverValue(g, 126)
		d := wnafOf(v[t], uint(wG))
		if j = pick(d); j < 0 {
			return
		}
		// running sum before the addition at level j: c·γ·P_s(j) + 2γ·P_t(j+1)  =  τ·γ
		num := tau(d[j])
		num.Sub(num, new(big.Int).Lsh(prefixAt(d, j+1), 1))
		if new(big.Int).Rem(num, big.NewInt(c)).Sign() != 0 {
			if c > 0 {
				c = 1
			} else {
				c = -1
			}
		}
		p := new(big.Int).Quo(num, big.NewInt(c))
		if p.Sign() == 0 || p.BitLen()+j > 125 {
			return
		}
		v[s].Lsh(p, uint(j))
		if g.Bool() {
			v[s].Add(v[s], signedBits(g, j-wA-2))
		}
	} else { // an operand-stream digit: the operand value (either sign) drives, the generator stream is solved
		v[s] = driverValue(g, 125)
		if g.Bool() {
			v[s].Neg(v[s])
		}
		d := wnafOf(v[s], uint(wA))
		if j = pick(d); j < 0 {
			return
		}
		// running sum before the addition at level j: 2·(c·γ·P_s(j+1) + γ·P_t(j+1))  =  τ·c·γ
		num := tau(d[j])
		num.Sub(num, new(big.Int).Lsh(prefixAt(d, j+1), 1))
		if num.Bit(0) == 1 && c%2 != 0 {
			c *= 2
		}
		num.Mul(num, big.NewInt(c))
		if num.Sign() < 0 {
			c = -c
			num.Neg(num)
		}
		p := num.Rsh(num, 1)
		if p.Sign() == 0 || p.BitLen()+j+1 > 126 {
			return
		}
		v[t].Lsh(p, uint(j+1))
		if g.Bool() {
			v[t].Add(v[t], signedBits(g, j+1-wG-2))
		}
	}
	// the two other streams: anything that lives strictly below level j
	for i := 0; i < 4; i++ {
		if i == s || i == t || g.Bool() {
			continue
		}
		if i < 2 {
			v[i] = signedBits(g, j-2)
		} else {
			v[i] = randBits(g, j-2)
		}
	}
	if v[2].Sign() < 0 || v[3].Sign() < 0 {
		return
	}
	gamma, beta := big.NewInt(1), big.NewInt(1)
	if t == 3 {
		gamma = two128
	}
	if s == 1 {
		beta = refLambda
	}
	m = new(big.Int).ModInverse(beta, refN)
	m.Mul(m, gamma).Mul(m, big.NewInt(c)).Mod(m, refN)
	na = new(big.Int).Mul(v[1], refLambda)
	na.Add(na, v[0])
	if !(v[1].Sign() == 0 && na.Sign() < 0 && g.Chance(1, 3)) { // a plain negative na now and then
		na.Mod(na, refN)
	}
	ng = new(big.Int).Lsh(v[3], 128)
	ng.Add(ng, v[2])
	return m, na, ng, true
}

func exceptionalCases(g *vlib.Rng) {
	reached := map[string]int{}
	rounds := r.N(3, 60)
	for round := 0; round < rounds; round++ {
		for tgt := 0; tgt < 4; tgt++ {
			for _, neg := range []bool{false, true} {
				for _, rel := range []string{"acc-inf", "double", "cancel"} {
					want := loopEv{s: tgt, neg: neg, rel: rel}.class()
					done := false
					for try := 0; try < 10 && !done; try++ {
						m, na, ng, ok := buildExceptional(g, tgt, neg, rel)
						if !ok {
							continue
						}
						evs, ok := ecmultTrace(m, na, ng)
						if !ok {
							continue
						}
						for _, e := range evs {
							if e.class() == want {
								done = true
							}
						}
						if !done {
							continue
						}
						seen := map[string]bool{}
						for _, e := range evs {
							if e.rel != "generic" && e.rel != "first" && !seen[e.class()] {
								seen[e.class()] = true
								reached[e.class()]++
								r.Hit("ecmult/exceptional:" + e.class())
							}
						}
						p := refMul(m, refG)
						a := jac(g, p, g.Bool())
						if g.Chance(1, 4) {
							a = jacWide(g, p, 8, 8, 8)
						}
						line := fmt.Sprintf("ecmult %s %s %s", a, intHex(na), intHex(ng))
						runCase(line, "exceptional")
						if round == 0 && tgt == 2 && neg && rel == "acc-inf" {
							r.Sample(map[string]string{"line": line, "class": want})
						}
					}
					if !done {
						r.Hit("ecmult/exceptional-miss:" + want)
					}
				}
			}
		}
	}
	r.Extra["ecmult_exceptional_classes_reached"] = len(reached)
}
