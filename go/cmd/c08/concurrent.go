// concurrent.go — several callers at the same time, NOTHING shared between them (C08).
//
// The property quantifies over inputs; the node reaches lib/secp256k1 from many goroutines at once (the inputs of a
// block are verified in parallel, the wallet derives keys while the network thread checks signatures), each with its
// own field elements / points / byte strings. All the Lean models of C08 are FUNCTIONS of the arguments — which is
// the code's behaviour only as long as the package keeps no writable package-level state (a scratch big.Int / Field /
// XYZ, a cache, a pooled buffer). Model/GroupSched.lean states that assumption for Field.InvVar at step level (theorem
// concurrent_inversions_schedule_independent, needs the regenerated fact `invScratchShared = false`), gen_c08
// re-derives "no function of the package writes a package-level variable outside init" from the source
// (package_keeps_no_writable_state), and this stream looks for the concrete failing input:
//
//	every job is one call (or call + observation) on inputs owned by one goroutine; its expected observable
//	("want") is computed by the independent math/big reference of ref.go, i.e. it is the property's own predicate.
//	W goroutines (2..16) run their own job lists for R rounds after a common start signal. A result that differs
//	from `want` while the same job run ALONE (before and after) gives `want` is a property failure that needs the
//	other callers: PropFail key concurrent-<op>, the whole scenario is the replay (one `conc` line).
//
// Job forms (tokens): inv <fe> | finv <fe> | fmul <fe> <fe> | setxyz <xyz> | add3 <xyz> <xyz> | gen <k> |
// ecmult <xyz> <na> <ng> | bm <k32> | bma <pub> <k32> | mul <pub> <k32> | parse <pub33> | decomp <x32> <odd> |
// dbl <xyz> | negj <xyz> | addxy <xyz> <xy> | negxy <xy> (XY.Neg + IsValid + GetPublicKey) | setxo <fe> <odd> |
// xonly <x32> (ParseXOnlyPubkey) | sqrt <fe> | verify <pub> <der> <msg32> <true|false> (secp.Verify = ParsePubkey +
// Signature.Verify, the ECDSA caller of ECmult / InvVar in sig.go; signature made by the math/big reference).
// Line form: conc <family> <rounds> <job> ; <job> ; … | <job> ; …      (workers separated by " | ").
package main

import (
	"encoding/hex"
	"fmt"
	"math/big"
	"strconv"
	"strings"
	"sync"
	"time"

	secp "github.com/piotrnar/gocoin/lib/secp256k1"
	"verif/vlib"
)

type concJob []string

func ptStr(p pt) string {
	if p.inf {
		return "inf"
	}
	return hex.EncodeToString(b32(p.x)) + hex.EncodeToString(b32(p.y))
}

func mustFe(s string) fe {
	a, ok := parseFe(s)
	if !ok {
		harnessBug("bad field element in a conc job: " + s)
	}
	return a
}

func mustXYZ(t []string) xyz {
	a, ok := parseXYZ(t)
	if !ok {
		harnessBug("bad xyz in a conc job")
	}
	return a
}

func mustHex(s string) []byte {
	b, ok := unhexOrDash(s)
	if !ok {
		harnessBug("bad hex in a conc job: " + s)
	}
	return b
}

func mustInt(s string) *big.Int {
	v, ok := parseInt(s)
	if !ok {
		harnessBug("bad integer in a conc job: " + s)
	}
	return v
}

// concRun: the real code on one job; every object it touches is created here. Returns a canonical line.
func concRun(j concJob) (line string) {
	defer func() {
		if x := recover(); x != nil {
			line = fmt.Sprint("PANIC ", x)
		}
	}()
	switch j[0] {
	case "inv", "finv": // Field.InvVar (through math/big) / Field.Inv (addition chain), observed as normalised bytes
		f := mustFe(j[1]).field()
		var out secp.Field
		if j[0] == "inv" {
			f.InvVar(&out)
		} else {
			f.Inv(&out)
		}
		return hex.EncodeToString(observe(limbsOf(&out)))
	case "fmul":
		f, h := mustFe(j[1]).field(), mustFe(j[2]).field()
		var out secp.Field
		f.Mul(&out, &h)
		return hex.EncodeToString(observe(limbsOf(&out)))
	case "setxyz": // Jacobian -> affine -> SEC1 bytes
		g := mustXYZ(j[1:5]).goXYZ()
		var pk secp.XY
		var out [65]byte
		pk.SetXYZ(&g)
		if pk.Infinity {
			return "inf"
		}
		pk.GetPublicKey(out[:])
		return hex.EncodeToString(out[1:])
	case "add3":
		ga, gb := mustXYZ(j[1:5]).goXYZ(), mustXYZ(j[5:9]).goXYZ()
		var out secp.XYZ
		ga.Add(&out, &gb)
		p, on := xyzOf(&out).ref()
		if !on {
			return "off-curve " + xyzOf(&out).String()
		}
		return ptStr(p)
	case "gen":
		n := numberOf(mustInt(j[1]))
		var out secp.XYZ
		secp.ECmultGen(&out, &n)
		p, on := xyzOf(&out).ref()
		if !on {
			return "off-curve " + xyzOf(&out).String()
		}
		return ptStr(p)
	case "ecmult":
		g := mustXYZ(j[1:5]).goXYZ()
		na, ng := numberOf(mustInt(j[5])), numberOf(mustInt(j[6]))
		var out secp.XYZ
		g.ECmult(&out, &na, &ng)
		p, on := xyzOf(&out).ref()
		if !on {
			return "off-curve " + xyzOf(&out).String()
		}
		return ptStr(p)
	case "bm":
		out := make([]byte, 33)
		if !secp.BaseMultiply(mustHex(j[1]), out) {
			return "false"
		}
		return "true " + hex.EncodeToString(out)
	case "bma":
		out := make([]byte, 33)
		if !secp.BaseMultiplyAdd(mustHex(j[1]), mustHex(j[2]), out) {
			return "false"
		}
		return "true " + hex.EncodeToString(out)
	case "mul":
		out := make([]byte, 65)
		if !secp.Multiply(mustHex(j[1]), mustHex(j[2]), out) {
			return "false"
		}
		return "true " + hex.EncodeToString(out)
	case "parse":
		var key secp.XY
		if !key.ParsePubkey(mustHex(j[1])) {
			return "false"
		}
		out := make([]byte, 65)
		key.GetPublicKey(out)
		return "true " + hex.EncodeToString(out)
	case "decomp":
		y := make([]byte, 32)
		secp.DecompressPoint(mustHex(j[1]), j[2] == "1", y)
		return hex.EncodeToString(y)
	case "dbl", "negj":
		ga := mustXYZ(j[1:5]).goXYZ()
		var out secp.XYZ
		if j[0] == "dbl" {
			ga.Double(&out)
		} else {
			ga.Neg(&out)
		}
		p, on := xyzOf(&out).ref()
		if !on {
			return "off-curve " + xyzOf(&out).String()
		}
		return ptStr(p)
	case "addxy":
		ga := mustXYZ(j[1:5]).goXYZ()
		b, ok := parseXY(j[5:8])
		if !ok {
			harnessBug("bad xy in a conc job")
		}
		gb := b.goXY()
		var out secp.XYZ
		ga.AddXY(&out, &gb)
		p, on := xyzOf(&out).ref()
		if !on {
			return "off-curve " + xyzOf(&out).String()
		}
		return ptStr(p)
	case "negxy":
		b, ok := parseXY(j[1:4])
		if !ok {
			harnessBug("bad xy in a conc job")
		}
		gb := b.goXY()
		var out secp.XY
		gb.Neg(&out)
		if !out.IsValid() {
			return "invalid"
		}
		buf := make([]byte, 65)
		out.GetPublicKey(buf)
		return hex.EncodeToString(buf[1:])
	case "setxo":
		x := mustFe(j[1]).field()
		var out secp.XY
		out.SetXO(&x, j[2] == "1")
		return hex.EncodeToString(observe(limbsOf(&out.X))) + hex.EncodeToString(observe(limbsOf(&out.Y)))
	case "xonly":
		var key secp.XY
		if !key.ParseXOnlyPubkey(mustHex(j[1])) {
			return "false"
		}
		out := make([]byte, 65)
		key.GetPublicKey(out)
		return "true " + hex.EncodeToString(out[1:])
	case "sqrt":
		x := mustFe(j[1]).field()
		var out secp.Field
		x.Sqrt(&out)
		return hex.EncodeToString(observe(limbsOf(&out)))
	case "verify":
		return strconv.FormatBool(secp.Verify(mustHex(j[1]), mustHex(j[2]), mustHex(j[3])))
	}
	harnessBug("unknown conc job " + j[0])
	return ""
}

// concWant: the same observable from the math/big reference (nothing of gocoin)
func concWant(j concJob) string {
	switch j[0] {
	case "inv", "finv":
		v := modP(mustFe(j[1]).val())
		if v.Sign() != 0 {
			v.ModInverse(v, refP)
		}
		return hex.EncodeToString(b32(v))
	case "fmul":
		return hex.EncodeToString(b32(modP(new(big.Int).Mul(mustFe(j[1]).val(), mustFe(j[2]).val()))))
	case "setxyz":
		p, _ := mustXYZ(j[1:5]).ref()
		return ptStr(p)
	case "add3":
		a, _ := mustXYZ(j[1:5]).ref()
		b, _ := mustXYZ(j[5:9]).ref()
		return ptStr(refAdd(a, b))
	case "gen":
		return ptStr(refMul(new(big.Int).Mod(mustInt(j[1]), two256), refG))
	case "ecmult":
		a, _ := mustXYZ(j[1:5]).ref()
		return ptStr(refAdd(refMul(mustInt(j[5]), a), refMul(mustInt(j[6]), refG)))
	case "bm":
		p := refMul(new(big.Int).SetBytes(mustHex(j[1])), refG)
		if p.inf {
			return "false"
		}
		return "true " + hex.EncodeToString(sec1(p, false))
	case "bma", "mul":
		a, ok := refParseKey(mustHex(j[1]))
		if !ok {
			return "false"
		}
		k := new(big.Int).SetBytes(mustHex(j[2]))
		var p pt
		if j[0] == "bma" {
			p = refAdd(a, refMul(k, refG))
		} else {
			p = refMul(k, a)
		}
		if p.inf {
			return "false"
		}
		return "true " + hex.EncodeToString(sec1(p, j[0] == "mul"))
	case "parse":
		a, ok := refParseKey(mustHex(j[1]))
		if !ok {
			return "false"
		}
		return "true " + hex.EncodeToString(sec1(a, true))
	case "decomp":
		p, ok := refLift(new(big.Int).SetBytes(mustHex(j[1])), j[2] == "1")
		if !ok {
			return "none"
		}
		return hex.EncodeToString(b32(p.y))
	case "dbl":
		a, _ := mustXYZ(j[1:5]).ref()
		return ptStr(refDbl(a))
	case "negj":
		a, _ := mustXYZ(j[1:5]).ref()
		return ptStr(refNeg(a))
	case "addxy":
		a, _ := mustXYZ(j[1:5]).ref()
		b, _ := parseXY(j[5:8])
		bp, _ := b.ref()
		return ptStr(refAdd(a, bp))
	case "negxy":
		b, _ := parseXY(j[1:4])
		bp, _ := b.ref()
		return ptStr(refNeg(bp))
	case "setxo", "xonly":
		var x *big.Int
		odd := false
		if j[0] == "setxo" {
			x, odd = modP(mustFe(j[1]).val()), j[2] == "1"
		} else {
			x = new(big.Int).SetBytes(mustHex(j[1]))
		}
		p, ok := refLift(x, odd)
		if !ok {
			return "false"
		}
		if j[0] == "xonly" {
			return "true " + ptStr(p)
		}
		return ptStr(p)
	case "sqrt":
		// Field.Sqrt is a^((p+1)/4): that root, whichever of the two it is
		e := new(big.Int).Rsh(new(big.Int).Add(refP, big1), 2)
		return hex.EncodeToString(b32(new(big.Int).Exp(modP(mustFe(j[1]).val()), e, refP)))
	case "verify":
		return j[4] // decided when the job was made: the math/big reference made (or spoiled) the signature
	}
	return "?"
}

// refDer: DER of an ECDSA signature (r, s), minimal positive integers
func refDer(rr, ss *big.Int) []byte {
	enc := func(v *big.Int) []byte {
		b := v.Bytes()
		if len(b) == 0 || b[0]&0x80 != 0 {
			b = append([]byte{0}, b...)
		}
		return append([]byte{2, byte(len(b))}, b...)
	}
	body := append(enc(rr), enc(ss)...)
	return append([]byte{0x30, byte(len(body))}, body...)
}

// refSignJob: an ECDSA signature by math/big alone (key d, nonce k, message z); spoiled = the message differs by one
func refSignJob(g *vlib.Rng) concJob {
	for {
		d := new(big.Int).Mod(randScalar(g), refN)
		k := new(big.Int).Mod(randScalar(g), refN)
		z := randScalar(g)
		if d.Sign() == 0 || k.Sign() == 0 {
			continue
		}
		R := refMul(k, refG)
		rr := new(big.Int).Mod(R.x, refN)
		ss := new(big.Int).Mul(rr, d)
		ss.Add(ss, z)
		ss.Mul(ss, new(big.Int).ModInverse(k, refN))
		ss.Mod(ss, refN)
		if rr.Sign() == 0 || ss.Sign() == 0 {
			continue
		}
		good := g.Chance(3, 4)
		msg := new(big.Int).Set(z)
		if !good {
			msg.Xor(msg, big.NewInt(1))
		}
		return concJob{"verify", hex.EncodeToString(sec1(refMul(d, refG), g.Bool())), hex.EncodeToString(refDer(rr, ss)),
			hex.EncodeToString(b32(msg)), strconv.FormatBool(good)}
	}
}

func concDescribe(j concJob) string {
	s := strings.Join(j, " ")
	if len(s) > 300 {
		s = s[:300] + "…"
	}
	return s
}

// concJobOf: one job of a family, on fresh inputs
func concJobOf(g *vlib.Rng, family string, edges []*big.Int) concJob {
	k32 := func() string {
		s := genScalar(g, edges)
		if s.Sign() < 0 {
			s.Neg(s)
		}
		return hex.EncodeToString(b32(new(big.Int).Mod(s, two256)))
	}
	pub := func() string {
		p := randPoint(g)
		return hex.EncodeToString(sec1(p, g.Bool()))
	}
	kinds := map[string][]string{
		"inv":   {"inv", "inv", "inv", "setxyz", "finv"},
		"api":   {"bm", "bm", "bma", "mul"},
		"group": {"setxyz", "add3", "gen", "ecmult", "parse", "decomp", "fmul"},
		"mixed": {"inv", "setxyz", "bm", "bma", "mul", "gen", "ecmult", "add3", "parse", "decomp", "fmul", "finv", "verify", "dbl", "addxy", "xonly"},
		// the remaining entry points of the group layer and the ECDSA caller in sig.go
		"entry": {"dbl", "negj", "addxy", "negxy", "setxo", "xonly", "sqrt", "verify", "verify", "inv"},
	}[family]
	for {
		switch kinds[g.Intn(len(kinds))] {
		case "inv":
			return concJob{"inv", genFe(g, g.Pick(0, 1, 1, 2, 8, 32)).String()}
		case "finv":
			return concJob{"finv", genFe(g, g.Pick(0, 1, 2, 8)).String()}
		case "fmul":
			return concJob{"fmul", genFe(g, g.Pick(1, 4, 8)).String(), genFe(g, g.Pick(1, 4, 8)).String()}
		case "setxyz":
			return append(concJob{"setxyz"}, strings.Fields(jacWide(g, randPoint(g), 8, 8, 8).String())...)
		case "add3":
			p := randPoint(g)
			q := randPoint(g)
			switch g.Intn(4) {
			case 0:
				q = p
			case 1:
				q = refNeg(p)
			}
			return append(append(concJob{"add3"}, strings.Fields(jac(g, p, true).String())...), strings.Fields(jac(g, q, true).String())...)
		case "gen":
			return concJob{"gen", k32()}
		case "ecmult":
			return append(append(concJob{"ecmult"}, strings.Fields(jac(g, randPoint(g), true).String())...), k32(), k32())
		case "bm":
			return concJob{"bm", k32()}
		case "bma":
			return concJob{"bma", pub(), k32()}
		case "mul":
			return concJob{"mul", pub(), k32()}
		case "parse":
			p := randPoint(g)
			return concJob{"parse", hex.EncodeToString(sec1(p, false))}
		case "decomp":
			p := randPoint(g)
			if p.inf {
				continue
			}
			return concJob{"decomp", hex.EncodeToString(b32(p.x)), b01(g.Bool())}
		case "dbl":
			return append(concJob{"dbl"}, strings.Fields(jacWide(g, randPoint(g), 8, 8, 8).String())...)
		case "negj":
			return append(concJob{"negj"}, strings.Fields(jacWide(g, randPoint(g), 8, 8, 8).String())...)
		case "addxy":
			p := randPoint(g)
			q := randPoint(g)
			switch g.Intn(4) {
			case 0:
				q = p
			case 1:
				q = refNeg(p)
			}
			return append(append(concJob{"addxy"}, strings.Fields(jac(g, p, true).String())...), strings.Fields(aff(g, q, true).String())...)
		case "negxy":
			p := randPoint(g)
			if p.inf {
				continue
			}
			return append(concJob{"negxy"}, strings.Fields(aff(g, p, true).String())...)
		case "setxo":
			p := randPoint(g)
			if p.inf {
				continue
			}
			return concJob{"setxo", denorm(feOfBig(p.x), uint64(g.Intn(2))).String(), b01(g.Bool())}
		case "xonly":
			p := randPoint(g)
			if p.inf {
				continue
			}
			return concJob{"xonly", hex.EncodeToString(b32(p.x))}
		case "sqrt":
			v := modP(randScalar(g))
			return concJob{"sqrt", denorm(feOfBig(modP(new(big.Int).Mul(v, v))), uint64(g.Intn(4))).String()}
		case "verify":
			return refSignJob(g)
		}
	}
}

type concBad struct {
	worker, job, round int
	line               string
}

func concParallel(lists [][]concJob, want [][]string, rounds int, deadline time.Time) (bad []concBad, runs int) {
	var wg sync.WaitGroup
	start := make(chan struct{})
	perBad := make([][]concBad, len(lists))
	perRuns := make([]int, len(lists))
	for w := range lists {
		wg.Add(1)
		go func(w int) {
			defer wg.Done()
			<-start
			for rd := 0; rd < rounds; rd++ {
				for n, j := range lists[w] {
					l := concRun(j)
					perRuns[w]++
					if l != want[w][n] && len(perBad[w]) < 2 {
						perBad[w] = append(perBad[w], concBad{w, n, rd, l})
					}
				}
				if len(perBad[w]) >= 2 || (!deadline.IsZero() && rd&7 == 7 && time.Now().After(deadline)) {
					return
				}
			}
		}(w)
	}
	close(start)
	wg.Wait()
	for w := range lists {
		bad = append(bad, perBad[w]...)
		runs += perRuns[w]
	}
	return
}

func concLine(family string, rounds int, lists [][]concJob) string {
	var ws []string
	for _, l := range lists {
		var js []string
		for _, j := range l {
			js = append(js, strings.Join(j, " "))
		}
		ws = append(ws, strings.Join(js, " ; "))
	}
	return fmt.Sprintf("conc %s %d %s", family, rounds, strings.Join(ws, " | "))
}

func extraInt(k string) int {
	v, _ := r.Extra[k].(int)
	return v
}

// checkConc: one scenario.
func checkConc(family, origin string, lists [][]concJob, rounds int) {
	c := &caseRec{Line: concLine(family, rounds, lists), Origin: origin}
	want := make([][]string, len(lists))
	// alone first: a failure here does not need the other callers
	for w := range lists {
		for _, j := range lists[w] {
			r.Eval("conc/"+family+"/"+j[0], "conc:"+strings.Join(j, " "))
			wl := concWant(j)
			want[w] = append(want[w], wl)
			if l := concRun(j); l != wl && !(j[0] == "decomp" && wl == "none") {
				propFail("conc-alone-"+j[0], fmt.Sprintf("%s = %q, the reference gives %q (single caller)", concDescribe(j), l, wl),
					&caseRec{Line: concLine(family, 1, [][]concJob{{j}}), Origin: origin})
				return
			}
		}
	}
	var deadline time.Time
	if origin == "replay" {
		deadline = time.Now().Add(20 * time.Second)
	}
	bad, runs := concParallel(lists, want, rounds, deadline)
	r.Hit(fmt.Sprintf("conc-goroutines/%d", len(lists)))
	r.Extra["concurrent_job_runs"] = extraInt("concurrent_job_runs") + runs
	if len(bad) == 0 {
		r.TieOK() // all results of the scenario = the function of the arguments the models describe
		return
	}
	seen := map[string]bool{}
	for _, b := range bad {
		j := lists[b.worker][b.job]
		if seen[j[0]] {
			continue
		}
		seen[j[0]] = true
		after := concRun(j)
		alone := "run alone again afterwards it gives the reference value"
		if after != want[b.worker][b.job] {
			alone = fmt.Sprintf("run alone again afterwards it gives %q (state damaged for good)", after)
		}
		propFail("concurrent-"+j[0], fmt.Sprintf("%d goroutines, each on its own inputs and objects (family %s, round %d): %s = %q, arithmetic mod p / the group law (and the same call made alone) gives %q; %s",
			len(lists), family, b.round, concDescribe(j), b.line, want[b.worker][b.job], alone), c)
	}
}

// runConcLine: replay of one `conc` line (a schedule cannot be recorded: the scenario runs for up to 50x the rounds, 20 s at most)
func runConcLine(line, origin string) {
	t := strings.SplitN(line, " ", 4)
	if len(t) < 4 {
		harnessBug("malformed conc line")
	}
	rounds, err := strconv.Atoi(t[2])
	if err != nil {
		harnessBug("malformed conc line")
	}
	var lists [][]concJob
	for _, w := range strings.Split(t[3], " | ") {
		var l []concJob
		for _, j := range strings.Split(w, " ; ") {
			l = append(l, concJob(strings.Fields(j)))
		}
		lists = append(lists, l)
	}
	if origin == "replay" && len(lists) > 1 {
		rounds *= 50
	}
	checkConc(t[1], origin, lists, rounds)
}

// tieSched: the step-level Lean model of InvVar (GroupSched, variant selected by the regenerated fact invScratchShared)
// under a random interleaving of the callers' three steps, against arithmetic mod p (= what the real callers produced
// when checkConc found no difference). One inversion per caller.
func tieSched(g *vlib.Rng, lists [][]concJob) {
	var args, exp []string
	for _, l := range lists {
		for _, j := range l {
			if j[0] == "inv" {
				args = append(args, j[1])
				v, _ := new(big.Int).SetString(concWant(j), 16)
				exp = append(exp, feOfBig(v).String())
				break
			}
		}
	}
	if len(args) < 2 {
		return
	}
	left := make([]int, len(args))
	total := 0
	for i := range left {
		left[i] = g.Intn(4) // 0..3 of its three steps inside the interleaving; the oracle completes the rest
		total += left[i]
	}
	var sched []string
	for total > 0 {
		k := g.Intn(len(left))
		if left[k] > 0 {
			left[k]--
			total--
			sched = append(sched, strconv.Itoa(k))
		}
	}
	sc := "-"
	if len(sched) > 0 {
		sc = strings.Join(sched, ",")
	}
	line := "invsched " + sc + " " + strings.Join(args, " ")
	r.Eval("conc/invsched", line)
	mo := o.MustAsk(line)
	if mo != strings.Join(exp, " ") {
		r.TieFail("tie-invsched", fmt.Sprintf("step-level model of Field.InvVar under the interleaving %s of %d callers gives %q, arithmetic mod p (and the real callers) give %q", sc, len(args), mo, strings.Join(exp, " ")),
			&caseRec{Line: line, Origin: "conc", Model: mo, Impl: strings.Join(exp, " ")})
		return
	}
	r.TieOK()
}

func concStreams(g *vlib.Rng) {
	t0 := time.Now()
	edges := edgeScalars()
	type sc struct {
		family          string
		workers, rounds int
	}
	plan := []sc{
		{"inv", 2, r.N(1500, 20000)}, {"inv", 8, r.N(1500, 20000)}, {"inv", 16, r.N(800, 10000)},
		{"api", 2, r.N(40, 600)}, {"api", 8, r.N(40, 600)}, {"api", 16, r.N(25, 400)},
		{"group", 4, r.N(30, 400)}, {"group", 8, r.N(30, 400)},
		{"mixed", 2, r.N(40, 500)}, {"mixed", 8, r.N(40, 500)}, {"mixed", 16, r.N(25, 300)},
		{"entry", 4, r.N(40, 500)}, {"entry", 12, r.N(30, 400)},
	}
	for i, p := range plan {
		lists := make([][]concJob, p.workers)
		for w := range lists {
			for n := 0; n < 10; n++ {
				lists[w] = append(lists[w], concJobOf(g, p.family, edges))
			}
		}
		checkConc(p.family, "conc", lists, p.rounds)
		if p.family == "inv" || p.family == "mixed" || p.family == "entry" {
			tieSched(g, lists)
		}
		if i == 0 {
			r.Sample(map[string]interface{}{"op": "conc", "family": p.family, "goroutines": p.workers, "rounds": p.rounds, "first_job": strings.Join(lists[0][0], " ")})
		}
	}
	r.Extra["concurrent_stream_ms"] = time.Since(t0).Milliseconds()
}
