// history.go — operation SEQUENCES on point OBJECTS (C08: "all operation sequences respecting the magnitude contract").
//
// Every other stream of this harness builds fresh operands for one call and looks at the RESULT. The Go methods work
// on objects the caller keeps (var a XYZ; ECmultGen(&a,k); pk.SetXYZ(&a); a.AddXY(&a,&g); pk2.SetXYZ(&a) …): what a
// call leaves in its OPERANDS, and what a result register held before, is part of its behaviour as soon as an object is
// used twice. A history is one protocol line
//
//	hist <nJ> <nA> <xyz>*nJ <xy>*nA <op> <op> …
//
// over nJ Jacobian and nA affine registers; an op names the registers of one method call (result and operand may be the
// same register — a.Add(&a,&b), a.Double(&a)):
//
//	dbl:i:k  add:i:j:k  addxy:i:a:k  neg:i:k  negxy:a:b  setxyz:i:a  setxy:a:k  gen:s:k  lam:i:k  mult:i:na:ng:k
//
// The real calls are made on the SAME secp.XYZ / secp.XY objects from the first op to the last. After EVERY call EVERY
// register is read (pure big-integer arithmetic on its limbs, nothing of gocoin) and must stand for the point the
// reference group law (ref.go) gives for it — the result register AND all others, i.e. also the operands of the call:
//
//	group-history:<op>   the result register of the call is wrong / out of the magnitude contract
//	group-operand:<op>   a register the call was not asked to write (an operand, a bystander) no longer stands for its point
//
// The one call that legitimately rewrites an operand is XY.SetXYZ (it rescales its Jacobian argument in place: another
// triple for the SAME point) — which is exactly what the predicate admits: the point, not the limbs, must be kept.
// At the end every finite Jacobian register is observed through a COPY (SetXYZ + GetPublicKey) and the whole register
// file is compared register by register (limbs, or the same point within the contract) with the Lean register machine Model.GroupHist.run (oracle op `hist`; theorem
// history_correct). Single calls get the same judgement of their operands through operandKept (main.go).
package main

import (
	"encoding/hex"
	"fmt"
	"math/big"
	"strconv"
	"strings"
	"time"

	secp "github.com/piotrnar/gocoin/lib/secp256k1"
	"verif/vlib"
)

type histOp struct {
	kind    string
	i, j, k int
	na, ng  *big.Int
}

func (o histOp) String() string {
	switch o.kind {
	case "dbl", "neg", "negxy", "setxyz", "setxy", "lam":
		return fmt.Sprintf("%s:%d:%d", o.kind, o.i, o.k)
	case "add", "addxy":
		return fmt.Sprintf("%s:%d:%d:%d", o.kind, o.i, o.j, o.k)
	case "gen":
		return fmt.Sprintf("gen:%s:%d", intHex(o.ng), o.k)
	case "mult":
		return fmt.Sprintf("mult:%d:%s:%s:%d", o.i, intHex(o.na), intHex(o.ng), o.k)
	}
	return "?"
}

func parseHistOp(s string, nJ, nA int) (o histOp, ok bool) {
	f := strings.Split(s, ":")
	o.kind = f[0]
	idx := func(t string, n int) int {
		v, err := strconv.Atoi(t)
		if err != nil || v < 0 || v >= n {
			ok = false
			return 0
		}
		return v
	}
	ok = true
	switch {
	case (o.kind == "dbl" || o.kind == "neg" || o.kind == "lam") && len(f) == 3:
		o.i, o.k = idx(f[1], nJ), idx(f[2], nJ)
	case o.kind == "negxy" && len(f) == 3:
		o.i, o.k = idx(f[1], nA), idx(f[2], nA)
	case o.kind == "setxyz" && len(f) == 3:
		o.i, o.k = idx(f[1], nJ), idx(f[2], nA)
	case o.kind == "setxy" && len(f) == 3:
		o.i, o.k = idx(f[1], nA), idx(f[2], nJ)
	case o.kind == "add" && len(f) == 4:
		o.i, o.j, o.k = idx(f[1], nJ), idx(f[2], nJ), idx(f[3], nJ)
	case o.kind == "addxy" && len(f) == 4:
		o.i, o.j, o.k = idx(f[1], nJ), idx(f[2], nA), idx(f[3], nJ)
	case o.kind == "gen" && len(f) == 3:
		var ok2 bool
		o.ng, ok2 = parseInt(f[1])
		o.k = idx(f[2], nJ)
		ok = ok && ok2 && o.ng.Sign() >= 0
	case o.kind == "mult" && len(f) == 5:
		var ok2, ok3 bool
		o.i = idx(f[1], nJ)
		o.na, ok2 = parseInt(f[2])
		o.ng, ok3 = parseInt(f[3])
		o.k = idx(f[4], nJ)
		ok = ok && ok2 && ok3 && o.ng.Sign() >= 0
	default:
		ok = false
	}
	return
}

// operandKept: a call was not asked to write this object. Bit-identical is the usual case; a different triple for the
// SAME point within the contract is admitted (histogram only); anything else is a property failure.
func operandKept(op, which string, before xyz, now *secp.XYZ, c *caseRec) bool {
	after := xyzOf(now)
	if after == before {
		return true
	}
	bp, on := before.ref()
	if !on || !before.inContract() {
		return true // nothing is promised about operands outside the contract
	}
	if after.inf == before.inf && after.inf {
		return true
	}
	ap, on2 := after.ref()
	if after.inf != before.inf || !on2 || !ap.eq(bp) || !after.inContract() {
		propFail("group-operand:"+op, fmt.Sprintf("%s: after the call the %s (an object the call only reads, or may only re-represent) holds %s = the point %s; before it held the point %s: the caller's object is damaged for every later use",
			c.Line, which, after, ap, bp), c)
		return false
	}
	r.Hit("operand-rerepresented/" + op)
	return true
}

func operandKeptXY(op, which string, before xy, now *secp.XY, c *caseRec) bool {
	after := xyOf(now)
	if after == before {
		return true
	}
	bp, on := before.ref()
	if !on || !before.inContract() || (after.inf && before.inf) {
		return true
	}
	ap, on2 := after.ref()
	if after.inf != before.inf || !on2 || !ap.eq(bp) || !after.inContract() {
		propFail("group-operand:"+op, fmt.Sprintf("%s: after the call the %s (an object the call only reads) holds %s = the point %s; before it held the point %s", c.Line, which, after, ap, bp), c)
		return false
	}
	r.Hit("operand-rerepresented/" + op)
	return true
}

// runHist: one history line on the real objects, the reference points and the Lean register machine.
func runHist(line, origin string) {
	t := strings.Fields(line)
	c := &caseRec{Line: line, Origin: origin}
	bad := func() { harnessBug("malformed history line: " + line) }
	if len(t) < 3 {
		bad()
	}
	nJ, e1 := strconv.Atoi(t[1])
	nA, e2 := strconv.Atoi(t[2])
	if e1 != nil || e2 != nil || nJ < 0 || nA < 0 || nJ > 16 || nA > 16 || len(t) < 3+4*nJ+3*nA {
		bad()
	}
	r.Eval("hist/"+origin, line)
	J := make([]secp.XYZ, nJ)
	A := make([]secp.XY, nA)
	PJ := make([]pt, nJ)
	PA := make([]pt, nA)
	judged := true
	p := 3
	for i := 0; i < nJ; i++ {
		a, ok := parseXYZ(t[p : p+4])
		if !ok {
			bad()
		}
		p += 4
		J[i] = a.goXYZ()
		ap, on := a.ref()
		if !on || !a.inContract() {
			judged = false
		}
		PJ[i] = ap
	}
	for i := 0; i < nA; i++ {
		a, ok := parseXY(t[p : p+3])
		if !ok {
			bad()
		}
		p += 3
		A[i] = a.goXY()
		ap, on := a.ref()
		if !on || !a.inContract() {
			judged = false
		}
		PA[i] = ap
	}
	var ops []histOp
	for _, s := range t[p:] {
		o, ok := parseHistOp(s, nJ, nA)
		if !ok {
			bad()
		}
		ops = append(ops, o)
	}
	// check: every register against its reference point; `res` = the register the call was asked to write ("J3"/"A1")
	check := func(step int, o histOp, res string) bool {
		for k := range J {
			name := fmt.Sprintf("J%d", k)
			now := xyzOf(&J[k])
			got, on := now.ref()
			okk := now.inf == PJ[k].inf && (now.inf || (on && got.eq(PJ[k]) && now.inContract()))
			if okk {
				continue
			}
			key := "group-operand:" + o.kind
			role := "a register this call was not asked to write"
			if name == res {
				key, role = "group-history:"+o.kind, "the result register"
			}
			propFail(key, fmt.Sprintf("history step %d (%s): %s %s holds %s (Infinity=%v) = the point %s, the group law gives %s for it at this stage (limbs within magnitude 8: %v)",
				step, o, role, name, now, now.inf, got, PJ[k], now.inContract()), c)
			return false
		}
		for k := range A {
			name := fmt.Sprintf("A%d", k)
			now := xyOf(&A[k])
			got, on := now.ref()
			okk := now.inf == PA[k].inf && (now.inf || (on && got.eq(PA[k]) && now.inContract()))
			if okk {
				continue
			}
			key := "group-operand:" + o.kind
			role := "a register this call was not asked to write"
			if name == res {
				key, role = "group-history:"+o.kind, "the result register"
			}
			propFail(key, fmt.Sprintf("history step %d (%s): %s %s holds %s (Infinity=%v) = the point %s, the group law gives %s for it at this stage",
				step, o, role, name, now, now.inf, got, PA[k]), c)
			return false
		}
		return true
	}
	panicked := false
	for step, o := range ops {
		res := ""
		pan := guard(func() {
			switch o.kind {
			case "dbl":
				J[o.i].Double(&J[o.k])
			case "add":
				J[o.i].Add(&J[o.k], &J[o.j])
			case "addxy":
				J[o.i].AddXY(&J[o.k], &A[o.j])
			case "neg":
				J[o.i].Neg(&J[o.k])
			case "negxy":
				A[o.i].Neg(&A[o.k])
			case "setxyz":
				A[o.k].SetXYZ(&J[o.i])
			case "setxy":
				J[o.k].SetXY(&A[o.i])
			case "gen":
				n := numberOf(o.ng)
				secp.ECmultGen(&J[o.k], &n)
			case "lam":
				J[o.i].VerifMulLambda(&J[o.k])
			case "mult":
				na, ng := numberOf(o.na), numberOf(o.ng)
				J[o.i].ECmult(&J[o.k], &na, &ng)
			}
		})
		r.Hit("hist-op/" + o.kind)
		switch o.kind {
		case "dbl":
			PJ[o.k], res = refDbl(PJ[o.i]), fmt.Sprintf("J%d", o.k)
		case "add":
			PJ[o.k], res = refAdd(PJ[o.i], PJ[o.j]), fmt.Sprintf("J%d", o.k)
		case "addxy":
			PJ[o.k], res = refAdd(PJ[o.i], PA[o.j]), fmt.Sprintf("J%d", o.k)
		case "neg":
			PJ[o.k], res = refNeg(PJ[o.i]), fmt.Sprintf("J%d", o.k)
		case "negxy":
			PA[o.k], res = refNeg(PA[o.i]), fmt.Sprintf("A%d", o.k)
		case "setxyz":
			PA[o.k], res = PJ[o.i], fmt.Sprintf("A%d", o.k)
		case "setxy":
			PJ[o.k], res = PA[o.i], fmt.Sprintf("J%d", o.k)
		case "gen":
			PJ[o.k], res = refMul(new(big.Int).Mod(o.ng, two256), refG), fmt.Sprintf("J%d", o.k)
		case "lam":
			PJ[o.k], res = refMul(refLambda, PJ[o.i]), fmt.Sprintf("J%d", o.k)
		case "mult":
			PJ[o.k], res = refAdd(refMul(o.na, PJ[o.i]), refMul(o.ng, refG)), fmt.Sprintf("J%d", o.k)
		}
		if pan != "" {
			if o.kind == "mult" && (o.na.BitLen() > 256 || o.ng.BitLen() > 256) {
				panicked = true // ECmult's wNAF array admits 129 digits: scalars beyond 2^256 may panic (model: none)
				break
			}
			propFail("panic:hist-"+o.kind, fmt.Sprintf("history step %d (%s): the real code panics: %s", step, o, pan), c)
			return
		}
		if o.kind == "setxyz" && J[o.i].Infinity != PJ[o.i].inf {
			// (covered by check below as well; kept separate for a readable message)
			r.Hit("hist/setxyz-flag-of-argument-changed")
		}
		if judged && !check(step, o, res) {
			return
		}
	}
	// final observation of every finite Jacobian register through a COPY
	if judged && !panicked {
		for k := range J {
			if PJ[k].inf {
				continue
			}
			cp := J[k]
			var pk secp.XY
			var out [65]byte
			if pan := guard(func() { pk.SetXYZ(&cp); pk.GetPublicKey(out[:]) }); pan != "" {
				propFail("group-observe-panic:hist", fmt.Sprintf("final J%d: SetXYZ/GetPublicKey panics: %s", k, pan), c)
				return
			}
			if hex.EncodeToString(out[1:33]) != hex.EncodeToString(b32(PJ[k].x)) || hex.EncodeToString(out[33:]) != hex.EncodeToString(b32(PJ[k].y)) {
				propFail("group-observe:hist", fmt.Sprintf("final J%d: SetXYZ+GetPublicKey gives %x, the group law gives %s", k, out[1:], PJ[k]), c)
				return
			}
		}
		r.Hit("property-evaluated/hist")
	} else {
		r.Hit("tie-only(out-of-contract)/hist")
	}
	// tie: the Lean register machine on the same line
	var parts []string
	for k := range J {
		parts = append(parts, xyzOf(&J[k]).String())
	}
	for k := range A {
		parts = append(parts, xyOf(&A[k]).String())
	}
	impl := strings.Join(parts, " | ")
	if panicked {
		impl = "panic"
	}
	model := o.MustAsk(line)
	c.Impl, c.Model = impl, model
	same := impl == model
	if !same && !panicked && model != "panic" {
		mp := strings.Split(model, " | ")
		if len(mp) == len(parts) {
			same = true
			for k := range parts {
				if !sameRegister(parts[k], mp[k]) {
					same = false
				}
			}
		}
	}
	if !same {
		r.TieFail("tie:hist", fmt.Sprintf("model and real code differ on the history `%s`: impl=%s model=%s", line, impl, model), c)
		return
	}
	r.TieOK()
}

var two256 = new(big.Int).Lsh(big.NewInt(1), 256)

// histLine renders a history
func histLine(js []xyz, as []xy, ops []histOp) string {
	var sb strings.Builder
	fmt.Fprintf(&sb, "hist %d %d", len(js), len(as))
	for _, a := range js {
		sb.WriteString(" " + a.String())
	}
	for _, a := range as {
		sb.WriteString(" " + a.String())
	}
	for _, o := range ops {
		sb.WriteString(" " + o.String())
	}
	return sb.String()
}

// histCases: register files whose points are related (the same point twice, a point and its negative, ∞, small
// multiples of G so that sums meet again), Jacobian coordinates anywhere in the contract, then
//   - idioms: the shapes callers have — compute, publish (SetXYZ), go on computing with the same object; publish the
//     same object twice; a running sum published every round; a double-and-add ladder on two registers; a
//     precomp-style loop (d.AddXY(&tmp,&pre[i-1]); pre[i].SetXYZ(&tmp)) with the temporaries re-used;
//   - random histories over all ten calls, results written over operands and over bystanders.
func histCases(g *vlib.Rng) {
	t0 := time.Now()
	defer func() { r.Extra["history_stream_ms"] = time.Since(t0).Milliseconds() }()
	edges := edgeScalars()
	regs := func(nJ, nA int) ([]xyz, []xy) {
		base := []pt{randPoint(g), randPoint(g), refG, refInf}
		base = append(base, refNeg(base[0]), refDbl(base[0]), refAdd(base[0], base[1]))
		pick := func() pt {
			if g.Chance(1, 3) {
				return base[0]
			}
			return base[g.Intn(len(base))]
		}
		js := make([]xyz, nJ)
		for i := range js {
			switch g.Intn(3) {
			case 0:
				js[i] = jac(g, pick(), g.Bool())
			case 1:
				js[i] = jacWide(g, pick(), 8, 8, 8)
			default:
				js[i] = jacWide(g, pick(), 6, 4, 2)
			}
		}
		as := make([]xy, nA)
		for i := range as {
			if g.Bool() {
				as[i] = aff(g, pick(), g.Bool())
			} else {
				as[i] = affWide(g, pick(), 8, 8)
			}
		}
		return js, as
	}
	sc := func() *big.Int {
		s := genScalar(g, edges)
		if s.Sign() < 0 {
			s.Neg(s)
		}
		return s
	}
	// idioms
	nId := r.N(8, 60)
	for n := 0; n < nId; n++ {
		js, as := regs(3, 3)
		var ops []histOp
		switch n % 5 {
		case 0: // compute, publish, go on with the same object, publish again
			ops = []histOp{{kind: "gen", ng: sc(), k: 0}, {kind: "setxyz", i: 0, k: 0}, {kind: "addxy", i: 0, j: 1, k: 0}, {kind: "setxyz", i: 0, k: 2},
				{kind: "dbl", i: 0, k: 0}, {kind: "setxyz", i: 0, k: 1}}
		case 1: // publish the same object twice, then use it as an operand
			ops = []histOp{{kind: "add", i: 0, j: 1, k: 2}, {kind: "setxyz", i: 2, k: 0}, {kind: "setxyz", i: 2, k: 1}, {kind: "add", i: 2, j: 0, k: 1},
				{kind: "neg", i: 2, k: 0}, {kind: "add", i: 0, j: 2, k: 0}}
		case 2: // running sum, published every round
			for rd := 0; rd < 4; rd++ {
				ops = append(ops, histOp{kind: "addxy", i: 0, j: rd % 2, k: 0}, histOp{kind: "setxyz", i: 0, k: 2})
			}
		case 3: // ladder on two registers: J1 = 2·J1, J0 = J0 + J1, some rounds published
			for rd := 0; rd < 5; rd++ {
				ops = append(ops, histOp{kind: "dbl", i: 1, k: 1}, histOp{kind: "add", i: 0, j: 1, k: 0})
				if rd%2 == 1 {
					ops = append(ops, histOp{kind: "setxyz", i: 1, k: rd % 3})
				}
			}
		case 4: // precomp-style: d = 2·J0 ; tmp = d + A[i-1] ; A[i] = tmp ; then multiply with the converted base
			ops = []histOp{{kind: "dbl", i: 0, k: 1}, {kind: "setxyz", i: 0, k: 0}, {kind: "addxy", i: 1, j: 0, k: 2}, {kind: "setxyz", i: 2, k: 1},
				{kind: "addxy", i: 1, j: 1, k: 2}, {kind: "setxyz", i: 2, k: 2}, {kind: "mult", i: 2, na: sc(), ng: sc(), k: 1}, {kind: "mult", i: 0, na: big.NewInt(int64(1 + g.Intn(9))), ng: new(big.Int), k: 0}}
		}
		runHist(histLine(js, as, ops), "hist-idiom")
	}
	// random histories
	nR := r.N(110, 1500)
	kinds := []string{"dbl", "add", "add", "addxy", "addxy", "neg", "negxy", "setxyz", "setxyz", "setxyz", "setxy", "gen", "lam", "mult"}
	for n := 0; n < nR; n++ {
		nJ, nA := 2+g.Intn(4), 1+g.Intn(3)
		js, as := regs(nJ, nA)
		var ops []histOp
		mults := 0
		for len(ops) < 3+g.Intn(22) {
			o := histOp{kind: kinds[g.Intn(len(kinds))]}
			switch o.kind {
			case "dbl", "neg", "lam":
				o.i, o.k = g.Intn(nJ), g.Intn(nJ)
			case "add":
				o.i, o.j, o.k = g.Intn(nJ), g.Intn(nJ), g.Intn(nJ)
			case "addxy":
				o.i, o.j, o.k = g.Intn(nJ), g.Intn(nA), g.Intn(nJ)
			case "negxy":
				o.i, o.k = g.Intn(nA), g.Intn(nA)
			case "setxyz":
				o.i, o.k = g.Intn(nJ), g.Intn(nA)
			case "setxy":
				o.i, o.k = g.Intn(nA), g.Intn(nJ)
			case "gen":
				o.ng, o.k = sc(), g.Intn(nJ)
			case "mult":
				if mults >= 2 {
					continue
				}
				mults++
				o.i, o.k = g.Intn(nJ), g.Intn(nJ)
				o.na, o.ng = wideScalar(g, edges), sc()
				if g.Chance(1, 3) {
					o.ng = new(big.Int)
				}
				if g.Chance(1, 4) { // a negative na (signed Number): the theorems are stated for every integer na
					o.na = negScalar(g, edges)
					r.Hit("hist/mult-negative-na")
				}
			}
			ops = append(ops, o)
		}
		runHist(histLine(js, as, ops), "hist-random")
	}
}
