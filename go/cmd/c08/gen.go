// gen.go — corpus and generators for C08. All randomness comes from r.Rng (VERIF_SEED).
package main

import (
	"encoding/hex"
	"fmt"
	"math/big"

	secp "github.com/piotrnar/gocoin/lib/secp256k1"
	"verif/vlib"
)

func max(a, b int) int {
	if a > b {
		return a
	}
	return b
}

var pLimbs = fe{0xFFFFEFFFFFC2F, limbM, limbM, limbM, limbM4}

// named canonical / near-canonical limb vectors (the quantifier's edge values)
func namedFes() []fe {
	bigs := []*big.Int{
		big.NewInt(0), big.NewInt(1), big.NewInt(2),
		new(big.Int).Sub(refP, big1), refP, new(big.Int).Add(refP, big1), new(big.Int).Add(refP, big2),
		new(big.Int).Sub(new(big.Int).Lsh(big1, 256), big1),
		new(big.Int).Sub(refP, big2),
		new(big.Int).Lsh(big1, 255), new(big.Int).Lsh(big1, 52), new(big.Int).Lsh(big1, 208),
		bigHex("1000003D1"), bigHex("1000003D0"), bigHex("FFFFEFFFFFC2F"), bigHex("FFFFEFFFFFC2E"), refGx, refGy, refBeta,
	}
	var out []fe
	for _, b := range bigs {
		out = append(out, feOfBig(b))
	}
	// non-canonical encodings of edge values
	twoPm1 := fe{2*0xFFFFEFFFFFC2F - 1, 2 * limbM, 2 * limbM, 2 * limbM, 2 * limbM4} // 2p-1
	twoP := fe{2 * 0xFFFFEFFFFFC2F, 2 * limbM, 2 * limbM, 2 * limbM, 2 * limbM4}     // 2p
	out = append(out, twoPm1, twoP,
		fe{limbM, limbM, limbM, limbM, limbM4},                   // 2^256-1
		fe{limbM, limbM, limbM, limbM, limbM},                    // all-ones 52-bit limbs (top limb overfull)
		fe{limbM + 1, limbM, limbM, limbM, limbM4},               // carry out of limb 0
		fe{0xFFFFEFFFFFC2F, limbM, limbM, limbM, limbM4 + 1},     // p + 2^256
		fe{0xFFFFEFFFFFC2E, limbM, limbM, limbM, limbM4},         // p-1
		fe{0xFFFFEFFFFFC30, limbM, limbM, limbM, limbM4},         // p+1
		fe{0xFFFFEFFFFFC2F, limbM, limbM, limbM - 1, limbM4},     // just below p in limb 3
		fe{0xFFFFEFFFFFC2F, limbM - 1, limbM, limbM, limbM4},     // m-mask edge
		fe{0, 0, 0, 0, limbM4 + 1},                               // exactly 2^256
		fe{0x1000003D0, 0, 0, 0, 0}, fe{0x1000003D1, 0, 0, 0, 0}, // 2^256 mod p and neighbours
		fe{limbM, limbM, limbM, limbM, limbM4 - 1},
	)
	for _, m := range []uint64{1, 2, 3, 4, 8, 9, 16, 31, 32} { // per-magnitude maxima
		out = append(out, fe{2 * m * limbM, 2 * m * limbM, 2 * m * limbM, 2 * m * limbM, 2 * m * limbM4})
		out = append(out, fe{2 * m * 0xFFFFEFFFFFC2F, 2 * m * limbM, 2 * m * limbM, 2 * m * limbM, 2 * m * limbM4}) // 2m·p
	}
	return out
}

func genLimb(g *vlib.Rng, mx uint64, top bool) uint64 {
	switch g.Intn(12) {
	case 0:
		return 0
	case 1:
		return mx
	case 2:
		return mx - uint64(g.Intn(3))
	case 3:
		return uint64(g.Intn(3))
	case 4:
		if top {
			return limbM4 - uint64(g.Intn(2))
		}
		return limbM - uint64(g.Intn(2))
	case 5:
		v := uint64(0xFFFFEFFFFFC2F) + uint64(g.Intn(3)) - 1
		if v <= mx {
			return v
		}
		return mx
	case 6: // low bits all ones
		k := uint(g.Intn(60))
		v := (uint64(1) << k) - 1
		if v <= mx {
			return v
		}
		return mx
	case 7: // a single high bit
		v := uint64(1) << uint(g.Intn(64))
		if v <= mx {
			return v
		}
		return mx / 2
	}
	if mx == ^uint64(0) {
		return g.U64()
	}
	return g.U64() % (mx + 1)
}

// genFe: limbs within magnitude m (m = 0: canonical). raw: arbitrary 64-bit limbs.
func genFe(g *vlib.Rng, m int) fe {
	var a fe
	if m == 0 {
		for i := 0; i < 4; i++ {
			a[i] = genLimb(g, limbM, false)
		}
		a[4] = genLimb(g, limbM4, true)
		return a
	}
	for i := 0; i < 4; i++ {
		a[i] = genLimb(g, 2*uint64(m)*limbM, false)
	}
	a[4] = genLimb(g, 2*uint64(m)*limbM4, true)
	return a
}

func genRaw(g *vlib.Rng) fe {
	var a fe
	for i := range a {
		a[i] = genLimb(g, ^uint64(0), i == 4)
	}
	return a
}

// denorm: same value mod p, k·p added limb-wise (magnitude grows by k)
func denorm(a fe, k uint64) fe {
	for i := 0; i < 5; i++ {
		a[i] += k * pLimbs[i]
	}
	return a
}

func fieldCases(g *vlib.Rng) {
	named := namedFes()
	// 1. corpus: every named vector through every unary op, and all pairs through the binary ops
	for _, a := range named {
		runCase("norm "+a.String(), "named")
		runCase("sqr "+a.String(), "named")
		runCase("getb32 "+a.String(), "named")
		runCase("iszero "+a.String(), "named")
		runCase("isodd "+a.String(), "named")
		for _, m := range []uint64{0, 1, 2, 3, 8, 31} {
			runCase(fmt.Sprintf("neg %s %x", a, m), "named")
		}
		for _, k := range []uint64{0, 1, 2, 3, 4, 6, 8, 32} {
			runCase(fmt.Sprintf("mulint %s %x", a, k), "named")
		}
		if a.mag() == 0 {
			runCase("setb32 "+hex.EncodeToString(b32(a.val())), "named")
		}
	}
	for i, a := range named {
		for j, b := range named {
			if r.Thorough() || (i+j)%3 == 0 || i < 8 || j < 8 {
				runCase(fmt.Sprintf("mul %s %s", a, b), "named")
				runCase(fmt.Sprintf("add %s %s", a, b), "named")
				runCase(fmt.Sprintf("equals %s %s", a, b), "named")
			}
		}
	}
	for _, k := range []uint64{0, 1, 7, 1 << 52, ^uint64(0)} {
		runCase(fmt.Sprintf("setint %x", k), "named")
	}
	for _, a := range named[:19] {
		runCase("inv "+a.String(), "named")
		runCase("sqrt "+a.String(), "named")
		runCase("invvar "+a.String(), "named")
	}
	r.Sample(map[string]string{"line": "mul " + named[3].String() + " " + named[7].String()})

	// 2. per-limb edge/random mixes within the contract
	n := r.N(2500, 120000)
	for i := 0; i < n; i++ {
		ma, mb := g.Pick(0, 1, 1, 2, 3, 4, 7, 8), g.Pick(0, 1, 1, 2, 3, 4, 7, 8)
		a, b := genFe(g, ma), genFe(g, mb)
		runCase(fmt.Sprintf("mul %s %s", a, b), "contract")
		runCase("sqr "+a.String(), "contract")
		mn := g.Pick(0, 1, 2, 3, 5, 8, 16, 31, 32)
		x := genFe(g, mn)
		runCase("norm "+x.String(), "contract")
		if i%4 == 0 {
			m := g.Pick(1, 2, 3, 5, 8, 15)
			y := genFe(g, m)
			runCase(fmt.Sprintf("neg %s %x", y, m), "contract")
			runCase(fmt.Sprintf("add %s %s", y, genFe(g, g.Pick(1, 2, 8, 16))), "contract")
			runCase(fmt.Sprintf("mulint %s %x", genFe(g, g.Pick(1, 2, 4)), g.Pick(2, 3, 4, 6, 8)), "contract")
			c := genFe(g, 0)
			runCase("getb32 "+c.String(), "contract")
			runCase("setb32 "+hex.EncodeToString(g.Bytes(32)), "contract")
			runCase(fmt.Sprintf("equals %s %s", c, c), "contract")
		}
		if i == 5 {
			r.Sample(map[string]string{"line": fmt.Sprintf("mul %s %s", a, b)})
		}
	}
	// values just around multiples of p, denormalised
	for i := 0; i < r.N(400, 20000); i++ {
		k := uint64(g.Intn(31))
		d := int64(g.Intn(5)) - 2
		v := new(big.Int).Add(refP, big.NewInt(d))
		if g.Chance(1, 3) {
			v = big.NewInt(int64(g.Intn(3)))
		}
		a := denorm(feOfBig(v), k)
		runCase("norm "+a.String(), "near-kp")
		if k <= 7 {
			runCase(fmt.Sprintf("mul %s %s", a, denorm(feOfBig(new(big.Int).Sub(refP, big.NewInt(int64(g.Intn(3))))), uint64(g.Intn(8)))), "near-kp")
		}
	}
	// 3. raw 64-bit limbs: translator validation beyond the contract (tie only)
	for i := 0; i < r.N(1200, 60000); i++ {
		a, b := genRaw(g), genRaw(g)
		runCase(fmt.Sprintf("mul %s %s", a, b), "raw")
		runCase("sqr "+a.String(), "raw")
		runCase("norm "+a.String(), "raw")
		runCase(fmt.Sprintf("neg %s %x", a, genLimb(g, ^uint64(0), false)), "raw")
		runCase(fmt.Sprintf("add %s %s", a, b), "raw")
		runCase(fmt.Sprintf("mulint %s %x", a, genLimb(g, ^uint64(0), false)), "raw")
		runCase("getb32 "+a.String(), "raw")
		runCase("isodd "+a.String(), "raw")
	}
	// 4. chains: outputs fed back, magnitude tracked, up to the limits
	for ch := 0; ch < r.N(60, 3000); ch++ {
		cur := genFe(g, g.Pick(0, 1))
		mag := 1
		for step := 0; step < 40; step++ {
			var line string
			switch g.Intn(7) {
			case 0:
				mb := g.Pick(1, 1, 2, 4)
				if mag+mb > 32 {
					continue
				}
				line = fmt.Sprintf("add %s %s", cur, genFe(g, mb))
				mag += mb
			case 1:
				if mag+1 > 32 {
					continue
				}
				line = fmt.Sprintf("neg %s %x", cur, mag)
				mag++
			case 2:
				k := g.Pick(2, 2, 3, 4)
				if mag*k > 32 {
					continue
				}
				line = fmt.Sprintf("mulint %s %x", cur, k)
				mag *= k
			case 3:
				line = "norm " + cur.String()
				mag = 1
			case 4:
				if mag > 8 {
					line = "norm " + cur.String()
					mag = 1
					break
				}
				line = fmt.Sprintf("mul %s %s", cur, genFe(g, g.Pick(1, 4, 8)))
				mag = 1
			case 5:
				if mag > 8 {
					continue
				}
				line = "sqr " + cur.String()
				mag = 1
			case 6: // self-add (doubling by aliasing-free add)
				if 2*mag > 32 {
					continue
				}
				line = fmt.Sprintf("add %s %s", cur, cur)
				mag *= 2
			}
			runCase(line, "chain")
			r.Hit(fmt.Sprintf("chain/mag-after=%d", mag))
			// continue from the REAL code's result
			cur = goResultFe(line)
		}
		runCase("norm "+cur.String(), "chain")
	}
	// inv / sqrt chains are expensive in the model (≈ 270 mul each)
	for i := 0; i < r.N(25, 600); i++ {
		a := genFe(g, g.Pick(0, 1, 3, 8))
		runCase("inv "+a.String(), "contract")
		runCase("sqrt "+a.String(), "contract")
		runCase("invvar "+a.String(), "contract")
		sq := goResultFe("sqr " + a.String())
		runCase("sqrt "+sq.String(), "contract-square")
	}
}

// goResultFe re-runs a field line on the real code only and returns the limbs (for chains)
func goResultFe(line string) fe {
	var t [3]string
	n, _ := fmt.Sscan(line, &t[0], &t[1], &t[2])
	a, _ := parseFe(t[1])
	f := a.field()
	switch t[0] {
	case "add":
		b, _ := parseFe(t[2])
		g := b.field()
		f.SetAdd(&g)
	case "neg":
		var m uint64
		fmt.Sscanf(t[2], "%x", &m)
		f.Negate(&f, m)
	case "mulint":
		var k uint64
		fmt.Sscanf(t[2], "%x", &k)
		f.MulInt(k)
	case "norm":
		f.Normalize()
	case "mul":
		b, _ := parseFe(t[2])
		g := b.field()
		f.Mul(&f, &g)
	case "sqr":
		f.Sqr(&f)
	}
	_ = n
	return limbsOf(&f)
}

// ---------------------------------------------------------------- points and scalars

func randScalar(g *vlib.Rng) *big.Int {
	return new(big.Int).SetBytes(g.Bytes(32))
}

func randPoint(g *vlib.Rng) pt {
	k := randScalar(g)
	if g.Chance(1, 6) {
		k = big.NewInt(int64(1 + g.Intn(20)))
	}
	return refMul(k, refG)
}

// jac: Jacobian limbs of an affine point with a chosen z, then denormalised within the contract
func jac(g *vlib.Rng, p pt, denormalise bool) xyz {
	if p.inf {
		a := xyz{inf: true}
		if g.Bool() {
			a.x, a.y, a.z = genFe(g, 1), genFe(g, 1), genFe(g, 1)
		}
		return a
	}
	z := big.NewInt(1)
	switch g.Intn(4) {
	case 0:
		z = modP(randScalar(g))
	case 1:
		z = new(big.Int).Sub(refP, big.NewInt(int64(1+g.Intn(3))))
	case 2:
		z = big.NewInt(int64(1 + g.Intn(5)))
	}
	if z.Sign() == 0 {
		z = big.NewInt(1)
	}
	z2 := modP(new(big.Int).Mul(z, z))
	z3 := modP(new(big.Int).Mul(z2, z))
	a := xyz{x: feOfBig(modP(new(big.Int).Mul(p.x, z2))), y: feOfBig(modP(new(big.Int).Mul(p.y, z3))), z: feOfBig(z)}
	if denormalise {
		a.x = denorm(a.x, uint64(g.Intn(6)))
		a.y = denorm(a.y, uint64(g.Intn(4)))
		a.z = denorm(a.z, uint64(g.Intn(2)))
	}
	return a
}

func aff(g *vlib.Rng, p pt, denormalise bool) xy {
	if p.inf {
		return xy{inf: true}
	}
	a := xy{x: feOfBig(p.x), y: feOfBig(p.y)}
	if denormalise {
		a.x = denorm(a.x, uint64(g.Intn(2)))
		a.y = denorm(a.y, uint64(g.Intn(2)))
	}
	return a
}

func edgeScalars() []*big.Int {
	two128 := new(big.Int).Lsh(big1, 128)
	two256 := new(big.Int).Lsh(big1, 256)
	out := []*big.Int{
		big.NewInt(0), big.NewInt(1), big.NewInt(2), big.NewInt(3), big.NewInt(15), big.NewInt(16), big.NewInt(17),
		new(big.Int).Sub(refN, big1), refN, new(big.Int).Add(refN, big1), new(big.Int).Sub(refN, big2),
		new(big.Int).Rsh(refN, 1), new(big.Int).Add(new(big.Int).Rsh(refN, 1), big1),
		new(big.Int).Sub(two128, big1), two128, new(big.Int).Add(two128, big1),
		new(big.Int).Sub(two256, big1), new(big.Int).Sub(two256, two128), new(big.Int).Sub(two256, refN),
		refLambda, new(big.Int).Add(refLambda, big1), new(big.Int).Sub(refLambda, big1), new(big.Int).Sub(refN, refLambda),
		refP, new(big.Int).Sub(refP, big1),
		bigHex("AAAAAAAAAAAAAAAAAAAAAAAAAAAAAAAAAAAAAAAAAAAAAAAAAAAAAAAAAAAAAAAA"),
		bigHex("5555555555555555555555555555555555555555555555555555555555555555"),
		bigHex("FFFFFFFFFFFFFFFFFFFFFFFFFFFFFFFF00000000000000000000000000000000"),
		bigHex("00000000000000000000000000000000FFFFFFFFFFFFFFFFFFFFFFFFFFFFFFFF"),
		bigHex("7FFFFFFFFFFFFFFFFFFFFFFFFFFFFFFFFFFFFFFFFFFFFFFFFFFFFFFFFFFFFFFFF"),
		bigHex("8000000000000000000000000000000000000000000000000000000000000000"),
		bigHex("1111111111111111111111111111111111111111111111111111111111111111"), // every comb nibble 1
		// witness of the GetPublicKey parity defect (repaired by /repo 63bfb7fc): k·G has a Y whose limbs, as left
		// by SetXYZ, are ≥ 2^256, so the un-normalised low bit is the wrong parity
		bigHex("e3bc9a35f5b6fe555083c59247dec4a07f8b61b16dbf43f9b3b7277f04758a27"),
		bigHex("FFFFFFFFFFFFFFFFFFFFFFFFFFFFFFFFFFFFFFFFFFFFFFFFFFFFFFFFFFFFFFF0"),
		bigHex("0FFFFFFFFFFFFFFFFFFFFFFFFFFFFFFFFFFFFFFFFFFFFFFFFFFFFFFFFFFFFFFF"),
	}
	// runs of ones of every length that meets a window boundary
	for _, k := range []uint{4, 5, 13, 14, 15, 64, 127, 129, 200, 255} {
		out = append(out, new(big.Int).Sub(new(big.Int).Lsh(big1, k), big1))
		out = append(out, new(big.Int).Lsh(big1, k))
	}
	// lambda-split rounding edges: a ≈ (j·n + n/2)/a1b2 and /b1 (where c1, c2 change)
	a1b2 := bigHex("3086d221a7d46bcde86c90e49284eb15")
	b1 := bigHex("e4437ed6010e88286f547fa90abfe4c3")
	half := new(big.Int).Rsh(refN, 1)
	for _, d := range []*big.Int{a1b2, b1} {
		for _, j := range []int64{0, 1, 2, 1000} {
			t := new(big.Int).Mul(big.NewInt(j), refN)
			t.Add(t, half)
			t.Add(t, big1)
			q := new(big.Int).Div(t, d)
			for _, e := range []int64{-1, 0, 1} {
				v := new(big.Int).Add(q, big.NewInt(e))
				if v.Sign() >= 0 && v.BitLen() <= 256 {
					out = append(out, v)
				}
			}
		}
	}
	return out
}

func genScalar(g *vlib.Rng, edges []*big.Int) *big.Int {
	switch g.Intn(6) {
	case 0:
		return edges[g.Intn(len(edges))]
	case 1: // few bits set
		v := new(big.Int)
		for i := 0; i < 1+g.Intn(4); i++ {
			v.SetBit(v, g.Intn(256), 1)
		}
		return v
	case 2: // long runs
		v := new(big.Int)
		bit := uint(g.Intn(2))
		for i := 0; i < 256; {
			l := 1 + g.Intn(70)
			for k := 0; k < l && i < 256; k++ {
				v.SetBit(v, i, bit)
				i++
			}
			bit ^= 1
		}
		return v
	case 3: // near an edge
		e := edges[g.Intn(len(edges))]
		v := new(big.Int).Add(e, big.NewInt(int64(g.Intn(7))-3))
		if v.Sign() < 0 || v.BitLen() > 256 {
			return e
		}
		return v
	}
	return randScalar(g)
}

// negScalars: the negative integers that `split_exp_sound/_bound` and the `ecmult_*` theorems quantify over as well
// (Number is a signed big.Int; ECmult's callers pass non-negative numbers, the statements do not assume it): −1, −2,
// −n, −(n±1), −(2^128±1), −2^128, −(2^256−1), −λ, the negated rounding edges of the λ-split. big.Int.Div (Euclidean)
// and big.Int.Quo (truncated) differ exactly on negative numerators: these cases pin the rounding of split_exp.
func negScalars(edges []*big.Int) (out []*big.Int) {
	for _, e := range edges {
		if e.Sign() > 0 {
			out = append(out, new(big.Int).Neg(e))
		}
	}
	return
}

// negScalar: a negative scalar — negated edge, negated generated scalar, small, or near −k·n/a1b2, −k·n/b1
func negScalar(g *vlib.Rng, edges []*big.Int) *big.Int {
	var v *big.Int
	switch g.Intn(4) {
	case 0:
		v = big.NewInt(int64(1 + g.Intn(70)))
	case 1:
		v = new(big.Int).Set(edges[g.Intn(len(edges))])
	default:
		v = new(big.Int).Set(genScalar(g, edges))
	}
	if v.Sign() == 0 {
		v = big.NewInt(1)
	}
	return v.Neg(v)
}

func groupCases(g *vlib.Rng) {
	edges := edgeScalars()
	G := refG
	pts := []pt{refInf, G, refDbl(G), refNeg(G), refMul(big3, G), refMul(new(big.Int).Sub(refN, big1), G), refMul(refLambda, G)}
	// 1. all relations between a few fixed points, normalised and denormalised
	for _, a := range pts {
		for _, b := range pts {
			for rep := 0; rep < 2; rep++ {
				ja, jb := jac(g, a, rep == 1), jac(g, b, rep == 1)
				runCase(fmt.Sprintf("add3 %s %s", ja, jb), "fixed")
				runCase(fmt.Sprintf("addxy %s %s", ja, aff(g, b, rep == 1)), "fixed")
			}
		}
		ja := jac(g, a, true)
		runCase("dbl "+ja.String(), "fixed")
		runCase("negj "+ja.String(), "fixed")
		runCase("mullam "+ja.String(), "fixed")
		runCase("setxyz "+ja.String(), "fixed")
	}
	r.Sample(map[string]string{"line": fmt.Sprintf("add3 %s %s", jac(g, G, false), jac(g, G, true))})
	// 2. random points in every relation
	n := r.N(300, 12000)
	for i := 0; i < n; i++ {
		p := randPoint(g)
		var q pt
		switch g.Intn(6) {
		case 0:
			q = p
		case 1:
			q = refNeg(p)
		case 2:
			q = refInf
		default:
			q = randPoint(g)
		}
		if g.Chance(1, 12) {
			p = refInf
		}
		dn := g.Chance(2, 3)
		ja, jb := jac(g, p, dn), jac(g, q, dn)
		runCase(fmt.Sprintf("add3 %s %s", ja, jb), "random")
		runCase(fmt.Sprintf("addxy %s %s", ja, aff(g, q, dn)), "random")
		runCase("dbl "+ja.String(), "random")
		if i%4 == 0 {
			runCase("negj "+ja.String(), "random")
			runCase("mullam "+ja.String(), "random")
			runCase("setxyz "+ja.String(), "random")
			runCase(fmt.Sprintf("isvalid %s", aff(g, q, dn)), "random")
			bad := aff(g, p, false)
			bad.y[0] ^= 1
			runCase(fmt.Sprintf("isvalid %s", bad), "random-offcurve")
		}
	}
	// 3. x-only lifting
	for i := 0; i < r.N(40, 1500); i++ {
		var x fe
		switch g.Intn(4) {
		case 0:
			x = feOfBig(randPoint(g).x)
		case 1:
			x = denorm(feOfBig(randPoint(g).x), uint64(g.Intn(4)))
		case 2:
			x = feOfBig(big.NewInt(int64(g.Intn(30))))
		default:
			x = genFe(g, 0)
		}
		runCase(fmt.Sprintf("setxo %s %d", x, g.Intn(2)), "lift")
	}
	// 4. scalar decomposition and wNAF
	for _, e := range edges {
		runCase("splitexp "+intHex(e), "edge")
		lo := new(big.Int).And(e, new(big.Int).Sub(new(big.Int).Lsh(big1, 128), big1))
		for _, w := range []int{secp.WINDOW_A, secp.WINDOW_G} {
			runCase(fmt.Sprintf("wnaf %s %d", intHex(lo), w), "edge")
			runCase(fmt.Sprintf("wnaf %s %d", intHex(new(big.Int).Neg(lo)), w), "edge-negative")
		}
	}
	for _, e := range negScalars(edges) {
		runCase("splitexp "+intHex(e), "edge-negative")
	}
	for i := 0; i < r.N(120, 6000); i++ {
		runCase("splitexp "+intHex(negScalar(g, edges)), "gen-negative")
	}
	for i := 0; i < r.N(300, 20000); i++ {
		s := genScalar(g, edges)
		runCase("splitexp "+intHex(s), "gen")
		// the numbers ECmult really feeds to ecmult_wnaf: the two halves of the split (may be negative)
		n := numberOf(s)
		var r1, r2 secp.Number
		n.VerifSplitExp(&r1, &r2)
		runCase(fmt.Sprintf("wnaf %s %d", intHex(&r1.Int), secp.WINDOW_A), "split-half")
		runCase(fmt.Sprintf("wnaf %s %d", intHex(&r2.Int), secp.WINDOW_A), "split-half")
		runCase(fmt.Sprintf("wnaf %s %d", intHex(new(big.Int).Rsh(s, 128)), secp.WINDOW_G), "high-half")
	}
	// 5. multiplications
	for _, e := range edges {
		runCase("ecmultgen "+intHex(e), "edge")
	}
	for i := 0; i < r.N(60, 3000); i++ {
		runCase("ecmultgen "+intHex(genScalar(g, edges)), "gen")
	}
	ne := len(edges)
	for i := 0; i < r.N(70, 2500); i++ {
		var na, ng *big.Int
		if i < ne && !r.Thorough() || i < 3*ne && r.Thorough() {
			na, ng = edges[i%ne], edges[(i*7+i/ne)%ne]
			if i%3 == 1 {
				ng = big.NewInt(0)
			}
		} else {
			na, ng = genScalar(g, edges), genScalar(g, edges)
		}
		p := randPoint(g)
		if i%5 == 0 {
			p = G // na·G + ng·G: forces coincidences between the two halves of the sum
		}
		if i%11 == 0 {
			p = refNeg(G)
		}
		runCase(fmt.Sprintf("ecmult %s %s %s", jac(g, p, g.Bool()), intHex(na), intHex(ng)), "gen")
		if i == 2 {
			r.Sample(map[string]string{"line": fmt.Sprintf("ecmult %s %s %s", jac(g, p, false), intHex(na), intHex(ng))})
		}
	}
	// negative na (ECmult takes a signed Number; the ecmult theorems are stated for every integer na)
	negs := negScalars(edges)
	for i := 0; i < r.N(45, 1200); i++ {
		var na *big.Int
		if i < len(negs) && (i < 25 || r.Thorough()) {
			na = negs[(i*5)%len(negs)]
		} else {
			na = negScalar(g, edges)
		}
		ng := genScalar(g, edges)
		if i%3 == 1 {
			ng = big.NewInt(0)
		}
		p := randPoint(g)
		if i%5 == 0 {
			p = G
		}
		r.Hit("ecmult/negative-na")
		runCase(fmt.Sprintf("ecmult %s %s %s", jac(g, p, g.Bool()), intHex(na), intHex(ng)), "gen-negative")
	}
	// 6. the Lean reference group law (spec side of the theorems) against math/big
	for i := 0; i < r.N(12, 200); i++ {
		k := genScalar(g, edges)
		runCase(fmt.Sprintf("refmul %s %s %s", intHex(k), hexS(refGx), hexS(refGy)), "spec")
	}
}

func tableCases(g *vlib.Rng) {
	for _, name := range []string{"pre_g", "pre_g_128", "prec", "fin"} {
		runCase("tablen "+name, "table")
		n := secp.VerifTableLen(name)
		// every entry, in both tiers: the reference is an incremental affine addition (≈ 10 µs each)
		for i := 0; i < n; i++ {
			runCase(fmt.Sprintf("tab %s %d", name, i), "table")
		}
		runCase(fmt.Sprintf("tab %s %d", name, n), "table-end")
	}
	for _, c := range []string{"order", "halforder", "p", "gx", "gy", "lambda", "beta", "a1b2", "b1", "a2", "window_a", "window_g"} {
		runCase("const "+c, "const")
	}
	r.Extra["exhaustive_part"] = "all 4096+4096+1024+1 precomputed table entries compared with recomputed multiples of G and with the regenerated Lean tables"
}

func generate() {
	g := r.Rng
	tableCases(g.Fork())
	fieldCases(g.Fork())
	groupCases(g.Fork())
	// after the existing streams, each from its own fork: the cases above are the same as before for a seed
	addDirected(g.Fork())
	liftDirected(g.Fork())
	wideCases(g.Fork())
	directCases(g.Fork()) // precomp / split / rsh_x tied directly (direct.go)
	apiCases(g.Fork())    // BaseMultiply / BaseMultiplyAdd / Multiply / ParsePubkey on byte strings (api.go)
	histCases(g.Fork())   // histories of calls on one file of objects: operands and registers re-used (history.go)
	concStreams(g.Fork()) // several callers at once, nothing shared (concurrent.go)
	exceptionalCases(g.Fork()) // ECmult on related operands: running sum ∞ / = addend / = −addend inside the loop (cancel.go)
}
