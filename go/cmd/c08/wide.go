// wide.go — group operands over the FULL magnitude contract of the Go functions (C08).
//
// The group functions of xyz.go / xy.go accept every coordinate that Field.Mul / Field.Sqr accept
// (magnitude ≤ 8: limb i ≤ 16·(2^52−1), top limb ≤ 16·(2^48−1)); coordinates that are only copied or
// normalised first (Y of XYZ.Neg / XY.Neg / XYZ.Double) are admitted up to Normalize's own contract
// (magnitude ≤ 32). The library's own outputs stay within X ≤ 6, Y ≤ 4, Z ≤ 2, so operands produced by
// chains of SetAdd / Negate / MulInt on coordinates are the only way to reach the rest of the contract.
// The generators here build such operands directly: a coordinate of value v is represented by limbs that
// stand for v + k·p (k up to what the magnitude admits) and the excess is spread over the five limbs
// either evenly (k·p_i per limb) or unevenly (every limb chosen anywhere in the interval that keeps all
// limbs within the magnitude bound), then fed to Neg / Double / Add / AddXY / mul_lambda / SetXYZ /
// IsValid / ECmult; the real code's normalised result is compared with the math/big group law (ref.go).
package main

import (
	"fmt"
	"math/big"
	"os"

	secp "github.com/piotrnar/gocoin/lib/secp256k1"
	"verif/vlib"
)

func limbMax(i, m int) uint64 {
	if i == 4 {
		return 2 * uint64(m) * limbM4
	}
	return 2 * uint64(m) * limbM
}

// capBelow: the largest integer limbs 0..i-1 can stand for within magnitude m
func capBelow(i, m int) *big.Int {
	c := new(big.Int)
	for j := i - 1; j >= 0; j-- {
		c.Lsh(c, 52)
		c.Add(c, new(big.Int).SetUint64(limbMax(j, m)))
	}
	return c
}

func harnessBug(what string) {
	fmt.Fprintln(os.Stderr, "harness bug (wide.go):", what)
	os.Exit(3)
}

// pickIn: a value in [lo, hi] — the ends, next to the ends, or anywhere
func pickIn(g *vlib.Rng, lo, hi uint64) uint64 {
	if hi <= lo {
		return lo
	}
	span := hi - lo
	switch g.Intn(8) {
	case 0:
		return lo
	case 1:
		return hi
	case 2:
		return lo + uint64(g.Intn(3))%(span+1)
	case 3:
		return hi - uint64(g.Intn(3))%(span+1)
	}
	return lo + g.U64()%(span+1)
}

// spreadFe: limbs within magnitude m (1..32) that stand for v + k·p. mode 0: k·p_i added to the
// canonical limbs (even spread, k as large as the magnitude admits when kMaxOnly); mode 1: uneven — the
// limbs are chosen top-down, each anywhere in the interval that leaves the rest representable.
func spreadFe(g *vlib.Rng, v *big.Int, m int, uneven, kMaxOnly bool) fe {
	v = modP(v)
	if m < 1 {
		return feOfBig(v)
	}
	var a fe
	if !uneven {
		// canonical limbs ≤ limbM, plus k·p_i ≤ k·limbM: within magnitude m for k ≤ 2m−1
		k := uint64(2*m - 1)
		if !kMaxOnly {
			k = uint64(g.Intn(2 * m))
		}
		a = denorm(feOfBig(v), k)
	} else {
		total := capBelow(5, m)
		kmax := new(big.Int).Sub(total, v)
		kmax.Div(kmax, refP)
		k := new(big.Int).Set(kmax)
		if !kMaxOnly {
			switch g.Intn(4) {
			case 0: // largest admissible multiple of p
			case 1:
				k.SetInt64(int64(g.Intn(2)))
			default:
				k.SetUint64(g.U64() % (kmax.Uint64() + 1))
			}
		}
		rest := new(big.Int).Mul(k, refP)
		rest.Add(rest, v)
		for i := 4; i >= 1; i-- {
			mx := limbMax(i, m)
			hiB := new(big.Int).Rsh(rest, uint(52*i))
			hi := mx
			if hiB.IsUint64() && hiB.Uint64() < mx {
				hi = hiB.Uint64()
			}
			lo := uint64(0)
			need := new(big.Int).Sub(rest, capBelow(i, m))
			if need.Sign() > 0 {
				need.Add(need, new(big.Int).Sub(new(big.Int).Lsh(big1, uint(52*i)), big1))
				need.Rsh(need, uint(52*i))
				lo = need.Uint64()
			}
			if lo > hi {
				harnessBug("empty limb interval")
			}
			a[i] = pickIn(g, lo, hi)
			rest.Sub(rest, new(big.Int).Lsh(new(big.Int).SetUint64(a[i]), uint(52*i)))
		}
		if rest.Sign() < 0 || !rest.IsUint64() || rest.Uint64() > limbMax(0, m) {
			harnessBug("limb 0 out of range")
		}
		a[0] = rest.Uint64()
	}
	if !magAtMost(a, m) || modP(a.val()).Cmp(v) != 0 {
		harnessBug(fmt.Sprintf("spreadFe: %s is not value %x within magnitude %d", a, v, m))
	}
	return a
}

func randMag(g *vlib.Rng, mx int) int {
	switch g.Intn(4) {
	case 0:
		return mx
	case 1:
		return 1 + g.Intn(mx)
	case 2: // upper half of the contract
		return mx - g.Intn((mx+1)/2)
	}
	return g.Pick(1, 2, 3, 4, 5, 6, 7, 8) % (mx + 1)
}

func wideFe(g *vlib.Rng, v *big.Int, mx int) fe {
	m := randMag(g, mx)
	if m < 1 {
		m = 1
	}
	return spreadFe(g, v, m, g.Bool(), g.Chance(1, 3))
}

func randZval(g *vlib.Rng) *big.Int {
	z := big.NewInt(1)
	switch g.Intn(4) {
	case 0:
		z = modP(randScalar(g))
	case 1:
		z = new(big.Int).Sub(refP, big.NewInt(int64(1+g.Intn(3))))
	case 2:
		z = big.NewInt(int64(1 + g.Intn(5)))
	}
	if z.Sign() == 0 {
		z = big.NewInt(1)
	}
	return z
}

// jacWide: Jacobian limbs of p with coordinates of magnitude up to mx / my / mz
func jacWide(g *vlib.Rng, p pt, mx, my, mz int) xyz {
	if p.inf { // coordinates of an infinite point are arbitrary within the contract
		return xyz{x: genFe(g, randMag(g, mx)), y: genFe(g, randMag(g, my)), z: genFe(g, randMag(g, mz)), inf: true}
	}
	z := randZval(g)
	z2 := modP(new(big.Int).Mul(z, z))
	z3 := modP(new(big.Int).Mul(z2, z))
	return xyz{x: wideFe(g, new(big.Int).Mul(p.x, z2), mx), y: wideFe(g, new(big.Int).Mul(p.y, z3), my), z: wideFe(g, z, mz)}
}

// jacMag: exactly these magnitudes, largest multiple of p, even or uneven spread
func jacMag(g *vlib.Rng, p pt, mx, my, mz int, uneven bool) xyz {
	z := randZval(g)
	z2 := modP(new(big.Int).Mul(z, z))
	z3 := modP(new(big.Int).Mul(z2, z))
	return xyz{x: spreadFe(g, new(big.Int).Mul(p.x, z2), mx, uneven, true), y: spreadFe(g, new(big.Int).Mul(p.y, z3), my, uneven, true),
		z: spreadFe(g, z, mz, uneven, true)}
}

func affWide(g *vlib.Rng, p pt, mx, my int) xy {
	if p.inf {
		return xy{x: genFe(g, randMag(g, mx)), y: genFe(g, randMag(g, my)), inf: true}
	}
	return xy{x: wideFe(g, p.x, mx), y: wideFe(g, p.y, my)}
}

// negDigitOnFirst: does the λ-split wNAF of na (as the real code computes it; both are property-checked by
// the `splitexp` / `wnaf` cases) contain the digit −1, i.e. is the caller's own operand pre_a[0] (or its
// mul_lambda image) negated by ECmult?
func negDigitOnFirst(na *big.Int) (on1, onLam bool) {
	n := numberOf(na)
	var r1, r2 secp.Number
	if guard(func() { n.VerifSplitExp(&r1, &r2) }) != "" {
		return
	}
	has := func(x *secp.Number) (f bool) {
		buf := make([]int, 129)
		guard(func() {
			cnt := secp.VerifWnaf(buf, x, secp.WINDOW_A)
			for _, d := range buf[:cnt] {
				if d == -1 {
					f = true
				}
			}
		})
		return
	}
	return has(&r1), has(&r2)
}

// scalars for ECmult with a wide operand: small ones, 2^k−1 (wNAF digit −1 at position 0), 2^k+2^j−1,
// λ-multiples (the second half of the split gets the small number), edges, random
func wideScalar(g *vlib.Rng, edges []*big.Int) *big.Int {
	switch g.Intn(8) {
	case 0:
		return big.NewInt(int64(g.Intn(70)))
	case 1:
		return new(big.Int).Sub(new(big.Int).Lsh(big1, uint(1+g.Intn(256))), big1)
	case 2:
		v := new(big.Int).Lsh(big1, uint(6+g.Intn(250)))
		v.Add(v, new(big.Int).Lsh(big1, uint(g.Intn(6))))
		return v.Sub(v, big1)
	case 3: // small·λ mod n: na_1 = 0 or tiny, na_lam small
		v := new(big.Int).Mul(refLambda, big.NewInt(int64(1+g.Intn(70))))
		return v.Mod(v, refN)
	case 4: // n − small: negative halves
		return new(big.Int).Sub(refN, big.NewInt(int64(1+g.Intn(70))))
	case 5:
		return genScalar(g, edges)
	}
	return randScalar(g)
}

func hitMags(op string, a xyz) {
	r.Hit(fmt.Sprintf("%s/wide:xmag=%d", op, a.x.mag()))
	r.Hit(fmt.Sprintf("%s/wide:ymag=%d", op, a.y.mag()))
	r.Hit(fmt.Sprintf("%s/wide:zmag=%d", op, a.z.mag()))
}

func wideCases(g *vlib.Rng) {
	edges := edgeScalars()
	G := refG
	fixed := []pt{G, refDbl(G), refNeg(G), refMul(big3, G), refMul(refLambda, G)}
	// 1. every magnitude of the contract once per operation, largest multiple of p, even and uneven spread
	for rep := 0; rep < 2; rep++ {
		un := rep == 1
		for _, my := range []int{1, 2, 3, 4, 5, 6, 7, 8, 12, 16, 24, 31, 32} {
			p := fixed[g.Intn(len(fixed))]
			a := jacMag(g, p, 1+g.Intn(8), my, 1+g.Intn(8), un)
			runCase("negj "+a.String(), "wide-mag")
			runCase("dbl "+a.String(), "wide-mag")
			runCase(fmt.Sprintf("negxy %s", xy{x: spreadFe(g, p.x, 1+g.Intn(8), un, true), y: spreadFe(g, p.y, my, un, true)}), "wide-mag")
		}
		for m := 1; m <= 8; m++ {
			p, q := fixed[g.Intn(len(fixed))], fixed[g.Intn(len(fixed))]
			for _, ms := range [][3]int{{m, 8, 8}, {8, m, 8}, {8, 8, m}, {m, m, m}} {
				a, b := jacMag(g, p, ms[0], ms[1], ms[2], un), jacMag(g, q, ms[1], ms[2], ms[0], un)
				runCase("dbl "+a.String(), "wide-mag")
				runCase("mullam "+a.String(), "wide-mag")
				runCase("setxyz "+a.String(), "wide-mag")
				runCase(fmt.Sprintf("add3 %s %s", a, b), "wide-mag")
				runCase(fmt.Sprintf("add3 %s %s", b, a), "wide-mag")
				bq := xy{x: spreadFe(g, q.x, ms[0], un, true), y: spreadFe(g, q.y, ms[1], un, true)}
				runCase(fmt.Sprintf("addxy %s %s", a, bq), "wide-mag")
				runCase(fmt.Sprintf("isvalid %s", bq), "wide-mag")
			}
			// k·A + l·G with the operand at magnitude m in every coordinate; scalars of the class 2^k−1 (k ≥ WINDOW_A)
			// have the wNAF digit −1 first, so ECmult negates the operand itself
			a := jacMag(g, p, m, m, m, un)
			for _, na := range []*big.Int{big.NewInt(int64(1 + g.Intn(69))),
				new(big.Int).Sub(new(big.Int).Lsh(big1, uint(secp.WINDOW_A+g.Intn(60))), big1),
				new(big.Int).Sub(new(big.Int).Lsh(big1, uint(secp.WINDOW_A+g.Intn(120))), big1)} {
				runCase(fmt.Sprintf("ecmult %s %s %s", a, intHex(na), intHex(edges[g.Intn(len(edges))])), "wide-mag")
			}
		}
	}
	// 2. random points in every relation, random magnitudes / spreads within the contract
	n := r.N(220, 6000)
	for i := 0; i < n; i++ {
		p := randPoint(g)
		var q pt
		switch g.Intn(6) {
		case 0:
			q = p
		case 1:
			q = refNeg(p)
		case 2:
			q = refInf
		default:
			q = randPoint(g)
		}
		if g.Chance(1, 12) {
			p = refInf
		}
		ja, jb := jacWide(g, p, 8, 8, 8), jacWide(g, q, 8, 8, 8)
		hitMags("group", ja)
		runCase(fmt.Sprintf("add3 %s %s", ja, jb), "wide")
		runCase(fmt.Sprintf("addxy %s %s", ja, affWide(g, q, 8, 8)), "wide")
		runCase("dbl "+ja.String(), "wide")
		runCase("negj "+jacWide(g, p, 8, 32, 8).String(), "wide")
		if i%2 == 0 {
			runCase("negxy "+affWide(g, q, 8, 32).String(), "wide")
			runCase("mullam "+ja.String(), "wide")
			runCase("setxyz "+ja.String(), "wide")
			runCase("isvalid "+affWide(g, q, 8, 8).String(), "wide")
		}
		if i == 1 {
			r.Sample(map[string]string{"line": "negj " + ja.String()})
		}
	}
	// 3. ECmult on wide operands; the scalar classes make a negated pre_a[0] / pre_a_lam[0] certain
	for i := 0; i < r.N(70, 1500); i++ {
		na, ng := wideScalar(g, edges), big.NewInt(0)
		if g.Chance(2, 3) {
			ng = genScalar(g, edges)
		}
		if i%6 == 5 { // negative na on a wide operand
			na = negScalar(g, edges)
			r.Hit("ecmult/wide:negative-na")
		}
		p := randPoint(g)
		if i%7 == 0 {
			p = G
		}
		a := jacWide(g, p, 8, 8, 8)
		on1, onLam := negDigitOnFirst(na)
		if on1 {
			r.Hit("ecmult/wide:digit-1-selects-pre_a_1[0]")
		}
		if onLam {
			r.Hit("ecmult/wide:digit-1-selects-pre_a_lam[0]")
		}
		if (on1 || onLam) && a.y.mag() >= 6 {
			r.Hit("ecmult/wide:digit-1-and-ymag>=6")
		}
		hitMags("ecmult", a)
		runCase(fmt.Sprintf("ecmult %s %s %s", a, intHex(na), intHex(ng)), "wide")
		if i == 1 {
			r.Sample(map[string]string{"line": fmt.Sprintf("ecmult %s %s %s", a, intHex(na), intHex(ng))})
		}
	}
}
