// gen_c09 regenerates lean/GocoinV/Gen/C09Client.lean from the places of the NODE that write the fields of the btc.Block
// object of a wanted block (network.BlocksToGet) around its decoding (translator tie for C09, client part):
//
//	client/network/data.go  netBlockReceived   ("block":       install = statements before PostCheckBlock, discard = the branch
//	client/network/cblk.go  ProcessCmpctBlock  ("cmpctblock")   taken for a refused copy whose Merkle root does not match)
//	client/network/cblk.go  ProcessBlockTxn    ("blocktxn")
//	lib/chain/block_check.go PostCheckBlock     (minimum length; BuildTxList only when Txs == nil)
//
// Every statement that writes Raw / TxCount / TxOffset / Txs / BlockWeight / TotalInputs of that object, or calls one of its
// parsing methods, must be in one of those two places and have a shape listed here; anything else stops the translator
// (the model Model/WireClient.lean would no longer describe the code). The statement LISTS are data: Proofs/C09Client.lean
// proves `client_copies_exact` for whatever lists are generated, so a discard branch that no longer resets what
// BuildTxListExt reads (e.g. `Raw = header` instead of `UpdateContent(header)` without `TxCount, TxOffset = 0, 0`) breaks
// a kernel-checked theorem.
package main

import (
	"bytes"
	"fmt"
	"go/ast"
	"go/printer"
	"go/token"
	"os"
	"strings"

	"verif/vlib"
	"verif/vtrans"
)

func die(err error) {
	fmt.Fprintln(os.Stderr, "TRANSLATE-ERROR:", err)
	os.Exit(2)
}

func src(f *vtrans.File, n ast.Node) string {
	var b bytes.Buffer
	printer.Fprint(&b, f.Fset, n)
	return strings.Join(strings.Fields(b.String()), "")
}

var parseFields = map[string]bool{"Raw": true, "TxCount": true, "TxOffset": true, "Txs": true, "BlockWeight": true, "TotalInputs": true}
var parseMethods = map[string]bool{"UpdateContent": true, "BuildTxList": true, "BuildTxListExt": true, "Clean": true}

// objField: x is `b2g.Block.F` or `b2g.F` (promoted through the embedded *btc.Block) with F one of the decoder's fields
func objField(f *vtrans.File, x ast.Expr) (string, bool) {
	s, ok := x.(*ast.SelectorExpr)
	if !ok || !parseFields[s.Sel.Name] {
		return "", false
	}
	switch src(f, s.X) {
	case "b2g.Block", "b2g":
		return s.Sel.Name, true
	}
	return "", false
}

type site struct {
	pos   token.Pos
	stmts []string // Lean constructors
	text  string
}

type fnFacts struct {
	install, discard []string
	headerPrefix     bool
}

// argOf: which bytes a statement installs
func argOf(fn string, e string) (string, error) {
	switch {
	case fn == "netBlockReceived" && e == "b":
		return ".copy", nil
	case fn == "netBlockReceived" && e == "prev_block_raw":
		return ".prevRaw", nil
	case fn != "netBlockReceived" && e == "col.Assemble()":
		return ".copy", nil
	case fn != "netBlockReceived" && e == "col.Header":
		return ".header", nil
	}
	return "", fmt.Errorf("%s: the block object is given %q, which is not one of the byte strings the model knows", fn, e)
}

// translate one statement that may write the object; nil = it does not
func writeStmt(f *vtrans.File, fn string, n ast.Stmt) ([]string, error) {
	switch s := n.(type) {
	case *ast.AssignStmt:
		var out []string
		touched := false
		for i, l := range s.Lhs {
			if src(f, l) == "b2g.Block" {
				if len(s.Lhs) == 1 && src(f, s.Rhs[0]) == "nil" {
					return nil, nil // the pointer is dropped after the block was parked on disk
				}
				return nil, fmt.Errorf("%s: b2g.Block itself is assigned (%s)", fn, src(f, s))
			}
			fld, ok := objField(f, l)
			if !ok {
				continue
			}
			touched = true
			if s.Tok != token.ASSIGN || len(s.Rhs) != len(s.Lhs) {
				return nil, fmt.Errorf("%s: unknown form of assignment to the block object: %s", fn, src(f, s))
			}
			rhs := src(f, s.Rhs[i])
			switch {
			case fld == "Raw":
				a, err := argOf(fn, rhs)
				if err != nil {
					return nil, err
				}
				out = append(out, ".rawAssign "+a)
			case fld == "Txs" && rhs == "nil":
				out = append(out, ".nilTxs")
			case fld != "Txs" && rhs == "0":
				out = append(out, ".zero"+fld)
			default:
				return nil, fmt.Errorf("%s: %s of the block object is set to %q", fn, fld, rhs)
			}
		}
		if touched {
			return out, nil
		}
		// an alias of the object would hide writes
		for _, rh := range s.Rhs {
			if src(f, rh) == "b2g.Block" {
				return nil, fmt.Errorf("%s: the block object gets a second name (%s)", fn, src(f, s))
			}
		}
	case *ast.ExprStmt:
		if c, ok := s.X.(*ast.CallExpr); ok {
			if se, ok := c.Fun.(*ast.SelectorExpr); ok && parseMethods[se.Sel.Name] && (src(f, se.X) == "b2g.Block" || src(f, se.X) == "b2g") {
				if se.Sel.Name != "UpdateContent" || len(c.Args) != 1 {
					return nil, fmt.Errorf("%s: %s is called on the block object", fn, se.Sel.Name)
				}
				a, err := argOf(fn, src(f, c.Args[0]))
				if err != nil {
					return nil, err
				}
				return []string{".updateContent " + a}, nil
			}
		}
	}
	return nil, nil
}

// checkNoOtherWrite: no statement / call outside the accounted positions writes the object
func checkNoOtherWrite(f *vtrans.File, fn string, n ast.Node, accounted map[token.Pos]bool) {
	ast.Inspect(n, func(x ast.Node) bool {
		if st, ok := x.(ast.Stmt); ok {
			if w, err := writeStmt(f, fn, st); (err != nil || len(w) > 0) && !accounted[st.Pos()] {
				if err != nil {
					die(err)
				}
				die(fmt.Errorf("%s: the block object is written at a place the model does not have: %s", fn, src(f, st)))
			}
		}
		if c, ok := x.(*ast.CallExpr); ok {
			if se, ok := c.Fun.(*ast.SelectorExpr); ok && parseMethods[se.Sel.Name] && (src(f, se.X) == "b2g.Block" || src(f, se.X) == "b2g") && !accounted[c.Pos()] {
				die(fmt.Errorf("%s: a parsing method of the block object is called at a place the model does not have: %s", fn, src(f, c)))
			}
		}
		return true
	})
}

func isPostCheck(f *vtrans.File, n ast.Stmt) bool {
	a, ok := n.(*ast.AssignStmt)
	return ok && len(a.Rhs) == 1 && src(f, a.Rhs[0]) == "common.BlockChain.PostCheckBlock(b2g.Block)"
}

// findList: the statement list that holds the PostCheckBlock call
func findList(f *vtrans.File, body *ast.BlockStmt) (list []ast.Stmt, at int) {
	at = -1
	ast.Inspect(body, func(x ast.Node) bool {
		if b, ok := x.(*ast.BlockStmt); ok {
			for i, s := range b.List {
				if isPostCheck(f, s) {
					if at >= 0 {
						at = -2
					} else {
						list, at = b.List, i
					}
				}
			}
		}
		return true
	})
	return
}

func factsOf(f *vtrans.File, recv, fn string) fnFacts {
	fd, err := f.Func(recv, fn)
	if err != nil {
		die(err)
	}
	list, at := findList(f, fd.Body)
	if at < 0 {
		die(fmt.Errorf("%s: expected exactly one `er := common.BlockChain.PostCheckBlock(b2g.Block)`", fn))
	}
	var ff fnFacts
	accounted := map[token.Pos]bool{}
	// install: simple statements of the same list before the call
	for _, s := range list[:at] {
		w, err := writeStmt(f, fn, s)
		if err != nil {
			die(err)
		}
		if len(w) > 0 {
			ff.install = append(ff.install, w...)
			accounted[s.Pos()] = true
		}
	}
	// the refusal: `if er != nil { … if b2g.Block.MerkleRootMatch() … { give the block up } else { DISCARD } … }`
	if at+1 >= len(list) {
		die(fmt.Errorf("%s: nothing follows PostCheckBlock", fn))
	}
	ifer, ok := list[at+1].(*ast.IfStmt)
	if !ok || src(f, ifer.Cond) != "er!=nil" {
		die(fmt.Errorf("%s: PostCheckBlock is not followed by `if er != nil`", fn))
	}
	var mm *ast.IfStmt
	for _, s := range ifer.Body.List {
		if i, ok := s.(*ast.IfStmt); ok && strings.HasPrefix(src(f, i.Cond), "b2g.Block.MerkleRootMatch()") {
			if mm != nil {
				die(fmt.Errorf("%s: two MerkleRootMatch tests in the refusal branch", fn))
			}
			mm = i
		}
	}
	if mm == nil {
		die(fmt.Errorf("%s: the refusal branch has no `if b2g.Block.MerkleRootMatch()`", fn))
	}
	// the block is given up only when the Merkle root matches: the condition is a conjunction that starts with that call
	// (an `||` would let a copy with another transaction list make the node drop the block)
	for _, c := range conjuncts(mm.Cond) {
		if b, ok := c.(*ast.BinaryExpr); ok && b.Op == token.LOR {
			die(fmt.Errorf("%s: the give-up condition %s is not a conjunction", fn, src(f, mm.Cond)))
		}
	}
	if src(f, conjuncts(mm.Cond)[0]) != "b2g.Block.MerkleRootMatch()" {
		die(fmt.Errorf("%s: the give-up condition %s does not start with b2g.Block.MerkleRootMatch()", fn, src(f, mm.Cond)))
	}
	// nothing leaves the refusal branch before that test, nothing leaves the discard branch before its last write
	for _, s := range ifer.Body.List {
		if s == ast.Stmt(mm) {
			break
		}
		if leaves(s) {
			die(fmt.Errorf("%s: the refusal branch can be left before the MerkleRootMatch test (%s)", fn, src(f, s)))
		}
	}
	els, ok := mm.Else.(*ast.BlockStmt)
	if !ok {
		die(fmt.Errorf("%s: the MerkleRootMatch test has no plain else branch", fn))
	}
	lastWrite := -1
	for i, s := range els.List {
		w, err := writeStmt(f, fn, s)
		if err != nil {
			die(err)
		}
		if len(w) > 0 {
			ff.discard = append(ff.discard, w...)
			accounted[s.Pos()] = true
			lastWrite = i
		}
	}
	for i, s := range els.List {
		if i < lastWrite && leaves(s) {
			die(fmt.Errorf("%s: the discard branch can be left before its last statement (%s)", fn, src(f, s)))
		}
	}
	// nothing else in the function may write the object
	checkNoOtherWrite(f, fn, fd.Body, accounted)
	// the collector's header
	ast.Inspect(fd.Body, func(x ast.Node) bool {
		if a, ok := x.(*ast.AssignStmt); ok && len(a.Lhs) == 1 && src(f, a.Lhs[0]) == "col.Header" {
			if src(f, a.Rhs[0]) == "b2g.Block.Raw[:80]" {
				ff.headerPrefix = true
			} else {
				die(fmt.Errorf("%s: col.Header = %s", fn, src(f, a.Rhs[0])))
			}
		}
		return true
	})
	return ff
}

// conjuncts of a && b && c
func conjuncts(e ast.Expr) []ast.Expr {
	if p, ok := e.(*ast.ParenExpr); ok {
		return conjuncts(p.X)
	}
	if b, ok := e.(*ast.BinaryExpr); ok && b.Op == token.LAND {
		return append(conjuncts(b.X), conjuncts(b.Y)...)
	}
	return []ast.Expr{e}
}

// leaves: the statement contains a return / goto / break / continue / panic / os.Exit (function literals not entered)
func leaves(n ast.Node) (yes bool) {
	ast.Inspect(n, func(x ast.Node) bool {
		switch t := x.(type) {
		case *ast.FuncLit:
			return false
		case *ast.ReturnStmt, *ast.BranchStmt:
			yes = true
		case *ast.CallExpr:
			if id, ok := t.Fun.(*ast.Ident); ok && id.Name == "panic" {
				yes = true
			}
			if se, ok := t.Fun.(*ast.SelectorExpr); ok && (se.Sel.Name == "Exit" || se.Sel.Name == "Goexit") {
				yes = true
			}
		}
		return true
	})
	return
}

// ---------------------------------------------------------------- the rest of the package
//
// scanPackage reads EVERY function of every file of client/network (the package in which a wanted block's btc.Block object
// lives until queueNewBlock hands it on). No types are resolved; the rule is conservative instead: outside the places
// factsOf has accounted for, a statement that writes a field NAMED Raw / TxCount / TxOffset / Txs / BlockWeight /
// TotalInputs of ANY expression, takes the address of one, or calls a method NAMED UpdateContent / BuildTxList /
// BuildTxListExt / Clean on ANY expression stops the translator - whatever the variable is called (an alias made with
// `var x = b2g.Block`, a parameter of a helper, the result of a map lookup). The only exceptions are listed here by what
// they are: the compact-block collector's own `Txs` list (a local initialised with new(CmpctBlockCollector) or from a
// field called `col`), and GetchBlockForBIP152's build of a block that was already RECEIVED (`crec`, a *BlockRcvd).
// A block pointer (`<x>.Block`) handed to any function other than PostCheckBlock also stops it: callees outside this
// package are not read.

func baseSel(x ast.Expr) *ast.SelectorExpr {
	for {
		switch t := x.(type) {
		case *ast.ParenExpr:
			x = t.X
		case *ast.IndexExpr:
			x = t.X
		case *ast.SliceExpr:
			x = t.X
		case *ast.StarExpr:
			x = t.X
		case *ast.SelectorExpr:
			return t
		default:
			return nil
		}
	}
}

// isCollector: x is a local whose declaration is `x := new(CmpctBlockCollector)` / `&CmpctBlockCollector{…}` / `<e>.col`
func isCollector(f *vtrans.File, x ast.Expr) bool {
	id, ok := x.(*ast.Ident)
	if !ok || id.Obj == nil {
		return false
	}
	as, ok := id.Obj.Decl.(*ast.AssignStmt)
	if !ok || len(as.Lhs) != 1 || len(as.Rhs) != 1 {
		return false
	}
	r := src(f, as.Rhs[0])
	return r == "new(CmpctBlockCollector)" || strings.HasPrefix(r, "&CmpctBlockCollector{") || strings.HasSuffix(r, ".col")
}

func scanFile(f *vtrans.File, handlers map[string]bool) {
	for _, d := range f.AST.Decls {
		fd, ok := d.(*ast.FuncDecl)
		if !ok || fd.Body == nil {
			continue
		}
		fn := fd.Name.Name
		inHandler := handlers[fn]
		own := func(base string) bool { return inHandler && (base == "b2g.Block" || base == "b2g") }
		where := f.Path + ", func " + fn
		checkLhs := func(l ast.Expr, st ast.Node) {
			se := baseSel(l)
			if se == nil || !parseFields[se.Sel.Name] {
				return
			}
			if own(src(f, se.X)) {
				return // accounted for (or refused) by factsOf
			}
			if se.Sel.Name == "Txs" && isCollector(f, se.X) {
				return
			}
			die(fmt.Errorf("%s: a decoder field (%s) of a block object, or of something this translator cannot tell from one, is written outside the install / discard places of the three handlers: %s", where, se.Sel.Name, src(f, st)))
		}
		ast.Inspect(fd.Body, func(x ast.Node) bool {
			switch t := x.(type) {
			case *ast.AssignStmt:
				for _, l := range t.Lhs {
					checkLhs(l, t)
				}
			case *ast.IncDecStmt:
				checkLhs(t.X, t)
			case *ast.RangeStmt:
				if t.Key != nil {
					checkLhs(t.Key, t.Key)
				}
				if t.Value != nil {
					checkLhs(t.Value, t.Value)
				}
			case *ast.UnaryExpr:
				if t.Op == token.AND {
					if se := baseSel(t.X); se != nil && parseFields[se.Sel.Name] && !(se.Sel.Name == "Txs" && isCollector(f, se.X)) {
						die(fmt.Errorf("%s: the address of a decoder field is taken: %s", where, src(f, t)))
					}
				}
			case *ast.CallExpr:
				if se, ok := t.Fun.(*ast.SelectorExpr); ok && parseMethods[se.Sel.Name] && !own(src(f, se.X)) {
					if !(fn == "GetchBlockForBIP152" && src(f, t) == "crec.Block.BuildTxList()") {
						die(fmt.Errorf("%s: a parsing method is called on a block object, or on something this translator cannot tell from one, outside the three handlers: %s", where, src(f, t)))
					}
				}
				callee := src(f, t.Fun)
				for _, a := range t.Args {
					if u, ok := a.(*ast.UnaryExpr); ok {
						a = u.X
					}
					if se, ok := a.(*ast.SelectorExpr); ok && se.Sel.Name == "Block" {
						b := src(f, se.X)
						if b == "dat" || b == "cipher" || strings.HasPrefix(b, "common.") {
							continue // cipher.Block / common.Last.Block: other types
						}
						if callee != "common.BlockChain.PostCheckBlock" {
							die(fmt.Errorf("%s: the block object is handed to %s, which this translator does not read: %s", where, callee, src(f, t)))
						}
					}
				}
			}
			return true
		})
	}
}

func scanPackage(handlers map[string]bool) int {
	dir := vtrans.RepoRoot() + "/client/network"
	ents, err := os.ReadDir(dir)
	if err != nil {
		die(err)
	}
	n := 0
	for _, e := range ents {
		nm := e.Name()
		if e.IsDir() || !strings.HasSuffix(nm, ".go") || strings.HasSuffix(nm, "_test.go") {
			continue
		}
		f, err := vtrans.Parse("client/network/" + nm)
		if err != nil {
			die(err)
		}
		scanFile(f, handlers)
		n++
	}
	if n < 10 {
		die(fmt.Errorf("client/network: only %d source files found", n))
	}
	return n
}

func leanList(l []string) string {
	if len(l) == 0 {
		return "[]"
	}
	return "[" + strings.Join(l, ", ") + "]"
}

func main() {
	data, err := vtrans.Parse("client/network/data.go")
	if err != nil {
		die(err)
	}
	cblk, err := vtrans.Parse("client/network/cblk.go")
	if err != nil {
		die(err)
	}
	full := factsOf(data, "OneConnection", "netBlockReceived")
	ca := factsOf(cblk, "OneConnection", "ProcessCmpctBlock")
	cb := factsOf(cblk, "OneConnection", "ProcessBlockTxn")
	scanned := scanPackage(map[string]bool{"netBlockReceived": true, "ProcessCmpctBlock": true, "ProcessBlockTxn": true})
	if !ca.headerPrefix {
		die(fmt.Errorf("ProcessCmpctBlock: `col.Header = b2g.Block.Raw[:80]` not found"))
	}
	// PostCheckBlock
	bc, err := vtrans.Parse("lib/chain/block_check.go")
	if err != nil {
		die(err)
	}
	pc, err := bc.Func("Chain", "PostCheckBlock")
	if err != nil {
		die(err)
	}
	minLen, guarded, builds := uint64(0), "", 0
	for i, s := range pc.Body.List {
		ifs, ok := s.(*ast.IfStmt)
		if !ok {
			if len(anyCall(bc, s, "BuildTxList")) > 0 {
				builds++
				guarded = "false"
			}
			continue
		}
		c := src(bc, ifs.Cond)
		if i == 0 && strings.HasPrefix(c, "len(bl.Raw)<") {
			if v, err := vtrans.IntLit(ifs.Cond.(*ast.BinaryExpr).Y); err == nil {
				minLen = v
			}
		}
		if len(anyCall(bc, ifs, "BuildTxList")) > 0 {
			builds++
			if c == "bl.Txs==nil" {
				guarded = "true"
			} else {
				die(fmt.Errorf("PostCheckBlock: BuildTxList under the condition %q", c))
			}
		}
	}
	if minLen == 0 || builds != 1 {
		die(fmt.Errorf("PostCheckBlock: expected `if len(bl.Raw) < N` first and exactly one BuildTxList (found min %d, %d calls)", minLen, builds))
	}

	var sb strings.Builder
	sb.WriteString("/- GENERATED by go/cmd/gen_c09 from client/network/data.go, client/network/cblk.go and lib/chain/block_check.go — do not edit; not in git. -/\n")
	sb.WriteString("namespace GocoinV.Gen.C09Client\n\n")
	sb.WriteString("/-- the byte string a statement hands to the block object: the copy just received (payload of `block`, or the\n    collector's `Assemble()`), the `Raw` saved before the copy was installed, or the collector's header -/\n")
	sb.WriteString("inductive Arg | copy | prevRaw | header\nderiving DecidableEq, Repr\n\n")
	sb.WriteString("/-- one statement of the node that writes a decoder field of the block object of a wanted block -/\n")
	sb.WriteString("inductive Stmt\n  | rawAssign (a : Arg)\n  | updateContent (a : Arg)\n  | zeroBlockWeight | zeroTotalInputs | zeroTxCount | zeroTxOffset\n  | nilTxs\nderiving DecidableEq, Repr\n\n")
	w := func(name, doc string, l []string) {
		fmt.Fprintf(&sb, "/-- %s -/\ndef %s : List Stmt := %s\n", doc, name, leanList(l))
	}
	w("fullInstall", "netBlockReceived, before PostCheckBlock", full.install)
	w("fullDiscard", "netBlockReceived, refused copy whose Merkle root does not match", full.discard)
	w("cmpctAInstall", "ProcessCmpctBlock (nothing missing), before PostCheckBlock", ca.install)
	w("cmpctADiscard", "ProcessCmpctBlock, refused assembly", ca.discard)
	w("cmpctBInstall", "ProcessBlockTxn, before PostCheckBlock", cb.install)
	w("cmpctBDiscard", "ProcessBlockTxn, refused assembly", cb.discard)
	fmt.Fprintf(&sb, "/-- `col.Header = b2g.Block.Raw[:80]` -/\ndef collectorHeaderIsRawPrefix80 : Bool := %v\n", ca.headerPrefix)
	fmt.Fprintf(&sb, "/-- PostCheckBlock: `if len(bl.Raw) < N` -/\ndef postCheckMinRawLen : Nat := %d\n", minLen)
	fmt.Fprintf(&sb, "/-- PostCheckBlock calls BuildTxList only `if bl.Txs == nil` -/\ndef postCheckBuildsOnlyWhenTxsNil : Bool := %s\n", guarded)
	sb.WriteString("\nend GocoinV.Gen.C09Client\n")
	out := vlib.Root() + "/lean/GocoinV/Gen/C09Client.lean"
	if o := os.Getenv("GEN_C09_OUT"); o != "" {
		out = o
	}
	os.Remove(out)
	if err := os.WriteFile(out, []byte(sb.String()), 0644); err != nil {
		die(err)
	}
	fmt.Printf("FACTS %d\n", 9)
	fmt.Printf("gen_c09: %d files of client/network scanned for writes to a block object outside the three handlers\n", scanned)
}

func anyCall(f *vtrans.File, n ast.Node, name string) (l []string) {
	ast.Inspect(n, func(x ast.Node) bool {
		if c, ok := x.(*ast.CallExpr); ok {
			if se, ok := c.Fun.(*ast.SelectorExpr); ok && se.Sel.Name == name {
				l = append(l, src(f, c))
			}
		}
		return true
	})
	return
}
