package main

import (
	"fmt"

	"github.com/piotrnar/gocoin/lib/btc"
	"github.com/piotrnar/gocoin/lib/others/bech32"
)

func main() {
	s := bech32.Encode("", []byte{0, 1, 2}, false)
	h, d, m := bech32.Decode(s)
	fmt.Printf("Encode(\"\",[0 1 2],false)=%q Decode=(%q,%x,%v)\n", s, h, d, m)
	s = bech32.Encode("", make([]byte, 70), true)
	h, d, m = bech32.Decode(s)
	fmt.Printf("len %d %q Decode=(%q,%x,%v)\n", len(s), s, h, d, m)
	s2 := bech32.SegwitEncode("", 0, make([]byte, 20))
	v, p, e := bech32.SegwitDecode("", s2)
	fmt.Printf("SegwitEncode(\"\",0,zero20)=%q SegwitDecode=(%d,%x,%v)\n", s2, v, p, e)
	sp := &btc.SegwitProg{HRP: "", Version: 1, Program: make([]byte, 32)}
	fmt.Printf("SegwitProg{HRP:\"\"}.String()=%q\n", sp.String())
	a := &btc.BtcAddr{SegwitProg: sp}
	fmt.Printf("BtcAddr.String()=%q\n", a.String())
}
