// Canonical forms used by gen_c16, so that behaviour-preserving rewrites of the analysed functions regenerate the
// same facts: names of locals / receiver / record buffer are substituted, parentheses dropped, integer literals
// compared by value, operands of == != & | ^ + * and of && / || chains sorted, `a > b` printed as `b < a`,
// a condition is the SET of atomic conditions (with polarity, De Morgan applied) that dominate a statement, and
// statements of unexported same-package helpers are looked at in place of the call.
//
// Soundness: a canonical text is only ever COMPARED with the canonical text of a fixed expected expression whose
// operands are pure and cannot panic (integer comparisons of an already computed local, a field, a constant and a
// byte of the fixed-size record array). Sorting operands therefore never identifies two source texts that behave
// differently: a source whose operand has an effect has a different canonical text than every expectation.
package main

import (
	"fmt"
	"go/ast"
	"go/parser"
	"go/token"
	"sort"
	"strings"

	"verif/vtrans"
)

// cenv: substitutions ident -> canonical text (receiver, record buffer, parameters of an inlined helper, locals that
// hold one little-endian field of the record).
type cenv struct {
	sub   map[string]string
	taint map[string]bool // locals that were assigned a second time: never substituted again
}

func newEnv() *cenv { return &cenv{sub: map[string]string{}, taint: map[string]bool{}} }

func (c *cenv) clone() *cenv {
	n := newEnv()
	for k, v := range c.sub {
		n.sub[k] = v
	}
	for k, v := range c.taint {
		n.taint[k] = v
	}
	return n
}

func flip(op token.Token) (token.Token, bool) {
	switch op {
	case token.GTR:
		return token.LSS, true
	case token.GEQ:
		return token.LEQ, true
	}
	return op, false
}

func negate(op token.Token) (token.Token, bool) {
	switch op {
	case token.EQL:
		return token.NEQ, true
	case token.NEQ:
		return token.EQL, true
	case token.LSS:
		return token.GEQ, true
	case token.GEQ:
		return token.LSS, true
	case token.GTR:
		return token.LEQ, true
	case token.LEQ:
		return token.GTR, true
	}
	return op, false
}

// X prints the canonical text of an expression.
func (c *cenv) X(e ast.Expr) string {
	switch t := e.(type) {
	case nil:
		return ""
	case *ast.ParenExpr:
		return c.X(t.X)
	case *ast.Ident:
		if s, ok := c.sub[t.Name]; ok {
			return s
		}
		return t.Name
	case *ast.BasicLit:
		if t.Kind == token.INT {
			if v, err := vtrans.IntLit(t); err == nil {
				return fmt.Sprintf("%d", v)
			}
		}
		return t.Value
	case *ast.SelectorExpr:
		return c.X(t.X) + "." + t.Sel.Name
	case *ast.IndexExpr:
		return strings.TrimSuffix(c.X(t.X), "[:]") + "[" + c.X(t.Index) + "]" // x[:][i] is x[i]
	case *ast.SliceExpr:
		s := strings.TrimSuffix(c.X(t.X), "[:]") + "[" + c.X(t.Low) + ":" + c.X(t.High)
		if t.Slice3 {
			s += ":" + c.X(t.Max)
		}
		return s + "]"
	case *ast.CallExpr:
		var a []string
		for _, x := range t.Args {
			a = append(a, c.X(x))
		}
		return c.X(t.Fun) + "(" + strings.Join(a, ", ") + ")"
	case *ast.UnaryExpr:
		if t.Op == token.NOT {
			return "(" + strings.Join(c.atoms(t.X, false), " && ") + ")"
		}
		return t.Op.String() + "(" + c.X(t.X) + ")"
	case *ast.BinaryExpr:
		switch t.Op {
		case token.LAND:
			return "(" + strings.Join(c.atoms(t, true), " && ") + ")"
		case token.LOR:
			var parts []string
			var fl func(x ast.Expr)
			fl = func(x ast.Expr) {
				x = unparen(x)
				if b, ok := x.(*ast.BinaryExpr); ok && b.Op == token.LOR {
					fl(b.X)
					fl(b.Y)
					return
				}
				parts = append(parts, c.X(x))
			}
			fl(t)
			sort.Strings(parts)
			return "(" + strings.Join(parts, " || ") + ")"
		case token.EQL, token.NEQ, token.AND, token.OR, token.XOR, token.ADD, token.MUL:
			p := []string{c.X(t.X), c.X(t.Y)}
			sort.Strings(p)
			return "(" + p[0] + " " + t.Op.String() + " " + p[1] + ")"
		}
		if op, ok := flip(t.Op); ok {
			return "(" + c.X(t.Y) + " " + op.String() + " " + c.X(t.X) + ")"
		}
		return "(" + c.X(t.X) + " " + t.Op.String() + " " + c.X(t.Y) + ")"
	}
	return "?" + src(e)
}

func unparen(e ast.Expr) ast.Expr {
	for {
		p, ok := e.(*ast.ParenExpr)
		if !ok {
			return e
		}
		e = p.X
	}
}

// atoms: the sorted set of atomic conditions that hold when e evaluates to pol. A conjunction (or, under negation, a
// disjunction) is split; anything else is one atom; a negated comparison is printed as the opposite comparison
// (operands are integers / pointers wherever an expectation can match).
func (c *cenv) atoms(e ast.Expr, pol bool) []string {
	set := map[string]bool{}
	var walk func(e ast.Expr, pol bool)
	walk = func(e ast.Expr, pol bool) {
		e = unparen(e)
		if u, ok := e.(*ast.UnaryExpr); ok && u.Op == token.NOT {
			walk(u.X, !pol)
			return
		}
		if b, ok := e.(*ast.BinaryExpr); ok {
			if (b.Op == token.LAND && pol) || (b.Op == token.LOR && !pol) {
				walk(b.X, pol)
				walk(b.Y, pol)
				return
			}
			if !pol {
				if op, ok := negate(b.Op); ok {
					set[c.X(&ast.BinaryExpr{X: b.X, Op: op, Y: b.Y})] = true
					return
				}
			}
		}
		if pol {
			set[c.X(e)] = true
		} else {
			set["!"+c.X(e)] = true
		}
	}
	walk(e, pol)
	var out []string
	for k := range set {
		out = append(out, k)
	}
	sort.Strings(out)
	return out
}

// want: canonical text of an expected expression given as Go source.
func (c *cenv) want(goExpr string) string {
	e, err := parser.ParseExpr(goExpr)
	if err != nil {
		die(fmt.Errorf("internal: expected expression %q does not parse: %v", goExpr, err))
	}
	return c.X(e)
}

func (c *cenv) wantAtoms(goExpr string) []string {
	e, err := parser.ParseExpr(goExpr)
	if err != nil {
		die(fmt.Errorf("internal: expected expression %q does not parse: %v", goExpr, err))
	}
	return c.atoms(e, true)
}

func sameSet(a, b []string) bool {
	if len(a) != len(b) {
		return false
	}
	for i := range a {
		if a[i] != b[i] {
			return false
		}
	}
	return true
}

func union(a, b []string) []string {
	set := map[string]bool{}
	for _, x := range a {
		set[x] = true
	}
	for _, x := range b {
		set[x] = true
	}
	var out []string
	for k := range set {
		out = append(out, k)
	}
	sort.Strings(out)
	return out
}

// gst: one statement of a flattened path with the atomic conditions that dominate it inside the path.
type gst struct {
	guards []string
	st     ast.Stmt
	env    *cenv          // substitutions valid at this statement
	block  *ast.BlockStmt // innermost enclosing block (identity only)
}

// flattener walks a statement list: `if` statements are opened (init first, then both arms with the atoms of the
// condition added), blocks are opened, a call statement of an unexported function / method of the same file whose body
// has no return / defer / go is replaced by its body (parameters substituted by the canonical arguments; two levels).
type flattener struct {
	file  *ast.File
	recvT string // receiver type whose unexported methods are followed
	out   []gst
}

func (f *flattener) helper(call *ast.CallExpr, env *cenv) (*ast.FuncDecl, *cenv) {
	name, isMethod, recvX := "", false, ast.Expr(nil)
	switch t := call.Fun.(type) {
	case *ast.Ident:
		name = t.Name
	case *ast.SelectorExpr:
		name, isMethod, recvX = t.Sel.Name, true, t.X
	default:
		return nil, nil
	}
	if name == "" || ast.IsExported(name) {
		return nil, nil
	}
	for _, d := range f.file.Decls {
		fd, ok := d.(*ast.FuncDecl)
		if !ok || fd.Name.Name != name || fd.Body == nil || (fd.Recv != nil) != isMethod {
			continue
		}
		if fd.Type.Results != nil && len(fd.Type.Results.List) != 0 {
			return nil, nil
		}
		bad := false
		ast.Inspect(fd.Body, func(n ast.Node) bool {
			switch n.(type) {
			case *ast.ReturnStmt, *ast.DeferStmt, *ast.GoStmt:
				bad = true
			}
			return true
		})
		if bad {
			return nil, nil
		}
		ne := newEnv()
		if isMethod {
			if len(fd.Recv.List) != 1 || len(fd.Recv.List[0].Names) != 1 {
				return nil, nil
			}
			rt := fd.Recv.List[0].Type
			if s, ok := rt.(*ast.StarExpr); ok {
				rt = s.X
			}
			if id, ok := rt.(*ast.Ident); !ok || id.Name != f.recvT {
				return nil, nil
			}
			ne.sub[fd.Recv.List[0].Names[0].Name] = env.X(recvX)
		}
		var params []string
		for _, p := range fd.Type.Params.List {
			if _, variadic := p.Type.(*ast.Ellipsis); variadic {
				return nil, nil
			}
			for _, n := range p.Names {
				params = append(params, n.Name)
			}
		}
		if len(params) != len(call.Args) {
			return nil, nil
		}
		for i, p := range params {
			ne.sub[p] = env.X(call.Args[i])
		}
		// a parameter that the helper assigns to no longer stands for the argument
		ast.Inspect(fd.Body, func(n ast.Node) bool {
			switch t := n.(type) {
			case *ast.AssignStmt:
				for _, l := range t.Lhs {
					if id, ok := l.(*ast.Ident); ok {
						for _, p := range params {
							if id.Name == p {
								bad = true
							}
						}
					}
				}
			case *ast.IncDecStmt:
				if id, ok := t.X.(*ast.Ident); ok {
					for _, p := range params {
						if id.Name == p {
							bad = true
						}
					}
				}
			}
			return true
		})
		if bad {
			return nil, nil
		}
		return fd, ne
	}
	return nil, nil
}

// isRecField: `binary.LittleEndian.UintNN(<rec>[lo:hi])` in canonical form.
func isRecField(canon string) bool {
	return strings.HasPrefix(canon, "binary.LittleEndian.Uint") && strings.Contains(canon, "($buf[") && strings.HasSuffix(canon, "])") &&
		strings.Count(canon, "(") == 1
}

func (f *flattener) define(st ast.Stmt, env *cenv) {
	switch t := st.(type) {
	case *ast.AssignStmt:
		for i, l := range t.Lhs {
			id, ok := l.(*ast.Ident)
			if !ok || id.Name == "_" {
				continue
			}
			if t.Tok == token.DEFINE && len(t.Lhs) == len(t.Rhs) && !env.taint[id.Name] {
				if _, had := env.sub[id.Name]; !had {
					if cx := env.X(t.Rhs[i]); isRecField(cx) {
						env.sub[id.Name] = cx
						continue
					}
				}
			}
			if _, had := env.sub[id.Name]; had && env.sub[id.Name] != "$buf" && env.sub[id.Name] != "$recv" {
				delete(env.sub, id.Name)
				env.taint[id.Name] = true
			}
		}
	case *ast.IncDecStmt:
		if id, ok := t.X.(*ast.Ident); ok {
			if _, had := env.sub[id.Name]; had {
				delete(env.sub, id.Name)
				env.taint[id.Name] = true
			}
		}
	case *ast.DeclStmt:
		if gd, ok := t.Decl.(*ast.GenDecl); ok {
			for _, sp := range gd.Specs {
				vs, ok := sp.(*ast.ValueSpec)
				if !ok {
					continue
				}
				for i, n := range vs.Names {
					if len(vs.Values) == len(vs.Names) && !env.taint[n.Name] {
						if _, had := env.sub[n.Name]; !had {
							if cx := env.X(vs.Values[i]); isRecField(cx) {
								env.sub[n.Name] = cx
								continue
							}
						}
					}
					if _, had := env.sub[n.Name]; had {
						delete(env.sub, n.Name)
						env.taint[n.Name] = true
					}
				}
			}
		}
	}
}

func (f *flattener) walk(list []ast.Stmt, guards []string, env *cenv, blk *ast.BlockStmt, depth int) {
	for _, st := range list {
		switch t := st.(type) {
		case *ast.BlockStmt:
			f.walk(t.List, guards, env, t, depth)
			continue
		case *ast.IfStmt:
			if t.Init != nil {
				f.walk([]ast.Stmt{t.Init}, guards, env, blk, depth)
			}
			f.walk(t.Body.List, union(guards, env.atoms(t.Cond, true)), env, t.Body, depth)
			switch e := t.Else.(type) {
			case *ast.BlockStmt:
				f.walk(e.List, union(guards, env.atoms(t.Cond, false)), env, e, depth)
			case *ast.IfStmt:
				f.walk([]ast.Stmt{e}, union(guards, env.atoms(t.Cond, false)), env, blk, depth)
			}
			continue
		case *ast.ExprStmt:
			if ce, ok := t.X.(*ast.CallExpr); ok && depth < 2 {
				if fd, ne := f.helper(ce, env); fd != nil {
					f.walk(fd.Body.List, guards, ne, fd.Body, depth+1)
					continue
				}
			}
		}
		f.out = append(f.out, gst{guards: guards, st: st, env: env.clone(), block: blk})
		f.define(st, env)
	}
}

// posWrite: st is `<recv>.<field> <tok> <rhs>` as one plain statement; returns field, tok, canonical rhs.
func posWrite(st ast.Stmt, env *cenv) (field string, tok token.Token, rhs string, ok bool) {
	as, isAs := st.(*ast.AssignStmt)
	if !isAs || len(as.Lhs) != 1 || len(as.Rhs) != 1 {
		return
	}
	sel, isSel := as.Lhs[0].(*ast.SelectorExpr)
	if !isSel || env.X(sel.X) != "$recv" {
		return
	}
	return sel.Sel.Name, as.Tok, env.X(as.Rhs[0]), true
}

// countWrites: how many statements inside n assign to / increment a selector `.field` (any base expression).
func countWrites(n ast.Node, fields ...string) (cnt int, first string) {
	for _, fl := range fields {
		w := writesTo(n, fl)
		cnt += len(w)
		if first == "" && len(w) > 0 {
			first = w[0]
		}
	}
	return
}

// hiddenWrites: does the function called by ce (a function / method declared in the same file, found by name) write
// one of the fields, directly or through one more call? Returns the first such statement.
func hiddenWrites(file *ast.File, ce *ast.CallExpr, fields []string, depth int) string {
	name := ""
	switch t := ce.Fun.(type) {
	case *ast.Ident:
		name = t.Name
	case *ast.SelectorExpr:
		name = t.Sel.Name
	}
	if name == "" {
		return ""
	}
	for _, d := range file.Decls {
		fd, ok := d.(*ast.FuncDecl)
		if !ok || fd.Name.Name != name || fd.Body == nil {
			continue
		}
		if n, first := countWrites(fd.Body, fields...); n != 0 {
			return first
		}
		if depth < 1 {
			found := ""
			ast.Inspect(fd.Body, func(n ast.Node) bool {
				if c2, ok := n.(*ast.CallExpr); ok && found == "" {
					found = hiddenWrites(file, c2, fields, depth+1)
				}
				return true
			})
			if found != "" {
				return found
			}
		}
	}
	return ""
}
