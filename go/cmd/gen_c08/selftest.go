// selftest.go — the shared-state analysis of shared.go judged on known shapes before its verdict on lib/secp256k1 is
// believed. A small synthetic package with the relevant part of lib/secp256k1 (Number over big.Int, Field with
// GetB32 / SetBytes, mod_inv, the curve constants, a table, Field.InvVar) is type-checked once per shape:
//
//   - `bad`: ways of keeping InvVar's scratch number (or any other scratch memory) at package level — each compiles and
//     each makes two concurrent callers write the same memory. The analysis has to answer globalsWritten ≠ [] AND
//     invScratchShared = true for every one of them: the plain forms, and the forms a simple alias analysis loses
//     (func literal in a package-level variable, range variable over a pool, type assertion on an interface variable,
//     closure returned by a call, comma-ok map read, channel receive, type switch, method value, conversion,
//     func field, big.Int.Bits, alias made later in the text than its use).
//   - `good`: the shapes the unchanged package really has (reads of constants through &global arguments, tables read by
//     index / by value range, a local scratch number) — the analysis has to answer globalsWritten = [] and
//     invScratchShared = false, otherwise every run would be a false alarm.
//
// A failure stops the generator (exit ≠ 0 = broken tie): a later edit of shared.go that loses one of the shapes cannot
// go unnoticed.
package main

import (
	"fmt"
	"go/ast"
	"go/parser"
	"go/types"
	"os"
	"strings"
)

const selfBase = `package secpx

import (
	"math/big"
	"sync"
)

var _ sync.Mutex

type Number struct{ big.Int }

type Field struct{ n [5]uint64 }

type XY struct{ X, Y Field }

var TheCurve struct {
	p    Number
	beta Field
}

var BigInt1 *big.Int = new(big.Int).SetInt64(1)

var pre_g = []XY{{}, {}}

var prec [4][4]XY

func init() { TheCurve.p.SetInt64(23) }

func (r *Number) mod_inv(a, b *Number) { r.ModInverse(&a.Int, &b.Int) }

func (num *Number) inc() { num.Add(&num.Int, BigInt1) }

func (num *Number) low() (res int) {
	words := num.Int.Bits()
	if len(words) > 0 {
		res = int(words[0]) & 15
	}
	return
}

func (a *Field) Normalize() {}

func (a *Field) GetB32(b []byte) { b[0] = byte(a.n[0]) }

func (a *Field) SetBytes(b []byte) {
	if len(b) > 0 {
		a.n[0] = uint64(b[0])
	}
}

func (a *Field) Mul(r, b *Field) { r.n[0] = a.n[0] * b.n[0] }

func (a *Field) mulBeta(r *Field) { a.Mul(r, &TheCurve.beta) }

func sumTable() (s uint64) {
	for i := range pre_g {
		s += pre_g[i].X.n[0]
	}
	for _, e := range pre_g {
		s += e.Y.n[0]
	}
	for _, row := range prec {
		for _, e := range row {
			s += e.X.n[0]
		}
	}
	p := &prec[1][2]
	s += p.X.n[1]
	return
}
`

// every shape: extra package-level declarations + the body of  func (a *Field) InvVar(r *Field)
// (b = the 32 bytes of the normalised argument is prepared in front of the body)
type selfShape struct {
	name, decls, body string
}

var selfGood = []selfShape{
	{"local scratch number (the unchanged code)", ``, `var n Number; n.SetBytes(b[:]); n.mod_inv(&n, &TheCurve.p); r.SetBytes(n.Bytes())`},
	{"local pointer scratch", ``, `n := new(Number); n.SetBytes(b[:]); n.mod_inv(n, &TheCurve.p); n.inc(); r.SetBytes(n.Bytes())`},
	{"constant read through a local alias", ``, `p := &TheCurve.p; var n Number; n.SetBytes(b[:]); n.mod_inv(&n, p); _ = p.Sign(); r.SetBytes(n.Bytes())`},
	{"plain func literal that reads only", `var modP = func(n *Number) { n.mod_inv(n, &TheCurve.p) }`, `var n Number; n.SetBytes(b[:]); modP(&n); r.SetBytes(n.Bytes())`},
	{"local pool of local numbers", ``, `pool := []*Number{new(Number)}; for _, n := range pool { n.SetBytes(b[:]); n.mod_inv(n, &TheCurve.p); r.SetBytes(n.Bytes()) }`},
}

var selfBad = []selfShape{
	{"plain global", `var invN Number`, `n := &invN; n.SetBytes(b[:]); n.mod_inv(n, &TheCurve.p); r.SetBytes(n.Bytes())`},
	{"global used directly", `var invN Number`, `invN.SetBytes(b[:]); invN.mod_inv(&invN, &TheCurve.p); r.SetBytes(invN.Bytes())`},
	{"pointer global", `var invP = new(Number)`, `n := invP; n.SetBytes(b[:]); n.mod_inv(n, &TheCurve.p); r.SetBytes(n.Bytes())`},
	{"field of a holder", `var invHolder = &struct{ n Number }{}`, `n := &invHolder.n; n.SetBytes(b[:]); n.mod_inv(n, &TheCurve.p); r.SetBytes(n.Bytes())`},
	{"array element", `var invArr [1]Number`, `n := &invArr[0]; n.SetBytes(b[:]); n.mod_inv(n, &TheCurve.p); r.SetBytes(n.Bytes())`},
	{"map element", `var invMap = map[string]*Number{"x": new(Number)}`, `n := invMap["x"]; n.SetBytes(b[:]); n.mod_inv(n, &TheCurve.p); r.SetBytes(n.Bytes())`},
	{"map element, comma-ok", `var invMap = map[string]*Number{"x": new(Number)}`, `n, ok := invMap["x"]; if !ok { return }; n.SetBytes(b[:]); n.mod_inv(n, &TheCurve.p); r.SetBytes(n.Bytes())`},
	{"func literal in a package-level variable (M1)", `var invN Number
var doModInv = func(b []byte) []byte { invN.SetBytes(b); invN.mod_inv(&invN, &TheCurve.p); return invN.Bytes() }`, `r.SetBytes(doModInv(b[:]))`},
	{"func literal reached through a local copy of the variable", `var invN Number
var doModInv = func(b []byte) []byte { invN.SetBytes(b); invN.mod_inv(&invN, &TheCurve.p); return invN.Bytes() }`, `f := doModInv; r.SetBytes(f(b[:]))`},
	{"range variable over a pool (M2)", `var invPool = []*Number{new(Number)}`, `for _, n := range invPool { n.SetBytes(b[:]); n.mod_inv(n, &TheCurve.p); r.SetBytes(n.Bytes()) }`},
	{"range with assignment to an outer local", `var invPool = []*Number{new(Number)}`, `var n *Number; for _, n = range invPool { }; n.SetBytes(b[:]); n.mod_inv(n, &TheCurve.p); r.SetBytes(n.Bytes())`},
	{"range over a map of scratch numbers", `var invMap = map[int]*Number{0: new(Number)}`, `for _, n := range invMap { n.SetBytes(b[:]); n.mod_inv(n, &TheCurve.p); r.SetBytes(n.Bytes()) }`},
	{"type assertion on an interface variable (M5)", `var invAny interface{} = new(Number)`, `n := invAny.(*Number); n.SetBytes(b[:]); n.mod_inv(n, &TheCurve.p); r.SetBytes(n.Bytes())`},
	{"type assertion, comma-ok", `var invAny interface{} = new(Number)`, `n, ok := invAny.(*Number); if !ok { return }; n.SetBytes(b[:]); n.mod_inv(n, &TheCurve.p); r.SetBytes(n.Bytes())`},
	{"type switch", `var invAny interface{} = new(Number)`, `switch n := invAny.(type) { case *Number: n.SetBytes(b[:]); n.mod_inv(n, &TheCurve.p); r.SetBytes(n.Bytes()) }`},
	{"closure returned by a call (M10)", `var nextScratch = func() func() *Number { n := new(Number); return func() *Number { return n } }()`, `n := nextScratch(); n.SetBytes(b[:]); n.mod_inv(n, &TheCurve.p); r.SetBytes(n.Bytes())`},
	{"func variable set in init", `var nextScratch func() *Number
func init() { n := new(Number); nextScratch = func() *Number { return n } }`, `n := nextScratch(); n.SetBytes(b[:]); n.mod_inv(n, &TheCurve.p); r.SetBytes(n.Bytes())`},
	{"func field of a package-level struct", `var hooks = struct{ scratch func() *Number }{func() func() *Number { n := new(Number); return func() *Number { return n } }()}`, `n := hooks.scratch(); n.SetBytes(b[:]); n.mod_inv(n, &TheCurve.p); r.SetBytes(n.Bytes())`},
	{"own function that returns the global", `var invN Number
func scratch() *Number { return &invN }`, `n := scratch(); n.SetBytes(b[:]); n.mod_inv(n, &TheCurve.p); r.SetBytes(n.Bytes())`},
	{"channel used as a pool", `var invCh = make(chan *Number, 1)
func init() { invCh <- new(Number) }`, `n := <-invCh; n.SetBytes(b[:]); n.mod_inv(n, &TheCurve.p); r.SetBytes(n.Bytes()); invCh <- n`},
	{"method value", `var invN Number`, `set := invN.SetBytes; set(b[:]); var n Number; n.Set(&invN.Int); n.mod_inv(&n, &TheCurve.p); r.SetBytes(n.Bytes())`},
	{"conversion of a pointer", `type num2 Number
var invQ = new(num2)`, `n := (*Number)(invQ); n.SetBytes(b[:]); n.mod_inv(n, &TheCurve.p); r.SetBytes(n.Bytes())`},
	{"words of a package-level big.Int", `var invW = new(big.Int).SetInt64(1 << 40)`, `w := invW.Bits(); w[0] = big.Word(b[0]); var n Number; n.SetBits(w); n.mod_inv(&n, &TheCurve.p); r.SetBytes(n.Bytes())`},
	{"alias made after its use in the text", `var invP = new(Number)`, `var n *Number; for i := 0; i < 2; i++ { if n != nil { n.SetBytes(b[:]); n.mod_inv(n, &TheCurve.p); r.SetBytes(n.Bytes()) }; n = invP }`},
	{"shared byte buffer", `var invBuf [32]byte`, `copy(invBuf[:], b[:]); var n Number; n.SetBytes(invBuf[:]); n.mod_inv(&n, &TheCurve.p); r.SetBytes(n.Bytes())`},
	{"helper that writes the global", `var invN Number
func loadScratch(b []byte) *big.Int { return invN.SetBytes(b) }`, `var n Number; n.Set(loadScratch(b[:])); n.mod_inv(&n, &TheCurve.p); r.SetBytes(n.Bytes())`},
}

func sharedSelfTest(m *srcImporter) error {
	run := func(sh selfShape) (*sharedFacts, error) {
		src := selfBase + "\n" + sh.decls + "\n\nfunc (a *Field) InvVar(r *Field) {\n\tvar b [32]byte\n\tc := *a\n\tc.Normalize()\n\tc.GetB32(b[:])\n\t" +
			sh.body + "\n}\n"
		f, err := parser.ParseFile(m.fset, "selftest_"+strings.ReplaceAll(sh.name, " ", "_")+".go", src, 0)
		if err != nil {
			return nil, fmt.Errorf("shape %q does not parse: %v", sh.name, err)
		}
		info := &types.Info{Uses: map[*ast.Ident]types.Object{}, Defs: map[*ast.Ident]types.Object{},
			Selections: map[*ast.SelectorExpr]*types.Selection{}, Types: map[ast.Expr]types.TypeAndValue{},
			Implicits: map[ast.Node]types.Object{}}
		var firstErr error
		cfg := types.Config{Importer: m, Error: func(e error) {
			if firstErr == nil {
				firstErr = e
			}
		}}
		p, _ := cfg.Check("selftest/secpx", m.fset, []*ast.File{f}, info)
		if firstErr != nil {
			return nil, fmt.Errorf("shape %q does not type-check: %v", sh.name, firstErr)
		}
		return analysePkg(m.fset, &loadedPkg{p, []*ast.File{f}, info}, "secpx.Field.InvVar")
	}
	for _, sh := range selfGood {
		sf, err := run(sh)
		if err != nil {
			return err
		}
		if len(sf.writes) != 0 || sf.invShared {
			return fmt.Errorf("harmless shape %q is reported as shared state: %v invScratchShared=%v", sh.name, sf.writes, sf.invShared)
		}
	}
	for _, sh := range selfBad {
		sf, err := run(sh)
		if err != nil {
			return err
		}
		if os.Getenv("C08_SELFTEST_VERBOSE") != "" {
			fmt.Printf("SELFTEST %q: %v\n", sh.name, sf.writes)
		}
		if len(sf.writes) == 0 || !sf.invShared {
			return fmt.Errorf("shape %q (scratch memory of InvVar kept at package level) is NOT reported: globalsWritten=%v invScratchShared=%v", sh.name, sf.writes, sf.invShared)
		}
	}
	fmt.Printf("SHARED-SELFTEST %d shapes reported, %d harmless shapes clean\n", len(selfBad), len(selfGood))
	return nil
}
