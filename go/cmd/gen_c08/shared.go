// shared.go — structural source fact for C08: lib/secp256k1 keeps no WRITABLE package-level state outside init().
//
// Every Lean model of C08 is a function of the call's arguments (Go's pointer results become return values). That is
// what the Go code does only while no function of the package writes a package-level variable after initialisation:
// a scratch big.Int / Field / XYZ, a cache or a pooled buffer hoisted to package level makes two callers that share
// nothing (the node verifies the inputs of a block in parallel goroutines) influence each other's results.
// (The analysis is the one of go/cmd/gen_c15/shared.go, with address-of in ARGUMENT / receiver position treated as
// handing a reference to the callee — `x.Mul(&r, &TheCurve.beta)` reads beta — instead of as a write.)
//
// The analysis type-checks lib/secp256k1 of the tree under test (go/types, exactly the files a plain build
// compiles), takes every function of the package except init / init_contants and classifies every use of a
// package-level variable:
//
//	write  = assigned (also through index / field / *), ++/--, address taken and kept, receiver of a method that is not
//	         known to be read-only, passed in a destination position (copy dst, append base, big.Int DivMod/QuoRem
//	         remainder, GCD x/y), passed to an unknown callee, or handed on (returned, stored, sent) as a reference.
//	         Local aliases (x := &global, x := global for reference kinds) and parameters of callees inside the
//	         package are followed.
//	sync   = receiver of a method of package sync / sync/atomic (allowed: synchronised by construction)
//	read   = everything else
//
// It writes lean/GocoinV/Gen/C08Shared.lean: globalsRead, globalsWritten (expected []), invScratchShared (does the call
// closure of Field.InvVar — the one function that leaves the limb representation for math/big — write a package-level
// variable?). Props/C08 proves globalsWritten = [] and uses invScratchShared in the step-level model
// Model/GroupSched.lean. A written global is NOT a translate error (the shape is understood): the Lean theorem
// breaks, and the harness stream `conc` (go/cmd/c08/concurrent.go) looks for the failing input.
package main

import (
	"fmt"
	"go/ast"
	"go/build"
	"go/importer"
	"go/parser"
	"go/token"
	"go/types"
	"os"
	"path/filepath"
	"sort"
	"strings"

	"verif/vlib"
	"verif/vtrans"
)

const gocoinMod = "github.com/piotrnar/gocoin/"

type loadedPkg struct {
	pkg   *types.Package
	files []*ast.File
	info  *types.Info
}

type srcImporter struct {
	fset   *token.FileSet
	std    types.Importer
	full   map[string]bool // import paths whose function bodies are checked
	loaded map[string]*loadedPkg
}

func (m *srcImporter) Import(path string) (*types.Package, error) {
	if strings.HasPrefix(path, gocoinMod) {
		lp, err := m.load(path)
		if err != nil {
			return nil, err
		}
		return lp.pkg, nil
	}
	return m.std.Import(path)
}

func (m *srcImporter) load(path string) (*loadedPkg, error) {
	if lp, ok := m.loaded[path]; ok {
		return lp, nil
	}
	dir := filepath.Join(vtrans.RepoRoot(), strings.TrimPrefix(path, gocoinMod))
	ents, err := os.ReadDir(dir)
	if err != nil {
		return nil, err
	}
	ctx := build.Default
	ctx.BuildTags = nil // exactly what a plain build compiles (verif_export.go is excluded)
	var files []*ast.File
	for _, e := range ents {
		n := e.Name()
		if !strings.HasSuffix(n, ".go") || strings.HasSuffix(n, "_test.go") {
			continue
		}
		if ok, _ := ctx.MatchFile(dir, n); !ok {
			continue
		}
		f, err := parser.ParseFile(m.fset, filepath.Join(dir, n), nil, 0)
		if err != nil {
			return nil, err
		}
		files = append(files, f)
	}
	info := &types.Info{Uses: map[*ast.Ident]types.Object{}, Defs: map[*ast.Ident]types.Object{},
		Selections: map[*ast.SelectorExpr]*types.Selection{}, Types: map[ast.Expr]types.TypeAndValue{}}
	var firstErr error
	cfg := types.Config{Importer: m, IgnoreFuncBodies: !m.full[path], FakeImportC: true, Error: func(e error) {
		if firstErr == nil {
			firstErr = e
		}
	}}
	p, _ := cfg.Check(path, m.fset, files, info)
	if firstErr != nil && m.full[path] {
		return nil, fmt.Errorf("type-checking %s: %v", path, firstErr)
	}
	lp := &loadedPkg{p, files, info}
	m.loaded[path] = lp
	return lp, nil
}

// ---------------------------------------------------------------------------------------------------------------

type analysis struct {
	fset  *token.FileSet
	pkgs  []*loadedPkg
	decl  map[*types.Func]*ast.FuncDecl
	owner map[*types.Func]*loadedPkg
	memo  map[string]int // paramWritten: 0 unknown, 1 in progress, 2 no, 3 yes
}

type finding struct {
	fn, v, how string
}

func isPkgLevelVar(o types.Object) bool {
	v, ok := o.(*types.Var)
	return ok && !v.IsField() && v.Pkg() != nil && v.Parent() == v.Pkg().Scope()
}

func varName(o types.Object) string { return o.Pkg().Name() + "." + o.Name() }

func funcName(f *types.Func) string {
	sig, _ := f.Type().(*types.Signature)
	if sig != nil && sig.Recv() != nil {
		t := sig.Recv().Type()
		if p, ok := t.(*types.Pointer); ok {
			t = p.Elem()
		}
		if n, ok := t.(*types.Named); ok {
			return f.Pkg().Name() + "." + n.Obj().Name() + "." + f.Name()
		}
	}
	if f.Pkg() == nil {
		return f.Name()
	}
	return f.Pkg().Name() + "." + f.Name()
}

// isRef: does a value of this type share memory with its source when copied?
func isRef(t types.Type, depth int) bool {
	if depth > 6 {
		return true
	}
	switch u := t.Underlying().(type) {
	case *types.Pointer, *types.Slice, *types.Map, *types.Chan, *types.Signature, *types.Interface:
		return true
	case *types.Array:
		return isRef(u.Elem(), depth+1)
	case *types.Struct:
		for i := 0; i < u.NumFields(); i++ {
			if isRef(u.Field(i).Type(), depth+1) {
				return true
			}
		}
	}
	return false
}

// std-library callees whose slice / pointer arguments are only read
var readOnlyFuncs = map[string]bool{
	"bytes.Equal": true, "bytes.Compare": true, "bytes.Index": true, "bytes.IndexByte": true, "bytes.IndexAny": true,
	"bytes.IndexRune": true, "bytes.IndexFunc": true, "bytes.LastIndex": true, "bytes.LastIndexByte": true,
	"bytes.Contains": true, "bytes.ContainsAny": true, "bytes.ContainsRune": true, "bytes.Count": true,
	"bytes.HasPrefix": true, "bytes.HasSuffix": true, "bytes.EqualFold": true, "bytes.NewReader": true,
	"hex.EncodeToString": true, "hex.Dump": true, "sha256.Sum256": true, "binary.LittleEndian.Uint32": true,
}
var readOnlyPkgs = map[string]bool{"fmt": true, "strings": true, "errors": true, "strconv": true, "sort": false}

// read-only methods of *big.Int (receiver only read)
var bigIntReadOnly = map[string]bool{"Cmp": true, "CmpAbs": true, "Sign": true, "Int64": true, "Uint64": true, "IsInt64": true,
	"IsUint64": true, "Bytes": true, "FillBytes": true, "BitLen": true, "Bit": true, "Bits": true, "String": true, "Text": true,
	"Append": true, "TrailingZeroBits": true, "ProbablyPrime": true, "Format": true, "Float64": true}

// destination parameters (besides the receiver) of *big.Int methods
var bigIntDestArgs = map[string][]int{"DivMod": {2}, "QuoRem": {2}, "GCD": {0, 1}}

type walker struct {
	an      *analysis
	lp      *loadedPkg
	fn      string
	tracked func(types.Object) bool
	param   bool // tracking one parameter: re-assigning the parameter variable itself is not a write
	alias   map[types.Object]types.Object // local -> root
	reads   map[types.Object]bool
	syncs   map[types.Object]bool
	out     []finding
	handed  map[*ast.UnaryExpr]bool // &x expressions already accounted for as "reference handed on"
}

func (w *walker) resolve(o types.Object) types.Object {
	if o == nil {
		return nil
	}
	if r, ok := w.alias[o]; ok {
		return r
	}
	if w.tracked(o) {
		return o
	}
	return nil
}

// rootOf: the tracked variable an expression is rooted at (x, x[i], x[a:b], x.f, *x, (x)), or nil.
func (w *walker) rootOf(e ast.Expr) types.Object {
	for {
		switch x := e.(type) {
		case *ast.ParenExpr:
			e = x.X
		case *ast.IndexExpr:
			e = x.X
		case *ast.SliceExpr:
			e = x.X
		case *ast.StarExpr:
			e = x.X
		case *ast.SelectorExpr:
			if sel, ok := w.lp.info.Selections[x]; ok {
				if sel.Kind() != types.FieldVal {
					return nil
				}
				e = x.X
			} else { // qualified identifier pkg.Var
				return w.resolve(w.lp.info.Uses[x.Sel])
			}
		case *ast.Ident:
			o := w.lp.info.Uses[x]
			if o == nil {
				o = w.lp.info.Defs[x]
			}
			return w.resolve(o)
		default:
			return nil
		}
	}
}

func (w *walker) typeOf(e ast.Expr) types.Type {
	if tv, ok := w.lp.info.Types[e]; ok && tv.Type != nil {
		return tv.Type
	}
	return types.Typ[types.Invalid]
}

func (w *walker) write(o types.Object, how string) {
	w.out = append(w.out, finding{w.fn, varName(o), how})
}

// refArg: the tracked root of an expression that hands a reference on (nil when it is a copy of a value)
func (w *walker) refArg(e ast.Expr) types.Object {
	for {
		p, ok := e.(*ast.ParenExpr)
		if !ok {
			break
		}
		e = p.X
	}
	if u, ok := e.(*ast.UnaryExpr); ok && u.Op == token.AND { // &x handed on: a reference to x, judged where it lands
		if w.handed == nil {
			w.handed = map[*ast.UnaryExpr]bool{}
		}
		w.handed[u] = true
		return w.rootOf(u.X)
	}
	if _, isCall := e.(*ast.CallExpr); isCall {
		return nil
	}
	r := w.rootOf(e)
	if r == nil || !isRef(w.typeOf(e), 0) {
		return nil
	}
	return r
}

func (w *walker) callee(c *ast.CallExpr) (f *types.Func, recv ast.Expr, builtin string, isConv bool) {
	fun := c.Fun
	for {
		if p, ok := fun.(*ast.ParenExpr); ok {
			fun = p.X
		} else {
			break
		}
	}
	if tv, ok := w.lp.info.Types[fun]; ok && tv.IsType() {
		return nil, nil, "", true
	}
	switch x := fun.(type) {
	case *ast.Ident:
		switch o := w.lp.info.Uses[x].(type) {
		case *types.Func:
			return o, nil, "", false
		case *types.Builtin:
			return nil, nil, o.Name(), false
		}
	case *ast.SelectorExpr:
		if sel, ok := w.lp.info.Selections[x]; ok {
			if f, ok := sel.Obj().(*types.Func); ok {
				return f, x.X, "", false
			}
			return nil, nil, "", false
		}
		if f, ok := w.lp.info.Uses[x.Sel].(*types.Func); ok {
			return f, nil, "", false
		}
	}
	return nil, nil, "", false
}

func recvNamed(f *types.Func) (pkg, typ string, ptr bool) {
	sig, _ := f.Type().(*types.Signature)
	if sig == nil || sig.Recv() == nil {
		return
	}
	t := sig.Recv().Type()
	if p, ok := t.(*types.Pointer); ok {
		t, ptr = p.Elem(), true
	}
	if n, ok := t.(*types.Named); ok && n.Obj().Pkg() != nil {
		return n.Obj().Pkg().Path(), n.Obj().Name(), ptr
	}
	if _, ok := t.Underlying().(*types.Interface); ok {
		return "", "interface", false
	}
	return
}

func (w *walker) call(c *ast.CallExpr) {
	f, recv, builtin, isConv := w.callee(c)
	if isConv {
		return // conversions copy (string(b), []byte(s)) or keep the reference without writing; result use is tracked where it lands
	}
	if builtin != "" {
		switch builtin {
		case "copy", "clear", "delete", "append":
			if len(c.Args) > 0 {
				if r := w.refArg(c.Args[0]); r != nil {
					w.write(r, builtin+" destination")
				}
			}
		}
		return
	}
	if f == nil { // function value / unresolved: every reference handed over may be written
		for _, a := range c.Args {
			if r := w.refArg(a); r != nil {
				w.write(r, "passed to an unresolved callee")
			}
		}
		return
	}
	pkgPath, typName, ptrRecv := recvNamed(f)
	own := w.an.decl[f] != nil
	// receiver
	if recv != nil {
		if r := w.rootOf(recv); r != nil {
			switch {
			case pkgPath == "sync" || pkgPath == "sync/atomic":
				w.syncs[r] = true
			case own:
				if (ptrRecv || isRef(w.typeOf(recv), 0)) && w.an.paramWritten(f, -1) {
					w.write(r, "receiver of "+funcName(f)+", which writes it")
				}
			case pkgPath == "math/big" && typName == "Int" && bigIntReadOnly[f.Name()]:
			case typName == "interface" && (f.Name() == "Error" || f.Name() == "String"):
			case !ptrRecv && !isRef(w.typeOf(recv), 0):
			default:
				w.write(r, "receiver of "+funcName(f))
			}
		}
	}
	// arguments
	sig, _ := f.Type().(*types.Signature)
	for i, a := range c.Args {
		r := w.refArg(a)
		if r == nil {
			continue
		}
		idx := i
		if sig != nil && sig.Variadic() && idx >= sig.Params().Len()-1 {
			idx = sig.Params().Len() - 1
		}
		switch {
		case own:
			if w.an.paramWritten(f, idx) {
				w.write(r, fmt.Sprintf("argument %d of %s, which writes it", i, funcName(f)))
			}
		case pkgPath == "math/big" && typName == "Int":
			for _, d := range bigIntDestArgs[f.Name()] {
				if d == i {
					w.write(r, "destination operand of big.Int."+f.Name())
				}
			}
		case f.Name() == "Write" && recv != nil: // io.Writer contract: Write must not modify the slice
		case f.Name() == "UnmarshalBinary" && recv != nil && pkgPath == "encoding" && typName == "BinaryUnmarshaler":
			// encoding.BinaryUnmarshaler contract: the data is read, and copied if the callee keeps it
		case f.Pkg() != nil && (readOnlyPkgs[f.Pkg().Name()] || readOnlyFuncs[f.Pkg().Name()+"."+f.Name()]):
		default:
			w.write(r, "passed to "+funcName(f))
		}
	}
}

func (w *walker) node(n ast.Node) bool {
	switch x := n.(type) {
	case *ast.Ident:
		if o := w.lp.info.Uses[x]; o != nil && w.tracked(o) {
			w.reads[o] = true
		}
	case *ast.AssignStmt:
		for _, l := range x.Lhs {
			if id, ok := l.(*ast.Ident); ok {
				o := w.lp.info.Uses[id]
				if o != nil && w.tracked(o) && !w.param {
					w.write(o, "assigned")
				}
				continue
			}
			if r := w.rootOf(l); r != nil {
				w.write(r, "assigned through index/field/pointer")
			}
		}
		if len(x.Lhs) == len(x.Rhs) {
			for i, rh := range x.Rhs {
				r := w.refArg(rh)
				id, isId := x.Lhs[i].(*ast.Ident)
				if r == nil {
					continue // flow-insensitive: a local that was an alias once stays one (it may be re-assigned on one branch only)
				}
				if isId && id.Name != "_" {
					if o := w.objOf(id); o != nil && !isPkgLevelVar(o) {
						w.alias[o] = r
						continue
					}
				}
				if !isId {
					w.write(r, "stored as a reference")
				}
			}
		}
	case *ast.ValueSpec:
		if len(x.Names) == len(x.Values) {
			for i, v := range x.Values {
				if r := w.refArg(v); r != nil {
					if o := w.lp.info.Defs[x.Names[i]]; o != nil {
						w.alias[o] = r
					}
				}
			}
		}
	case *ast.IncDecStmt:
		if r := w.rootOf(x.X); r != nil {
			w.write(r, "incremented/decremented")
		}
	case *ast.UnaryExpr:
		if x.Op == token.AND && !w.handed[x] {
			if r := w.rootOf(x.X); r != nil {
				w.write(r, "address taken")
			}
		}
	case *ast.CallExpr:
		w.call(x)
	case *ast.ReturnStmt:
		for _, e := range x.Results {
			if r := w.refArg(e); r != nil {
				w.write(r, "returned as a reference")
			}
		}
	case *ast.CompositeLit:
		for _, e := range x.Elts {
			if kv, ok := e.(*ast.KeyValueExpr); ok {
				e = kv.Value
			}
			if r := w.refArg(e); r != nil {
				w.write(r, "stored in a composite value")
			}
		}
	case *ast.SendStmt:
		if r := w.refArg(x.Value); r != nil {
			w.write(r, "sent on a channel")
		}
	case *ast.RangeStmt:
		for _, e := range []ast.Expr{x.Key, x.Value} {
			if e == nil {
				continue
			}
			if _, ok := e.(*ast.Ident); ok {
				continue
			}
			if r := w.rootOf(e); r != nil {
				w.write(r, "range assignment")
			}
		}
	}
	return true
}

func (w *walker) objOf(id *ast.Ident) types.Object {
	if o := w.lp.info.Defs[id]; o != nil {
		return o
	}
	return w.lp.info.Uses[id]
}

// paramWritten: does fn write (or hand on) the memory its parameter idx (-1 = receiver) refers to?
func (an *analysis) paramWritten(f *types.Func, idx int) bool {
	key := fmt.Sprintf("%s#%d", f.FullName(), idx)
	switch an.memo[key] {
	case 1, 3:
		return true // recursion: assume the worst
	case 2:
		return false
	}
	an.memo[key] = 1
	fd, lp := an.decl[f], an.owner[f]
	res := true
	if fd != nil && fd.Body != nil {
		var id *ast.Ident
		if idx < 0 {
			if fd.Recv != nil && len(fd.Recv.List) == 1 && len(fd.Recv.List[0].Names) == 1 {
				id = fd.Recv.List[0].Names[0]
			}
		} else {
			n := 0
			for _, fl := range fd.Type.Params.List {
				for _, nm := range fl.Names {
					if n == idx {
						id = nm
					}
					n++
				}
				if len(fl.Names) == 0 {
					n++
				}
			}
		}
		if id == nil || id.Name == "_" {
			res = false // unnamed: cannot be used
		} else {
			po := lp.info.Defs[id]
			w := &walker{an: an, lp: lp, fn: funcName(f), tracked: func(o types.Object) bool { return o == po }, param: true,
				alias: map[types.Object]types.Object{}, reads: map[types.Object]bool{}, syncs: map[types.Object]bool{}}
			ast.Inspect(fd.Body, w.node)
			res = len(w.out) > 0
		}
	}
	if res {
		an.memo[key] = 3
	} else {
		an.memo[key] = 2
	}
	return res
}

// closure of the roots inside the fully loaded packages; `stop` names functions that bound it
func (an *analysis) closure(roots []*types.Func, stop map[string]bool) []*types.Func {
	seen := map[*types.Func]bool{}
	var order []*types.Func
	var visit func(f *types.Func)
	visit = func(f *types.Func) {
		if seen[f] || an.decl[f] == nil || stop[funcName(f)] {
			return
		}
		seen[f] = true
		order = append(order, f)
		fd, lp := an.decl[f], an.owner[f]
		if fd.Body == nil {
			return
		}
		w := &walker{an: an, lp: lp}
		ast.Inspect(fd.Body, func(n ast.Node) bool {
			if c, ok := n.(*ast.CallExpr); ok {
				if g, _, _, _ := w.callee(c); g != nil {
					visit(g)
				}
			}
			return true
		})
	}
	for _, r := range roots {
		visit(r)
	}
	return order
}

func (an *analysis) lookup(lp *loadedPkg, recv, name string) (*types.Func, error) {
	if recv == "" {
		if f, ok := lp.pkg.Scope().Lookup(name).(*types.Func); ok {
			return f, nil
		}
		return nil, fmt.Errorf("%s: function %s not found", lp.pkg.Name(), name)
	}
	tn, ok := lp.pkg.Scope().Lookup(recv).(*types.TypeName)
	if !ok {
		return nil, fmt.Errorf("%s: type %s not found", lp.pkg.Name(), recv)
	}
	o, _, _ := types.LookupFieldOrMethod(types.NewPointer(tn.Type()), true, lp.pkg, name)
	if f, ok := o.(*types.Func); ok {
		return f, nil
	}
	return nil, fmt.Errorf("%s: method %s.%s not found", lp.pkg.Name(), recv, name)
}

func leanStrList(xs []string) string {
	if len(xs) == 0 {
		return "[]"
	}
	var q []string
	for _, x := range xs {
		q = append(q, "\""+strings.ReplaceAll(strings.ReplaceAll(x, "\\", "\\\\"), "\"", "\\\"")+"\"")
	}
	return "[\n  " + strings.Join(q, ",\n  ") + "]"
}

// genShared writes Gen/C08Shared.lean and returns the number of regenerated definitions.
func genShared() (int, error) {
	fset := token.NewFileSet()
	path := gocoinMod + "lib/secp256k1"
	m := &srcImporter{fset: fset, std: importer.ForCompiler(fset, "source", nil), full: map[string]bool{path: true}, loaded: map[string]*loadedPkg{}}
	lp, err := m.load(path)
	if err != nil {
		return 0, err
	}
	an := &analysis{fset: fset, pkgs: []*loadedPkg{lp}, decl: map[*types.Func]*ast.FuncDecl{}, owner: map[*types.Func]*loadedPkg{}, memo: map[string]int{}}
	var roots []*types.Func
	var invRoot *types.Func
	for _, f := range lp.files {
		for _, d := range f.Decls {
			fd, ok := d.(*ast.FuncDecl)
			if !ok {
				continue
			}
			fo, ok := lp.info.Defs[fd.Name].(*types.Func)
			if !ok {
				continue
			}
			an.decl[fo], an.owner[fo] = fd, lp
			// initialisation (runs once, before any caller): init() has no object; init_contants is its helper
			if fd.Name.Name == "init" || fd.Name.Name == "init_contants" {
				continue
			}
			roots = append(roots, fo)
			if funcName(fo) == "secp256k1.Field.InvVar" {
				invRoot = fo
			}
		}
	}
	if invRoot == nil {
		return 0, fmt.Errorf("secp256k1: method Field.InvVar not found")
	}
	sort.Slice(roots, func(i, j int) bool { return funcName(roots[i]) < funcName(roots[j]) })
	readSet, writeSet, syncSet := map[string]bool{}, map[string]bool{}, map[string]bool{}
	scan := func(fs []*types.Func) (writes []finding) {
		for _, f := range fs {
			fd, lp := an.decl[f], an.owner[f]
			if fd.Body == nil {
				continue
			}
			w := &walker{an: an, lp: lp, fn: funcName(f), tracked: isPkgLevelVar, alias: map[types.Object]types.Object{},
				reads: map[types.Object]bool{}, syncs: map[types.Object]bool{}}
			ast.Inspect(fd.Body, w.node)
			for o := range w.reads {
				readSet[varName(o)] = true
			}
			for o := range w.syncs {
				syncSet[varName(o)] = true
			}
			writes = append(writes, w.out...)
		}
		return
	}
	stop := map[string]bool{"secp256k1.init_contants": true}
	for _, fd := range scan(an.closure(roots, stop)) {
		writeSet[fd.fn+": "+fd.v+" ("+fd.how+")"] = true
	}
	// Field.InvVar and what it calls inside the package: is one of the values it writes package-level?
	invShared := false
	{
		r2, w2, s2 := readSet, writeSet, syncSet
		readSet, writeSet, syncSet = map[string]bool{}, map[string]bool{}, map[string]bool{}
		invShared = len(scan(an.closure([]*types.Func{invRoot}, stop))) > 0
		readSet, writeSet, syncSet = r2, w2, s2
	}
	keys := func(m map[string]bool) (out []string) {
		for k := range m {
			out = append(out, k)
		}
		sort.Strings(out)
		return
	}
	var sb strings.Builder
	sb.WriteString("/- GENERATED by go/cmd/gen_c08 (shared.go) from lib/secp256k1 — do not edit; not in git. -/\n")
	sb.WriteString("namespace GocoinV.Gen.C08Shared\n\n")
	sb.WriteString("/-- package-level variables used by the functions of lib/secp256k1 (everything except init / init_contants) -/\n")
	fmt.Fprintf(&sb, "def globalsRead : List String := %s\n\n", leanStrList(keys(readSet)))
	sb.WriteString("/-- uses that write one of them (or hand it on as a reference): \"function: variable (how)\" -/\n")
	fmt.Fprintf(&sb, "def globalsWritten : List String := %s\n\n", leanStrList(keys(writeSet)))
	sb.WriteString("/-- a value written inside Field.InvVar (its big-integer scratch number, …) is a package-level variable -/\n")
	fmt.Fprintf(&sb, "def invScratchShared : Bool := %v\n\n", invShared)
	fmt.Fprintf(&sb, "-- synchronised (sync / sync/atomic receivers, allowed): %s\n\n", strings.Join(keys(syncSet), ", "))
	sb.WriteString("end GocoinV.Gen.C08Shared\n")
	out := vlib.Root() + "/lean/GocoinV/Gen/C08Shared.lean"
	os.Remove(out)
	if err := os.WriteFile(out, []byte(sb.String()), 0644); err != nil {
		return 0, err
	}
	for _, k := range keys(writeSet) {
		fmt.Println("SHARED-WRITE", k)
	}
	return 3, nil
}
