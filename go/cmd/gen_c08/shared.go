// shared.go — structural source fact for C08: lib/secp256k1 keeps no WRITABLE package-level state outside init().
//
// Every Lean model of C08 is a function of the call's arguments (Go's pointer results become return values). That is
// what the Go code does only while no function of the package writes a package-level variable after initialisation:
// a scratch big.Int / Field / XYZ, a cache or a pooled buffer hoisted to package level makes two callers that share
// nothing (the node verifies the inputs of a block in parallel goroutines) influence each other's results.
// (The analysis is the one of go/cmd/gen_c15/shared.go, with address-of in ARGUMENT / receiver position treated as
// handing a reference to the callee — `x.Mul(&r, &TheCurve.beta)` reads beta — instead of as a write.)
//
// The analysis type-checks lib/secp256k1 of the tree under test (go/types, exactly the files a plain build
// compiles), takes every function of the package except init / init_contants AND every func literal found in the
// initialiser of a package-level variable (except one that is called on the spot: that call is initialisation), and
// classifies every use of a package-level variable:
//
//	write  = assigned (also through index / field / *), ++/--, address taken and kept, receiver of a method that is not
//	         known to be read-only, passed in a destination position (copy dst, append base, big.Int DivMod/QuoRem
//	         remainder, GCD x/y), passed to an unknown callee, or handed on (returned, stored, sent) as a reference.
//	sync   = receiver of a method of package sync / sync/atomic (allowed: synchronised by construction)
//	read   = everything else
//
// FOLLOWED (a local becomes an alias of the package-level variable; the walk is repeated until the alias map is
// stable, so an alias made later in the text than its use counts): x := &g, x := g / g.f / g[i] / g[a:b] / *g for
// reference kinds, conversions T(g), type assertions g.(T) and type switches, channel receives <-g, the comma-ok forms
// of these, range variables of reference kind over g, results of methods of FOREIGN types called on g unless known to
// be fresh (big.Int.Bits hands out the number's own words), parameters of callees inside the package, and the body of
// a plain func literal held by a package-level func variable that is assigned nowhere else.
// NOT FOLLOWED, therefore REPORTED as a write (unknown ⇒ flagged): a call through any other function value that lives
// in package-level state (closure returned by a call, func field / element, func variable set in init), a method value
// bound to package-level state, a reference returned by a function of the package.
// NOT SEEN: unsafe / reflect / cgo / assembly, state inside other packages, memory shared through the arguments.
// selftest.go runs the analysis on synthetic shapes of each kind before the verdict on the real package is written.
//
// It writes lean/GocoinV/Gen/C08Shared.lean: globalsRead, globalsWritten (expected []), invScratchShared (does the call
// closure of Field.InvVar — the one function that leaves the limb representation for math/big — write a package-level
// variable?). Props/C08 proves globalsWritten = [] and uses invScratchShared in the step-level model
// Model/GroupSched.lean. A written global is NOT a translate error (the shape is understood): the Lean theorem
// breaks, and the harness stream `conc` (go/cmd/c08/concurrent.go) looks for the failing input.
package main

import (
	"fmt"
	"go/ast"
	"go/build"
	"go/importer"
	"go/parser"
	"go/token"
	"go/types"
	"os"
	"path/filepath"
	"sort"
	"strings"

	"verif/vlib"
	"verif/vtrans"
)

const gocoinMod = "github.com/piotrnar/gocoin/"

type loadedPkg struct {
	pkg   *types.Package
	files []*ast.File
	info  *types.Info
}

type srcImporter struct {
	fset   *token.FileSet
	std    types.Importer
	full   map[string]bool // import paths whose function bodies are checked
	loaded map[string]*loadedPkg
}

func (m *srcImporter) Import(path string) (*types.Package, error) {
	if strings.HasPrefix(path, gocoinMod) {
		lp, err := m.load(path)
		if err != nil {
			return nil, err
		}
		return lp.pkg, nil
	}
	return m.std.Import(path)
}

func (m *srcImporter) load(path string) (*loadedPkg, error) {
	if lp, ok := m.loaded[path]; ok {
		return lp, nil
	}
	dir := filepath.Join(vtrans.RepoRoot(), strings.TrimPrefix(path, gocoinMod))
	ents, err := os.ReadDir(dir)
	if err != nil {
		return nil, err
	}
	ctx := build.Default
	ctx.BuildTags = nil // exactly what a plain build compiles (verif_export.go is excluded)
	var files []*ast.File
	for _, e := range ents {
		n := e.Name()
		if !strings.HasSuffix(n, ".go") || strings.HasSuffix(n, "_test.go") {
			continue
		}
		if ok, _ := ctx.MatchFile(dir, n); !ok {
			continue
		}
		f, err := parser.ParseFile(m.fset, filepath.Join(dir, n), nil, 0)
		if err != nil {
			return nil, err
		}
		files = append(files, f)
	}
	info := &types.Info{Uses: map[*ast.Ident]types.Object{}, Defs: map[*ast.Ident]types.Object{},
		Selections: map[*ast.SelectorExpr]*types.Selection{}, Types: map[ast.Expr]types.TypeAndValue{},
		Implicits: map[ast.Node]types.Object{}}
	var firstErr error
	cfg := types.Config{Importer: m, IgnoreFuncBodies: !m.full[path], FakeImportC: true, Error: func(e error) {
		if firstErr == nil {
			firstErr = e
		}
	}}
	p, _ := cfg.Check(path, m.fset, files, info)
	if firstErr != nil && m.full[path] {
		return nil, fmt.Errorf("type-checking %s: %v", path, firstErr)
	}
	lp := &loadedPkg{p, files, info}
	m.loaded[path] = lp
	return lp, nil
}

// ---------------------------------------------------------------------------------------------------------------

type analysis struct {
	fset  *token.FileSet
	pkgs  []*loadedPkg
	decl  map[*types.Func]*ast.FuncDecl
	owner map[*types.Func]*loadedPkg
	memo  map[string]int // paramWritten: 0 unknown, 1 in progress, 2 no, 3 yes
	// package-level variables of function type whose initialiser is a plain func literal and that are assigned nowhere
	// else (init included): a call through such a variable is a call of that body (scanned as a root of its own)
	litOf map[types.Object]*ast.FuncLit
	litLp map[*ast.FuncLit]*loadedPkg
}

type finding struct {
	fn, v, how string
}

func isPkgLevelVar(o types.Object) bool {
	v, ok := o.(*types.Var)
	return ok && !v.IsField() && v.Pkg() != nil && v.Parent() == v.Pkg().Scope()
}

func varName(o types.Object) string { return o.Pkg().Name() + "." + o.Name() }

func funcName(f *types.Func) string {
	sig, _ := f.Type().(*types.Signature)
	if sig != nil && sig.Recv() != nil {
		t := sig.Recv().Type()
		if p, ok := t.(*types.Pointer); ok {
			t = p.Elem()
		}
		if n, ok := t.(*types.Named); ok {
			return f.Pkg().Name() + "." + n.Obj().Name() + "." + f.Name()
		}
	}
	if f.Pkg() == nil {
		return f.Name()
	}
	return f.Pkg().Name() + "." + f.Name()
}

// isRef: does a value of this type share memory with its source when copied?
func isRef(t types.Type, depth int) bool {
	if depth > 6 {
		return true
	}
	switch u := t.Underlying().(type) {
	case *types.Pointer, *types.Slice, *types.Map, *types.Chan, *types.Signature, *types.Interface:
		return true
	case *types.Array:
		return isRef(u.Elem(), depth+1)
	case *types.Struct:
		for i := 0; i < u.NumFields(); i++ {
			if isRef(u.Field(i).Type(), depth+1) {
				return true
			}
		}
	}
	return false
}

// std-library callees whose slice / pointer arguments are only read
var readOnlyFuncs = map[string]bool{
	"bytes.Equal": true, "bytes.Compare": true, "bytes.Index": true, "bytes.IndexByte": true, "bytes.IndexAny": true,
	"bytes.IndexRune": true, "bytes.IndexFunc": true, "bytes.LastIndex": true, "bytes.LastIndexByte": true,
	"bytes.Contains": true, "bytes.ContainsAny": true, "bytes.ContainsRune": true, "bytes.Count": true,
	"bytes.HasPrefix": true, "bytes.HasSuffix": true, "bytes.EqualFold": true, "bytes.NewReader": true,
	"hex.EncodeToString": true, "hex.Dump": true, "sha256.Sum256": true, "binary.LittleEndian.Uint32": true,
}
var readOnlyPkgs = map[string]bool{"fmt": true, "strings": true, "errors": true, "strconv": true, "sort": false}

// read-only methods of *big.Int (receiver only read)
var bigIntReadOnly = map[string]bool{"Cmp": true, "CmpAbs": true, "Sign": true, "Int64": true, "Uint64": true, "IsInt64": true,
	"IsUint64": true, "Bytes": true, "FillBytes": true, "BitLen": true, "Bit": true, "String": true, "Text": true,
	"Append": true, "TrailingZeroBits": true, "ProbablyPrime": true, "Format": true, "Float64": true}

// destination parameters (besides the receiver) of *big.Int methods
var bigIntDestArgs = map[string][]int{"DivMod": {2}, "QuoRem": {2}, "GCD": {0, 1}}

type walker struct {
	an      *analysis
	lp      *loadedPkg
	fn      string
	tracked func(types.Object) bool
	param   bool                          // tracking one parameter: re-assigning the parameter variable itself is not a write
	alias   map[types.Object]types.Object // local -> root
	reads   map[types.Object]bool
	syncs   map[types.Object]bool
	out     []finding
	handed  map[*ast.UnaryExpr]bool // &x expressions already accounted for as "reference handed on"
	callFun map[ast.Expr]bool       // selector expressions in call position (everything else that selects a method is a method VALUE)
}

// results of these methods of types outside the package are fresh memory; the result of every other such method is
// taken to share memory with its receiver (big.Int.Bits hands out the number's own words)
var freshResult = map[string]bool{"Bytes": true, "String": true, "Text": true, "Append": true, "Error": true, "Sum": true,
	"MarshalBinary": true, "FillBytes": true}

func (w *walker) resolve(o types.Object) types.Object {
	if o == nil {
		return nil
	}
	if r, ok := w.alias[o]; ok {
		return r
	}
	if w.tracked(o) {
		return o
	}
	return nil
}

// rootOf: the tracked variable an expression is rooted at (x, x[i], x[a:b], x.f, *x, (x)), or nil.
func (w *walker) rootOf(e ast.Expr) types.Object {
	for {
		switch x := e.(type) {
		case *ast.ParenExpr:
			e = x.X
		case *ast.IndexExpr:
			e = x.X
		case *ast.SliceExpr:
			e = x.X
		case *ast.StarExpr:
			e = x.X
		case *ast.TypeAssertExpr: // v.(T): the dynamic value of an interface shares memory with what was put into it
			e = x.X
		case *ast.UnaryExpr:
			if x.Op != token.ARROW && x.Op != token.AND { // <-ch: what is received was reachable from the channel
				return nil
			}
			e = x.X
		case *ast.CallExpr:
			if tv, ok := w.lp.info.Types[x.Fun]; ok && tv.IsType() && len(x.Args) == 1 {
				e = x.Args[0] // conversion T(v): same memory for reference kinds
				continue
			}
			// method of a type outside the analysed package called on tracked memory: the result is taken to share
			// memory with the receiver unless the method is known to return fresh memory. (Results of functions and
			// methods of the package itself are judged in the callee: returning a tracked reference is flagged there.)
			f, recv, _, _ := w.callee(x)
			if f == nil || recv == nil || w.an.decl[f] != nil || freshResult[f.Name()] || !isRef(w.typeOf(x), 0) {
				return nil
			}
			e = recv
		case *ast.SelectorExpr:
			if sel, ok := w.lp.info.Selections[x]; ok {
				if sel.Kind() != types.FieldVal {
					return nil
				}
				e = x.X
			} else { // qualified identifier pkg.Var
				return w.resolve(w.lp.info.Uses[x.Sel])
			}
		case *ast.Ident:
			o := w.lp.info.Uses[x]
			if o == nil {
				o = w.lp.info.Defs[x]
			}
			return w.resolve(o)
		default:
			return nil
		}
	}
}

func (w *walker) typeOf(e ast.Expr) types.Type {
	if tv, ok := w.lp.info.Types[e]; ok && tv.Type != nil {
		return tv.Type
	}
	return types.Typ[types.Invalid]
}

func (w *walker) write(o types.Object, how string) {
	w.out = append(w.out, finding{w.fn, varName(o), how})
}

// refArg: the tracked root of an expression that hands a reference on (nil when it is a copy of a value)
func (w *walker) refArg(e ast.Expr) types.Object {
	for {
		p, ok := e.(*ast.ParenExpr)
		if !ok {
			break
		}
		e = p.X
	}
	if u, ok := e.(*ast.UnaryExpr); ok && u.Op == token.AND { // &x handed on: a reference to x, judged where it lands
		if w.handed == nil {
			w.handed = map[*ast.UnaryExpr]bool{}
		}
		w.handed[u] = true
		return w.rootOf(u.X)
	}
	r := w.rootOf(e)
	if r == nil || !isRef(w.typeOf(e), 0) {
		return nil
	}
	return r
}

func unparen(e ast.Expr) ast.Expr {
	for {
		p, ok := e.(*ast.ParenExpr)
		if !ok {
			return e
		}
		e = p.X
	}
}

// resolveIdent: the tracked root an identifier stands for (itself, or what it is a local alias of)
func (w *walker) resolveIdent(id *ast.Ident) types.Object {
	o := w.lp.info.Uses[id]
	if o == nil {
		o = w.lp.info.Defs[id]
	}
	return w.resolve(o)
}

func (w *walker) callee(c *ast.CallExpr) (f *types.Func, recv ast.Expr, builtin string, isConv bool) {
	fun := c.Fun
	for {
		if p, ok := fun.(*ast.ParenExpr); ok {
			fun = p.X
		} else {
			break
		}
	}
	if tv, ok := w.lp.info.Types[fun]; ok && tv.IsType() {
		return nil, nil, "", true
	}
	switch x := fun.(type) {
	case *ast.Ident:
		switch o := w.lp.info.Uses[x].(type) {
		case *types.Func:
			return o, nil, "", false
		case *types.Builtin:
			return nil, nil, o.Name(), false
		}
	case *ast.SelectorExpr:
		if sel, ok := w.lp.info.Selections[x]; ok {
			if f, ok := sel.Obj().(*types.Func); ok {
				return f, x.X, "", false
			}
			return nil, nil, "", false
		}
		if f, ok := w.lp.info.Uses[x.Sel].(*types.Func); ok {
			return f, nil, "", false
		}
	}
	return nil, nil, "", false
}

func recvNamed(f *types.Func) (pkg, typ string, ptr bool) {
	sig, _ := f.Type().(*types.Signature)
	if sig == nil || sig.Recv() == nil {
		return
	}
	t := sig.Recv().Type()
	if p, ok := t.(*types.Pointer); ok {
		t, ptr = p.Elem(), true
	}
	if n, ok := t.(*types.Named); ok && n.Obj().Pkg() != nil {
		return n.Obj().Pkg().Path(), n.Obj().Name(), ptr
	}
	if _, ok := t.Underlying().(*types.Interface); ok {
		return "", "interface", false
	}
	return
}

func (w *walker) call(c *ast.CallExpr) {
	f, recv, builtin, isConv := w.callee(c)
	if isConv {
		return // conversions copy (string(b), []byte(s)) or keep the reference without writing; result use is tracked where it lands
	}
	if builtin != "" {
		switch builtin {
		case "copy", "clear", "delete", "append":
			if len(c.Args) > 0 {
				if r := w.refArg(c.Args[0]); r != nil {
					w.write(r, builtin+" destination")
				}
			}
		}
		return
	}
	if f == nil { // function value / unresolved: every reference handed over may be written
		for _, a := range c.Args {
			if r := w.refArg(a); r != nil {
				w.write(r, "passed to an unresolved callee")
			}
		}
		// the function value itself lives in package-level state (a func variable, a func field / element of a
		// package-level struct, map, slice …): its body is followed only when it is a plain func literal that is the
		// variable's one and only value; anything else (a closure returned by a call, a value assigned in init, a field)
		// is NOT followed and therefore reported
		if r := w.rootOf(c.Fun); r != nil && isPkgLevelVar(r) {
			if id, ok := unparen(c.Fun).(*ast.Ident); ok && w.an.litOf[w.resolveIdent(id)] != nil {
				return
			}
			w.write(r, "call through a function value kept in package-level state (body not followed)")
		}
		return
	}
	pkgPath, typName, ptrRecv := recvNamed(f)
	own := w.an.decl[f] != nil
	// receiver
	if recv != nil {
		if r := w.rootOf(recv); r != nil {
			switch {
			case pkgPath == "sync" || pkgPath == "sync/atomic":
				w.syncs[r] = true
			case own:
				if (ptrRecv || isRef(w.typeOf(recv), 0)) && w.an.paramWritten(f, -1) {
					w.write(r, "receiver of "+funcName(f)+", which writes it")
				}
			case pkgPath == "math/big" && typName == "Int" && bigIntReadOnly[f.Name()]:
			case typName == "interface" && (f.Name() == "Error" || f.Name() == "String"):
			case !ptrRecv && !isRef(w.typeOf(recv), 0):
			default:
				w.write(r, "receiver of "+funcName(f))
			}
		}
	}
	// arguments
	sig, _ := f.Type().(*types.Signature)
	for i, a := range c.Args {
		r := w.refArg(a)
		if r == nil {
			continue
		}
		idx := i
		if sig != nil && sig.Variadic() && idx >= sig.Params().Len()-1 {
			idx = sig.Params().Len() - 1
		}
		switch {
		case own:
			if w.an.paramWritten(f, idx) {
				w.write(r, fmt.Sprintf("argument %d of %s, which writes it", i, funcName(f)))
			}
		case pkgPath == "math/big" && typName == "Int":
			for _, d := range bigIntDestArgs[f.Name()] {
				if d == i {
					w.write(r, "destination operand of big.Int."+f.Name())
				}
			}
		case f.Name() == "Write" && recv != nil: // io.Writer contract: Write must not modify the slice
		case f.Name() == "UnmarshalBinary" && recv != nil && pkgPath == "encoding" && typName == "BinaryUnmarshaler":
			// encoding.BinaryUnmarshaler contract: the data is read, and copied if the callee keeps it
		case f.Pkg() != nil && (readOnlyPkgs[f.Pkg().Name()] || readOnlyFuncs[f.Pkg().Name()+"."+f.Name()]):
		default:
			w.write(r, "passed to "+funcName(f))
		}
	}
}

func (w *walker) node(n ast.Node) bool {
	switch x := n.(type) {
	case *ast.Ident:
		if o := w.lp.info.Uses[x]; o != nil && w.tracked(o) {
			w.reads[o] = true
		}
	case *ast.AssignStmt:
		for _, l := range x.Lhs {
			if id, ok := l.(*ast.Ident); ok {
				o := w.lp.info.Uses[id]
				if o != nil && w.tracked(o) && !w.param {
					w.write(o, "assigned")
				}
				continue
			}
			if r := w.rootOf(l); r != nil {
				w.write(r, "assigned through index/field/pointer")
			}
		}
		if len(x.Lhs) == len(x.Rhs) {
			for i, rh := range x.Rhs {
				r := w.refArg(rh)
				id, isId := x.Lhs[i].(*ast.Ident)
				if r == nil {
					continue // flow-insensitive: a local that was an alias once stays one (it may be re-assigned on one branch only)
				}
				if isId && id.Name != "_" {
					if o := w.objOf(id); o != nil && !isPkgLevelVar(o) {
						w.alias[o] = r
						continue
					}
				}
				if !isId {
					w.write(r, "stored as a reference")
				}
			}
		} else if len(x.Lhs) == 2 && len(x.Rhs) == 1 { // v, ok := m[k] / x.(T) / <-ch
			if r := w.commaOkRoot(x.Rhs[0]); r != nil {
				if id, isId := x.Lhs[0].(*ast.Ident); isId {
					if o := w.objOf(id); id.Name != "_" && o != nil && !isPkgLevelVar(o) {
						w.alias[o] = r
					}
				} else {
					w.write(r, "stored as a reference")
				}
			}
		}
	case *ast.ValueSpec:
		if len(x.Names) == len(x.Values) {
			for i, v := range x.Values {
				if r := w.refArg(v); r != nil {
					if o := w.lp.info.Defs[x.Names[i]]; o != nil {
						w.alias[o] = r
					}
				}
			}
		} else if len(x.Names) == 2 && len(x.Values) == 1 {
			if r := w.commaOkRoot(x.Values[0]); r != nil {
				if o := w.lp.info.Defs[x.Names[0]]; o != nil {
					w.alias[o] = r
				}
			}
		}
	case *ast.TypeSwitchStmt: // switch v := x.(type): the per-clause variables share memory with x
		var src ast.Expr
		switch a := x.Assign.(type) {
		case *ast.AssignStmt:
			if len(a.Rhs) == 1 {
				src = a.Rhs[0]
			}
		case *ast.ExprStmt:
			src = a.X
		}
		if src != nil {
			if r := w.rootOf(src); r != nil {
				for _, cl := range x.Body.List {
					if o := w.lp.info.Implicits[cl]; o != nil {
						w.alias[o] = r
					}
				}
			}
		}
	case *ast.SelectorExpr: // method VALUE x.M bound to tracked memory (not in call position): M may write x whenever called
		if sel, ok := w.lp.info.Selections[x]; ok && sel.Kind() == types.MethodVal && !w.callFun[x] {
			if r := w.rootOf(x.X); r != nil {
				if f, ok := sel.Obj().(*types.Func); ok {
					_, _, ptr := recvNamed(f)
					if ptr || isRef(w.typeOf(x.X), 0) {
						w.write(r, "method value "+funcName(f)+" bound to it (not followed)")
					}
				}
			}
		}
	case *ast.IncDecStmt:
		if r := w.rootOf(x.X); r != nil {
			w.write(r, "incremented/decremented")
		}
	case *ast.UnaryExpr:
		if x.Op == token.AND && !w.handed[x] {
			if r := w.rootOf(x.X); r != nil {
				w.write(r, "address taken")
			}
		}
	case *ast.CallExpr:
		if w.callFun == nil {
			w.callFun = map[ast.Expr]bool{}
		}
		w.callFun[unparen(x.Fun)] = true
		w.call(x)
	case *ast.ReturnStmt:
		for _, e := range x.Results {
			if r := w.refArg(e); r != nil {
				w.write(r, "returned as a reference")
			}
		}
	case *ast.CompositeLit:
		for _, e := range x.Elts {
			if kv, ok := e.(*ast.KeyValueExpr); ok {
				e = kv.Value
			}
			if r := w.refArg(e); r != nil {
				w.write(r, "stored in a composite value")
			}
		}
	case *ast.SendStmt:
		if r := w.refArg(x.Value); r != nil {
			w.write(r, "sent on a channel")
		}
	case *ast.RangeStmt:
		src := w.rootOf(x.X)
		for _, e := range []ast.Expr{x.Key, x.Value} {
			if e == nil {
				continue
			}
			if id, ok := e.(*ast.Ident); ok {
				o := w.objOf(id)
				switch {
				case id.Name == "_" || o == nil:
				case w.tracked(o):
					if !w.param {
						w.write(o, "range assignment")
					}
				case src != nil && isRef(o.Type(), 0) && !isPkgLevelVar(o):
					// for _, n := range pool: an element of reference kind shares memory with what the container holds
					w.alias[o] = src
				}
				continue
			}
			if r := w.rootOf(e); r != nil {
				w.write(r, "range assignment")
			}
			if src != nil && isRef(w.typeOf(e), 0) {
				w.write(src, "element stored as a reference by range")
			}
		}
	}
	return true
}

// commaOkRoot: the tracked root of the value of a two-valued expression (m[k], x.(T), <-ch) when it is of reference kind
func (w *walker) commaOkRoot(e ast.Expr) types.Object {
	switch unparen(e).(type) {
	case *ast.IndexExpr, *ast.TypeAssertExpr, *ast.UnaryExpr:
	default:
		return nil
	}
	r := w.rootOf(e)
	if r == nil {
		return nil
	}
	t := w.typeOf(e)
	if tup, ok := t.(*types.Tuple); ok && tup.Len() > 0 {
		t = tup.At(0).Type()
	}
	if !isRef(t, 0) {
		return nil
	}
	return r
}

// walk: the body is inspected until the alias map is stable (a use may precede, in the text, the assignment that makes
// a local an alias — loops), the findings of the last pass count
func (w *walker) walk(body ast.Node) {
	for pass := 0; pass < 8; pass++ {
		n := len(w.alias)
		w.out, w.handed, w.callFun = nil, nil, nil
		ast.Inspect(body, w.node)
		if len(w.alias) == n && pass > 0 {
			return
		}
	}
}

func (w *walker) objOf(id *ast.Ident) types.Object {
	if o := w.lp.info.Defs[id]; o != nil {
		return o
	}
	return w.lp.info.Uses[id]
}

// paramWritten: does fn write (or hand on) the memory its parameter idx (-1 = receiver) refers to?
func (an *analysis) paramWritten(f *types.Func, idx int) bool {
	key := fmt.Sprintf("%s#%d", f.FullName(), idx)
	switch an.memo[key] {
	case 1, 3:
		return true // recursion: assume the worst
	case 2:
		return false
	}
	an.memo[key] = 1
	fd, lp := an.decl[f], an.owner[f]
	res := true
	if fd != nil && fd.Body != nil {
		var id *ast.Ident
		if idx < 0 {
			if fd.Recv != nil && len(fd.Recv.List) == 1 && len(fd.Recv.List[0].Names) == 1 {
				id = fd.Recv.List[0].Names[0]
			}
		} else {
			n := 0
			for _, fl := range fd.Type.Params.List {
				for _, nm := range fl.Names {
					if n == idx {
						id = nm
					}
					n++
				}
				if len(fl.Names) == 0 {
					n++
				}
			}
		}
		if id == nil || id.Name == "_" {
			res = false // unnamed: cannot be used
		} else {
			po := lp.info.Defs[id]
			w := &walker{an: an, lp: lp, fn: funcName(f), tracked: func(o types.Object) bool { return o == po }, param: true,
				alias: map[types.Object]types.Object{}, reads: map[types.Object]bool{}, syncs: map[types.Object]bool{}}
			w.walk(fd.Body)
			res = len(w.out) > 0
		}
	}
	if res {
		an.memo[key] = 3
	} else {
		an.memo[key] = 2
	}
	return res
}

// unit: a body that runs after initialisation — a declared function / method, or a func literal found in the
// initialiser of a package-level variable (it can only capture package-level state)
type unit struct {
	name string
	f    *types.Func  // nil for a literal
	lit  *ast.FuncLit // nil for a declared function
	body *ast.BlockStmt
	lp   *loadedPkg
}

func (an *analysis) unitOfFunc(f *types.Func) *unit {
	fd := an.decl[f]
	if fd == nil {
		return nil
	}
	return &unit{name: funcName(f), f: f, body: fd.Body, lp: an.owner[f]}
}

// closure of the roots inside the fully loaded packages; `stop` names functions that bound it. A call through a
// package-level func variable whose only value is a func literal continues in that literal.
func (an *analysis) closure(roots []*unit, stop map[string]bool) []*unit {
	seen := map[interface{}]bool{}
	var order []*unit
	var visit func(u *unit)
	visit = func(u *unit) {
		if u == nil || stop[u.name] {
			return
		}
		var key interface{} = u.f
		if u.f == nil {
			key = u.lit
		}
		if seen[key] {
			return
		}
		seen[key] = true
		order = append(order, u)
		if u.body == nil {
			return
		}
		w := &walker{an: an, lp: u.lp}
		ast.Inspect(u.body, func(n ast.Node) bool {
			switch x := n.(type) {
			case *ast.CallExpr:
				if g, _, _, _ := w.callee(x); g != nil {
					visit(an.unitOfFunc(g))
				}
			case *ast.Ident: // any mention of a func variable with a literal body (called now, or handed on and called later)
				if o := u.lp.info.Uses[x]; o != nil {
					if lit := an.litOf[o]; lit != nil {
						visit(&unit{name: "func literal of " + varName(o), lit: lit, body: lit.Body, lp: an.litLp[lit]})
					}
				}
			case *ast.SelectorExpr: // method values / method expressions: the method may be called later
				if sel, ok := u.lp.info.Selections[x]; ok && sel.Kind() != types.FieldVal {
					if g, ok := sel.Obj().(*types.Func); ok {
						visit(an.unitOfFunc(g))
					}
				}
			}
			return true
		})
	}
	for _, r := range roots {
		visit(r)
	}
	return order
}

func (an *analysis) lookup(lp *loadedPkg, recv, name string) (*types.Func, error) {
	if recv == "" {
		if f, ok := lp.pkg.Scope().Lookup(name).(*types.Func); ok {
			return f, nil
		}
		return nil, fmt.Errorf("%s: function %s not found", lp.pkg.Name(), name)
	}
	tn, ok := lp.pkg.Scope().Lookup(recv).(*types.TypeName)
	if !ok {
		return nil, fmt.Errorf("%s: type %s not found", lp.pkg.Name(), recv)
	}
	o, _, _ := types.LookupFieldOrMethod(types.NewPointer(tn.Type()), true, lp.pkg, name)
	if f, ok := o.(*types.Func); ok {
		return f, nil
	}
	return nil, fmt.Errorf("%s: method %s.%s not found", lp.pkg.Name(), recv, name)
}

func leanStrList(xs []string) string {
	if len(xs) == 0 {
		return "[]"
	}
	var q []string
	for _, x := range xs {
		q = append(q, "\""+strings.ReplaceAll(strings.ReplaceAll(x, "\\", "\\\\"), "\"", "\\\"")+"\"")
	}
	return "[\n  " + strings.Join(q, ",\n  ") + "]"
}

// sharedFacts: the result of the analysis of one package
type sharedFacts struct {
	reads, writes, syncs []string
	invShared            bool
}

// analysePkg classifies every use of a package-level variable by the code of lp that runs after initialisation:
// every declared function except init / init_contants, and every func literal in the initialiser of a package-level
// variable except one that is called on the spot (that call IS initialisation; what it returns is judged where it is
// used). invName names the function whose call closure decides invScratchShared.
func analysePkg(fset *token.FileSet, lp *loadedPkg, invName string) (*sharedFacts, error) {
	an := &analysis{fset: fset, pkgs: []*loadedPkg{lp}, decl: map[*types.Func]*ast.FuncDecl{}, owner: map[*types.Func]*loadedPkg{}, memo: map[string]int{},
		litOf: map[types.Object]*ast.FuncLit{}, litLp: map[*ast.FuncLit]*loadedPkg{}}
	var roots []*unit
	var invRoot *unit
	for _, f := range lp.files {
		for _, d := range f.Decls {
			switch fd := d.(type) {
			case *ast.FuncDecl:
				fo, ok := lp.info.Defs[fd.Name].(*types.Func)
				if !ok {
					continue
				}
				an.decl[fo], an.owner[fo] = fd, lp
			case *ast.GenDecl:
				if fd.Tok != token.VAR {
					continue
				}
				for _, sp := range fd.Specs {
					vs := sp.(*ast.ValueSpec)
					for i, v := range vs.Values {
						if lit, ok := unparen(v).(*ast.FuncLit); ok && len(vs.Names) == len(vs.Values) {
							if o := lp.info.Defs[vs.Names[i]]; o != nil {
								an.litOf[o], an.litLp[lit] = lit, lp
							}
						}
					}
				}
			}
		}
	}
	// a func variable that is assigned anywhere (init included) does not keep its literal: calls through it are not followed
	for _, f := range lp.files {
		ast.Inspect(f, func(n ast.Node) bool {
			switch x := n.(type) {
			case *ast.AssignStmt:
				for _, l := range x.Lhs {
					if id, ok := unparen(l).(*ast.Ident); ok {
						delete(an.litOf, lp.info.Uses[id])
					}
				}
			case *ast.UnaryExpr: // &fnVar: may be assigned through the pointer
				if id, ok := unparen(x.X).(*ast.Ident); ok && x.Op == token.AND {
					delete(an.litOf, lp.info.Uses[id])
				}
			case *ast.RangeStmt:
				for _, e := range []ast.Expr{x.Key, x.Value} {
					if id, ok := e.(*ast.Ident); ok {
						delete(an.litOf, lp.info.Uses[id])
					}
				}
			}
			return true
		})
	}
	for _, f := range lp.files {
		for _, d := range f.Decls {
			switch fd := d.(type) {
			case *ast.FuncDecl:
				fo, ok := lp.info.Defs[fd.Name].(*types.Func)
				// initialisation (runs once, before any caller): init() has no object; init_contants is its helper
				if !ok || fd.Name.Name == "init" || fd.Name.Name == "init_contants" {
					continue
				}
				u := an.unitOfFunc(fo)
				roots = append(roots, u)
				if u.name == invName {
					invRoot = u
				}
			case *ast.GenDecl:
				if fd.Tok != token.VAR {
					continue
				}
				for _, sp := range fd.Specs {
					vs := sp.(*ast.ValueSpec)
					nm := "?"
					if len(vs.Names) > 0 {
						nm = vs.Names[0].Name
					}
					for _, v := range vs.Values {
						var onSpot *ast.FuncLit
						if c, ok := unparen(v).(*ast.CallExpr); ok {
							onSpot, _ = unparen(c.Fun).(*ast.FuncLit)
						}
						ast.Inspect(v, func(n ast.Node) bool {
							lit, ok := n.(*ast.FuncLit)
							if !ok {
								return true
							}
							if lit == onSpot {
								return true // its own statements run during initialisation; literals nested in it are scanned
							}
							roots = append(roots, &unit{name: fmt.Sprintf("%s.func literal in the initialiser of %s", lp.pkg.Name(), nm), lit: lit, body: lit.Body, lp: lp})
							return false // nested literals are part of this body
						})
					}
				}
			}
		}
	}
	if invRoot == nil {
		return nil, fmt.Errorf("%s not found", invName)
	}
	sort.SliceStable(roots, func(i, j int) bool { return roots[i].name < roots[j].name })
	readSet, writeSet, syncSet := map[string]bool{}, map[string]bool{}, map[string]bool{}
	scan := func(us []*unit) (writes []finding) {
		for _, u := range us {
			if u.body == nil {
				continue
			}
			w := &walker{an: an, lp: u.lp, fn: u.name, tracked: isPkgLevelVar, alias: map[types.Object]types.Object{},
				reads: map[types.Object]bool{}, syncs: map[types.Object]bool{}}
			w.walk(u.body)
			for o := range w.reads {
				readSet[varName(o)] = true
			}
			for o := range w.syncs {
				syncSet[varName(o)] = true
			}
			writes = append(writes, w.out...)
		}
		return
	}
	stop := map[string]bool{lp.pkg.Name() + ".init_contants": true}
	for _, fd := range scan(an.closure(roots, stop)) {
		writeSet[fd.fn+": "+fd.v+" ("+fd.how+")"] = true
	}
	// Field.InvVar and what it calls inside the package: is one of the values it writes package-level?
	invShared := false
	{
		r2, w2, s2 := readSet, writeSet, syncSet
		readSet, writeSet, syncSet = map[string]bool{}, map[string]bool{}, map[string]bool{}
		invShared = len(scan(an.closure([]*unit{invRoot}, stop))) > 0
		readSet, writeSet, syncSet = r2, w2, s2
	}
	keys := func(m map[string]bool) (out []string) {
		for k := range m {
			out = append(out, k)
		}
		sort.Strings(out)
		return
	}
	return &sharedFacts{keys(readSet), keys(writeSet), keys(syncSet), invShared}, nil
}

// genShared writes Gen/C08Shared.lean and returns the number of regenerated definitions.
func genShared() (int, error) {
	fset := token.NewFileSet()
	path := gocoinMod + "lib/secp256k1"
	m := &srcImporter{fset: fset, std: importer.ForCompiler(fset, "source", nil), full: map[string]bool{path: true}, loaded: map[string]*loadedPkg{}}
	lp, err := m.load(path)
	if err != nil {
		return 0, err
	}
	// the analysis must first prove itself on known shapes (selftest.go): every way of hoisting InvVar's scratch number
	// to package level that it claims to follow has to be reported, the harmless shapes of the package must not be
	if err := sharedSelfTest(m); err != nil {
		return 0, fmt.Errorf("shared-state analysis self-test: %v", err)
	}
	sf, err := analysePkg(fset, lp, "secp256k1.Field.InvVar")
	if err != nil {
		return 0, err
	}
	var sb strings.Builder
	sb.WriteString("/- GENERATED by go/cmd/gen_c08 (shared.go) from lib/secp256k1 — do not edit; not in git. -/\n")
	sb.WriteString("namespace GocoinV.Gen.C08Shared\n\n")
	sb.WriteString("/-- package-level variables used by the functions of lib/secp256k1 (everything except init / init_contants) -/\n")
	fmt.Fprintf(&sb, "def globalsRead : List String := %s\n\n", leanStrList(sf.reads))
	sb.WriteString("/-- uses that write one of them (or hand it on as a reference, or reach it in a way the analysis does not follow): \"function: variable (how)\" -/\n")
	fmt.Fprintf(&sb, "def globalsWritten : List String := %s\n\n", leanStrList(sf.writes))
	sb.WriteString("/-- a value written inside Field.InvVar (its big-integer scratch number, …) is a package-level variable -/\n")
	fmt.Fprintf(&sb, "def invScratchShared : Bool := %v\n\n", sf.invShared)
	fmt.Fprintf(&sb, "-- synchronised (sync / sync/atomic receivers, allowed): %s\n\n", strings.Join(sf.syncs, ", "))
	sb.WriteString("end GocoinV.Gen.C08Shared\n")
	out := vlib.Root() + "/lean/GocoinV/Gen/C08Shared.lean"
	os.Remove(out)
	if err := os.WriteFile(out, []byte(sb.String()), 0644); err != nil {
		return 0, err
	}
	for _, k := range sf.writes {
		fmt.Println("SHARED-WRITE", k)
	}
	return 3, nil
}
