// xlate.go — typed Go→Lean translator for straight-line fixed-width integer code (C08).
//
// Every Go function of lib/secp256k1/field_5x52.go becomes one Lean `def` over Nat with the
// 64-bit / 8-bit wrap-around written out explicitly:
//
//	a + b            ↦ ((a + b) % 2^w)            a - b   ↦ ((a + 2^w - b) % 2^w)
//	a * b            ↦ ((a * b) % 2^w)            a << k  ↦ ((a <<< k) % 2^w)      (k constant < w)
//	a >> k           ↦ (a >>> k)                  a & b   ↦ (a &&& b)   a | b ↦ (a ||| b)   a ^ b ↦ (a ^^^ b)
//	byte(x)          ↦ (x % 256)                  uint64(b) ↦ b
//	bits.Mul64(a,b)  ↦ hi = (a*b) / 2^64, lo = (a*b) % 2^64
//	bits.Add64(x,y,c)↦ sum = (x+y+c) % 2^64, carry = (x+y+c) / 2^64
//	a == b, a != b, a >= b …, &&, ||  ↦ Bool (decide …)
//	if c { x op= e … }   ↦ the body's lets are emitted (they are pure), then
//	                        let x' := if c then x_body else x_before        for every x assigned
//
// one `let` per Go assignment (SSA names x_1, x_2, …). Types and constant values come from go/types
// (so untyped-constant arithmetic such as 0xFFFFEFFFFFC2F*2 or R<<12 is folded exactly as the Go
// compiler does it). Nat was chosen over UInt64 because `omega` then closes the carry/interval goals
// of the proofs directly; all values stay < 2^w by construction for inputs < 2^w.
//
// Anything not listed here is a hard error (the tie is reported broken, nothing is skipped).
package main

import (
	"fmt"
	"go/ast"
	"go/constant"
	"go/token"
	"go/types"
	"sort"
	"strings"
)

type kind int

const (
	kU8 kind = iota
	kU64
	kBool
)

func (k kind) width() uint {
	if k == kU8 {
		return 8
	}
	return 64
}

func pow2(w uint) string {
	if w == 8 {
		return "256"
	}
	return "18446744073709551616"
}

type binding struct {
	lean string
	k    kind
}

// fieldParam describes a parameter (or receiver) of type *Field / Field.
type xl struct {
	info   *types.Info
	fname  string
	env    map[string]binding // Go lvalue key -> current Lean term
	ver    map[string]int
	lines  []string
	fieldP map[string]bool // names of *Field params
	bytesP map[string]bool // names of []byte params
	// alias-safety bookkeeping: limb indices written so far per field param
	written map[string]map[int]bool
	outs    map[string]bool // field / byte params that are assigned
	ret     string          // translated return expression ("" if none)
	retK    kind
	indent  string
}

func (x *xl) errf(n ast.Node, f string, a ...interface{}) error {
	return fmt.Errorf("%s: %s (at offset %d)", x.fname, fmt.Sprintf(f, a...), n.Pos())
}

func (x *xl) emit(s string) { x.lines = append(x.lines, x.indent+s) }

func sanitize(s string) string {
	r := strings.NewReplacer(".", "_", "[", "", "]", "")
	return r.Replace(s)
}

func (x *xl) fresh(key string, k kind) string {
	base := sanitize(key)
	x.ver[base]++
	n := fmt.Sprintf("%s_%d", base, x.ver[base])
	x.env[key] = binding{n, k}
	return n
}

func (x *xl) kindOf(e ast.Expr) (kind, error) {
	tv, ok := x.info.Types[e]
	if !ok {
		return 0, x.errf(e, "no type information")
	}
	return kindOfType(tv.Type)
}

func kindOfType(t types.Type) (kind, error) {
	b, ok := t.Underlying().(*types.Basic)
	if !ok {
		return 0, fmt.Errorf("unsupported type %s", t)
	}
	switch b.Kind() {
	case types.Uint64:
		return kU64, nil
	case types.Uint8:
		return kU8, nil
	case types.Bool, types.UntypedBool:
		return kBool, nil
	}
	return 0, fmt.Errorf("unsupported basic type %s", t)
}

// lvalue key: ident | P.n[i] (P a *Field param) | B[i] (B a []byte param)
func (x *xl) key(e ast.Expr) (string, error) {
	switch v := e.(type) {
	case *ast.ParenExpr:
		return x.key(v.X)
	case *ast.Ident:
		return v.Name, nil
	case *ast.IndexExpr:
		tv, ok := x.info.Types[v.Index]
		if !ok || tv.Value == nil {
			return "", x.errf(e, "non-constant index")
		}
		idx, ok := constant.Int64Val(tv.Value)
		if !ok || idx < 0 {
			return "", x.errf(e, "bad index")
		}
		switch b := v.X.(type) {
		case *ast.SelectorExpr:
			id, ok := b.X.(*ast.Ident)
			if !ok || b.Sel.Name != "n" || !x.fieldP[id.Name] {
				return "", x.errf(e, "unsupported indexed selector")
			}
			if idx > 4 {
				return "", x.errf(e, "limb index %d out of range", idx)
			}
			return fmt.Sprintf("%s.n[%d]", id.Name, idx), nil
		case *ast.Ident:
			if !x.bytesP[b.Name] {
				return "", x.errf(e, "indexing of non-[]byte %s", b.Name)
			}
			if idx > 31 {
				return "", x.errf(e, "byte index %d out of range", idx)
			}
			return fmt.Sprintf("%s[%d]", b.Name, idx), nil
		}
	}
	return "", x.errf(e, "unsupported lvalue %T", e)
}

func (x *xl) constLit(e ast.Expr, tv types.TypeAndValue) (string, kind, error) {
	k, err := kindOfType(tv.Type)
	if err != nil {
		return "", 0, x.errf(e, "constant of %v", err)
	}
	if k == kBool {
		if constant.BoolVal(tv.Value) {
			return "true", kBool, nil
		}
		return "false", kBool, nil
	}
	v := constant.ToInt(tv.Value)
	if v.Kind() != constant.Int || constant.Sign(v) < 0 {
		return "", 0, x.errf(e, "non-natural constant %s", tv.Value)
	}
	if constant.Compare(v, token.GEQ, constant.Shift(constant.MakeInt64(1), token.SHL, k.width())) {
		return "", 0, x.errf(e, "constant %s does not fit", tv.Value)
	}
	return v.ExactString(), k, nil
}

func (x *xl) expr(e ast.Expr) (string, kind, error) {
	tv, ok := x.info.Types[e]
	if !ok {
		return "", 0, x.errf(e, "no type information for %T", e)
	}
	if tv.Value != nil { // constant expression: folded by the type checker exactly as by the compiler
		return x.constLit(e, tv)
	}
	switch v := e.(type) {
	case *ast.ParenExpr:
		return x.expr(v.X)
	case *ast.Ident, *ast.IndexExpr:
		k, err := x.key(e)
		if err != nil {
			return "", 0, err
		}
		b, ok := x.env[k]
		if !ok {
			return "", 0, x.errf(e, "unknown variable %s", k)
		}
		// alias safety: reading P.n[i] after some other field's limb i was written would see the
		// new value if the two pointers alias (e.g. a.Negate(&a,1)); refuse such code.
		if i := strings.Index(k, ".n["); i > 0 {
			p := k[:i]
			var idx int
			fmt.Sscanf(k[i+3:], "%d", &idx)
			for q, w := range x.written {
				if q != p && w[idx] {
					return "", 0, x.errf(e, "read of %s after write of %s.n[%d]: not alias-safe", k, q, idx)
				}
			}
		}
		return b.lean, b.k, nil
	case *ast.CallExpr: // conversions only
		if len(v.Args) != 1 {
			return "", 0, x.errf(e, "unsupported call in expression")
		}
		ftv, ok := x.info.Types[v.Fun]
		if !ok || !ftv.IsType() {
			return "", 0, x.errf(e, "unsupported call in expression (not a conversion)")
		}
		to, err := kindOfType(ftv.Type)
		if err != nil || to == kBool {
			return "", 0, x.errf(e, "unsupported conversion")
		}
		s, from, err := x.expr(v.Args[0])
		if err != nil {
			return "", 0, err
		}
		switch {
		case from == to:
			return s, to, nil
		case from == kU8 && to == kU64:
			return s, to, nil
		case from == kU64 && to == kU8:
			return fmt.Sprintf("(%s %% 256)", s), to, nil
		}
		return "", 0, x.errf(e, "unsupported conversion")
	case *ast.BinaryExpr:
		switch v.Op {
		case token.SHL, token.SHR:
			a, ka, err := x.expr(v.X)
			if err != nil {
				return "", 0, err
			}
			ctv := x.info.Types[v.Y]
			if ctv.Value == nil {
				return "", 0, x.errf(e, "non-constant shift count")
			}
			n, ok := constant.Uint64Val(constant.ToInt(ctv.Value))
			if !ok || n >= uint64(ka.width()) {
				return "", 0, x.errf(e, "shift count not below the width")
			}
			if ka == kBool {
				return "", 0, x.errf(e, "shift of bool")
			}
			if v.Op == token.SHR {
				return fmt.Sprintf("(%s >>> %d)", a, n), ka, nil
			}
			return fmt.Sprintf("((%s <<< %d) %% %s)", a, n, pow2(ka.width())), ka, nil
		case token.LAND, token.LOR:
			a, ka, err := x.expr(v.X)
			if err != nil {
				return "", 0, err
			}
			b, kb, err := x.expr(v.Y)
			if err != nil {
				return "", 0, err
			}
			if ka != kBool || kb != kBool {
				return "", 0, x.errf(e, "&&/|| of non-bool")
			}
			op := "&&"
			if v.Op == token.LOR {
				op = "||"
			}
			return fmt.Sprintf("(%s %s %s)", a, op, b), kBool, nil
		}
		a, ka, err := x.expr(v.X)
		if err != nil {
			return "", 0, err
		}
		b, kb, err := x.expr(v.Y)
		if err != nil {
			return "", 0, err
		}
		if ka != kb {
			return "", 0, x.errf(e, "operand kinds differ")
		}
		switch v.Op {
		case token.EQL, token.NEQ, token.LSS, token.LEQ, token.GTR, token.GEQ:
			if ka == kBool {
				return "", 0, x.errf(e, "comparison of bools")
			}
			op := map[token.Token]string{token.EQL: "=", token.NEQ: "≠", token.LSS: "<", token.LEQ: "≤", token.GTR: ">", token.GEQ: "≥"}[v.Op]
			return fmt.Sprintf("(decide (%s %s %s))", a, op, b), kBool, nil
		}
		if ka == kBool {
			return "", 0, x.errf(e, "arithmetic on bool")
		}
		w := pow2(ka.width())
		switch v.Op {
		case token.ADD:
			return fmt.Sprintf("((%s + %s) %% %s)", a, b, w), ka, nil
		case token.SUB:
			return fmt.Sprintf("((%s + %s - %s) %% %s)", a, w, b, w), ka, nil
		case token.MUL:
			return fmt.Sprintf("((%s * %s) %% %s)", a, b, w), ka, nil
		case token.AND:
			return fmt.Sprintf("(%s &&& %s)", a, b), ka, nil
		case token.OR:
			return fmt.Sprintf("(%s ||| %s)", a, b), ka, nil
		case token.XOR:
			return fmt.Sprintf("(%s ^^^ %s)", a, b), ka, nil
		}
		return "", 0, x.errf(e, "unsupported binary operator %s", v.Op)
	}
	return "", 0, x.errf(e, "unsupported expression %T", e)
}

// assign binds one lvalue to an already translated value.
func (x *xl) assign(lhs ast.Expr, val string, k kind) error {
	if id, ok := lhs.(*ast.Ident); ok && id.Name == "_" {
		return nil
	}
	key, err := x.key(lhs)
	if err != nil {
		return err
	}
	// the kind of the target must agree
	if old, ok := x.env[key]; ok && old.k != k {
		return x.errf(lhs, "kind of %s changes", key)
	}
	if i := strings.Index(key, ".n["); i > 0 {
		p := key[:i]
		var idx int
		fmt.Sscanf(key[i+3:], "%d", &idx)
		if x.written[p] == nil {
			x.written[p] = map[int]bool{}
		}
		x.written[p][idx] = true
		x.outs[p] = true
		if k != kU64 {
			return x.errf(lhs, "limb assigned a non-uint64")
		}
	} else if i := strings.Index(key, "["); i > 0 {
		x.outs[key[:i]] = true
		if k != kU8 {
			return x.errf(lhs, "byte slot assigned a non-byte")
		}
	}
	n := x.fresh(key, k)
	ty := "Nat"
	if k == kBool {
		ty = "Bool"
	}
	x.emit(fmt.Sprintf("let %s : %s := %s", n, ty, val))
	return nil
}

func (x *xl) bitsCall(e ast.Expr) (name string, args []ast.Expr, ok bool) {
	c, isCall := e.(*ast.CallExpr)
	if !isCall {
		return
	}
	sel, isSel := c.Fun.(*ast.SelectorExpr)
	if !isSel {
		return
	}
	pk, isId := sel.X.(*ast.Ident)
	if !isId {
		return
	}
	if pn, isPkg := x.info.Uses[pk].(*types.PkgName); !isPkg || pn.Imported().Path() != "math/bits" {
		return
	}
	return sel.Sel.Name, c.Args, true
}

var opOfAssign = map[token.Token]token.Token{
	token.ADD_ASSIGN: token.ADD, token.SUB_ASSIGN: token.SUB, token.MUL_ASSIGN: token.MUL,
	token.AND_ASSIGN: token.AND, token.OR_ASSIGN: token.OR, token.XOR_ASSIGN: token.XOR,
	token.SHL_ASSIGN: token.SHL, token.SHR_ASSIGN: token.SHR,
}

func (x *xl) stmt(st ast.Stmt) error {
	if x.ret != "" {
		return x.errf(st, "statement after return")
	}
	switch s := st.(type) {
	case *ast.DeclStmt:
		gd, ok := s.Decl.(*ast.GenDecl)
		if !ok || gd.Tok != token.VAR {
			return x.errf(st, "unsupported declaration")
		}
		for _, sp := range gd.Specs {
			vs := sp.(*ast.ValueSpec)
			if len(vs.Values) != 0 {
				return x.errf(st, "var with initialiser not supported")
			}
			for _, n := range vs.Names {
				obj := x.info.Defs[n]
				if obj == nil {
					return x.errf(st, "no object for %s", n.Name)
				}
				k, err := kindOfType(obj.Type())
				if err != nil || k == kBool {
					return x.errf(st, "var %s: unsupported type", n.Name)
				}
				if err := x.assign(n, "0", k); err != nil {
					return err
				}
			}
		}
		return nil
	case *ast.AssignStmt:
		if op, isOp := opOfAssign[s.Tok]; isOp {
			if len(s.Lhs) != 1 || len(s.Rhs) != 1 {
				return x.errf(st, "op-assign with several operands")
			}
			// x op= e  is  x = x op (e); go/types records no type for the synthesized node, so
			// build the term by hand from the two typed halves.
			be := &ast.BinaryExpr{X: s.Lhs[0], Op: op, Y: s.Rhs[0]}
			// give the synthesized node the type of the lvalue
			x.info.Types[be] = types.TypeAndValue{Type: x.info.Types[s.Lhs[0]].Type}
			val, k, err := x.expr(be)
			delete(x.info.Types, be)
			if err != nil {
				return err
			}
			return x.assign(s.Lhs[0], val, k)
		}
		if s.Tok != token.ASSIGN && s.Tok != token.DEFINE {
			return x.errf(st, "unsupported assignment token %s", s.Tok)
		}
		if len(s.Rhs) == 1 && len(s.Lhs) == 2 {
			name, args, ok := x.bitsCall(s.Rhs[0])
			if !ok {
				return x.errf(st, "two-value assignment from something other than math/bits")
			}
			var av []string
			for _, a := range args {
				t, k, err := x.expr(a)
				if err != nil {
					return err
				}
				if k != kU64 {
					return x.errf(st, "bits.%s argument is not uint64", name)
				}
				av = append(av, t)
			}
			switch {
			case name == "Mul64" && len(av) == 2:
				// hi, lo
				if err := x.assignPair(s.Lhs[0], fmt.Sprintf("((%s * %s) / 18446744073709551616)", av[0], av[1]),
					s.Lhs[1], fmt.Sprintf("((%s * %s) %% 18446744073709551616)", av[0], av[1])); err != nil {
					return err
				}
				return nil
			case name == "Add64" && len(av) == 3:
				// sum, carryOut
				return x.assignPair(s.Lhs[0], fmt.Sprintf("((%s + %s + %s) %% 18446744073709551616)", av[0], av[1], av[2]),
					s.Lhs[1], fmt.Sprintf("((%s + %s + %s) / 18446744073709551616)", av[0], av[1], av[2]))
			}
			return x.errf(st, "unsupported math/bits function %s", name)
		}
		if len(s.Lhs) != len(s.Rhs) {
			return x.errf(st, "unsupported assignment arity")
		}
		// parallel assignment: all right-hand sides first
		type tv struct {
			s string
			k kind
		}
		var vals []tv
		for _, r := range s.Rhs {
			t, k, err := x.expr(r)
			if err != nil {
				return err
			}
			vals = append(vals, tv{t, k})
		}
		for i, l := range s.Lhs {
			if err := x.assign(l, vals[i].s, vals[i].k); err != nil {
				return err
			}
		}
		return nil
	case *ast.IfStmt:
		if s.Init != nil || s.Else != nil {
			return x.errf(st, "if with init/else not supported")
		}
		c, k, err := x.expr(s.Cond)
		if err != nil {
			return err
		}
		if k != kBool {
			return x.errf(st, "condition is not bool")
		}
		x.ver["cond"]++
		cn := fmt.Sprintf("cond_%d", x.ver["cond"])
		x.emit(fmt.Sprintf("let %s : Bool := %s", cn, c))
		before := map[string]binding{}
		for k, v := range x.env {
			before[k] = v
		}
		for _, b := range s.Body.List {
			as, ok := b.(*ast.AssignStmt)
			if !ok {
				return x.errf(b, "only assignments are supported inside if")
			}
			if err := x.stmt(as); err != nil {
				return err
			}
		}
		var changed []string
		for k, v := range x.env {
			if o, ok := before[k]; !ok {
				return x.errf(st, "variable %s defined inside if", k)
			} else if o != v {
				changed = append(changed, k)
			}
		}
		sort.Strings(changed)
		for _, k := range changed {
			inBody := x.env[k]
			n := x.fresh(k, inBody.k)
			x.emit(fmt.Sprintf("let %s : Nat := if %s then %s else %s", n, cn, inBody.lean, before[k].lean))
		}
		return nil
	case *ast.ReturnStmt:
		if len(s.Results) == 0 {
			x.ret = "-"
			return nil
		}
		if len(s.Results) != 1 {
			return x.errf(st, "several results")
		}
		t, k, err := x.expr(s.Results[0])
		if err != nil {
			return err
		}
		x.ret, x.retK = t, k
		return nil
	}
	return x.errf(st, "unsupported statement %T", st)
}

func (x *xl) assignPair(l0 ast.Expr, v0 string, l1 ast.Expr, v1 string) error {
	// both values are computed from the pre-state, then bound
	if err := x.assign(l0, v0, kU64); err != nil {
		return err
	}
	// v1 was rendered before l0 was rebound (strings are already fixed), so this is still parallel
	return x.assign(l1, v1, kU64)
}

// translateFunc renders one Go function as a Lean def named leanName.
func translateFunc(info *types.Info, fd *ast.FuncDecl, leanName string) (string, error) {
	x := &xl{info: info, fname: fd.Name.Name, env: map[string]binding{}, ver: map[string]int{},
		fieldP: map[string]bool{}, bytesP: map[string]bool{}, written: map[string]map[int]bool{}, outs: map[string]bool{}, indent: "  "}
	var params []string
	var order []string
	addParam := func(name string, t ast.Expr) error {
		typ := info.Types[t].Type
		if p, ok := typ.(*types.Pointer); ok {
			typ = p.Elem()
		}
		if nt, ok := typ.(*types.Named); ok && nt.Obj().Name() == "Field" {
			x.fieldP[name] = true
			for i := 0; i < 5; i++ {
				x.env[fmt.Sprintf("%s.n[%d]", name, i)] = binding{fmt.Sprintf("%s.n%d", name, i), kU64}
			}
			order = append(order, name)
			return nil
		}
		if sl, ok := typ.(*types.Slice); ok {
			if k, err := kindOfType(sl.Elem()); err == nil && k == kU8 {
				x.bytesP[name] = true
				for i := 0; i < 32; i++ {
					x.env[fmt.Sprintf("%s[%d]", name, i)] = binding{fmt.Sprintf("(%s %d)", name, i), kU8}
				}
				order = append(order, name)
				return nil
			}
		}
		k, err := kindOfType(typ)
		if err != nil || k != kU64 {
			return fmt.Errorf("%s: parameter %s has unsupported type %s", fd.Name.Name, name, typ)
		}
		x.env[name] = binding{name, kU64}
		order = append(order, name)
		return nil
	}
	if fd.Recv != nil {
		for _, f := range fd.Recv.List {
			for _, n := range f.Names {
				if err := addParam(n.Name, f.Type); err != nil {
					return "", err
				}
			}
		}
	}
	for _, f := range fd.Type.Params.List {
		for _, n := range f.Names {
			if err := addParam(n.Name, f.Type); err != nil {
				return "", err
			}
		}
	}
	for _, st := range fd.Body.List {
		if err := x.stmt(st); err != nil {
			return "", err
		}
	}
	// result
	var outNames []string
	for o := range x.outs {
		outNames = append(outNames, o)
	}
	sort.Strings(outNames)
	var result, rty string
	switch {
	case x.ret != "" && x.ret != "-":
		if len(outNames) != 0 {
			return "", fmt.Errorf("%s: both a result and an output parameter", fd.Name.Name)
		}
		result = x.ret
		rty = "Nat"
		if x.retK == kBool {
			rty = "Bool"
		}
	case len(outNames) == 1 && x.fieldP[outNames[0]]:
		o := outNames[0]
		var fs []string
		for i := 0; i < 5; i++ {
			fs = append(fs, fmt.Sprintf("n%d := %s", i, x.env[fmt.Sprintf("%s.n[%d]", o, i)].lean))
		}
		result = "{ " + strings.Join(fs, ", ") + " }"
		rty = "Fe"
	case len(outNames) == 1 && x.bytesP[outNames[0]]:
		o := outNames[0]
		var fs []string
		for i := 0; i < 32; i++ {
			b := x.env[fmt.Sprintf("%s[%d]", o, i)]
			if strings.HasPrefix(b.lean, "(") {
				return "", fmt.Errorf("%s: output byte %d never assigned", fd.Name.Name, i)
			}
			fs = append(fs, b.lean)
		}
		result = "[" + strings.Join(fs, ", ") + "]"
		rty = "List Nat"
	default:
		return "", fmt.Errorf("%s: cannot determine the result (outputs %v)", fd.Name.Name, outNames)
	}
	// parameters: an output []byte is not an input; an output Field that is never read stays a
	// parameter only if one of its initial limbs is referenced
	used := func(name string) bool {
		body := strings.Join(x.lines, "\n") + "\n" + result
		if x.fieldP[name] {
			return strings.Contains(body, name+".n")
		}
		if x.bytesP[name] {
			return strings.Contains(body, "("+name+" ")
		}
		return true
	}
	for _, n := range order {
		switch {
		case x.fieldP[n]:
			if x.outs[n] && !used(n) {
				continue
			}
			params = append(params, fmt.Sprintf("(%s : Fe)", n))
		case x.bytesP[n]:
			if x.outs[n] {
				if used(n) {
					return "", fmt.Errorf("%s: output slice %s is read", fd.Name.Name, n)
				}
				continue
			}
			params = append(params, fmt.Sprintf("(%s : Nat → Nat)", n))
		default:
			params = append(params, fmt.Sprintf("(%s : Nat)", n))
		}
	}
	var sb strings.Builder
	fmt.Fprintf(&sb, "def %s %s : %s :=\n", leanName, strings.Join(params, " "), rty)
	for _, l := range x.lines {
		sb.WriteString(l + "\n")
	}
	sb.WriteString("  " + result + "\n")
	return sb.String(), nil
}
